/-
Model of /repo/src/selectors_vm/attribute_matcher.rs (all of it, as of commit 11ef1d1) and of the part of
/repo/src/selectors_vm/compiler.rs:98-191 that turns an attribute predicate into a matcher call.

Abstraction: the Rust `AttributeMatcher` holds the input chunk and an `AttributeBuffer` of
(name-range, value-range) outlines; the model holds the already sliced `(name, value)` byte strings in
document order (`input.opt_slice(Some(a.name))` / `input.slice(a.value)`), because the ranges come
from the tokenizer (another package) and are in bounds by its invariant. The `OnceCell` memoisation of
`id`/`class` is semantically the identity (the cell is filled with `get_value(..)` of an immutable
buffer) and is not modelled.

Case sensitivity (where it is decided):
 * selectors-0.37 parser.rs:3204-3240: flag `s` ↦ `ExplicitCaseSensitive`, flag `i` ↦
   `AsciiCaseInsensitive`, no flag ↦ `AsciiCaseInsensitiveIfInHtmlElementInHtmlDocument` if the
   lower-cased attribute name is in the HTML list of 46 names (accept, …, type, …; build.rs), else
   `CaseSensitive`.
 * attribute_matcher.rs:18-35 `to_unconditional` resolves it with
   `is_html_element = (ns == Namespace::Html)` (attribute_matcher.rs:56).
 * compiler.rs:112-138: the attribute *name* operand is ASCII-lower-cased at compile time, the value
   operand is taken as is; `find` lower-cases the names of the element's attributes.
-/
import LolHtml.Basic

namespace LolHtml.Model.AttrMatch

/-- attribute_matcher.rs:12-15 `is_attr_whitespace` -/
def isAttrWhitespace (b : UInt8) : Bool :=
  b == 32 || b == 10 || b == 13 || b == 9 || b == 12

/-- `selectors::attr::ParsedCaseSensitivity` (selectors-0.37 attr.rs:148-158) -/
inductive ParsedCaseSensitivity where
  | explicitCaseSensitive
  | asciiCaseInsensitive
  | caseSensitive
  | asciiCaseInsensitiveIfInHtmlElementInHtmlDocument
  deriving Repr, DecidableEq

/-- `selectors::attr::CaseSensitivity` (attr.rs:160-164) -/
inductive CaseSensitivity where
  | caseSensitive
  | asciiCaseInsensitive
  deriving Repr, DecidableEq

/-- attribute_matcher.rs:18-35 `to_unconditional` -/
def toUnconditional (parsed : ParsedCaseSensitivity) (isHtmlElementInHtmlDocument : Bool) :
    CaseSensitivity :=
  match parsed with
  | .asciiCaseInsensitiveIfInHtmlElementInHtmlDocument =>
    if isHtmlElementInHtmlDocument then .asciiCaseInsensitive else .caseSensitive
  | .caseSensitive | .explicitCaseSensitive => .caseSensitive
  | .asciiCaseInsensitive => .asciiCaseInsensitive

/-- `u8::to_ascii_lowercase` -/
def toAsciiLowercase (b : UInt8) : UInt8 := if 65 ≤ b && b ≤ 90 then b + 32 else b
/-- `u8::to_ascii_uppercase` -/
def toAsciiUppercase (b : UInt8) : UInt8 := if 97 ≤ b && b ≤ 122 then b - 32 else b

/-- `<[u8]>::eq_ignore_ascii_case`: same length and bytewise equal after `to_ascii_lowercase`. -/
def eqIgnoreAsciiCase : Bytes → Bytes → Bool
  | [], [] => true
  | x :: xs, y :: ys => toAsciiLowercase x == toAsciiLowercase y && eqIgnoreAsciiCase xs ys
  | _, _ => false

/-- `CaseSensitivity::eq` (attr.rs:166-172) -/
def CaseSensitivity.eq (cs : CaseSensitivity) (a b : Bytes) : Bool :=
  match cs with
  | .caseSensitive => a == b
  | .asciiCaseInsensitive => eqIgnoreAsciiCase a b

/-- `<[u8]>::split(pred)`: the pieces between separator bytes, *including empty pieces*
(`"a  b"` ↦ `a`, ``, `b`; the empty slice ↦ one empty piece). -/
def split (p : UInt8 → Bool) : Bytes → List Bytes
  | [] => [[]]
  | b :: t =>
    if p b then [] :: split p t
    else match split p t with
      | [] => [[b]]            -- unreachable: `split` never returns `[]`
      | w :: ws => (b :: w) :: ws

/-- `slice.get(..n)`: `None` if `n > len`. -/
def getTo (xs : Bytes) (n : Nat) : Option Bytes :=
  if n ≤ xs.length then some (xs.take n) else none

/-- `slice.get(n..)`: `None` if `n > len`. -/
def getFrom (xs : Bytes) (n : Nat) : Option Bytes :=
  if n ≤ xs.length then some (xs.drop n) else none

/-- `slice.get(n)` -/
def getAt (xs : Bytes) (n : Nat) : Option UInt8 := xs[n]?

/-! ### Value-level operators: the closures passed to `value_matches`
(`actual` = the element's attribute value, `operand` = the selector's value). -/

/-- attribute_matcher.rs:117-122 `attr_eq` closure -/
def attrEqV (cs : CaseSensitivity) (actual operand : Bytes) : Bool :=
  cs.eq actual operand

/-- attribute_matcher.rs:125-135 `matches_splitted_by_whitespace` closure -/
def matchesSplittedByWhitespaceV (cs : CaseSensitivity) (actual operand : Bytes) : Bool :=
  !operand.isEmpty
    && (split isAttrWhitespace actual).any fun part => cs.eq part operand

/-- attribute_matcher.rs:138-151 `has_attr_with_prefix` closure -/
def hasAttrWithPrefixV (cs : CaseSensitivity) (actual operand : Bytes) : Bool :=
  let prefixLen := operand.length
  decide (prefixLen ≠ 0)
    && decide (actual.length ≥ prefixLen)
    && (match getTo actual prefixLen with
        | some pre => cs.eq pre operand
        | none => false)

/-- attribute_matcher.rs:154-169 `has_dash_matching_attr` closure -/
def hasDashMatchingAttrV (cs : CaseSensitivity) (actual operand : Bytes) : Bool :=
  if cs.eq actual operand then true
  else
    let prefixLen := operand.length
    getAt actual prefixLen == some 45
      && (match getTo actual prefixLen with
          | some pre => cs.eq pre operand
          | none => false)

/-- `usize` subtraction: overflow-checked in debug builds (and a wrong huge index otherwise), so it
gets an explicit failure branch. -/
def checkedSub (a b : Nat) : Option Nat := if b ≤ a then some (a - b) else none

/-- attribute_matcher.rs:172-186 `has_attr_with_suffix` closure; `none` = `value_len - suffix_len`
underflows. `&&` short-circuits, so the subtraction is evaluated only after the two guards held. -/
def hasAttrWithSuffixV (cs : CaseSensitivity) (actual operand : Bytes) : Option Bool :=
  let suffixLen := operand.length
  let valueLen := actual.length
  if ¬ (suffixLen ≠ 0) then some false
  else if ¬ (valueLen ≥ suffixLen) then some false
  else
    match checkedSub valueLen suffixLen with
    | none => none
    | some start =>
      match getFrom actual start with
      | some suf => some (cs.eq suf operand)
      | none => some false

/-- `memchr(first, hay)` -/
def memchr (first : UInt8) : Bytes → Option Nat
  | [] => none
  | h :: t => if h == first then some 0 else (memchr first t).map (· + 1)

/-- `memchr2(lo, up, hay)` -/
def memchr2 (lo up : UInt8) : Bytes → Option Nat
  | [] => none
  | h :: t => if h == lo || h == up then some 0 else (memchr2 lo up t).map (· + 1)

/-- attribute_matcher.rs:195-207 the inner `fn search` (a `loop`), with explicit fuel.
Each iteration either returns or strictly shortens `haystack`, so `haystack.length + 1` iterations
suffice (`search_fuel_irrelevant` in `Lemmas/AttrMatch.lean`). Running out of fuel is `none` of the
*outer* option: it would mean the model, not the code, is wrong. -/
def searchLoop (rest : Bytes) (cs : CaseSensitivity) (firstByteSearcher : Bytes → Option Nat) :
    Nat → Bytes → Option Bool
  | 0, _ => none
  | fuel + 1, haystack =>
    -- `haystack = haystack.get(first_byte_searcher(haystack)? + 1..)?;`
    match firstByteSearcher haystack with
    | none => some false
    | some k =>
      match getFrom haystack (k + 1) with
      | none => some false
      | some haystack' =>
        -- `if case_sensitivity.eq(haystack.get(..rest.len())?, rest) { return Some(()) }`
        match getTo haystack' rest.length with
        | none => some false
        | some cand =>
          if cs.eq cand rest then some true
          else searchLoop rest cs firstByteSearcher fuel haystack'

def search (haystack rest : Bytes) (cs : CaseSensitivity) (firstByteSearcher : Bytes → Option Nat) :
    Option Bool :=
  searchLoop rest cs firstByteSearcher (haystack.length + 1) haystack

/-- attribute_matcher.rs:189-221 `has_attr_with_substring` closure (`none` = fuel exhausted). -/
def hasAttrWithSubstringV (cs : CaseSensitivity) (actual operand : Bytes) : Option Bool :=
  match operand with
  | [] => some false                                   -- `split_first()` is `None`
  | firstByte :: rest =>
    match cs with
    | .caseSensitive => search actual rest cs (memchr firstByte)
    | .asciiCaseInsensitive =>
      let lo := toAsciiLowercase firstByte
      let up := toAsciiUppercase firstByte
      search actual rest cs (memchr2 lo up)

/-! ### The matcher object -/

/-- attribute_matcher.rs:39-45 `AttributeMatcher` (see the header for the abstraction). -/
structure AttributeMatcher where
  /-- `(name, value)` of every attribute of the start tag, in source order, duplicates included -/
  attributes : List (Bytes × Bytes)
  /-- `ns == Namespace::Html` -/
  isHtmlElement : Bool

/-- compiler.rs:27-31 `AttrExprOperands` -/
structure AttrExprOperands where
  name : Bytes
  value : Bytes
  caseSensitivity : ParsedCaseSensitivity

/-- attribute_matcher.rs:61-78 `find`: first attribute whose name, ASCII-lower-cased byte by byte,
equals `lowercased_name` (length check first). -/
def AttributeMatcher.find (m : AttributeMatcher) (lowercasedName : Bytes) : Option (Bytes × Bytes) :=
  m.attributes.find? fun a =>
    if a.1.length != lowercasedName.length then false
    else a.1.map toAsciiLowercase == lowercasedName

/-- attribute_matcher.rs:80-83 `get_value` -/
def AttributeMatcher.getValue (m : AttributeMatcher) (lowercasedName : Bytes) : Option Bytes :=
  (m.find lowercasedName).map (·.2)

/-- attribute_matcher.rs:87-89 `has_attribute` -/
def AttributeMatcher.hasAttribute (m : AttributeMatcher) (lowercasedName : Bytes) : Bool :=
  (m.find lowercasedName).isSome

/-- attribute_matcher.rs:9 `ID_ATTR = b"id"` -/
def idAttr : Bytes := [105, 100]
/-- attribute_matcher.rs:10 `CLASS_ATTR = b"class"` -/
def classAttr : Bytes := [99, 108, 97, 115, 115]

/-- attribute_matcher.rs:93-98 `has_id` -/
def AttributeMatcher.hasId (m : AttributeMatcher) (id : Bytes) : Bool :=
  match m.getValue idAttr with
  | some actualId => actualId == id
  | none => false

/-- attribute_matcher.rs:102-109 `has_class` -/
def AttributeMatcher.hasClass (m : AttributeMatcher) (className : Bytes) : Bool :=
  match m.getValue classAttr with
  | some cls => (split isAttrWhitespace cls).any fun actual => actual == className
  | none => false

/-- attribute_matcher.rs:112-114 `value_matches` (lifted to closures that may fail) -/
def AttributeMatcher.valueMatches (m : AttributeMatcher) (name : Bytes)
    (matcher : Bytes → Option Bool) : Option Bool :=
  match m.getValue name with
  | some v => matcher v
  | none => some false

/-- `selectors::attr::AttrSelectorOperator` -/
inductive Op where
  | equal | includes | dashMatch | pre | suffix | substring
  deriving Repr, DecidableEq

/-- The six value-level closures behind one entry point (`none` = a panic / failure branch). -/
def evalOpV (op : Op) (cs : CaseSensitivity) (actual operand : Bytes) : Option Bool :=
  match op with
  | .equal => some (attrEqV cs actual operand)
  | .includes => some (matchesSplittedByWhitespaceV cs actual operand)
  | .dashMatch => some (hasDashMatchingAttrV cs actual operand)
  | .pre => some (hasAttrWithPrefixV cs actual operand)
  | .suffix => hasAttrWithSuffixV cs actual operand
  | .substring => hasAttrWithSubstringV cs actual operand

/-- attribute_matcher.rs:117-221: `attr_eq`, `matches_splitted_by_whitespace`,
`has_attr_with_prefix`, `has_dash_matching_attr`, `has_attr_with_suffix`, `has_attr_with_substring`,
selected by the operator as compiler.rs:164-183 does. -/
def AttributeMatcher.evalOp (m : AttributeMatcher) (op : Op) (operand : AttrExprOperands) :
    Option Bool :=
  m.valueMatches operand.name fun actual =>
    evalOpV op (toUnconditional operand.caseSensitivity m.isHtmlElement) actual operand.value

/-! ### compiler.rs:140-191 — from the parsed predicate to the matcher call -/

/-- The attribute part of `OnAttributesExpr` (ast.rs:98-104), with byte-string operands
(the `Box<str>` literals after `compile_literal`, i.e. encoded in the document encoding). -/
inductive OnAttributesExpr where
  | id (id : Bytes)
  | class_ (cls : Bytes)
  | attributeExists (name : Bytes)
  | attributeComparison (name value : Bytes) (cs : ParsedCaseSensitivity) (op : Op)

/-- `str::make_ascii_lowercase` on the literal (compiler.rs:120-126; ASCII-only, so it commutes with
encoding into an ASCII-compatible document encoding) -/
def makeAsciiLowercase (bs : Bytes) : Bytes := bs.map toAsciiLowercase

/-- compiler.rs:140-191 `Expr<OnAttributesExpr>::compile`, applied to a matcher
(`negation` is compiler.rs:98-108). Note that `AttributeExists` does *not* lower-case at compile
time (compiler.rs:150-151): the parser already hands over `local_name_lower` (ast.rs:123-127). -/
def compiledAttrExpr (negation : Bool) (e : OnAttributesExpr) (m : AttributeMatcher) : Option Bool :=
  let r : Option Bool :=
    match e with
    | .id id => some (m.hasId id)
    | .class_ c => some (m.hasClass c)
    | .attributeExists name => some (m.hasAttribute name)
    | .attributeComparison name value cs op =>
      m.evalOp op { name := makeAsciiLowercase name, value := value, caseSensitivity := cs }
  r.map fun b => if negation then !b else b

/-! ### selectors-0.37 parser.rs:3082-3240 — how the flag and the attribute name pick the case mode -/

/-- parser.rs:3204-3212 `enum AttributeFlags`: `s` flag, `i` flag, no flag. -/
inductive AttributeFlags where
  | caseSensitive
  | asciiCaseInsensitive
  | caseSensitivityDependsOnName
  deriving Repr, DecidableEq

/-- selectors-0.37 build.rs `ASCII_CASE_INSENSITIVE_HTML_ATTRIBUTES` (46 names; the list of
https://html.spec.whatwg.org/multipage/#selectors), as byte strings. -/
def asciiCaseInsensitiveHtmlAttributes : List Bytes := [
    [97, 99, 99, 101, 112, 116],  -- accept
    [97, 99, 99, 101, 112, 116, 45, 99, 104, 97, 114, 115, 101, 116],  -- accept-charset
    [97, 108, 105, 103, 110],  -- align
    [97, 108, 105, 110, 107],  -- alink
    [97, 120, 105, 115],  -- axis
    [98, 103, 99, 111, 108, 111, 114],  -- bgcolor
    [99, 104, 97, 114, 115, 101, 116],  -- charset
    [99, 104, 101, 99, 107, 101, 100],  -- checked
    [99, 108, 101, 97, 114],  -- clear
    [99, 111, 100, 101, 116, 121, 112, 101],  -- codetype
    [99, 111, 108, 111, 114],  -- color
    [99, 111, 109, 112, 97, 99, 116],  -- compact
    [100, 101, 99, 108, 97, 114, 101],  -- declare
    [100, 101, 102, 101, 114],  -- defer
    [100, 105, 114],  -- dir
    [100, 105, 114, 101, 99, 116, 105, 111, 110],  -- direction
    [100, 105, 115, 97, 98, 108, 101, 100],  -- disabled
    [101, 110, 99, 116, 121, 112, 101],  -- enctype
    [102, 97, 99, 101],  -- face
    [102, 114, 97, 109, 101],  -- frame
    [104, 114, 101, 102, 108, 97, 110, 103],  -- hreflang
    [104, 116, 116, 112, 45, 101, 113, 117, 105, 118],  -- http-equiv
    [108, 97, 110, 103],  -- lang
    [108, 97, 110, 103, 117, 97, 103, 101],  -- language
    [108, 105, 110, 107],  -- link
    [109, 101, 100, 105, 97],  -- media
    [109, 101, 116, 104, 111, 100],  -- method
    [109, 117, 108, 116, 105, 112, 108, 101],  -- multiple
    [110, 111, 104, 114, 101, 102],  -- nohref
    [110, 111, 114, 101, 115, 105, 122, 101],  -- noresize
    [110, 111, 115, 104, 97, 100, 101],  -- noshade
    [110, 111, 119, 114, 97, 112],  -- nowrap
    [114, 101, 97, 100, 111, 110, 108, 121],  -- readonly
    [114, 101, 108],  -- rel
    [114, 101, 118],  -- rev
    [114, 117, 108, 101, 115],  -- rules
    [115, 99, 111, 112, 101],  -- scope
    [115, 99, 114, 111, 108, 108, 105, 110, 103],  -- scrolling
    [115, 101, 108, 101, 99, 116, 101, 100],  -- selected
    [115, 104, 97, 112, 101],  -- shape
    [116, 97, 114, 103, 101, 116],  -- target
    [116, 101, 120, 116],  -- text
    [116, 121, 112, 101],  -- type
    [118, 97, 108, 105, 103, 110],  -- valign
    [118, 97, 108, 117, 101, 116, 121, 112, 101],  -- valuetype
    [118, 108, 105, 110, 107]  -- vlink
]

/-- parser.rs:3214-3240 `AttributeFlags::to_case_sensitivity` (`have_namespace` is always `false`
for the selectors lol-html accepts: namespaced attribute selectors are rejected, parser.rs:174-176
of lol-html). -/
def AttributeFlags.toCaseSensitivity (f : AttributeFlags) (localNameLower : Bytes)
    (haveNamespace : Bool) : ParsedCaseSensitivity :=
  match f with
  | .caseSensitive => .explicitCaseSensitive
  | .asciiCaseInsensitive => .asciiCaseInsensitive
  | .caseSensitivityDependsOnName =>
    if !haveNamespace && asciiCaseInsensitiveHtmlAttributes.contains localNameLower then
      .asciiCaseInsensitiveIfInHtmlElementInHtmlDocument
    else .caseSensitive

/-- `[name op "value" flag]` from selector text to the lol-html predicate: parser.rs:3168-3201 of
selectors (lower-cased local name decides the case mode; the component carries `local_name` if it
is already lower-case, else `local_name_lower`) and ast.rs:128-155 of lol-html (takes `local_name`,
resp. `local_name_lower`) — in both cases the lower-cased name. -/
def parseAttributeSelector (localName value : Bytes) (flags : AttributeFlags) (op : Op) :
    OnAttributesExpr :=
  let localNameLower := makeAsciiLowercase localName
  .attributeComparison localNameLower value (flags.toCaseSensitivity localNameLower false) op

end LolHtml.Model.AttrMatch
