import LolHtml.Model.Dispatcher
import LolHtml.Gen.Consts
/-!
The read API of a start tag / element as seen by a content handler
(`src/rewritable_units/tokens/attributes.rs`, `tokens/start_tag.rs`, `element.rs`,
`selectors_vm/{mod,stack}.rs` for `can_have_content`), over the start-tag token the dispatcher model
builds (`Token.startTag`, `tagToToken`).

Strings: the Rust getters return `String`s decoded from the document encoding and take `&str` queries
which are encoded into it. The model works on the encoded bytes; lane `attrs` runs the real rewriter
with the single-byte encoding windows-1252, for which decoding/encoding is a bijection on all 256
bytes, so nothing is lost. (A query with a character the encoding cannot represent is rejected by
`lookup_name` → `None`/`false`; such queries have no byte representation and are not modelled.)
The accessors decode with `decode_without_bom_handling` (base/bytes.rs `as_string`), so the bytes ARE
what the handler reads, also when they begin with a byte-order mark.
-/
namespace LolHtml.Model.AttrsApi
open LolHtml LolHtml.Model

/-- the materialised attribute list of a start-tag token: (name bytes, value bytes, outline) -/
abbrev AttrList := List (Bytes × Bytes × AttrOutline)

/-- `Attribute::name_from_string` (attributes.rs:67): the checks made on a name that will be SERIALISED
(`set_attribute` only; the reject list is regenerated from the Rust: `Gen.Consts.attrNameReject`). -/
def nameFromString (name : Bytes) : Option Bytes :=
  if name.isEmpty then none
  else if name.any (fun ch => Gen.Consts.attrNameReject.contains ch) then none
  else some name

/-- `Attribute::lookup_name` (attributes.rs:91): a name for a lookup is lower-cased and encoded, NOT
validated — every name the parser can produce (`=b` in `<a =b>`) can be looked up. -/
def lookupName (name : Bytes) : Bytes := asciiLowerBytes name

/-- `Attributes::map_attribute` (attributes.rs:199): the first attribute whose lower-cased name equals
the lower-cased query. -/
def mapAttribute (attrs : AttrList) (query : Bytes) : Option (Bytes × Bytes × AttrOutline) :=
  attrs.find? fun a => eqCaseInsensitive a.1 (lookupName query)

/-- `get_attribute` (attributes.rs:217) -/
def getAttribute (attrs : AttrList) (query : Bytes) : Option Bytes :=
  (mapAttribute attrs query).map (·.2.1)

/-- `has_attribute` (attributes.rs:222) -/
def hasAttribute (attrs : AttrList) (query : Bytes) : Bool :=
  ((mapAttribute attrs query).map fun _ => true).getD false

/-- `attributes()` (start_tag.rs:108) seen through `Attribute::name()` (lower-cased) and `value()` -/
def attributes (attrs : AttrList) : List (Bytes × Bytes) :=
  attrs.map fun a => (asciiLowerBytes a.1, a.2.1)

/-- `Attribute::name_preserve_case()` / `value()` pairs -/
def attributesPreserveCase (attrs : AttrList) : List (Bytes × Bytes) :=
  attrs.map fun a => (a.1, a.2.1)

/-- `StartTag::name` (start_tag.rs:54): lower-cased name bytes -/
def tagName (name : Bytes) : Bytes := asciiLowerBytes name

/-- `name_source_location` / `value_source_location` (attributes.rs:122-139) with the `NonZero` test
of `iter_attrs` (attributes.rs:285): `(name range, value range)` in document offsets. -/
def attrLocations (base : Nat) (a : Bytes × Bytes × AttrOutline) : Option (Range × Range) :=
  if base + a.2.2.value.start = 0 then none
  else some (⟨base + a.2.2.name.start, base + a.2.2.name.start + a.1.length⟩,
             ⟨base + a.2.2.value.start, base + a.2.2.value.start + a.2.1.length⟩)

/-! ### Edits (`set_attribute`, `remove_attribute`, `set_tag_name`) and reads after them

The first edit materialises the attribute list (`as_mut_vec` / `init_items`, attributes.rs:303-317);
from then on every read goes through the materialised list (`map_attribute`: `self.items.get()`).
An attribute that was added or whose value was set has lost its source (`raw = None`,
`name_value_start = None`). -/

/-- an `Attribute` of the materialised list: name, value, source outline while untouched -/
abbrev EAttrList := List (Bytes × Bytes × Option AttrOutline)

/-- `init_items` (attributes.rs:293) -/
def materialise (attrs : AttrList) : EAttrList := attrs.map fun a => (a.1, a.2.1, some a.2.2)

inductive AttrNameError
  | empty
  | forbidden (ch : UInt8)
  deriving DecidableEq, Repr, Inhabited

/-- `Attribute::name_from_string` (attributes.rs:67) with its error (`UnencodableCharacter` cannot
occur for a byte string) -/
def nameFromStringE (name : Bytes) : Except AttrNameError Bytes :=
  if name.isEmpty then .error .empty
  else match name.find? (fun ch => Gen.Consts.attrNameReject.contains ch) with
    | some ch => .error (.forbidden ch)
    | none => .ok name

/-- `iter_mut().find(..)` then `set_value` (attributes.rs:236-241, :141): the FIRST attribute whose name
matches keeps its name (case preserved), gets the value, loses its source -/
def setFirst (lname value : Bytes) : EAttrList → Option EAttrList
  | [] => none
  | a :: rest =>
    if eqCaseInsensitive a.1 lname then some ((a.1, value, none) :: rest)
    else (setFirst lname value rest).map (a :: ·)

/-- `Attributes::set_attribute` (attributes.rs:228): lower-cased, validated name; replace the first
match or push `name="value"` at the end -/
def setAttribute (items : EAttrList) (name value : Bytes) : Except AttrNameError EAttrList :=
  match nameFromStringE (asciiLowerBytes name) with
  | .error e => .error e
  | .ok lname =>
    match setFirst lname value items with
    | some items' => .ok items'
    | none => .ok (items ++ [(lname, value, none)])

/-- `Attributes::remove_attribute` (attributes.rs:258): every attribute whose name matches the
`lookup_name` goes. The flag is `len_before != items.len()`. -/
def removeAttribute (items : EAttrList) (name : Bytes) : EAttrList × Bool :=
  let items' := items.filter fun a => !eqCaseInsensitive a.1 (lookupName name)
  (items', items.length != items'.length)

/-- `map_attribute` on the materialised list -/
def mapAttributeE (items : EAttrList) (query : Bytes) : Option (Bytes × Bytes × Option AttrOutline) :=
  items.find? fun a => eqCaseInsensitive a.1 (lookupName query)

def getAttributeE (items : EAttrList) (query : Bytes) : Option Bytes := (mapAttributeE items query).map (·.2.1)
def hasAttributeE (items : EAttrList) (query : Bytes) : Bool := ((mapAttributeE items query).map fun _ => true).getD false

/-- `attributes()` after edits: `name()`, `value()` -/
def attributesE (items : EAttrList) : List (Bytes × Bytes) := items.map fun a => (asciiLowerBytes a.1, a.2.1)

/-- locations after edits: `None` for added / modified attributes -/
def attrLocationsE (base : Nat) (a : Bytes × Bytes × Option AttrOutline) : Option (Range × Range) :=
  match a.2.2 with
  | none => none
  | some o => attrLocations base (a.1, a.2.1, o)

inductive TagNameError
  | empty
  | invalidFirstCharacter
  | forbidden (ch : UInt8)
  deriving DecidableEq, Repr, Inhabited

def isAsciiAlpha (b : UInt8) : Bool := (65 ≤ b && b ≤ 90) || (97 ≤ b && b ≤ 122)

/-- `Element::tag_name_bytes_from_str` (element.rs:76): the name is NOT lower-cased -/
def tagNameFromStr (name : Bytes) : Except TagNameError Bytes :=
  match name with
  | [] => .error .empty
  | ch :: _ =>
    if !isAsciiAlpha ch then .error .invalidFirstCharacter
    else match name.find? (fun c => Gen.Consts.tagNameReject.contains c) with
      | some c => .error (.forbidden c)
      | none => .ok name

/-- the editable part of an element's start tag -/
structure ETag where
  name : Bytes
  items : EAttrList
  deriving DecidableEq, Repr, Inhabited

inductive Edit
  | set (name value : Bytes)
  | remove (name : Bytes)
  | rename (name : Bytes)
  deriving DecidableEq, Repr, Inhabited

inductive EditRes
  | ok
  | attrName (e : AttrNameError)
  | tagName (e : TagNameError)
  deriving DecidableEq, Repr, Inhabited

/-- `Element::set_attribute` / `remove_attribute` / `set_tag_name` (element.rs:219, :225, :135; start_tag.rs:66, :121,
:131): a rejected edit changes nothing -/
def ETag.apply (t : ETag) : Edit → ETag × EditRes
  | .set n v =>
    match setAttribute t.items n v with
    | .ok items => ({ t with items := items }, .ok)
    | .error e => (t, .attrName e)
  | .remove n => ({ t with items := (removeAttribute t.items n).1 }, .ok)
  | .rename n =>
    match tagNameFromStr n with
    | .ok nm => ({ t with name := nm }, .ok)
    | .error e => (t, .tagName e)

def ETag.applyAll (t : ETag) : List Edit → ETag × List EditRes
  | [] => (t, [])
  | e :: es =>
    let r := t.apply e
    let rest := r.1.applyAll es
    (rest.1, r.2 :: rest.2)


/-- `is_void_element` (selectors_vm/stack.rs:13) without ESI tags, on the `LocalName` of the tag:
names that have no hash are never void. -/
def isVoidElement (cfg : TagCfg) : LocalName → Bool
  | .hash h => !cfg.nonVoidFast.contains h && cfg.void.contains h
  | .bytes _ => false

/-- `can_have_content` of the element handed to a handler: `MatchInfo.with_content`
(selectors_vm/mod.rs:172-210 with `Stack::get_stack_directive`, stack.rs:267):
HTML namespace: not void; foreign: not self-closing. -/
def canHaveContent (cfg : TagCfg) (name : LocalName) (ns : Ns) (selfClosing : Bool) : Bool :=
  if ns == .html then !isVoidElement cfg name else !selfClosing

/-- Everything an element handler can read from a start-tag token. -/
structure View where
  tagName : Bytes
  tagNamePreserveCase : Bytes
  attributes : List (Bytes × Bytes)
  selfClosing : Bool
  ns : Ns
  canHaveContent : Bool
  src : Range
  locations : List (Option (Range × Range))
  deriving DecidableEq, Repr, Inhabited

/-- the view of a start-tag token whose `LocalName` is `ln` (`LocalName.new input name hash`) -/
def viewOf (cfg : TagCfg) (ln : LocalName) : Token → Option View
  | .startTag name attrs ns sc _ src base =>
      some ⟨tagName name, name, attributes attrs, sc, ns, canHaveContent cfg ln ns sc, src,
            attrs.map (attrLocations base)⟩
  | _ => none

end LolHtml.Model.AttrsApi
