import LolHtml.Model.Dispatcher
import LolHtml.Gen.Consts
/-!
The read API of a start tag / element as seen by a content handler
(`src/rewritable_units/tokens/attributes.rs`, `tokens/start_tag.rs`, `element.rs`,
`selectors_vm/{mod,stack}.rs` for `can_have_content`), over the start-tag token the dispatcher model
builds (`Token.startTag`, `tagToToken`).

Strings: the Rust getters return `String`s decoded from the document encoding and take `&str` queries
which are encoded into it. The model works on the encoded bytes; lane `attrs` runs the real rewriter
with the single-byte encoding windows-1252, for which decoding/encoding is a bijection on all 256
bytes, so nothing is lost. (A query with a character the encoding cannot represent is rejected by
`name_from_string` → `None`/`false`; such queries have no byte representation and are not modelled.)
-/
namespace LolHtml.Model.AttrsApi
open LolHtml LolHtml.Model

/-- the materialised attribute list of a start-tag token: (name bytes, value bytes, outline) -/
abbrev AttrList := List (Bytes × Bytes × AttrOutline)

/-- `Attribute::name_from_string` (attributes.rs:67): the checks made on a name given by the caller
(the reject list is regenerated from the Rust: `Gen.Consts.attrNameReject`). -/
def nameFromString (name : Bytes) : Option Bytes :=
  if name.isEmpty then none
  else if name.any (fun ch => Gen.Consts.attrNameReject.contains ch) then none
  else some name

/-- `Attributes::map_attribute` (attributes.rs:197): the QUERY is lower-cased and validated with the
setter's `name_from_string`; then the first attribute whose lower-cased name equals it. -/
def mapAttribute (attrs : AttrList) (query : Bytes) : Option (Bytes × Bytes × AttrOutline) :=
  match nameFromString (asciiLowerBytes query) with
  | none => none
  | some name => attrs.find? fun a => eqCaseInsensitive a.1 name

/-- `get_attribute` (attributes.rs:217) -/
def getAttribute (attrs : AttrList) (query : Bytes) : Option Bytes :=
  (mapAttribute attrs query).map (·.2.1)

/-- `has_attribute` (attributes.rs:222) -/
def hasAttribute (attrs : AttrList) (query : Bytes) : Bool :=
  ((mapAttribute attrs query).map fun _ => true).getD false

/-- `attributes()` (start_tag.rs:108) seen through `Attribute::name()` (lower-cased) and `value()` -/
def attributes (attrs : AttrList) : List (Bytes × Bytes) :=
  attrs.map fun a => (asciiLowerBytes a.1, a.2.1)

/-- `Attribute::name_preserve_case()` / `value()` pairs -/
def attributesPreserveCase (attrs : AttrList) : List (Bytes × Bytes) :=
  attrs.map fun a => (a.1, a.2.1)

/-- `StartTag::name` (start_tag.rs:54): lower-cased name bytes -/
def tagName (name : Bytes) : Bytes := asciiLowerBytes name

/-- `name_source_location` / `value_source_location` (attributes.rs:122-139) with the `NonZero` test
of `iter_attrs` (attributes.rs:285): `(name range, value range)` in document offsets. -/
def attrLocations (base : Nat) (a : Bytes × Bytes × AttrOutline) : Option (Range × Range) :=
  if base + a.2.2.value.start = 0 then none
  else some (⟨base + a.2.2.name.start, base + a.2.2.name.start + a.1.length⟩,
             ⟨base + a.2.2.value.start, base + a.2.2.value.start + a.2.1.length⟩)

/-- `is_void_element` (selectors_vm/stack.rs:13) without ESI tags, on the `LocalName` of the tag:
names that have no hash are never void. -/
def isVoidElement (cfg : TagCfg) : LocalName → Bool
  | .hash h => !cfg.nonVoidFast.contains h && cfg.void.contains h
  | .bytes _ => false

/-- `can_have_content` of the element handed to a handler: `MatchInfo.with_content`
(selectors_vm/mod.rs:172-210 with `Stack::get_stack_directive`, stack.rs:267):
HTML namespace: not void; foreign: not self-closing. -/
def canHaveContent (cfg : TagCfg) (name : LocalName) (ns : Ns) (selfClosing : Bool) : Bool :=
  if ns == .html then !isVoidElement cfg name else !selfClosing

/-- Everything an element handler can read from a start-tag token. -/
structure View where
  tagName : Bytes
  tagNamePreserveCase : Bytes
  attributes : List (Bytes × Bytes)
  selfClosing : Bool
  ns : Ns
  canHaveContent : Bool
  src : Range
  locations : List (Option (Range × Range))
  deriving DecidableEq, Repr, Inhabited

/-- the view of a start-tag token whose `LocalName` is `ln` (`LocalName.new input name hash`) -/
def viewOf (cfg : TagCfg) (ln : LocalName) : Token → Option View
  | .startTag name attrs ns sc _ src base =>
      some ⟨tagName name, name, attributes attrs, sc, ns, canHaveContent cfg ln ns sc, src,
            attrs.map (attrLocations base)⟩
  | _ => none

end LolHtml.Model.AttrsApi
