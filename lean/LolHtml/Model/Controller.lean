/-
Model of `src/rewriter/rewrite_controller.rs` (`HtmlRewriteController` as a `TransformController`),
of the way `src/selectors_vm/{mod,stack}.rs` push and pop open elements (the matcher itself is
abstract: every start-tag event carries the set of match ids an ARBITRARY matcher reported), and of
the part of `src/transform_stream/dispatcher.rs` + `tokens/capturer/to_token.rs` that turns capture
flags into `handle_token` calls.
-/
import LolHtml.Model.Handlers

namespace LolHtml.Model.Controller
open LolHtml.Model.Handlers

abbrev Name := Bytes

/-- `StackDirective` (`selectors_vm/stack.rs:46`). -/
inductive StackDirective | push | pushIfNotSelfClosing | popImmediately
  deriving DecidableEq, Repr

/-- Only "HTML or not" matters (`stack.rs:273`). -/
inductive Ns | html | foreign
  deriving DecidableEq, Repr

/-- `is_void_element` (`stack.rs:13`) without ESI tags. Names are lower-case ASCII. -/
def voidNames : List Name :=
  ["area", "base", "basefont", "bgsound", "br", "col", "embed", "hr", "img", "input", "keygen",
   "link", "meta", "param", "source", "track", "wbr"].map strBytes

def isVoidElement (name : Name) : Bool := voidNames.contains name

/-- `Stack::get_stack_directive` (`stack.rs:268`). -/
def getStackDirective (ns : Ns) (name : Name) : StackDirective :=
  match ns with
  | .html => if isVoidElement name then .popImmediately else .push
  | .foreign => .pushIfNotSelfClosing

/-- `StackItem` (`stack.rs:174`), reduced to what the controller can observe. `ord` is a ghost field
(ordinal of the start-tag event). -/
structure StackItem where
  name : Name
  desc : ElementDescriptor
  ord : Nat
  deriving DecidableEq, Repr

/-- Split a list at the LAST element satisfying `p` (`iter().rposition(..)` + `drain(index..)`):
`some (before, from that element on)`, or `none` if no element satisfies `p`. -/
def splitLast {α : Type} (p : α → Bool) : List α → Option (List α × List α)
  | [] => none
  | x :: xs =>
    match splitLast p xs with
    | some (kept, popped) => some (x :: kept, popped)
    | none => if p x then some ([], x :: xs) else none

/-- `Stack::pop_up_to` (`stack.rs:284`): split at the LAST item named `name` (`rposition`) into
(kept, drained); `none` if there is none. The `open_name_counts` pre-check is an optimisation of the
same test. The drained items are handed to the closure in list order (outermost first). -/
def popUpTo (name : Name) (items : List StackItem) : Option (List StackItem × List StackItem) :=
  splitLast (fun it => decide (it.name = name)) items

/-- `HtmlRewriteController` (`rewrite_controller.rs:35`); `vm = none` iff there are no selectors
(`:52,76`). The VM is reduced to its stack (bottom first, like the `Vec`). -/
structure Controller where
  disp : Dispatcher
  vm : Option (List StackItem)
  deriving DecidableEq, Repr

/-- `from_settings` (`:45`). -/
def Controller.fromSettings (sels : List SelReg) (docs : List DocReg) : Controller :=
  { disp := Dispatcher.fromSettings sels docs, vm := if sels.isEmpty then none else some [] }

/-- `ExecutionCtx::handle_matched_ids` (`selectors_vm/mod.rs:107`) with the controller's
`match_handler` (`rewrite_controller.rs:144`). -/
def startMatchingAll (d : Dispatcher) (withContent : Bool) : List Nat → Except Panic Dispatcher
  | [] => .ok d
  | m :: ms =>
    match d.startMatching m withContent with
    | .error e => .error e
    | .ok d' => startMatchingAll d' withContent ms

/-- `with_content` as decided in `exec_for_start_tag` (`mod.rs:172-184`) and
`exec_after_immediate_aux_info_request` (`mod.rs:210`). -/
def withContentOf (dir : StackDirective) (selfClosing : Bool) : Bool :=
  match dir with
  | .popImmediately => false
  | .pushIfNotSelfClosing => !selfClosing
  | .push => true

/-- `TransformController::handle_start_tag` (`:137`) including the deferred aux-info path (`:106`):
in every path the VM calls `handle_matched_ids` and then pushes the item iff `with_content`
(`mod.rs:222-226,245-249,313-321`). -/
def Controller.handleStartTag (c : Controller) (ord : Nat) (name : Name) (dir : StackDirective)
    (selfClosing : Bool) (matched : List Nat) : Except Panic Controller :=
  match c.vm with
  | none => .ok c
  | some stack =>
    let wc := withContentOf dir selfClosing
    match startMatchingAll c.disp wc matched with
    | .error e => .error e
    | .ok d =>
      .ok { disp := d,
            vm := some (if wc then stack ++ [{ name := name, desc := .new matched, ord := ord }]
                        else stack) }

/-- The closure calls of `pop_up_to` (`stack.rs:301-313`) with `stop_matching`. -/
def stopMatchingAll (d : Dispatcher) : List StackItem → Except Panic Dispatcher
  | [] => .ok d
  | it :: rest =>
    match d.stopMatching it.desc with
    | .error e => .error e
    | .ok d' => stopMatchingAll d' rest

/-- `TransformController::handle_end_tag` (`:160`). -/
def Controller.handleEndTag (c : Controller) (name : Name) : Except Panic Controller :=
  match c.vm with
  | none => .ok c
  | some stack =>
    match popUpTo name stack with
    | none => .ok c
    | some (kept, popped) =>
      match stopMatchingAll c.disp popped with
      | .error e => .error e
      | .ok d => .ok { disp := d, vm := some kept }

/-- `current_element_data_mut` (`stack.rs:330`). -/
def Controller.currentElementData (c : Controller) : Option ElementDescriptor :=
  match c.vm with
  | none => none
  | some stack => stack.getLast?.map (·.desc)

/-- Write back through the `&mut ElementDescriptor`. -/
def setTopDesc (stack : List StackItem) (desc : ElementDescriptor) : List StackItem :=
  match stack.getLast? with
  | none => stack
  | some top => stack.dropLast ++ [{ top with desc := desc }]

/-- What the `Option<&mut ElementDescriptor>` handed to `handle_token` leaves in the VM stack. -/
def writeBack : Option (List StackItem) → Option ElementDescriptor → Option (List StackItem)
  | some stack, some desc => some (setTopDesc stack desc)
  | vm, _ => vm

/-- Input events: what the parser reports, in document order. -/
inductive Event
  | startTag (name : Name) (dir : StackDirective) (selfClosing : Bool) (matched : List Nat)
  | endTag (name : Name)
  | text
  | comment
  | doctype
  deriving DecidableEq, Repr

/-- Controller + `DispatcherDelegate.capture_flags` (`dispatcher.rs:96`). -/
structure State where
  ctrl : Controller
  flags : Flags
  deriving DecidableEq, Repr

/-- `Dispatcher::new` (`dispatcher.rs:225`): `initial_capture_flags`. -/
def State.init (sels : List SelReg) (docs : List DocReg) : State :=
  let c := Controller.fromSettings sels docs
  { ctrl := c, flags := c.disp.getTokenCaptureFlags }

/-- One parser event: `handle_tag` (`dispatcher.rs:455`: `adjust_capture_flags_for_tag_lexeme`, then
`to_token` (`to_token.rs:28-57`) which clears the one-shot flag, then `handle_token`) or
`handle_non_tag_content` (`:483`). -/
def step (script : ElemScript) (s : State) (ord : Nat) : Event → Except Panic (State × List Invocation)
  | .startTag name dir selfClosing matched =>
    match s.ctrl.handleStartTag ord name dir selfClosing matched with
    | .error e => .error e
    | .ok c =>
      let flags := c.disp.getTokenCaptureFlags
      if flags.nextStartTag then
        let flags := { flags with nextStartTag := false }
        match c.disp.handleStartTag script ord c.currentElementData with
        | .error e => .error e
        | .ok (d, desc, inv) =>
          .ok ({ ctrl := { disp := d, vm := writeBack c.vm desc }, flags := flags }, inv)
      else .ok ({ ctrl := c, flags := flags }, [])
  | .endTag name =>
    match s.ctrl.handleEndTag name with
    | .error e => .error e
    | .ok c =>
      let flags := c.disp.getTokenCaptureFlags
      if flags.nextEndTag then
        let flags := { flags with nextEndTag := false }
        match c.disp.handleEndTagToken ord with
        | .error e => .error e
        | .ok (d, inv) => .ok ({ ctrl := { c with disp := d }, flags := flags }, inv)
      else .ok ({ ctrl := c, flags := flags }, [])
  | .text => .ok (s, if s.flags.text then s.ctrl.disp.handleText ord else [])
  | .comment => .ok (s, if s.flags.comments then s.ctrl.disp.handleComment ord else [])
  | .doctype => .ok (s, if s.flags.doctypes then s.ctrl.disp.handleDoctype ord else [])

/-- Run events numbered from `ord`; the log is the concatenation of the per-event invocations. -/
def steps (script : ElemScript) : State → Nat → List Event → Except Panic (State × List Invocation)
  | s, _, [] => .ok (s, [])
  | s, ord, e :: es =>
    match step script s ord e with
    | .error err => .error err
    | .ok (s', inv) =>
      match steps script s' (ord + 1) es with
      | .error err => .error err
      | .ok (s'', inv') => .ok (s'', inv ++ inv')

/-- `TransformStream::end` → `Dispatcher::finish` (`dispatcher.rs:119`) → `handle_end`. -/
def finish (s : State) (ord : Nat) : Except Panic (State × List Invocation) :=
  match s.ctrl.disp.handleEnd ord with
  | .error e => .error e
  | .ok (d, inv) => .ok ({ s with ctrl := { s.ctrl with disp := d } }, inv)

/-- A whole document: all events, then the end; the end has ordinal `evs.length`. -/
def runDoc (script : ElemScript) (sels : List SelReg) (docs : List DocReg) (evs : List Event) :
    Except Panic (State × List Invocation) :=
  match steps script (State.init sels docs) 0 evs with
  | .error e => .error e
  | .ok (s, inv) =>
    match finish s evs.length with
    | .error e => .error e
    | .ok (s', inv') => .ok (s', inv ++ inv')

end LolHtml.Model.Controller
