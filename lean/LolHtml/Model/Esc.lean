/-
Model of lol-html's escaping and validation of inserted content (property C08).

Transcribes, over byte strings (`Bytes = List UInt8`; Rust `&str` arguments are their UTF-8 bytes):
  src/html/mod.rs:18                                escape_body_text            → `escapeBodyTextChunks`
  src/html/mod.rs:49                                escape_double_quotes_only   → `escapeDoubleQuotesOnlyChunks`
  src/base/bytes.rs:81                              owned_from_str_without_replacements → `ownedFromStrWithoutReplacements`
  src/rewritable_units/tokens/comment.rs:50         contains_comment_closing_sequence   → `containsCommentClosingSequence`
  src/rewritable_units/tokens/comment.rs:85         Comment::set_text           → `Comment.setText`
  src/rewritable_units/tokens/comment.rs:246        Comment::serialize_self     → `Comment.serialize`
  src/rewritable_units/tokens/attributes.rs:68      Attribute::name_from_string → `attrNameFromString`
  src/rewritable_units/tokens/attributes.rs:135     Attribute::set_value        → `Attribute.setValue`
  src/rewritable_units/tokens/attributes.rs:144     Serialize for &Attribute    → `Attribute.serialize`
  src/rewritable_units/tokens/attributes.rs:225     Attributes::set_attribute   → `setAttributeItems`
  src/rewritable_units/tokens/start_tag.rs:121      StartTag::set_attribute     → `StartTag.setAttribute`
  src/rewritable_units/tokens/start_tag.rs:232      StartTag::serialize_self    → `StartTag.serialize`
  src/rewritable_units/tokens/end_tag.rs:168        EndTag::serialize_self      → `EndTag.serialize`
  src/rewritable_units/element.rs:76                tag_name_bytes_from_str     → `tagNameBytesFromStr`
  src/rewritable_units/element.rs:135               Element::set_tag_name       → `Element.setTagName`
  src/base/mod.rs:22                                eq_case_insensitive         → `eqCaseInsensitive`

Every literal (needles, entities, reject lists, closing sequences, delimiters) comes from
`LolHtml.Gen.Consts`, regenerated from the Rust text on every run by translate/consts2lean.py.
The functions that the theorems are about are parametrised by those lists (`…With`); the
un-suffixed versions are the instances at `Gen.Consts`, and these are what the lane executes.
-/
import LolHtml.Basic
import LolHtml.Gen.Consts

namespace LolHtml.Model.Esc
open LolHtml

/-! ## Escaping loops (src/html/mod.rs) -/

/-- The literals of one escaping loop: `memchr*` needles, the arms of the `match matched`, the
`_ =>` arm. `escape_double_quotes_only` has no `match`: it is the table with no arms. -/
structure EscTable where
  triggers : List UInt8
  arms : List (UInt8 × Bytes)
  dflt : Bytes

/-- `match matched { b'<' => "&lt;", b'>' => "&gt;", _ => "&amp;" }` (first matching arm wins). -/
def EscTable.repl (t : EscTable) (b : UInt8) : Bytes :=
  match t.arms.lookup b with
  | some r => r
  | none => t.dflt

/-- `memchr` / `memchr3`: index of the first byte that is one of the needles. -/
def memchrIn (needles : List UInt8) : Bytes → Option Nat
  | [] => none
  | b :: rest => if needles.contains b then some 0 else (memchrIn needles rest).map (· + 1)

/-- `split_at_checked(pos)` (on a byte position; positions found by memchr of an ASCII needle are
always char boundaries, so only the length check can fail). -/
def splitAtChecked (xs : Bytes) (pos : Nat) : Option (Bytes × Bytes) :=
  if pos ≤ xs.length then some (xs.take pos, xs.drop pos) else none

inductive LoopErr
  | outOfFuel
  | panic
  deriving Repr, DecidableEq

/-- The loop of `escape_body_text` (html/mod.rs:18-46) and of `escape_double_quotes_only`
(html/mod.rs:49-72): the list of chunks handed to `output_handler`, in order.
`some pos` → split before/at the needle (a failing split is the `else { return }`), emit the
non-empty chunk before it, emit the replacement; `none` → emit the non-empty tail and return. -/
def escapeLoop (t : EscTable) : Nat → Bytes → List Bytes → Except LoopErr (List Bytes)
  | 0, _, _ => .error .outOfFuel
  | fuel + 1, content, out =>
    match memchrIn t.triggers content with
    | some pos =>
      match splitAtChecked content pos with
      | none => .ok out
      | some (chunkBefore, rest) =>
        match splitAtChecked rest 1 with
        | none => .ok out
        | some (matched, rest') =>
          match matched with
          | [] => .error .panic                     -- `matched.as_bytes()[0]`
          | m :: _ =>
            let out := if chunkBefore.isEmpty then out else out ++ [chunkBefore]
            escapeLoop t fuel rest' (out ++ [t.repl m])
    | none => .ok (if content.isEmpty then out else out ++ [content])

def escapeChunksWith (t : EscTable) (content : Bytes) : Except LoopErr (List Bytes) :=
  escapeLoop t (content.length + 1) content []

/-- What the sink receives: the chunks concatenated. `none` never happens (`escapeWith_eq_spec`). -/
def escapeWith (t : EscTable) (content : Bytes) : Option Bytes :=
  match escapeChunksWith t content with
  | .ok chunks => some chunks.flatten
  | .error _ => none

def bodyTable : EscTable :=
  { triggers := Gen.Consts.bodyTriggers, arms := Gen.Consts.bodyArms, dflt := Gen.Consts.bodyDefault }

def attrTable : EscTable :=
  { triggers := [Gen.Consts.attrTrigger], arms := [], dflt := Gen.Consts.attrReplacement }

def escapeBodyTextChunks (s : Bytes) := escapeChunksWith bodyTable s
def escapeBodyText (s : Bytes) : Option Bytes := escapeWith bodyTable s
def escapeDoubleQuotesOnlyChunks (v : Bytes) := escapeChunksWith attrTable v
def escapeDoubleQuotesOnly (v : Bytes) : Option Bytes := escapeWith attrTable v

/-! ## Encoding of names / comment text (src/base/bytes.rs) — the codec is an assumed interface -/

/-- `encoding.encode(&string)` → `(bytes, has_replacements)`; input is the UTF-8 of the string. -/
structure Codec where
  encode : Bytes → Bytes × Bool

/-- UTF-8 documents: `encode` is the identity and never replaces. -/
def Codec.utf8 : Codec := ⟨fun s => (s, false)⟩

/-- Strict UTF-8 decoder to scalar values (`none` on malformed input; Rust `&str` is always valid). -/
def utf8Decode : Bytes → Option (List Nat)
  | [] => some []
  | b0 :: rest =>
    let cont (b : UInt8) : Bool := 0x80 ≤ b && b < 0xC0
    if b0 < 0x80 then (utf8Decode rest).map (b0.toNat :: ·)
    else if 0xC2 ≤ b0 && b0 < 0xE0 then
      match rest with
      | b1 :: r =>
        if cont b1 then (utf8Decode r).map (((b0.toNat - 0xC0) * 64 + (b1.toNat - 0x80)) :: ·) else none
      | _ => none
    else if 0xE0 ≤ b0 && b0 < 0xF0 then
      match rest with
      | b1 :: b2 :: r =>
        let c := (b0.toNat - 0xE0) * 4096 + (b1.toNat - 0x80) * 64 + (b2.toNat - 0x80)
        if cont b1 && cont b2 && 0x800 ≤ c && !(0xD800 ≤ c && c < 0xE000) then
          (utf8Decode r).map (c :: ·) else none
      | _ => none
    else if 0xF0 ≤ b0 && b0 < 0xF5 then
      match rest with
      | b1 :: b2 :: b3 :: r =>
        let c := (b0.toNat - 0xF0) * 262144 + (b1.toNat - 0x80) * 4096 + (b2.toNat - 0x80) * 64
                  + (b3.toNat - 0x80)
        if cont b1 && cont b2 && cont b3 && 0x10000 ≤ c && c < 0x110000 then
          (utf8Decode r).map (c :: ·) else none
      | _ => none
    else none

/-- ASCII decimal digits of `n` (for numeric character references). -/
def decDigits (n : Nat) : Bytes := (Nat.toDigits 10 n).map fun ch => ch.toNat.toUInt8

/-- encoding_rs `x-user-defined` encoder: ASCII ↦ itself, U+F780..U+F7FF ↦ 0x80..0xFF, anything else
is unmappable and `Encoding::encode` writes `&#<decimal>;` and reports `has_replacements`.
(The simplest single-byte encoding with unmappable characters; used by the lane to exercise the
`UnencodableCharacter` branches.) Malformed UTF-8 cannot occur for a Rust `&str`. -/
def Codec.xUserDefined : Codec :=
  ⟨fun s =>
    match utf8Decode s with
    | none => ([], true)
    | some cs =>
      (cs.flatMap (fun c =>
          if c < 0x80 then [c.toUInt8]
          else if 0xF780 ≤ c && c ≤ 0xF7FF then [(c - 0xF700).toUInt8]
          else [38, 35] ++ decDigits c ++ [59]),
       cs.any (fun c => !(c < 0x80 || (0xF780 ≤ c && c ≤ 0xF7FF))))⟩

/-- A codec known only at one point: the UTF-8 string `key` encodes to `enc` (no replacements), ASCII
strings encode to themselves, anything else is treated as unmappable. Used by the lane for encodings
the model has no table for (Shift_JIS, Big5, GBK): the generator supplies the encoded name
(assume–guarantee; the Rust side checks it against encoding_rs). -/
def Codec.given (key enc : Bytes) : Codec :=
  ⟨fun s => if s == key then (enc, false) else if s.all (· < 128) then (s, false) else ([], true)⟩

/-- bytes.rs:81 `owned_from_str_without_replacements`. -/
def ownedFromStrWithoutReplacements (c : Codec) (s : Bytes) : Option Bytes :=
  let (bytes, hasReplacements) := c.encode s
  if !hasReplacements then some bytes else none

/-- bytes.rs:73 `owned_from_str` (replacements kept: numeric character references). -/
def ownedFromStr (c : Codec) (s : Bytes) : Bytes := (c.encode s).1

/-! ## Comment text (tokens/comment.rs) -/

/-- `haystack.contains(needle)` on byte strings. -/
def containsSeq (needle : Bytes) : Bytes → Bool
  | [] => needle.isEmpty
  | b :: t => needle.isPrefixOf (b :: t) || containsSeq needle t

/-- comment.rs:50 with the literal lists as parameters. -/
def containsClosingWith (cc cp : List Bytes) (text : Bytes) : Bool :=
  cc.any (fun x => containsSeq x text) || cp.any (fun x => x.isPrefixOf text)

def containsCommentClosingSequence (text : Bytes) : Bool :=
  containsClosingWith Gen.Consts.commentContains Gen.Consts.commentPrefixes text

inductive CommentTextError
  | commentClosingSequence
  | unencodableCharacter
  deriving Repr, DecidableEq

/-- `raw = some _` ⇔ `raw.original()` is `Some` (not modified since it was parsed). -/
structure Comment where
  text : Bytes
  raw : Option Bytes
  deriving Repr, DecidableEq

/-- comment.rs:85 `set_text`: the token after the call, and the result. -/
def Comment.setTextWith (cc cp : List Bytes) (c : Codec) (self : Comment) (text : Bytes) :
    Comment × Except CommentTextError Unit :=
  if containsClosingWith cc cp text then (self, .error .commentClosingSequence)
  else match ownedFromStrWithoutReplacements c text with
    | some t => ({ self with text := t, raw := none }, .ok ())
    | none => (self, .error .unencodableCharacter)

def Comment.setText := Comment.setTextWith Gen.Consts.commentContains Gen.Consts.commentPrefixes

/-- comment.rs:246 `serialize_self`. -/
def Comment.serialize (self : Comment) : Bytes :=
  match self.raw with
  | some raw => raw
  | none => Gen.Consts.commentOpen ++ self.text ++ Gen.Consts.commentClose

/-! ## Attribute names and values (tokens/attributes.rs) -/

inductive AttributeNameError
  | empty
  | forbiddenCharacter (ch : UInt8)
  | unencodableCharacter
  deriving Repr, DecidableEq

/-- attributes.rs:68 `name_from_string`, reject list as a parameter. -/
def attrNameFromStringWith (reject : List UInt8) (c : Codec) (name : Bytes) :
    Except AttributeNameError Bytes :=
  if name.isEmpty then .error .empty
  else match name.find? (fun ch => reject.contains ch) with
    | some ch => .error (.forbiddenCharacter ch)
    | none =>
      match ownedFromStrWithoutReplacements c name with
      | some b => .ok b
      | none => .error .unencodableCharacter

def attrNameFromString := attrNameFromStringWith Gen.Consts.attrNameReject

structure Attribute where
  name : Bytes
  value : Bytes
  raw : Option Bytes
  deriving Repr, DecidableEq

/-- attributes.rs:135 `set_value`. -/
def Attribute.setValue (c : Codec) (self : Attribute) (value : Bytes) : Attribute :=
  { self with value := ownedFromStr c value, raw := none }

/-- attributes.rs:144 `Serialize for &Attribute`; `none` only if the escaping loop failed (never). -/
def Attribute.serialize (self : Attribute) : Option Bytes :=
  match self.raw with
  | some raw => some raw
  | none =>
    (escapeDoubleQuotesOnly self.value).map fun v =>
      self.name ++ Gen.Consts.attrOpen ++ v ++ Gen.Consts.attrClose

/-- base/mod.rs:22 `eq_case_insensitive(mixed_case, lowercased)`. -/
def eqCaseInsensitive (mixedCase lowercased : Bytes) : Bool :=
  mixedCase.length == lowercased.length && asciiLowerBytes mixedCase == lowercased

/-- base/mod.rs:23 `debug_assert!(lowercased.iter().all(|&b| b == b.to_ascii_lowercase()))`. -/
def lowercasedArgOk (lowercased : Bytes) : Bool := lowercased.all fun b => b == asciiLower b

/-- The `find` + `set_value` / `push` part of attributes.rs:232-247. -/
def setAttributeItems (c : Codec) (name value : Bytes) : List Attribute → List Attribute
  | [] => [{ name := name, value := ownedFromStr c value, raw := none }]
  | a :: rest =>
    if eqCaseInsensitive a.name name then a.setValue c value :: rest
    else a :: setAttributeItems c name value rest

structure StartTag where
  name : Bytes
  attributes : List Attribute
  selfClosing : Bool
  raw : Option Bytes
  deriving Repr, DecidableEq

/-- start_tag.rs:121 `set_attribute` → attributes.rs:225 (`name.to_ascii_lowercase()`, validation
with `?`, then the update, then `raw.set_modified()`). -/
def StartTag.setAttributeWith (reject : List UInt8) (c : Codec) (self : StartTag) (name value : Bytes) :
    StartTag × Except AttributeNameError Unit :=
  match attrNameFromStringWith reject c (asciiLowerBytes name) with
  | .error e => (self, .error e)
  | .ok n => ({ self with attributes := setAttributeItems c n value self.attributes, raw := none }, .ok ())

def StartTag.setAttribute := StartTag.setAttributeWith Gen.Consts.attrNameReject

/-- Does this `set_attribute` call evaluate a FAILING `debug_assert!` of `eq_case_insensitive`
(a panic in builds with debug assertions, nothing in release builds)? `find` calls it on at least the
first existing attribute, with the validated name as `lowercased`. -/
def StartTag.setAttributeDebugAssertFails (c : Codec) (self : StartTag) (name : Bytes) : Bool :=
  match attrNameFromString c (asciiLowerBytes name) with
  | .ok n => !self.attributes.isEmpty && !lowercasedArgOk n
  | .error _ => false

def serializeAttributes : List Attribute → Option Bytes
  | [] => some []
  | a :: rest =>
    match a.serialize, serializeAttributes rest with
    | some x, some y => some (Gen.Consts.attrSep ++ x ++ y)
    | _, _ => none

/-- start_tag.rs:232 `serialize_self`. -/
def StartTag.serialize (self : StartTag) : Option Bytes :=
  match self.raw with
  | some raw => some raw
  | none =>
    (serializeAttributes self.attributes).map fun attrs =>
      Gen.Consts.startTagOpen ++ self.name
        ++ (if !self.attributes.isEmpty then
              attrs ++ (if self.selfClosing then Gen.Consts.startTagSelfClosingSep else [])
            else [])
        ++ (if self.selfClosing then Gen.Consts.startTagSelfClose else Gen.Consts.startTagClose)

structure EndTag where
  name : Bytes
  raw : Option Bytes
  deriving Repr, DecidableEq

/-- end_tag.rs:168 `serialize_self`. -/
def EndTag.serialize (self : EndTag) : Bytes :=
  match self.raw with
  | some raw => raw
  | none => Gen.Consts.endTagOpen ++ self.name ++ Gen.Consts.endTagClose

/-! ## Tag names (element.rs) -/

inductive TagNameError
  | empty
  | invalidFirstCharacter
  | forbiddenCharacter (ch : UInt8)
  | unencodableCharacter
  deriving Repr, DecidableEq

/-- element.rs:76 `tag_name_bytes_from_str`, reject list and first-character rule as parameters. -/
def tagNameBytesFromStrWith (reject : List UInt8) (firstAlpha : Bool) (c : Codec) (name : Bytes) :
    Except TagNameError Bytes :=
  match name.head? with
  | some ch =>
    if firstAlpha && !isAsciiAlpha ch then .error .invalidFirstCharacter
    else match name.find? (fun ch => reject.contains ch) with
      | some ch => .error (.forbiddenCharacter ch)
      | none =>
        match ownedFromStrWithoutReplacements c name with
        | some b => .ok b
        | none => .error .unencodableCharacter
  | none => .error .empty

def tagNameBytesFromStr :=
  tagNameBytesFromStrWith Gen.Consts.tagNameReject Gen.Consts.tagNameFirstAsciiAlpha

/-- The part of `Element` that `set_tag_name` touches. -/
structure Element where
  startTag : StartTag
  canHaveContent : Bool
  modifiedEndTagName : Option Bytes
  deriving Repr, DecidableEq

/-- element.rs:135 `set_tag_name`. -/
def Element.setTagNameWith (reject : List UInt8) (firstAlpha : Bool) (c : Codec) (self : Element)
    (name : Bytes) : Element × Except TagNameError Unit :=
  match tagNameBytesFromStrWith reject firstAlpha c name with
  | .error e => (self, .error e)
  | .ok n =>
    ({ self with
        modifiedEndTagName := if self.canHaveContent then some n else self.modifiedEndTagName,
        startTag := { self.startTag with name := n, raw := none } }, .ok ())

def Element.setTagName :=
  Element.setTagNameWith Gen.Consts.tagNameReject Gen.Consts.tagNameFirstAsciiAlpha

/-- element.rs:709 the end-tag handler installed by `into_end_tag_handler`: `set_name_raw`. -/
def Element.applyToEndTag (self : Element) (e : EndTag) : EndTag :=
  match self.modifiedEndTagName with
  | some n => { e with name := n, raw := none }
  | none => e

end LolHtml.Model.Esc
