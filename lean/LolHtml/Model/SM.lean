import LolHtml.Model.Syntax
import LolHtml.Model.TreeSim
/-!
The tokenizer state machine: DSL interpreter (macro semantics of
`src/parser/state_machine/syntax_dsl/**` and `state_machine/mod.rs`), the lexer's actions
(`src/parser/lexer/{mod,actions,conditions}.rs`), the tag scanner's actions
(`src/parser/tag_scanner/{mod,actions,conditions}.rs`) and the parser loop (`src/parser/mod.rs`).

Both action sets run over the same table; a machine is `Common` registers plus either `LexRegs` or
`ScanRegs`. The output sink (the dispatcher in production) is a parameter: `SinkOps κ`.
-/
namespace LolHtml.Model

/-- Registers shared by `Lexer` and `TagScanner` (`impl_common_sm_accessors!`, cursor methods). -/
structure Common where
  nextPos : Nat := 0
  isLast : Bool := false
  state : StateId
  /-- the `entered` closure of `state!` (syntax_dsl/state.rs:18): enter actions already run -/
  entered : Bool := false
  cdataAllowed : Bool := false
  lastStartTagNameHash : Nat := 0
  closingQuote : UInt8 := 34
  lastTextType : TextType := .data
  deriving DecidableEq, Repr, Inhabited

/-- `Lexer` fields (lexer/mod.rs:22) that are not in `Common`. -/
structure LexRegs where
  lexemeStart : Nat := 0
  tokenPartStart : Nat := 0
  curTag : Option TagOutline := none
  curNonTag : Option NonTagOutline := none
  curAttr : Option AttrOutline := none
  fd : FeedbackDirective := .none
  deriving DecidableEq, Repr, Inhabited

/-- `TagScanner` fields (tag_scanner/mod.rs:37) that are not in `Common`. -/
structure ScanRegs where
  tagStart : Option Nat := none
  chSeqStart : Option Nat := none
  tagNameStart : Nat := 0
  isInEndTag : Bool := false
  tagNameHash : Nat := 0
  pendingTextTypeChange : Option TextType := none
  deriving DecidableEq, Repr, Inhabited

inductive Regs
  | lexer (l : LexRegs)
  | scanner (s : ScanRegs)
  deriving DecidableEq, Repr, Inhabited

/-- `ParserContext` (parser/mod.rs:33) -/
structure Ctx (κ : Type) where
  sink : κ
  sim : Sim
  prevConsumed : Nat := 0
  deriving Repr, Inhabited

/-- One running machine. -/
structure M (κ : Type) where
  c : Common
  r : Regs
  x : Ctx κ
  deriving Repr, Inhabited

/-- The output sink of the parser (`LexemeSink` + `TagHintSink`). The sink state is returned even
when the call fails, as the Rust mutates it in place. -/
structure SinkOps (κ : Type) where
  handleTag : Bytes → TagLexeme → κ → κ × Except Err Directive
  handleNonTag : Bytes → NonTagLexeme → κ → κ × Except Err Unit
  startTagHint : LocalName → Ns → κ → κ × Except Err Directive
  endTagHint : LocalName → κ → κ × Except Err Directive

structure Env (κ : Type) where
  tbl : Table
  cfg : TagCfg
  ops : SinkOps κ

variable {κ : Type}

/-- `pos()` = `next_pos - 1`; only used after a `consume_ch`, so `next_pos ≥ 1`. -/
def Common.pos (c : Common) : Nat := c.nextPos - 1

def Table.textState (t : Table) : TextType → StateId
  | .data => t.dataState
  | .plainText => t.plaintextState
  | .rcData => t.rcdataState
  | .rawText => t.rawtextState
  | .scriptData => t.scriptDataState
  | .cdataSection => t.cdataSectionState

/-- `create_bookmark` (state_machine/mod.rs:239) -/
def mkBookmark (c : Common) (pos : Nat) (fd : FeedbackDirective) : Bookmark :=
  ⟨c.cdataAllowed, c.lastTextType, c.lastStartTagNameHash, pos, fd⟩

/-- `get_token_part_range!` (lexer/actions.rs:11) -/
def tokenPartRange (c : Common) (l : LexRegs) : Range := ⟨l.tokenPartStart, c.nextPos - 1⟩

/-! ### Lexer actions -/

/-- `Lexer::emit_lexeme` (lexer/mod.rs:106) for non-tag lexemes -/
def lexEmitNonTag (env : Env κ) (inp : Bytes) (c : Common) (l : LexRegs) (x : Ctx κ)
    (outline : Option NonTagOutline) (rawEnd : Nat) : M κ × Option Signal :=
  let lx : NonTagLexeme := ⟨x.prevConsumed, ⟨l.lexemeStart, rawEnd⟩, outline⟩
  let l := { l with lexemeStart := rawEnd }
  let r := env.ops.handleNonTag inp lx x.sink
  let m : M κ := ⟨c, .lexer l, { x with sink := r.1 }⟩
  match r.2 with
  | .ok () => (m, none)
  | .error e => (m, some (.err e))

/-- `emit_text` (lexer/actions.rs:37) -/
def lexEmitText (env : Env κ) (inp : Bytes) (c : Common) (l : LexRegs) (x : Ctx κ) : M κ × Option Signal :=
  if c.pos > l.lexemeStart then lexEmitNonTag env inp c l x (some (.text c.lastTextType)) c.pos
  else (⟨c, .lexer l, x⟩, none)

/-- `emit_eof` (lexer/actions.rs:23) -/
def lexEmitEof (env : Env κ) (inp : Bytes) (m : M κ) : M κ × Option Signal :=
  match m.r with
  | .lexer l => lexEmitNonTag env inp m.c l m.x (some .eof) m.c.pos
  | .scanner _ => (m, none)

/-- run `f`, and if it did not signal, run `g` on the result -/
def andThen (r : M κ × Option Signal) (g : M κ → M κ × Option Signal) : M κ × Option Signal :=
  match r.2 with
  | some s => (r.1, some s)
  | none => g r.1

/-- slices a `RequestLexeme` callback reads from the tag lexeme (`lexeme.part(..)`); `none` when a
slice is out of range (`debug_assert!` in `Bytes::slice`). -/
def tagViewFor (k : RLKind) (inp : Bytes) (o : TagOutline) : Option TagView :=
  match k, o with
  | .integrationPointEnter, .startTag _ _ _ _ sc => some ⟨true, [], [], sc⟩
  | .fontCheck, .startTag _ _ _ as sc =>
      (as.mapM fun (a : AttrOutline) => (checkedSlice inp a.name).map fun n => (n, ([] : Bytes))).map fun attrs => ⟨true, [], attrs, sc⟩
  | .annotationXmlStart, .startTag n _ _ as sc =>
      match checkedSlice inp n with
      | none => none
      | some nb =>
        if !sc && eqCaseInsensitive nb bAnnotationXml then
          (as.mapM fun (a : AttrOutline) =>
            match checkedSlice inp a.name, checkedSlice inp a.value with
            | some x, some y => some (x, y)
            | _, _ => none).map fun attrs => ⟨true, nb, attrs, sc⟩
        else some ⟨true, nb, [], sc⟩
  | .annotationXmlEnd, .endTag n _ => (checkedSlice inp n).map fun nb => ⟨false, nb, [], false⟩
  | _, .startTag _ _ _ _ sc => some ⟨true, [], [], sc⟩
  | _, .endTag _ _ => some ⟨false, [], [], false⟩

/-- `Lexer::handle_tree_builder_feedback` (lexer/mod.rs:88); the recursion is at most one level deep
because callbacks never return `RequestLexeme`. -/
def lexHandleFeedback (inp : Bytes) (c : Common) (sim : Sim) (f : Feedback) (o : TagOutline) :
    Except Err (Common × Sim) :=
  let simple (c : Common) (sim : Sim) : Feedback → Except Err (Common × Sim)
    | .switchTextType t => .ok ({ c with lastTextType := t }, sim)
    | .setAllowCdata b => .ok ({ c with cdataAllowed := b }, sim)
    | .none => .ok (c, sim)
    | .requestLexeme _ => .error (.panic "nested RequestLexeme")
  match f with
  | .requestLexeme k =>
      match tagViewFor k inp o with
      | none => .error (.panic "Bytes::slice out of range in RequestLexeme callback")
      | some v =>
        match sim.runCallback k v with
        | none => .error (.panic "RequestLexeme callback: unexpected tag type / empty ns stack")
        | some (sim', f') => simple c sim' f'
  | f => simple c sim f

/-- `try_get_tree_builder_feedback` (lexer/mod.rs:63), given the already taken feedback directive. -/
def lexGetFeedback (cfg : TagCfg) (sim : Sim) (fd : FeedbackDirective) (token : TagOutline) :
    Except Err (Sim × Option Feedback) :=
  match fd with
  | .applyUnhandled f => .ok (sim, some f)
  | .skip => .ok (sim, none)
  | .none =>
    match token with
    | .startTag _ h .. => (sim.feedbackForStartTag cfg h).map fun r => (r.1, some r.2)
    | .endTag _ h => (sim.feedbackForEndTag cfg h).map fun r => (r.1, some r.2)

/-- the namespace / last-start-tag bookkeeping of `emit_tag` (lexer/actions.rs:100-108) -/
def lexStampTag (c : Common) (sim : Sim) (token : TagOutline) : Common × TagOutline :=
  match token with
  | .startTag n h _ as sc => ({ c with lastStartTagNameHash := h }, .startTag n h sim.currentNs as sc)
  | t => (c, t)

/-- `emit_tag_lexeme` (lexer/mod.rs:121) and the directive returned by the sink (lexer/actions.rs:110) -/
def lexEmitTagLexeme (env : Env κ) (inp : Bytes) (c : Common) (l : LexRegs) (x : Ctx κ) (sim : Sim)
    (token : TagOutline) (rawEnd : Nat) : M κ × Option Signal :=
  let lx : TagLexeme := ⟨x.prevConsumed, ⟨l.lexemeStart, rawEnd⟩, token⟩
  let l := { l with lexemeStart := rawEnd }
  let r := env.ops.handleTag inp lx x.sink
  let m : M κ := ⟨c, .lexer l, { x with sink := r.1, sim := sim }⟩
  match r.2 with
  | .error e => (m, some (.err e))
  | .ok .lex => (m, none)
  | .ok .scan => (m, some (.directive .scan (mkBookmark c l.lexemeStart .none)))

/-- `emit_tag` (lexer/actions.rs:76) -/
def lexEmitTag (env : Env κ) (inp : Bytes) (c : Common) (l : LexRegs) (x : Ctx κ) : M κ × Option Signal :=
  match l.curTag with
  | none => (⟨c, .lexer l, x⟩, some (.err (.internal "Tag token should exist at this point")))
  | some token =>
    let fd := l.fd
    let l := { l with curTag := none, fd := .none }
    match lexGetFeedback env.cfg x.sim fd token with
    | .error e => (⟨c, .lexer l, x⟩, some (.err e))
    | .ok sf =>
      let c := { c with lastTextType := .data }
      let applied : Except Err (Common × Sim) :=
        match sf.2 with
        | some f => lexHandleFeedback inp c sf.1 f token
        | none => .ok (c, sf.1)
      match applied with
      | .error e => (⟨c, .lexer l, { x with sim := sf.1 }⟩, some (.err e))
      | .ok cs =>
        let ct := lexStampTag cs.1 cs.2 token
        lexEmitTagLexeme env inp ct.1 l x cs.2 ct.2 (c.pos + 1)

def updTagHash (o : TagOutline) (ch : UInt8) : TagOutline :=
  match o with
  | .startTag n h ns as sc => .startTag n (NameHash.update h ch) ns as sc
  | .endTag n h => .endTag n (NameHash.update h ch)

def setTagName (o : TagOutline) (r : Range) : TagOutline :=
  match o with
  | .startTag _ h ns as sc => .startTag r h ns as sc
  | .endTag _ h => .endTag r h

/-- Lexer implementation of `StateMachineActions` (lexer/actions.rs). -/
def lexAct (env : Env κ) (a : ActName) (inp : Bytes) (c : Common) (l : LexRegs) (x : Ctx κ) :
    M κ × Option Signal :=
  let ret (c : Common) (l : LexRegs) : M κ × Option Signal := (⟨c, .lexer l, x⟩, none)
  match a with
  | .emitText => lexEmitText env inp c l x
  | .emitTextAndEof => andThen (lexEmitText env inp c l x) (lexEmitEof env inp)
  | .emitCurrentToken =>
      lexEmitNonTag env inp c { l with curNonTag := none } x l.curNonTag (c.pos + 1)
  | .emitCurrentTokenAndEof =>
      andThen (lexEmitNonTag env inp c { l with curNonTag := none } x l.curNonTag c.pos) (lexEmitEof env inp)
  | .emitRawWithoutToken => lexEmitNonTag env inp c l x none (c.pos + 1)
  | .emitRawWithoutTokenAndEof => andThen (lexEmitNonTag env inp c l x none c.pos) (lexEmitEof env inp)
  | .emitTag => lexEmitTag env inp c l x
  | .createStartTag => ret c { l with curTag := some (.startTag .default NameHash.new .html [] false) }
  | .createEndTag => ret c { l with curTag := some (.endTag .default NameHash.new) }
  | .createDoctype => ret c { l with curNonTag := some (.doctype ⟨none, none, none, false⟩) }
  | .createComment => ret c { l with curNonTag := some (.comment .default) }
  | .startTokenPart => ret c { l with tokenPartStart := c.pos }
  | .markCommentTextEnd =>
      match l.curNonTag with
      | some (.comment _) => ret c { l with curNonTag := some (.comment (tokenPartRange c l)) }
      | _ => ret c l
  | .shiftCommentTextEndBy n =>
      match l.curNonTag with
      | some (.comment t) => ret c { l with curNonTag := some (.comment ⟨t.start, t.end + n⟩) }
      | _ => ret c l
  | .setForceQuirks =>
      match l.curNonTag with
      | some (.doctype d) => ret c { l with curNonTag := some (.doctype { d with forceQuirks := true }) }
      | _ => ret c l
  | .finishDoctypeName =>
      match l.curNonTag with
      | some (.doctype d) => ret c { l with curNonTag := some (.doctype { d with name := some (tokenPartRange c l) }) }
      | _ => ret c l
  | .finishDoctypePublicId =>
      match l.curNonTag with
      | some (.doctype d) => ret c { l with curNonTag := some (.doctype { d with publicId := some (tokenPartRange c l) }) }
      | _ => ret c l
  | .finishDoctypeSystemId =>
      match l.curNonTag with
      | some (.doctype d) => ret c { l with curNonTag := some (.doctype { d with systemId := some (tokenPartRange c l) }) }
      | _ => ret c l
  | .finishTagName =>
      match l.curTag with
      | some t => ret c { l with curTag := some (setTagName t (tokenPartRange c l)) }
      | none => (⟨c, .lexer l, x⟩, some (.err (.internal "Tag should exist at this point")))
  | .updateTagNameHash =>
      match inp[c.pos]? with
      | some ch =>
        match l.curTag with
        | some t => ret c { l with curTag := some (updTagHash t ch) }
        | none => (⟨c, .lexer l, x⟩, some (.err (.panic "debug_assert: Tag should exist at this point")))
      | none => ret c l
  | .markAsSelfClosing =>
      match l.curTag with
      | some (.startTag n h ns as _) => ret c { l with curTag := some (.startTag n h ns as true) }
      | _ => ret c l
  | .startAttr =>
      match l.curTag with
      | some (.startTag ..) => ret c { l with curAttr := some .default, tokenPartStart := c.pos }
      | _ => ret c l
  | .finishAttrName =>
      match l.curAttr with
      | some a =>
        let r := tokenPartRange c l
        ret c { l with curAttr := some { a with name := r, raw := r, value := ⟨r.end, r.end⟩ } }
      | none => ret c l
  | .finishAttrValue =>
      match l.curAttr with
      | some a =>
        let v := tokenPartRange c l
        let rawEnd := match inp[c.nextPos - 1]? with
          | some ch => if ch == c.closingQuote then v.end + 1 else v.end
          | none => v.end
        ret c { l with curAttr := some { a with value := v, raw := ⟨a.raw.start, rawEnd⟩ } }
      | none => ret c l
  | .finishAttr =>
      match l.curAttr with
      | some a =>
        match l.curTag with
        | some (.startTag n h ns as sc) => ret c { l with curAttr := none, curTag := some (.startTag n h ns (as ++ [a]) sc) }
        | _ => ret c { l with curAttr := none }
      | none => ret c l
  | .setClosingQuoteToDouble => ret { c with closingQuote := 34 } l
  | .setClosingQuoteToSingle => ret { c with closingQuote := 39 } l
  | .markTagStart => ret c l
  | .unmarkTagStart => ret c l
  | .enterCdata => ret { c with lastTextType := .cdataSection } l
  | .leaveCdata => ret { c with lastTextType := .data } l

/-! ### Tag scanner actions -/

/-- `try_apply_tree_builder_feedback` (tag_scanner/mod.rs:100): what the scanner can apply itself,
and what it must hand to the lexer. -/
def scanApplyFeedback (c : Common) (s : ScanRegs) : Feedback → Common × ScanRegs × Option Feedback
  | .switchTextType t => (c, { s with pendingTextTypeChange := some t }, none)
  | .setAllowCdata b => ({ c with cdataAllowed := b }, s, none)
  | .requestLexeme k => (c, s, some (.requestLexeme k))
  | .none => (c, s, none)

/-- `take_feedback_directive` (tag_scanner/mod.rs:132) -/
def scanTakeFeedbackDirective (s : ScanRegs) : FeedbackDirective :=
  match s.pendingTextTypeChange with
  | some t => .applyUnhandled (.switchTextType t)
  | none => .skip

/-- `emit_tag_hint` (tag_scanner/mod.rs:72) and the reaction to the returned directive
(tag_scanner/actions.rs:62-70) -/
def scanEmitHint (env : Env κ) (inp : Bytes) (c : Common) (s : ScanRegs) (x : Ctx κ) (tagStart : Nat)
    (isInEndTag : Bool) : M κ × Option Signal :=
  match LocalName.new inp ⟨s.tagNameStart, c.pos⟩ s.tagNameHash with
  | none => (⟨c, .scanner s, x⟩, some (.err (.panic "Bytes::slice out of range in emit_tag_hint")))
  | some name =>
    let c : Common := if isInEndTag then c else { c with lastStartTagNameHash := s.tagNameHash }
    let res : κ × Except Err Directive :=
      if isInEndTag then env.ops.endTagHint name x.sink
      else env.ops.startTagHint name x.sim.currentNs x.sink
    let x := { x with sink := res.1 }
    match res.2 with
    | .error e => (⟨c, .scanner s, x⟩, some (.err e))
    | .ok .scan => (⟨c, .scanner s, x⟩, none)
    | .ok .lex =>
      (⟨c, .scanner { s with pendingTextTypeChange := none }, x⟩,
       some (.directive .lex (mkBookmark c tagStart (scanTakeFeedbackDirective s))))

/-- `TagScanner::finish_tag_name` (tag_scanner/actions.rs:43) -/
def scanFinishTagName (env : Env κ) (inp : Bytes) (c : Common) (s : ScanRegs) (x : Ctx κ) : M κ × Option Signal :=
  match s.tagStart with
  | none => (⟨c, .scanner s, x⟩, some (.err (.internal "Tag start should be set at this point")))
  | some tagStart =>
    let s := { s with tagStart := none }
    let fb := if s.isInEndTag then x.sim.feedbackForEndTag env.cfg s.tagNameHash
              else x.sim.feedbackForStartTag env.cfg s.tagNameHash
    match fb with
    | .error e => (⟨c, .scanner s, x⟩, some (.err e))
    | .ok sf =>
      let x := { x with sim := sf.1 }
      let csu := scanApplyFeedback c s sf.2
      let s' := { csu.2.1 with isInEndTag := false }
      match csu.2.2 with
      | some f => (⟨csu.1, .scanner s', x⟩, some (.directive .lex (mkBookmark csu.1 tagStart (.applyUnhandled f))))
      | none => scanEmitHint env inp csu.1 s' x tagStart s.isInEndTag

/-- Tag scanner implementation of `StateMachineActions` (tag_scanner/actions.rs). -/
def scanAct (env : Env κ) (a : ActName) (inp : Bytes) (c : Common) (s : ScanRegs) (x : Ctx κ) :
    M κ × Option Signal :=
  let ret (c : Common) (s : ScanRegs) : M κ × Option Signal := (⟨c, .scanner s, x⟩, none)
  match a with
  | .createStartTag => ret c { s with tagNameStart := c.pos, tagNameHash := NameHash.new }
  | .createEndTag => ret c { s with tagNameStart := c.pos, tagNameHash := NameHash.new, isInEndTag := true }
  | .markTagStart => ret c { s with tagStart := some c.pos }
  | .unmarkTagStart => ret c { s with tagStart := none }
  | .updateTagNameHash =>
      match inp[c.pos]? with
      | some ch => ret c { s with tagNameHash := NameHash.update s.tagNameHash ch }
      | none => ret c s
  | .finishTagName => scanFinishTagName env inp c s x
  | .emitTag =>
      let t := s.pendingTextTypeChange.getD .data
      ret { c with lastTextType := t } { s with pendingTextTypeChange := none }
  | .setClosingQuoteToDouble => ret { c with closingQuote := 34 } s
  | .setClosingQuoteToSingle => ret { c with closingQuote := 39 } s
  | .enterCdata => ret { c with lastTextType := .cdataSection } s
  | .leaveCdata => ret { c with lastTextType := .data } s
  | _ => ret c s

/-- One action on a machine. -/
def act (env : Env κ) (a : ActName) (inp : Bytes) (m : M κ) : M κ × Option Signal :=
  match m.r with
  | .lexer l => lexAct env a inp m.c l m.x
  | .scanner s => scanAct env a inp m.c s m.x

/-- `StateMachineConditions`; `none` = the `debug_assert!(false)` in the lexer's
`is_appropriate_end_tag`. -/
def cond (cnd : Cond) (m : M κ) : Option Bool :=
  match cnd, m.r with
  | .cdataAllowed, _ => some m.c.cdataAllowed
  | .isAppropriateEndTag, .lexer l =>
      match l.curTag with
      | some (.endTag _ h) => some (m.c.lastStartTagNameHash == h)
      | _ => none
  | .isAppropriateEndTag, .scanner s => some (s.tagNameHash == m.c.lastStartTagNameHash)

/-! ### DSL interpreter -/

/-- `action_list!`: calls in order; a signalling call stops the list iff it was written with `?`. -/
def runCalls (env : Env κ) (inp : Bytes) : List Call → M κ → M κ × Option Signal
  | [], m => (m, none)
  | cl :: cs, m =>
    let r := act env cl.act inp m
    match r.2 with
    | some s => if cl.q then (r.1, some s) else runCalls env inp cs r.1
    | none => runCalls env inp cs r.1

/-- `action!(@state_transition …)` (syntax_dsl/action.rs:10-36) -/
def applyTrans (env : Env κ) (t : Trans) (m : M κ) : M κ × Option Signal :=
  match t with
  | .goto s => ({ m with c := { m.c with state := s, entered := false } }, none)
  | .gotoDyn => ({ m with c := { m.c with state := env.tbl.textState m.c.lastTextType, entered := false } }, none)
  | .reconsume s =>
      if m.c.nextPos = 0 then (m, some (.err (.panic "unconsume_ch underflow")))
      else ({ m with c := { m.c with nextPos := m.c.nextPos - 1, state := s, entered := false } }, none)

/-- Result of running an arm's action list: did it end in a transition (`return Ok(())`)? -/
inductive SeqEnd | fell | transitioned
  deriving DecidableEq, Repr

def runSeq (env : Env κ) (inp : Bytes) (s : ActSeq) (m : M κ) : M κ × Option Signal × SeqEnd :=
  let r := runCalls env inp s.calls m
  match r.2 with
  | some sig => (r.1, some sig, .fell)
  | none =>
    match s.trans with
    | none => (r.1, none, .fell)
    | some t =>
      let r' := applyTrans env t r.1
      (r'.1, r'.2, .transitioned)

def runBody (env : Env κ) (inp : Bytes) (b : Body) (m : M κ) : M κ × Option Signal × SeqEnd :=
  match b with
  | .seq s => runSeq env inp s m
  | .ite cnd t e =>
    match cond cnd m with
    | none => (m, some (.err (.panic "debug_assert: End tag should exist at this point")), .fell)
    | some true => runSeq env inp t m
    | some false => runSeq env inp e m

/-- `get_consumed_byte_count` (lexer/mod.rs:196, tag_scanner/mod.rs:157) -/
def consumedByteCount (inp : Bytes) (m : M κ) : Nat :=
  match m.r with
  | .lexer l => l.lexemeStart
  | .scanner s =>
    match s.tagStart, s.chSeqStart with
    | some a, some b => min a b
    | some a, none => a
    | none, some b => b
    | none, none => inp.length

/-- `adjust_for_next_input` (lexer/mod.rs:200, tag_scanner/mod.rs:172) -/
def adjustForNextInput (m : M κ) : M κ :=
  match m.r with
  | .lexer l =>
    let o := l.lexemeStart
    { m with r := .lexer { l with
        tokenPartStart := alignNat l.tokenPartStart o
        curTag := l.curTag.map (·.align o)
        curNonTag := l.curNonTag.map (·.align o)
        curAttr := l.curAttr.map (·.align o)
        lexemeStart := 0 } }
  | .scanner s =>
    match s.tagStart with
    | some ts => { m with r := .scanner { s with tagNameStart := alignNat s.tagNameStart ts, tagStart := some 0 } }
    | none => m

/-- `break_on_end_of_input` (state_machine/mod.rs:221) -/
def breakOnEndOfInput (inp : Bytes) (m : M κ) : M κ × Option Signal :=
  let consumed := consumedByteCount inp m
  let m := if m.c.isLast then m else adjustForNextInput m
  if m.c.nextPos = 0 ∨ m.c.nextPos - 1 < consumed then
    (m, some (.err (.panic "break_on_end_of_input: pos - consumed_byte_count underflow")))
  else
    ({ m with c := { m.c with nextPos := m.c.nextPos - 1 - consumed } }, some (.endOfInput consumed))

/-- `enter_ch_sequence_matching` / `leave_ch_sequence_matching` -/
def enterSeq (m : M κ) : M κ :=
  match m.r with
  | .scanner s => { m with r := .scanner { s with chSeqStart := some m.c.pos } }
  | .lexer _ => m

def leaveSeq (m : M κ) : M κ :=
  match m.r with
  | .scanner s => { m with r := .scanner { s with chSeqStart := none } }
  | .lexer _ => m

def seqCmp (ch exp : UInt8) (ignoreCase : Bool) : Bool :=
  ch == exp || (ignoreCase && ch == (exp ^^^ 0x20))

inductive SeqMatch | matched | needMore | mismatch
  deriving DecidableEq, Repr

/-- `ch_sequence_arm_pattern!`: compare the consumed byte, then look ahead (`lookahead(d)` reads
`input[next_pos + d - 1]`, with `next_pos` already past the consumed byte). -/
def matchSeqFrom (inp : Bytes) (isLast : Bool) (ignoreCase : Bool) (nextPos : Nat) :
    (depth : Nat) → List UInt8 → SeqMatch
  | _, [] => .matched
  | d, e :: es =>
    match inp[nextPos + d - 1]? with
    | some ch => if seqCmp ch e ignoreCase then matchSeqFrom inp isLast ignoreCase nextPos (d + 1) es else .mismatch
    | none => if isLast then .mismatch else .needMore

/-- does an ordinary arm pattern match the consumed byte? (`state_body!(@match_block …)`) -/
def patMatches (tbl : Table) (c : Common) (ch : Option UInt8) : Pat → Bool
  | .byte b => ch == some b
  | .alpha => match ch with | some x => tbl.alpha.any (fun r => r.1 ≤ x && x ≤ r.2) | none => false
  | .whitespace => match ch with | some x => tbl.whitespace.contains x | none => false
  | .closingQuote => ch == some c.closingQuote
  | .eoc => ch.isNone && !c.isLast
  | .eof => ch.isNone
  | .any => ch.isSome
  | .chSeq .. => false

/-- What one invocation of a state function tells the parsing loop. -/
abbrev StepRes (κ : Type) := M κ × Option Signal

/-- the sequence arms, in source order, before the byte match -/
def runSeqArms (env : Env κ) (inp : Bytes) (ch : Option UInt8) : List Arm → M κ → (M κ × Option Signal) ⊕ M κ
  | [], m => .inr m
  | arm :: rest, m =>
    match arm.pat with
    | .chSeq bytes ic =>
      let m := enterSeq m
      match bytes with
      | [] => runSeqArms env inp ch rest (leaveSeq m)
      | e0 :: es =>
        let first : SeqMatch :=
          match ch with
          | some c0 => if seqCmp c0 e0 ic then matchSeqFrom inp m.c.isLast ic m.c.nextPos 1 es else .mismatch
          | none => if m.c.isLast then .mismatch else .needMore
        match first with
        | .needMore => .inl (breakOnEndOfInput inp m)
        | .mismatch => runSeqArms env inp ch rest (leaveSeq m)
        | .matched =>
          let m := { m with c := { m.c with nextPos := m.c.nextPos + es.length } }
          let m := leaveSeq m
          let r := runBody env inp arm.body m
          .inl (r.1, r.2.1)
    | _ => runSeqArms env inp ch rest m

/-- first ordinary arm whose pattern matches -/
def findArm (tbl : Table) (c : Common) (ch : Option UInt8) : List Arm → Option Arm
  | [] => none
  | a :: rest => if patMatches tbl c ch a.pat then some a else findArm tbl c ch rest

/-- the body of a state function after the byte (or memchr result) has been consumed -/
def dispatch (env : Env κ) (inp : Bytes) (ch : Option UInt8) (arms : List Arm) (m : M κ) : StepRes κ :=
  match runSeqArms env inp ch arms m with
  | .inl r => r
  | .inr m =>
    match findArm env.tbl m.c ch arms with
    | none => (m, some (.err (.panic "non-exhaustive match in state body")))
    | some arm =>
      match arm.pat with
      | .eoc =>
        let r := runBody env inp arm.body m
        match r.2.1, r.2.2 with
        | some sig, _ => (r.1, some sig)
        | none, .transitioned => (r.1, none)
        | none, .fell => breakOnEndOfInput inp r.1
      | .eof =>
        if m.c.isLast then
          let r := runBody env inp arm.body m
          match r.2.1, r.2.2 with
          | some sig, _ => (r.1, some sig)
          | none, .transitioned => (r.1, none)
          | none, .fell => breakOnEndOfInput inp r.1
        else breakOnEndOfInput inp m
      | _ =>
        let r := runBody env inp arm.body m
        (r.1, r.2.1)

/-- `consume_until` (state_machine/mod.rs:340): position of the needle at or after `from`. -/
def findByte (needle : UInt8) : List UInt8 → Option Nat
  | [] => none
  | b :: bs => if b == needle then some 0 else (findByte needle bs).map (· + 1)

/-- One invocation of a state function (`state!`, syntax_dsl/state.rs). -/
def stateFn (env : Env κ) (inp : Bytes) (m : M κ) : StepRes κ :=
  match env.tbl.state? m.c.state with
  | none => (m, some (.err (.panic "unknown state")))
  | some sd =>
    -- enter actions, once
    let pre : StepRes κ :=
      if !sd.enter.isEmpty && !m.c.entered then
        let m1 := { m with c := { m.c with nextPos := m.c.nextPos + 1 } }
        let r := runCalls env inp sd.enter m1
        match r.2 with
        | some sig => (r.1, some sig)
        | none =>
          let m2 := r.1
          ({ m2 with c := { m2.c with nextPos := m2.c.nextPos - 1, entered := true } }, none)
      else (m, none)
    match pre.2 with
    | some sig => (pre.1, some sig)
    | none =>
      let m := pre.1
      match sd.memchr with
      | some needle =>
        let rest := inp.drop m.c.nextPos
        match findByte needle rest with
        | some p =>
          dispatch env inp (some needle) sd.arms { m with c := { m.c with nextPos := m.c.nextPos + 1 + p } }
        | none =>
          dispatch env inp none sd.arms { m with c := { m.c with nextPos := m.c.nextPos + 1 + rest.length } }
      | none =>
        let ch := inp[m.c.nextPos]?
        dispatch env inp ch sd.arms { m with c := { m.c with nextPos := m.c.nextPos + 1 } }

/-- `run_parsing_loop` with explicit fuel; running out of fuel is reported as a panic outcome
(`C15_linear` shows a linear bound suffices). -/
def runLoop (env : Env κ) (inp : Bytes) : Nat → M κ → M κ × Signal
  | 0, m => (m, .err (.panic "out of fuel"))
  | n + 1, m =>
    let r := stateFn env inp m
    match r.2 with
    | some sig => (r.1, sig)
    | none => runLoop env inp n r.1

/-- fuel used by the executable model: every state-function call consumes a byte, or reconsumes one
just consumed (chains of `reconsume` are short), or breaks. -/
def defaultFuel (inp : Bytes) : Nat := 8 * (inp.length + 2) + 64

/-! ### Parser (src/parser/mod.rs) -/

structure Parser (κ : Type) where
  lexC : Common
  lexR : LexRegs := {}
  scanC : Common
  scanR : ScanRegs := {}
  directive : Directive
  x : Ctx κ
  deriving Repr, Inhabited

def Parser.new (tbl : Table) (sink : κ) (initial : Directive) (strict : Bool) : Parser κ :=
  { lexC := { state := tbl.dataState }, scanC := { state := tbl.dataState },
    directive := initial, x := { sink := sink, sim := Sim.new strict } }

/-- `continue_from_bookmark` (state_machine/mod.rs:205): registers loaded into the target machine -/
def loadBookmark (env : Env κ) (d : Directive) (bm : Bookmark) (p : Parser κ) : Parser κ :=
  let upd (c : Common) : Common :=
    { c with cdataAllowed := bm.cdataAllowed, lastTextType := bm.textType,
             state := env.tbl.textState bm.textType, entered := false,
             lastStartTagNameHash := bm.lastStartTagNameHash, nextPos := bm.pos }
  match d with
  | .lex => { p with lexC := upd p.lexC, lexR := { p.lexR with lexemeStart := bm.pos, fd := bm.fd }, directive := .lex }
  | .scan => { p with scanC := upd p.scanC, directive := .scan }

def Parser.machine (p : Parser κ) (last : Bool) : M κ :=
  match p.directive with
  | .lex => ⟨{ p.lexC with isLast := last }, .lexer p.lexR, p.x⟩
  | .scan => ⟨{ p.scanC with isLast := last }, .scanner p.scanR, p.x⟩

def Parser.store (p : Parser κ) (m : M κ) : Parser κ :=
  match m.r with
  | .lexer l => { p with lexC := m.c, lexR := l, x := m.x }
  | .scanner s => { p with scanC := m.c, scanR := s, x := m.x }

/-- `Parser::parse` (parser/mod.rs:80); `switches` bounds the number of directive changes. -/
def Parser.parseLoop (env : Env κ) (inp : Bytes) (last : Bool) : Nat → Parser κ → Parser κ × Except Err Nat
  | 0, p => (p, .error (.panic "out of fuel (directive switches)"))
  | n + 1, p =>
    let r := runLoop env inp (defaultFuel inp) (p.machine last)
    let p := p.store r.1
    match r.2 with
    | .endOfInput consumed =>
        ({ p with x := { p.x with prevConsumed := p.x.prevConsumed + consumed } }, .ok consumed)
    | .directive d bm => Parser.parseLoop env inp last n (loadBookmark env d bm p)
    | .err (.internal _) => (p, .error .handler)   -- release: ContentHandlerError; debug: debug_assert panic
    | .err e => (p, .error e)

def Parser.parse (env : Env κ) (inp : Bytes) (last : Bool) (p : Parser κ) : Parser κ × Except Err Nat :=
  Parser.parseLoop env inp last (2 * inp.length + 8) p

end LolHtml.Model
