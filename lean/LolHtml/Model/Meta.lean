/-
Model of the meta-charset switch: `handler_adjust_charset_on_meta_tag` (/repo/src/rewriter/mod.rs:240-283,
the `found` flag and the `SharedEncoding` OnceLock) and `Dispatcher::flush_encoding_change`
(/repo/src/transform_stream/dispatcher.rs:246-254) called after every non-text token
(dispatcher.rs:264-270).  `α` = encodings (only equality matters).
-/
import LolHtml.Basic

namespace LolHtml.Enc.MetaCharset

/-- What the dispatcher sees. `metaTag cs`: a `<meta>` start tag whose charset declaration resolves to `cs`
(`none`: no declaration, unknown label, or a non-ASCII-compatible encoding — `AsciiCompatibleEncoding::new`
refuses it, rewriter/mod.rs:250-263). `tag`: any other token that goes through `token_produced`.
`text`: a text lexeme (goes to the text decoder, no `flush_encoding_change`). -/
inductive Tok (α : Type)
  | metaTag (cs : Option α)
  | tag
  | text
  deriving Repr

structure Disp (α : Type) where
  /-- `Dispatcher::encoding` (dispatcher.rs:86) -/
  encoding : α
  /-- `next_encoding: SharedEncoding` (a OnceLock) -/
  next : Option α
  /-- `found` captured by the handler closure (rewriter/mod.rs:244) -/
  found : Bool

/-- What the outside observes. -/
inductive Ev (α : Type)
  /-- `OutputSink::set_encoding(e)` -/
  | setEncoding (e : α)
  /-- token `i` (its strings decoded, its bytes and inserted content encoded) handled in encoding `e` -/
  | token (i : Nat) (e : α)
  deriving DecidableEq, Repr

variable {α : Type} [DecidableEq α]

/-- rewriter/mod.rs:246-268 -/
def handler (d : Disp α) (cs : Option α) : Disp α :=
  if d.found then d
  else match cs with
    | some c =>
      -- found = true; `let _ = encoding.set(charset)` (OnceLock: only the first set wins)
      { d with found := true, next := match d.next with | some n => some n | none => some c }
    | none => d

/-- dispatcher.rs:246-254 -/
def flushEncodingChange (d : Disp α) : Disp α × List (Ev α) :=
  match d.next with
  | some n => if n ≠ d.encoding then ({ d with encoding := n }, [.setEncoding n]) else (d, [])
  | none => (d, [])

/-- dispatcher.rs:257-290 for one lexeme; `adjust` = `Settings::adjust_charset_on_meta_tag` (the meta
handler is registered only then). -/
def stepTok (adjust : Bool) (d : Disp α) (i : Nat) : Tok α → Disp α × List (Ev α)
  | .metaTag cs =>
    -- :263 to_token(.., self.encoding) ; :266 handlers ; serialisation in the token's encoding ; :270
    let d1 := if adjust then handler d cs else d
    let (d2, evs) := flushEncodingChange d1
    (d2, .token i d.encoding :: evs)
  | .tag =>
    let (d2, evs) := flushEncodingChange d
    (d2, .token i d.encoding :: evs)
  | .text => (d, [.token i d.encoding])

def runFrom (adjust : Bool) : Disp α → Nat → List (Tok α) → List (Ev α)
  | _, _, [] => []
  | d, i, t :: ts =>
    let (d', evs) := stepTok adjust d i t
    evs ++ runFrom adjust d' (i + 1) ts

/-- `Dispatcher::new` (dispatcher.rs:229-244: `output_sink.set_encoding(encoding)`), then the tokens. -/
def run (adjust : Bool) (e0 : α) (toks : List (Tok α)) : List (Ev α) :=
  .setEncoding e0 :: runFrom adjust ⟨e0, none, false⟩ 0 toks

/-! ### specification -/

/-- all of `toks` (numbered from `i`) handled in `e`, no notification -/
def allIn (e : α) : Nat → List (Tok α) → List (Ev α)
  | _, [] => []
  | i, _ :: ts => .token i e :: allIn e (i + 1) ts

/-- THE SPECIFICATION: everything up to and including the first charset-declaring `<meta>` is handled
in the initial encoding; if that charset differs from the initial one the sink is told right after that
tag's token and everything later is handled in the new encoding; nothing else ever changes. -/
def specFrom (e0 : α) : Nat → List (Tok α) → List (Ev α)
  | _, [] => []
  | i, .metaTag (some c) :: ts =>
    if c ≠ e0 then .token i e0 :: .setEncoding c :: allIn c (i + 1) ts
    else .token i e0 :: allIn e0 (i + 1) ts
  | i, _ :: ts => .token i e0 :: specFrom e0 (i + 1) ts

def spec (adjust : Bool) (e0 : α) (toks : List (Tok α)) : List (Ev α) :=
  .setEncoding e0 :: (if adjust then specFrom e0 0 toks else allIn e0 0 toks)

end LolHtml.Enc.MetaCharset
