/-
Model.FullEvents — the dispatcher's calling protocol of the transform controller, as a driver of the real
controller model over TAG / TOKEN EVENTS (what `Disp.handleTag` / `Disp.handleNonTag` do with the
controller in lexer mode, dispatcher.rs:389-425):

  start tag   `handle_start_tag` [→ `InfoRequest` → the aux-info continuation with the tag's attributes]
              → capture flags; iff NEXT_START_TAG: `handle_token(start tag)`
  end tag     `handle_end_tag` → capture flags; iff NEXT_END_TAG: `handle_token(end tag)`
  other       `handle_token(text | comment | doctype)` iff the corresponding flag is set

`Lemmas/FullScopeStep.lean` relates `ctlStep` to package scope's `Controller.step` and package selvm's
`Vm.handleStartTag` / `Vm.handleEndTag`; `Thm/Full3.lean` transfers C05 / C04 and proves that no
panic-class error occurs along protocol-conforming event sequences.
-/
import LolHtml.Model.Full

namespace LolHtml.Model.Full
open LolHtml LolHtml.Model

inductive CtlEv
  /-- a start tag: hinted / lexed name, namespace, the aux info the dispatcher would hand over, the token -/
  | start (name : LocalName) (ns : Model.Ns) (info : AuxInfo) (tok : Model.Token)
  | end_ (name : LocalName) (tok : Model.Token)
  | other (tok : Model.Token)

/-- `handle_start_tag`, answered with the attributes when it asks for them -/
def startPhase (s : St) (name : LocalName) (ns : Model.Ns) (info : AuxInfo) : St × Except Err Model.Flags :=
  let r := startTag s name ns
  match r.2 with
  | .flags f => (r.1, .ok f)
  | .err e => (r.1, .error e)
  | .infoRequest => auxInfo r.1 info

/-- `handle_token` iff the capture flag is set -/
def tokIf (cfg : Cfg) (b : Bool) (s : St) (tok : Model.Token) : St × Option Err :=
  if b then ((token cfg s tok).1, (token cfg s tok).2.err) else (s, none)

def flagFor (f : Model.Flags) : Model.Token → Bool
  | .text .. => f.text
  | .comment .. => f.comments
  | .doctype .. => f.doctypes
  | _ => false

def ctlStep (cfg : Cfg) (s : St) : CtlEv → St × Option Err
  | .start name ns info tok =>
    let r := startPhase s name ns info
    match r.2 with
    | .error e => (r.1, some e)
    | .ok f => tokIf cfg f.nextStartTag r.1 tok
  | .end_ name tok =>
    let r := endTag s name
    tokIf cfg r.2.nextEndTag r.1 tok
  | .other tok => tokIf cfg (flagFor s.flags tok) s tok

/-- events in order, stopping at the first error -/
def ctlSteps (cfg : Cfg) : St → List CtlEv → St × Option Err
  | s, [] => (s, none)
  | s, e :: es =>
    match (ctlStep cfg s e).2 with
    | some err => ((ctlStep cfg s e).1, some err)
    | none => ctlSteps cfg (ctlStep cfg s e).1 es

/-- the token of the event has the kind of the event -/
def CtlEv.WellKinded : CtlEv → Prop
  | .start _ _ _ (.startTag ..) => True
  | .end_ _ (.endTag ..) => True
  | .other (.text ..) => True
  | .other (.comment ..) => True
  | .other (.doctype ..) => True
  | _ => False

end LolHtml.Model.Full
