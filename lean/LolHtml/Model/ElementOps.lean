/-
Model of `src/rewritable_units/element.rs`: every `Element` method and how it maps onto the
start-tag mutations and the deferred end-tag mutations.
-/
import LolHtml.Model.TokenEdit

namespace LolHtml.EditModel

/-- The closure built by `Element::into_end_tag_handler` (element.rs:697-729), combined with the
user's `on_end_tag` handlers (`H::combine_handlers`): first the internal handler (rename, install the
deferred mutations), then the user handlers in registration order. A user end-tag handler is the list
of API calls it makes. -/
structure EndTagHandler where
  modifiedName : Option Bytes
  mutations : Option Mutations
  user : List (List EndTagOp)
deriving DecidableEq, Repr, Inhabited

/-- Running the combined handler on the end tag (element.rs:708-720). Note that the deferred
mutations *replace* whatever mutations the end tag already carries. -/
def EndTagHandler.run (h : EndTagHandler) (t : EndTag) : EndTag :=
  let t := match h.modifiedName with
    | some n => t.setNameRaw n
    | none => t
  let t := match h.mutations with
    | some m => { t with mutations := m }
    | none => t
  h.user.foldl EndTag.applyOps t

/-- element.rs:44 `Element`. -/
structure Element where
  startTag : StartTag
  endTagMutations : Option Mutations := none
  modifiedEndTagName : Option Bytes := none
  endTagHandlers : List (List EndTagOp) := []
  canHaveContent : Bool
  shouldRemoveContent : Bool := false
deriving DecidableEq, Repr, Inhabited

/-- element.rs:58 `Element::new`. -/
def Element.new (startTag : StartTag) (canHaveContent : Bool) : Element :=
  { startTag := startTag, canHaveContent := canHaveContent }

/-- element.rs:82 characters rejected in tag names. -/
def tagNameForbidden (b : UInt8) : Bool :=
  b == 32 || b == 10 || b == 13 || b == 9 || b == 12 || b == 47 || b == 62

/-- element.rs:76 `tag_name_bytes_from_str` (UTF-8 document); `none` = `Err(TagNameError)`. -/
def tagNameBytesFromStr (name : Bytes) : Option Bytes :=
  match name with
  | [] => none
  | ch :: _ =>
    if !isAsciiAlpha ch then none
    else if name.any tagNameForbidden then none
    else some name

/-- element.rs:109 `end_tag_mutations_mut`: `get_or_insert_with(Mutations::new).mutate()`. -/
def Element.endTagMutationsMut (e : Element) : MutationsInner :=
  match e.endTagMutations with
  | some m => m.mutate
  | none => {}

def Element.setEndTagMutations (e : Element) (i : MutationsInner) : Element :=
  { e with endTagMutations := some ⟨some i⟩ }

def Element.setStartTagMutations (e : Element) (i : MutationsInner) : Element :=
  { e with startTag := { e.startTag with mutations := ⟨some i⟩ } }

/-- element.rs:100 `remove_content`. -/
def Element.removeContent (e : Element) : Element :=
  let st := e.startTag.mutations.mutate
  let e := e.setStartTagMutations { st with contentAfter := [] }
  let e := match e.endTagMutations with
    | some ⟨some endm⟩ => e.setEndTagMutations { endm with contentBefore := [] }
    | _ => e
  { e with shouldRemoveContent := true }

/-- The public `Element` API (the `streaming_*` variants differ only in the kind of chunk). -/
inductive ElementOp
  | before (c : StringChunk)
  | after (c : StringChunk)
  | prepend (c : StringChunk)
  | append (c : StringChunk)
  | setInnerContent (c : StringChunk)
  | replace (c : StringChunk)
  | remove
  | removeAndKeepContent
  | setTagName (name : Bytes)
  | setAttribute (name value : Bytes)
  | removeAttribute (name : Bytes)
  | startTag (op : StartTagOp)             -- `el.start_tag().<op>`
  | onEndTag (ops : List EndTagOp)         -- `el.on_end_tag(handler)` / `end_tag_handlers().push`
deriving DecidableEq, Repr, Inhabited

def Element.apply (e : Element) : ElementOp → Element
  -- element.rs:253 `before`
  | .before c =>
    let st := e.startTag.mutations.mutate
    e.setStartTagMutations { st with contentBefore := dsPushBack st.contentBefore c }
  -- element.rs:302 `after_chunk`
  | .after c =>
    if e.canHaveContent then
      let m := e.endTagMutationsMut
      e.setEndTagMutations { m with contentAfter := dsPushFront m.contentAfter c }
    else
      let st := e.startTag.mutations.mutate
      e.setStartTagMutations { st with contentAfter := dsPushFront st.contentAfter c }
  -- element.rs:357 `prepend_chunk`
  | .prepend c =>
    if e.canHaveContent then
      let e := { e with startTag := e.startTag.setSelfClosingSyntax false }
      let st := e.startTag.mutations.mutate
      e.setStartTagMutations { st with contentAfter := dsPushFront st.contentAfter c }
    else e
  -- element.rs:418 `append_chunk`
  | .append c =>
    if e.canHaveContent then
      let e := { e with startTag := e.startTag.setSelfClosingSyntax false }
      let m := e.endTagMutationsMut
      e.setEndTagMutations { m with contentBefore := dsPushBack m.contentBefore c }
    else e
  -- element.rs:473 `set_inner_content_chunk`
  | .setInnerContent c =>
    if e.canHaveContent then
      let e := { e with startTag := e.startTag.setSelfClosingSyntax false }
      let e := e.removeContent
      let st := e.startTag.mutations.mutate
      e.setStartTagMutations { st with contentAfter := dsPushFront st.contentAfter c }
    else e
  -- element.rs:528 `replace_chunk`
  | .replace c =>
    let e := e.setStartTagMutations (e.startTag.mutations.mutate.replace c)
    if e.canHaveContent then
      let e := e.removeContent
      e.setEndTagMutations e.endTagMutationsMut.remove
    else e
  -- element.rs:549 `remove`
  | .remove =>
    let e := e.setStartTagMutations e.startTag.mutations.mutate.remove
    if e.canHaveContent then
      let e := e.removeContent
      e.setEndTagMutations e.endTagMutationsMut.remove
    else e
  -- element.rs:577 `remove_and_keep_content`
  | .removeAndKeepContent =>
    let e := { e with startTag := e.startTag.apply (.mut .remove) }
    if e.canHaveContent then e.setEndTagMutations e.endTagMutationsMut.remove else e
  -- element.rs:135 `set_tag_name`
  | .setTagName name =>
    match tagNameBytesFromStr name with
    | none => e
    | some n =>
      let e := if e.canHaveContent then { e with modifiedEndTagName := some n } else e
      { e with startTag := e.startTag.setNameRaw n }
  -- element.rs:219 / 225
  | .setAttribute n v => { e with startTag := e.startTag.setAttribute n v }
  | .removeAttribute n => { e with startTag := e.startTag.removeAttribute n }
  -- element.rs:599 `start_tag()`
  | .startTag op => { e with startTag := e.startTag.apply op }
  -- element.rs:688 `on_end_tag` (an `Err` and no effect if the element cannot have content)
  | .onEndTag ops =>
    if e.canHaveContent then { e with endTagHandlers := e.endTagHandlers ++ [ops] } else e

def Element.applyOps (e : Element) (ops : List ElementOp) : Element := ops.foldl Element.apply e

/-- element.rs:697 `into_end_tag_handler`. -/
def Element.intoEndTagHandler (e : Element) : Option EndTagHandler :=
  if e.endTagMutations.isSome || e.modifiedEndTagName.isSome || !e.endTagHandlers.isEmpty then
    some { modifiedName := e.modifiedEndTagName, mutations := e.endTagMutations,
           user := e.endTagHandlers }
  else none

end LolHtml.EditModel
