/-
Model of `NthChild` (/repo/src/selectors_vm/ast.rs:8-38): the `An+B` test of `:nth-child()` /
`:nth-of-type()` on 32-bit two's-complement integers, with the exact wrapping operations of the Rust.

How `step`/`offset` get their values (for the record; the model takes them as arbitrary `Int32`):
`cssparser::parse_nth` (cssparser-0.36 src/nth.rs) returns `(i32, i32)`; integer tokens saturate to
`i32::MIN ..= i32::MAX` (tokenizer.rs:1095-1102), `-n- 5`-style forms multiply a non-negative `b` by
`-1` (no overflow), so *every* pair of `i32` is producible from selector text, including `i32::MIN`.
`ast.rs:161-166` stores them unchanged: `NthChild::new(data.an_plus_b.0, data.an_plus_b.1)`.
The index is `ChildCounter.cumulative : i32` (stack.rs:53-73), which starts at 1 and is incremented
once per sibling, so the implementation only ever calls `has_index` with `index ≥ 1`.
-/
import LolHtml.Basic

namespace LolHtml.Model.Nth

/-- ast.rs:8-11 `struct NthChild { step: i32, offset: i32 }` -/
structure NthChild where
  step : Int32
  offset : Int32
  deriving Repr, DecidableEq

/-- `i32::wrapping_sub` — total, two's complement (`Int32` subtraction in Lean wraps). -/
def wrappingSub (x y : Int32) : Int32 := x - y

/-- `i32::wrapping_rem`: panics iff the divisor is 0 (explicit failure branch); `MIN % -1 = 0`
(Lean's `Int32` `%` is `BitVec.srem`, the truncating remainder, with `MIN.srem (-1) = 0`). -/
def wrappingRem (x y : Int32) : Option Int32 :=
  if y = 0 then none else some (x % y)

/-- ast.rs:21-37 `NthChild::has_index`; `none` = panic (division by zero in `wrapping_rem`). -/
def hasIndex (nth : NthChild) (index : Int32) : Option Bool :=
  let offset := nth.offset
  let step := nth.step
  -- ast.rs:25
  let offsetted := wrappingSub index offset
  -- ast.rs:26-27
  if step = 0 then
    some (offsetted == 0)
  -- ast.rs:28-29
  else if (offsetted < 0 && step > 0) || (offsetted > 0 && step < 0) then
    some false
  else
    -- ast.rs:35
    match wrappingRem offsetted step with
    | none => none
    | some r => some (r == 0)

end LolHtml.Model.Nth
