/-
Model of `NthChild` (/repo/src/selectors_vm/ast.rs:8-35, as of commit 614f5b5): the `An+B` test of
`:nth-child()` / `:nth-of-type()`. The fields are `i32`; `has_index` widens `index`, `offset` and
`step` to `i64` and computes there. The `i64` operations are modelled with explicit failure branches
(arithmetic overflow panics in debug builds; `%` panics on a zero divisor and on `MIN % -1`), so that
"never panics" is a theorem.

How `step`/`offset` get their values (for the record; the model takes them as arbitrary `Int32`):
`cssparser::parse_nth` (cssparser-0.36 src/nth.rs) returns `(i32, i32)`; integer tokens saturate to
`i32::MIN ..= i32::MAX` (tokenizer.rs:1095-1102), `-n- 5`-style forms multiply a non-negative `b` by
`-1` (no overflow), so *every* pair of `i32` is producible from selector text, including `i32::MIN`.
`ast.rs:158-163` stores them unchanged: `NthChild::new(data.an_plus_b.0, data.an_plus_b.1)`.
The index is `ChildCounter.cumulative : i32` (stack.rs:53-73), which starts at 1 and is incremented
once per sibling, so the implementation only ever calls `has_index` with `index ≥ 1`.
-/
import LolHtml.Basic

namespace LolHtml.Model.Nth

/-- ast.rs:8-11 `struct NthChild { step: i32, offset: i32 }` -/
structure NthChild where
  step : Int32
  offset : Int32
  deriving Repr, DecidableEq

/-- `i64 - i64`: `none` = "attempt to subtract with overflow" (the mathematical difference does not
fit in an `i64`). -/
def checkedSub64 (x y : Int64) : Option Int64 :=
  let r := x.toInt - y.toInt
  if -(2 ^ 63) ≤ r ∧ r < 2 ^ 63 then some (x - y) else none

/-- `i64 % i64`: `none` = panic (zero divisor, or `i64::MIN % -1` overflow). Lean's `Int64` `%` is
`BitVec.srem`, the truncating remainder Rust uses. -/
def checkedRem64 (x y : Int64) : Option Int64 :=
  if y = 0 then none
  else if x = Int64.minValue ∧ y = -1 then none
  else some (x % y)

/-- ast.rs:21-34 `NthChild::has_index`; `none` = panic. -/
def hasIndex (nth : NthChild) (index : Int32) : Option Bool :=
  let offset := nth.offset
  -- ast.rs:25 `let offsetted = index as i64 - offset as i64;`
  match checkedSub64 index.toInt64 offset.toInt64 with
  | none => none
  | some offsetted =>
    -- ast.rs:26 `let step = step as i64;`
    let step := nth.step.toInt64
    -- ast.rs:27-28
    if step = 0 then
      some (offsetted == 0)
    -- ast.rs:29-30
    else if (offsetted < 0 && step > 0) || (offsetted > 0 && step < 0) then
      some false
    else
      -- ast.rs:32
      match checkedRem64 offsetted step with
      | none => none
      | some r => some (r == 0)

end LolHtml.Model.Nth
