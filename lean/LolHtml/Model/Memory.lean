/-
Model of lol-html's memory accounting (property C10).

Rust transcribed (paths relative to /repo/src):
  memory/limiter.rs      SharedMemoryLimiter::{new, increase_usage}          ↦ `Limiter`, `Limiter.increase`
  memory/arena.rs        Arena::{new, append, init_with, shift}              ↦ `Arena.new/append/initWith/shift`
  memory/limited_vec.rs  LimitedVec::{new, push, drain, min_capacity}        ↦ `LimitedVec.new/push/drainTo/minCapacity`
  transform_stream/mod.rs TransformStream::{write,end} buffer handling       ↦ `TS.write` / `TS.endChunkLen`
  selectors_vm/stack.rs  Stack::{push_item, pop_up_to}                       ↦ `Op.push` / `Op.drainTo` of `MemSys`

`usize` is 64 bit. Every partial `usize` operation of the Rust has an explicit `panic` branch here
(debug build: arithmetic overflow / slice range panic; release build: the accounting wraps around and is
lost) so that "never panics" is a theorem and not an artefact of unbounded `Nat`.

Assumed about `std` (DESIGN §4 C10): `Vec::try_reserve_exact(n)` on a vector with `cap - len < n`
yields capacity exactly `len + n`, fails (CapacityOverflow) exactly when the byte size would exceed
`isize::MAX`, and the allocator itself never fails; `len ≤ capacity` is `Vec`'s own invariant.
-/
import LolHtml.Basic

namespace LolHtml.Model.Memory

/-- `usize::MAX` on the 64-bit targets the harness runs on. -/
def usizeMax : Nat := 18446744073709551615
/-- `isize::MAX`: the largest byte size of any Rust allocation / slice. -/
def isizeMax : Nat := 9223372036854775807

/-! ## limiter.rs -/

/-- `SharedMemoryLimiter { current_usage, max }` (limiter.rs:15-18). -/
structure Limiter where
  usage : Nat
  max : Nat
deriving Repr, DecidableEq

/-- `SharedMemoryLimiter::new` (limiter.rs:22-27). -/
def Limiter.new (max : Nat) : Limiter := { usage := 0, max := max }

/-- Result of `increase_usage`. -/
inductive Charge where
  /-- `Ok(())`, usage already increased -/
  | ok (l : Limiter)
  /-- `Err(MemoryLimitExceededError)`; the usage stays increased (there is no roll-back) -/
  | exceeded (l : Limiter)
  /-- `previous_usage + byte_count` overflows `usize` (limiter.rs:38): panic with overflow checks,
      silent wrap-around of the accounting without -/
  | overflow
deriving Repr, DecidableEq

/-- `SharedMemoryLimiter::increase_usage` (limiter.rs:36-46): `fetch_add` first, compare after, never
    roll back. -/
def Limiter.increase (l : Limiter) (n : Nat) : Charge :=
  if usizeMax < l.usage + n then .overflow
  else if l.max < l.usage + n then .exceeded { l with usage := l.usage + n }
  else .ok { l with usage := l.usage + n }

/-! ## outcomes -/

/-- The panic sites of the modelled code. -/
inductive Panic where
  /-- `copy_within(byte_count.., 0)` / `len - byte_count` with `byte_count > len` (arena.rs:58-59) -/
  | shiftRange
  /-- `Vec::drain(start..)` with `start > len` (limited_vec.rs:71) -/
  | drainRange
  /-- overflow of `previous_usage + byte_count` (limiter.rs:38) -/
  | usageOverflow
  /-- overflow of `slice.len() + len` (arena.rs:32) or `capacity() + additional` (limited_vec.rs:32) -/
  | arithOverflow
  /-- `debug_assert_eq!(new_capacity, self.vec.capacity())` (limited_vec.rs:43) -/
  | capAssert
deriving Repr, DecidableEq

/-- Outcome of one operation on a state of type `σ`. -/
inductive Outcome (σ : Type) where
  | ok (s : σ)
  /-- `Err(MemoryLimitExceededError)`; `charged` bytes were added to the usage and not rolled back -/
  | err (charged : Nat) (s : σ)
  | panic (p : Panic)
deriving Repr, DecidableEq

/-! ## arena.rs -/

/-- `Arena { limiter, data: Vec<u8> }` (arena.rs:6-9): capacity and content of `data`. -/
structure Arena where
  cap : Nat
  data : Bytes
deriving Repr, DecidableEq

def Arena.len (a : Arena) : Nat := a.data.length

/-- `SharedMemoryLimiter::decrease_usage` (limiter.rs:59-61): `fetch_sub`, which wraps around
    silently (no overflow check on atomics) when more is subtracted than was charged. -/
def Limiter.decrease (l : Limiter) (n : Nat) : Limiter :=
  if n ≤ l.usage then { l with usage := l.usage - n }
  else { l with usage := l.usage + (usizeMax + 1) - n }

/-- `Arena::new` (arena.rs:12-32, after the repair of finding F5 in /repo commit 6823fd9): the
    preallocation is first clamped to the limit (`preallocated_size.min(limiter.max())`), then charged
    and reserved; if that fails (the limiter is already in use, or `try_reserve_exact` fails with
    CapacityOverflow above `isize::MAX`) the charge is rolled back with `decrease_usage` and the arena
    starts with capacity 0; the buffer is then allocated on demand by `append`. -/
def Arena.new (l : Limiter) (prealloc : Nat) : Outcome (Limiter × Arena) :=
  let size := min prealloc l.max
  match l.increase size with
  | .overflow => .panic .usageOverflow
  | .exceeded l' => .ok (l'.decrease size, { cap := 0, data := [] })
  | .ok l' =>
    if isizeMax < size then
      -- try_reserve_exact: CapacityOverflow
      .ok (l'.decrease size, { cap := 0, data := [] })
    else .ok (l', { cap := size, data := [] })

/-- `Arena::append` (arena.rs:29-52).
    The guard `capacity() - len() < slice.len()` is written `cap < len + |slice|`, which is the same
    under `Vec`'s invariant `len ≤ capacity` (the subtraction cannot underflow). -/
def Arena.append (l : Limiter) (a : Arena) (bs : Bytes) : Outcome (Limiter × Arena) :=
  if a.cap < a.len + bs.length then
    -- arena.rs:32  `slice.len() + self.data.len() - self.data.capacity()`
    if usizeMax < bs.length + a.len then .panic .arithOverflow
    else
      let additional := bs.length + a.len - a.cap
      match l.increase additional with
      | .overflow => .panic .usageOverflow
      | .exceeded l' => .err additional (l', a)
      | .ok l' =>
        -- arena.rs:43-45 try_reserve_exact(slice.len()): new capacity = len + |slice|
        if isizeMax < a.len + bs.length then .err additional (l', a)
        else .ok (l', { cap := a.len + bs.length, data := a.data ++ bs })
  else .ok (l, { a with data := a.data ++ bs })

/-- `Arena::init_with` (arena.rs:54-57): `clear()` keeps the capacity. -/
def Arena.initWith (l : Limiter) (a : Arena) (bs : Bytes) : Outcome (Limiter × Arena) :=
  Arena.append l { a with data := [] } bs

/-- `Arena::shift` (arena.rs:59-62). -/
def Arena.shift (a : Arena) (k : Nat) : Outcome Arena :=
  if a.len < k then .panic .shiftRange
  else .ok { a with data := a.data.drop k }

/-! ## limited_vec.rs -/

/-- `LimitedVec<T> { limiter, vec }` (limited_vec.rs:10-13) with `itemSize = size_of::<T>()`; only the
    shape of `vec` matters for the accounting. -/
structure LimitedVec where
  cap : Nat
  len : Nat
  itemSize : Nat
deriving Repr, DecidableEq

/-- `LimitedVec::new` (limited_vec.rs:16-21). -/
def LimitedVec.new (itemSize : Nat) : LimitedVec := { cap := 0, len := 0, itemSize := itemSize }

/-- `LimitedVec::min_capacity` (limited_vec.rs:76-79). -/
def minCapacity (itemSize : Nat) : Nat :=
  if 8 ≤ 128 / itemSize then 128 / itemSize else 8

/-- `LimitedVec::push` (limited_vec.rs:23-47). -/
def LimitedVec.push (l : Limiter) (v : LimitedVec) : Outcome (Limiter × LimitedVec) :=
  if v.len < v.cap then
    -- `capacity() - len() >= 1`
    .ok (l, { v with len := v.len + 1 })
  else
    let additional := max v.cap (minCapacity v.itemSize)
    -- limited_vec.rs:32 `let new_capacity = self.vec.capacity() + additional;`
    if usizeMax < v.cap + additional then .panic .arithOverflow
    -- limited_vec.rs:33-35 `additional.checked_mul(size_of::<T>()).ok_or(MemoryLimitExceededError)?`
    else if usizeMax < additional * v.itemSize then .err 0 (l, v)
    else
      match l.increase (additional * v.itemSize) with
      | .overflow => .panic .usageOverflow
      | .exceeded l' => .err (additional * v.itemSize) (l', v)
      | .ok l' =>
        -- limited_vec.rs:40-42 try_reserve_exact(additional): capacity = len + additional,
        -- CapacityOverflow when the byte size exceeds isize::MAX
        if isizeMax < (v.len + additional) * v.itemSize then
          .err (additional * v.itemSize) (l', v)
        -- limited_vec.rs:43 debug_assert_eq!(new_capacity, self.vec.capacity())
        else if v.cap + additional ≠ v.len + additional then .panic .capAssert
        else .ok (l', { v with cap := v.len + additional, len := v.len + 1 })

/-- `LimitedVec::drain(k..)` fully consumed (limited_vec.rs:67-72), as used by
    `Stack::pop_up_to` (stack.rs:301). -/
def LimitedVec.drainTo (v : LimitedVec) (k : Nat) : Outcome LimitedVec :=
  if v.len < k then .panic .drainRange
  else .ok { v with len := k }

/-! ## the buffering machine: one limiter shared by one arena and one limited vec -/

structure MemSys where
  lim : Limiter
  arena : Arena
  vec : LimitedVec
deriving Repr, DecidableEq

inductive Op where
  /-- `Arena::append(slice)` -/
  | append (bs : Bytes)
  /-- `Arena::init_with(slice)` -/
  | initWith (bs : Bytes)
  /-- `Arena::shift(k)` -/
  | shift (k : Nat)
  /-- `LimitedVec::push(item)` (`Stack::push_item`) -/
  | push
  /-- `LimitedVec::drain(k..)` (`Stack::pop_up_to`) -/
  | drainTo (k : Nat)
deriving Repr, DecidableEq

/-- `HtmlRewriter::new` as far as memory goes (rewriter/mod.rs:176-190, transform_stream/mod.rs:66-69,
    selectors_vm/stack.rs:229): limiter with `max = M`, arena with `prealloc`, empty stack. -/
def MemSys.init (M prealloc itemSize : Nat) : Outcome MemSys :=
  match Arena.new (Limiter.new M) prealloc with
  | .ok (l, a) => .ok { lim := l, arena := a, vec := LimitedVec.new itemSize }
  | .err c (l, a) => .err c { lim := l, arena := a, vec := LimitedVec.new itemSize }
  | .panic p => .panic p

/-- One operation. -/
def MemSys.step (s : MemSys) : Op → Outcome MemSys
  | .append bs =>
    match Arena.append s.lim s.arena bs with
    | .ok (l, a) => .ok { s with lim := l, arena := a }
    | .err c (l, a) => .err c { s with lim := l, arena := a }
    | .panic p => .panic p
  | .initWith bs =>
    match Arena.initWith s.lim s.arena bs with
    | .ok (l, a) => .ok { s with lim := l, arena := a }
    | .err c (l, a) => .err c { s with lim := l, arena := a }
    | .panic p => .panic p
  | .shift k =>
    match Arena.shift s.arena k with
    | .ok a => .ok { s with arena := a }
    | .err c a => .err c { s with arena := a }
    | .panic p => .panic p
  | .push =>
    match LimitedVec.push s.lim s.vec with
    | .ok (l, v) => .ok { s with lim := l, vec := v }
    | .err c (l, v) => .err c { s with lim := l, vec := v }
    | .panic p => .panic p
  | .drainTo k =>
    match LimitedVec.drainTo s.vec k with
    | .ok v => .ok { s with vec := v }
    | .err c v => .err c { s with vec := v }
    | .panic p => .panic p

/-- What the caller sees of one step. -/
inductive Res where
  | ok
  | err (charged : Nat)
  | panic (p : Panic)
deriving Repr, DecidableEq

/-- State after an outcome (a panic leaves the state as it was: nothing was written yet at any of the
    modelled panic sites). -/
def Outcome.stateD {σ : Type} (d : σ) : Outcome σ → σ
  | .ok s => s
  | .err _ s => s
  | .panic _ => d

def Outcome.res {σ : Type} : Outcome σ → Res
  | .ok _ => .ok
  | .err c _ => .err c
  | .panic p => .panic p

/-- Run an operation list: the list of (result, state after) per executed op. Execution continues
    after an `err` (the limiter is never rolled back, which is what makes this interesting) and stops
    at a panic. -/
def MemSys.run (s : MemSys) : List Op → List (Res × MemSys)
  | [] => []
  | op :: rest =>
    match s.step op with
    | .ok s' => (.ok, s') :: s'.run rest
    | .err c s' => (.err c, s') :: s'.run rest
    | .panic p => [(.panic p, s)]

/-- State after the run (the state at the panic if the run panicked); it is the last state of
    `run` (`MemSys.final_eq_last`). -/
def MemSys.final (s : MemSys) : List Op → MemSys
  | [] => s
  | op :: rest =>
    match s.step op with
    | .ok s' => s'.final rest
    | .err _ s' => s'.final rest
    | .panic _ => s

/-- Every operation of the run returned `Ok`. -/
def MemSys.AllOk (s : MemSys) : List Op → Prop
  | [] => True
  | op :: rest =>
    match s.step op with
    | .ok s' => s'.AllOk rest
    | _ => False

instance MemSys.decAllOk : (ops : List Op) → (s : MemSys) → Decidable (s.AllOk ops)
  | [], _ => isTrue trivial
  | op :: rest, s =>
    match h : s.step op with
    | .ok s' =>
      have := MemSys.decAllOk rest s'
      decidable_of_iff (s'.AllOk rest) (by simp only [MemSys.AllOk, h])
    | .err _ _ => isFalse (by simp only [MemSys.AllOk, h, not_false_eq_true])
    | .panic _ => isFalse (by simp only [MemSys.AllOk, h, not_false_eq_true])

/-- The contract the callers of these operations have to respect (and do respect:
    `TransformStream::write` shifts by `consumed < chunk.len()`, transform_stream/mod.rs:150-152;
    `Stack::pop_up_to` drains from an index found by `rposition`, stack.rs:293-301; a Rust slice is
    never longer than `isize::MAX`). -/
def Op.Contract (s : MemSys) : Op → Prop
  | .append bs => bs.length ≤ isizeMax
  | .initWith bs => bs.length ≤ isizeMax
  | .shift k => k ≤ s.arena.len
  | .push => True
  | .drainTo k => k ≤ s.vec.len

/-- Number of bytes an operation brings in. -/
def Op.incoming : Op → Nat
  | .append bs => bs.length
  | .initWith bs => bs.length
  | _ => 0

/-- Bytes really held: capacity of the arena plus capacity of the stack in bytes. -/
def MemSys.allocated (s : MemSys) : Nat := s.arena.cap + s.vec.cap * s.vec.itemSize

/-- Sum of the charges of the failed operations of a trace. -/
def failedCharges : List (Res × MemSys) → Nat
  | [] => 0
  | (.err c, _) :: t => c + failedCharges t
  | _ :: t => failedCharges t

/-! ## transform_stream/mod.rs: the buffer protocol of `write` / `end` -/

/-- Buffer-related state of `TransformStream` (transform_stream/mod.rs:36-38). -/
structure TS where
  lim : Limiter
  buffer : Arena
  hasBufferedData : Bool
deriving Repr, DecidableEq

/-- `TransformStream::write` (transform_stream/mod.rs:99-178), buffer handling only. `consumed` is the
    parser's answer for the chunk it was given (`parse(chunk, false)`, assumed `≤ chunk.len()`; a
    parser error is outside this model). Returns the chunk handed to the parser as well. -/
def TS.write (t : TS) (data : Bytes) (consumed : Bytes → Nat) : Outcome TS :=
  if t.hasBufferedData then
    match Arena.append t.lim t.buffer data with
    | .panic p => .panic p
    | .err c (l, a) => .err c { t with lim := l, buffer := a }
    | .ok (l, a) =>
      let chunk := a.data
      let n := consumed chunk
      if n < chunk.length then
        match Arena.shift a n with
        | .ok a' => .ok { lim := l, buffer := a', hasBufferedData := true }
        | .err c a' => .err c { lim := l, buffer := a', hasBufferedData := true }
        | .panic p => .panic p
      else .ok { lim := l, buffer := a, hasBufferedData := false }
  else
    let n := consumed data
    if n < data.length then
      -- `data.get(consumed..)` is `Some` because `n < data.len()`
      match Arena.initWith t.lim t.buffer (data.drop n) with
      | .ok (l, a) => .ok { lim := l, buffer := a, hasBufferedData := true }
      | .err c (l, a) => .err c { t with lim := l, buffer := a }
      | .panic p => .panic p
    else .ok { t with hasBufferedData := false }

/-- The bytes received and not yet consumed by the parser: what the next `write` prepends to its
    data and what `end` will still parse (transform_stream/mod.rs:102-103, 183-187). -/
def TS.pending (t : TS) : Bytes := if t.hasBufferedData then t.buffer.data else []

/-- Number of retained bytes. -/
def TS.retained (t : TS) : Nat := t.pending.length

/-- `TransformStream::new` as far as the buffer goes (transform_stream/mod.rs:66-77). -/
def TS.new (M prealloc : Nat) : Outcome TS :=
  match Arena.new (Limiter.new M) prealloc with
  | .ok (l, a) => .ok { lim := l, buffer := a, hasBufferedData := false }
  | .err c (l, a) => .err c { lim := l, buffer := a, hasBufferedData := false }
  | .panic p => .panic p

/-- Bytes a successful `write` hands to the sink when nothing is captured or rewritten
    (`flush_remaining_input(chunk, consumed_byte_count)`, transform_stream/mod.rs:146-148). -/
def TS.writeOut (t : TS) (data : Bytes) (consumed : Bytes → Nat) : Nat :=
  consumed (t.pending ++ data)

/-- A sequence of writes, stopping at the first one that does not return `Ok` (the rewriter is
    poisoned then). Per executed write: result, state after, total bytes handed to the sink. -/
def TS.run (t : TS) (consumed : Bytes → Nat) : List Bytes → Nat → List (Res × TS × Nat)
  | [], _ => []
  | d :: rest, out =>
    match t.write d consumed with
    | .ok t' => (.ok, t', out + t.writeOut d consumed) :: t'.run consumed rest (out + t.writeOut d consumed)
    | .err c t' =>
      -- a failing `append` happens before parsing (nothing flushed); a failing `init_with` happens
      -- after `flush_remaining_input` (transform_stream/mod.rs:146-153)
      [(.err c, t', if t.hasBufferedData then out else out + t.writeOut d consumed)]
    | .panic p => [(.panic p, t, out)]

/-- The tag scanner's answer on the alphabet {`<`, `>`, anything else = a letter}: everything is
    consumed except a tag that is still open at the end of the chunk (from its `<` on). Used by lane
    `memts` as the parser oracle of `TS.write`; states: 0 = data, 1 = tag open, 2 = tag name. -/
def scanConsumedGo : Bytes → (pos state start : Nat) → Nat
  | [], pos, state, start => if state = 0 then pos else start
  | b :: rest, pos, state, start =>
    if state = 0 then
      if b = 60 then scanConsumedGo rest (pos + 1) 1 pos else scanConsumedGo rest (pos + 1) 0 start
    else if state = 1 then
      if b = 60 then scanConsumedGo rest (pos + 1) 1 pos
      else if b = 62 then scanConsumedGo rest (pos + 1) 0 start
      else scanConsumedGo rest (pos + 1) 2 start
    else
      if b = 62 then scanConsumedGo rest (pos + 1) 0 start else scanConsumedGo rest (pos + 1) 2 start

def scanConsumed (chunk : Bytes) : Nat := scanConsumedGo chunk 0 0 0

end LolHtml.Model.Memory
