/-
`Model.Threads.Sys` instantiated with the C-API model (`Model/CApi.lean`).

An *instance* is one C client session: a private `CApi.Env` (its builder, selectors, rewriter, `Str`s, iterators,
streaming handlers, handler user data = `calls`, output sink, result log).  A call on the instance is one entry
point of `lol_html.h` (`CApi.TopOp`), executed by `CApi.topStep` together with every call-back it triggers.
`LAST_ERROR` does not belong to the session but to the calling thread: the call is run with the session's
`lastErr` cleared, on a canonical thread id, and whatever it leaves in that slot is what the thread model
records in the caller's `World.lastErr` (`save_last_error`, errors.rs:19).  That this is the same as running
`topStep` with the real thread id on the real slots is `capiThreadParametric_statement` below, proved in
`Thm/C18_ThreadsCApi.lean` (`capiThreadParametric`).

`lol_html_take_last_error` is the thread-level `Threads.Op.takeLastError`, not a session call; sessions whose
handlers call it (reading thread state from user code) are outside `takeFree`.
-/
import LolHtml.Model.Threads

namespace LolHtml.Model.Threads
open LolHtml.Model.CApi

variable {R : RApi}

def clearErr (e : Env R) : Env R := { e with lastErr := fun _ => none }

/-- What the C caller can observe of its session after a call. -/
inductive CapiObs
  | ok (log : List CRes) (sink : List Bytes) (drops : List Nat)
  | notPermitted              -- the caller broke a precondition of lol_html.h
  | fault (f : Fault)
  | threadLevel               -- `take_last_error` is `Threads.Op.takeLastError`
  deriving DecidableEq, Repr

def isTake {χ : Type} : TopOp χ → Bool
  | .takeLastError _ => true
  | _ => false

def COp.isTake : COp → Bool
  | .takeLastError _ => true
  | _ => false

/-- No handler body calls `lol_html_take_last_error`. -/
def takeFree (prog : Prog) : Prop := ∀ h, ∀ op ∈ (prog h).ops, COp.isTake op = false

/-- The thread running the call in the per-session semantics. -/
def canon : Tid := 0

@[reducible] def capiSys (R : RApi) (pol : Policy) (prog : Prog) (V : Type) (g0 : Nat → V) : Sys where
  V := V
  St := Env R
  Call := TopOp R.Chunk
  Obs := CapiObs
  isCreate := fun op => match op with | .builderNew _ => true | _ => false
  g0 := g0
  step := fun _ st op =>
    let e : Env R := match st with | none => Env.init R | some e => e
    if isTake op then (some e, .threadLevel, none)
    else
      match topStep pol prog (clearErr e) ⟨canon, op⟩ with
      | .ok e' => (some (clearErr e'), .ok e'.log e'.sink e'.drops, e'.lastErr canon)
      | .notPermitted _ => (some e, .notPermitted, none)
      | .fault f => (some e, .fault f, none)
  parseSel := fun _ s =>
    match utf8Check s with
    | some err => (.ok [.ptr true] [] [], some (.utf8 err))
    | none =>
      match R.parseSelector s with
      | .error m => (.ok [.ptr true] [] [], some (.rust m))
      | .ok _ => (.ok [.ptr false] [] [], none)

/-- **Thread parametricity of an entry point**: executed by thread `t` on an environment with arbitrary
    `LAST_ERROR` slots, `op` behaves as on the canonical thread with clean slots — same outcome class, same
    environment up to `lastErr`, and `lastErr` changes exactly by recording, in slot `t`, what the canonical run
    leaves in its slot. -/
def parametricAt (pol : Policy) (prog : Prog) (e : Env R) (t : Tid) (op : TopOp R.Chunk) : Prop :=
  match topStep pol prog e ⟨t, op⟩, topStep pol prog (clearErr e) ⟨canon, op⟩ with
  | .ok e', .ok e'' => clearErr e' = clearErr e'' ∧ e'.lastErr = record e.lastErr t (e''.lastErr canon)
  | .notPermitted _, .notPermitted _ => True
  | .fault f, .fault f' => f = f'
  | _, _ => False

/-- Full claim: every entry point other than `take_last_error`, with handlers that do not call it. -/
def capiThreadParametric_statement (R : RApi) : Prop :=
  ∀ (pol : Policy) (prog : Prog), takeFree prog →
    ∀ (e : Env R) (t : Tid) (op : TopOp R.Chunk), isTake op = false → parametricAt pol prog e t op

/-- Entry points that never run a call-back (everything except `write` and `end`). -/
def noCallback {χ : Type} : TopOp χ → Bool
  | .write .. => false
  | .end_ .. => false
  | _ => true

end LolHtml.Model.Threads
