/-
Model of the rewritable tokens of `src/rewritable_units/tokens/{start_tag,end_tag,comment,text_chunk,
doctype,attributes}.rs`: a token = kind + raw source bytes + parsed fields + pending mutations; the
public API calls (operations) and serialisation ("raw if untouched, otherwise rebuilt").
-/
import LolHtml.Model.Mutations

namespace LolHtml.EditModel

/-! ### Attributes (tokens/attributes.rs) -/

/-- attributes.rs:40 `Attribute`: `raw = None` once the value was set through the API. -/
structure Attribute where
  name : Bytes
  value : Bytes
  raw : Option Bytes
deriving DecidableEq, Repr, Inhabited

/-- attributes.rs:75-78 characters rejected in attribute names. -/
def attrNameForbidden (b : UInt8) : Bool :=
  b == 32 || b == 10 || b == 13 || b == 9 || b == 12 || b == 47 || b == 62 || b == 61

/-- attributes.rs:68 `Attribute::name_from_string` (UTF-8 document: every string is encodable).
`none` = `Err(AttributeNameError)`. -/
def attrNameFromString (name : Bytes) : Option Bytes :=
  if name.isEmpty then none
  else if name.any attrNameForbidden then none
  else some name

/-- base/mod.rs:22 `eq_case_insensitive(mixed_case, lowercased)`: only the first argument is
lower-cased. -/
def eqCaseInsensitive (mixedCase lowercased : Bytes) : Bool :=
  asciiLowerBytes mixedCase == lowercased

/-- html/mod.rs:49 `escape_double_quotes_only`: `"` → `&quot;`. -/
def escapeDoubleQuotesOnly : Bytes → Bytes
  | [] => []
  | b :: rest => (if b == 34 then [38, 113, 117, 111, 116, 59] else [b]) ++ escapeDoubleQuotesOnly rest

/-- attributes.rs:142 `impl Serialize for &Attribute`. -/
def Attribute.intoBytes (a : Attribute) : Bytes :=
  match a.raw with
  | some raw => raw
  | none => a.name ++ [61, 34] ++ escapeDoubleQuotesOnly a.value ++ [34]

/-- attributes.rs:135 `Attribute::set_value`. -/
def Attribute.setValue (a : Attribute) (value : Bytes) : Attribute :=
  { a with value := value, raw := none }

/-- attributes.rs:233-237: `iter_mut().find(..)` then `set_value` on the first match, `none` if no
attribute matches. -/
def setFirstMatch (lname value : Bytes) : List Attribute → Option (List Attribute)
  | [] => none
  | a :: rest =>
    if eqCaseInsensitive a.name lname then some (a.setValue value :: rest)
    else (setFirstMatch lname value rest).map (a :: ·)

/-- attributes.rs:225 `Attributes::set_attribute`; `none` = `Err(AttributeNameError)`, list unchanged. -/
def attrsSetAttribute (items : List Attribute) (name value : Bytes) : Option (List Attribute) :=
  match attrNameFromString (asciiLowerBytes name) with
  | none => none
  | some lname =>
    match setFirstMatch lname value items with
    | some items' => some items'
    | none => some (items ++ [{ name := lname, value := value, raw := none }])

/-- attributes.rs:91 `Attribute::lookup_name`: a name used for a LOOKUP (`get_attribute`, `has_attribute`,
`remove_attribute`) is lower-cased and encoded, not validated (UTF-8 document: every string is encodable). -/
def attrLookupName (name : Bytes) : Bytes := asciiLowerBytes name

/-- attributes.rs:258 `Attributes::remove_attribute`: new list and "something was removed". -/
def attrsRemoveAttribute (items : List Attribute) (name : Bytes) : List Attribute × Bool :=
  let items' := items.filter fun a => !eqCaseInsensitive a.name (attrLookupName name)
  (items', items.length != items'.length)

/-- attributes.rs:321 `impl Serialize for &mut Attributes`: a space before every attribute. -/
def attrsIntoBytes (items : List Attribute) : Bytes :=
  items.flatMap fun a => [32] ++ a.intoBytes

/-- attributes.rs:193 `map_attribute` + `get_attribute`: value of the first matching attribute. -/
def attrsGetAttribute (items : List Attribute) (name : Bytes) : Option Bytes :=
  (items.find? fun a => eqCaseInsensitive a.name (attrLookupName name)).map (·.value)

/-! ### Start tag (tokens/start_tag.rs) -/

/-- html/namespace: only "HTML or foreign" matters for the edit logic. -/
inductive Ns
  | html
  | foreign
deriving DecidableEq, Repr, Inhabited

/-- start_tag.rs:16 `StartTag`. `modified = true` ⇔ `raw.original() = None`
(base/spanned.rs `set_modified`). -/
structure StartTag where
  name : Bytes
  attributes : List Attribute
  ns : Ns := .html
  selfClosing : Bool
  raw : Bytes
  modified : Bool := false
  mutations : Mutations := {}
deriving DecidableEq, Repr, Inhabited

/-- Operations of the public `StartTag` API. -/
inductive StartTagOp
  | mut (op : MutOp)                       -- before / after / replace / remove (+ streaming_*)
  | setName (name : Bytes)                 -- start_tag.rs:78 `set_name` (unchecked)
  | setAttribute (name value : Bytes)      -- start_tag.rs:121
  | removeAttribute (name : Bytes)         -- start_tag.rs:131
deriving DecidableEq, Repr, Inhabited

/-- start_tag.rs:66 `set_name_raw`. -/
def StartTag.setNameRaw (t : StartTag) (name : Bytes) : StartTag :=
  { t with name := name, modified := true }

/-- start_tag.rs:121 `set_attribute`: on `Err` nothing changes. -/
def StartTag.setAttribute (t : StartTag) (name value : Bytes) : StartTag :=
  match attrsSetAttribute t.attributes name value with
  | some items => { t with attributes := items, modified := true }
  | none => t

/-- start_tag.rs:131 `remove_attribute`: `set_modified` only if something was removed. -/
def StartTag.removeAttribute (t : StartTag) (name : Bytes) : StartTag :=
  let r := attrsRemoveAttribute t.attributes name
  if r.2 then { t with attributes := r.1, modified := true } else t

/-- start_tag.rs:155 `set_self_closing_syntax` (does *not* mark the tag modified). -/
def StartTag.setSelfClosingSyntax (t : StartTag) (hasSlash : Bool) : StartTag :=
  { t with selfClosing := hasSlash }

def StartTag.apply (t : StartTag) : StartTagOp → StartTag
  | .mut op => { t with mutations := t.mutations.apply op }
  | .setName n => t.setNameRaw n
  | .setAttribute n v => t.setAttribute n v
  | .removeAttribute n => t.removeAttribute n

def StartTag.applyOps (t : StartTag) (ops : List StartTagOp) : StartTag := ops.foldl StartTag.apply t

/-- start_tag.rs:232 `serialize_self`. -/
def StartTag.serializeSelf (t : StartTag) : Bytes :=
  if !t.modified then t.raw
  else
    [60] ++ t.name
      ++ (if !t.attributes.isEmpty then
            attrsIntoBytes t.attributes ++ (if t.selfClosing then [32] else [])
          else [])
      ++ (if t.selfClosing then [47, 62] else [62])

/-- `impl_serialize!(StartTag)`. -/
def StartTag.intoBytes (enc : Enc) (t : StartTag) : Bytes :=
  t.mutations.serialize enc t.serializeSelf

/-! ### End tag (tokens/end_tag.rs) -/

structure EndTag where
  name : Bytes
  raw : Bytes
  modified : Bool := false
  mutations : Mutations := {}
deriving DecidableEq, Repr, Inhabited

inductive EndTagOp
  | mut (op : MutOp)
  | setName (name : Bytes)               -- end_tag.rs:68 `set_name` (unchecked)
deriving DecidableEq, Repr, Inhabited

/-- end_tag.rs:56 `set_name_raw`. -/
def EndTag.setNameRaw (t : EndTag) (name : Bytes) : EndTag := { t with name := name, modified := true }

def EndTag.apply (t : EndTag) : EndTagOp → EndTag
  | .mut op => { t with mutations := t.mutations.apply op }
  | .setName n => t.setNameRaw n

def EndTag.applyOps (t : EndTag) (ops : List EndTagOp) : EndTag := ops.foldl EndTag.apply t

/-- end_tag.rs:168 `serialize_self`. -/
def EndTag.serializeSelf (t : EndTag) : Bytes :=
  if !t.modified then t.raw else [60, 47] ++ t.name ++ [62]

def EndTag.intoBytes (enc : Enc) (t : EndTag) : Bytes := t.mutations.serialize enc t.serializeSelf

/-! ### Comment (tokens/comment.rs) -/

structure Comment where
  text : Bytes
  raw : Bytes
  modified : Bool := false
  mutations : Mutations := {}
deriving DecidableEq, Repr, Inhabited

inductive CommentOp
  | mut (op : MutOp)
  | setText (text : Bytes)
deriving DecidableEq, Repr, Inhabited

/-- `text.starts_with(p)`. -/
def startsWith (p : Bytes) (s : Bytes) : Bool := s.take p.length == p

/-- `text.contains(p)` on bytes. -/
def containsSeq (p : Bytes) : Bytes → Bool
  | [] => p.isEmpty
  | b :: rest => startsWith p (b :: rest) || containsSeq p rest

/-- comment.rs:50 `contains_comment_closing_sequence`. -/
def containsCommentClosingSequence (text : Bytes) : Bool :=
  containsSeq [45, 45, 62] text || containsSeq [45, 45, 33, 62] text
    || startsWith [62] text || startsWith [45, 62] text

/-- comment.rs:85 `set_text` (UTF-8 document); on `Err` nothing changes. -/
def Comment.setText (c : Comment) (text : Bytes) : Comment :=
  if containsCommentClosingSequence text then c
  else { c with text := text, modified := true }

def Comment.apply (c : Comment) : CommentOp → Comment
  | .mut op => { c with mutations := c.mutations.apply op }
  | .setText t => c.setText t

def Comment.applyOps (c : Comment) (ops : List CommentOp) : Comment := ops.foldl Comment.apply c

/-- comment.rs:246 `serialize_self`. -/
def Comment.serializeSelf (c : Comment) : Bytes :=
  if !c.modified then c.raw else [60, 33, 45, 45] ++ c.text ++ [45, 45, 62]

def Comment.intoBytes (enc : Enc) (c : Comment) : Bytes := c.mutations.serialize enc c.serializeSelf

/-! ### Text chunk (tokens/text_chunk.rs) -/

structure TextChunk where
  text : Bytes
  lastInTextNode : Bool
  mutations : Mutations := {}
deriving DecidableEq, Repr, Inhabited

inductive TextOp
  | mut (op : MutOp)
  | setStr (text : Bytes)                -- text_chunk.rs:136 `set_str`
deriving DecidableEq, Repr, Inhabited

def TextChunk.apply (c : TextChunk) : TextOp → TextChunk
  | .mut op => { c with mutations := c.mutations.apply op }
  | .setStr t => { c with text := t }

def TextChunk.applyOps (c : TextChunk) (ops : List TextOp) : TextChunk := ops.foldl TextChunk.apply c

/-- text_chunk.rs:332 `serialize_self`: the text goes through the sink as `ContentType::Html`
(skipped when empty). -/
def TextChunk.serializeSelf (enc : Enc) (c : TextChunk) : Bytes :=
  if !c.text.isEmpty then enc .html c.text else []

def TextChunk.intoBytes (enc : Enc) (c : TextChunk) : Bytes :=
  c.mutations.serialize enc (c.serializeSelf enc)

/-! ### Doctype (tokens/doctype.rs) -/

structure Doctype where
  raw : Bytes
  removed : Bool := false
deriving DecidableEq, Repr, Inhabited

inductive DoctypeOp
  | remove                                -- doctype.rs:99
deriving DecidableEq, Repr, Inhabited

def Doctype.apply (d : Doctype) : DoctypeOp → Doctype
  | .remove => { d with removed := true }

def Doctype.applyOps (d : Doctype) (ops : List DoctypeOp) : Doctype := ops.foldl Doctype.apply d

/-- doctype.rs:119 `impl Serialize for &Doctype`. -/
def Doctype.intoBytes (d : Doctype) : Bytes := if !d.removed then d.raw else []

/-! ### `Token` (tokens/mod.rs:70) -/

inductive Token
  | textChunk (t : TextChunk)
  | startTag (t : StartTag)
  | endTag (t : EndTag)
  | comment (t : Comment)
  | doctype (t : Doctype)
deriving DecidableEq, Repr, Inhabited

/-- An operation on a token of the matching kind. -/
inductive TokenOp
  | textChunk (op : TextOp)
  | startTag (op : StartTagOp)
  | endTag (op : EndTagOp)
  | comment (op : CommentOp)
  | doctype (op : DoctypeOp)
deriving DecidableEq, Repr, Inhabited

/-- An operation of another kind cannot be expressed in the API (the handler gets a typed token);
the model leaves the token alone. -/
def Token.apply : Token → TokenOp → Token
  | .textChunk t, .textChunk op => .textChunk (t.apply op)
  | .startTag t, .startTag op => .startTag (t.apply op)
  | .endTag t, .endTag op => .endTag (t.apply op)
  | .comment t, .comment op => .comment (t.apply op)
  | .doctype t, .doctype op => .doctype (t.apply op)
  | t, _ => t

def Token.applyOps (t : Token) (ops : List TokenOp) : Token := ops.foldl Token.apply t

/-- tokens/mod.rs:78 `impl Serialize for Token`. -/
def Token.intoBytes (enc : Enc) : Token → Bytes
  | .textChunk t => t.intoBytes enc
  | .startTag t => t.intoBytes enc
  | .endTag t => t.intoBytes enc
  | .comment t => t.intoBytes enc
  | .doctype t => t.intoBytes

end LolHtml.EditModel
