/-
Executable codec instances:
  * `singleByte tbl`  — WHATWG single-byte decoder/encoder over an index table (encoding_rs
                        single_byte.rs); tables of windows-1252 and ISO-8859-7 embedded from
                        encoding_rs-0.8.35 `data.rs`
  * `toy2`            — a toy Shift_JIS-like lead/trail code (pending lead byte; ASCII trail is unread)
  * `utf8`            — the WHATWG UTF-8 decoder (encoding_rs utf_8.rs:456-600: one U+FFFD per maximal
                        subpart, offending byte unread)
and the `OutputFull` policies that reproduce what encoding_rs 0.8.35 does for single-byte decoders and
for UTF-8 (used by the lane only; the theorems quantify over all policies).
-/
import LolHtml.Model.TextDecoder

namespace LolHtml.Enc

def replacement : Char := Char.ofNat 0xFFFD

/-! ### single-byte -/

/-- index table (128 entries for bytes 0x80..0xFF, 0 = unmapped) as a lookup -/
def tblLookup (t : List Nat) (b : UInt8) : Option Char :=
  match t[b.toNat - 128]? with
  | some 0 => none
  | some n => some (Char.ofNat n)
  | none => none

def tblFind (t : List Nat) (ch : Char) : Option Bytes :=
  match t.idxOf? ch.toNat with
  | some i => some [UInt8.ofNat (128 + i)]
  | none => none

def singleByte (t : List Nat) : Codec where
  σ := Unit
  init := ()
  decStep := fun _ b =>
    if b < 128 then ⟨(), [Char.ofNat b.toNat], true⟩
    else match tblLookup t b with
      | some ch => ⟨(), [ch], true⟩
      | none => ⟨(), [replacement], true⟩
  decFlush := fun _ => []
  encChar := fun ch =>
    if ch.toNat < 128 then some [UInt8.ofNat ch.toNat]
    else tblFind t ch

def windows1252Table : List Nat :=
  [8364, 129, 8218, 402, 8222, 8230, 8224, 8225, 710, 8240, 352, 8249, 338, 141, 381, 143,
   144, 8216, 8217, 8220, 8221, 8226, 8211, 8212, 732, 8482, 353, 8250, 339, 157, 382, 376,
   160, 161, 162, 163, 164, 165, 166, 167, 168, 169, 170, 171, 172, 173, 174, 175,
   176, 177, 178, 179, 180, 181, 182, 183, 184, 185, 186, 187, 188, 189, 190, 191,
   192, 193, 194, 195, 196, 197, 198, 199, 200, 201, 202, 203, 204, 205, 206, 207,
   208, 209, 210, 211, 212, 213, 214, 215, 216, 217, 218, 219, 220, 221, 222, 223,
   224, 225, 226, 227, 228, 229, 230, 231, 232, 233, 234, 235, 236, 237, 238, 239,
   240, 241, 242, 243, 244, 245, 246, 247, 248, 249, 250, 251, 252, 253, 254, 255]

def iso88597Table : List Nat :=
  [128, 129, 130, 131, 132, 133, 134, 135, 136, 137, 138, 139, 140, 141, 142, 143,
   144, 145, 146, 147, 148, 149, 150, 151, 152, 153, 154, 155, 156, 157, 158, 159,
   160, 8216, 8217, 163, 8364, 8367, 166, 167, 168, 169, 890, 171, 172, 173, 0, 8213,
   176, 177, 178, 179, 900, 901, 902, 183, 904, 905, 906, 187, 908, 189, 910, 911,
   912, 913, 914, 915, 916, 917, 918, 919, 920, 921, 922, 923, 924, 925, 926, 927,
   928, 929, 0, 931, 932, 933, 934, 935, 936, 937, 938, 939, 940, 941, 942, 943,
   944, 945, 946, 947, 948, 949, 950, 951, 952, 953, 954, 955, 956, 957, 958, 959,
   960, 961, 962, 963, 964, 965, 966, 967, 968, 969, 970, 971, 972, 973, 974, 0]

def windows1252 : Encoding := ⟨singleByte windows1252Table, false⟩
def iso88597 : Encoding := ⟨singleByte iso88597Table, false⟩

/-- What encoding_rs's `SingleByteDecoder::decode_to_utf8_raw` does about output space
(single_byte.rs:36-143, handles.rs:1032-1070): an ASCII byte in the ASCII-run copy needs 1 free byte, a
non-ASCII byte needs 3; right after a non-ASCII byte (and after ASCII punctuation `< 60` following it)
*every* byte needs 3 free bytes.  `P = true` is that "inner loop" mode.  A malformed byte returns to
the wrapper (`decode_to_utf8`, lib.rs:3960), which restarts in the outer mode. -/
def polSingleByte (t : List Nat) : Policy (singleByte t) where
  P := Bool
  start := false
  stop := fun inner _ free rest =>
    match rest with
    | [] => false
    | b :: _ => if inner then free < 3 else if b < 128 then free < 1 else free < 3
  next := fun inner _ _ rest r =>
    match rest with
    | [] => inner
    | b :: _ =>
      if b < 128 then (inner && b < 60)
      else r.out != [replacement]

/-! ### toy two-byte code -/

def toyLead (b : UInt8) : Bool := 0x81 ≤ b && b ≤ 0x9F
def toyTrail (b : UInt8) : Bool := (0x40 ≤ b && b ≤ 0x7E) || (0x80 ≤ b && b ≤ 0xFC)
def toyTrailIdx (b : UInt8) : Nat := if b < 0x7F then b.toNat - 0x40 else b.toNat - 0x41
def toyChar (l b : UInt8) : Char := Char.ofNat (0x4E00 + (l.toNat - 0x81) * 188 + toyTrailIdx b)

def toy2 : Codec where
  σ := Option UInt8
  init := none
  decStep := fun s b =>
    match s with
    | none =>
      if b < 128 then ⟨none, [Char.ofNat b.toNat], true⟩
      else if toyLead b then ⟨some b, [], true⟩
      else ⟨none, [replacement], true⟩
    | some l =>
      if toyTrail b then ⟨none, [toyChar l b], true⟩
      else if b < 128 then ⟨none, [replacement], false⟩
      else ⟨none, [replacement], true⟩
  decFlush := fun s => match s with
    | none => []
    | some _ => [replacement]
  encChar := fun ch =>
    let n := ch.toNat
    if n < 128 then some [UInt8.ofNat n]
    else if 0x4E00 ≤ n ∧ n < 0x4E00 + 31 * 188 then
      let k := n - 0x4E00
      let t := k % 188
      some [UInt8.ofNat (0x81 + k / 188), UInt8.ofNat (if t < 63 then 0x40 + t else 0x41 + t)]
    else none

def toy2Enc : Encoding := ⟨toy2, false⟩

/-! ### UTF-8 -/

/-- `Utf8Decoder` (utf_8.rs:448-454): continuation bytes needed / seen, code point so far, allowed
range of the next byte. `needed = 0` is the neutral state. -/
structure U8 where
  needed : Nat
  seen : Nat
  cp : Nat
  lo : UInt8
  hi : UInt8
  deriving DecidableEq, Repr

def U8.init : U8 := ⟨0, 0, 0, 0x80, 0xBF⟩

/-- utf_8.rs:519-592 -/
def u8Step (s : U8) (b : UInt8) : Step U8 :=
  if s.needed = 0 then
    if b < 0x80 then ⟨U8.init, [Char.ofNat b.toNat], true⟩
    else if b < 0xC2 then ⟨U8.init, [replacement], true⟩
    else if b < 0xE0 then ⟨⟨1, 0, b.toNat % 32, 0x80, 0xBF⟩, [], true⟩
    else if b < 0xF0 then ⟨⟨2, 0, b.toNat % 16, Utf8.lo3 b, Utf8.hi3 b⟩, [], true⟩
    else if b < 0xF5 then ⟨⟨3, 0, b.toNat % 8, Utf8.lo4 b, Utf8.hi4 b⟩, [], true⟩
    else ⟨U8.init, [replacement], true⟩
  else if !(s.lo ≤ b && b ≤ s.hi) then ⟨U8.init, [replacement], false⟩
  else
    let cp := s.cp * 64 + b.toNat % 64
    if s.seen + 1 = s.needed then ⟨U8.init, [Char.ofNat cp], true⟩
    else ⟨⟨s.needed, s.seen + 1, cp, 0x80, 0xBF⟩, [], true⟩

def utf8Codec : Codec where
  σ := U8
  init := U8.init
  decStep := u8Step
  decFlush := fun s => if s.needed = 0 then [] else [replacement]
  encChar := fun ch => some (Utf8.encodeChar ch)

def utf8 : Encoding := ⟨utf8Codec, true⟩

/-- width of a complete well-formed sequence at the head of the input, if there is one -/
def headWidth (bs : Bytes) : Option Nat :=
  match bs with
  | [] => none
  | b0 :: r0 =>
    if b0 < 0x80 then some 1
    else if Utf8.inR 0xC2 0xDF b0 then
      match r0 with
      | b1 :: _ => if Utf8.isCont b1 then some 2 else none
      | _ => none
    else if Utf8.inR 0xE0 0xEF b0 then
      match r0 with
      | b1 :: b2 :: _ =>
        if Utf8.inR (Utf8.lo3 b0) (Utf8.hi3 b0) b1 && Utf8.isCont b2 then some 3 else none
      | _ => none
    else if Utf8.inR 0xF0 0xF4 b0 then
      match r0 with
      | b1 :: b2 :: b3 :: _ =>
        if Utf8.inR (Utf8.lo4 b0) (Utf8.hi4 b0) b1 && Utf8.isCont b2 && Utf8.isCont b3 then some 4
        else none
      | _ => none
    else none

/-- What encoding_rs's `Utf8Decoder::decode_to_utf8_raw` does about output space (utf_8.rs:495-600,
macros.rs:10-71, handles.rs:1112-1122): in the neutral state a complete well-formed sequence of width
`n` is block-copied if `n` bytes are free; everything else goes byte by byte, each byte needing 4
free bytes.  `P` = number of bytes of a block-copied sequence still to pass. -/
def polUtf8 : Policy utf8Codec where
  P := Nat
  start := 0
  stop := fun p s free rest =>
    if p > 0 then false
    else match rest with
      | [] => false
      | _ =>
        if s.needed = 0 then
          match headWidth rest with
          | some n => free < n
          | none => free < 4
        else free < 4
  next := fun p s free rest _ =>
    if p > 0 then p - 1
    else if s.needed = 0 then
      match headWidth rest with
      | some n => if n ≤ free then n - 1 else 0
      | none => 0
    else 0

end LolHtml.Enc
