/-
Model of the lol-html C API (`/repo/c-api/src/*.rs`, `/repo/c-api/include/lol_html.h`): the
ownership / return-code / last-error protocol of every entry-point *shape*, over an abstract Rust
API `R` (any state machine).  Properties C17 and C18.

What is transcribed (file.rs:line ↔ definition):
  lib.rs:12 `to_ptr_mut`                           ↔ `alloc`
  lib.rs:17-46 `assert_not_null!/to_ref!/to_box!`  ↔ `deref` / `release` (NULL → abort, freed → use-after-free / double free)
  lib.rs:48-52 `to_str!`  (`str::from_utf8`)       ↔ `utf8Check` / `decodeArgs`
  lib.rs:54-76 `unwrap_or_ret!` (+ `_err_code`, `_null`) ↔ `saveLastError` + the failure value of each shape
  lib.rs:78-98 `catch_panic`                       ↔ `R.new` / `R.step` return `Except Msg` (a panic is an `Err`)
  lib.rs:100-212 `impl_content_mutation_handlers!` ↔ `COp.infallible` / `.streaming` / `.void` / `.boolGet` / `.rawGet`
  lib.rs:214-258 `content_insertion_fn_body!`      ↔ `cUnitOp` cases `.infallible` and `.streaming`
  errors.rs:3-27 `LAST_ERROR`, `take_last_error`, `save_last_error` ↔ `Env.lastErr`, `takeLastError`, `saveLastError`
  string.rs `Str::new/from_opt/Drop`, `lol_html_str_free` ↔ `allocStr`, `strFree`
  rewriter.rs:15 `HtmlRewriter(Option<…>)`, `write/end/free` ↔ `Payload.rewriter`, `cWrite`, `cEnd`, `rewriterFree`
  rewriter_builder.rs                              ↔ `builderNew`, `addDoc`, `addElem`, `builderFree`, `add_handler!` = `runHandler`
  selector.rs                                      ↔ `selectorParse`, `selectorFree`
  streaming.rs `CStreamingHandler` (`write_all`, `Drop`) ↔ `runStreaming`, `releaseHandler`
  element.rs iterator functions                    ↔ `COp.iterGet/iterNext/iterFree/attrStrGet`
Pointer validity itself (that an integer handle stands for a valid address) is not modelled; a
handle is an index into the allocation ledger.
-/
import LolHtml.Basic

namespace LolHtml.Model.CApi

abbrev Msg := Bytes
abbrev Tid := Nat

/-! ## UTF-8 validation (`core::str::from_utf8`, used by `to_str!`, lib.rs:48) -/

/-- `core::str::Utf8Error`. -/
structure Utf8Error where
  validUpTo : Nat
  errorLen : Option Nat
  deriving DecidableEq, Repr

/-- `run_utf8_validation` as a byte-at-a-time automaton (structural recursion, kernel-reducible).
    `i`: offset of the character being decoded (`valid_up_to` on error); `need`: continuation bytes still
    expected; `seen`: bytes of this character already consumed (`error_len` on a bad byte); `[lo, hi]`:
    admissible range of the next byte (the `(first, next)` table of the std implementation). -/
def utf8Go (i need seen : Nat) (lo hi : UInt8) : Bytes → Option Utf8Error
  | [] => if need = 0 then none else some ⟨i, none⟩
  | b :: rest =>
    if need = 0 then
      if b < 0x80 then utf8Go (i + 1) 0 0 0 0 rest
      else if 0xC2 ≤ b && b ≤ 0xDF then utf8Go i 1 1 0x80 0xBF rest
      else if b == 0xE0 then utf8Go i 2 1 0xA0 0xBF rest
      else if (0xE1 ≤ b && b ≤ 0xEC) || b == 0xEE || b == 0xEF then utf8Go i 2 1 0x80 0xBF rest
      else if b == 0xED then utf8Go i 2 1 0x80 0x9F rest
      else if b == 0xF0 then utf8Go i 3 1 0x90 0xBF rest
      else if 0xF1 ≤ b && b ≤ 0xF3 then utf8Go i 3 1 0x80 0xBF rest
      else if b == 0xF4 then utf8Go i 3 1 0x80 0x8F rest
      else some ⟨i, some 1⟩
    else if lo ≤ b && b ≤ hi then
      if need = 1 then utf8Go (i + seen + 1) 0 0 0 0 rest
      else utf8Go i (need - 1) (seen + 1) 0x80 0xBF rest
    else some ⟨i, some seen⟩

def utf8Check (b : Bytes) : Option Utf8Error := utf8Go 0 0 0 0 0 b

/-! ## Error values stored in `LAST_ERROR` -/

/-- What `err.to_string()` was, by origin (rendered to text only by the lane). -/
inductive ErrMsg
  | utf8 (e : Utf8Error)          -- `to_str!` failed (lib.rs:48)
  | rust (m : Msg)                -- an `Err(e)` of the Rust API or a caught panic (lib.rs:91)
  | unknownEncoding               -- lib.rs:280
  | nonAsciiEncoding              -- lib.rs:285
  | stopped                       -- rewriter_builder.rs:45 / element.rs:333
  | noEndTag                      -- element.rs:327
  | uninitialized                 -- errors.rs:25 `CStreamingHandlerError::Uninitialized` (lib.rs:236-247)
  deriving DecidableEq, Repr

/-! ## The abstract Rust API `R` -/

/-- Result of a Rust-level method of a rewritable unit. -/
inductive RRes
  | unit                          -- `()` / `Ok(())`
  | err (m : Msg)                 -- `Err(e)`, `m = e.to_string()`
  | absent                        -- `None` where `Option<&mut _>` is returned (`end_tag_handlers()`)
  | bool (b : Bool)
  | nat (n : Nat)
  | str (s : Bytes)               -- `String`
  | optStr (s : Option Bytes)     -- `Option<String>`
  | raw (v : Bytes)               -- plain value handed through (borrowed text, location, ns uri, user data)
  deriving DecidableEq, Repr

/-- A Rust-level operation on the unit passed to a handler; string arguments are valid UTF-8. -/
inductive ROp
  | get (f : Nat) (args : List Bytes)                     -- `&self` accessor
  | call (f : Nat) (args : List Bytes) (isHtml : Bool)    -- `&mut self` method, `()` or `Result<(), E>`
  | callBytes (f : Nat) (b : Bytes) (isHtml : Bool)       -- `write_utf8_chunk(&[u8], _)`
  | streaming (f : Nat) (sid : Nat)                       -- `streaming_*(Box<dyn StreamingHandler>)`
  | addEndTagHandler (hid : Nat)                          -- `end_tag_handlers().map(|h| h.push(..))`
  | clearEndTagHandlers
  | attrCount                                             -- `attributes().len()`
  | attrGet (i : Nat) (f : Nat)                           -- `attributes()[i].name()` …
  deriving DecidableEq, Repr

/-- Who `R` calls back. -/
inductive HRef
  | reg (hid : Nat)         -- a handler registered through the builder
  | endTag (hid : Nat)      -- a handler pushed by `add_end_tag_handler`
  | streaming (sid : Nat)   -- `write_all` of a boxed streaming handler (ownership moves to the callee)
  deriving DecidableEq, Repr

/-- Side events of `R` between two call-backs. -/
inductive REv
  | emit (b : Bytes)          -- `OutputSink::handle_chunk`
  | dropHandler (sid : Nat)   -- a boxed streaming handler is dropped without having been run
  deriving DecidableEq, Repr

inductive RIn (χ υ : Type)
  | write (chunk : χ)
  | end_
  | ret (u : υ) (r : Except Msg Unit)   -- the handler returned, leaving the unit in state `u`

inductive RNext (υ : Type)
  | invoke (h : HRef) (u : υ)
  | done (r : Except Msg Unit)

structure ElemReg (σ : Type) where
  sel : σ
  element : Option Nat
  comments : Option Nat
  text : Option Nat

structure DocReg where
  doctype : Option Nat
  comments : Option Nat
  text : Option Nat
  docEnd : Option Nat
  deriving DecidableEq, Repr

structure MemSettings where
  prealloc : Nat
  max : Nat
  graceful : Bool
  deriving DecidableEq, Repr

/-- `lol_html::Settings` as assembled by `lol_html_rewriter_build_inner` (rewriter.rs:40-82). -/
structure RConfig (σ ε : Type) where
  elem : List (ElemReg σ)
  doc : List DocReg
  encoding : ε
  mem : MemSettings
  strict : Bool
  esi : Bool

/-- The Rust API as an arbitrary (deterministic) state machine. -/
structure RApi where
  Sel : Type
  Enc : Type
  Rw : Type
  U : Type
  Chunk : Type
  /-- `str::parse::<Selector>` -/
  parseSelector : Bytes → Except Msg Sel
  /-- `encoding_rs::Encoding::for_label_no_replacement` -/
  forLabel : Bytes → Option Enc
  /-- `AsciiCompatibleEncoding::try_from` -/
  asciiCompatible : Enc → Bool
  /-- `HtmlRewriter::new` under `catch_panic` -/
  new : RConfig Sel Enc → Except Msg Rw
  /-- one leg of `write` / `end` up to the next call-back or the end of the call -/
  step : Rw → RIn Chunk U → Rw × List REv × RNext U
  /-- `Drop for HtmlRewriter`: boxed handlers still owned -/
  drop : Rw → List REv
  /-- a method of the unit; may drop boxed handlers it replaces (`MutationsInner::replace`) -/
  unitOp : U → ROp → U × RRes × List Nat

/-! ## C side: ledger, environment, results -/

inductive St | live | taken | freed
  deriving DecidableEq, Repr

inductive Kind | builder | selector | rewriter | str | attrIter | shandler
  deriving DecidableEq, Repr

inductive Payload (R : RApi)
  | builder (elem : List (ElemReg Nat)) (doc : List DocReg)   -- `&'static Selector` = selector handle
  | selector (s : R.Sel)
  | rewriter (inner : Option R.Rw) (poisoned : Bool)          -- `HtmlRewriter(Option<_>)`; a `write` failed
  | str
  | attrIter (pos len scope epoch : Nat)                      -- `slice::Iter` over the attribute vector
  | shandler (script : Nat) (hasDrop : Bool)                  -- boxed `CStreamingHandler`

def Payload.kind {R : RApi} : Payload R → Kind
  | .builder .. => .builder
  | .selector .. => .selector
  | .rewriter .. => .rewriter
  | .str => .str
  | .attrIter .. => .attrIter
  | .shandler .. => .shandler

/-- One entry of the allocation ledger. `taken`: rewriter whose inner value was taken by `end`;
    streaming handler whose box was moved into `write_all`. -/
structure Obj (R : RApi) where
  st : St
  p : Payload R

/-- Why the *implementation* would misbehave. -/
inductive Fault
  | useAfterFree | doubleFree | typeConfusion
  | abort          -- documented abort: NULL argument, `write`/`end` after `end`
  | rContract      -- `R` used a boxed handler it no longer owns (impossible for safe Rust)
  | rType          -- `R` answered with a value of the wrong type (impossible for typed Rust)
  | fuel
  deriving DecidableEq, Repr

inductive Res (α : Type)
  | ok (a : α)
  | notPermitted (why : String)   -- the caller broke a precondition of lol_html.h
  | fault (f : Fault)

def Res.fault? {α : Type} : Res α → Option Fault
  | .fault f => some f
  | _ => none

def Res.isNotPermitted {α : Type} : Res α → Bool
  | .notPermitted _ => true
  | _ => false

instance : Monad Res where
  pure := .ok
  bind x f := match x with
    | .ok a => f a
    | .notPermitted w => .notPermitted w
    | .fault e => .fault e

/-- What the C caller sees of one call. -/
inductive CRes
  | code (n : Int)           -- `c_int`
  | ptr (null : Bool)        -- pointer result
  | strv (v : Option Bytes)  -- `Str` result: `none` = `data == NULL`; `some b` = non-NULL `data`, `len = b.length`
                             -- (`Str::new("")` is non-NULL with `len = 0`, string.rs:19: present-but-empty ≠ absent)
  | bool (b : Bool)
  | raw                      -- value handed through
  | void
  | taken (m : Option ErrMsg) -- `lol_html_take_last_error`: the message (`none` = `data == NULL`)
  deriving DecidableEq, Repr

/-- Which rule set decides whether a call is permitted. `header` = lol_html.h as written;
    `headerPlus` adds "no attribute mutation while an attribute iterator of the element is in use". -/
inductive Policy | header | headerPlus
  deriving DecidableEq, Repr

structure Env (R : RApi) where
  objs : List (Obj R)
  vars : Nat → Option Nat          -- C variables holding handles (`none` = NULL)
  lastErr : Tid → Option ErrMsg    -- `thread_local! LAST_ERROR`
  drops : List Nat                 -- `drop_callback` invocations (handle of the handler), newest first
  calls : Nat → Nat                -- invocations of each handler script so far
  scope : Nat                      -- identifies the dynamic extent of the current call-back
  epoch : Nat                      -- bumped whenever the attribute vector of the current element is mutated
  sink : List Bytes                -- output sink call log, newest first
  log : List CRes                  -- results seen by the C caller, newest first

def Env.init (R : RApi) : Env R :=
  { objs := [], vars := fun _ => none, lastErr := fun _ => none, drops := [], calls := fun _ => 0,
    scope := 0, epoch := 0, sink := [], log := [] }

variable {R : RApi}

def Env.out (e : Env R) (r : CRes) : Env R := { e with log := r :: e.log }

def Env.setVar (e : Env R) (v : Nat) (h : Option Nat) : Env R :=
  { e with vars := fun x => if x = v then h else e.vars x }

/-- errors.rs:19 `save_last_error` -/
def saveLastError (e : Env R) (t : Tid) (m : ErrMsg) : Env R :=
  { e with lastErr := fun x => if x = t then some m else e.lastErr x }

/-- lib.rs:12 `to_ptr_mut` / `Box::new` / `Box::into_raw`: a fresh handle. -/
def alloc (e : Env R) (p : Payload R) : Env R × Nat :=
  ({ e with objs := e.objs ++ [⟨.live, p⟩] }, e.objs.length)

def Env.setObj (e : Env R) (h : Nat) (o : Obj R) : Env R := { e with objs := e.objs.set h o }

/-- `to_ref!` on a handle variable of the expected kind: NULL → abort, freed → use after free. -/
def deref (e : Env R) (v : Nat) (k : Kind) : Res (Nat × Obj R) :=
  match e.vars v with
  | none => .fault .abort
  | some h =>
    match e.objs[h]? with
    | none => .fault .typeConfusion
    | some o =>
      if o.p.kind ≠ k then .fault .typeConfusion
      else if o.st = .freed then .fault .useAfterFree
      else .ok (h, o)

/-- `to_box!` + `drop`: NULL → abort, already freed → double free. -/
def release (e : Env R) (v : Nat) (k : Kind) : Res (Env R × Nat × Obj R) :=
  match e.vars v with
  | none => .fault .abort
  | some h =>
    match e.objs[h]? with
    | none => .fault .typeConfusion
    | some o =>
      if o.p.kind ≠ k then .fault .typeConfusion
      else if o.st = .freed then .fault .doubleFree
      else .ok (e.setObj h { o with st := .freed }, h, o)

/-- Header precondition shared by every pointer argument: the variable holds a handle of the right
    kind that has not been freed. -/
def validArg (e : Env R) (v : Nat) (k : Kind) : Bool :=
  match e.vars v with
  | none => false
  | some h =>
    match e.objs[h]? with
    | none => false
    | some o => o.p.kind == k && o.st != .freed

def require (b : Bool) (why : String) : Res Unit := if b then .ok () else .notPermitted why

/-- string.rs:19 `Str::new(v)`: non-NULL `data` whatever the length (also for `v = ""`), must be freed -/
def allocStr (e : Env R) (dst : Nat) (v : Bytes) : Env R :=
  let (e, h) := alloc e .str
  (e.setVar dst (some h)).out (.strv (some v))

/-- string.rs:33 `Str::from_opt(None)` / `Str::EMPTY` -/
def nullStr (e : Env R) (dst : Nat) : Env R := (e.setVar dst none).out (.strv none)

/-- string.rs:53 `lol_html_str_free`; "valid to call even if `str.data == NULL`". -/
def strFree (_pol : Policy) (e : Env R) (v : Nat) : Res (Env R) :=
  match e.vars v with
  | none => .ok (e.out .void)
  | some _ => do
    require (validArg e v .str) "str_free: not a live Str"
    let (e, _, _) ← release e v .str
    pure (e.out .void)

/-- errors.rs:8 `lol_html_take_last_error` -/
def takeLastError (e : Env R) (t : Tid) (dst : Nat) : Env R :=
  match e.lastErr t with
  | none => (e.setVar dst none).out (.taken none)
  | some m =>
    let (e, h) := alloc { e with lastErr := fun x => if x = t then none else e.lastErr x } .str
    (e.setVar dst (some h)).out (.taken (some m))

/-! ## Streaming handlers (streaming.rs) -/

/-- `Drop for CStreamingHandler` (streaming.rs:109): the box goes away, `drop_callback` runs if set.
    A handler that is already gone means `R` dropped/ran a box twice. -/
def releaseHandler (e : Env R) (sid : Nat) : Res (Env R) :=
  match e.objs[sid]? with
  | some ⟨st, .shandler script hasDrop⟩ =>
    if st = .freed then .fault .rContract
    else
      let e := e.setObj sid ⟨.freed, .shandler script hasDrop⟩
      .ok (if hasDrop then { e with drops := sid :: e.drops } else e)
  | _ => .fault .rContract

def applyEvents (e : Env R) : List REv → Res (Env R)
  | [] => .ok e
  | .emit b :: rest => applyEvents { e with sink := b :: e.sink } rest
  | .dropHandler sid :: rest => do
    let e ← releaseHandler e sid
    applyEvents e rest

def dropAll (e : Env R) : List Nat → Res (Env R)
  | [] => .ok e
  | sid :: rest => do
    let e ← releaseHandler e sid
    dropAll e rest

/-! ## Entry points taking a rewritable unit (called from inside a handler) -/

/-- `*mut lol_html_streaming_handler_t` argument. -/
inductive SArg
  | null
  | mk (reservedNull hasWriteAll hasDrop : Bool) (script : Nat)
  deriving DecidableEq, Repr

/-- C-level operations available inside a call-back, grouped by the macro / code shape that
    implements them. `f` names the Rust method. Byte-string arguments are raw (`*const c_char`, len). -/
inductive COp
  | strGet (dst f : Nat)                                  -- `Str::new(u.f())`                      element.rs:6
  | optStrGet (dst f : Nat) (args : List Bytes)           -- `Str::from_opt(u.f(..))`               element.rs:135, doctype.rs:4
  | intGet (f : Nat) (args : List Bytes)                  -- `if u.f(..) {1} else {0}`              element.rs:151
  | fallible (f : Nat) (args : List Bytes)                -- `unwrap_or_ret_err_code!(u.f(..))`     element.rs:29, comment.rs:9
  | infallible (f : Nat) (args : List Bytes) (isHtml : Bool)  -- `u.f(..); 0`                      lib.rs:215, element.rs:195
  | void (f : Nat)                                        -- lib.rs:184
  | boolGet (f : Nat)                                     -- lib.rs:198
  | rawGet (f : Nat)                                      -- lib.rs:122, text_chunk.rs:27, element.rs:47
  | bytesFallible (f : Nat) (b : Bytes) (isHtml : Bool)   -- streaming.rs:46 `write_utf8_chunk`
  | addEndTagHandler (hid : Nat)                          -- element.rs:319
  | clearEndTagHandlers                                   -- element.rs:344
  | streaming (f : Nat) (h : SArg)                        -- lib.rs:232
  | iterGet (dst : Nat)                                   -- element.rs:63
  | iterNext (it : Nat)                                   -- element.rs:78
  | iterFree (it : Nat)                                   -- element.rs:91
  | attrStrGet (dst it f : Nat)                           -- element.rs:97-121 on the attribute last returned by `it`
  | strFree (v : Nat)
  | takeLastError (dst : Nat)
  deriving DecidableEq, Repr

/-- `set_attribute` / `remove_attribute`: the Rust methods that touch the attribute `Vec`
    (attributes.rs:224 `items.push`, :252 `items.retain`). -/
def FN_SET_ATTRIBUTE : Nat := 6
def FN_REMOVE_ATTRIBUTE : Nat := 7
def mutatesAttrs (f : Nat) : Bool := f == FN_SET_ATTRIBUTE || f == FN_REMOVE_ATTRIBUTE

/-- `to_str!` on each argument in source order; the first failure wins (lib.rs:48, element.rs:170-171). -/
def decodeArgs : List Bytes → Except Utf8Error (List Bytes)
  | [] => .ok []
  | a :: rest =>
    match utf8Check a with
    | some err => .error err
    | none =>
      match decodeArgs rest with
      | .ok r => .ok (a :: r)
      | .error err => .error err

/-- State threaded through a call-back: the unit (owned by `R`) and the C environment. -/
structure HState (R : RApi) where
  u : R.U
  env : Env R

/-- Is some iterator created in the current call-back still usable (not freed)? -/
def liveIterInScope (e : Env R) : Bool :=
  e.objs.any fun o => match o with
    | ⟨st, .attrIter _ _ scope _⟩ => st != .freed && scope == e.scope
    | _ => false

/-- Extra rule of `Policy.headerPlus`. -/
def mutationAllowed (pol : Policy) (e : Env R) (f : Nat) : Bool :=
  match pol with
  | .header => true
  | .headerPlus => !(mutatesAttrs f && liveIterInScope e)

/-- `Policy.headerPlus` forbids `&mut self` attribute methods while an iterator is live. -/
def opAllowed (pol : Policy) (e : Env R) : ROp → Bool
  | .call f _ _ => mutationAllowed pol e f
  | _ => true

/-- Does this call touch the attribute vector? (An `Err` means the name was rejected before.) -/
def bumps : ROp → RRes → Bool
  | .call _ _ _, .err _ => false
  | .call f _ _, _ => mutatesAttrs f
  | _, _ => false

/-- Apply a Rust method; drop the boxed handlers it displaced; bump the attribute epoch when the
    attribute vector was touched. -/
def callR (pol : Policy) (s : HState R) (op : ROp) : Res (HState R × RRes) :=
  if opAllowed pol s.env op then
    match dropAll s.env (R.unitOp s.u op).2.2 with
    | .ok env =>
      let r := (R.unitOp s.u op).2.1
      .ok ({ u := (R.unitOp s.u op).1,
             env := if bumps op r then { env with epoch := env.epoch + 1 } else env }, r)
    | .notPermitted w => .notPermitted w
    | .fault f => .fault f
  else .notPermitted "attribute mutation while an attribute iterator is live"

/-- One C entry point on the current unit, executed by thread `t`. -/
def cUnitOp (pol : Policy) (t : Tid) (s : HState R) : COp → Res (HState R)
  | .strGet dst f => do
    let (s, r) ← callR pol s (.get f [])
    match r with
    | .str v => pure { s with env := allocStr s.env dst v }
    | _ => .fault .rType
  | .optStrGet dst f args =>
    match decodeArgs args with
    | .error err => pure { s with env := nullStr (saveLastError s.env t (.utf8 err)) dst }
    | .ok args => do
      let (s, r) ← callR pol s (.get f args)
      match r with
      -- string.rs:33 `Str::from_opt`: `Some(v)` ↦ `Str::new(v)` (non-NULL even if empty), `None` ↦ NULL
      | .optStr (some v) => pure { s with env := allocStr s.env dst v }
      | .optStr none => pure { s with env := nullStr s.env dst }
      | _ => .fault .rType
  | .intGet f args =>
    match decodeArgs args with
    | .error err => pure { s with env := (saveLastError s.env t (.utf8 err)).out (.code (-1)) }
    | .ok args => do
      let (s, r) ← callR pol s (.get f args)
      match r with
      | .bool b => pure { s with env := s.env.out (.code (if b then 1 else 0)) }
      | _ => .fault .rType
  | .fallible f args =>
    match decodeArgs args with
    | .error err => pure { s with env := (saveLastError s.env t (.utf8 err)).out (.code (-1)) }
    | .ok args => do
      let (s, r) ← callR pol s (.call f args false)
      match r with
      | .unit => pure { s with env := s.env.out (.code 0) }
      | .err m => pure { s with env := (saveLastError s.env t (.rust m)).out (.code (-1)) }
      | _ => .fault .rType
  | .infallible f args isHtml =>
    match decodeArgs args with
    | .error err => pure { s with env := (saveLastError s.env t (.utf8 err)).out (.code (-1)) }
    | .ok args => do
      let (s, _) ← callR pol s (.call f args isHtml)
      pure { s with env := s.env.out (.code 0) }
  | .void f => do
    let (s, _) ← callR pol s (.call f [] false)
    pure { s with env := s.env.out .void }
  | .boolGet f => do
    let (s, r) ← callR pol s (.get f [])
    match r with
    | .bool b => pure { s with env := s.env.out (.bool b) }
    | _ => .fault .rType
  | .rawGet f => do
    let (s, _) ← callR pol s (.get f [])
    pure { s with env := s.env.out .raw }
  | .bytesFallible f b isHtml => do
    let (s, r) ← callR pol s (.callBytes f b isHtml)
    match r with
    | .unit => pure { s with env := s.env.out (.code 0) }
    | .err m => pure { s with env := (saveLastError s.env t (.rust m)).out (.code (-1)) }
    | _ => .fault .rType
  | .addEndTagHandler hid => do
    let (s, r) ← callR pol s (.addEndTagHandler hid)
    match r with
    | .unit => pure { s with env := s.env.out (.code 0) }
    | .absent => pure { s with env := (saveLastError s.env t .noEndTag).out (.code (-1)) }
    | _ => .fault .rType
  | .clearEndTagHandlers => do
    let (s, _) ← callR pol s .clearEndTagHandlers
    pure { s with env := s.env.out .void }
  | .streaming f h =>
    match h with
    | .null =>
      -- lib.rs:236-241 NULL handler: `save_last_error(Uninitialized)`, `return -1`
      pure { s with env := (saveLastError s.env t .uninitialized).out (.code (-1)) }
    | .mk reservedNull hasWriteAll hasDrop script =>
      if !reservedNull then
        -- lib.rs:236 "*Always* initialize to NULL": same path, before the struct is copied; the
        -- caller keeps ownership, `drop_callback` is not called
        pure { s with env := (saveLastError s.env t .uninitialized).out (.code (-1)) }
      else
        -- lib.rs:244 the struct is copied into a box: the library owns it from here on
        let (env, sid) := alloc s.env (.shandler script hasDrop)
        if !hasWriteAll then do
          -- lib.rs:245-249 `save_last_error(Uninitialized)`, `return -1`: the box is dropped on the way out
          let env ← releaseHandler (saveLastError env t .uninitialized) sid
          pure { s with env := env.out (.code (-1)) }
        else do
          let (s, _) ← callR pol { s with env := env } (.streaming f sid)
          pure { s with env := s.env.out (.code 0) }
  | .iterGet dst => do
    let (s, r) ← callR pol s .attrCount
    match r with
    | .nat n =>
      let (env, h) := alloc s.env (.attrIter 0 n s.env.scope s.env.epoch)
      pure { s with env := (env.setVar dst (some h)).out (.ptr false) }
    | _ => .fault .rType
  | .iterNext it => do
    require (validArg s.env it .attrIter) "iterator_next: not a live iterator"
    let (h, o) ← deref s.env it .attrIter
    match o.p with
    | .attrIter pos len scope epoch =>
      do
        require (scope == s.env.scope) "iterator used outside the handler that created it"
        -- the `slice::Iter` points into the attribute vector as it was at creation
        if epoch ≠ s.env.epoch then .fault .useAfterFree
        else if pos < len then
          pure { s with env := (s.env.setObj h ⟨o.st, .attrIter (pos + 1) len scope epoch⟩).out (.ptr false) }
        else pure { s with env := s.env.out (.ptr true) }
    | _ => .fault .typeConfusion
  | .iterFree it => do
    require (validArg s.env it .attrIter) "iterator_free: not a live iterator"
    let (env, _, _) ← release s.env it .attrIter
    pure { s with env := env.out .void }
  | .attrStrGet dst it f => do
    require (validArg s.env it .attrIter) "attribute: iterator not live"
    let (_, o) ← deref s.env it .attrIter
    match o.p with
    | .attrIter pos len scope epoch =>
      do
        require (scope == s.env.scope) "attribute used outside the handler that produced it"
        require (0 < pos && pos ≤ len) "attribute pointer is NULL"
        if epoch ≠ s.env.epoch then .fault .useAfterFree
        else
          let (s, r) ← callR pol s (.attrGet (pos - 1) f)
          match r with
          | .str v => pure { s with env := allocStr s.env dst v }
          | _ => .fault .rType
    | _ => .fault .typeConfusion
  | .strFree v => do
    let env ← strFree pol s.env v
    pure { s with env := env }
  | .takeLastError dst => pure { s with env := takeLastError s.env t dst }

def cUnitOps (pol : Policy) (t : Tid) (s : HState R) : List COp → Res (HState R)
  | [] => .ok s
  | op :: rest => do
    let s ← cUnitOp pol t s op
    cUnitOps pol t s rest

/-! ## Handlers (`add_handler!`, rewriter_builder.rs:26; `write_all`, streaming.rs:90) -/

/-- A C call-back: the entry points it calls on its argument, when it answers `LOL_HTML_STOP`
    (which invocation, counted from 0), and — for a `write_all_callback` — its return value. -/
structure HDef where
  ops : List COp
  stopAt : Option Nat
  ret : Int

abbrev Prog := Nat → HDef

/-- Enter a call-back: new dynamic extent. -/
def enter (e : Env R) (hid : Nat) : Env R × Nat :=
  ({ e with scope := e.scope + 1, calls := fun x => if x = hid then e.calls hid + 1 else e.calls x },
   e.calls hid)

/-- rewriter_builder.rs:40-47 / element.rs:330-335: run the C function, map the directive. -/
def runHandler (pol : Policy) (prog : Prog) (t : Tid) (hid : Nat) (u : R.U) (e : Env R) :
    Res (HState R × Bool) :=
  let (e, k) := enter e hid
  do
    let s ← cUnitOps pol t ⟨u, e⟩ (prog hid).ops
    let stop := (prog hid).stopAt == some k
    pure (s, stop)

/-- streaming.rs:90-106 `write_all(self: Box<Self>, sink)`: the box is consumed, `drop_callback` runs
    when `write_all` returns, whatever the result. Returns the callback's return value. -/
def runStreaming (pol : Policy) (prog : Prog) (t : Tid) (sid : Nat) (u : R.U) (e : Env R) :
    Res (HState R × Int) :=
  match e.objs[sid]? with
  | some ⟨.live, .shandler script hasDrop⟩ =>
    let e := e.setObj sid ⟨.taken, .shandler script hasDrop⟩
    let (e, _) := enter e script
    do
      let s ← cUnitOps pol t ⟨u, e⟩ (prog script).ops
      let env ← releaseHandler s.env sid
      pure ({ s with env := env }, (prog script).ret)
  | _ => .fault .rContract

/-- Error values produced by the wrappers themselves. -/
def stoppedMsg : Msg := [0x73]        -- stands for "The rewriter has been stopped."
def cbErrMsg (code : Int) : Msg := [0x63, UInt8.ofNat code.natAbs]   -- stands for "write_all_callback reported error: {code}"

/-- Drive one `write`/`end` of `R`, serving its call-backs, until it finishes (`fuel` bounds the
    number of call-backs). Returns the new rewriter state and the call's result. -/
def drive (pol : Policy) (prog : Prog) (t : Tid) :
    Nat → R.Rw → RIn R.Chunk R.U → Env R → Res (R.Rw × Env R × Except ErrMsg Unit)
  | 0, _, _, _ => .fault .fuel
  | fuel + 1, rw, inp, e =>
    let (rw, evs, next) := R.step rw inp
    do
      let e ← applyEvents e evs
      match next with
      | .done (.ok ()) => pure (rw, e, .ok ())
      | .done (.error m) => pure (rw, e, .error (.rust m))
      | .invoke (.reg hid) u | .invoke (.endTag hid) u => do
        let (s, stop) ← runHandler pol prog t hid u e
        drive pol prog t fuel rw (.ret s.u (if stop then .error stoppedMsg else .ok ())) s.env
      | .invoke (.streaming sid) u => do
        let (s, code) ← runStreaming pol prog t sid u e
        drive pol prog t fuel rw (.ret s.u (if code = 0 then .ok () else .error (cbErrMsg code))) s.env

/-! ## Top-level entry points -/

inductive TopOp (χ : Type)
  | builderNew (dst : Nat)                                           -- rewriter_builder.rs:122
  | selectorParse (dst : Nat) (s : Bytes)                            -- selector.rs:4
  | addDoc (b : Nat) (r : DocReg)                                    -- rewriter_builder.rs:127
  | addElem (b sel : Nat) (element comments text : Option Nat)       -- rewriter_builder.rs:152
  | build (dst b : Nat) (enc : Bytes) (mem : MemSettings) (strict esi : Bool)  -- rewriter.rs:85 / :100
  | write (r : Nat) (chunk : χ)                                      -- rewriter.rs:115
  | end_ (r : Nat)                                                   -- rewriter.rs:132
  | rewriterFree (r : Nat)                                           -- rewriter.rs:144
  | builderFree (b : Nat)                                            -- rewriter_builder.rs:176
  | selectorFree (s : Nat)                                           -- selector.rs:15
  | strFree (v : Nat)                                                -- string.rs:53
  | takeLastError (dst : Nat)                                        -- errors.rs:8

structure Call (χ : Type) where
  tid : Tid
  op : TopOp χ

/-- Selector handles a builder refers to. -/
def builderSelectors : List (ElemReg Nat) → List Nat := List.map (·.sel)

/-- Header, `lol_html_selector_parse`: "Selector SHOULD NOT be deallocated if there are any active
    rewriter builders that accepted it". -/
def selectorInUse (e : Env R) (h : Nat) : Bool :=
  e.objs.any fun o => match o with
    | ⟨st, .builder elem _⟩ => st != .freed && (builderSelectors elem).contains h
    | _ => false

/-- `get_safe_handlers` (rewriter_builder.rs:106): dereference every `&'static Selector` of the builder. -/
def resolveSelectors (e : Env R) : List (ElemReg Nat) → Res (List (ElemReg R.Sel))
  | [] => .ok []
  | r :: rest =>
    match e.objs[r.sel]? with
    | some ⟨st, .selector s⟩ =>
      if st = .freed then .fault .useAfterFree
      else do
        let rest ← resolveSelectors e rest
        pure (⟨s, r.element, r.comments, r.text⟩ :: rest)
    | _ => .fault .typeConfusion

def fuelDefault : Nat := 100000

/-- One top-level call by thread `c.tid`. -/
def topStep (pol : Policy) (prog : Prog) (e : Env R) (c : Call R.Chunk) : Res (Env R) :=
  let t := c.tid
  match c.op with
  | .builderNew dst =>
    let (e, h) := alloc e (.builder [] [])
    pure ((e.setVar dst (some h)).out (.ptr false))
  | .selectorParse dst s =>
    match utf8Check s with
    | some err => pure (((saveLastError e t (.utf8 err)).setVar dst none).out (.ptr true))
    | none =>
      match R.parseSelector s with
      | .error m => pure (((saveLastError e t (.rust m)).setVar dst none).out (.ptr true))
      | .ok sel =>
        let (e, h) := alloc e (.selector sel)
        pure ((e.setVar dst (some h)).out (.ptr false))
  | .addDoc b r => do
    require (validArg e b .builder) "add_document_content_handlers: builder not live"
    let (h, o) ← deref e b .builder
    match o.p with
    | .builder elem doc => pure ((e.setObj h ⟨o.st, .builder elem (doc ++ [r])⟩).out .void)
    | _ => .fault .typeConfusion
  | .addElem b sel el cm tx => do
    require (validArg e b .builder) "add_element_content_handlers: builder not live"
    require (validArg e sel .selector) "add_element_content_handlers: selector not live"
    let (hs, _) ← deref e sel .selector
    let (h, o) ← deref e b .builder
    match o.p with
    | .builder elem doc => pure ((e.setObj h ⟨o.st, .builder (elem ++ [⟨hs, el, cm, tx⟩]) doc⟩).out (.code 0))
    | _ => .fault .typeConfusion
  | .build dst b enc mem strict esi => do
    require (validArg e b .builder) "rewriter_build: builder not live"
    let (_, o) ← deref e b .builder
    match o.p with
    | .builder elem doc => do
      -- rewriter.rs:51 get_safe_handlers: reads every registered selector
      let elemR ← resolveSelectors e elem
      match R.forLabel enc with
      | none => pure (((saveLastError e t .unknownEncoding).setVar dst none).out (.ptr true))
      | some encoding =>
        if !R.asciiCompatible encoding then
          pure (((saveLastError e t .nonAsciiEncoding).setVar dst none).out (.ptr true))
        else
          match R.new ⟨elemR, doc, encoding, mem, strict, esi⟩ with
          | .error m => pure (((saveLastError e t (.rust m)).setVar dst none).out (.ptr true))
          | .ok rw =>
            let (e, h) := alloc e (.rewriter (some rw) false)
            pure ((e.setVar dst (some h)).out (.ptr false))
    | _ => .fault .typeConfusion
  | .write r chunk => do
    require (validArg e r .rewriter) "rewriter_write: rewriter not live"
    let (h, o) ← deref e r .rewriter
    match o.p with
    | .rewriter none _ => do
      -- "after calling [end], further attempts to use the rewriter … will cause a thread panic"
      require false "rewriter_write after end"
      .fault .abort
    | .rewriter (some rw) poisoned => do
      -- "if this function errors the rewriter gets into the unrecoverable state, so any further
      --  attempts to use the rewriter will cause a thread panic"
      require (!poisoned) "rewriter used after a failed write"
      let (rw, e, res) ← drive pol prog t fuelDefault rw (.write chunk) e
      match res with
      | .ok () => pure ((e.setObj h ⟨o.st, .rewriter (some rw) false⟩).out (.code 0))
      | .error m => pure ((saveLastError (e.setObj h ⟨o.st, .rewriter (some rw) true⟩) t m).out (.code (-1)))
    | _ => .fault .typeConfusion
  | .end_ r => do
    require (validArg e r .rewriter) "rewriter_end: rewriter not live"
    let (h, o) ← deref e r .rewriter
    match o.p with
    | .rewriter none _ => do
      require false "rewriter_end after end"
      .fault .abort
    | .rewriter (some rw) poisoned => do
      require (!poisoned) "rewriter used after a failed write"
      -- rewriter.rs:135 `.0.take()`: the inner value leaves the box before `end` runs
      let e := e.setObj h ⟨.taken, .rewriter none poisoned⟩
      let (rw, e, res) ← drive pol prog t fuelDefault rw .end_ e
      -- `end(self)` consumes the rewriter: whatever it still owns is dropped
      let e ← applyEvents e (R.drop rw)
      match res with
      | .ok () => pure (e.out (.code 0))
      | .error m => pure ((saveLastError e t m).out (.code (-1)))
    | _ => .fault .typeConfusion
  | .rewriterFree r => do
    require (validArg e r .rewriter) "rewriter_free: rewriter not live"
    let (e, _, o) ← release e r .rewriter
    match o.p with
    | .rewriter (some rw) _ => do
      let e ← applyEvents e (R.drop rw)
      pure (e.out .void)
    | _ => pure (e.out .void)
  | .builderFree b => do
    require (validArg e b .builder) "builder_free: builder not live"
    let (e, _, _) ← release e b .builder
    pure (e.out .void)
  | .selectorFree s => do
    require (validArg e s .selector) "selector_free: selector not live"
    let (h, _) ← deref e s .selector
    require (!selectorInUse e h) "selector_free: a live builder still refers to the selector"
    let (e, _, _) ← release e s .selector
    pure (e.out .void)
  | .strFree v => strFree pol e v
  | .takeLastError dst => pure (takeLastError e t dst)

def run (pol : Policy) (prog : Prog) (e : Env R) : List (Call R.Chunk) → Res (Env R)
  | [] => .ok e
  | c :: rest => do
    let e ← topStep pol prog e c
    run pol prog e rest

/-- Handles that are still allocated. -/
def leaks (e : Env R) : List Nat :=
  (List.range e.objs.length).filter fun h => match e.objs[h]? with
    | some o => o.st != .freed
    | none => false

end LolHtml.Model.CApi
