import LolHtml.Basic
/-!
`LocalNameHash` (src/html/local_name.rs:8-52): a 64-bit base-32 packing of tag names made of ASCII
letters and the digits 1-6. Modelled on `Nat` with explicit reduction modulo 2^64.
-/
namespace LolHtml.Model

/-- `EMPTY_HASH = !0u64` -/
def emptyHash : Nat := 2 ^ 64 - 1

/-- `LocalNameHash::new()` / `default()` -/
def NameHash.new : Nat := 0

def NameHash.isEmpty (h : Nat) : Bool := h == emptyHash

/-- `LocalNameHash::update` (local_name.rs:30-52). `h` is always `< 2^64`. -/
def NameHash.update (h : Nat) (ch : UInt8) : Nat :=
  if h / 2 ^ 59 == 0 then
    if isAsciiAlpha ch then (h * 32) ||| ((ch.toNat &&& 0x1F) + 5)
    else if 49 ≤ ch && ch ≤ 54 then (h * 32) ||| ((ch.toNat &&& 0x0F) - 1)
    else emptyHash
  else emptyHash

/-- `LocalNameHash::from(&str)` -/
def NameHash.ofBytes (bs : Bytes) : Nat := bs.foldl NameHash.update NameHash.new

end LolHtml.Model
