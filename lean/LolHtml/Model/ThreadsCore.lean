/-
`Model.Threads.Sys` instantiated with the REAL sequential model of the Rust API:
`Model.Rewriter` (`HtmlRewriter::new/write/end`, Model/Stream.lean) over any transform controller `γ`
(for `γ = Full.FullSt cfg` with `Full.fullWorld` this is the whole rewriter: tokenizer, selector VM, handler
dispatcher, handler scripts and their event log).

The instance state is the rewriter object together with the immutable configuration it was built from
(`Stream.World γ`: tokenizer table, tag lists, controller = what `Settings` registers).  The model functions
take no global store at all: `step` ignores its `g` argument.  That is the content of `C18_function`
("there is no other argument it could depend on") — and precisely the fact the thread model needs.
-/
import LolHtml.Model.Threads
import LolHtml.Model.Stream

namespace LolHtml.Model.Threads
open LolHtml.Model

/-- One rewriter: the object and what it was configured with. -/
structure CoreInst (γ : Type) where
  world : Model.World γ
  rw : Rewriter γ

/-- What a call lets the caller observe. -/
structure CoreObs (γ : Type) where
  /-- result of the call (`none`: there is no such rewriter — not expressible in safe Rust) -/
  res : Option CallRes
  /-- everything the output sink has received so far -/
  sink : List SinkEv
  /-- controller state after the call: handler invocations and what they saw are logged there -/
  ctl : Option γ

def CoreObs.absent {γ : Type} : CoreObs γ := ⟨none, [], none⟩

def coreObs {γ : Type} (r : Rewriter γ) (res : CallRes) : CoreObs γ :=
  ⟨some res, r.sink, some r.stream.disp.ctl⟩

/-- The core crate as a `Sys`. `V`, `g0`: whatever the global items hold (never read). `selOk`: `str::parse::<Selector>`
    (a pure function of the text; its grammar is not modelled). -/
@[reducible] def coreSys (γ V : Type) (g0 : Nat → V) (selOk : Bytes → Bool) : Sys where
  V := V
  St := CoreInst γ
  Call := IOp (Model.World γ × γ × Settings) Bytes
  isCreate := IOp.isCreate
  Obs := CoreObs γ
  g0 := g0
  step := fun _ st o =>
    match st, o with
    | _, .create c =>
      let r : Rewriter γ := { stream := Stream.new c.1 c.2.1 c.2.2 }
      (some ⟨c.1, r⟩, coreObs r .ok, none)
    | some x, .write b =>
      let y := x.rw.write x.world b
      (some ⟨x.world, y.1⟩, coreObs y.1 y.2, none)
    | some x, .end_ =>
      let y := x.rw.end x.world
      (some ⟨x.world, y.1⟩, coreObs y.1 y.2, none)
    | some x, .free => (none, coreObs x.rw .ok, none)
    | none, _ => (none, .absent, none)
  parseSel := fun _ s => (⟨some (if selOk s then .ok else .err (.internal "selector")), [], none⟩, none)

/-- The calls of one whole rewrite. -/
def rewriteOps {γ : Type} (w : Model.World γ) (g : γ) (cfg : Settings) (chunks : List Bytes) :
    List (IOp (Model.World γ × γ × Settings) Bytes) :=
  .create (w, g, cfg) :: (chunks.map .write ++ [.end_])

end LolHtml.Model.Threads
