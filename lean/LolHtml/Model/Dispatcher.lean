import LolHtml.Model.SM
/-!
The dispatcher (`src/transform_stream/dispatcher.rs`): tiles every input chunk into "emitted raw",
"emitted as token" and "not yet emitted"; derives the parser directive from capture flags; turns
lexemes into tokens (`src/rewritable_units/tokens/capturer/to_token.rs`).

The transform controller is a parameter: a record of functions over an arbitrary state type `γ`.
The output sink is a ghost log of the calls it received.
-/
namespace LolHtml.Model

/-- `TokenCaptureFlags` (src/rewritable_units/tokens/capturer/mod.rs:7) -/
structure Flags where
  text : Bool := false
  comments : Bool := false
  nextStartTag : Bool := false
  nextEndTag : Bool := false
  doctypes : Bool := false
  deriving DecidableEq, Repr, Inhabited

def Flags.isEmpty (f : Flags) : Bool :=
  !f.text && !f.comments && !f.nextStartTag && !f.nextEndTag && !f.doctypes

def Flags.ofNat (n : Nat) : Flags :=
  ⟨n % 2 == 1, n / 2 % 2 == 1, n / 4 % 2 == 1, n / 8 % 2 == 1, n / 16 % 2 == 1⟩

/-- Calls received by the `OutputSink`. -/
inductive SinkEv
  | enc (e : Nat)
  | chunk (b : Bytes)
  deriving DecidableEq, Repr, Inhabited

/-- A materialised token as handed to `TransformController::handle_token`: what `to_token` slices out
of the lexeme, plus its raw bytes and absolute source range. -/
inductive Token
  | startTag (name : Bytes) (attrs : List (Bytes × Bytes × AttrOutline)) (ns : Ns) (selfClosing : Bool)
      (raw : Bytes) (src : Range) (base : Nat)   -- base = document offset of the input slice
  | endTag (name : Bytes) (raw : Bytes) (src : Range)
  | comment (text : Bytes) (raw : Bytes) (src : Range)
  | doctype (name publicId systemId : Option Bytes) (forceQuirks : Bool) (raw : Bytes) (src : Range)
  | text (bytes : Bytes) (tt : TextType) (lastInNode : Bool) (src : Range)
  deriving DecidableEq, Repr, Inhabited

def Token.raw : Token → Bytes
  | .startTag _ _ _ _ r _ _ => r
  | .endTag _ r _ => r
  | .comment _ r _ => r
  | .doctype _ _ _ _ r _ => r
  | .text b _ _ _ => b

def Token.src : Token → Range
  | .startTag _ _ _ _ _ s _ => s
  | .endTag _ _ s => s
  | .comment _ _ s => s
  | .doctype _ _ _ _ _ s => s
  | .text _ _ _ s => s

/-- `AuxStartTagInfo` -/
structure AuxInfo where
  input : Bytes
  attrs : List AttrOutline
  selfClosing : Bool
  deriving Repr, Inhabited

inductive StartTagRes
  | flags (f : Flags)
  | infoRequest            -- `DispatcherError::InfoRequest`; the continuation lives in the controller
  | err (e : Err)
  deriving Repr, Inhabited

/-- What `handle_token` + `Token::into_bytes` amount to: the chunks the (possibly mutated) token is
serialised into, an optional request to switch the document encoding (meta charset), and an optional
failure: of the handler itself (then nothing was serialised) or of a streaming content handler in
the middle of the serialisation (then `chunks` is what had been written before it failed). -/
structure TokenOut where
  chunks : List Bytes
  nextEncoding : Option Nat := none
  err : Option Err := none
  deriving Repr, Inhabited

/-- `TransformController` (dispatcher.rs:33) as a record of functions. -/
structure Controller (γ : Type) where
  initialFlags : γ → Flags
  startTag : γ → LocalName → Ns → γ × StartTagRes
  auxInfo : γ → AuxInfo → γ × Except Err Flags
  endTag : γ → LocalName → γ × Flags
  /-- `handle_token` followed by serialisation. -/
  token : γ → Token → γ × TokenOut
  shouldEmit : γ → Bool
  /-- `handle_end`: content appended at document end (written straight to the sink) and whether an
  end handler failed after that. -/
  handleEnd : γ → γ × List Bytes × Option Err
  bailOut : γ → Err → γ × List Bytes

/-- `Dispatcher` + `DispatcherDelegate` (dispatcher.rs:60-76) -/
structure Disp (γ : Type) where
  ctl : γ
  sink : List SinkEv := []          -- ghost log, newest last
  rcs : Nat := 0                    -- remaining_content_start
  flags : Flags
  emissionEnabled : Bool := true
  lastTextType : TextType := .data
  gotFlagsFromHint : Bool := false
  pendingAux : Bool := false        -- pending_element_aux_info_req.is_some()
  textPending : Bool := false       -- text_decoder.pending_text_streaming_decoder.is_some()
  textPendingStart : Nat := 0       -- pending_source_location_bytes_start
  encoding : Nat := 0
  nextEncoding : Option Nat := none
  deriving Repr, Inhabited

variable {γ : Type}

def Disp.new (ctl : Controller γ) (g : γ) (encoding : Nat) : Disp γ :=
  { ctl := g, sink := [.enc encoding], flags := ctl.initialFlags g, encoding := encoding }

def Disp.push (d : Disp γ) (b : Bytes) : Disp γ := { d with sink := d.sink ++ [.chunk b] }

/-- `get_next_parser_directive` -/
def Disp.nextDirective (d : Disp γ) : Directive := if d.flags.isEmpty then .scan else .lex

/-- `flush_remaining_input` (dispatcher.rs:84); `get(..).unwrap_or_default()` is modelled as a
failure when out of range. -/
def Disp.flushRemaining (d : Disp γ) (input : Bytes) (consumed : Nat) : Except Err (Disp γ) :=
  if d.emissionEnabled then
    match checkedSlice input ⟨d.rcs, consumed⟩ with
    | none => .error (.panic "flush_remaining_input: range out of bounds")
    | some out => .ok { (if out.isEmpty then d else d.push out) with rcs := 0 }
  else .ok { d with rcs := 0 }

/-- `flush_for_bail_out` (dispatcher.rs:360) -/
def Disp.flushForBailOut (d : Disp γ) (input : Bytes) : Except Err (Disp γ) :=
  match checkedSlice input ⟨d.rcs, input.length⟩ with
  | none => .error (.panic "flush_for_bail_out: range out of bounds")
  | some out => .ok { (if out.isEmpty then d else d.push out) with rcs := 0 }

/-- `emit_chunk_before_lexeme` (dispatcher.rs:110) -/
def Disp.emitChunkBefore (d : Disp γ) (input : Bytes) (raw : Range) : Except Err (Disp γ) :=
  match checkedSlice input ⟨d.rcs, raw.start⟩ with
  | none => .error (.panic "emit_chunk_before_lexeme: range out of bounds")
  | some chunk =>
    .ok { (if d.emissionEnabled && !chunk.isEmpty then d.push chunk else d) with rcs := raw.start }

/-- Sequencing of dispatcher steps that may fail: the dispatcher state is kept on failure (the Rust
mutates in place and returns `Err`). -/
abbrev DRes (γ : Type) (α : Type) := Disp γ × Except Err α

def DRes.bind {α β : Type} (r : DRes γ α) (f : Disp γ → α → DRes γ β) : DRes γ β :=
  match r.2 with
  | .error e => (r.1, .error e)
  | .ok a => f r.1 a

def DRes.ofExcept (d : Disp γ) (r : Except Err (Disp γ)) : DRes γ Unit :=
  match r with
  | .error e => (d, .error e)
  | .ok d' => (d', .ok ())

/-- note a requested document-encoding change (`SharedEncoding` is a `OnceLock`: first one wins) -/
def Disp.noteNextEncoding (d : Disp γ) : Option Nat → Disp γ
  | some e => if d.nextEncoding.isNone then { d with nextEncoding := some e } else d
  | none => d

/-- serialised token bytes reach the sink only while emission is enabled, and never as a
zero-length chunk (dispatcher.rs:137: empty pieces are skipped) -/
def Disp.pushChunks (d : Disp γ) (cs : List Bytes) : Disp γ :=
  if d.emissionEnabled then { d with sink := d.sink ++ (cs.filter (fun c => !c.isEmpty)).map .chunk } else d

/-- `token_produced` / `text_token_produced` (dispatcher.rs:132-167) -/
def Disp.tokenProduced (ctl : Controller γ) (d : Disp γ) (t : Token) : DRes γ Unit :=
  let out := (ctl.token d.ctl t).2
  let d' := (({ d with ctl := (ctl.token d.ctl t).1 }).noteNextEncoding out.nextEncoding).pushChunks out.chunks
  match out.err with
  | some e => (d', .error e)
  | none => (d', .ok ())

/-- `flush_encoding_change` (dispatcher.rs:207) -/
def Disp.flushEncodingChange (d : Disp γ) : Disp γ :=
  match d.nextEncoding with
  | some e => if e != d.encoding then { d with encoding := e, sink := d.sink ++ [.enc e] } else d
  | none => d

/-- `flush_pending_captured_text` → `TextDecoder::flush_pending` (text_decoder.rs:40): a final, empty,
`last_in_text_node` chunk if a text node is open. (Decoding itself is the `enc` package's model.) -/
def Disp.flushPendingText (ctl : Controller γ) (d : Disp γ) : DRes γ Unit :=
  if d.textPending then
    Disp.tokenProduced ctl { d with textPending := false }
      (.text [] d.lastTextType true ⟨d.textPendingStart, d.textPendingStart⟩)
  else (d, .ok ())

def attrsOf (input : Bytes) (as : List AttrOutline) : Option (List (Bytes × Bytes × AttrOutline)) :=
  as.mapM fun (a : AttrOutline) =>
    match checkedSlice input a.name, checkedSlice input a.value with
    | some n, some v => some (n, v, a)
    | _, _ => none

def srcOf (prevConsumed : Nat) (raw : Range) : Range := ⟨prevConsumed + raw.start, prevConsumed + raw.end⟩

/-- `to_token` for tag lexemes (to_token.rs:23): `none` = a slice was out of range (debug assertion);
`some (flags', none)` = no token wanted. -/
def tagToToken (flags : Flags) (input : Bytes) (lx : TagLexeme) : Option (Flags × Option Token) :=
  match lx.outline with
  | .startTag name _ ns as sc =>
    if flags.nextStartTag then
      match checkedSlice input name, attrsOf input as, checkedSlice input lx.raw with
      | some n, some attrs, some raw =>
        some ({ flags with nextStartTag := false },
              some (.startTag n attrs ns sc raw (srcOf lx.prevConsumed lx.raw) lx.prevConsumed))
      | _, _, _ => none
    else some (flags, none)
  | .endTag name _ =>
    if flags.nextEndTag then
      match checkedSlice input name, checkedSlice input lx.raw with
      | some n, some raw =>
        some ({ flags with nextEndTag := false }, some (.endTag n raw (srcOf lx.prevConsumed lx.raw)))
      | _, _ => none
    else some (flags, none)

/-- the common tail of `try_produce_token_from_lexeme` for non-text tokens: emit what precedes the
lexeme, hand the token over, consume the lexeme, apply a pending encoding change. -/
def Disp.emitToken (ctl : Controller γ) (d : Disp γ) (input : Bytes) (raw : Range) (tok : Token) : DRes γ Unit :=
  (DRes.ofExcept d (d.emitChunkBefore input raw)).bind fun d _ =>
  (Disp.tokenProduced ctl d tok).bind fun d _ =>
  ({ d with rcs := raw.end }.flushEncodingChange, .ok ())

/-- `try_produce_token_from_lexeme` for tag lexemes. -/
def Disp.produceTag (ctl : Controller γ) (d : Disp γ) (input : Bytes) (lx : TagLexeme) : DRes γ Unit :=
  match tagToToken d.flags input lx with
  | none => (d, .error (.panic "Bytes::slice out of range in to_token"))
  | some ft =>
    let d := { d with flags := ft.1 }
    match ft.2 with
    | none => (d, .ok ())
    | some tok => d.emitToken ctl input lx.raw tok

/-- `to_token` for non-tag lexemes other than text (to_token.rs:63) -/
def nonTagToToken (flags : Flags) (input : Bytes) (lx : NonTagLexeme) : Option (Option Token) :=
  let src := srcOf lx.prevConsumed lx.raw
  match lx.outline with
  | some (.comment text) =>
    if flags.comments then
      match checkedSlice input text, checkedSlice input lx.raw with
      | some t, some raw => some (some (.comment t raw src))
      | _, _ => none
    else some none
  | some (.doctype dt) =>
    if flags.doctypes then
      -- `opt_part` uses `get`, i.e. yields `None` when out of range
      let opt (r : Option Range) : Option Bytes := r.bind (checkedSlice input)
      match checkedSlice input lx.raw with
      | some raw => some (some (.doctype (opt dt.name) (opt dt.publicId) (opt dt.systemId) dt.forceQuirks raw src))
      | none => none
    else some none
  | _ => some none

/-- text lexeme under the TEXT flag: `feed_text(lexeme, last = false)` — one chunk for the lexeme;
the text node stays open. -/
def Disp.produceText (ctl : Controller γ) (d : Disp γ) (input : Bytes) (lx : NonTagLexeme) (tt : TextType) :
    DRes γ Unit :=
  match checkedSlice input lx.raw with
  | none => (d, .error (.panic "Bytes::slice out of range (text raw)"))
  | some raw =>
    (DRes.ofExcept d (d.emitChunkBefore input lx.raw)).bind fun d _ =>
    (Disp.tokenProduced ctl { d with lastTextType := tt } (.text raw tt false (srcOf lx.prevConsumed lx.raw))).bind fun d _ =>
    ({ d with textPending := true, textPendingStart := lx.prevConsumed + lx.raw.end, rcs := lx.raw.end }, .ok ())

/-- `try_produce_token_from_lexeme` for non-tag lexemes. -/
def Disp.produceNonTag (ctl : Controller γ) (d : Disp γ) (input : Bytes) (lx : NonTagLexeme) : DRes γ Unit :=
  match lx.outline with
  | some (.text tt) => if d.flags.text then d.produceText ctl input lx tt else (d, .ok ())
  | _ =>
    match nonTagToToken d.flags input lx with
    | none => (d, .error (.panic "Bytes::slice out of range in to_token"))
    | some none => (d, .ok ())
    | some (some tok) => d.emitToken ctl input lx.raw tok

/-- the aux-info request answered from the lexeme's attribute buffer -/
def Disp.answerAux (ctl : Controller γ) (d : Disp γ) (info : AuxInfo) : DRes γ Unit :=
  let r := ctl.auxInfo d.ctl info
  match r.2 with
  | .ok f => ({ d with ctl := r.1, flags := f }, .ok ())
  | .error e => ({ d with ctl := r.1 }, .error e)

/-- `adjust_capture_flags_for_tag_lexeme` (dispatcher.rs:261) -/
def Disp.adjustFlagsForTag (ctl : Controller γ) (d : Disp γ) (input : Bytes) (lx : TagLexeme) : DRes γ Unit :=
  if d.pendingAux then
    let d := { d with pendingAux := false }
    match lx.outline with
    | .startTag _ _ _ as sc => d.answerAux ctl ⟨input, as, sc⟩
    | .endTag .. => (d, .error (.internal "Tag should be a start tag at this point"))
  else
    match lx.outline with
    | .startTag name h ns as sc =>
      match LocalName.new input name h with
      | none => (d, .error (.panic "Bytes::slice out of range (tag name)"))
      | some ln =>
        let r := ctl.startTag d.ctl ln ns
        let d := { d with ctl := r.1 }
        match r.2 with
        | .flags f => ({ d with flags := f }, .ok ())
        | .infoRequest => d.answerAux ctl ⟨input, as, sc⟩
        | .err e => (d, .error e)
    | .endTag name h =>
      match LocalName.new input name h with
      | none => (d, .error (.panic "Bytes::slice out of range (tag name)"))
      | some ln =>
        let r := ctl.endTag d.ctl ln
        ({ d with ctl := r.1, flags := r.2 }, .ok ())

/-- `should_stop_removing_element_content` -/
def Disp.shouldStopRemoving (ctl : Controller γ) (d : Disp γ) : Bool :=
  !d.emissionEnabled && ctl.shouldEmit d.ctl

/-- the end-tag special case of `handle_tag` (dispatcher.rs:398): emission resumes at this end tag -/
def Disp.resumeEmission (ctl : Controller γ) (d : Disp γ) (lx : TagLexeme) : Disp γ :=
  if !lx.outline.isStart && d.shouldStopRemoving ctl
  then { d with emissionEnabled := true, rcs := lx.raw.start } else d

/-- `LexemeSink::handle_tag` (dispatcher.rs:389) -/
def Disp.handleTag (ctl : Controller γ) (input : Bytes) (lx : TagLexeme) (d : Disp γ) : DRes γ Directive :=
  (d.flushPendingText ctl).bind fun d _ =>
  DRes.bind (if d.gotFlagsFromHint then (({ d with gotFlagsFromHint := false }, .ok ()) : DRes γ Unit)
   else d.adjustFlagsForTag ctl input lx) fun d _ =>
  ((d.resumeEmission ctl lx).produceTag ctl input lx).bind fun d _ =>
  let d := { d with emissionEnabled := ctl.shouldEmit d.ctl }
  (d, .ok d.nextDirective)

def NonTagLexeme.isText (lx : NonTagLexeme) : Bool :=
  match lx.outline with | some (.text _) => true | _ => false

/-- `LexemeSink::handle_non_tag_content` (dispatcher.rs:412) -/
def Disp.handleNonTag (ctl : Controller γ) (input : Bytes) (lx : NonTagLexeme) (d : Disp γ) : DRes γ Unit :=
  DRes.bind (if lx.isText then ((d, .ok ()) : DRes γ Unit) else d.flushPendingText ctl) fun d _ =>
  d.produceNonTag ctl input lx

/-- `apply_capture_flags_from_hint_and_get_next_parser_directive` -/
def Disp.applyHintFlags (d : Disp γ) (f : Flags) : DRes γ Directive :=
  let d := { d with flags := f }
  ({ d with gotFlagsFromHint := d.nextDirective == .lex }, .ok d.nextDirective)

/-- `TagHintSink::handle_start_tag_hint` (dispatcher.rs:426) -/
def Disp.startTagHint (ctl : Controller γ) (name : LocalName) (ns : Ns) (d : Disp γ) : DRes γ Directive :=
  let r := ctl.startTag d.ctl name ns
  let d := { d with ctl := r.1 }
  match r.2 with
  | .flags f => d.applyHintFlags f
  | .infoRequest => ({ d with gotFlagsFromHint := false, pendingAux := true }, .ok .lex)
  | .err e => (d, .error e)

/-- `TagHintSink::handle_end_tag_hint` (dispatcher.rs:449) -/
def Disp.endTagHint (ctl : Controller γ) (name : LocalName) (d : Disp γ) : DRes γ Directive :=
  (d.flushPendingText ctl).bind fun d _ =>
  let r := ctl.endTag d.ctl name
  let d := { d with ctl := r.1 }
  let f := if d.shouldStopRemoving ctl then { r.2 with nextEndTag := true } else r.2
  d.applyHintFlags f

/-- The dispatcher as the parser's sink. -/
def dispOps (ctl : Controller γ) : SinkOps (Disp γ) :=
  { handleTag := Disp.handleTag ctl
    handleNonTag := Disp.handleNonTag ctl
    startTagHint := Disp.startTagHint ctl
    endTagHint := Disp.endTagHint ctl }

/-- `run_bail_out_handlers` (dispatcher.rs:372) -/
def Disp.runBailOut (ctl : Controller γ) (d : Disp γ) (e : Err) : Disp γ :=
  let r := ctl.bailOut d.ctl e
  { d with ctl := r.1, sink := d.sink ++ r.2.map .chunk }

/-- `finish` (dispatcher.rs:98): flush, `handle_end`, then the zero-length chunk. -/
def Disp.finish (ctl : Controller γ) (d : Disp γ) (input : Bytes) : DRes γ Unit :=
  (DRes.ofExcept d (d.flushRemaining input input.length)).bind fun d _ =>
  let r := ctl.handleEnd d.ctl
  let d := { d with ctl := r.1, sink := d.sink ++ r.2.1.map .chunk }
  match r.2.2 with
  | some e => (d, .error e)
  | none => ({ d with sink := d.sink ++ [.chunk []] }, .ok ())

end LolHtml.Model
