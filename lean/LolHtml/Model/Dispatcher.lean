import LolHtml.Model.SM
/-!
The dispatcher (`src/transform_stream/dispatcher.rs`): tiles every input chunk into "emitted raw",
"emitted as token" and "not yet emitted"; derives the parser directive from capture flags; turns
lexemes into tokens (`src/rewritable_units/tokens/capturer/to_token.rs`).

The transform controller is a parameter: a record of functions over an arbitrary state type `γ`.
The output sink is a ghost log of the calls it received.
-/
namespace LolHtml.Model

/-- `TokenCaptureFlags` (src/rewritable_units/tokens/capturer/mod.rs:7) -/
structure Flags where
  text : Bool := false
  comments : Bool := false
  nextStartTag : Bool := false
  nextEndTag : Bool := false
  doctypes : Bool := false
  deriving DecidableEq, Repr, Inhabited

def Flags.isEmpty (f : Flags) : Bool :=
  !f.text && !f.comments && !f.nextStartTag && !f.nextEndTag && !f.doctypes

def Flags.ofNat (n : Nat) : Flags :=
  ⟨n % 2 == 1, n / 2 % 2 == 1, n / 4 % 2 == 1, n / 8 % 2 == 1, n / 16 % 2 == 1⟩

/-- Calls received by the `OutputSink`. -/
inductive SinkEv
  | enc (e : Nat)
  | chunk (b : Bytes)
  deriving DecidableEq, Repr, Inhabited

/-- A materialised token as handed to `TransformController::handle_token`: what `to_token` slices out
of the lexeme, plus its raw bytes and absolute source range. -/
inductive Token
  | startTag (name : Bytes) (attrs : List (Bytes × Bytes × AttrOutline)) (ns : Ns) (selfClosing : Bool)
      (raw : Bytes) (src : Range) (base : Nat)   -- base = document offset of the input slice
  | endTag (name : Bytes) (raw : Bytes) (src : Range)
  | comment (text : Bytes) (raw : Bytes) (src : Range)
  | doctype (name publicId systemId : Option Bytes) (forceQuirks : Bool) (raw : Bytes) (src : Range)
  | text (bytes : Bytes) (tt : TextType) (lastInNode : Bool) (src : Range)
  deriving DecidableEq, Repr, Inhabited

def Token.raw : Token → Bytes
  | .startTag _ _ _ _ r _ _ => r
  | .endTag _ r _ => r
  | .comment _ r _ => r
  | .doctype _ _ _ _ r _ => r
  | .text b _ _ _ => b

def Token.src : Token → Range
  | .startTag _ _ _ _ _ s _ => s
  | .endTag _ _ s => s
  | .comment _ _ s => s
  | .doctype _ _ _ _ _ s => s
  | .text _ _ _ s => s

/-- `AuxStartTagInfo` -/
structure AuxInfo where
  input : Bytes
  attrs : List AttrOutline
  selfClosing : Bool
  deriving Repr, Inhabited

inductive StartTagRes
  | flags (f : Flags)
  | infoRequest            -- `DispatcherError::InfoRequest`; the continuation lives in the controller
  | err (e : Err)
  deriving Repr, Inhabited

/-- What `handle_token` + `Token::into_bytes` amount to: the chunks the (possibly mutated) token is
serialised into, and an optional request to switch the document encoding (meta charset). -/
structure TokenOut where
  chunks : List Bytes
  nextEncoding : Option Nat := none
  deriving Repr, Inhabited

/-- `TransformController` (dispatcher.rs:33) as a record of functions. -/
structure Controller (γ : Type) where
  initialFlags : γ → Flags
  startTag : γ → LocalName → Ns → γ × StartTagRes
  auxInfo : γ → AuxInfo → γ × Except Err Flags
  endTag : γ → LocalName → γ × Flags
  /-- `handle_token` followed by serialisation. `.error` = the handler (or a streaming content
  handler during serialisation) failed. -/
  token : γ → Token → γ × Except Err TokenOut
  shouldEmit : γ → Bool
  handleEnd : γ → γ × Except Err (List Bytes)
  bailOut : γ → Err → γ × List Bytes

/-- `Dispatcher` + `DispatcherDelegate` (dispatcher.rs:60-76) -/
structure Disp (γ : Type) where
  ctl : γ
  sink : List SinkEv := []          -- ghost log, newest last
  rcs : Nat := 0                    -- remaining_content_start
  flags : Flags
  emissionEnabled : Bool := true
  lastTextType : TextType := .data
  gotFlagsFromHint : Bool := false
  pendingAux : Bool := false        -- pending_element_aux_info_req.is_some()
  textPending : Bool := false       -- text_decoder.pending_text_streaming_decoder.is_some()
  textPendingStart : Nat := 0       -- pending_source_location_bytes_start
  encoding : Nat := 0
  nextEncoding : Option Nat := none
  deriving Repr, Inhabited

variable {γ : Type}

def Disp.new (ctl : Controller γ) (g : γ) (encoding : Nat) : Disp γ :=
  { ctl := g, sink := [.enc encoding], flags := ctl.initialFlags g, encoding := encoding }

def Disp.push (d : Disp γ) (b : Bytes) : Disp γ := { d with sink := d.sink ++ [.chunk b] }

/-- `get_next_parser_directive` -/
def Disp.nextDirective (d : Disp γ) : Directive := if d.flags.isEmpty then .scan else .lex

/-- `flush_remaining_input` (dispatcher.rs:84); `get(..).unwrap_or_default()` is modelled as a
failure when out of range. -/
def Disp.flushRemaining (d : Disp γ) (input : Bytes) (consumed : Nat) : Except Err (Disp γ) :=
  if d.emissionEnabled then
    match checkedSlice input ⟨d.rcs, consumed⟩ with
    | none => .error (.panic "flush_remaining_input: range out of bounds")
    | some out => .ok { (if out.isEmpty then d else d.push out) with rcs := 0 }
  else .ok { d with rcs := 0 }

/-- `flush_for_bail_out` (dispatcher.rs:360) -/
def Disp.flushForBailOut (d : Disp γ) (input : Bytes) : Except Err (Disp γ) :=
  match checkedSlice input ⟨d.rcs, input.length⟩ with
  | none => .error (.panic "flush_for_bail_out: range out of bounds")
  | some out => .ok { (if out.isEmpty then d else d.push out) with rcs := 0 }

/-- `emit_chunk_before_lexeme` (dispatcher.rs:110) -/
def Disp.emitChunkBefore (d : Disp γ) (input : Bytes) (raw : Range) : Except Err (Disp γ) :=
  match checkedSlice input ⟨d.rcs, raw.start⟩ with
  | none => .error (.panic "emit_chunk_before_lexeme: range out of bounds")
  | some chunk =>
    .ok { (if d.emissionEnabled && !chunk.isEmpty then d.push chunk else d) with rcs := raw.start }

/-- `token_produced` / `text_token_produced` (dispatcher.rs:132-167) -/
def Disp.tokenProduced (ctl : Controller γ) (d : Disp γ) (t : Token) : Disp γ × Except Err Unit :=
  let (g, res) := ctl.token d.ctl t
  let d := { d with ctl := g }
  match res with
  | .error e => (d, .error e)
  | .ok out =>
    let d := match out.nextEncoding with
      | some e => if d.nextEncoding.isNone then { d with nextEncoding := some e } else d
      | none => d
    if d.emissionEnabled then ({ d with sink := d.sink ++ out.chunks.map .chunk }, .ok ())
    else (d, .ok ())

/-- `flush_encoding_change` (dispatcher.rs:207) -/
def Disp.flushEncodingChange (d : Disp γ) : Disp γ :=
  match d.nextEncoding with
  | some e => if e != d.encoding then { d with encoding := e, sink := d.sink ++ [.enc e] } else d
  | none => d

/-- `flush_pending_captured_text` → `TextDecoder::flush_pending` (text_decoder.rs:40): a final, empty,
`last_in_text_node` chunk if a text node is open. (Decoding itself is the `enc` package's model.) -/
def Disp.flushPendingText (ctl : Controller γ) (d : Disp γ) : Disp γ × Except Err Unit :=
  if d.textPending then
    let d := { d with textPending := false }
    Disp.tokenProduced ctl d (.text [] d.lastTextType true ⟨d.textPendingStart, d.textPendingStart⟩)
  else (d, .ok ())

def attrsOf (input : Bytes) (as : List AttrOutline) : Option (List (Bytes × Bytes × AttrOutline)) :=
  as.mapM fun a =>
    match checkedSlice input a.name, checkedSlice input a.value with
    | some n, some v => some (n, v, a)
    | _, _ => none

/-- `try_produce_token_from_lexeme` for tag lexemes, with `to_token` (to_token.rs:23) inlined. -/
def Disp.produceTag (ctl : Controller γ) (d : Disp γ) (input : Bytes) (lx : TagLexeme) :
    Disp γ × Except Err Unit :=
  let mk : Option (Disp γ × Option Token) :=
    match lx.outline with
    | .startTag name _ ns as sc =>
      if d.flags.nextStartTag then
        match checkedSlice input name, attrsOf input as, checkedSlice input lx.raw with
        | some n, some attrs, some raw =>
          some ({ d with flags := { d.flags with nextStartTag := false } },
                some (.startTag n attrs ns sc raw ⟨lx.prevConsumed + lx.raw.start, lx.prevConsumed + lx.raw.end⟩ lx.prevConsumed))
        | _, _, _ => none
      else some (d, none)
    | .endTag name _ =>
      if d.flags.nextEndTag then
        match checkedSlice input name, checkedSlice input lx.raw with
        | some n, some raw =>
          some ({ d with flags := { d.flags with nextEndTag := false } },
                some (.endTag n raw ⟨lx.prevConsumed + lx.raw.start, lx.prevConsumed + lx.raw.end⟩))
        | _, _ => none
      else some (d, none)
  match mk with
  | none => (d, .error (.panic "Bytes::slice out of range in to_token"))
  | some (d, none) => (d, .ok ())
  | some (d, some tok) =>
    match d.emitChunkBefore input lx.raw with
    | .error e => (d, .error e)
    | .ok d =>
      let (d, r) := Disp.tokenProduced ctl d tok
      match r with
      | .error e => (d, .error e)
      | .ok () => ({ d with rcs := lx.raw.end }.flushEncodingChange, .ok ())

/-- `try_produce_token_from_lexeme` for non-tag lexemes (to_token.rs:63). -/
def Disp.produceNonTag (ctl : Controller γ) (d : Disp γ) (input : Bytes) (lx : NonTagLexeme) :
    Disp γ × Except Err Unit :=
  let src : Range := ⟨lx.prevConsumed + lx.raw.start, lx.prevConsumed + lx.raw.end⟩
  match lx.outline with
  | some (.text tt) =>
    if d.flags.text then
      match checkedSlice input lx.raw with
      | none => (d, .error (.panic "Bytes::slice out of range (text raw)"))
      | some raw =>
        match d.emitChunkBefore input lx.raw with
        | .error e => (d, .error e)
        | .ok d =>
          let d := { d with lastTextType := tt }
          -- feed_text(lexeme, last = false): one chunk for the lexeme; the node stays open
          let (d, r) := Disp.tokenProduced ctl d (.text raw tt false src)
          match r with
          | .error e => (d, .error e)
          | .ok () => ({ d with textPending := true, textPendingStart := src.end, rcs := lx.raw.end }, .ok ())
    else (d, .ok ())
  | some (.comment text) =>
    if d.flags.comments then
      match checkedSlice input text, checkedSlice input lx.raw with
      | some t, some raw =>
        match d.emitChunkBefore input lx.raw with
        | .error e => (d, .error e)
        | .ok d =>
          let (d, r) := Disp.tokenProduced ctl d (.comment t raw src)
          match r with
          | .error e => (d, .error e)
          | .ok () => ({ d with rcs := lx.raw.end }.flushEncodingChange, .ok ())
      | _, _ => (d, .error (.panic "Bytes::slice out of range (comment)"))
    else (d, .ok ())
  | some (.doctype dt) =>
    if d.flags.doctypes then
      -- opt_part uses `get`, i.e. yields None when out of range
      let opt (r : Option Range) : Option Bytes := r.bind (checkedSlice input)
      match checkedSlice input lx.raw with
      | some raw =>
        match d.emitChunkBefore input lx.raw with
        | .error e => (d, .error e)
        | .ok d =>
          let (d, r) := Disp.tokenProduced ctl d
            (.doctype (opt dt.name) (opt dt.publicId) (opt dt.systemId) dt.forceQuirks raw src)
          match r with
          | .error e => (d, .error e)
          | .ok () => ({ d with rcs := lx.raw.end }.flushEncodingChange, .ok ())
      | none => (d, .error (.panic "Bytes::slice out of range (doctype raw)"))
    else (d, .ok ())
  | _ => (d, .ok ())

/-- `adjust_capture_flags_for_tag_lexeme` (dispatcher.rs:261) -/
def Disp.adjustFlagsForTag (ctl : Controller γ) (d : Disp γ) (input : Bytes) (lx : TagLexeme) :
    Disp γ × Except Err Unit :=
  if d.pendingAux then
    let d := { d with pendingAux := false }
    match lx.outline with
    | .startTag _ _ _ as sc =>
      let (g, r) := ctl.auxInfo d.ctl ⟨input, as, sc⟩
      match r with
      | .ok f => ({ d with ctl := g, flags := f }, .ok ())
      | .error e => ({ d with ctl := g }, .error e)
    | .endTag .. => (d, .error (.internal "Tag should be a start tag at this point"))
  else
    match lx.outline with
    | .startTag name h ns as sc =>
      match LocalName.new input name h with
      | none => (d, .error (.panic "Bytes::slice out of range (tag name)"))
      | some ln =>
        let (g, r) := ctl.startTag d.ctl ln ns
        let d := { d with ctl := g }
        match r with
        | .flags f => ({ d with flags := f }, .ok ())
        | .infoRequest =>
          let (g, r) := ctl.auxInfo d.ctl ⟨input, as, sc⟩
          match r with
          | .ok f => ({ d with ctl := g, flags := f }, .ok ())
          | .error e => ({ d with ctl := g }, .error e)
        | .err e => (d, .error e)
    | .endTag name h =>
      match LocalName.new input name h with
      | none => (d, .error (.panic "Bytes::slice out of range (tag name)"))
      | some ln =>
        let (g, f) := ctl.endTag d.ctl ln
        ({ d with ctl := g, flags := f }, .ok ())

/-- `should_stop_removing_element_content` -/
def Disp.shouldStopRemoving (ctl : Controller γ) (d : Disp γ) : Bool :=
  !d.emissionEnabled && ctl.shouldEmit d.ctl

/-- `LexemeSink::handle_tag` (dispatcher.rs:389) -/
def Disp.handleTag (ctl : Controller γ) (input : Bytes) (lx : TagLexeme) (d : Disp γ) :
    Disp γ × Except Err Directive :=
  let (d, r) := d.flushPendingText ctl
  match r with
  | .error e => (d, .error e)
  | .ok () =>
    let (d, r) : Disp γ × Except Err Unit :=
      if d.gotFlagsFromHint then ({ d with gotFlagsFromHint := false }, .ok ())
      else d.adjustFlagsForTag ctl input lx
    match r with
    | .error e => (d, .error e)
    | .ok () =>
      let d := if !lx.outline.isStart && d.shouldStopRemoving ctl
               then { d with emissionEnabled := true, rcs := lx.raw.start } else d
      let (d, r) := d.produceTag ctl input lx
      match r with
      | .error e => (d, .error e)
      | .ok () =>
        let d := { d with emissionEnabled := ctl.shouldEmit d.ctl }
        (d, .ok d.nextDirective)

/-- `LexemeSink::handle_non_tag_content` (dispatcher.rs:412) -/
def Disp.handleNonTag (ctl : Controller γ) (input : Bytes) (lx : NonTagLexeme) (d : Disp γ) :
    Disp γ × Except Err Unit :=
  let isText := match lx.outline with | some (.text _) => true | _ => false
  let (d, r) : Disp γ × Except Err Unit := if isText then (d, .ok ()) else d.flushPendingText ctl
  match r with
  | .error e => (d, .error e)
  | .ok () => d.produceNonTag ctl input lx

/-- `apply_capture_flags_from_hint_and_get_next_parser_directive` -/
def Disp.applyHintFlags (d : Disp γ) (f : Flags) : Disp γ × Directive :=
  let d := { d with flags := f }
  let dir := d.nextDirective
  ({ d with gotFlagsFromHint := dir == .lex }, dir)

/-- `TagHintSink::handle_start_tag_hint` (dispatcher.rs:426) -/
def Disp.startTagHint (ctl : Controller γ) (name : LocalName) (ns : Ns) (d : Disp γ) :
    Disp γ × Except Err Directive :=
  let (g, r) := ctl.startTag d.ctl name ns
  let d := { d with ctl := g }
  match r with
  | .flags f => let (d, dir) := d.applyHintFlags f; (d, .ok dir)
  | .infoRequest => ({ d with gotFlagsFromHint := false, pendingAux := true }, .ok .lex)
  | .err e => (d, .error e)

/-- `TagHintSink::handle_end_tag_hint` (dispatcher.rs:449) -/
def Disp.endTagHint (ctl : Controller γ) (name : LocalName) (d : Disp γ) :
    Disp γ × Except Err Directive :=
  let (d, r) := d.flushPendingText ctl
  match r with
  | .error e => (d, .error e)
  | .ok () =>
    let (g, f) := ctl.endTag d.ctl name
    let d := { d with ctl := g }
    let f := if d.shouldStopRemoving ctl then { f with nextEndTag := true } else f
    let (d, dir) := d.applyHintFlags f
    (d, .ok dir)

/-- The dispatcher as the parser's sink. -/
def dispOps (ctl : Controller γ) : SinkOps (Disp γ) :=
  { handleTag := Disp.handleTag ctl
    handleNonTag := Disp.handleNonTag ctl
    startTagHint := Disp.startTagHint ctl
    endTagHint := Disp.endTagHint ctl }

/-- `run_bail_out_handlers` (dispatcher.rs:372) -/
def Disp.runBailOut (ctl : Controller γ) (d : Disp γ) (e : Err) : Disp γ :=
  let (g, out) := ctl.bailOut d.ctl e
  { d with ctl := g, sink := d.sink ++ out.map .chunk }

/-- `finish` (dispatcher.rs:98): flush, `handle_end`, then the zero-length chunk. -/
def Disp.finish (ctl : Controller γ) (d : Disp γ) (input : Bytes) : Disp γ × Except Err Unit :=
  match d.flushRemaining input input.length with
  | .error e => (d, .error e)
  | .ok d =>
    let (g, r) := ctl.handleEnd d.ctl
    let d := { d with ctl := g }
    match r with
    | .error e => (d, .error e)
    | .ok chunks => ({ d with sink := d.sink ++ chunks.map .chunk ++ [.chunk []] }, .ok ())

end LolHtml.Model
