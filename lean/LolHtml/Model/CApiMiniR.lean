/-
A concrete instance of the abstract Rust API `RApi` of `Model/CApi.lean`, used (a) by the `capi`
lane as the machine the C wrapper model is run against, (b) by the non-vacuity examples and the
counter-example of `Thm/C17_CApi.lean`.

It is a *replay machine*: the "chunk" given to `write` is the list of rewritable units the real
rewriter produces for the real chunk (computed by `gen/capi.py` from the token structure of the
generated document), each with the registered handlers that see it. Everything that depends on what
the handlers *do* is computed here: end-tag handlers pushed by `add_end_tag_handler`, streaming
handlers attached to a unit and the order in which serialisation runs or drops them
(`impl_serialize!`, src/rewritable_units/tokens/mod.rs:15-52; `MutationsInner::replace`,
mutations.rs:29), attribute presence, validation of names (element.rs:76, attributes.rs:69,
comment.rs:50), poisoning after an error.
-/
import LolHtml.Model.CApi

namespace LolHtml.Model.CApi.Mini

inductive UKind | element | comment | text | doctype | docEnd | endTag | sink
  deriving DecidableEq, Repr

structure MiniU where
  kind : UKind
  elemId : Nat := 0
  canHaveContent : Bool := true
  selfClosing : Bool := false
  name : Bytes := [120]             -- tag name (element, end tag)
  attrs : List (Bytes × Bytes) := []  -- (lower-cased name, value), document order; a value may be empty
  text : Bytes := []                -- comment text
  ids : List (Option Bytes) := []   -- doctype: [name, public id, system id]; `some []` = present but empty
  flags : List Bool := []           -- text: [last_in_text_node]
  removed : Bool := false
  before : List Nat := []           -- streaming handlers in `content_before`
  repl : Option Nat := none         -- streaming handler in `replacement`
  after : List Nat := []            -- streaming handlers in `content_after`
  endRegs : List Nat := []          -- end-tag handler scripts pushed on this element
  removeContent : Bool := false     -- element.rs:100 `should_remove_content`
  carry : Bytes := []               -- sink: incomplete UTF-8 sequence kept by `write_utf8_chunk`
  deriving DecidableEq, Repr

structure UnitEv where
  u : MiniU
  hs : List Nat                     -- registered handler scripts that are called with this unit
  deriving DecidableEq, Repr

/-- What one `write` makes the rewriter do, and what `end` would do if it came next. -/
structure MiniChunk where
  evs : List UnitEv
  endEvs : List UnitEv
  deriving DecidableEq, Repr

structure MiniRw where
  cur : List UnitEv := []
  endEvs : List UnitEv := []
  unit : Option MiniU := none
  hs : List HRef := []
  serOn : Bool := false
  ser : List Nat := []
  endTags : List (Nat × List Nat) := []    -- element id ↦ its end-tag handler scripts
  suppress : Option Nat := none            -- element whose content is being removed: nothing inside is serialised
  poisoned : Bool := false
  deriving DecidableEq, Repr

def isWs (b : UInt8) : Bool := b == 32 || b == 10 || b == 13 || b == 9 || b == 12

def hasPrefix : Bytes → Bytes → Bool
  | _, [] => true
  | [], _ :: _ => false
  | a :: as, b :: bs => a == b && hasPrefix as bs

def containsSeq : Bytes → Bytes → Bool
  | [], p => p.isEmpty
  | a :: as, p => hasPrefix (a :: as) p || containsSeq as p

/-- element.rs:76 `tag_name_bytes_from_str` (ASCII names only: the encodability check is not modelled). -/
def tagNameOk (n : Bytes) : Bool :=
  match n with
  | [] => false
  | c :: _ => isAsciiAlpha c && !(n.any fun ch => isWs ch || ch == 47 || ch == 62)

/-- attributes.rs:69 `name_from_string`. -/
def attrNameOk (n : Bytes) : Bool :=
  !n.isEmpty && !(n.any fun ch => isWs ch || ch == 47 || ch == 62 || ch == 61)

/-- comment.rs:50 `contains_comment_closing_sequence`. -/
def commentTextOk (t : Bytes) : Bool :=
  !(containsSeq t [45, 45, 62] || containsSeq t [45, 45, 33, 62] || hasPrefix t [62] || hasPrefix t [45, 62])

def attrValue (u : MiniU) (n : Bytes) : Option Bytes :=
  if attrNameOk n then (u.attrs.find? (·.1 == asciiLowerBytes n)).map (·.2) else none

def hasAttr (u : MiniU) (n : Bytes) : Bool := (attrValue u n).isSome

def errTag : Msg := [0x74]
def errAttr : Msg := [0x61]
def errComment : Msg := [0x6d]
def errUtf8 : Msg := [0x75]
def errPoisoned : Msg := [0x70]
def errFuel : Msg := [0x66]

/-- element.rs:100 `remove_content` applies: an element that can have content. -/
def clearsContent (u : MiniU) : Bool := u.kind == .element && u.canHaveContent

def miniUnitOp (u : MiniU) : ROp → MiniU × RRes × List Nat
  | .get f args =>
    if f == 4 then (u, .optStr (attrValue u (args.headD [])), [])
    else if f == 5 then (u, .bool (hasAttr u (args.headD [])), [])
    else if f == 16 then (u, .bool u.removed, [])
    else if f == 17 then (u, .bool u.selfClosing, [])
    else if f == 18 then (u, .bool u.canHaveContent, [])
    else if f == 41 then (u, .bool (u.flags.headD false), [])
    else if f == 50 then (u, .optStr (u.ids.getD 0 none), [])
    else if f == 51 then (u, .optStr (u.ids.getD 1 none), [])
    else if f == 52 then (u, .optStr (u.ids.getD 2 none), [])
    else if f == 0 || f == 60 then (u, .str (asciiLowerBytes u.name), [])
    else if f == 1 || f == 61 then (u, .str u.name, [])
    else if f == 30 then (u, .str u.text, [])
    else (u, .raw [], [])
  | .call f args _ =>
    if f == 2 then
      if tagNameOk (args.headD []) then ({ u with name := args.headD [] }, .unit, []) else (u, .err errTag, [])
    else if f == 6 then
      let n := args.headD []
      if attrNameOk n then
        let ln := asciiLowerBytes n
        let v := args.getD 1 []
        ({ u with attrs := if (u.attrs.any (·.1 == ln)) then u.attrs.map (fun a => if a.1 == ln then (ln, v) else a)
                           else u.attrs ++ [(ln, v)] }, .unit, [])
      else (u, .err errAttr, [])
    else if f == 7 then
      let n := args.headD []
      if attrNameOk n then ({ u with attrs := u.attrs.filter (·.1 != asciiLowerBytes n) }, .unit, [])
      else (u, .unit, [])
    else if f == 13 then
      -- `replace`: mutations.rs:29 drops the old replacement; element.rs:528 also `remove_content()`
      if clearsContent u then
        ({ u with removed := true, repl := none, after := [], removeContent := true }, .unit, u.repl.toList ++ u.after)
      else ({ u with removed := true, repl := none }, .unit, u.repl.toList)
    else if f == 14 then
      if clearsContent u then ({ u with removed := true, after := [], removeContent := true }, .unit, u.after)
      else ({ u with removed := true }, .unit, [])
    else if f == 12 then
      if clearsContent u then ({ u with after := [], removeContent := true }, .unit, u.after) else (u, .unit, [])
    else if f == 15 then ({ u with removed := true }, .unit, [])
    else if f == 31 then
      if commentTextOk (args.headD []) then ({ u with text := args.headD [] }, .unit, []) else (u, .err errComment, [])
    else if f == 62 then ({ u with name := args.headD [] }, .unit, [])   -- end_tag.rs:80: no validation
    else (u, .unit, [])
  | .callBytes _ b _ =>
    -- text_encoder.rs:212 `write_utf8_chunk`: an incomplete sequence at the end is kept for the next call
    match utf8Check (u.carry ++ b) with
    | some ⟨_, some _⟩ => ({ u with carry := [] }, .err errUtf8, [])
    | some ⟨upTo, none⟩ => ({ u with carry := (u.carry ++ b).drop upTo }, .unit, [])
    | none => ({ u with carry := [] }, .unit, [])
  | .streaming f sid =>
    if f == 10 then ({ u with before := u.before ++ [sid] }, .unit, [])
    else if f == 13 then
      if clearsContent u then
        ({ u with removed := true, repl := some sid, after := [], removeContent := true }, .unit, u.repl.toList ++ u.after)
      else ({ u with removed := true, repl := some sid }, .unit, u.repl.toList)
    else if f == 12 then
      -- element.rs:473 `set_inner_content_chunk`
      if clearsContent u then ({ u with after := [sid], removeContent := true }, .unit, u.after) else (u, .unit, [sid])
    else if f == 11 then ({ u with after := sid :: u.after }, .unit, [])
    else if f == 8 then
      if u.canHaveContent then ({ u with after := sid :: u.after }, .unit, []) else (u, .unit, [sid])
    else (u, .unit, [sid])
  | .addEndTagHandler hid =>
    if u.kind == .element && u.canHaveContent then ({ u with endRegs := u.endRegs ++ [hid] }, .unit, [])
    else (u, .absent, [])
  | .clearEndTagHandlers => ({ u with endRegs := [] }, .unit, [])
  | .attrCount => (u, .nat u.attrs.length, [])
  | .attrGet i f =>
    match u.attrs[i]? with
    | some (n, v) => (u, .str (if f == 24 then v else n), [])
    | none => (u, .str [], [])

def sinkUnit : MiniU := { kind := .sink }

def lookupEnd (l : List (Nat × List Nat)) (id : Nat) : List Nat :=
  match l.find? (·.1 == id) with
  | some p => p.2
  | none => []

/-- Everything boxed that the unit still holds, in serialisation order. -/
def pendingOf (u : MiniU) : List Nat := u.before ++ u.repl.toList ++ u.after

/-- Proceed to the next call-back or to the end of the call. -/
def advance : Nat → MiniRw → List REv → MiniRw × List REv × RNext MiniU
  | 0, rw, evs => ({ rw with poisoned := true }, evs, .done (.error errFuel))
  | fuel + 1, rw, evs =>
    match rw.unit with
    | none =>
      match rw.cur with
      | [] => (rw, evs, .done (.ok ()))
      | ue :: rest =>
        let hs : List HRef :=
          if ue.u.kind == .endTag then (lookupEnd rw.endTags ue.u.elemId).map .endTag
          else ue.hs.map .reg
        -- the end tag that pops the element whose content is removed re-enables emission
        let rw := if ue.u.kind == .endTag && rw.suppress == some ue.u.elemId then { rw with suppress := none } else rw
        if hs.isEmpty then advance fuel { rw with cur := rest } evs
        else
          -- handlers_dispatcher.rs:262: start tags inside removed content are pre-marked as removed
          let u := if rw.suppress.isSome && ue.u.kind == .element then { ue.u with removed := true } else ue.u
          advance fuel { rw with cur := rest, unit := some u, hs := hs, serOn := false, ser := [] } evs
    | some u =>
      match rw.hs with
      | h :: hs => ({ rw with hs := hs }, evs, .invoke h u)
      | [] =>
        if !rw.serOn then
          -- handlers done: remember end-tag handlers, start serialisation (tokens/mod.rs:27-50)
          let endTags := if u.kind == .element && !u.endRegs.isEmpty
            then (u.elemId, u.endRegs) :: rw.endTags else rw.endTags
          if rw.suppress.isSome then
            -- inside removed content the token is not serialised: its boxed handlers are just dropped
            advance fuel { rw with serOn := true, ser := [], endTags := endTags }
              (evs ++ (pendingOf u).map .dropHandler)
          else
            let ser := u.before ++ (if u.removed then u.repl.toList else []) ++ u.after
            let dropped := if u.removed then [] else u.repl.toList
            let suppress := if u.removeContent then some u.elemId else none
            advance fuel { rw with serOn := true, ser := ser, endTags := endTags, suppress := suppress }
              (evs ++ dropped.map .dropHandler)
        else
          match rw.ser with
          | s :: ser => ({ rw with ser := ser }, evs, .invoke (.streaming s) sinkUnit)
          | [] => advance fuel { rw with unit := none, serOn := false } evs

def fail (rw : MiniRw) (m : Msg) (pending : List Nat) : MiniRw × List REv × RNext MiniU :=
  ({ rw with cur := [], unit := none, hs := [], ser := [], serOn := false, poisoned := true },
   pending.map .dropHandler, .done (.error m))

def miniStep (rw : MiniRw) : RIn MiniChunk MiniU → MiniRw × List REv × RNext MiniU
  | .write c =>
    if rw.poisoned then (rw, [], .done (.error errPoisoned))
    else advance (2 * c.evs.length + 4) { rw with cur := c.evs, endEvs := c.endEvs } []
  | .end_ =>
    if rw.poisoned then (rw, [], .done (.error errPoisoned))
    else advance (2 * rw.endEvs.length + 4) { rw with cur := rw.endEvs, endEvs := [] } []
  | .ret u r =>
    match r with
    | .error m =>
      if rw.serOn then fail rw m rw.ser else fail rw m (pendingOf u)
    | .ok () =>
      if rw.serOn then advance (2 * rw.cur.length + 6) rw []
      else advance (2 * rw.cur.length + 6) { rw with unit := some u } []

/-- Selectors understood by the replay machine: `*` or an ASCII tag name (the generator's pool of
    valid selectors); anything else is a parse error. -/
def miniParseSelector (s : Bytes) : Except Msg Bytes :=
  if s == [42] || (tagNameOk s && s.all fun c => isAsciiAlpha c || (48 ≤ c && c ≤ 57)) then .ok s
  else .error [0x73]

/-- Encoding labels: 0 = unknown, 1 = ASCII-compatible, 2 = not ASCII-compatible; the lane passes
    the class as the first byte of the model-side label. -/
def miniForLabel (l : Bytes) : Option Nat :=
  match l with
  | 1 :: _ => some 1
  | 2 :: _ => some 2
  | _ => none

def MiniR : RApi where
  Sel := Bytes
  Enc := Nat
  Rw := MiniRw
  U := MiniU
  Chunk := MiniChunk
  parseSelector := miniParseSelector
  forLabel := miniForLabel
  asciiCompatible := fun e => e == 1
  new := fun cfg =>
    -- `HtmlRewriter::new` panics (debug assertion, F5) when the preallocation exceeds the limit
    if cfg.mem.prealloc > cfg.mem.max then .error [0x6d]
    else
      let hs := (cfg.doc.filterMap (·.docEnd)).reverse   -- handlers_dispatcher.rs:121 `.rev()`
      .ok { endEvs := if hs.isEmpty then [] else [⟨{ kind := .docEnd }, hs⟩] }
  step := miniStep
  drop := fun _ => []
  unitOp := miniUnitOp

end LolHtml.Model.CApi.Mini
