import LolHtml.Model.Stream
import LolHtml.Gen.Syntax
import LolHtml.Gen.Tags
/-!
Lane `lex`: the transform stream (parser + dispatcher) under a scripted, observing controller whose
capture flags are a function of the tag-event index (adversarial mode switching).

case:  <input-hex> <cuts> <strict 0|1> <initial-flags 0..31> <script: f[,f]*  f = flags['i'] | '-'>
obs :  <res;...> # <sink-bytes-hex per call;...> # <event;...>
-/
namespace LolHtml.Lane.Lex
open LolHtml LolHtml.Model

structure Ctl where
  script : List (Nat × Bool)
  init : Nat
  k : Nat := 0
  pendingFlags : Nat := 0
  log : List String := []      -- newest first
  -- open text node accumulator: (start, end, text type, bytes)
  textAcc : Option (Nat × Nat × TextType × Bytes) := none
  /-- fail at the n-th handle_token call (1-based; 0 = never) -/
  failAt : Nat := 0
  tokensSeen : Nat := 0
  deriving Inhabited

def nsNum : Ns → Nat | .html => 0 | .svg => 1 | .mathml => 2
def ttNum : TextType → Nat
  | .plainText => 0 | .rcData => 1 | .rawText => 2 | .scriptData => 3 | .data => 4 | .cdataSection => 5

def lnStr : LocalName → String
  | .hash h => s!"h{h}"
  | .bytes b => s!"b{hexOrDash b}"

def Ctl.item (c : Ctl) : Nat × Bool :=
  match c.script with
  | [] => (c.init, false)
  | s => s[c.k % s.length]!

def optHex : Option Bytes → String
  | some b => hexOrDash b
  | none => "N"

def attrStr (base : Nat) (a : Bytes × Bytes × AttrOutline) : String :=
  let (n, v, o) := a
  -- `NonZero::new(base + value.start)` (attributes.rs:285)
  let loc := if base + o.value.start == 0 then "N/N"
    else s!"{base + o.name.start}-{base + o.name.start + n.length}/{base + o.value.start}-{base + o.value.start + v.length}"
  s!"{hexOrDash n}={hexOrDash v}@{loc}"

def tokenStr : Token → String
  | .startTag n as ns sc _ src base =>
      let astr := if as.isEmpty then "-" else "+".intercalate (as.map (attrStr base))
      s!"S:{src.start}-{src.end}:{hexOrDash n}:{nsNum ns}:{if sc then 1 else 0}:{astr}"
  | .endTag n _ src => s!"T:{src.start}-{src.end}:{hexOrDash n}"
  | .comment t _ src => s!"C:{src.start}-{src.end}:{hexOrDash t}"
  | .doctype n p s fq _ src => s!"D:{src.start}-{src.end}:{optHex (n.map asciiLowerBytes)}:{optHex p}:{optHex s}:{if fq then 1 else 0}"
  | .text .. => "?"

def ctl : Controller Ctl :=
  { initialFlags := fun c => Flags.ofNat c.init
    startTag := fun c name ns =>
      let it := c.item
      let c := { c with k := c.k + 1, log := s!"hs:{lnStr name}:{nsNum ns}" :: c.log }
      if it.2 then ({ c with pendingFlags := it.1 }, .infoRequest) else (c, .flags (Flags.ofNat it.1))
    auxInfo := fun c info =>
      ({ c with log := s!"ax:{info.attrs.length}:{if info.selfClosing then 1 else 0}" :: c.log }, .ok (Flags.ofNat c.pendingFlags))
    endTag := fun c name =>
      let it := c.item
      ({ c with k := c.k + 1, log := s!"he:{lnStr name}" :: c.log }, Flags.ofNat it.1)
    token := fun c t =>
      let c := { c with tokensSeen := c.tokensSeen + 1 }
      if c.failAt != 0 && c.tokensSeen == c.failAt then (c, { chunks := [], err := some .handler }) else
      match t with
      | .text b tt last src =>
        let acc := match c.textAcc with
          | some (s, _, tt0, bs) => (s, src.end, tt0, bs ++ b)
          | none => (src.start, src.end, tt, b)
        let c := if last then
            { c with textAcc := none, log := s!"X:{acc.1}-{acc.2.1}:{ttNum acc.2.2.1}:{hexOrDash acc.2.2.2}" :: c.log }
          else { c with textAcc := some acc }
        (c, { chunks := if b.isEmpty then [] else [b] })
      | t => ({ c with log := tokenStr t :: c.log }, { chunks := [t.raw] })
    shouldEmit := fun _ => true
    handleEnd := fun c => (c, [], none)
    bailOut := fun c _ => (c, [[33]]) }

def world : World Ctl := ⟨Gen.Syntax.table, Gen.Tags.cfg, ctl⟩

def errStr : Err → String
  | .ambiguity _ => "amb"
  | .handler => "hnd"
  | .mem => "mem"
  | .internal _ => "internal"
  | .panic _ => "panic"

def parseScript (s : String) : Option (List (Nat × Bool)) :=
  if s == "-" then some [] else
  (s.splitOn ",").mapM fun t =>
    if t.endsWith "i" then (t.dropEnd 1).toString.toNat?.map (·, true) else t.toNat?.map (·, false)

/-- split `input` at sorted cut offsets (repeated offsets give empty chunks) -/
def splitAtCuts (input : Bytes) (cuts : List Nat) : List Bytes :=
  let rec go (rest : Bytes) (prev : Nat) : List Nat → List Bytes
    | [] => [rest]
    | c :: cs =>
      let c := max prev (min c input.length)
      rest.take (c - prev) :: go (rest.drop (c - prev)) c cs
  go input 0 cuts

structure RunOut where
  results : List String
  outs : List String
  rw : Rewriter Ctl

def sinkLen (r : Rewriter Ctl) : Nat := (sinkBytes r.sink).length

def runChunks (rw : Rewriter Ctl) (chunks : List Bytes) : RunOut := Id.run do
  let mut rw := rw
  let mut results : List String := []
  let mut outs : List String := []
  let mut failed := false
  for ch in chunks do
    if !failed then
      let before := sinkLen rw
      let (rw', res) := rw.write world ch
      rw := rw'
      outs := outs ++ [hexOrDash ((sinkBytes rw.sink).drop before)]
      match res with
      | .ok => results := results ++ ["ok"]
      | .err e => results := results ++ [errStr e]; failed := true
      | .panicUseAfterError => results := results ++ ["uae"]; failed := true
  if !failed then
    let before := sinkLen rw
    let (rw', res) := rw.end world
    rw := rw'
    outs := outs ++ [hexOrDash ((sinkBytes rw.sink).drop before)]
    match res with
    | .ok => results := results ++ ["ok"]
    | .err e => results := results ++ [errStr e]
    | .panicUseAfterError => results := results ++ ["uae"]
  return ⟨results, outs, rw⟩

def runWith (hex cuts strict init script : String) (failAt : Nat) (cfg : Settings) : String :=
    match ofHex hex, parseNatList cuts, init.toNat?, parseScript script with
    | some input, some cuts, some init, some script =>
      let c : Ctl := { script := script, init := init, failAt := failAt }
      let rw : Rewriter Ctl := { stream := Stream.new world c { cfg with strict := strict == "1" } }
      let out := runChunks rw (splitAtCuts input cuts)
      let c := out.rw.stream.disp.ctl
      let log := match c.textAcc with
        | some (s, e, tt, bs) => s!"X?:{s}-{e}:{ttNum tt}:{hexOrDash bs}" :: c.log
        | none => c.log
      if out.results.contains "panic" || out.results.contains "internal" then "PANIC model"
      else
        let evs := if log.isEmpty then "-" else ";".intercalate log.reverse
        s!"{";".intercalate out.results} # {";".intercalate out.outs} # {evs}"
    | _, _, _, _ => "bad-case"

def run (line : String) : String :=
  match line.splitOn " " with
  | [hex, cuts, strict, init, script] => runWith hex cuts strict init script 0 {}
  | _ => "bad-case"

/-- lane `fault`: `<lex case> <failAt> <graceful bits mem=2,handler=1> <maxmem 0=unlimited> <prealloc>` -/
def runFault (line : String) : String :=
  match line.splitOn " " with
  | [hex, cuts, strict, init, script, failAt, g, maxMem, prealloc] =>
    match failAt.toNat?, g.toNat?, maxMem.toNat?, prealloc.toNat? with
    | some failAt, some g, some maxMem, some prealloc =>
      runWith hex cuts strict init script failAt
        { bailOnMem := g / 2 % 2 == 1, bailOnHandler := g % 2 == 1,
          maxMem := if maxMem == 0 then 1000000000 else maxMem, prealloc := prealloc }
    | _, _, _, _ => "bad-case"
  | _ => "bad-case"

end LolHtml.Lane.Lex
