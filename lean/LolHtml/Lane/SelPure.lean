/-
Lane `selpure` (property C04, pure leaf functions of the selector engine).

Cases (whitespace separated; bytes in lower-case hex, `-` = empty):
  nth <a> <b> <i>                      decimal i32 `a`, `b`; `1 ≤ i ≤ 4096`
      → `<bit> <count>`: `has_index(a,b)(i)` and `#{ j ∈ 1..=i | has_index(a,b)(j) }`
  attr <op> <flag> <ns> <value> <needle>
      op ∈ eq inc dash pre suf sub; flag ∈ s i d h (`s`/`i` flag, no flag on a case-sensitive name,
      no flag on the HTML-case-insensitive name `type`); ns ∈ html svg
      → `1`/`0`: does `[k op "needle" flag]` match an element whose attribute `k` has the raw value
  el <kind> <ns> <key> <attrs>
      kind ∈ id class has; attrs = `name:value,name:value…` (hex, `-` = none / empty value)
      → `1`/`0`: `#key` / `.key` / `[key]` on an element with exactly these attributes
  elop <op> <flag> <ns> <name> <needle> <attrs>
      flag ∈ s i n (n = no flag: the case mode then depends on whether the lower-cased `name` is in
      the HTML list of case-insensitive attributes)
      → `1`/`0`: `[name op "needle" flag]` on an element with exactly these attributes
Anything the Rust side cannot express through selector text / a tag is `bad-case` on both sides.
A model failure branch (`none`) prints `PANIC`.
-/
import LolHtml.Model.Nth
import LolHtml.Model.AttrMatch

namespace LolHtml.Lane.SelPure
open LolHtml.Model

def parseI32 (s : String) : Option Int32 :=
  match s.toInt? with
  | some n => if -2147483648 ≤ n ∧ n ≤ 2147483647 then some (Int32.ofInt n) else none
  | none => none

def bit (b : Bool) : String := if b then "1" else "0"

def runNth (a b i : Int32) : String :=
  let nth : Nth.NthChild := { step := a, offset := b }
  let rec go (fuel : Nat) (j : Int32) (cnt : Nat) : Option Nat :=
    match fuel with
    | 0 => some cnt
    | fuel + 1 =>
      match Nth.hasIndex nth j with
      | none => none
      | some r => go fuel (j + 1) (if r then cnt + 1 else cnt)
  match Nth.hasIndex nth i, go i.toInt.toNat 1 0 with
  | some r, some c => s!"{bit r} {c}"
  | _, _ => "PANIC"

/-- Selector text is a `&str` and CSS replaces U+0000: the needle/key must be NUL-free valid UTF-8. -/
def okSelectorText (bs : Bytes) : Bool :=
  !bs.contains 0 && ByteArray.validateUTF8 ⟨bs.toArray⟩

/-- A raw attribute value can be written between `"` or between `'`. -/
def okAttrValue (bs : Bytes) : Bool := !(bs.contains 34 && bs.contains 39)

/-- Attribute names the harness writes into a tag: non-empty, none of the bytes that end or
restructure a name in the tokenizer (whitespace, `/`, `>`, `=`, NUL, quotes, `<`). -/
def okAttrName (bs : Bytes) : Bool :=
  !bs.isEmpty && bs.all fun b =>
    !(b == 9 || b == 10 || b == 12 || b == 13 || b == 32 || b == 47 || b == 62 || b == 61 ||
      b == 0 || b == 34 || b == 39 || b == 60)

def parseOp : String → Option AttrMatch.Op
  | "eq" => some .equal | "inc" => some .includes | "dash" => some .dashMatch
  | "pre" => some .pre | "suf" => some .suffix | "sub" => some .substring
  | _ => none

/-- flag ↦ (attribute name used in the selector and the tag, selector flag) -/
def parseFlag : String → Option (Bytes × AttrMatch.AttributeFlags)
  | "s" => some ([100, 97, 116, 97, 45, 107], .caseSensitive)                  -- data-k
  | "i" => some ([100, 97, 116, 97, 45, 107], .asciiCaseInsensitive)
  | "d" => some ([100, 97, 116, 97, 45, 107], .caseSensitivityDependsOnName)
  | "h" => some ([116, 121, 112, 101], .caseSensitivityDependsOnName)          -- type
  | _ => none

def parseFlag3 : String → Option AttrMatch.AttributeFlags
  | "s" => some .caseSensitive
  | "i" => some .asciiCaseInsensitive
  | "n" => some .caseSensitivityDependsOnName
  | _ => none

def parseNs : String → Option Bool
  | "html" => some true | "svg" => some false | _ => none

def showRes : Option Bool → String
  | some b => bit b
  | none => "PANIC"

def runAttr (op flag ns value needle : String) : String :=
  match parseOp op, parseFlag flag, parseNs ns, ofHex value, ofHex needle with
  | some op, some (name, fl), some isHtml, some value, some needle =>
    if !okSelectorText needle || !okAttrValue value then "bad-case" else
    let m : AttrMatch.AttributeMatcher := { attributes := [(name, value)], isHtmlElement := isHtml }
    showRes (AttrMatch.compiledAttrExpr false (AttrMatch.parseAttributeSelector name needle fl op) m)
  | _, _, _, _, _ => "bad-case"

def parseAttrs (s : String) : Option (List (Bytes × Bytes)) :=
  if s == "-" then some [] else
  (s.splitOn ",").mapM fun item =>
    match item.splitOn ":" with
    | [n, v] => do
      let n ← ofHex n
      let v ← ofHex v
      pure (n, v)
    | _ => none

def runEl (kind ns key attrs : String) : String :=
  match parseNs ns, ofHex key, parseAttrs attrs with
  | some isHtml, some key, some attrs =>
    if key.isEmpty || !okSelectorText key || !attrs.all (fun a => okAttrName a.1 && okAttrValue a.2)
    then "bad-case" else
    let m : AttrMatch.AttributeMatcher := { attributes := attrs, isHtmlElement := isHtml }
    match kind with
    | "id" => showRes (AttrMatch.compiledAttrExpr false (.id key) m)
    | "class" => showRes (AttrMatch.compiledAttrExpr false (.class_ key) m)
    -- the selector parser hands over `local_name_lower` (selectors-0.37 parser.rs:3121)
    | "has" => showRes (AttrMatch.compiledAttrExpr false
                 (.attributeExists (AttrMatch.makeAsciiLowercase key)) m)
    | _ => "bad-case"
  | _, _, _ => "bad-case"

def runElOp (op flag ns name needle attrs : String) : String :=
  match parseOp op, parseFlag3 flag, parseNs ns, ofHex name, ofHex needle, parseAttrs attrs with
  | some op, some fl, some isHtml, some name, some needle, some attrs =>
    if name.isEmpty || !okSelectorText name || !okSelectorText needle
        || !attrs.all (fun a => okAttrName a.1 && okAttrValue a.2)
    then "bad-case" else
    let m : AttrMatch.AttributeMatcher := { attributes := attrs, isHtmlElement := isHtml }
    showRes (AttrMatch.compiledAttrExpr false (AttrMatch.parseAttributeSelector name needle fl op) m)
  | _, _, _, _, _, _ => "bad-case"

def run (line : String) : String :=
  match (line.splitOn " ").filter (· ≠ "") with
  | ["nth", a, b, i] =>
    match parseI32 a, parseI32 b, parseI32 i with
    | some a, some b, some i =>
      if 1 ≤ i.toInt ∧ i.toInt ≤ 4096 then runNth a b i else "bad-case"
    | _, _, _ => "bad-case"
  | ["attr", op, flag, ns, value, needle] => runAttr op flag ns value needle
  | ["el", kind, ns, key, attrs] => runEl kind ns key attrs
  | ["elop", op, flag, ns, name, needle, attrs] => runElOp op flag ns name needle attrs
  | _ => "bad-case"

end LolHtml.Lane.SelPure
