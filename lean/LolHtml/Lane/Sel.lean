/-
Lane `sel` (property C04). Case format: see gen/sel.py. Observation:

  hits=<i:o,…|-> ref=<i:o,…|-> css=<hex,…> ast=<Debug text of the Ast>

`hits` = model VM (`SelVM.runSelectors`), `ref` = `Spec.Css.run`, both sorted by (tag ordinal,
selector index); `css` = the selector texts printed by `Sel.selListCss`; `ast` = `{:?}` of
`lol_html::selectors_vm::Ast` as `SelVM.Ast.ofSelectors` predicts it.
-/
import LolHtml.Model.SelVM
import LolHtml.Spec.Css

namespace LolHtml.Lane.Sel
open LolHtml LolHtml.Sel LolHtml.SelVM

/-! ### case parser -/

abbrev P := StateT (List String) Option

def tok : P String := fun s =>
  match s with
  | [] => none
  | t :: r => some (t, r)

def pNat : P Nat := do
  let t ← tok
  match t.toNat? with
  | some n => pure n
  | none => failure

def pInt : P Int := do
  let t ← tok
  match t.toInt? with
  | some n => pure n
  | none => failure

def pHex : P Bytes := do
  let t ← tok
  match ofHex t with
  | some b => pure b
  | none => failure

def rep (p : P α) : Nat → P (List α)
  | 0 => pure []
  | n + 1 => do
    let x ← p
    let xs ← rep p n
    pure (x :: xs)

def pOp : P AttrOp := do
  match ← tok with
  | "eq" => pure .eq | "inc" => pure .includes | "dash" => pure .dashMatch
  | "pfx" => pure .pfx | "sub" => pure .substring | "sfx" => pure .sfx
  | _ => failure

def pCase : P ParsedCase := do
  match ← tok with
  | "es" => pure .explicitCaseSensitive | "ai" => pure .asciiCaseInsensitive
  | "cs" => pure .caseSensitive | "ih" => pure .insensitiveIfHtml
  | _ => failure

def pSimple : Nat → P Simple
  | 0 => failure
  | fuel + 1 => do
    match ← tok with
    | "t" => pure (.type (← pHex))
    | "u" => pure .universal
    | "i" => pure (.id (← pHex))
    | "k" => pure (.cls (← pHex))
    | "e" => pure (.attrExists (← pHex))
    | "a" => do
      let n ← pHex
      let op ← pOp
      let v ← pHex
      let cs ← pCase
      pure (.attr n op v cs)
    | "n" => do
      let a ← pInt
      let b ← pInt
      pure (.nthChild a b)
    | "o" => do
      let a ← pInt
      let b ← pInt
      pure (.nthOfType a b)
    | "f" => pure .firstChild
    | "g" => pure .firstOfType
    | "x" => do
      let k ← pNat
      let args ← rep (do let j ← pNat; rep (pSimple fuel) j) k
      pure (.not args)
    | _ => failure

def pCompound (fuel : Nat) : P Compound := do
  let j ← pNat
  rep (pSimple fuel) j

def pComb : P Comb := do
  match ← tok with
  | "c" => pure .child
  | "d" => pure .descendant
  | _ => failure

def pComplex (fuel : Nat) : P Complex := do
  let m ← pNat
  if m == 0 then failure
  let head ← pCompound fuel
  let tail ← rep (do let k ← pComb; let c ← pCompound fuel; pure (k, c)) (m - 1)
  pure ⟨head, tail⟩

def pSelSet (fuel : Nat) : P (List SelList) := do
  let n ← pNat
  rep (do let k ← pNat; rep (pComplex fuel) k) n

def parseSelSet (s : String) : Option (List SelList) :=
  let toks := s.splitOn ","
  match (pSelSet (toks.length + 1)).run toks with
  | some (r, []) => some r
  | _ => none

def parseAttr (s : String) : Option Attr :=
  match s.splitOn "=" with
  | [n] => do pure ⟨← ofHex n, []⟩
  | [n, v] => do pure ⟨← ofHex n, ← (if v.isEmpty then some [] else ofHex v)⟩
  | _ => none

def parseNs : String → Option Ns
  | "h" => some .html | "s" => some .svg | "m" => some .mathml | _ => none

/-- `none` = malformed, `some none` = text (no event) -/
def parseEvent (s : String) : Option (Option Event) :=
  match s.splitOn ":" with
  | ["s", n, ns, sc, attrs] => do
    let name ← ofHex n
    let ns ← parseNs ns
    let sc ← (if sc == "1" then some true else if sc == "0" then some false else none)
    let attrs ← (if attrs == "-" then some [] else (attrs.splitOn "&").mapM parseAttr)
    pure (some (.start ⟨name, ns, attrs, sc⟩))
  | ["e", n] => do pure (some (.end_ (← ofHex n)))
  | ["t", _] => some none
  | _ => none

def parseScript (s : String) : Option (List Event) :=
  if s == "-" then some [] else do
    let evs ← (s.splitOn ";").mapM parseEvent
    pure (evs.filterMap id)

/-! ### `{:?}` of the Rust `Ast` -/

def dbgStr (b : Bytes) : String := "\"" ++ bytesToString b ++ "\""

def dbgList (xs : List String) : String := "[" ++ ", ".intercalate xs ++ "]"

def dbgOp : AttrOp → String
  | .eq => "Equal" | .includes => "Includes" | .dashMatch => "DashMatch"
  | .pfx => "Prefix" | .substring => "Substring" | .sfx => "Suffix"

def dbgCase : ParsedCase → String
  | .explicitCaseSensitive => "ExplicitCaseSensitive"
  | .asciiCaseInsensitive => "AsciiCaseInsensitive"
  | .caseSensitive => "CaseSensitive"
  | .insensitiveIfHtml => "AsciiCaseInsensitiveIfInHtmlElementInHtmlDocument"

def dbgTagExpr : OnTagNameExpr → String
  | .explicitAny => "ExplicitAny"
  | .unmatchable => "Unmatchable"
  | .localName n => s!"LocalName({dbgStr n})"
  | .nthChild a b => "NthChild(NthChild { step: " ++ toString a ++ ", offset: " ++ toString b ++ " })"
  | .nthOfType a b => "NthOfType(NthChild { step: " ++ toString a ++ ", offset: " ++ toString b ++ " })"

def dbgAttrExpr : OnAttributesExpr → String
  | .id v => s!"Id({dbgStr v})"
  | .cls v => s!"Class({dbgStr v})"
  | .attributeExists n => s!"AttributeExists({dbgStr n})"
  | .attributeComparison n v cs op =>
    "AttributeComparisonExpr(AttributeExpr { name: " ++ dbgStr n ++ ", value: " ++ dbgStr v ++
      ", case_sensitivity: " ++ dbgCase cs ++ ", operator: \"AttrSelectorOperator::" ++ dbgOp op ++ "\" })"

def dbgExpr (f : α → String) (e : Expr α) : String :=
  "Expr { simple_expr: " ++ f e.simpleExpr ++ ", negation: " ++ toString e.negation ++ " }"

def dbgPredicate (p : Predicate) : String :=
  "Predicate { on_tag_name_exprs: " ++ dbgList (p.onTagNameExprs.map (dbgExpr dbgTagExpr)) ++
    ", on_attr_exprs: " ++ dbgList (p.onAttrExprs.map (dbgExpr dbgAttrExpr)) ++ " }"

/-- `DenseHashSet` with fewer than 32 ids is `Inline(bits)` -/
def dbgIds (ids : List Nat) : String :=
  "Inline(" ++ toString (ids.foldl (fun acc i => acc + 2 ^ i) 0) ++ ")"

mutual
def dbgNode : AstNode → String
  | .mk p ch de ids =>
    "AstNode { predicate: " ++ dbgPredicate p ++ ", children: [" ++ dbgNodes ch ++ "], descendants: [" ++
      dbgNodes de ++ "], match_ids: " ++ dbgIds ids ++ " }"
def dbgNodes : List AstNode → String
  | [] => ""
  | [n] => dbgNode n
  | n :: rest => dbgNode n ++ ", " ++ dbgNodes rest
end

def dbgAst (a : Ast) : String :=
  "Ast { root: [" ++ dbgNodes a.root ++ "], cumulative_node_count: " ++ toString a.cumulativeNodeCount ++ " }"

/-! ### observation -/

def insertHit (h : Nat × Nat) : List (Nat × Nat) → List (Nat × Nat)
  | [] => [h]
  | x :: xs => if h.2 < x.2 || (h.2 == x.2 && h.1 ≤ x.1) then h :: x :: xs else x :: insertHit h xs

def sortHits (l : List (Nat × Nat)) : List (Nat × Nat) := l.foldr insertHit []

def hitsStr (l : List (Nat × Nat)) : String :=
  if l.isEmpty then "-" else ",".intercalate ((sortHits l).map fun h => s!"{h.1}:{h.2}")

def panicStr : Panic → String
  | .typedCounterMissing => "PANIC typed-counter"
  | .instrIndex => "PANIC instr-index"
  | .openNameCountUnderflow => "PANIC open-name-count"

def run (line : String) : String :=
  match line.splitOn " " with
  | [esi, _cuts, sels, _css, script] =>
    match parseSelSet sels, parseScript script with
    | some sels, some evs =>
      let esi := esi == "1"
      let hits := match runSelectors sels esi evs with
        | .ok h => hitsStr h
        | .error p => panicStr p
      let ref := hitsStr (Spec.Css.run Spec.Css.cssLeaf sels esi evs)
      let css := ",".intercalate (sels.map fun s => hexOrDash (strBytes (selListCss s)))
      s!"hits={hits} ref={ref} css={css} ast={dbgAst (Ast.ofSelectors sels)}"
    | _, _ => "bad-case"
  | _ => "bad-case"

end LolHtml.Lane.Sel
