import LolHtml.Model.Stream
import LolHtml.Model.AttrsApi
import LolHtml.Spec.Attrs
import LolHtml.Gen.Syntax
import LolHtml.Gen.Tags
/-!
Lane `attrs` (C16, C14): what an element handler reads from every start tag, computed by the model
(transform stream + dispatcher + lexer on the generated table, then `Model.AttrsApi` on the start-tag
token) — and, for the case's own tag, recomputed from `Spec.Attrs` (the independent reading of the
tag's bytes); if the two disagree the line is prefixed `SPEC-MISMATCH`, which can never equal the
implementation's line.

case:  <ctx html|svg|math> <tag bytes hex> <cut | -> [<edit[,edit]* | ->] <query hex[,query hex]* | ->
       edit = s:<name hex>:<value hex> | r:<name hex> | n:<new tag name hex>     (`-` = empty string)
       The edits are applied, in order, to EVERY element in its handler after the first round of reads;
       then tag_name / attributes() / the queries are read again (record suffix `:A:…`).
obs :  see harness/src/lanes/attrs.rs
-/
namespace LolHtml.Lane.Attrs
open LolHtml LolHtml.Model

structure Ctl where
  lastName : LocalName := .hash 0
  views : List AttrsApi.View := []     -- newest first
  tokens : List Token := []            -- newest first
  deriving Inhabited

/-- capture every start tag, nothing else -/
def flags : Flags := { nextStartTag := true }

def ctl : Controller Ctl :=
  { initialFlags := fun _ => flags
    startTag := fun c name _ => ({ c with lastName := name }, .flags flags)
    auxInfo := fun c _ => (c, .ok flags)
    endTag := fun c _ => (c, flags)
    token := fun c t =>
      match AttrsApi.viewOf Gen.Tags.cfg c.lastName t with
      | some v => ({ c with views := v :: c.views, tokens := t :: c.tokens }, { chunks := [t.raw] })
      | none => (c, { chunks := [t.raw] })
    shouldEmit := fun _ => true
    handleEnd := fun c => (c, [], none)
    bailOut := fun c _ => (c, []) }

def world : World Ctl := ⟨Gen.Syntax.table, Gen.Tags.cfg, ctl⟩

/-- a string returned by a read accessor: the hex of its (bijectively decoded) windows-1252 bytes. The accessors
decode without BOM handling (base/bytes.rs `as_string`), so the bytes are what the handler reads. -/
def showStr (b : Bytes) : String := hexOrDash b

def nsNum : Ns → Nat | .html => 0 | .svg => 1 | .mathml => 2
def b01 (b : Bool) : String := if b then "1" else "0"

def attrStr (a : Bytes × Bytes) (loc : Option (Range × Range)) : String :=
  let l := match loc with
    | some (n, v) => s!"{n.start}-{n.end}/{v.start}-{v.end}"
    | none => "N/N"
  s!"{showStr (asciiLowerBytes a.1)}~{showStr a.1}={showStr a.2}@{l}"

def queryStr (attrs : AttrsApi.AttrList) (q : Bytes) : String :=
  let g := match AttrsApi.getAttribute attrs q with
    | none => "N"
    | some v => showStr v
  s!"g{g}h{b01 (AttrsApi.hasAttribute attrs q)}"

def tokenAttrs : Token → AttrsApi.AttrList
  | .startTag _ as .. => as
  | _ => []

def hx (b : UInt8) : String := hexOrDash [b]

def editResStr : AttrsApi.EditRes → String
  | .ok => "o"
  | .attrName .empty => "eE"
  | .attrName (.forbidden c) => s!"eF{hx c}"
  | .tagName .empty => "tE"
  | .tagName .invalidFirstCharacter => "tI"
  | .tagName (.forbidden c) => s!"tF{hx c}"

def tokenName : Token → Bytes
  | .startTag n .. => n
  | _ => []

def tokenBase : Token → Nat
  | .startTag _ _ _ _ _ _ base => base
  | _ => 0

def queryStrE (items : AttrsApi.EAttrList) (q : Bytes) : String :=
  let g := match AttrsApi.getAttributeE items q with
    | none => "N"
    | some v => hexOrDash v
  s!"g{g}h{b01 (AttrsApi.hasAttributeE items q)}"

/-- the reads after the edit script -/
def afterStr (edits : List AttrsApi.Edit) (queries : List Bytes) (t : Token) : String :=
  if edits.isEmpty then "" else
  let r := AttrsApi.ETag.applyAll ⟨tokenName t, AttrsApi.materialise (tokenAttrs t)⟩ edits
  let et := r.1
  let attrs := if et.items.isEmpty then "-" else
    "+".intercalate (et.items.map fun a => attrStr (a.1, a.2.1) (AttrsApi.attrLocationsE (tokenBase t) a))
  let qs := if queries.isEmpty then "-" else ",".intercalate (queries.map (queryStrE et.items))
  s!":A:{",".intercalate (r.2.map editResStr)}:{hexOrDash (AttrsApi.tagName et.name)}:{hexOrDash et.name}:{attrs}:{qs}"

def recStr (queries : List Bytes) (v : AttrsApi.View) (t : Token) : String :=
  let as := tokenAttrs t
  let pc := as.map fun a => (a.1, a.2.1)
  let attrs := if pc.isEmpty then "-" else "+".intercalate ((pc.zip v.locations).map fun (a, l) => attrStr a l)
  let qs := if queries.isEmpty then "-" else ",".intercalate (queries.map (queryStr as))
  s!"E:{hexOrDash v.tagName}:{hexOrDash v.tagNamePreserveCase}:{nsNum v.ns}:{b01 v.selfClosing}:{b01 v.canHaveContent}:{v.src.start}-{v.src.end}:{attrs}:{qs}"

def errStr : Err → String
  | .ambiguity _ => "amb" | .handler => "hnd" | .mem => "mem" | .internal _ => "internal" | .panic _ => "panic"

/-- write every piece, then end; results as the harness prints them -/
def runPieces (rw : Rewriter Ctl) : List Bytes → Rewriter Ctl × List String
  | [] =>
    let r := rw.end world
    (r.1, [match r.2 with | .ok => "ok" | .err e => errStr e | .panicUseAfterError => "uae"])
  | p :: ps =>
    let r := rw.write world p
    match r.2 with
    | .ok => let rest := runPieces r.1 ps; (rest.1, "ok" :: rest.2)
    | .err e => (r.1, [errStr e])
    | .panicUseAfterError => (r.1, ["uae"])

/-- what `Spec.Attrs` says a handler must see for the tag at `base` of `doc` (everything except the
namespace and `can_have_content`, which are not syntactic) -/
structure SpecView where
  tagName : Bytes
  tagNamePreserveCase : Bytes
  attributes : List (Bytes × Bytes)
  selfClosing : Bool
  src : Range
  locations : List (Option (Range × Range))
  deriving DecidableEq

def specView (doc : Bytes) (base : Nat) : Option SpecView :=
  match Spec.Attrs.startTagAt doc base with
  | some (.finished t) =>
    let nm := slice doc t.name.start t.name.end
    some ⟨asciiLowerBytes nm, nm,
      t.attrs.map (fun a => (asciiLowerBytes (slice doc a.name.start a.name.end), slice doc a.value.start a.value.end)),
      t.selfClosing, ⟨base, t.stop⟩, t.attrs.map (fun a => some (a.name, a.value))⟩
  | _ => none

def ofView (v : AttrsApi.View) : SpecView :=
  ⟨v.tagName, v.tagNamePreserveCase, v.attributes, v.selfClosing, v.src, v.locations⟩

def ofHexOrDash (s : String) : Option Bytes := if s == "-" then some [] else ofHex s

def parseEdit (e : String) : Option AttrsApi.Edit :=
  match e.splitOn ":" with
  | ["s", n, v] => match ofHexOrDash n, ofHexOrDash v with
    | some n, some v => some (.set n v)
    | _, _ => none
  | ["r", n] => (ofHexOrDash n).map .remove
  | ["n", n] => (ofHexOrDash n).map .rename
  | _ => none

def runCase (ctx hex cut es qs : String) : String :=
  match (ctx, hex, cut, qs) with
  | (ctx, hex, cut, qs) =>
    let prefix? : Option Bytes := match ctx with
      | "html" => some []
      | "svg" => some [60, 115, 118, 103, 62]
      | "math" => some [60, 109, 97, 116, 104, 62]
      | _ => none
    let queries? : Option (List Bytes) := if qs == "-" then some [] else (qs.splitOn ",").mapM ofHex
    let cut? : Option (Option Nat) := if cut == "-" then some none else cut.toNat?.map some
    let edits? : Option (List AttrsApi.Edit) := if es == "-" then some [] else (es.splitOn ",").mapM parseEdit
    match prefix?, ofHex hex, cut?, queries?, edits? with
    | some pre, some tag, some cut, some queries, some edits =>
      let doc := pre ++ tag
      let pieces : List Bytes := match cut with
        | none => [doc]
        | some c => [doc.take c, doc.drop c]
      let rw : Rewriter Ctl := { stream := Stream.new world {} {} }
      let out := runPieces rw pieces
      let c := out.1.stream.disp.ctl
      let views := c.views.reverse
      let recs := (views.zip c.tokens.reverse).map fun (v, t) => recStr queries v t ++ afterStr edits queries t
      let obs := s!"{";".intercalate out.2} # {if recs.isEmpty then "-" else ";".intercalate recs}"
      -- the spec's reading of the case's own tag vs the model's (bytes after the tag's `>` may form
      -- further tags; only the case's own tag is compared)
      let nPrefix := if pre.isEmpty then 0 else 1
      let agrees := out.2.all (· == "ok") &&
        (match Spec.Attrs.startTagAt doc pre.length with
         | none => true
         | some .unfinished => views.length == nPrefix
         | some (.finished _) => decide ((views[nPrefix]?).map ofView = specView doc pre.length))
      if out.2.contains "panic" || out.2.contains "internal" then "PANIC model"
      else if agrees then obs else s!"SPEC-MISMATCH {obs}"
    | _, _, _, _, _ => "bad-case"

def run (line : String) : String :=
  match line.splitOn " " with
  | [ctx, hex, cut, qs] => runCase ctx hex cut "-" qs
  | [ctx, hex, cut, es, qs] => runCase ctx hex cut es qs
  | _ => "bad-case"

end LolHtml.Lane.Attrs
