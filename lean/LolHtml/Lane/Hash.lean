import LolHtml.Model.NameHash
import LolHtml.Model.NameHashDebug
namespace LolHtml.Lane.Hash
open LolHtml.Model

/-- Lane `hash`: name bytes (hex) ↦ `<hash> <is_empty> <Debug string>`. -/
def run (line : String) : String :=
  match ofHex line with
  | none => "bad-case"
  | some bs =>
    let h := NameHash.ofBytes bs
    let dbg := match NameHash.debugBytes h with
      | none => "N/A"
      | some b => "\"" ++ String.ofList (b.map fun (c : UInt8) => Char.ofNat c.toNat) ++ "\""
    s!"{h} {if NameHash.isEmpty h then 1 else 0} {dbg}"

end LolHtml.Lane.Hash
