import LolHtml.Lane.Echo
import LolHtml.Lane.Lex
import LolHtml.Lane.SelPure
import LolHtml.Lane.Mem
import LolHtml.Lane.MemTs
import LolHtml.Lane.Scope
import LolHtml.Lane.Hash
import LolHtml.Lane.Enc
import LolHtml.Lane.Esc
import LolHtml.Lane.CApi
import LolHtml.Lane.Sel
import LolHtml.Lane.Edit
import LolHtml.Lane.Attrs
import LolHtml.Lane.Full
import LolHtml.Lane.Tb
import LolHtml.Lane.TbSim

namespace LolHtml.Lane

/-- Registry of correspondence lanes: name ↦ one-line-in, one-line-out model runner. -/
def registry : List (String × (String → String)) :=
  [ ("echo", Echo.run),
    ("lex", Lex.run),
    ("fault", Lex.runFault),
    ("selpure", SelPure.run),
    ("mem", Mem.run),
    ("memts", MemTs.run),
    ("scope", Scope.run),
    ("hash", Hash.run),
    ("enc", Enc.run),
    ("esc", Esc.run),
    ("capi", CApi.run),
    ("sel", Sel.run),
    ("edit", Edit.run),
    ("attrs", Attrs.run),
    ("full", Full.run),
    ("tb", Tb.run),
    ("tbm", Tb.runModes),
    ("tbs", TbSim.run),
    ("tbi", TbSim.checkInv),
    ("tbn", TbSim.runN) ]

def find (name : String) : Option (String → String) :=
  (registry.find? (·.1 == name)).map (·.2)

end LolHtml.Lane
