import LolHtml.Lane.Echo
import LolHtml.Lane.Edit

namespace LolHtml.Lane

/-- Registry of correspondence lanes: name ↦ one-line-in, one-line-out model runner. -/
def registry : List (String × (String → String)) :=
  [ ("echo", Echo.run), ("edit", Edit.run) ]

def find (name : String) : Option (String → String) :=
  (registry.find? (·.1 == name)).map (·.2)

end LolHtml.Lane
