/-
Lane `capi` (model side): parse one generated script, run the C-API ledger model
(`Model.CApi.run`, policy = header as written) against the replay machine `Mini.MiniR`, print what
the C caller sees: every return value in call order, then last-error presence per thread, number of
leaked objects, drop-callback count of every streaming handler in creation order.
Case grammar: see gen/capi.py.
-/
import LolHtml.Model.CApiMiniR

namespace LolHtml.Lane.CApi
open LolHtml.Model.CApi LolHtml.Model.CApi.Mini

abbrev P := StateT (List String) Option

def tok : P String := fun s => match s with
  | [] => none
  | t :: rest => some (t, rest)

def nat : P Nat := do
  let t ← tok
  match t.toNat? with
  | some n => pure n
  | none => failure

def int : P Int := do
  let t ← tok
  match t.toInt? with
  | some n => pure n
  | none => failure

def optNat : P (Option Nat) := do
  let t ← tok
  if t == "-" then pure none else
  match t.toNat? with
  | some n => pure (some n)
  | none => failure

def flag : P Bool := do
  let t ← tok
  if t == "1" then pure true else if t == "0" then pure false else failure

def hex : P Bytes := do
  let t ← tok
  match ofHex t with
  | some b => pure b
  | none => failure

def many {α : Type} (p : P α) : Nat → P (List α)
  | 0 => pure []
  | n + 1 => do
    let a ← p
    let r ← many p n
    pure (a :: r)

def bit (c : Char) : Option Bool := if c == '1' then some true else if c == '0' then some false else none

def sarg : P SArg := do
  let t ← tok
  if t == "n" then pure .null else
  match t.splitOn ":" with
  | [fl, sc] =>
    match fl.toList, sc.toNat? with
    | [r, w, d], some n =>
      match bit r, bit w, bit d with
      | some r, some w, some d => pure (.mk r w d n)
      | _, _, _ => failure
    | _, _ => failure
  | _ => failure

def cop : P COp := do
  let t ← tok
  match t with
  | "sg" => do let d ← nat; let f ← nat; pure (.strGet d f)
  | "og" => do let d ← nat; let f ← nat; let n ← nat; let a ← many hex n; pure (.optStrGet d f a)
  | "ig" => do let f ← nat; let a ← hex; pure (.intGet f [a])
  | "fa" => do let f ← nat; let n ← nat; let a ← many hex n; pure (.fallible f a)
  | "in" => do let f ← nat; let h ← flag; let n ← nat; let a ← many hex n; pure (.infallible f a h)
  | "vo" => do let f ← nat; pure (.void f)
  | "bg" => do let f ← nat; pure (.boolGet f)
  | "rg" => do let f ← nat; pure (.rawGet f)
  | "bf" => do let f ← nat; let h ← flag; let b ← hex; pure (.bytesFallible f b h)
  | "eh" => do let h ← nat; pure (.addEndTagHandler h)
  | "ce" => pure .clearEndTagHandlers
  | "st" => do let f ← nat; let a ← sarg; pure (.streaming f a)
  | "it" => do let d ← nat; pure (.iterGet d)
  | "nx" => do let v ← nat; pure (.iterNext v)
  | "if" => do let v ← nat; pure (.iterFree v)
  | "ag" => do let d ← nat; let v ← nat; let f ← nat; pure (.attrStrGet d v f)
  | "sf" => do let v ← nat; pure (.strFree v)
  | "tl" => do let d ← nat; pure (.takeLastError d)
  | _ => failure

def hdef : P HDef := do
  let t ← tok
  if t != "H" then failure
  let stopAt ← optNat
  let ret ← int
  let n ← nat
  let ops ← many cop n
  pure ⟨ops, stopAt, ret⟩

def parseBits (s : String) : Option (List Bool) := s.toList.mapM bit

/-- `~` = absent, otherwise hex (`-` = empty) -/
def optHex (s : String) : Option (Option Bytes) :=
  if s == "~" then some none else (ofHex s).map some

def parseAttr (s : String) : Option (Bytes × Bytes) :=
  match s.splitOn ":" with
  | [n, v] =>
    match ofHex n, (if v == "" then some [] else ofHex v) with
    | some n, some v => some (n, v)
    | _, _ => none
  | _ => none

def parseDesc (s : String) : Option MiniU :=
  match s.splitOn "/" with
  | ["c", t] => (ofHex t).map fun b => { kind := .comment, text := b }
  | ["z"] => some { kind := .docEnd }
  | ["t", l] => (bit (l.toList.headD 'x')).map fun b => { kind := .text, flags := [b] }
  | ["d", n, p, sy] =>
    match optHex n, optHex p, optHex sy with
    | some n, some p, some sy => some { kind := .doctype, ids := [n, p, sy] }
    | _, _, _ => none
  | ["g", id, nm] =>
    match id.toNat?, ofHex nm with
    | some n, some nm => some { kind := .endTag, elemId := n, name := nm }
    | _, _ => none
  | ["e", id, chc, sc, attrs, nm] =>
    match id.toNat?, bit (chc.toList.headD 'x'), bit (sc.toList.headD 'x'),
      (if attrs == "" then some [] else (attrs.splitOn ",").mapM parseAttr), ofHex nm with
    | some n, some c, some s, some a, some nm =>
      some { kind := .element, elemId := n, canHaveContent := c, selfClosing := s, attrs := a, name := nm }
    | _, _, _, _, _ => none
  | _ => none

def parseUnitEv (s : String) : Option UnitEv :=
  match s.splitOn "@" with
  | [d, hs] =>
    match parseDesc d, (if hs == "" then some [] else (hs.splitOn "+").mapM (·.toNat?)) with
    | some u, some h => some ⟨u, h⟩
    | _, _ => none
  | _ => none

def events : P (List UnitEv) := do
  let t ← tok
  if t == "-" then pure [] else
  match (t.splitOn ";").mapM parseUnitEv with
  | some l => pure l
  | none => failure

def topop : P (TopOp MiniChunk) := do
  let t ← tok
  match t with
  | "BN" => do let d ← nat; pure (.builderNew d)
  | "SP" => do let d ← nat; let s ← hex; pure (.selectorParse d s)
  | "AD" => do
    let b ← nat; let dt ← optNat; let cm ← optNat; let tx ← optNat; let de ← optNat
    pure (.addDoc b ⟨dt, cm, tx, de⟩)
  | "AE" => do
    let b ← nat; let s ← nat; let el ← optNat; let cm ← optNat; let tx ← optNat
    pure (.addElem b s el cm tx)
  | "BU" => do
    let d ← nat; let b ← nat; let cls ← nat; let _ ← hex
    let pre ← nat; let mx ← nat; let gr ← flag; let st ← flag; let esi ← flag
    pure (.build d b [UInt8.ofNat cls] ⟨pre, mx, gr⟩ st esi)
  | "WR" => do
    let r ← nat; let _ ← hex; let evs ← events; let endEvs ← events
    pure (.write r ⟨evs, endEvs⟩)
  | "EN" => do let r ← nat; pure (.end_ r)
  | "RF" => do let r ← nat; pure (.rewriterFree r)
  | "BF" => do let b ← nat; pure (.builderFree b)
  | "XF" => do let s ← nat; pure (.selectorFree s)
  | "SF" => do let v ← nat; pure (.strFree v)
  | "TL" => do let d ← nat; pure (.takeLastError d)
  | _ => failure

def call : P (Call MiniChunk) := do
  let t ← nat
  let op ← topop
  pure ⟨t, op⟩

def callsN : Nat → P (List (Call MiniChunk))
  | 0 => fun s => if s.isEmpty then some ([], []) else none
  | n + 1 => fun s =>
    match s with
    | [] => some ([], [])
    | _ => match call s with
      | none => none
      | some (c, rest) => match callsN n rest with
        | none => none
        | some (cs, r) => some (c :: cs, r)

/-- every call consumes at least one token, so the number of tokens is enough fuel -/
def calls : P (List (Call MiniChunk)) := fun s => callsN s.length s

def parseCase : P (List HDef × List (Call MiniChunk)) := do
  let t ← tok
  if t != "P" then failure
  let n ← nat
  let hs ← many hdef n
  let t ← tok
  if t != "T" then failure
  let cs ← calls
  pure (hs, cs)

def showRes : CRes → String
  | .code n => toString n
  | .ptr null => if null then "p0" else "p1"
  | .strv none => "s0"                                   -- data == NULL
  | .strv (some v) => if v.isEmpty then "se" else "s1"   -- non-NULL: empty / non-empty
  | .bool b => if b then "b1" else "b0"
  | .raw => "r"
  | .void => "v"
  | .taken m => if m.isSome then "s1" else "s0"

def showFault : Fault → String
  | .useAfterFree => "use-after-free"
  | .doubleFree => "double-free"
  | .typeConfusion => "type-confusion"
  | .abort => "abort"
  | .rContract => "r-contract"
  | .rType => "r-type"
  | .fuel => "fuel"

def dropCounts (e : Env MiniR) : List Nat :=
  (List.range e.objs.length).filterMap fun h =>
    match e.objs[h]? with
    | some o =>
      match o.p with
      | .shandler _ _ => some (e.drops.count h)
      | _ => none
    | none => none

def summary (e : Env MiniR) : String :=
  let bits := String.join ([0, 1, 2].map fun t => if (e.lastErr t).isSome then "1" else "0")
  s!"| E:{bits} L:{(leaks e).length} D:{natListStr (dropCounts e)}"

def runCase (pol : Policy) (line : String) : String :=
  match parseCase ((line.splitOn " ").filter (· != "")) with
  | none => "bad-case"
  | some ((hs, cs), _) =>
    let prog : Prog := fun i => hs.getD i ⟨[], none, 0⟩
    match run (R := MiniR) pol prog (Env.init MiniR) cs with
    | .ok e => " ".intercalate (e.log.reverse.map showRes ++ [summary e])
    | .notPermitted why => s!"NOTPERMITTED {why}"
    | .fault f => s!"FAULT {showFault f}"

def run (line : String) : String := runCase .header line

end LolHtml.Lane.CApi
