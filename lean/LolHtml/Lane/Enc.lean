/-
Lane `enc` (property C13). Sub-lanes, first field of the case:
  dec <encoding> <flush|last> <start> <hex bytes> <cuts>   TextDecoder: feed_text over the pieces, flush
  tenc <encoding> <hex utf8>                               TextEncoder::encode of inserted content
  resync <hex bytes> <cuts>                                IncompleteUtf8Resync::write_utf8_chunk
  meta <script>                                            charset switch state machine
Encodings the model cannot run print `impl-only` (the Rust side checks them against whole-buffer
encoding_rs and raises an ORACLE flag itself).
-/
import LolHtml.Model.Codecs

namespace LolHtml.Lane.Enc
open LolHtml.Enc

structure LaneEnc where
  e : Encoding
  pol : Policy e.codec

def findEnc (name : String) : Option LaneEnc :=
  if name == "UTF-8" then some ⟨utf8, polUtf8⟩
  else if name == "windows-1252" then some ⟨windows1252, polSingleByte windows1252Table⟩
  else if name == "ISO-8859-7" then some ⟨iso88597, polSingleByte iso88597Table⟩
  else none

def bufferLen : Nat := 1024

def splitAtCuts (input : Bytes) (cuts : List Nat) : List Bytes :=
  let rec go (prev : Nat) : List Nat → List Bytes
    | [] => [input.drop prev]
    | c :: cs =>
      let c := max (min c input.length) prev
      slice input prev c :: go c cs
  go 0 cuts

def chunkStr (c : Chunk) : String :=
  s!"{hexOrDash (Utf8.encode c.text)}:{if c.last then 1 else 0}:{c.start}:{c.stop}"

def chunksStr (cs : List Chunk) : String :=
  if cs.isEmpty then "-" else " ".intercalate (cs.map chunkStr)

/-- all pieces non-last, then flush_pending -/
def runDecFlush (le : LaneEnc) (start : Nat) (parts : List Bytes) : String :=
  match textNode le.e le.pol bufferLen start parts with
  | some cs => chunksStr cs
  | none => "fuel"

/-- all pieces but the final one non-last, final one `last_in_text_node = true`, then flush_pending -/
def runDecLast (le : LaneEnc) (start : Nat) (parts : List Bytes) : String :=
  let init := parts.dropLast
  match feeds le.e le.pol bufferLen (TD.new le.e.codec) start init, parts.getLast? with
  | some (td, cs), some lastPart =>
    match feedText le.e le.pol bufferLen td (start + init.flatten.length) lastPart true with
    | some (td', cs') =>
      match flushPending le.e le.pol bufferLen td' with
      | some (_, cs'') => chunksStr (cs ++ cs' ++ cs'')
      | none => "fuel"
    | none => "fuel"
  | _, _ => "fuel"

def runDec (f : List String) : String :=
  match f with
  | [name, mode, start, hex, cuts] =>
    match findEnc name, start.toNat?, ofHex hex, parseNatList cuts with
    | some le, some st, some bs, some cs =>
      let parts := splitAtCuts bs cs
      if mode == "flush" then runDecFlush le st parts
      else if mode == "last" then runDecLast le st parts
      else "bad-case"
    | none, some _, some _, some _ => "impl-only"
    | _, _, _, _ => "bad-case"
  | _ => "bad-case"

def run (line : String) : String :=
  match line.splitOn " " with
  | "dec" :: f => runDec f
  | _ => "bad-case"

end LolHtml.Lane.Enc
