/-
Lane `enc` (property C13). Sub-lanes, first field of the case:
  dec <encoding> <flush|last> <start> <hex bytes> <cuts>   TextDecoder: feed_text over the pieces, flush
  tenc <encoding> <hex utf8>                               TextEncoder::encode of inserted content
  resync <hex bytes> <cuts>                                IncompleteUtf8Resync::write_utf8_chunk
  meta <script>                                            charset switch state machine
Encodings the model cannot run print `impl-only` (the Rust side checks them against whole-buffer
encoding_rs and raises an ORACLE flag itself).
-/
import LolHtml.Model.Codecs
import LolHtml.Model.TextEncoder
import LolHtml.Model.Meta

namespace LolHtml.Lane.Enc
open LolHtml.Enc

structure LaneEnc where
  e : Encoding
  pol : Policy e.codec

def findEnc (name : String) : Option LaneEnc :=
  if name == "UTF-8" then some ⟨utf8, polUtf8⟩
  else if name == "windows-1252" then some ⟨windows1252, polSingleByte windows1252Table⟩
  else if name == "ISO-8859-7" then some ⟨iso88597, polSingleByte iso88597Table⟩
  else none

def bufferLen : Nat := 1024

def splitAtCuts (input : Bytes) (cuts : List Nat) : List Bytes :=
  let rec go (prev : Nat) : List Nat → List Bytes
    | [] => [input.drop prev]
    | c :: cs =>
      let c := max (min c input.length) prev
      slice input prev c :: go c cs
  go 0 cuts

def chunkStr (c : Chunk) : String :=
  s!"{hexOrDash (Utf8.encode c.text)}:{if c.last then 1 else 0}:{c.start}:{c.stop}"

def chunksStr (cs : List Chunk) : String :=
  if cs.isEmpty then "-" else " ".intercalate (cs.map chunkStr)

/-- all pieces non-last, then flush_pending -/
def runDecFlush (le : LaneEnc) (start : Nat) (parts : List Bytes) : String :=
  match textNode le.e le.pol bufferLen start parts with
  | some cs => chunksStr cs
  | none => "fuel"

/-- all pieces but the final one non-last, final one `last_in_text_node = true`, then flush_pending -/
def runDecLast (le : LaneEnc) (start : Nat) (parts : List Bytes) : String :=
  let init := parts.dropLast
  match feeds le.e le.pol bufferLen (TD.new le.e.codec) start init, parts.getLast? with
  | some (td, cs), some lastPart =>
    match feedText le.e le.pol bufferLen td (start + init.flatten.length) lastPart true with
    | some (td', cs') =>
      match flushPending le.e le.pol bufferLen td' with
      | some (_, cs'') => chunksStr (cs ++ cs' ++ cs'')
      | none => "fuel"
    | none => "fuel"
  | _, _ => "fuel"

def runDec (f : List String) : String :=
  match f with
  | [name, mode, start, hex, cuts] =>
    match findEnc name, start.toNat?, ofHex hex, parseNatList cuts with
    | some le, some st, some bs, some cs =>
      let parts := splitAtCuts bs cs
      if mode == "flush" then runDecFlush le st parts
      else if mode == "last" then runDecLast le st parts
      else "bad-case"
    | none, some _, some _, some _ => "impl-only"
    | _, _, _, _ => "bad-case"
  | _ => "bad-case"

/-! ### tenc -/

def piecesOf (s : String) : Option (List Bytes) := (s.splitOn ",").mapM ofHex

/-- what `StreamingHandlerSinkInner::write_html` (streaming_sink.rs:95-103) sends to the sink for one
string: through `TextEncoder::encode` unless the document is UTF-8 -/
def writeHtml (le : LaneEnc) (heap : Bool) (s : List Char) : Option (Bool × Bytes) :=
  if s.isEmpty then some (heap, [])
  else if le.e.utf8 then some (heap, Utf8.encode s)
  else
    match encode le.e.codec EncPolicy.greedy BufCfg.real heap s with
    | some o => if o.dropped.isEmpty then some (o.heap, o.calls.flatten) else none
    | none => none

def runTenc (f : List String) : String :=
  match f with
  | [name, pieces] =>
    match findEnc name, piecesOf pieces with
    | some le, some ps =>
      match ps.mapM Utf8.decodeValid with
      | none => "bad-case"
      | some strs =>
        let rec go (heap : Bool) : List (List Char) → Option Bytes
          | [] => some []
          | s :: rest =>
            match writeHtml le heap s with
            | none => none
            | some (h, b) =>
              match go h rest with
              | none => none
              | some bs => some (b ++ bs)
        match go false strs with
        | some out => hexOrDash out
        | none => "dropped"
    | none, some _ => "impl-only"
    | _, _ => "bad-case"
  | _ => "bad-case"

/-! ### resync -/

def runResync (f : List String) : String :=
  match f with
  | [hex, cuts] =>
    match ofHex hex, parseNatList cuts with
    | some bs, some cs =>
      let parts := splitAtCuts bs cs
      -- the failing piece index, as the Rust side reports it
      let rec go (st : Resync) (i : Nat) : List Bytes → Option (String × List Bytes)
        | [] =>
          -- `write_str("")`: discard_incomplete → U+FFFD (streaming_sink.rs:52-58)
          let (_, pending) := discardIncomplete st
          some ("ok", if pending then [[0xEF, 0xBF, 0xBD]] else [])
        | p :: ps =>
          match writeUtf8Chunk st p with
          | none => none
          | some r =>
            match r.res with
            | .error _ => some (s!"err@{i}", r.flushed)
            | .ok st1 =>
              match go st1 (i + 1) ps with
              | none => none
              | some (status, fl) => some (status, r.flushed ++ fl)
      match go Resync.new 0 parts with
      | none => "fuel"
      | some (status, fl) =>
        let frags := if fl.isEmpty then "-" else ",".intercalate (fl.map hexOrDash)
        s!"{status} {frags}"
    | _, _ => "bad-case"
  | _ => "bad-case"

/-! ### meta -/

open MetaCharset in
/-- label → encoding name, for the labels the generator uses (`Encoding::for_label_no_replacement` +
`AsciiCompatibleEncoding::new`); anything else (unknown, UTF-16, ISO-2022-JP, replacement) is refused. -/
def resolveLabel (l : String) : Option String :=
  let l := l.toLower
  if l == "utf-8" || l == "utf8" then some "UTF-8"
  else if l == "windows-1252" || l == "latin1" || l == "iso-8859-1" || l == "ascii" then some "windows-1252"
  else if l == "iso-8859-7" || l == "greek" then some "ISO-8859-7"
  else none

inductive ScriptTok
  | metaTag (raw : Bytes) (cs : Option String)
  | b
  | text (raw : Bytes)

def parseScriptTok (t : String) : Option ScriptTok :=
  if t.startsWith "M:" then
    let l := (t.drop 2).toString
    some (.metaTag (strBytes s!"<meta charset=\"{l}\">") (resolveLabel l))
  else if t.startsWith "H:" then
    let l := (t.drop 2).toString
    some (.metaTag (strBytes s!"<meta http-equiv=\"Content-Type\" content=\"text/html; charset={l}\">")
      (resolveLabel l))
  else if t == "B" then some .b
  else if t.startsWith "T:" then (ofHex (t.drop 2).toString).map .text
  else none

/-- bytes the sink gets for a token handled in encoding `name`, and the decoded text a text handler sees -/
def renderTok (name : String) (t : ScriptTok) : Option (Bytes × Option (Bytes × Bytes)) :=
  match findEnc name with
  | none => none
  | some le =>
    match t with
    | .metaTag raw _ => some (raw, none)
    | .b =>
      match writeHtml le false [Char.ofNat 0xE9, Char.ofNat 0x20AC] with
      | some (_, bs) => some (bs ++ strBytes "<b>", none)
      | none => none
    | .text raw =>
      -- decoded by the text decoder, re-encoded by `TextChunk::serialize_self` (text_chunk.rs:332-337)
      -- the final chunk (what `flush_pending` still gets out of the decoder) is serialised after the
      -- handler has seen `last_in_text_node`
      let (st, txt) := le.e.codec.run le.e.codec.init raw
      let fl := le.e.codec.decFlush st
      match writeHtml le false txt, writeHtml le false fl with
      | some (_, bs), some (_, bs') => some (bs, some (Utf8.encode (txt ++ fl), bs'))
      | _, _ => none

open MetaCharset in
def runMeta (f : List String) : String :=
  match f with
  | [name, adjust, script, _cuts] =>
    match (script.splitOn ",").mapM parseScriptTok with
    | none => "bad-case"
    | some toks =>
      if (findEnc name).isNone then "impl-only" else
      let mtoks : List (Tok String) := toks.map fun
        | .metaTag _ cs => Tok.metaTag cs
        | .b => Tok.tag
        | .text _ => Tok.text
      let evs := run (adjust == "1") name mtoks
      -- render: merge bytes between notifications; a text token first shows its decoded text
      let rec go (cur : Bytes) : List (Ev String) → Option (List String)
        | [] => some (if cur.isEmpty then [] else [s!"B:{toHex cur}"])
        | .setEncoding e :: rest =>
          match go [] rest with
          | none => none
          | some l => some ((if cur.isEmpty then [] else [s!"B:{toHex cur}"]) ++ s!"S:{e}" :: l)
        | .token i e :: rest =>
          match toks[i]? with
          | none => none
          | some t =>
            match renderTok e t with
            | none => none
            | some (bs, none) => go (cur ++ bs) rest
            | some (bs, some (txt, after)) =>
              -- Rust side: bytes so far (incl. this text's own bytes), then the text event
              match go after rest with
              | none => none
              | some l =>
                let cur' := cur ++ bs
                some ((if cur'.isEmpty then [] else [s!"B:{toHex cur'}"]) ++ s!"T:{hexOrDash txt}" :: l)
      match go [] evs with
      | some l => " ".intercalate l
      | none => "render-fail"
  | _ => "bad-case"

/-! ### compat: refusal of non-ASCII-compatible encodings at configuration time
(`AsciiCompatibleEncoding::new`, rewriter/mod.rs:29-33: UTF-16LE, UTF-16BE, ISO-2022-JP and `replacement`
are refused; `for_label_no_replacement` does not even resolve `replacement`) -/

def compatTable : List (String × String × Bool) :=
  [("utf-8", "UTF-8", true), ("windows-1252", "windows-1252", true), ("iso-8859-7", "ISO-8859-7", true),
   ("gbk", "GBK", true), ("shift_jis", "Shift_JIS", true), ("big5", "Big5", true), ("euc-jp", "EUC-JP", true),
   ("euc-kr", "EUC-KR", true), ("gb18030", "gb18030", true), ("koi8-r", "KOI8-R", true),
   ("x-user-defined", "x-user-defined", true), ("macintosh", "macintosh", true),
   ("utf-16le", "UTF-16LE", false), ("utf-16be", "UTF-16BE", false), ("utf-16", "UTF-16LE", false),
   ("iso-2022-jp", "ISO-2022-JP", false), ("csiso2022jp", "ISO-2022-JP", false),
   ("unicode", "UTF-16LE", false), ("ucs-2", "UTF-16LE", false)]

def runCompat (f : List String) : String :=
  match f with
  | [label] =>
    match compatTable.find? (·.1 == label) with
    | some (_, name, ok) => s!"{name} {if ok then "accepted" else "refused"}"
    | none => "unknown"
  | _ => "bad-case"

def run (line : String) : String :=
  match line.splitOn " " with
  | "dec" :: f => runDec f
  | "tenc" :: f => runTenc f
  | "resync" :: f => runResync f
  | "meta" :: f => runMeta f
  | "loc" :: _ => "impl-only"
  | "compat" :: f => runCompat f
  | _ => "bad-case"

end LolHtml.Lane.Enc
