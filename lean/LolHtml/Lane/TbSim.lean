import LolHtml.Lane.Tb
import LolHtml.Model.TreeSimRun
import LolHtml.Gen.Tags
/-!
Lane `tbs` (Lean only, exploration and evidence for the C03 tree-builder theorems): runs the lol-html
tree-builder simulator (`Sim.stepTag`, generated tag lists) and `Spec.TreeBuilder` (`Dev.std`) over the
same token sequence, the tokenizer following the *simulator's* feedback (as the real lexer does), and
reports the first token at which they disagree about

* `switch` — the tokenizer switch (text type) of a start tag,
* `cdata`  — whether `<![CDATA[` opens a CDATA section after the token,
* `ns`     — the namespace that governs the next start tag (HTML for HTML elements and integration points).

case format: as lane `tb`, cfg `s1|s0` followed by `strict|nonstrict` as 2nd word.
output: `<current-select result> | <legacy-select result>`, each `ok n=<tags>` | `amb@k <name>` |
`div@k <kind> sim=… spec=… tok=…`.
-/
namespace LolHtml.Lane.TbSim
open LolHtml LolHtml.Model LolHtml.Spec.TreeBuilder LolHtml.Lane.Tb

def attrBytes (a : Attrs) : List (Bytes × Bytes) :=
  (match a.enc with
    | .absent => []
    | .textHtml => [("encoding".toUTF8.toList, "text/html".toUTF8.toList)]
    | .appXhtml => [("encoding".toUTF8.toList, "application/xhtml+xml".toUTF8.toList)]
    | .otherValue => [("encoding".toUTF8.toList, "text/plain".toUTF8.toList)]) ++
  (match a.font with
    | .absent => []
    | .color => [("color".toUTF8.toList, "red".toUTF8.toList)]
    | .face => [("face".toUTF8.toList, "x".toUTF8.toList)]
    | .size => [("size".toUTF8.toList, "1".toUTF8.toList)]
    | .otherAttr => [("id".toUTF8.toList, "x".toUTF8.toList)]) ++
  (match a.typ with
    | .absent => []
    | .hidden => [("type".toUTF8.toList, "hidden".toUTF8.toList)]
    | .otherValue => [("type".toUTF8.toList, "text".toUTF8.toList)])

def tagEvent : Token → Option TagEvent
  | .start n sc a =>
    let b := (nameToString n).toUTF8.toList
    some ⟨NameHash.ofBytes b, ⟨true, b, attrBytes a, sc⟩⟩
  | .end n =>
    let b := (nameToString n).toUTF8.toList
    some ⟨NameHash.ofBytes b, ⟨false, b, [], false⟩⟩
  | _ => none

def switchOfFeedback : Feedback → Switch
  | .switchTextType .rcData => .rcdata
  | .switchTextType .rawText => .rawtext
  | .switchTextType .scriptData => .scriptData
  | .switchTextType .plainText => .plaintext
  | _ => .none

def showNs : Ns → String | .html => "html" | .svg => "svg" | .mathml => "mathml"

/-- one comparison run -/
def compare (c : Cfg) (strict : Bool) (ts : List Token) (checkCdata : Bool := true) : String :=
  let cfg := Gen.Tags.cfg
  let rec go (fuel : Nat) (k : Nat) (tags : Nat) (sim : Sim) (simCdata : Bool) (s : State) (tk : TkState) : List Token → String
    | [] => s!"ok n={tags}"
    | t :: ts =>
      match fuel with
      | 0 => "fuel"
      | fuel + 1 =>
      if !passes tk t then go fuel (k + 1) tags sim simCdata s tk ts
      else
        let o := step c s t
        match tagEvent t with
        | none =>
          if o.impossible || o.outOfFuel then s!"spec-stuck@{k}" else go fuel (k + 1) tags sim simCdata o.st tk ts
        | some ev =>
          match sim.stepTag cfg ev with
          | .error (.ambiguity _) => s!"amb@{k} {nameToString (match t with | .start n .. => n | .end n => n | _ => .html)}"
          | .error _ => s!"sim-panic@{k}"
          | .ok (sim', fb) =>
            let simSw := switchOfFeedback fb
            let simCdata' := match fb with | .setAllowCdata b => b | _ => simCdata
            if o.impossible || o.outOfFuel then s!"spec-stuck@{k}"
            else if simSw != o.sw then
              s!"div@{k} switch sim={showSwitch simSw} spec={showSwitch o.sw} mode={showMode s.mode} stack={showStack s}"
            else if checkCdata && simCdata' != o.st.cdataAllowed then
              s!"div@{k} cdata sim={simCdata'} spec={o.st.cdataAllowed} stack={showStack o.st}"
            else if sim'.currentNs != o.st.startTagNs then
              s!"div@{k} ns sim={showNs sim'.currentNs} spec={showNs o.st.startTagNs} stack={showStack o.st}"
            else go fuel (k + 1) (tags + 1) sim' simCdata' o.st (nextTk tk t simSw) ts
  go (ts.length + 1) 0 0 (Sim.new strict) false .init .data ts

def run (line : String) : String :=
  match (line.splitOn " ").filter (· ≠ "") with
  | cfg :: mode :: toks =>
    match parseCase (" ".intercalate (cfg :: toks)) with
    | some (sc, ts) =>
      let strict := mode == "strict"
      s!"{compare { scripting := sc } strict ts} | {compare { scripting := sc, legacySelect := true } strict ts}"
    | none => "bad-case"
  | _ => "bad-case"

/-- lane `tbn` (Lean only): as `tbs` for the current `select` parsing, without the CDATA comparison (F28 shows in
every integration point): tokenizer switch and start-tag namespace only -/
def runN (line : String) : String :=
  match (line.splitOn " ").filter (· ≠ "") with
  | cfg :: mode :: toks =>
    match parseCase (" ".intercalate (cfg :: toks)) with
    | some (sc, ts) => compare { scripting := sc } (mode == "strict") ts false
    | none => "bad-case"
  | _ => "bad-case"

end LolHtml.Lane.TbSim

namespace LolHtml.Lane.TbSim
open LolHtml LolHtml.Model LolHtml.Spec.TreeBuilder LolHtml.Lane.Tb

/-- lane `tbi` (Lean only): empirical check of structural invariants on template-free cases -/
def checkInv (line : String) : String :=
  match parseCase line with
  | none => "bad-case"
  | some (sc, ts) =>
    if ts.any (fun t => match t with | .start .template _ _ => true | _ => false) then "skip"
    else
      let c : Cfg := { scripting := sc }
      let pre : List Mode := [.initial, .beforeHtml, .beforeHead, .inHead, .inHeadNoscript, .afterHead]
      let fr : List Mode := [.inFrameset, .afterFrameset, .afterAfterFrameset]
      let rec go (fuel : Nat) (k : Nat) (s : State) (tk : TkState) : List Token → String
        | [] => "ok"
        | t :: ts =>
          match fuel with
          | 0 => "fuel"
          | fuel + 1 =>
          if !passes tk t then go fuel (k + 1) s tk ts
          else
            let o := step c s t
            let s' := o.st
            let m := if s'.mode == .text || s'.mode == .inTableText then s'.origMode else s'.mode
            let bad :=
              if pre.contains m || fr.contains m then none
              else
                let r := s'.stack.reverse
                let bodyOk := (r.getD 0 default).isHtml .html && (r.getD 1 default).isHtml .body
                let st := if s'.mode == .text then s'.stack.tail else s'.stack
                let rm := resetLoop c [] s'.headPtr.isNone st
                let modeOk := rm == m || (rm == .inBody && (m == .afterBody || m == .afterAfterBody))
                if !bodyOk then some "body" else if !modeOk then some s!"mode {showMode m} reset {showMode rm}" else none
            match bad with
            | some b => s!"viol@{k} {b} stack={showStack s'}"
            | none => go fuel (k + 1) s' (nextTk tk t o.sw) ts
      go (ts.length + 1) 0 .init .data ts

end LolHtml.Lane.TbSim
