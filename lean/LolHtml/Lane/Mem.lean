/-
Lane `mem` (property C10): case = `M prealloc itemSizeSel op,op,…`
  ops: `a<n>` append n bytes · `i<n>` init_with n bytes · `s<k>` shift k · `p<c>` c pushes (`p` = 1)
       · `d<k>` drain(k..)         (`-` = no ops)
  byte j of the slice of the op with (expanded) index i is `(37 i + 11 j + 1) mod 256`.
Observation:
  `isz=<itemSize> init=ok:<usage> <res>:<usage>:<arena len>:<vec len> … | <arena len> <first ≤8 bytes> <last ≤8 bytes> <byte sum mod 65521>`
  a run stops at `PANIC-<site>`.
The model side runs `MemSys.init` / `MemSys.run`, the functions the C10 theorems are about.
-/
import LolHtml.Model.Memory

namespace LolHtml.Lane.Mem
open LolHtml.Model.Memory

def itemSizeOfSel : Nat → Option Nat
  | 0 => some 1
  | 1 => some 8
  | 2 => some 7
  | 3 => some 24
  | 4 => some 512
  | _ => none

def content (i n : Nat) : Bytes :=
  (List.range n).map fun j => UInt8.ofNat ((37 * i + 11 * j + 1) % 256)

/-- Parse one op token into (kind, argument). -/
def parseTok (t : String) : Option (Char × Nat) :=
  match t.toList with
  | [] => none
  | [c] => if c == 'p' then some (c, 1) else none
  | c :: rest => (String.ofList rest).toNat?.map fun n => (c, n)

/-- Expand the token list into model ops (content depends on the expanded index). -/
def expand : List (Char × Nat) → Nat → Option (List Op)
  | [], _ => some []
  | (c, n) :: rest, i =>
    if c == 'a' then (expand rest (i + 1)).map (Op.append (content i n) :: ·)
    else if c == 'i' then (expand rest (i + 1)).map (Op.initWith (content i n) :: ·)
    else if c == 's' then (expand rest (i + 1)).map (Op.shift n :: ·)
    else if c == 'd' then (expand rest (i + 1)).map (Op.drainTo n :: ·)
    else if c == 'p' then (expand rest (i + n)).map (List.replicate n Op.push ++ ·)
    else none

def panicTag : Panic → String
  | .shiftRange => "PANIC-shift"
  | .drainRange => "PANIC-drain"
  | .usageOverflow => "PANIC-usage-overflow"
  | .arithOverflow => "PANIC-arith-overflow"
  | .capAssert => "PANIC-cap-assert"

def showStep : Res × MemSys → String
  | (.ok, s) => s!"ok:{s.lim.usage}:{s.arena.len}:{s.vec.len}"
  | (.err _, s) => s!"err:{s.lim.usage}:{s.arena.len}:{s.vec.len}"
  | (.panic p, _) => panicTag p

def byteSum (bs : Bytes) : Nat := (bs.foldl (fun acc b => acc + b.toNat) 0) % 65521

def showArena (a : Arena) : String :=
  let d := a.data
  s!"{d.length} {hexOrDash (d.take 8)} {hexOrDash (d.drop (d.length - min 8 d.length))} {byteSum d}"

def run (line : String) : String :=
  match (line.splitOn " ").filter (· ≠ "") with
  | [m, p, sel, opsS] =>
    match m.toNat?, p.toNat?, sel.toNat?.bind itemSizeOfSel with
    | some M, some prealloc, some isz =>
      let toks := if opsS == "-" then some [] else (opsS.splitOn ",").mapM parseTok
      match toks.bind (expand · 0) with
      | none => "bad-case"
      | some ops =>
        match MemSys.init M prealloc isz with
        | .panic pn => s!"isz={isz} {panicTag pn}"
        | .err _ _ => s!"isz={isz} init=err"
        | .ok s0 =>
          let trace := s0.run ops
          let steps := trace.map showStep
          let fin := s0.final ops
          let head := s!"isz={isz} init=ok:{s0.lim.usage}"
          " ".intercalate (head :: steps) ++ " | " ++ showArena fin.arena
    | _, _, _ => "bad-case"
  | _ => "bad-case"

end LolHtml.Lane.Mem
