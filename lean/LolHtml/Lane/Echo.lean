import LolHtml.Basic
namespace LolHtml.Lane.Echo
/-- Self-test lane: hex round trip. -/
def run (line : String) : String :=
  match ofHex line with
  | some bs => s!"{bs.length} {hexOrDash bs}"
  | none => "bad-case"
end LolHtml.Lane.Echo
