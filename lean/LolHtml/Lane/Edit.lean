/-
Lane `edit` (property C07): one case = token list + cut positions + handler scripts; the observation
is the sink bytes, the number of invocations of every handler, and the bytes the *documented* edit
would give (model side: `Spec.EditDoc.rewrite`; implementation side: the harness's reference editor),
and two flags: `cleanRun` and `tidyRun` (the hypotheses of the whole-document statement / theorem).

Case syntax (three blank-separated fields, every byte string lower-case hex, `-` = empty):
  tokens   `;`-separated (or `-`):  T:<raw> | S:<raw>:<name>:<selfclosing 0/1>:<ns 0=html 1=foreign>:<attrs>
                                   | E:<raw>:<name> | C:<raw>:<text> | D:<raw>
           attrs = `-` or `,`-separated  <name>/<value>/<raw>
  cuts     `,`-separated absolute offsets (or `-`)
  handlers `;`-separated (or `-`):  <kind>:<selector hex or - for a document handler>:<scripts>
           kind e=element c=comment t=text d=doctype z=end;  scripts = `|`-separated, invocation k runs
           script k mod n;  script = `,`-separated ops (or `-`);  op = `.`-separated fields:
             content ops  bf af rp (all kinds) pp ap si (element), argument = content
             rm  rk  tn.<name>  sn.<name>  sa.<name>.<value>  ra.<name>  sx.<text>  ss.<text>
             st.<start-tag op, fields joined by ~>   oe.<end-tag ops joined by +, fields by ~ (or -)>
           content = h<hex> (html) | t<hex> (text) | s<w>_<w>… (streaming handler, w = h<hex> | t<hex>)
-/
import LolHtml.Model.EditDoc
import LolHtml.Spec.EditDoc

namespace LolHtml.Lane.Edit
open LolHtml LolHtml.EditModel

def pBytes (s : String) : Option Bytes := ofHex s

def pWrite (s : String) : Option (Bytes × ContentType) :=
  match s.toList with
  | 'h' :: rest => (ofHex (String.ofList rest)).map (·, ContentType.html)
  | 't' :: rest => (ofHex (String.ofList rest)).map (·, ContentType.text)
  | _ => none

def pContent (s : String) : Option StringChunk :=
  match s.toList with
  | 's' :: rest =>
    if rest.isEmpty then some (.stream [])
    else ((String.ofList rest).splitOn "_").mapM pWrite |>.map .stream
  | _ => (pWrite s).map fun w => .buffer w.1 w.2

def pMutOp (f : List String) : Option MutOp :=
  match f with
  | ["bf", c] => (pContent c).map .before
  | ["af", c] => (pContent c).map .after
  | ["rp", c] => (pContent c).map .replace
  | ["rm"] => some .remove
  | _ => none

def pStartTagOp (f : List String) : Option StartTagOp :=
  match f with
  | ["sn", n] => (pBytes n).map .setName
  | ["sa", n, v] => do some (.setAttribute (← pBytes n) (← pBytes v))
  | ["ra", n] => (pBytes n).map .removeAttribute
  | _ => (pMutOp f).map .mut

def pEndTagOp (f : List String) : Option EndTagOp :=
  match f with
  | ["sn", n] => (pBytes n).map .setName
  | _ => (pMutOp f).map .mut

def pCommentOp (f : List String) : Option CommentOp :=
  match f with
  | ["sx", n] => (pBytes n).map .setText
  | _ => (pMutOp f).map .mut

def pTextOp (f : List String) : Option TextOp :=
  match f with
  | ["ss", n] => (pBytes n).map .setStr
  | _ => (pMutOp f).map .mut

def pDoctypeOp (f : List String) : Option DoctypeOp :=
  match f with
  | ["rm"] => some .remove
  | _ => none

def pEndOp (f : List String) : Option (Bytes × ContentType) :=
  match f with
  | ["ap", c] => pWrite c
  | _ => none

def pElementOp (f : List String) : Option ElementOp :=
  match f with
  | ["bf", c] => (pContent c).map .before
  | ["af", c] => (pContent c).map .after
  | ["pp", c] => (pContent c).map .prepend
  | ["ap", c] => (pContent c).map .append
  | ["si", c] => (pContent c).map .setInnerContent
  | ["rp", c] => (pContent c).map .replace
  | ["rm"] => some .remove
  | ["rk"] => some .removeAndKeepContent
  | ["tn", n] => (pBytes n).map .setTagName
  | ["sa", n, v] => do some (.setAttribute (← pBytes n) (← pBytes v))
  | ["ra", n] => (pBytes n).map .removeAttribute
  | ["st", o] => (pStartTagOp (o.splitOn "~")).map .startTag
  | ["oe", o] =>
    if o == "-" then some (.onEndTag [])
    else ((o.splitOn "+").mapM fun x => pEndTagOp (x.splitOn "~")).map .onEndTag
  | _ => none

def pScript {α : Type} (pOp : List String → Option α) (s : String) : Option (List α) :=
  if s == "-" then some [] else (s.splitOn ",").mapM fun o => pOp (o.splitOn ".")

/-- Invocation `k` runs script `k mod n`. -/
def cyc {α : Type} (l : List (List α)) (k : Nat) : List α :=
  match l[k % l.length]? with
  | some x => x
  | none => []

def pScripts {α : Type} (pOp : List String → Option α) (s : String) : Option (Nat → List α) :=
  ((s.splitOn "|").mapM (pScript pOp)).map cyc

def pSel (s : String) : Option (Option Sel) :=
  if s == "-" then some none
  else match ofHex s with
    | some [42] => some (some .any)
    | some n => some (some (.type n))
    | none => none

def pHandler (s : String) : Option Handler :=
  match s.splitOn ":" with
  | [k, sel, scripts] => do
    let sel ← pSel sel
    let script ← match k with
      | "e" => (pScripts pElementOp scripts).map Script.element
      | "c" => (pScripts pCommentOp scripts).map Script.comment
      | "t" => (pScripts pTextOp scripts).map Script.text
      | "d" => (pScripts pDoctypeOp scripts).map Script.doctype
      | "z" => (pScripts pEndOp scripts).map Script.docEnd
      | _ => none
    some { sel := sel, script := script }
  | _ => none

def pAttr (s : String) : Option Attribute :=
  match s.splitOn "/" with
  | [n, v, r] => do some { name := ← pBytes n, value := ← pBytes v, raw := some (← pBytes r) }
  | _ => none

def pToken (s : String) : Option SrcToken :=
  match s.splitOn ":" with
  | ["T", r] => (pBytes r).map .text
  | ["S", r, n, sc, ns, attrs] => do
    let attrs ← if attrs == "-" then some [] else (attrs.splitOn ",").mapM pAttr
    some (.startTag (← pBytes n) attrs (sc == "1") (if ns == "1" then .foreign else .html) (← pBytes r))
  | ["E", r, n] => do some (.endTag (← pBytes n) (← pBytes r))
  | ["C", r, t] => do some (.comment (← pBytes t) (← pBytes r))
  | ["D", r] => (pBytes r).map .doctype
  | _ => none

/-- Pieces of a text lexeme that starts at absolute offset `off`: the lexer emits the text seen so
far at the end of every input chunk, i.e. at every cut strictly inside the lexeme. -/
def splitText (off : Nat) (raw : Bytes) (cuts : List Nat) : List Bytes :=
  let inside := (cuts.filter fun c => off < c && c < off + raw.length).eraseDups
  let rec go (pos : Nat) (rest : Bytes) : List Nat → List Bytes
    | [] => [rest]
    | c :: cs => if c > pos && c - pos < rest.length
                 then rest.take (c - pos) :: go c (rest.drop (c - pos)) cs
                 else go pos rest cs
  go off raw inside

def splitTokens (cuts : List Nat) : Nat → List SrcToken → List SrcToken
  | _, [] => []
  | off, .text raw :: ts =>
    (splitText off raw cuts).map .text ++ splitTokens cuts (off + raw.length) ts
  | off, t :: ts => t :: splitTokens cuts (off + t.raw.length) ts

def insertSorted (c : Nat) : List Nat → List Nat
  | [] => [c]
  | x :: xs => if c ≤ x then c :: x :: xs else x :: insertSorted c xs

def run (line : String) : String :=
  match (line.splitOn " ").filter (· ≠ "") with
  | [toks, cuts, hs] =>
    let r : Option String := do
      let toks ← if toks == "-" then some [] else (toks.splitOn ";").mapM pToken
      let cuts ← parseNatList cuts
      let hs ← if hs == "-" then some [] else (hs.splitOn ";").mapM pHandler
      -- dispatcher registration order: selector handlers, then document handlers
      let H := hs.filter (·.sel.isSome) ++ hs.filter (·.sel.isNone)
      let sorted := cuts.foldr insertSorted []
      let stream := splitTokens sorted 0 toks
      let res := rewrite H encUtf8 stream
      -- third field: the document-level specification (`Spec.EditDoc.rewrite`), compared with the
      -- harness's independent reference editor
      let spec := Spec.EditDoc.rewrite H encUtf8 stream
      if res.1.fault || res.1.faultRemoved then some "PANIC model-fault"
      else some s!"{hexOrDash res.2} {natListStr ((List.range H.length).map res.1.inv)} {hexOrDash spec} {if Spec.EditDoc.cleanRun H encUtf8 {} stream then 1 else 0}{if Spec.EditDoc.tidyRun H encUtf8 {} stream then 1 else 0}"
    r.getD "bad-case"
  | _ => "bad-case"

end LolHtml.Lane.Edit
