import LolHtml.Spec.TreeBuilder.Coupling
/-!
Lane `tb` (spec ⇄ html5ever 0.39 tree builder). Case / observation format: see harness/src/lanes/tb.rs.
`run` uses `Dev.h5` (the documented html5ever deviations); `runModes` (lane `tbm`, Lean only) prints the
insertion mode before every token, for the generator's statistics, and compares the runs with
`Dev.std`, with the legacy `select` text and with the standard text.
-/
namespace LolHtml.Lane.Tb
open LolHtml LolHtml.Model LolHtml.Spec.TreeBuilder

def nameTable : List (String × Name) :=
  [("html", .html), ("head", .head), ("body", .body), ("title", .title), ("base", .base),
   ("basefont", .basefont), ("bgsound", .bgsound), ("link", .link), ("meta", .«meta»), ("style", .style),
   ("script", .script), ("noscript", .noscript), ("template", .template), ("frameset", .frameset),
   ("frame", .frame), ("noframes", .noframes), ("table", .table), ("caption", .caption),
   ("colgroup", .colgroup), ("col", .col), ("tbody", .tbody), ("thead", .thead), ("tfoot", .tfoot),
   ("tr", .tr), ("td", .td), ("th", .th), ("select", .select), ("option", .option),
   ("optgroup", .optgroup), ("input", .input), ("keygen", .keygen), ("textarea", .textarea), ("hr", .hr),
   ("xmp", .xmp), ("iframe", .iframe), ("noembed", .noembed), ("plaintext", .plaintext), ("p", .p),
   ("li", .li), ("dd", .dd), ("dt", .dt), ("h1", .h1), ("h2", .h2), ("h3", .h3), ("h4", .h4), ("h5", .h5),
   ("h6", .h6), ("address", .address), ("article", .article), ("aside", .aside),
   ("blockquote", .blockquote), ("center", .center), ("details", .details), ("dialog", .dialog),
   ("dir", .dir), ("div", .div), ("dl", .dl), ("fieldset", .fieldset), ("figcaption", .figcaption),
   ("figure", .figure), ("footer", .footer), ("header", .header), ("hgroup", .hgroup), ("main", .main),
   ("menu", .menu), ("nav", .nav), ("ol", .ol), ("pre", .pre), ("listing", .listing), ("search", .search),
   ("section", .«section»), ("summary", .summary), ("ul", .ul), ("form", .form), ("button", .button),
   ("a", .a), ("b", .b), ("big", .big), ("code", .code), ("em", .em), ("font", .font), ("i", .i), ("s", .s),
   ("small", .small), ("strike", .strike), ("strong", .strong), ("tt", .tt), ("u", .u), ("nobr", .nobr),
   ("applet", .applet), ("marquee", .marquee), ("object", .object), ("area", .area), ("br", .br),
   ("embed", .embed), ("img", .img), ("wbr", .wbr), ("param", .param), ("source", .source),
   ("track", .track), ("image", .image), ("rb", .rb), ("rtc", .rtc), ("rp", .rp), ("rt", .rt),
   ("ruby", .ruby), ("math", .math), ("svg", .svg), ("mi", .mi), ("mo", .mo), ("mn", .mn), ("ms", .ms),
   ("mtext", .mtext), ("annotation-xml", .annotationXml), ("mglyph", .mglyph),
   ("malignmark", .malignmark), ("foreignobject", .foreignobject), ("desc", .desc), ("span", .span),
   ("sub", .sub), ("sup", .sup), ("var", .var)]

def encodeOther (s : String) : Nat := s.foldl (fun acc ch => acc * 256 + ch.toNat) 0

def decodeOther (n : Nat) : String :=
  let rec go (fuel : Nat) (n : Nat) (acc : List Char) : List Char :=
    match fuel with
    | 0 => acc
    | f + 1 => if n == 0 then acc else go f (n / 256) (Char.ofNat (n % 256) :: acc)
  String.ofList (go 64 n [])

def nameOfString (s : String) : Name :=
  match nameTable.find? (·.1 == s) with
  | some (_, n) => n
  | none => .other (encodeOther s)

def nameToString (n : Name) : String :=
  match n with
  | .other k => decodeOther k
  | _ =>
    match nameTable.find? (·.2 == n) with
    | some (s, _) => s
    | none => "?"

def parseAttr (a : Attrs) (p : String) : Option Attrs :=
  match p with
  | "e=h" => some { a with enc := .textHtml }
  | "e=x" => some { a with enc := .appXhtml }
  | "e=o" => some { a with enc := .otherValue }
  | "f=c" => some { a with font := .color }
  | "f=a" => some { a with font := .face }
  | "f=s" => some { a with font := .size }
  | "f=o" => some { a with font := .otherAttr }
  | "t=h" => some { a with typ := .hidden }
  | "t=o" => some { a with typ := .otherValue }
  | _ => none

def parseTok (w : String) : Option Token :=
  if w == "M" then some .comment
  else if w == "Z" then some .eof
  else
    match w.splitOn ":" with
    | ["S", rest] =>
      match rest.splitOn ";" with
      | [] => none
      | nm :: attrs =>
        let sc := nm.endsWith "/"
        let nm := if sc then (nm.dropEnd 1).toString else nm
        match attrs.foldl (fun acc p => acc.bind (parseAttr · p)) (some ({} : Attrs)) with
        | some a => some (.start (nameOfString nm) sc a)
        | none => none
    | ["E", nm] => some (.end (nameOfString nm))
    | ["C", "w"] => some (.char .ws)
    | ["C", "t"] => some (.char .other)
    | ["C", "n"] => some (.char .nul)
    | ["D", "n"] => some (.doctype .noQuirks)
    | ["D", "l"] => some (.doctype .limitedQuirks)
    | ["D", "q"] => some (.doctype .quirks)
    | _ => none

def showEl (e : El) : String :=
  (match e.ns with | .html => "" | .svg => "s~" | .mathml => "m~") ++ nameToString e.name

def showStack (s : State) : String := ",".intercalate (s.stack.reverse.map showEl)

def showSwitch : Switch → String
  | .none => "-" | .rcdata => "R" | .rawtext => "W" | .scriptData => "S" | .plaintext => "P"

/-- tokenizer-filtered run: the observables of every token that gets through, `none` for dropped ones -/
def runFiltered (c : Cfg) : State → TkState → List Token → List (Option (Mode × Out))
  | _, _, [] => []
  | s, tk, t :: ts =>
    if passes tk t then
      let o := step c s t
      some (s.mode, o) :: runFiltered c o.st (nextTk tk t o.sw) ts
    else none :: runFiltered c s tk ts

def showOut (o : Out) : String :=
  let flags := (if o.impossible then "!impossible" else "") ++ (if o.outOfFuel then "!fuel" else "")
  s!"{showSwitch o.sw}{if o.st.cdataAllowed then 1 else 0}:{showStack o.st}{flags}"

def parseCase (line : String) : Option (Bool × List Token) :=
  match (line.splitOn " ").filter (· ≠ "") with
  | cfg :: toks =>
    let scripting := match cfg with | "s1" => some true | "s0" => some false | _ => none
    match scripting, toks.mapM parseTok with
    | some sc, some ts => some (sc, ts)
    | _, _ => none
  | [] => none

def showRun (r : List (Option (Mode × Out))) : String :=
  " ".intercalate (r.map fun | some (_, o) => showOut o | none => "~")

def run (line : String) : String :=
  match parseCase line with
  | some (sc, ts) => showRun (runFiltered { scripting := sc, dev := .h5 } .init .data ts)
  | none => "bad-case"

def showMode : Mode → String
  | .initial => "initial" | .beforeHtml => "beforeHtml" | .beforeHead => "beforeHead" | .inHead => "inHead"
  | .inHeadNoscript => "inHeadNoscript" | .afterHead => "afterHead" | .inBody => "inBody" | .text => "text"
  | .inTable => "inTable" | .inTableText => "inTableText" | .inCaption => "inCaption"
  | .inColumnGroup => "inColumnGroup" | .inTableBody => "inTableBody" | .inRow => "inRow" | .inCell => "inCell"
  | .inSelect => "inSelect" | .inSelectInTable => "inSelectInTable" | .inTemplate => "inTemplate"
  | .afterBody => "afterBody" | .inFrameset => "inFrameset" | .afterFrameset => "afterFrameset"
  | .afterAfterBody => "afterAfterBody" | .afterAfterFrameset => "afterAfterFrameset"

/-- lane `tbm`: `<modes before each token, h5 config> | std=<same|differs> | legacy-modes … | legacy=<same|differs>` -/
def runModes (line : String) : String :=
  match parseCase line with
  | some (sc, ts) =>
    let rh := runFiltered { scripting := sc, dev := .h5 } .init .data ts
    let rs := runFiltered { scripting := sc, dev := .std } .init .data ts
    let rl := runFiltered { scripting := sc, dev := .std, legacySelect := true } .init .data ts
    let modes (r : List (Option (Mode × Out))) := ",".intercalate (r.map fun | some (m, _) => showMode m | none => "~")
    let fuel := rh.any (fun | some (_, o) => o.outOfFuel || o.impossible | none => false) ||
                rl.any (fun | some (_, o) => o.outOfFuel || o.impossible | none => false)
    -- which single deviation switches matter on this case (switching one off changes the observation)
    let h := Dev.h5
    let singles : List Dev :=
      [ { h with specialHtmlOnly := false }, { h with scopeNoAnnotationXml := false },
        { h with breakoutNoAnnotationXml := false }, { h with tableTextNoTemplate := false },
        { h with doctypeEarly := false }, { h with tableBodyScopeH5 := false } ]
    let bits := String.ofList (singles.map fun d =>
      if showRun (runFiltered { scripting := sc, dev := d } .init .data ts) == showRun rh then '0' else '1')
    s!"{modes rh} dev={bits} std={if showRun rs == showRun rh then "same" else "differs"} legacy={if showRun rl == showRun rs then "same" else "differs"} {modes rl}{if fuel then " FUEL" else ""}"
  | none => "bad-case"

end LolHtml.Lane.Tb
