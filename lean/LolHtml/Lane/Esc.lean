import LolHtml.Model.Esc
/-!
Lane `esc` (property C08): one case per line

  body <hex utf8>                      escape_body_text
  attrv <hex>                          escape_double_quotes_only
  comment <hex utf8> <enc>             Comment::set_text on `<!--x-->`
  attrname <hex utf8> <hex utf8 value> <enc> <doc>   Element::set_attribute on document <doc>
  tagname <hex utf8> <enc> <doc>       Element::set_tag_name on document <doc>
  attrseq <enc> <hex utf8 name> <hex of the lower-cased name in enc> <hex source attr name|-> <hex v1> <hex v2>
                                       two set_attribute(name, v) calls on `<a>` / `<a SRC=0>`; the codec is
                                       `Codec.given` (the encoded name is an input); a line starting with
                                       `attrseq f22` says: a debug assertion of eq_case_insensitive fails here

`enc` ∈ {utf8, xud}. Observation: `<kind> <result> <hex of the serialised output>`.
The tokens of the fixed documents are constants here (what lol-html's lexer yields for them is
another property's business); everything downstream is the model of `Model/Esc.lean`.
-/
namespace LolHtml.Lane.Esc
open LolHtml LolHtml.Model.Esc

def codecOf (s : String) : Option Codec :=
  if s == "utf8" then some Codec.utf8 else if s == "xud" then some Codec.xUserDefined else none

def rawAttr (n v raw : String) : Attribute := { name := strBytes n, value := strBytes v, raw := some (strBytes raw) }

/-- Documents for `attrname`: the parsed start tag. -/
def attrDoc : String → Option StartTag
  | "0" => some { name := strBytes "a", attributes := [], selfClosing := false, raw := some (strBytes "<a>") }
  | "1" => some { name := strBytes "a", attributes := [rawAttr "b" "c" "b=c"], selfClosing := false,
                  raw := some (strBytes "<a b=c>") }
  | "2" => some { name := strBytes "a", attributes := [rawAttr "B" "c" "B=\"c\"", rawAttr "d" "" "d"],
                  selfClosing := true, raw := some (strBytes "<a B=\"c\" d/>") }
  | _ => none

/-- Documents for `tagname`: element, bytes between the tags, end tag (if any). -/
def tagDoc : String → Option (Element × Bytes × Option EndTag)
  | "0" => some (⟨{ name := strBytes "a", attributes := [], selfClosing := false, raw := some (strBytes "<a>") }, true, none⟩,
                 strBytes "x", some { name := strBytes "a", raw := some (strBytes "</a>") })
  | "1" => some (⟨{ name := strBytes "a", attributes := [rawAttr "b" "c" "b=c"], selfClosing := false,
                    raw := some (strBytes "<a b=c>") }, true, none⟩,
                 strBytes "x", some { name := strBytes "A", raw := some (strBytes "</A >") })
  | "2" => some (⟨{ name := strBytes "a", attributes := [rawAttr "b" "c" "b=c"], selfClosing := true,
                    raw := some (strBytes "<a b=c />") }, true, none⟩, [], none)
  | "3" => some (⟨{ name := strBytes "br", attributes := [], selfClosing := false, raw := some (strBytes "<br>") }, false, none⟩,
                 strBytes "x", none)
  | _ => none

def hexOpt : Option Bytes → String
  | some b => hexOrDash b
  | none => "MODEL-FAIL"

def run (line : String) : String :=
  match line.splitOn " " with
  | ["body", h] =>
    match ofHex h with
    | some s => if (utf8Decode s).isNone then "bad-utf8" else s!"body {hexOpt (escapeBodyText s)}"
    | none => "bad-case"
  | ["attrv", h] =>
    match ofHex h with
    | some v => s!"attrv {hexOpt (escapeDoubleQuotesOnly v)}"
    | none => "bad-case"
  | ["comment", h, e] =>
    match ofHex h, codecOf e with
    | some t, some c =>
      if (utf8Decode t).isNone then "bad-utf8" else
      let tok : Comment := { text := strBytes "x", raw := some (strBytes "<!--x-->") }
      let (tok', r) := tok.setText c t
      let rs := match r with
        | .ok () => "ok"
        | .error .commentClosingSequence => "err:closing"
        | .error .unencodableCharacter => "err:unencodable"
      s!"comment {rs} {hexOrDash tok'.serialize}"
    | _, _ => "bad-case"
  | ["attrname", h, hv, e, d] =>
    match ofHex h, ofHex hv, codecOf e, attrDoc d with
    | some n, some v, some c, some tag =>
      if (utf8Decode n).isNone || (utf8Decode v).isNone then "bad-utf8" else
      let (tag', r) := tag.setAttribute c n v
      let rs := match r with
        | .ok () => "ok"
        | .error .empty => "err:empty"
        | .error (.forbiddenCharacter ch) => s!"err:forbidden:{hexOfByte ch}"
        | .error .unencodableCharacter => "err:unencodable"
      s!"attrname {rs} {hexOpt tag'.serialize}"
    | _, _, _, _ => "bad-case"
  | ["attrseq", _e, h, hl, hs, hv1, hv2] =>
    match ofHex h, ofHex hl, (if hs == "-" then some [] else ofHex hs), ofHex hv1, ofHex hv2 with
    | some n, some nl, some src, some v1, some v2 =>
      if (utf8Decode n).isNone || (utf8Decode v1).isNone || (utf8Decode v2).isNone then "bad-utf8" else
      let c := Codec.given (asciiLowerBytes n) nl
      let tag : StartTag :=
        if hs == "-" then { name := strBytes "a", attributes := [], selfClosing := false, raw := some (strBytes "<a>") }
        else { name := strBytes "a", attributes := [{ name := src, value := strBytes "0", raw := some (src ++ strBytes "=0") }],
               selfClosing := false, raw := some (strBytes "<a " ++ src ++ strBytes "=0>") }
      let shw (r : Except AttributeNameError Unit) : String := match r with
        | .ok () => "ok"
        | .error .empty => "err:empty"
        | .error (.forbiddenCharacter ch) => s!"err:forbidden:{hexOfByte ch}"
        | .error .unencodableCharacter => "err:unencodable"
      let f1 := tag.setAttributeDebugAssertFails c n
      let (t1, r1) := tag.setAttribute c n v1
      let f2 := t1.setAttributeDebugAssertFails c n
      let (t2, r2) := t1.setAttribute c n v2
      let mark := if f1 || f2 then "f22 " else ""
      s!"attrseq {mark}{shw r1} {shw r2} {hexOpt t2.serialize}"
    | _, _, _, _, _ => "bad-case"
  | ["tagname", h, e, d] =>
    match ofHex h, codecOf e, tagDoc d with
    | some n, some c, some (el, mid, endTag) =>
      if (utf8Decode n).isNone then "bad-utf8" else
      let (el', r) := el.setTagName c n
      let rs := match r with
        | .ok () => "ok"
        | .error .empty => "err:empty"
        | .error .invalidFirstCharacter => "err:first"
        | .error (.forbiddenCharacter ch) => s!"err:forbidden:{hexOfByte ch}"
        | .error .unencodableCharacter => "err:unencodable"
      let out := el'.startTag.serialize.map fun st =>
        st ++ mid ++ (match endTag with | some et => (el'.applyToEndTag et).serialize | none => [])
      s!"tagname {rs} {hexOpt out}"
    | _, _, _ => "bad-case"
  | _ => "bad-case"

end LolHtml.Lane.Esc
