/-
Lane `memts` (property C10): the buffer protocol of `TransformStream::write` against the real
`TransformStream` in tag-scanning mode (no token captured).
  case = `M prealloc chunkhex,chunkhex,…`   chunks over the alphabet {`<`, `>`, `a`} (`-` = empty chunk)
  observation = `init=ok:<usage> <res>:<usage>:<retained>:<bytes out so far> …`, stopping at the first `err`.
The model side runs `TS.new` / `TS.run … scanConsumed`, i.e. `TS.write` — the functions the
C10 write theorems are about.
-/
import LolHtml.Model.Memory

namespace LolHtml.Lane.MemTs
open LolHtml.Model.Memory

def showStep : Res × TS × Nat → String
  | (.ok, t, out) => s!"ok:{t.lim.usage}:{t.retained}:{out}"
  | (.err _, t, out) => s!"err:{t.lim.usage}:{out}"
  | (.panic _, _, _) => "PANIC"

def run (line : String) : String :=
  match (line.splitOn " ").filter (· ≠ "") with
  | [m, p, cs] =>
    match m.toNat?, p.toNat?, (cs.splitOn ",").mapM ofHex with
    | some M, some prealloc, some chunks =>
      match TS.new M prealloc with
      | .panic _ => "PANIC-new"
      | .err _ _ => "init=err"
      | .ok t0 =>
        " ".intercalate (s!"init=ok:{t0.lim.usage}" :: (t0.run scanConsumed chunks 0).map showStep)
    | _, _, _ => "bad-case"
  | _ => "bad-case"

end LolHtml.Lane.MemTs
