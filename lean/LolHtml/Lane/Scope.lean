/-
Lane `scope` (property C05). Case line, four whitespace-separated fields:

  <sels> <docs> <script> <cuts>

* `<sels>`  `-` or comma-separated `name:flags:K:mod:rem` — selector `name` (a type selector or `*`),
  flags ⊆ `e` (element handler) `c` (comments) `t` (text) and, for the element handler's behaviour on
  start-tag events with `ord % mod == rem`: `r` = `el.remove()`, `i` = `el.set_inner_content("")`,
  `m` = `el.append(..)`, and `K` closures pushed with `on_end_tag`.
* `<docs>`  `-` or comma-separated flag strings ⊆ `d` (doctype) `c` `t` `e` (end), `n` = none.
* `<script>` `-` or comma-separated events: `o<name>[/]` start tag in the HTML namespace,
  `O<name>[/]` start tag in a foreign namespace, `e<name>` end tag, `t` text, `c` comment, `d` doctype.
* `<cuts>` chunk boundaries for the implementation side (ignored by the model).

Observation: the invocation log, comma-separated: `D|C|T|E|F<ord>.<hid>` and
`X<ord>.<hid>.<k>@<startOrd>`; `-` if empty.
-/
import LolHtml.Model.Controller

namespace LolHtml.Lane.Scope
open LolHtml.Model.Handlers LolHtml.Model.Controller

structure SelCase where
  name : String
  reg : SelReg
  act : ElemAct
  modulus : Nat
  rem : Nat

def parseSel (s : String) : Option SelCase :=
  match s.splitOn ":" with
  | [name, flags, k, m, r] =>
    match k.toNat?, m.toNat?, r.toNat? with
    | some k, some m, some r =>
      let has (c : Char) := flags.toList.contains c
      some { name := name,
             reg := { element := has 'e', comments := has 'c', text := has 't' },
             act := { onEndTag := k, removeContent := has 'r' || has 'i',
                      endTagMutation := has 'r' || has 'm' },
             modulus := m, rem := r }
    | _, _, _ => none
  | _ => none

def parseDoc (s : String) : DocReg :=
  let has (c : Char) := s.toList.contains c
  { doctype := has 'd', comments := has 'c', text := has 't', end_ := has 'e' }

def listField (s : String) : List String := if s == "-" then [] else s.splitOn ","

def matchedOf (sels : List SelCase) (name : String) : List Nat :=
  (sels.zipIdx.filter fun (p : SelCase × Nat) => p.1.name == "*" || p.1.name == name).map (·.2)

def parseEvent (sels : List SelCase) (tok : String) : Option Event :=
  match tok.toList with
  | 't' :: [] => some .text
  | 'c' :: [] => some .comment
  | 'd' :: [] => some .doctype
  | 'e' :: rest => some (.endTag (strBytes (String.ofList rest)))
  | k :: rest =>
    if k == 'o' || k == 'O' then
      let selfClosing := rest.getLast? == some '/'
      let nameChars := if selfClosing then rest.dropLast else rest
      let name := String.ofList nameChars
      let ns := if k == 'o' then Ns.html else Ns.foreign
      some (.startTag (strBytes name) (getStackDirective ns (strBytes name)) selfClosing
              (matchedOf sels name))
    else none
  | [] => none

def scriptOf (sels : List SelCase) : ElemScript := fun h ord =>
  match sels[h]? with
  | some sc =>
    if sc.modulus != 0 && ord % sc.modulus == sc.rem then sc.act
    else { onEndTag := 0, removeContent := false, endTagMutation := false }
  | none => { onEndTag := 0, removeContent := false, endTagMutation := false }

def kindChar : Kind → String
  | .doctype => "D" | .comment => "C" | .text => "T" | .element => "E" | .end_ => "F"

def showInv : Invocation → String
  | .token k h ord => s!"{kindChar k}{ord}.{h}"
  | .endTag h k so ord => s!"X{ord}.{h}.{k}@{so}"

def run (line : String) : String :=
  match (line.splitOn " ").filter (· ≠ "") with
  | [selsF, docsF, scriptF, _cuts] =>
    match (listField selsF).mapM parseSel with
    | none => "bad-case"
    | some sels =>
      let docs := (listField docsF).map parseDoc
      match (listField scriptF).mapM (parseEvent sels) with
      | none => "bad-case"
      | some evs =>
        match runDoc (scriptOf sels) (sels.map (·.reg)) docs evs with
        | .error p => s!"PANIC {p.tag}"
        | .ok (_, inv) => if inv.isEmpty then "-" else ",".intercalate (inv.map showInv)
  | _ => "bad-case"

end LolHtml.Lane.Scope
