/-
Lane `full`: the whole rewriter as one model — parser + dispatcher + transform stream + the REAL
transform controller (`Model.Full.fullCtl`) — on RAW BYTES, against the public `HtmlRewriter`.

case (8 blank-separated fields):
  <input-hex> <cuts> <strict 0|1> <graceful bits mem=2,handler=1> <maxmem 0=unlimited>
  <selset>    structured selector set, syntax of gen/sel.py (`,`-separated prefix tokens), one selector
              list per selector entry of <handlers>; `0` when there is none
  <css>       `,`-separated hex of the CSS text of each selector (for the Rust side; echoed by neither)
  <handlers>  `;`-separated registration entries (or `-`), all `S` entries before all `D` entries:
                S/<k>=<scripts>[/<k>=<scripts>…]   k ∈ e (element) c (comments) t (text)
                D/<k>=<scripts>[/…]                k ∈ d (doctype) c t z (end)
              scripts = `|`-separated, invocation j runs script j mod n; script = `,`-separated ops of
              lane `edit` (or `-`), followed by `!` if the closure then returns an error.
obs:  <res;…> # <sink bytes per call, hex;…> # <log entry;…>
  log entry  <who>@<start>-<end>:<what the closure saw>
-/
import LolHtml.Model.FullCtl
import LolHtml.Lane.Lex
import LolHtml.Lane.Sel
import LolHtml.Lane.Edit

namespace LolHtml.Lane.Full
open LolHtml LolHtml.Model LolHtml.Model.Full LolHtml.EditModel

def pScriptF {α : Type} (pOp : List String → Option α) (s : String) : Option (List α × Bool) :=
  if s.endsWith "!" then (Edit.pScript pOp (s.dropEnd 1).toString).map (·, true)
  else (Edit.pScript pOp s).map (·, false)

def pScriptsF {α : Type} (pOp : List String → Option α) (s : String) : Option (Scripts α) :=
  (s.splitOn "|").mapM (pScriptF pOp)

def pSelEntry (fields : List String) : Option SelHandlers :=
  fields.foldlM (fun (h : SelHandlers) f =>
    match f.splitOn "=" with
    | ["e", sc] => (pScriptsF Edit.pElementOp sc).map fun x => { h with element := some x }
    | ["c", sc] => (pScriptsF Edit.pCommentOp sc).map fun x => { h with comments := some x }
    | ["t", sc] => (pScriptsF Edit.pTextOp sc).map fun x => { h with text := some x }
    | _ => none) {}

def pDocEntry (fields : List String) : Option DocHandlers :=
  fields.foldlM (fun (h : DocHandlers) f =>
    match f.splitOn "=" with
    | ["d", sc] => (pScriptsF Edit.pDoctypeOp sc).map fun x => { h with doctype := some x }
    | ["c", sc] => (pScriptsF Edit.pCommentOp sc).map fun x => { h with comments := some x }
    | ["t", sc] => (pScriptsF Edit.pTextOp sc).map fun x => { h with text := some x }
    | ["z", sc] => (pScriptsF Edit.pEndOp sc).map fun x => { h with end_ := some x }
    | _ => none) {}

def pHandlers (s : String) : Option (List SelHandlers × List DocHandlers) :=
  if s == "-" then some ([], []) else
  (s.splitOn ";").foldlM (fun (acc : List SelHandlers × List DocHandlers) e =>
    match e.splitOn "/" with
    | "S" :: fields => if acc.2.isEmpty then (pSelEntry fields).map fun h => (acc.1 ++ [h], acc.2) else none
    | "D" :: fields => (pDocEntry fields).map fun h => (acc.1, acc.2 ++ [h])
    | _ => none) ([], [])

def pCfg (selset handlers : String) : Option Cfg := do
  let sels ← Sel.parseSelSet selset
  let hs ← pHandlers handlers
  if sels.length != hs.1.length then none
  else some { sels := sels.zip hs.1, docs := hs.2 }

/-! ### printing the log -/

def b01 (b : Bool) : String := if b then "1" else "0"

def whoStr : Who → String
  | .doctype h => s!"d{h}"
  | .comment h => s!"c{h}"
  | .text h => s!"t{h}"
  | .element h => s!"e{h}"
  | .endTag h k => s!"E{h}.{k}"
  | .end_ h => s!"z{h}"

def seenStr : Seen → String
  | .element n ns as sc chc rm =>
    let a := if as.isEmpty then "-" else "+".intercalate (as.map fun a => s!"{hexOrDash a.1}={hexOrDash a.2}")
    s!"{hexOrDash n}:{Lex.nsNum ns}:{a}:{b01 sc}{b01 chc}{b01 rm}"
  | .endTag n rm => s!"{hexOrDash n}:{b01 rm}"
  | .text t last rm => s!"{hexOrDash t}:{b01 last}{b01 rm}"
  | .comment t rm => s!"{hexOrDash t}:{b01 rm}"
  | .doctype n p s => s!"{Lex.optHex n}:{Lex.optHex p}:{Lex.optHex s}"
  | .docEnd => "-"

def entryStr (e : LogEntry) : String :=
  s!"{whoStr e.who}@{e.src.start}-{e.src.end}:{seenStr e.seen}"

/-! ### running -/

def world (cfg : Cfg) : World (FullSt cfg) := fullWorld Gen.Syntax.table Gen.Tags.cfg cfg

structure RunOut (γ : Type) where
  results : List String
  outs : List String
  rw : Rewriter γ

def sinkLen {γ : Type} (r : Rewriter γ) : Nat := (sinkBytes r.sink).length

def runChunks {γ : Type} (w : World γ) (rw : Rewriter γ) (chunks : List Bytes) : RunOut γ := Id.run do
  let mut rw := rw
  let mut results : List String := []
  let mut outs : List String := []
  let mut failed := false
  for ch in chunks do
    if !failed then
      let before := sinkLen rw
      let (rw', res) := rw.write w ch
      rw := rw'
      outs := outs ++ [hexOrDash ((sinkBytes rw.sink).drop before)]
      match res with
      | .ok => results := results ++ ["ok"]
      | .err e => results := results ++ [Lex.errStr e]; failed := true
      | .panicUseAfterError => results := results ++ ["uae"]; failed := true
  if !failed then
    let before := sinkLen rw
    let (rw', res) := rw.end w
    rw := rw'
    outs := outs ++ [hexOrDash ((sinkBytes rw.sink).drop before)]
    match res with
    | .ok => results := results ++ ["ok"]
    | .err e => results := results ++ [Lex.errStr e]
    | .panicUseAfterError => results := results ++ ["uae"]
  return ⟨results, outs, rw⟩

def run (line : String) : String :=
  match line.splitOn " " with
  | [hex, cuts, strict, g, maxMem, selset, _css, handlers] =>
    match ofHex hex, parseNatList cuts, g.toNat?, maxMem.toNat?, pCfg selset handlers with
    | some input, some cuts, some g, some maxMem, some cfg =>
      let settings : Settings :=
        { strict := strict == "1", bailOnMem := g / 2 % 2 == 1, bailOnHandler := g % 2 == 1,
          maxMem := if maxMem == 0 then 1000000000 else maxMem, prealloc := 0 }
      let w := world cfg
      let rw : Rewriter (FullSt cfg) := { stream := Stream.new w (FullSt.init cfg) settings }
      let out := runChunks w rw (Lex.splitAtCuts input cuts)
      let st := out.rw.stream.disp.ctl.1
      if out.results.contains "panic" || out.results.contains "internal" || st.fault.isSome then "PANIC model"
      else
        let log := if st.log.isEmpty then "-" else ";".intercalate (st.log.reverse.map entryStr)
        s!"{";".intercalate out.results} # {";".intercalate out.outs} # {log}"
    | _, _, _, _, _ => "bad-case"
  | _ => "bad-case"

end LolHtml.Lane.Full
