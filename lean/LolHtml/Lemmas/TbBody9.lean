import LolHtml.Lemmas.TbBody8
/-!
"in caption", "in table body", "in row", "in cell" in the body phase.
-/
namespace LolHtml.Spec.TreeBuilder
open LolHtml.Model (Ns)

variable {c : Cfg} {s : State}

/-- side conditions of `end_side` for a concrete name and a concrete anchor list -/
macro "end_side_dec" : tactic =>
  `(tactic|
    (intro n h; cases h; refine end_side _ _ ?_ ?_
     · first | decide | exact ⟨nofun, nofun⟩
     · first | (left; decide) | (left; exact other_isIn _ _ (by decide)) | (right; decide)))

/-- "generate implied end tags, pop until the first anchor has been popped" -/
theorem popUntil_implied_anchor (p : El → Bool) (hp : ∀ e, p e = true → e.isAnchor = true) (t : Tree) (ex : Option Name)
    (a : El) (r : List El) (hA : anchorSuffix t.stack = a :: r) (ha : p a = true) :
    popUntil p (popImplied impliedNames ex t.stack) = r := by
  have hk : anchorSuffix (t.genImplied ex).stack = anchorSuffix t.stack := keeps_genImplied t ex
  exact popUntil_anchor p hp _ a r (hk.trans hA) ha

set_option maxHeartbeats 16000000 in
theorem inCaption_body (hleg : c.legacySelect = false) (hI : Inv false s) (hB : BInv s) (hph : BodyPhase s)
    (hm : s.mode = .inCaption) (t : Token) (htok : TokB s t) : BodyPost s (inCaption c s t) := by
  have hAT := AT.ofInv hI hB
  have h1 : s.mode ≠ .text := by simp [hm]
  have h2 : s.mode ≠ .inTableText := by simp [hm]
  have hL : modeAnchors s.mode = some [.caption] := by simp [hm, modeAnchors]
  obtain ⟨a0, r0, hA, ha0⟩ := hB.anchor h1 h2 _ hL
  have hcap : a0.isHtml .caption = true := by rw [← isHtmlIn_single]; exact ha0
  have hpop : popUntil (·.isHtml .caption) (popImplied impliedNames none s.tree.stack) = r0 :=
    popUntil_implied_anchor _ (fun e he => isHtml_anchor e .caption (by decide) he) s.tree none a0 r0 hA hcap
  have hclose : BStep s { (((s.genImplied).popUntilNamed .caption).clearAfeToMarker) with mode := .inTable } := by
    apply bstep_popTo hB hA
    case hst => exact hpop
    case hm => rfl
    case hp => exact Or.inl ⟨Or.inl hcap, rfl⟩
    case hform => rfl
    case hfo => rfl
  cases t with
  | char cc => exact inBody_fall hleg hI hB hph h1 h2 _ hL _ htok (fun n h => by cases h)
  | comment => exact bstep_same hB hph
  | doctype d => exact bstep_same hB hph
  | eof => exact inBody_fall hleg hI hB hph h1 h2 _ hL _ htok (fun n h => by cases h)
  | «end» n =>
    cases n
    all_goals eval_rule [inCaption]
    all_goals (repeat' split)
    all_goals first
      | exact bstep_same hB hph
      | exact hclose
      | (refine inBody_fall hleg hI hB hph h1 h2 _ hL _ htok ?_; end_side_dec)
  | start n sc a =>
    have htk := htok n sc a rfl
    cases n
    all_goals eval_rule [inCaption, tableSectionStartNames]
    all_goals (repeat' split)
    all_goals first
      | exact bstep_same hB hph
      | exact hclose
      | exact inBody_fall hleg hI hB hph h1 h2 _ hL _ htok (fun n h => by cases h)

set_option maxHeartbeats 16000000 in
theorem inTableBody_body (hleg : c.legacySelect = false) (hI : Inv false s) (hB : BInv s) (hph : BodyPhase s)
    (hm : s.mode = .inTableBody) (t : Token) (htok : TokB s t) : BodyPost s (inTableBody c s t) := by
  have h1 : s.mode ≠ .text := by simp [hm]
  have h2 : s.mode ≠ .inTableText := by simp [hm]
  have hL : modeAnchors s.mode = some secNames := by simp [hm, modeAnchors]
  obtain ⟨a0, r0, hA, ha0⟩ := hB.anchor h1 h2 _ hL
  have hclr : popWhileNot (·.isHtmlIn [.tbody, .tfoot, .thead, .template, .html]) s.tree.stack = a0 :: r0 := by
    refine popWhileNot_anchor _ ?_ _ a0 r0 hA ?_
    · intro n hn; cases n <;> simp [Name.isIn] at hn <;> decide
    · have := isHtmlIn_name ha0
      have hnm : a0.name = .tbody ∨ a0.name = .thead ∨ a0.name = .tfoot := by simpa [secNames, Name.isIn] using this.2
      rcases hnm with e | e | e <;> simp [El.isHtmlIn, this.1, e, Name.isIn]
  have hpopc : BStep s { (s.clearToTableBodyContext).pop with mode := .inTable } := by
    apply bstep_popTo hB hA
    case hst =>
      show (popWhileNot _ s.tree.stack).tail = _
      rw [hclr]; rfl
    case hm => rfl
    case hp => exact Or.inl ⟨Or.inr (Or.inr ha0), rfl⟩
    case hform => rfl
    case hfo => rfl
  have hT : ∀ t', TokB s t' → (∀ n sc a, t' = .start n sc a → n.isIn tableStructNames = false) →
      BodyPost s (inTable c s t') := fun t' ht' hc =>
    inTable_body hleg hI hB hph secNames (Or.inr (Or.inl ⟨hm, rfl⟩)) t' ht' (fun _ => hc)
  cases t with
  | char cc => exact hT _ htok (fun n sc a h => by cases h)
  | comment => exact hT _ htok (fun n sc a h => by cases h)
  | doctype d => exact hT _ htok (fun n sc a h => by cases h)
  | eof => exact hT _ htok (fun n sc a h => by cases h)
  | «end» n =>
    cases n
    all_goals eval_rule [inTableBody]
    all_goals (repeat' split)
    all_goals first
      | exact bstep_same hB hph
      | exact hpopc
      | exact hT _ htok (fun n sc a h => by cases h)
  | start n sc a =>
    cases n
    all_goals eval_rule [inTableBody]
    all_goals (repeat' split)
    all_goals first
      | exact bstep_same hB hph
      | exact hpopc
      | exact hT _ htok (fun n sc a h => by cases h; decide)
      | exact hT _ htok (fun n sc a h => by cases h; exact other_isIn _ _ (by decide))
      | (show BStep _ _
         apply bstep_push hB hA
         case hst =>
           show _ :: popWhileNot _ s.tree.stack = _
           rw [hclr]
         case hm => rfl
         case hform => rfl
         case hfo => rfl
         case hx => exact Or.inr (Or.inr (Or.inr (Or.inl ⟨rfl, ha0, rfl⟩))))

set_option maxHeartbeats 16000000 in
theorem inRow_body (hleg : c.legacySelect = false) (hI : Inv false s) (hB : BInv s) (hph : BodyPhase s)
    (hm : s.mode = .inRow) (t : Token) (htok : TokB s t) : BodyPost s (inRow c s t) := by
  have h1 : s.mode ≠ .text := by simp [hm]
  have h2 : s.mode ≠ .inTableText := by simp [hm]
  have hL : modeAnchors s.mode = some [.tr] := by simp [hm, modeAnchors]
  obtain ⟨a0, r0, hA, ha0⟩ := hB.anchor h1 h2 _ hL
  have htr : a0.isHtml .tr = true := by rw [← isHtmlIn_single]; exact ha0
  have hclr : popWhileNot (·.isHtmlIn [.tr, .template, .html]) s.tree.stack = a0 :: r0 := by
    refine popWhileNot_anchor _ ?_ _ a0 r0 hA ?_
    · intro n hn; cases n <;> simp [Name.isIn] at hn <;> decide
    · have := isHtml_name htr
      simp [El.isHtmlIn, this.1, this.2, Name.isIn]
  have hpopc : BStep s { (s.clearToTableRowContext).pop with mode := .inTableBody } := by
    apply bstep_popTo hB hA
    case hst =>
      show (popWhileNot _ s.tree.stack).tail = _
      rw [hclr]; rfl
    case hm => rfl
    case hp => exact Or.inr (Or.inl ⟨htr, rfl⟩)
    case hform => rfl
    case hfo => rfl
  have hT : ∀ t', TokB s t' → (∀ n sc a, t' = .start n sc a → n.isIn tableStructNames = false) →
      BodyPost s (inTable c s t') := fun t' ht' hc =>
    inTable_body hleg hI hB hph [.tr] (Or.inr (Or.inr ⟨hm, rfl⟩)) t' ht' (fun _ => hc)
  cases t with
  | char cc => exact hT _ htok (fun n sc a h => by cases h)
  | comment => exact hT _ htok (fun n sc a h => by cases h)
  | doctype d => exact hT _ htok (fun n sc a h => by cases h)
  | eof => exact hT _ htok (fun n sc a h => by cases h)
  | «end» n =>
    cases n
    all_goals eval_rule [inRow]
    all_goals (repeat' split)
    all_goals first
      | exact bstep_same hB hph
      | exact hpopc
      | exact hT _ htok (fun n sc a h => by cases h)
  | start n sc a =>
    cases n
    all_goals eval_rule [inRow]
    all_goals (repeat' split)
    all_goals first
      | exact bstep_same hB hph
      | exact hpopc
      | exact hT _ htok (fun n sc a h => by cases h; decide)
      | exact hT _ htok (fun n sc a h => by cases h; exact other_isIn _ _ (by decide))
      | (show BStep _ _
         apply bstep_push hB hA
         case hst =>
           show _ :: popWhileNot _ s.tree.stack = _
           rw [hclr]
         case hm => rfl
         case hform => rfl
         case hfo => rfl
         case hx => exact Or.inr (Or.inr (Or.inr (Or.inr ⟨rfl, ha0, rfl⟩))))

end LolHtml.Spec.TreeBuilder
