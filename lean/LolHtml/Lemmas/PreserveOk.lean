import LolHtml.Lemmas.PreservePc
/-!
Preservation "until the first error". A predicate `P` on the sink that the sink operations preserve
WHEN THEY SUCCEED (and weaken to `Pe` when they fail) is preserved by `Parser::parse` when it
succeeds, and weakened to `Pe` when it fails — provided every sink-calling action of the table is
written with `?` (`EmitsChecked`, a decidable side-condition): then an error returned by the sink
stops the action list, the state function, the parsing loop and `parse`, and no sink operation is
called after it.
-/
namespace LolHtml.Model

variable {κ : Type}

/-- actions that may call the sink (in either action set) -/
def ActName.callsSink : ActName → Bool
  | .emitText | .emitTextAndEof | .emitCurrentToken | .emitCurrentTokenAndEof
  | .emitRawWithoutToken | .emitRawWithoutTokenAndEof | .emitTag | .finishTagName => true
  | _ => false

def Call.checked (c : Call) : Bool := !c.act.callsSink || c.q

def callsOfArm (a : Arm) : List Call := a.body.seqs.flatMap (·.calls)

/-- every sink-calling action of the table is written with `?` -/
def EmitsChecked (t : Table) : Bool :=
  t.states.all fun sd => sd.enter.all Call.checked && sd.arms.all fun a => (callsOfArm a).all Call.checked

/-- diagnostics: (state name, arm index or 1000 for the enter list) of the offending calls -/
def emitsCheckedWitness (t : Table) : List (String × Nat) :=
  t.states.flatMap fun sd =>
    (if sd.enter.all Call.checked then [] else [(sd.name, 1000)]) ++
    ((List.range sd.arms.length).zip sd.arms).filterMap fun p =>
      if (callsOfArm p.2).all Call.checked then none else some (sd.name, p.1)

/-- `P` is kept by a successful sink operation (for lexemes located by `pc`); a failing one leaves `Pe`. -/
structure OpsPreserveOk (ops : SinkOps κ) (inp : Bytes) (pc : Nat) (P Pe : κ → Prop) : Prop where
  handleTag : ∀ lx k, lx.prevConsumed = pc → P k →
    (∀ d, (ops.handleTag inp lx k).2 = .ok d → P (ops.handleTag inp lx k).1) ∧
    (∀ e, (ops.handleTag inp lx k).2 = .error e → Pe (ops.handleTag inp lx k).1)
  handleNonTag : ∀ lx k, lx.prevConsumed = pc → P k →
    (∀ d, (ops.handleNonTag inp lx k).2 = .ok d → P (ops.handleNonTag inp lx k).1) ∧
    (∀ e, (ops.handleNonTag inp lx k).2 = .error e → Pe (ops.handleNonTag inp lx k).1)
  startTagHint : ∀ n ns k, P k →
    (∀ d, (ops.startTagHint n ns k).2 = .ok d → P (ops.startTagHint n ns k).1) ∧
    (∀ e, (ops.startTagHint n ns k).2 = .error e → Pe (ops.startTagHint n ns k).1)
  endTagHint : ∀ n k, P k →
    (∀ d, (ops.endTagHint n k).2 = .ok d → P (ops.endTagHint n k).1) ∧
    (∀ e, (ops.endTagHint n k).2 = .error e → Pe (ops.endTagHint n k).1)
  weaken : ∀ k, P k → Pe k

/-- what a step returns: `P` unless it signals an error, then `Pe` -/
def OkOr (pc : Nat) (P Pe : κ → Prop) (r : M κ × Option Signal) : Prop :=
  r.1.x.prevConsumed = pc ∧
  match r.2 with
  | some (.err _) => Pe r.1.x.sink
  | _ => P r.1.x.sink

section
variable {env : Env κ} {inp : Bytes} {pc : Nat} {P Pe : κ → Prop}

theorem OkOr.of_inv {m : M κ} {s : Option Signal} (hw : ∀ k, P k → Pe k) (h : CtxInv pc P m.x) :
    OkOr pc P Pe (m, s) := by
  refine ⟨h.1, ?_⟩
  cases s with
  | none => exact h.2
  | some sig => cases sig <;> first | exact hw _ h.2 | exact h.2

theorem OkOr.of_inv' {r : M κ × Option Signal} (hw : ∀ k, P k → Pe k) (h : CtxInv pc P r.1.x) :
    OkOr pc P Pe r := by
  obtain ⟨m, s⟩ := r
  exact OkOr.of_inv hw h

theorem OkOr.split_some {r : M κ × Option Signal} (h : OkOr pc P Pe r) {sig : Signal} (hs : r.2 = some sig) :
    OkOr pc P Pe (r.1, some sig) := by
  obtain ⟨a, b⟩ := h
  rw [hs] at b
  exact ⟨a, b⟩

theorem OkOr.inv {r : M κ × Option Signal} (h : OkOr pc P Pe r) (hn : r.2 = none) : CtxInv pc P r.1.x := by
  obtain ⟨h1, h2⟩ := h
  rw [hn] at h2
  exact ⟨h1, h2⟩

theorem ok_lexEmitNonTag (h : OpsPreserveOk env.ops inp pc P Pe) (c : Common) (l : LexRegs) (x : Ctx κ)
    (o : Option NonTagOutline) (e : Nat) (hp : CtxInv pc P x) :
    OkOr pc P Pe (lexEmitNonTag env inp c l x o e) := by
  unfold lexEmitNonTag
  obtain ⟨h1, h2⟩ := h.handleNonTag ⟨x.prevConsumed, ⟨l.lexemeStart, e⟩, o⟩ x.sink hp.1 hp.2
  dsimp only
  split
  · rename_i hr; exact ⟨hp.1, h1 _ hr⟩
  · rename_i e' hr; exact ⟨hp.1, h2 _ hr⟩

theorem ok_lexEmitText (h : OpsPreserveOk env.ops inp pc P Pe) (c : Common) (l : LexRegs) (x : Ctx κ)
    (hp : CtxInv pc P x) : OkOr pc P Pe (lexEmitText env inp c l x) := by
  unfold lexEmitText
  split
  · exact ok_lexEmitNonTag h _ _ _ _ _ hp
  · exact ⟨hp.1, hp.2⟩

theorem ok_lexEmitEof (h : OpsPreserveOk env.ops inp pc P Pe) (m : M κ) (hp : CtxInv pc P m.x) :
    OkOr pc P Pe (lexEmitEof env inp m) := by
  unfold lexEmitEof
  split
  · exact ok_lexEmitNonTag h _ _ _ _ _ hp
  · exact ⟨hp.1, hp.2⟩

theorem ok_andThen (r : M κ × Option Signal) (g : M κ → M κ × Option Signal)
    (hr : OkOr pc P Pe r) (hg : ∀ m, CtxInv pc P m.x → OkOr pc P Pe (g m)) : OkOr pc P Pe (andThen r g) := by
  unfold andThen
  split
  · rename_i s hs
    obtain ⟨h1, h2⟩ := hr
    rw [hs] at h2
    exact ⟨h1, h2⟩
  · rename_i hs
    exact hg _ (hr.inv hs)

theorem ok_lexEmitTagLexeme (h : OpsPreserveOk env.ops inp pc P Pe) (c : Common) (l : LexRegs) (x : Ctx κ)
    (sim : Sim) (t : TagOutline) (e : Nat) (hp : CtxInv pc P x) :
    OkOr pc P Pe (lexEmitTagLexeme env inp c l x sim t e) := by
  unfold lexEmitTagLexeme
  obtain ⟨h1, h2⟩ := h.handleTag ⟨x.prevConsumed, ⟨l.lexemeStart, e⟩, t⟩ x.sink hp.1 hp.2
  dsimp only
  split
  · rename_i e' hr; exact ⟨hp.1, h2 _ hr⟩
  · rename_i hr; exact ⟨hp.1, h1 _ hr⟩
  · rename_i hr; exact ⟨hp.1, h1 _ hr⟩

theorem ok_lexEmitTag (h : OpsPreserveOk env.ops inp pc P Pe) (c : Common) (l : LexRegs) (x : Ctx κ)
    (hp : CtxInv pc P x) : OkOr pc P Pe (lexEmitTag env inp c l x) := by
  unfold lexEmitTag
  split
  · exact OkOr.of_inv h.weaken hp
  · dsimp only
    split
    · exact OkOr.of_inv h.weaken hp
    · split
      · exact OkOr.of_inv h.weaken hp
      · exact ok_lexEmitTagLexeme h _ _ _ _ _ _ hp

theorem ok_lexAct (h : OpsPreserveOk env.ops inp pc P Pe) (a : ActName) (c : Common) (l : LexRegs) (x : Ctx κ)
    (hp : CtxInv pc P x) : OkOr pc P Pe (lexAct env a inp c l x) := by
  cases a <;> simp only [lexAct]
  case emitText => exact ok_lexEmitText h _ _ _ hp
  case emitTextAndEof =>
    exact ok_andThen _ _ (ok_lexEmitText h _ _ _ hp) (fun m hm => ok_lexEmitEof h m hm)
  case emitCurrentToken => exact ok_lexEmitNonTag h _ _ _ _ _ hp
  case emitCurrentTokenAndEof =>
    exact ok_andThen _ _ (ok_lexEmitNonTag h _ _ _ _ _ hp) (fun m hm => ok_lexEmitEof h m hm)
  case emitRawWithoutToken => exact ok_lexEmitNonTag h _ _ _ _ _ hp
  case emitRawWithoutTokenAndEof =>
    exact ok_andThen _ _ (ok_lexEmitNonTag h _ _ _ _ _ hp) (fun m hm => ok_lexEmitEof h m hm)
  case emitTag => exact ok_lexEmitTag h _ _ _ hp
  all_goals (repeat' split) <;> exact OkOr.of_inv h.weaken hp

/-- the lexer's non-sink actions leave the context alone -/
theorem lexAct_x (a : ActName) (ha : a.callsSink = false) (c : Common) (l : LexRegs) (x : Ctx κ) :
    (lexAct env a inp c l x).1.x = x := by
  cases a <;> simp only [ActName.callsSink, Bool.true_eq_false] at ha <;> simp only [lexAct] <;>
    (repeat' split) <;> rfl

theorem ok_scanEmitHint (h : OpsPreserveOk env.ops inp pc P Pe) (c : Common) (s : ScanRegs) (x : Ctx κ)
    (ts : Nat) (ie : Bool) (hp : CtxInv pc P x) : OkOr pc P Pe (scanEmitHint env inp c s x ts ie) := by
  unfold scanEmitHint
  split
  · exact OkOr.of_inv h.weaken hp
  · rename_i name _
    have key : (∀ d, (if ie = true then env.ops.endTagHint name x.sink
          else env.ops.startTagHint name x.sim.currentNs x.sink).2 = .ok d →
        P (if ie = true then env.ops.endTagHint name x.sink else env.ops.startTagHint name x.sim.currentNs x.sink).1) ∧
      (∀ e, (if ie = true then env.ops.endTagHint name x.sink
          else env.ops.startTagHint name x.sim.currentNs x.sink).2 = .error e →
        Pe (if ie = true then env.ops.endTagHint name x.sink else env.ops.startTagHint name x.sim.currentNs x.sink).1) := by
      split
      · exact h.endTagHint _ _ hp.2
      · exact h.startTagHint _ _ _ hp.2
    obtain ⟨h1, h2⟩ := key
    dsimp only
    split
    · rename_i e' hr; exact ⟨hp.1, h2 _ hr⟩
    · rename_i hr; exact ⟨hp.1, h1 _ hr⟩
    · rename_i hr; exact ⟨hp.1, h1 _ hr⟩

theorem ok_scanFinishTagName (h : OpsPreserveOk env.ops inp pc P Pe) (c : Common) (s : ScanRegs) (x : Ctx κ)
    (hp : CtxInv pc P x) : OkOr pc P Pe (scanFinishTagName env inp c s x) := by
  unfold scanFinishTagName
  split
  · exact OkOr.of_inv h.weaken hp
  · dsimp only
    split
    · exact OkOr.of_inv h.weaken hp
    · split
      · exact OkOr.of_inv h.weaken hp
      · exact ok_scanEmitHint h _ _ _ _ _ hp

theorem ok_scanAct (h : OpsPreserveOk env.ops inp pc P Pe) (a : ActName) (c : Common) (s : ScanRegs) (x : Ctx κ)
    (hp : CtxInv pc P x) : OkOr pc P Pe (scanAct env a inp c s x) := by
  cases a <;> simp only [scanAct]
  case finishTagName => exact ok_scanFinishTagName h _ _ _ hp
  all_goals (repeat' split) <;> exact OkOr.of_inv h.weaken hp

theorem scanAct_x (a : ActName) (ha : a.callsSink = false) (c : Common) (s : ScanRegs) (x : Ctx κ) :
    (scanAct env a inp c s x).1.x = x := by
  cases a <;> simp only [ActName.callsSink, Bool.true_eq_false] at ha <;> simp only [scanAct] <;>
    (repeat' split) <;> rfl

theorem ok_act (h : OpsPreserveOk env.ops inp pc P Pe) (a : ActName) (m : M κ) (hp : CtxInv pc P m.x) :
    OkOr pc P Pe (act env a inp m) := by
  unfold act
  split
  · exact ok_lexAct h _ _ _ _ hp
  · exact ok_scanAct h _ _ _ _ hp

theorem act_x (a : ActName) (ha : a.callsSink = false) (m : M κ) : (act env a inp m).1.x = m.x := by
  unfold act
  split
  · exact lexAct_x a ha _ _ _
  · exact scanAct_x a ha _ _ _

theorem ok_runCalls (h : OpsPreserveOk env.ops inp pc P Pe) (cs : List Call) (hc : cs.all Call.checked = true)
    (m : M κ) (hp : CtxInv pc P m.x) : OkOr pc P Pe (runCalls env inp cs m) := by
  induction cs generalizing m with
  | nil => exact ⟨hp.1, hp.2⟩
  | cons cl cs ih =>
    simp only [List.all_cons, Bool.and_eq_true] at hc
    simp only [runCalls]
    have h1 := ok_act h cl.act m hp
    split
    · rename_i s hs
      split
      · obtain ⟨a, b⟩ := h1
        rw [hs] at b
        exact ⟨a, b⟩
      · rename_i hq
        -- not written with `?`: then it is not a sink-calling action, the context is untouched
        have hns : cl.act.callsSink = false := by
          have := hc.1
          simp only [Call.checked, Bool.or_eq_true, Bool.not_eq_true'] at this
          rcases this with h | h
          · exact h
          · exact absurd h hq
        apply ih hc.2
        rw [act_x _ hns]
        exact hp
    · rename_i hs
      exact ih hc.2 _ (h1.inv hs)

theorem ok_runSeq (h : OpsPreserveOk env.ops inp pc P Pe) (s : ActSeq) (hc : s.calls.all Call.checked = true)
    (m : M κ) (hp : CtxInv pc P m.x) :
    OkOr pc P Pe ((runSeq env inp s m).1, (runSeq env inp s m).2.1) := by
  unfold runSeq
  have h1 := ok_runCalls h s.calls hc m hp
  dsimp only
  split
  · rename_i sig hs
    obtain ⟨a, b⟩ := h1
    rw [hs] at b
    exact ⟨a, b⟩
  · rename_i hs
    have hi := h1.inv hs
    split
    · exact ⟨hi.1, hi.2⟩
    · rename_i t _
      have hx := applyTrans_x (env := env) t (runCalls env inp s.calls m).1
      apply OkOr.of_inv h.weaken
      rw [hx]
      exact hi

theorem ok_runBody (h : OpsPreserveOk env.ops inp pc P Pe) (b : Body)
    (hc : (b.seqs.flatMap (·.calls)).all Call.checked = true) (m : M κ) (hp : CtxInv pc P m.x) :
    OkOr pc P Pe ((runBody env inp b m).1, (runBody env inp b m).2.1) := by
  cases b with
  | seq s =>
    simp only [Body.seqs, List.flatMap_cons, List.flatMap_nil, List.append_nil] at hc
    exact ok_runSeq h s hc m hp
  | ite c t e =>
    simp only [Body.seqs, List.flatMap_cons, List.flatMap_nil, List.append_nil, List.all_append, Bool.and_eq_true] at hc
    simp only [runBody]
    split
    · exact OkOr.of_inv h.weaken hp
    · exact ok_runSeq h _ hc.1 m hp
    · exact ok_runSeq h _ hc.2 m hp

def ArmsChecked (arms : List Arm) : Prop := ∀ a ∈ arms, (callsOfArm a).all Call.checked = true

theorem findArm_mem {tbl : Table} {c : Common} {ch : Option UInt8} {arms : List Arm} {a : Arm}
    (h : findArm tbl c ch arms = some a) : a ∈ arms := by
  induction arms with
  | nil => simp [findArm] at h
  | cons x xs ih =>
    simp only [findArm] at h
    split at h
    · simp only [Option.some.injEq] at h; subst h; exact List.mem_cons_self
    · exact List.mem_cons_of_mem _ (ih h)

/-- result of `runSeqArms`: a finished step, or the machine to go on with -/
def SumOk (pc : Nat) (P Pe : κ → Prop) : (M κ × Option Signal) ⊕ M κ → Prop
  | .inl r => OkOr pc P Pe r
  | .inr m => CtxInv pc P m.x

theorem ok_runSeqArms (h : OpsPreserveOk env.ops inp pc P Pe) (ch : Option UInt8) (arms : List Arm)
    (hc : ArmsChecked arms) (m : M κ) (hp : CtxInv pc P m.x) : SumOk pc P Pe (runSeqArms env inp ch arms m) := by
  induction arms generalizing m with
  | nil => exact hp
  | cons arm rest ih =>
    have hrest : ArmsChecked rest := fun a ha => hc a (List.mem_cons_of_mem _ ha)
    simp only [runSeqArms]
    split
    · split
      · exact ih hrest _ (by simpa [leaveSeq_x, enterSeq_x] using hp)
      · split
        · apply OkOr.of_inv' h.weaken
          rw [breakOnEndOfInput_x, enterSeq_x]
          exact hp
        · exact ih hrest _ (by simpa [leaveSeq_x, enterSeq_x] using hp)
        · simp only [SumOk]
          apply ok_runBody h _ (hc arm List.mem_cons_self)
          simpa [leaveSeq_x, enterSeq_x] using hp
    · exact ih hrest _ hp

theorem ok_dispatch (h : OpsPreserveOk env.ops inp pc P Pe) (ch : Option UInt8) (arms : List Arm)
    (hc : ArmsChecked arms) (m : M κ) (hp : CtxInv pc P m.x) : OkOr pc P Pe (dispatch env inp ch arms m) := by
  unfold dispatch
  have h1 := ok_runSeqArms h ch arms hc m hp
  split
  · rename_i r heq
    rw [heq] at h1
    exact h1
  · rename_i m' heq
    rw [heq] at h1
    simp only [SumOk] at h1
    split
    · exact OkOr.of_inv h.weaken h1
    · rename_i arm harm
      have h2 := ok_runBody h arm.body (hc arm (findArm_mem harm)) m' h1
      have brk : ∀ (r : M κ × Option Signal × SeqEnd), OkOr pc P Pe (r.1, r.2.1) →
          OkOr pc P Pe (match r.2.1, r.2.2 with
            | some sig, _ => (r.1, some sig)
            | none, .transitioned => (r.1, none)
            | none, .fell => breakOnEndOfInput inp r.1) := by
        intro r hr
        split
        · rename_i sig _ hs
          obtain ⟨a, b⟩ := hr
          try simp only at hs
          rw [hs] at b
          exact ⟨a, b⟩
        · rename_i hs _
          try simp only at hs
          have := hr.inv hs
          exact ⟨this.1, this.2⟩
        · rename_i hs _
          try simp only at hs
          have := hr.inv hs
          apply OkOr.of_inv' h.weaken
          rw [breakOnEndOfInput_x]
          exact this
      split
      · exact brk _ h2
      · split
        · exact brk _ h2
        · apply OkOr.of_inv' h.weaken
          rw [breakOnEndOfInput_x]
          exact h1
      · exact h2

theorem state_checked {t : Table} (ht : EmitsChecked t = true) {s : StateId} {sd : StateDef} (hs : t.state? s = some sd) :
    sd.enter.all Call.checked = true ∧ ArmsChecked sd.arms := by
  unfold EmitsChecked at ht
  rw [List.all_eq_true] at ht
  have hm : sd ∈ t.states := by
    unfold Table.state? at hs
    exact List.mem_of_getElem? hs
  have := ht sd hm
  simp only [Bool.and_eq_true, List.all_eq_true] at this
  refine ⟨by rw [List.all_eq_true]; exact this.1, fun a ha => ?_⟩
  rw [List.all_eq_true]
  exact this.2 a ha

theorem ok_stateFn (h : OpsPreserveOk env.ops inp pc P Pe) (ht : EmitsChecked env.tbl = true) (m : M κ)
    (hp : CtxInv pc P m.x) : OkOr pc P Pe (stateFn env inp m) := by
  unfold stateFn
  split
  · exact OkOr.of_inv h.weaken hp
  · rename_i sd hsd
    obtain ⟨he, ha⟩ := state_checked ht hsd
    dsimp only
    have hpre : OkOr pc P Pe (if (!sd.enter.isEmpty && !m.c.entered) = true then
        (let m1 : M κ := { m with c := { m.c with nextPos := m.c.nextPos + 1 } }
         let r := runCalls env inp sd.enter m1
         match r.2 with
         | some sig => (r.1, some sig)
         | none =>
           let m2 := r.1
           (({ m2 with c := { m2.c with nextPos := m2.c.nextPos - 1, entered := true } } : M κ), (none : Option Signal)))
        else (m, none)) := by
      split
      · have h1 := ok_runCalls h sd.enter he { m with c := { m.c with nextPos := m.c.nextPos + 1 } } hp
        dsimp only
        split
        · rename_i sig hs
          exact h1.split_some hs
        · rename_i hs
          have := h1.inv hs
          exact ⟨this.1, this.2⟩
      · exact ⟨hp.1, hp.2⟩
    split
    · rename_i sig hs
      exact hpre.split_some hs
    · rename_i hs
      have hi := hpre.inv hs
      split
      · split <;> exact ok_dispatch h _ _ ha _ hi
      · exact ok_dispatch h _ _ ha _ hi

theorem ok_runLoop (h : OpsPreserveOk env.ops inp pc P Pe) (ht : EmitsChecked env.tbl = true) (n : Nat) (m : M κ)
    (hp : CtxInv pc P m.x) : OkOr pc P Pe ((runLoop env inp n m).1, some (runLoop env inp n m).2) := by
  induction n generalizing m with
  | zero => exact OkOr.of_inv h.weaken hp
  | succ n ih =>
    simp only [runLoop]
    have h1 := ok_stateFn h ht m hp
    split
    · rename_i sig hs
      obtain ⟨a, b⟩ := h1
      rw [hs] at b
      exact ⟨a, b⟩
    · rename_i hs
      exact ih _ (h1.inv hs)

/-- **Preservation until the first error.** -/
theorem Parser.parseLoop_ok (h : OpsPreserveOk env.ops inp pc P Pe) (ht : EmitsChecked env.tbl = true) (last : Bool)
    (n : Nat) (p : Parser κ) (hp : CtxInv pc P p.x) :
    match (Parser.parseLoop env inp last n p).2 with
    | .ok c => P (Parser.parseLoop env inp last n p).1.x.sink ∧ (Parser.parseLoop env inp last n p).1.x.prevConsumed = pc + c
    | .error _ => Pe (Parser.parseLoop env inp last n p).1.x.sink ∧ (Parser.parseLoop env inp last n p).1.x.prevConsumed = pc := by
  induction n generalizing p with
  | zero => exact ⟨h.weaken _ hp.2, hp.1⟩
  | succ n ih =>
    simp only [Parser.parseLoop]
    have h1 := ok_runLoop h ht (defaultFuel inp) (p.machine last) (by simpa [Parser.machine_x] using hp)
    obtain ⟨a, b⟩ := h1
    simp only at a b
    cases hsig : (runLoop env inp (defaultFuel inp) (p.machine last)).2 with
    | endOfInput consumed =>
      simp only [hsig] at b ⊢
      exact ⟨by simpa [Parser.store_x] using b, by simp [Parser.store_x, a]⟩
    | directive d bm =>
      simp only [hsig] at b ⊢
      apply ih
      exact ⟨by simpa [loadBookmark_x, Parser.store_x] using a, by simpa [loadBookmark_x, Parser.store_x] using b⟩
    | err e =>
      simp only [hsig] at b ⊢
      cases e <;> exact ⟨by simpa [Parser.store_x] using b, by simpa [Parser.store_x] using a⟩

theorem Parser.parse_ok (h : OpsPreserveOk env.ops inp pc P Pe) (ht : EmitsChecked env.tbl = true) (last : Bool)
    (p : Parser κ) (hp : CtxInv pc P p.x) :
    match (Parser.parse env inp last p).2 with
    | .ok c => P (Parser.parse env inp last p).1.x.sink ∧ (Parser.parse env inp last p).1.x.prevConsumed = pc + c
    | .error _ => Pe (Parser.parse env inp last p).1.x.sink ∧ (Parser.parse env inp last p).1.x.prevConsumed = pc :=
  Parser.parseLoop_ok h ht last _ p hp

end
end LolHtml.Model
