import LolHtml.Lemmas.InvParse
import LolHtml.Lemmas.InvDisp
import LolHtml.Lemmas.StreamTiling
/-!
# C15 — `TransformStream::write` / `end` and the rewriter keep the invariant

`SInv` is the invariant of a transform stream between two calls: `remaining_content_start = 0`, and
the parser invariant `PInv` relative to the buffered tail (length 0 when nothing is buffered).
-/
namespace LolHtml.Model

variable {γ : Type}

/-- invariant of the transform stream between calls -/
def SInv (w : World γ) (s : Stream γ) : Prop :=
  s.disp.rcs = 0 ∧
  PInv w.tbl (if s.hasBuffered then s.buf.data.length else 0) (fun d : Disp γ => d.rcs) s.parser

/-- the parser invariant mentions the sink only through its watermark -/
theorem PInv_setSink {t : Table} {L : Nat} {W W' : Disp γ → Nat} {p : Parser (Disp γ)} (d : Disp γ)
    (h : PInv t L W p) (hw : W' d = W p.x.sink) : PInv t L W' { p with x := { p.x with sink := d } } := by
  obtain ⟨⟨a1, a2, sd, hsd, a3⟩, b⟩ := h
  refine ⟨?_, b⟩
  cases hd : p.directive with
  | lex =>
    simp only [Parser.machine, hd] at a1 a2 hsd a3 ⊢
    rw [hw]
    exact ⟨a1, a2, sd, hsd, a3⟩
  | scan =>
    simp only [Parser.machine, hd] at a1 a2 hsd a3 ⊢
    rw [hw]
    exact ⟨a1, a2, sd, hsd, a3⟩

section
variable {w : World γ}

theorem flushRemaining_ok (d : Disp γ) (inp : Bytes) (consumed : Nat) (h1 : d.rcs ≤ consumed)
    (h2 : consumed ≤ inp.length) : ∃ d', d.flushRemaining inp consumed = .ok d' ∧ d'.rcs = 0 := by
  unfold Disp.flushRemaining
  split
  · have : checkedSlice inp ⟨d.rcs, consumed⟩ = some (slice inp d.rcs consumed) := by
      unfold checkedSlice
      rw [if_pos ⟨h1, h2⟩]
    rw [this]
    exact ⟨_, rfl, rfl⟩
  · exact ⟨_, rfl, rfl⟩

theorem Stream.new_SInv (hw : Wf w.tbl) (g : γ) (cfg : Settings) : SInv w (Stream.new w g cfg) := by
  refine ⟨rfl, ?_⟩
  simp only [Stream.new]
  exact PInv_new w.tbl hw _ _ _ _ rfl

theorem Stream.keepTail_post {s : Stream γ} {data chunk : Bytes} {consumed : Nat}
    (hc : consumed ≤ chunk.length) (hbuf : s.hasBuffered = true → s.buf.data = chunk)
    (hnb : s.hasBuffered = false → data = chunk) (hr : s.disp.rcs = 0)
    (hp : PInv w.tbl (chunk.length - consumed) (fun d : Disp γ => d.rcs) s.parser) :
    (∀ e, (s.keepTail w data chunk consumed).2 = .error e → ErrOK U1 e) ∧
    ((s.keepTail w data chunk consumed).2 = .ok () → SInv w (s.keepTail w data chunk consumed).1) := by
  unfold Stream.keepTail
  by_cases hlt : consumed < chunk.length
  · simp only [hlt, if_true]
    by_cases hb : s.hasBuffered = true
    · simp only [hb, if_true]
      unfold Buf.shift
      rw [hbuf hb]
      simp only [hc, if_true]
      refine ⟨fun e h => (by cases h), fun _ => ⟨hr, ?_⟩⟩
      simp only [hb, if_true, List.length_drop]
      exact hp
    · have hb' : s.hasBuffered = false := by simpa using hb
      simp only [hb', Bool.false_eq_true, if_false]
      by_cases hi : (s.buf.initWith (data.drop consumed)).2 = true
      · simp only [hi, if_true]
        refine ⟨fun e h => (by cases h), fun _ => ⟨hr, ?_⟩⟩
        have := Buf.append_data { s.buf with data := [] } (data.drop consumed) (by simpa [Buf.initWith] using hi)
        simp only [if_true, Buf.initWith]
        rw [this, hnb hb']
        simpa using hp
      · simp only [hi, Bool.false_eq_true, if_false]
        refine ⟨fun e h => ?_, fun h => by cases h⟩
        simp only [Except.error.injEq] at h
        subst h
        simp [ErrOK]
  · simp only [hlt, if_false]
    refine ⟨fun e h => (by cases h), fun _ => ⟨hr, ?_⟩⟩
    have : chunk.length - consumed = 0 := by omega
    rw [this] at hp
    simpa using hp

/-- **One `write`**: no covered panic, and after a successful call the invariant holds again. -/
theorem Stream.write_post (hc : CtlClean w.ctl) (hw : Wf w.tbl) (s : Stream γ) (data : Bytes) (hs : SInv w s) :
    (∀ e, (s.write w data).2 = .error e → ErrOK U1 e) ∧
    ((s.write w data).2 = .ok () → SInv w (s.write w data).1) := by
  unfold Stream.write
  cases hcf : s.chunkFor w data with
  | inl s' =>
    refine ⟨fun e h => ?_, fun h => by cases h⟩
    simp only [Except.error.injEq] at h
    subst h
    simp [ErrOK]
  | inr sc =>
    obtain ⟨s1, chunk⟩ := sc
    obtain ⟨c1, c2, c3, c4, c5⟩ := Stream.chunkFor_inr hcf
    dsimp only
    obtain ⟨hrcs, hpinv⟩ := hs
    have hlen : (if s.hasBuffered then s.buf.data.length else 0) ≤ chunk.length := by
      rw [c1]
      simp only [Stream.pending, List.length_append]
      split <;> omega
    have hp1 : PInv w.tbl chunk.length (fun d : Disp γ => d.rcs) s1.parser := by
      rw [c2]; exact PInv_mono hpinv hlen
    have hpost := parse_post (env := w.env) (inp := chunk) (dispOps_safe hc) hw false s1.parser hp1
    unfold ParsePost at hpost
    cases hpr : (s1.parser.parse w.env chunk false).2 with
    | error e =>
      rw [hpr] at hpost
      dsimp only
      refine ⟨fun e' h => ?_, fun h => by cases h⟩
      simp only [Except.error.injEq] at h
      subst h
      exact hpost
    | ok consumed =>
      rw [hpr] at hpost
      obtain ⟨p1, p2, p3⟩ := hpost
      dsimp only at p1 p2 p3 ⊢
      obtain ⟨d, hfl, hd0⟩ := flushRemaining_ok (Stream.disp { s1 with parser := (s1.parser.parse w.env chunk false).1 })
        chunk consumed p1 p2
      rw [hfl]
      dsimp only
      apply Stream.keepTail_post p2
      · intro hb; exact c5 (by simpa [Stream.setDisp, c3] using hb)
      · intro hb
        have : s.hasBuffered = false := by simpa [Stream.setDisp, c3] using hb
        rw [c1]; simp [Stream.pending, this]
      · exact hd0
      · exact PInv_setSink d (p3 rfl) hd0

/-- **`end`**: no covered panic. -/
theorem Stream.end_post (hc : CtlClean w.ctl) (hw : Wf w.tbl) (s : Stream γ) (hs : SInv w s) :
    ∀ e, (s.end w).2 = .error e → ErrOK U1 e := by
  unfold Stream.end
  obtain ⟨hrcs, hpinv⟩ := hs
  have hp1 : PInv w.tbl (if s.hasBuffered then s.buf.data else []).length (fun d : Disp γ => d.rcs) s.parser := by
    split <;> rename_i hb <;> simpa [hb] using hpinv
  have hpost := parse_post (env := w.env) (dispOps_safe hc) hw true s.parser hp1
  unfold ParsePost at hpost
  dsimp only
  cases hpr : (s.parser.parse w.env (if s.hasBuffered then s.buf.data else []) true).2 with
  | error e =>
    rw [hpr] at hpost
    dsimp only
    intro e' h
    simp only [Except.error.injEq] at h
    subst h
    exact hpost
  | ok consumed =>
    rw [hpr] at hpost
    obtain ⟨p1, p2, _⟩ := hpost
    dsimp only
    intro e h
    unfold Disp.finish at h
    obtain ⟨d, hfl, hd0⟩ := flushRemaining_ok
      (Stream.disp { s with parser := (s.parser.parse w.env (if s.hasBuffered then s.buf.data else []) true).1 })
      (if s.hasBuffered then s.buf.data else []) _ (Nat.le_trans p1 p2) (Nat.le_refl _)
    rw [hfl] at h
    simp only [DRes.ofExcept, DRes.bind] at h
    split at h
    · rename_i e' herr
      simp only [Except.error.injEq] at h
      subst h
      exact ErrOK_of_clean (hc.handleEnd _ _ herr)
    · cases h

/-! ### the rewriter -/

def CallOK (U : String → Prop) : CallRes → Prop
  | .ok => True
  | .err e => ErrOK U e
  | .panicUseAfterError => True

/-- invariant of the public object: poisoned (then every call answers with the documented panic),
or the stream invariant holds -/
def RInv (w : World γ) (r : Rewriter γ) : Prop := r.poisoned = true ∨ SInv w r.stream

theorem Rewriter.write_post (hc : CtlClean w.ctl) (hw : Wf w.tbl) (r : Rewriter γ) (data : Bytes)
    (hr : RInv w r) : CallOK U1 (r.write w data).2 ∧ RInv w (r.write w data).1 := by
  unfold Rewriter.write
  by_cases hp : r.poisoned = true
  · simp only [hp, if_true]
    exact ⟨trivial, Or.inl hp⟩
  · have hs : SInv w r.stream := by rcases hr with h | h; exact absurd h hp; exact h
    simp only [hp, Bool.false_eq_true, if_false]
    obtain ⟨h1, h2⟩ := Stream.write_post hc hw r.stream data hs
    cases hres : (r.stream.write w data).2 with
    | ok u => exact ⟨trivial, Or.inr (h2 hres)⟩
    | error e => exact ⟨h1 e hres, Or.inl rfl⟩

theorem Rewriter.end_post (hc : CtlClean w.ctl) (hw : Wf w.tbl) (r : Rewriter γ) (hr : RInv w r) :
    CallOK U1 (r.end w).2 := by
  unfold Rewriter.end
  by_cases hp : r.poisoned = true
  · simp only [hp, if_true]
    trivial
  · have hs : SInv w r.stream := by rcases hr with h | h; exact absurd h hp; exact h
    simp only [hp, Bool.false_eq_true, if_false]
    have h1 := Stream.end_post hc hw r.stream hs
    cases hres : (r.stream.end w).2 with
    | ok u => trivial
    | error e => exact h1 e hres

end
end LolHtml.Model
