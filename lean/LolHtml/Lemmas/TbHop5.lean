import LolHtml.Lemmas.TbHop4
/-!
Preservation of the invariant: the table modes (§13.2.6.4.9–15).
-/
namespace LolHtml.Spec.TreeBuilder
open LolHtml.Model (Ns)

variable {b : Bool} {c : Cfg} {s : State}

/-- a rule that inserts a `colgroup` and switches to "in column group" -/
theorem invCol_insert (hI : Inv b s) (f : Tree → Tree) (hf : TreeOk (PNoCol b) (f s.tree)) (a : Attrs) :
    InvCol b { (s.onTree f).insertHtml .colgroup a with mode := .inColumnGroup } :=
  ⟨rfl, ⟨_, _, rfl, rfl, ⟨fun e he => hf.stack e he, hf.afe⟩⟩, hI.tmodes, hI.head⟩

/-- branches of the table rules: those of `hop_branch`, calls of "in body" / "in head", resets -/
syntax "table_branch" ident ident ident ident ident : tactic
macro_rules
  | `(tactic| table_branch $hleg:ident $hI:ident $h1:ident $h2:ident $htok:ident) => `(tactic| first
    | exact inBody_inv $hleg $hI $h1 $h2 _ $htok
    | exact inBody_other_inv $hleg $hI $h1 $h2 _ (fun _ _ _ h => by cases h)
    | exact inHead_inv $hI $h1 $h2 _ $htok (Or.inr rfl)
    | exact inHead_endTemplate_inv $hI $h1 $h2
    | (refine ⟨Or.inl (resetMode_inv $hleg ?_ (Inv.tmodes $hI :) (Inv.head $hI :)), rfl⟩; (try dsimp only [onTree_tree]); tree_ok)
    | (refine Or.inl (resetMode_inv $hleg ?_ (Inv.tmodes $hI :) (Inv.head $hI :)); (try dsimp only [onTree_tree]); tree_ok)
    | hop_branch $hI $h1 $h2)

set_option maxHeartbeats 8000000 in
theorem inTable_inv (hleg : c.legacySelect = false) (hI : Inv b s)
    (hm : s.mode = .inTable ∨ s.mode = .inTableBody ∨ s.mode = .inRow) (t : Token) (htok : TokOk b t) :
    InvPost b (inTable c s t) := by
  have h1 : s.mode ≠ .text := by rcases hm with h | h | h <;> simp [h]
  have h2 : s.mode ≠ .inTableText := by rcases hm with h | h | h <;> simp [h]
  cases t with
  | char cc =>
    simp only [inTable, inTableAnythingElse]
    split
    · refine ⟨Or.inl ⟨hI.tree, hI.tmodes, hI.head, ?_, by simp⟩, rfl⟩
      rcases hm with h | h | h <;> simp [MF, framesetModes, h]
    · exact inBody_other_inv hleg hI h1 h2 _ (fun _ _ _ h => by cases h)
  | comment => exact Or.inl hI
  | doctype d => exact Or.inl hI
  | eof => exact inBody_other_inv hleg hI h1 h2 .eof (fun _ _ _ h => by cases h)
  | start n sc a =>
    by_cases hcg : n = .colgroup
    · subst hcg
      eval_rule [inTable, inTableAnythingElse]
      refine Or.inr (invCol_insert hI _ ?_ a)
      (tree_ok)
    by_cases hcol : n = .col
    · subst hcol
      eval_rule [inTable, inTableAnythingElse]
      refine ⟨Or.inr (invCol_insert hI _ ?_ {}), rfl⟩
      (tree_ok)
    cases n <;> (try (exfalso; first | exact hcg rfl | exact hcol rfl | exact htok.2.2.1 rfl))
    all_goals eval_rule [inTable, inTableAnythingElse]
    all_goals (repeat' split)
    all_goals table_branch hleg hI h1 h2 htok
  | «end» n =>
    cases n
    all_goals eval_rule [inTable, inTableAnythingElse]
    all_goals (repeat' split)
    all_goals table_branch hleg hI h1 h2 htok

theorem flushPending_inv (hI : Inv b s) : Inv b (flushPending s) := by
  have hfold : ∀ (l : List CharClass) (s' : State), Inv b s' → Inv b (l.foldl inBodyChar s') := by
    intro l
    induction l with
    | nil => intro s' h; exact h
    | cons x xs ih => intro s' h; exact ih _ (inBodyChar_inv h x)
  have h0 : Inv b { s with pending := [] } := ⟨hI.tree, hI.tmodes, hI.head, hI.modes, hI.notCol⟩
  unfold flushPending
  simp only
  split
  · exact hfold _ _ h0
  · exact h0

theorem flushPending_mode (s : State) : (flushPending s).mode = s.mode ∧ (flushPending s).origMode = s.origMode := by
  have hfold : ∀ (l : List CharClass) (s' : State), (l.foldl inBodyChar s').mode = s'.mode ∧
      (l.foldl inBodyChar s').origMode = s'.origMode := by
    intro l
    induction l with
    | nil => intro s'; exact ⟨rfl, rfl⟩
    | cons x xs ih =>
      intro s'
      have := ih (inBodyChar s' x)
      cases x <;> simpa [inBodyChar] using this
  unfold flushPending
  simp only
  split
  · exact hfold _ _
  · exact ⟨rfl, rfl⟩

theorem inTableText_inv (hI : Inv b s) (hm : s.mode = .inTableText) (t : Token) : InvPost b (inTableText c s t) := by
  have key : InvPost b (Res.again { flushPending s with mode := (flushPending s).origMode }) := by
    have hf := flushPending_inv hI
    obtain ⟨e1, e2⟩ := flushPending_mode s
    obtain ⟨hmf, hcol⟩ := mf_restore (hm ▸ hI.modes) (Or.inr rfl)
    refine ⟨Or.inl ⟨hf.tree, hf.tmodes, hf.head, ?_, ?_⟩, rfl⟩
    · simpa [e2] using hmf
    · simpa [e2] using hcol
  cases t with
  | char cc =>
    cases cc
    · exact Or.inl hI
    · exact Or.inl ⟨hI.tree, hI.tmodes, hI.head, hI.modes, hI.notCol⟩
    · exact Or.inl ⟨hI.tree, hI.tmodes, hI.head, hI.modes, hI.notCol⟩
  | start n sc a => exact key
  | «end» n => exact key
  | comment => exact key
  | doctype d => exact key
  | eof => exact key

set_option maxHeartbeats 8000000 in
theorem inCaption_inv (hleg : c.legacySelect = false) (hI : Inv b s) (hm : s.mode = .inCaption) (t : Token)
    (htok : TokOk b t) : InvPost b (inCaption c s t) := by
  have h1 : s.mode ≠ .text := by simp [hm]
  have h2 : s.mode ≠ .inTableText := by simp [hm]
  cases t with
  | start n sc a =>
    cases n
    all_goals eval_rule [inCaption]
    all_goals (repeat' split)
    all_goals table_branch hleg hI h1 h2 htok
  | «end» n =>
    cases n
    all_goals eval_rule [inCaption]
    all_goals (repeat' split)
    all_goals table_branch hleg hI h1 h2 htok
  | char cc => exact inBody_other_inv hleg hI h1 h2 (.char cc) (fun _ _ _ h => by cases h)
  | comment => exact inBody_other_inv hleg hI h1 h2 .comment (fun _ _ _ h => by cases h)
  | doctype d => exact inBody_other_inv hleg hI h1 h2 (.doctype d) (fun _ _ _ h => by cases h)
  | eof => exact inBody_other_inv hleg hI h1 h2 .eof (fun _ _ _ h => by cases h)

set_option maxHeartbeats 8000000 in
theorem inTableBody_inv (hleg : c.legacySelect = false) (hI : Inv b s) (hm : s.mode = .inTableBody) (t : Token)
    (htok : TokOk b t) : InvPost b (inTableBody c s t) := by
  have h1 : s.mode ≠ .text := by simp [hm]
  have h2 : s.mode ≠ .inTableText := by simp [hm]
  have hT := fun t' (ht' : TokOk b t') => inTable_inv (c := c) hleg hI (Or.inr (Or.inl hm)) t' ht'
  cases t with
  | start n sc a =>
    cases n
    all_goals eval_rule [inTableBody]
    all_goals (repeat' split)
    all_goals first | exact hT _ htok | table_branch hleg hI h1 h2 htok
  | «end» n =>
    cases n
    all_goals eval_rule [inTableBody]
    all_goals (repeat' split)
    all_goals first | exact hT _ htok | table_branch hleg hI h1 h2 htok
  | char cc => exact hT _ htok
  | comment => exact hT _ htok
  | doctype d => exact hT _ htok
  | eof => exact hT _ htok

set_option maxHeartbeats 8000000 in
theorem inRow_inv (hleg : c.legacySelect = false) (hI : Inv b s) (hm : s.mode = .inRow) (t : Token)
    (htok : TokOk b t) : InvPost b (inRow c s t) := by
  have h1 : s.mode ≠ .text := by simp [hm]
  have h2 : s.mode ≠ .inTableText := by simp [hm]
  have hT := fun t' (ht' : TokOk b t') => inTable_inv (c := c) hleg hI (Or.inr (Or.inr hm)) t' ht'
  cases t with
  | start n sc a =>
    cases n
    all_goals eval_rule [inRow]
    all_goals (repeat' split)
    all_goals first | exact hT _ htok | table_branch hleg hI h1 h2 htok
  | «end» n =>
    cases n
    all_goals eval_rule [inRow]
    all_goals (repeat' split)
    all_goals first | exact hT _ htok | table_branch hleg hI h1 h2 htok
  | char cc => exact hT _ htok
  | comment => exact hT _ htok
  | doctype d => exact hT _ htok
  | eof => exact hT _ htok

set_option maxHeartbeats 8000000 in
theorem inCell_inv (hleg : c.legacySelect = false) (hI : Inv b s) (hm : s.mode = .inCell) (t : Token)
    (htok : TokOk b t) : InvPost b (inCell c s t) := by
  have h1 : s.mode ≠ .text := by simp [hm]
  have h2 : s.mode ≠ .inTableText := by simp [hm]
  cases t with
  | start n sc a =>
    cases n
    all_goals eval_rule [inCell, State.closeCell]
    all_goals (repeat' split)
    all_goals table_branch hleg hI h1 h2 htok
  | «end» n =>
    cases n
    all_goals eval_rule [inCell, State.closeCell]
    all_goals (repeat' split)
    all_goals table_branch hleg hI h1 h2 htok
  | char cc => exact inBody_other_inv hleg hI h1 h2 (.char cc) (fun _ _ _ h => by cases h)
  | comment => exact inBody_other_inv hleg hI h1 h2 .comment (fun _ _ _ h => by cases h)
  | doctype d => exact inBody_other_inv hleg hI h1 h2 (.doctype d) (fun _ _ _ h => by cases h)
  | eof => exact inBody_other_inv hleg hI h1 h2 .eof (fun _ _ _ h => by cases h)

end LolHtml.Spec.TreeBuilder
