import LolHtml.Lemmas.PhaseWalk
/-!
The two instances of the generic walk (`Lemmas/PhaseWalk.lean`) behind `C15_no_panic_full`:

* the tag scanner keeps `Good sink ∧ Inv sim ∧ ¬Pend sink`, and hands over with `Good ∧ Inv`;
* the lexer is either in *normal* mode (`fd = none`, no pending aux request) or *inside the re-lexed
  tag* (state labelled `inTag`, a tag token of the hinted kind, the simulator ready for the callback
  of an unhandled `RequestLexeme`).

In both, no action reports an error at a `U2` site.
-/
set_option linter.unusedSimpArgs false
set_option linter.unusedVariables false

namespace LolHtml.Model
open LolHtml.Lemmas.Sim (Inv callback_start_good callback_end_good)

variable {κ : Type}

/-! ### the simulator: when does it ask for the lexeme -/

/-- the simulator is in the state in which a `RequestLexeme k` for a tag of kind `isS` was issued -/
def CallbackReady (sim : Sim) (k : RLKind) (isS : Bool) : Prop :=
  (k ≠ .annotationXmlEnd → isS = true ∧ sim.currentNs ≠ .html) ∧
  (k = .annotationXmlEnd → isS = false ∧ ∃ top rest, sim.nsStack = sim.currentNs :: top :: rest)

theorem leaveNs_not_rl {s s' : Sim} {f : Feedback} (h : s.leaveNs = some (s', f)) (k : RLKind) : f ≠ .requestLexeme k := by
  unfold Sim.leaveNs at h
  split at h
  · simp only [Option.some.injEq, Prod.mk.injEq] at h
    obtain ⟨_, rfl⟩ := h
    intro hh; cases hh
  · cases h

theorem textTypeAdjustment_not_rl (cfg : TagCfg) (t : Nat) (k : RLKind) : textTypeAdjustment cfg t ≠ .requestLexeme k := by
  unfold textTypeAdjustment
  (repeat' split) <;> (intro hh; cases hh)

theorem startTagInForeign_rl {cfg : TagCfg} {s s' : Sim} {t : Nat} {k : RLKind}
    (h : s.startTagInForeign cfg t = some (s', .requestLexeme k)) : s' = s ∧ k ≠ .annotationXmlEnd := by
  unfold Sim.startTagInForeign at h
  split at h
  · exact absurd rfl (leaveNs_not_rl h k)
  · split at h
    · simp only [Option.some.injEq, Prod.mk.injEq, Feedback.requestLexeme.injEq] at h
      obtain ⟨rfl, rfl⟩ := h
      exact ⟨rfl, by intro hh; cases hh⟩
    · split at h
      · simp only [Option.some.injEq, Prod.mk.injEq, Feedback.requestLexeme.injEq] at h
        obtain ⟨rfl, rfl⟩ := h
        exact ⟨rfl, by intro hh; cases hh⟩
      · split at h
        · simp only [Option.some.injEq, Prod.mk.injEq, Feedback.requestLexeme.injEq] at h
          obtain ⟨rfl, rfl⟩ := h
          exact ⟨rfl, by intro hh; cases hh⟩
        · simp at h

theorem feedbackForStartTag_ready {cfg : TagCfg} {s s' : Sim} {t : Nat} {k : RLKind}
    (hf : s.feedbackForStartTag cfg t = .ok (s', .requestLexeme k)) : CallbackReady s' k true := by
  rw [LolHtml.Lemmas.Sim.start_eq] at hf
  split at hf
  · cases hf
  · rename_i s1 hg
    unfold LolHtml.Lemmas.Sim.startCore at hf
    split at hf
    · simp [Sim.enterNs] at hf
    · split at hf
      · simp [Sim.enterNs] at hf
      · split at hf
        · rename_i hne
          split at hf
          · rename_i r hr
            simp only [Except.ok.injEq] at hf
            subst hf
            obtain ⟨rfl, hk⟩ := startTagInForeign_rl hr
            refine ⟨fun _ => ⟨rfl, ?_⟩, fun hh => absurd hh hk⟩
            simpa using hne
          · cases hf
        · simp only [Except.ok.injEq, Prod.mk.injEq] at hf
          exact absurd hf.2 (textTypeAdjustment_not_rl _ _ _)

theorem checkIntegrationPointExit_rl {cfg : TagCfg} {s s' : Sim} {t : Nat} {k : RLKind}
    (h : s.checkIntegrationPointExit cfg t = some (s', .requestLexeme k)) :
    s' = s ∧ k = .annotationXmlEnd ∧ ∃ a prev rest, s.nsStack = a :: prev :: rest := by
  unfold Sim.checkIntegrationPointExit at h
  split at h
  · rename_i a prev rest hs
    split at h
    · exact absurd rfl (leaveNs_not_rl h k)
    · split at h
      · simp only [Option.some.injEq, Prod.mk.injEq, Feedback.requestLexeme.injEq] at h
        obtain ⟨rfl, rfl⟩ := h
        exact ⟨rfl, rfl, a, prev, rest, hs⟩
      · simp at h
  · simp at h

theorem feedbackForEndTag_ready {cfg : TagCfg} {s s' : Sim} {t : Nat} {k : RLKind} (hi : Inv s')
    (hf : s.feedbackForEndTag cfg t = .ok (s', .requestLexeme k)) : CallbackReady s' k false := by
  rw [LolHtml.Lemmas.Sim.end_eq] at hf
  split at hf
  · rename_i r hr
    simp only [Except.ok.injEq] at hf
    subst hf
    unfold LolHtml.Lemmas.Sim.endCore at hr
    split at hr
    · obtain ⟨rfl, rfl, a, prev, rest, hs⟩ := checkIntegrationPointExit_rl hr
      refine ⟨fun hh => absurd rfl hh, fun _ => ⟨rfl, prev, rest, ?_⟩⟩
      have := hi.top
      rw [hs] at this ⊢
      simp only [List.head?_cons, Option.some.injEq] at this
      rw [this]
    · split at hr
      · exact absurd rfl (leaveNs_not_rl hr k)
      · simp at hr
  · cases hf

theorem feedbackOf_ready {cfg : TagCfg} {s s' : Sim} {key : Bool × Nat} {k : RLKind} (hi : Inv s')
    (hf : feedbackOf cfg s key = .ok (s', .requestLexeme k)) : CallbackReady s' k key.1 := by
  unfold feedbackOf at hf
  cases hk : key.1 with
  | true => simp only [hk, if_true] at hf; exact feedbackForStartTag_ready hf
  | false => simp only [hk, Bool.false_eq_true, if_false] at hf; exact feedbackForEndTag_ready hi hf

/-- the simulator's own errors are never at a `U2` site -/
theorem feedbackForStartTag_noU2 {cfg : TagCfg} {s : Sim} {t : Nat} {e : Err}
    (h : s.feedbackForStartTag cfg t = .error e) : ¬ U3err e := by
  rw [LolHtml.Lemmas.Sim.start_eq] at h
  rcases LolHtml.Lemmas.Sim.guardStart_cases cfg s t with ⟨g, hg⟩ | ⟨_, hg⟩
  · rw [hg] at h
    dsimp only at h
    unfold LolHtml.Lemmas.Sim.startCore at h
    (repeat' split at h) <;> first | (cases h; done) | (simp only [Except.error.injEq] at h; subst h; simp [U3err, U2err, U2, guardSite])
  · rw [hg] at h
    simp only [Except.error.injEq] at h
    subst h
    simp [U3err, U2err, guardSite]

theorem feedbackForEndTag_noU2 {cfg : TagCfg} {s : Sim} {t : Nat} {e : Err}
    (h : s.feedbackForEndTag cfg t = .error e) : ¬ U3err e := by
  rw [LolHtml.Lemmas.Sim.end_eq] at h
  split at h
  · cases h
  · simp only [Except.error.injEq] at h; subst h; simp [U3err, U2err, U2, guardSite]


/-! ### the lexer's feedback handling -/

theorem tagViewFor_isStart {k : RLKind} {inp : Bytes} {tok : TagOutline} {v : TagView}
    (h : tagViewFor k inp tok = some v) : v.isStart = tok.isStart := by
  cases k <;> cases tok <;> simp only [tagViewFor] at h
  all_goals first
    | (simp only [Option.some.injEq] at h; subst h; rfl)
    | (simp only [Option.map_eq_some_iff] at h; obtain ⟨_, _, rfl⟩ := h; rfl)
    | skip
  · split at h
    · simp at h
    · split at h
      · simp only [Option.map_eq_some_iff] at h; obtain ⟨_, _, rfl⟩ := h; rfl
      · simp only [Option.some.injEq] at h; subst h; rfl

theorem lexGetFeedback_X {cfg : TagCfg} {sim : Sim} (hinv : Inv sim) (fd : FeedbackDirective) (tok : TagOutline)
    (hfd : ∀ k, fd = .applyUnhandled (.requestLexeme k) → CallbackReady sim k tok.isStart) :
    (∀ e, lexGetFeedback cfg sim fd tok = .error e → ¬ U3err e) ∧
    (∀ r, lexGetFeedback cfg sim fd tok = .ok r →
      Inv r.1 ∧ ∀ k, r.2 = some (.requestLexeme k) → CallbackReady r.1 k tok.isStart) := by
  unfold lexGetFeedback
  split
  · rename_i f
    refine ⟨fun e h => (by cases h), fun r h => ?_⟩
    simp only [Except.ok.injEq] at h
    subst h
    refine ⟨hinv, fun k hk => ?_⟩
    simp only [Option.some.injEq] at hk
    subst hk
    exact hfd k rfl
  · refine ⟨fun e h => (by cases h), fun r h => ?_⟩
    simp only [Except.ok.injEq] at h
    subst h
    exact ⟨hinv, fun k hk => by cases hk⟩
  · split
    · rename_i hsh _ _ _
      cases hfb : sim.feedbackForStartTag cfg hsh with
      | error e' =>
        refine ⟨fun e h => ?_, fun r h => by simp [Except.map] at h⟩
        simp [Except.map] at h; subst h; exact feedbackForStartTag_noU2 hfb
      | ok v =>
        refine ⟨fun e h => by simp [Except.map] at h, fun r h => ?_⟩
        simp [Except.map] at h; subst h
        refine ⟨(Sim.feedbackForStartTag_inv (cfg := cfg) hinv hsh).2 _ hfb, fun k hk => ?_⟩
        simp only [Option.some.injEq] at hk
        obtain ⟨v1, v2⟩ := v
        simp only at hk
        subst hk
        exact feedbackForStartTag_ready hfb
    · rename_i hsh
      cases hfb : sim.feedbackForEndTag cfg hsh with
      | error e' =>
        refine ⟨fun e h => ?_, fun r h => by simp [Except.map] at h⟩
        simp [Except.map] at h; subst h; exact feedbackForEndTag_noU2 hfb
      | ok v =>
        refine ⟨fun e h => by simp [Except.map] at h, fun r h => ?_⟩
        simp [Except.map] at h; subst h
        have hi' := (Sim.feedbackForEndTag_inv (cfg := cfg) hinv hsh).2 _ hfb
        refine ⟨hi', fun k hk => ?_⟩
        simp only [Option.some.injEq] at hk
        obtain ⟨v1, v2⟩ := v
        simp only at hk
        subst hk
        exact feedbackForEndTag_ready hi' hfb

/-- `handle_tree_builder_feedback` on a ready simulator: no `U2` error, the simulator invariant kept -/
theorem lexHandleFeedback_X (inp : Bytes) (c : Common) (sim : Sim) (f : Feedback) (o : TagOutline) (hi : Inv sim)
    (hr : ∀ k, f = .requestLexeme k → CallbackReady sim k o.isStart) :
    (∀ e, lexHandleFeedback inp c sim f o = .error e → ¬ U3err e) ∧
    (∀ r, lexHandleFeedback inp c sim f o = .ok r → Inv r.2) := by
  have hsimple : ∀ (c : Common) (sim : Sim) (f : Feedback), Lemmas.Sim.Inv sim →
      (∀ e : Err, (match f with
        | .switchTextType t => (.ok ({ c with lastTextType := t }, sim) : Except Err (Common × Sim))
        | .setAllowCdata b => .ok ({ c with cdataAllowed := b }, sim)
        | .none => .ok (c, sim)
        | .requestLexeme _ => .error (.panic "nested RequestLexeme")) = .error e → ¬ U3err e) ∧
      (∀ r : Common × Sim, (match f with
        | .switchTextType t => (.ok ({ c with lastTextType := t }, sim) : Except Err (Common × Sim))
        | .setAllowCdata b => .ok ({ c with cdataAllowed := b }, sim)
        | .none => .ok (c, sim)
        | .requestLexeme _ => .error (.panic "nested RequestLexeme")) = .ok r → Lemmas.Sim.Inv r.2) := by
    intro c sim f hi
    cases f
    all_goals refine ⟨fun e h => ?_, fun r h => ?_⟩
    all_goals first
      | (cases h; done)
      | (simp only [Except.ok.injEq] at h; subst h; exact hi)
      | (simp only [Except.error.injEq] at h; subst h; simp [U3err, U2err, U2, guardSite])
  unfold lexHandleFeedback
  dsimp only
  cases f with
  | requestLexeme k =>
    dsimp only
    obtain ⟨hstart, hend⟩ := hr k rfl
    cases hv : tagViewFor k inp o with
    | none =>
      refine ⟨fun e h => ?_, fun r h => by cases h⟩
      simp only [Except.error.injEq] at h; subst h; simp [U3err, U2err, U2, guardSite]
    | some v =>
      have hvs := tagViewFor_isStart hv
      dsimp only
      have hcb : ∃ s' fb, sim.runCallback k v = some (s', fb) := by
        by_cases hk : k = .annotationXmlEnd
        · subst hk
          obtain ⟨h1, top, rest, h2⟩ := hend rfl
          obtain ⟨s', fb, h3, _⟩ := callback_end_good sim hi top rest h2 v (by rw [hvs]; exact h1)
          exact ⟨s', fb, h3⟩
        · obtain ⟨h1, h2⟩ := hstart hk
          obtain ⟨s', fb, h3, _⟩ := callback_start_good sim hi h2 k hk v (by rw [hvs]; exact h1)
          exact ⟨s', fb, h3⟩
      obtain ⟨s', fb, hcb⟩ := hcb
      rw [hcb]
      dsimp only
      exact hsimple c s' fb (Sim.runCallback_inv hi hcb)
  | switchTextType t => exact hsimple c sim (.switchTextType t) hi
  | setAllowCdata b => exact hsimple c sim (.setAllowCdata b) hi
  | none => exact hsimple c sim .none hi

/-! ### the scanner instance -/

section
variable {env : Env κ} {inp : Bytes} {Pend : κ → Bool} {Good : κ → Prop} {K : Bool} {Uerr : Err → Prop}

/-- scanner: the sink flags are consistent, nothing is pending, the simulator invariant holds -/
def ScanX (Pend : κ → Bool) (Good : κ → Prop) (_ab : Ab) (m : M κ) : Prop :=
  m.isScanner = true ∧ Good m.x.sink ∧ Inv m.x.sim ∧ Pend m.x.sink = false

/-- scanner hand-over -/
def ScanJ (Good : κ → Prop) (d : Directive) (_bm : Bookmark) (m : M κ) : Prop :=
  d = .lex ∧ m.isScanner = true ∧ Good m.x.sink ∧ Inv m.x.sim

/-- outcome of an action: `A` on the machine if it did not signal, a non-`U2` error, or a hand-over -/
def SigPost (Uerr : Err → Prop) (A : M κ → Prop) (Jx : Directive → Bookmark → M κ → Prop) (r : M κ × Option Signal) : Prop :=
  match r.2 with
  | none => A r.1
  | some (.err e) => ¬ Uerr e
  | some (.directive d bm) => Jx d bm r.1
  | some (.endOfInput _) => False

theorem scanEmitHint_X (hx : XLaws env.ops inp Pend Good K Uerr) (c : Common) (s : ScanRegs) (x : Ctx κ) (ts : Nat) (iet : Bool)
    (hg : Good x.sink) (hi : Inv x.sim) (hp : Pend x.sink = false) (ab : Ab) :
    SigPost Uerr (ScanX Pend Good ab) (ScanJ Good) (scanEmitHint env inp c s x ts iet) := by
  unfold scanEmitHint
  split
  · exact hx.noU (by simp [U3err, U2err, U2, guardSite])
  · rename_i name _
    dsimp only
    cases iet with
    | true =>
      simp only [if_true]
      have g := hx.goodE name x.sink hg hp
      cases hr : (env.ops.endTagHint name x.sink).2 with
      | error e => exact hx.errE _ _ _ hr
      | ok d =>
        cases d with
        | scan => exact ⟨rfl, g, hi, hx.hint.end_ name x.sink hp hr⟩
        | lex => exact ⟨rfl, rfl, g, hi⟩
    | false =>
      simp only [Bool.false_eq_true, if_false]
      have g := hx.goodS name x.sim.currentNs x.sink hg hp
      cases hr : (env.ops.startTagHint name x.sim.currentNs x.sink).2 with
      | error e => exact hx.errS _ _ _ _ hr
      | ok d =>
        cases d with
        | scan => exact ⟨rfl, g, hi, hx.hint.start name _ x.sink hp hr⟩
        | lex => exact ⟨rfl, rfl, g, hi⟩

theorem scanFinishTagName_X (hx : XLaws env.ops inp Pend Good K Uerr) (c : Common) (s : ScanRegs) (x : Ctx κ)
    (hg : Good x.sink) (hi : Inv x.sim) (hp : Pend x.sink = false) (ab : Ab) :
    SigPost Uerr (ScanX Pend Good ab) (ScanJ Good) (scanFinishTagName env inp c s x) := by
  unfold scanFinishTagName
  split
  · exact hx.noU (by simp [U3err, U2err, U2, guardSite])
  · rename_i ts _
    dsimp only
    have hfb : ∀ r, (if s.isInEndTag = true then x.sim.feedbackForEndTag env.cfg s.tagNameHash
        else x.sim.feedbackForStartTag env.cfg s.tagNameHash) = r →
        (∀ e, r = .error e → ¬ U3err e) ∧ (∀ v, r = .ok v → Lemmas.Sim.Inv v.1) := by
      intro r hr
      subst hr
      cases s.isInEndTag with
      | true =>
        simp only [if_true]
        exact ⟨fun e h => feedbackForEndTag_noU2 h, (Sim.feedbackForEndTag_inv (cfg := env.cfg) hi _).2⟩
      | false =>
        simp only [Bool.false_eq_true, if_false]
        exact ⟨fun e h => feedbackForStartTag_noU2 h, (Sim.feedbackForStartTag_inv (cfg := env.cfg) hi _).2⟩
    split
    · rename_i e he
      exact hx.noU ((hfb _ he).1 e rfl)
    · rename_i sf he
      have hi' := (hfb _ he).2 sf rfl
      try dsimp only
      split
      · exact ⟨rfl, rfl, hg, hi'⟩
      · exact scanEmitHint_X hx _ _ { x with sim := sf.1 } _ _ hg hi' hp ab

theorem scanAct_ret (a : ActName) (ha : a ≠ .finishTagName) (c : Common) (s : ScanRegs) (x : Ctx κ) :
    ∃ c' s', scanAct env a inp c s x = (⟨c', .scanner s', x⟩, none) := by
  cases a <;> simp only [scanAct]
  case finishTagName => exact absurd rfl ha
  all_goals first
    | exact ⟨_, _, rfl⟩
    | (split <;> exact ⟨_, _, rfl⟩)

theorem scan_phinv (hx : XLaws env.ops inp Pend Good K Uerr) : PhInv env inp Uerr (ScanX Pend Good) (ScanJ Good) where
  sub := hx.sub
  frame := fun ab m c' h => h
  adjust := by
    intro ab m h
    obtain ⟨c, s, x, rfl⟩ := scanner_destruct m h.1
    unfold adjustForNextInput
    dsimp only
    split <;> exact h
  enter := by
    intro ab m h
    obtain ⟨c, s, x, rfl⟩ := scanner_destruct m h.1
    exact h
  leave := by
    intro ab m h
    obtain ⟨c, s, x, rfl⟩ := scanner_destruct m h.1
    exact h
  le := fun ab ab' m _ h => h
  act := by
    intro a ab ab' m h _
    obtain ⟨c, s, x, rfl⟩ := scanner_destruct m h.1
    obtain ⟨_, hg, hi, hp⟩ := h
    simp only [act]
    by_cases hfin : a = .finishTagName
    · subst hfin
      simp only [scanAct]
      have := scanFinishTagName_X (inp := inp) hx c s x hg hi hp ab'
      unfold SigPost at this
      cases hs : (scanFinishTagName env inp c s x).2 with
      | none => simp only [hs] at this ⊢; exact this
      | some sig =>
        cases sig with
        | err e => simp only [hs] at this ⊢; exact ⟨this, fun hh => by simp [silentAct] at hh⟩
        | directive d bm => simp only [hs] at this ⊢; exact ⟨rfl, this⟩
        | endOfInput k => simp only [hs] at this
    · obtain ⟨c', s', hr⟩ := scanAct_ret (env := env) (inp := inp) a hfin c s x
      rw [hr]
      exact ⟨rfl, hg, hi, hp⟩

end


/-! ### the lexer instance -/

section
variable {env : Env κ} {inp : Bytes} {Pend : κ → Bool} {Good : κ → Prop} {K : Bool} {Uerr : Err → Prop}

/-- normal mode: no feedback directive left over from the scanner, no aux-info request pending -/
def LNormal (Pend : κ → Bool) (fd : FeedbackDirective) (x : Ctx κ) : Prop := fd = .none ∧ Pend x.sink = false

/-- inside the re-lexed tag: a tag token of the hinted kind (a pending request belongs to a start tag;
the simulator is ready for the callback of an unhandled request) -/
def LInTag (Pend : κ → Bool) (K : Bool) (fd : FeedbackDirective) (ct : Option TagOutline) (x : Ctx κ) : Prop :=
  ∃ tok, ct = some tok ∧ (Pend x.sink = true → tok.isStart = K) ∧
    ∀ k, fd = .applyUnhandled (.requestLexeme k) → CallbackReady x.sim k tok.isStart

def LCore (Pend : κ → Bool) (Good : κ → Prop) (K : Bool) (ab : Ab) (fd : FeedbackDirective) (ct : Option TagOutline) (x : Ctx κ) : Prop :=
  Good x.sink ∧ Inv x.sim ∧ (LNormal Pend fd x ∨ (ab = .inTag ∧ LInTag Pend K fd ct x))

def LexX (Pend : κ → Bool) (Good : κ → Prop) (K : Bool) (ab : Ab) (m : M κ) : Prop :=
  ∃ c l x, m = ⟨c, .lexer l, x⟩ ∧ LCore Pend Good K ab l.fd l.curTag x

def LexJ (Pend : κ → Bool) (Good : κ → Prop) (d : Directive) (bm : Bookmark) (m : M κ) : Prop :=
  d = .scan ∧ bm.fd = .none ∧ ∃ c l x, m = ⟨c, .lexer l, x⟩ ∧ Good x.sink ∧ Inv x.sim ∧ LNormal Pend l.fd x

/-- the machine satisfies `A`, and the signal is nothing or a non-`U2` error -/
def Quiet (Uerr : Err → Prop) (A : M κ → Prop) (r : M κ × Option Signal) : Prop :=
  A r.1 ∧ (r.2 = none ∨ ∃ e, r.2 = some (.err e) ∧ ¬ Uerr e)

theorem Quiet.act {Uerr : Err → Prop} {A : M κ → Prop} {Jx : Directive → Bookmark → M κ → Prop} {a : ActName} {r : M κ × Option Signal}
    (h : Quiet Uerr A r) :
    match r.2 with
    | none => A r.1
    | some (.err e) => ¬ Uerr e ∧ (silentAct a = true → A r.1)
    | some (.directive d bm) => silentAct a = false ∧ Jx d bm r.1
    | some (.endOfInput _) => False := by
  obtain ⟨h1, h2⟩ := h
  rcases h2 with h2 | ⟨e, h2, h3⟩
  · rw [h2]; exact h1
  · rw [h2]; exact ⟨h3, fun _ => h1⟩

theorem LCore.sink {ab : Ab} {fd : FeedbackDirective} {ct : Option TagOutline} {x : Ctx κ} (h : LCore Pend Good K ab fd ct x)
    (s' : κ) (hg : Good x.sink → Good s') (hp : Pend s' = Pend x.sink) : LCore Pend Good K ab fd ct { x with sink := s' } := by
  obtain ⟨h1, h2, h3⟩ := h
  refine ⟨hg h1, h2, ?_⟩
  rcases h3 with ⟨a, b⟩ | ⟨a, tok, b1, b2, b3⟩
  · exact Or.inl ⟨a, by rw [hp]; exact b⟩
  · exact Or.inr ⟨a, tok, b1, fun hh => b2 (by rw [← hp]; exact hh), b3⟩

theorem LCore.tag {ab : Ab} {fd : FeedbackDirective} {ct ct' : Option TagOutline} {x : Ctx κ} (h : LCore Pend Good K ab fd ct x)
    (hk : ∀ tok, ct = some tok → ∃ tok', ct' = some tok' ∧ tok'.isStart = tok.isStart) : LCore Pend Good K ab fd ct' x := by
  obtain ⟨h1, h2, h3⟩ := h
  refine ⟨h1, h2, ?_⟩
  rcases h3 with h3 | ⟨a, tok, b1, b2, b3⟩
  · exact Or.inl h3
  · obtain ⟨tok', t1, t2⟩ := hk tok b1
    exact Or.inr ⟨a, tok', t1, fun hh => by rw [t2]; exact b2 hh, fun k hk' => by rw [t2]; exact b3 k hk'⟩

theorem LCore.out {ab ab' : Ab} {fd : FeedbackDirective} {ct ct' : Option TagOutline} {x : Ctx κ}
    (h : LCore Pend Good K ab fd ct x) (hab : ab ≠ .inTag) : LCore Pend Good K ab' fd ct' x := by
  obtain ⟨h1, h2, h3⟩ := h
  refine ⟨h1, h2, ?_⟩
  rcases h3 with h3 | ⟨a, _⟩
  · exact Or.inl h3
  · exact absurd a hab

theorem lexEmitNonTag_L (hx : XLaws env.ops inp Pend Good K Uerr) (c : Common) (l : LexRegs) (x : Ctx κ) (o : Option NonTagOutline)
    (e : Nat) (ab : Ab) (h : LCore Pend Good K ab l.fd l.curTag x) :
    Quiet Uerr (fun m => ∃ l' x', m = ⟨c, .lexer l', x'⟩ ∧ LCore Pend Good K ab l'.fd l'.curTag x')
      (lexEmitNonTag env inp c l x o e) := by
  unfold lexEmitNonTag
  dsimp only
  have hc := h.sink (env.ops.handleNonTag inp ⟨x.prevConsumed, ⟨l.lexemeStart, e⟩, o⟩ x.sink).1 (hx.goodNT _ _) (hx.pendNT _ _)
  cases hr : (env.ops.handleNonTag inp ⟨x.prevConsumed, ⟨l.lexemeStart, e⟩, o⟩ x.sink).2 with
  | ok u => exact ⟨⟨_, _, rfl, hc⟩, Or.inl rfl⟩
  | error e' => exact ⟨⟨_, _, rfl, hc⟩, Or.inr ⟨e', rfl, hx.errNT _ _ _ hr⟩⟩

theorem lexEmitText_L (hx : XLaws env.ops inp Pend Good K Uerr) (c : Common) (l : LexRegs) (x : Ctx κ)
    (ab : Ab) (h : LCore Pend Good K ab l.fd l.curTag x) :
    Quiet Uerr (fun m => ∃ l' x', m = ⟨c, .lexer l', x'⟩ ∧ LCore Pend Good K ab l'.fd l'.curTag x')
      (lexEmitText env inp c l x) := by
  unfold lexEmitText
  split
  · exact lexEmitNonTag_L hx c l x _ _ ab h
  · exact ⟨⟨_, _, rfl, h⟩, Or.inl rfl⟩

theorem andThen_eof_L (hx : XLaws env.ops inp Pend Good K Uerr) (c : Common) (ab : Ab) (r : M κ × Option Signal)
    (h : Quiet Uerr (fun m => ∃ l' x', m = ⟨c, .lexer l', x'⟩ ∧ LCore Pend Good K ab l'.fd l'.curTag x') r) :
    Quiet Uerr (fun m => ∃ l' x', m = ⟨c, .lexer l', x'⟩ ∧ LCore Pend Good K ab l'.fd l'.curTag x')
      (andThen r (lexEmitEof env inp)) := by
  unfold andThen
  obtain ⟨⟨l', x', hm, hc⟩, h2⟩ := h
  rcases h2 with h2 | ⟨e, h2, h3⟩
  · rw [h2]
    dsimp only
    rw [hm]
    unfold lexEmitEof
    dsimp only
    exact lexEmitNonTag_L hx c l' x' _ _ ab hc
  · rw [h2]
    exact ⟨⟨l', x', hm, hc⟩, Or.inr ⟨e, rfl, h3⟩⟩

theorem lexStampTag_isStart (c : Common) (sim : Sim) (tok : TagOutline) : (lexStampTag c sim tok).2.isStart = tok.isStart := by
  cases tok <;> rfl

theorem lexEmitTagLexeme_L (hx : XLaws env.ops inp Pend Good K Uerr) (c : Common) (l : LexRegs) (x : Ctx κ) (sim : Sim)
    (tok : TagOutline) (e : Nat) (ab : Ab) (hfd : l.fd = .none) (hg : Good x.sink) (hi : Inv sim)
    (hpend : Pend x.sink = true → tok.isStart = K) :
    SigPost Uerr (LexX Pend Good K ab) (LexJ Pend Good) (lexEmitTagLexeme env inp c l x sim tok e) := by
  unfold lexEmitTagLexeme
  dsimp only
  have g := hx.goodT ⟨x.prevConsumed, ⟨l.lexemeStart, e⟩, tok⟩ x.sink hg hpend
  cases hr : (env.ops.handleTag inp ⟨x.prevConsumed, ⟨l.lexemeStart, e⟩, tok⟩ x.sink).2 with
  | error e' =>
    show ¬ Uerr e'
    intro hu
    obtain ⟨p1, p2⟩ := hx.errT _ _ _ hr hu
    have := hpend p1
    simp only at p2
    rw [p2] at this
    cases K <;> cases this
  | ok d =>
    have p := hx.pendT _ _ d hg hr
    cases d with
    | lex => exact ⟨_, _, _, rfl, g, hi, Or.inl ⟨hfd, p⟩⟩
    | scan => exact ⟨rfl, rfl, _, _, _, rfl, g, hi, hfd, p⟩

theorem lexEmitTag_L (hx : XLaws env.ops inp Pend Good K Uerr) (c : Common) (l : LexRegs) (x : Ctx κ) (ab ab' : Ab)
    (h : LCore Pend Good K ab l.fd l.curTag x) :
    SigPost Uerr (LexX Pend Good K ab') (LexJ Pend Good) (lexEmitTag env inp c l x) := by
  obtain ⟨hg, hi, hmode⟩ := h
  unfold lexEmitTag
  cases hct : l.curTag with
  | none => exact hx.noU (by simp [U3err, U2err, U2, guardSite])
  | some tok =>
    dsimp only
    have hfd : ∀ k, l.fd = .applyUnhandled (.requestLexeme k) → CallbackReady x.sim k tok.isStart := by
      rcases hmode with ⟨a, _⟩ | ⟨_, tok', b1, _, b3⟩
      · intro k hk; rw [a] at hk; cases hk
      · rw [hct] at b1; simp only [Option.some.injEq] at b1; subst b1; exact b3
    have hpend : Pend x.sink = true → tok.isStart = K := by
      rcases hmode with ⟨_, b⟩ | ⟨_, tok', b1, b2, _⟩
      · intro hh; rw [b] at hh; cases hh
      · rw [hct] at b1; simp only [Option.some.injEq] at b1; subst b1; exact b2
    obtain ⟨g1, g2⟩ := lexGetFeedback_X (cfg := env.cfg) hi l.fd tok hfd
    cases hgf : lexGetFeedback env.cfg x.sim l.fd tok with
    | error e => exact hx.noU (g1 e hgf)
    | ok sf =>
      obtain ⟨hi1, hready⟩ := g2 sf hgf
      dsimp only
      cases hsf : sf.2 with
      | none =>
        dsimp only
        apply lexEmitTagLexeme_L hx _ _ _ _ _ _ _ rfl hg hi1
        rw [lexStampTag_isStart]; exact hpend
      | some f =>
        dsimp only
        obtain ⟨k1, k2⟩ := lexHandleFeedback_X inp { c with lastTextType := .data } sf.1 f tok hi1
          (fun k hk => hready k (by rw [hsf, hk]))
        cases hh : lexHandleFeedback inp { c with lastTextType := .data } sf.1 f tok with
        | error e => exact hx.noU (k1 e hh)
        | ok cs =>
          dsimp only
          apply lexEmitTagLexeme_L hx _ _ _ _ _ _ _ rfl hg (k2 cs hh)
          rw [lexStampTag_isStart]; exact hpend


/-- actions that only edit lexer registers, keeping the feedback directive and the kind of the tag token -/
def plainAct : ActName → Bool
  | .createDoctype | .createComment | .startTokenPart | .markCommentTextEnd | .shiftCommentTextEndBy _
  | .setForceQuirks | .finishDoctypeName | .finishDoctypePublicId | .finishDoctypeSystemId
  | .markAsSelfClosing | .startAttr | .finishAttrName | .finishAttrValue | .finishAttr
  | .setClosingQuoteToDouble | .setClosingQuoteToSingle
  | .markTagStart | .unmarkTagStart | .enterCdata | .leaveCdata => true
  | _ => false

theorem lexAct_plain (a : ActName) (ha : plainAct a = true) (c : Common) (l : LexRegs) (x : Ctx κ) :
    ∃ c' l', lexAct env a inp c l x = (⟨c', .lexer l', x⟩, none) ∧ l'.fd = l.fd ∧
      ∀ tok, l.curTag = some tok → ∃ tok', l'.curTag = some tok' ∧ tok'.isStart = tok.isStart := by
  cases a <;> simp only [plainAct, Bool.false_eq_true] at ha <;> simp only [lexAct]
  case markAsSelfClosing =>
    split
    · rename_i n h ns as sc heq
      refine ⟨_, _, rfl, rfl, fun tok ht => ?_⟩
      rw [heq] at ht
      simp only [Option.some.injEq] at ht
      subst ht
      exact ⟨_, rfl, rfl⟩
    · exact ⟨_, _, rfl, rfl, fun tok ht => ⟨tok, ht, rfl⟩⟩
  case finishAttr =>
    split
    · split
      · rename_i n h ns as sc heq
        refine ⟨_, _, rfl, rfl, fun tok ht => ?_⟩
        rw [heq] at ht
        simp only [Option.some.injEq] at ht
        subst ht
        exact ⟨_, rfl, rfl⟩
      · exact ⟨_, _, rfl, rfl, fun tok ht => ⟨tok, ht, rfl⟩⟩
    · exact ⟨_, _, rfl, rfl, fun tok ht => ⟨tok, ht, rfl⟩⟩
  all_goals first
    | exact ⟨_, _, rfl, rfl, fun tok ht => ⟨tok, ht, rfl⟩⟩
    | (split <;> exact ⟨_, _, rfl, rfl, fun tok ht => ⟨tok, ht, rfl⟩⟩)

theorem align_isStart (t : TagOutline) (o : Nat) : (t.align o).isStart = t.isStart := by
  cases t <;> rfl

theorem lex_phinv (hx : XLaws env.ops inp Pend Good K Uerr) : PhInv env inp Uerr (LexX Pend Good K) (LexJ Pend Good) where
  sub := hx.sub
  frame := by
    intro ab m c' ⟨c, l, x, hm, h⟩
    subst hm
    exact ⟨c', l, x, rfl, h⟩
  adjust := by
    intro ab m ⟨c, l, x, hm, h⟩
    subst hm
    refine ⟨c, _, x, rfl, ?_⟩
    apply h.tag
    intro tok ht
    simp only [ht, Option.map_some]
    exact ⟨_, rfl, align_isStart _ _⟩
  enter := by
    intro ab m ⟨c, l, x, hm, h⟩
    subst hm
    exact ⟨c, l, x, rfl, h⟩
  leave := by
    intro ab m ⟨c, l, x, hm, h⟩
    subst hm
    exact ⟨c, l, x, rfl, h⟩
  le := by
    intro ab ab' m hle ⟨c, l, x, hm, h1, h2, h3⟩
    refine ⟨c, l, x, hm, h1, h2, ?_⟩
    rcases h3 with h3 | ⟨a, b⟩
    · exact Or.inl h3
    · subst a
      cases ab' <;> simp [Ab.le] at hle
      exact Or.inr ⟨rfl, b⟩
  act := by
    intro a ab ab' m ⟨c, l, x, hm, h⟩ hp
    subst hm
    simp only [act]
    have hmono : ∀ {r : M κ × Option Signal} {ab1 : Ab},
        Quiet Uerr (fun m => ∃ l' x', m = ⟨c, .lexer l', x'⟩ ∧ LCore Pend Good K ab1 l'.fd l'.curTag x') r →
        Quiet Uerr (LexX Pend Good K ab1) r := by
      intro r ab1 ⟨⟨l', x', e1, e2⟩, q⟩
      exact ⟨⟨c, l', x', e1, e2⟩, q⟩
    by_cases hplain : plainAct a = true
    · obtain ⟨c', l', hr, hfd, htag⟩ := lexAct_plain (env := env) (inp := inp) a hplain c l x
      rw [hr]
      have hab : ab' = ab := by
        cases a <;> simp only [plainAct, Bool.false_eq_true] at hplain <;> cases ab <;> simp [phAct] at hp <;> exact hp.symm
      subst hab
      refine ⟨c', l', x, rfl, ?_⟩
      rw [hfd]
      exact h.tag htag
    · cases a <;> simp only [plainAct, not_true_eq_false] at hplain <;> simp only [lexAct]
      case emitText =>
        have hab : ab' = ab := by cases ab <;> simp [phAct] at hp <;> exact hp.symm
        subst hab
        exact (hmono (lexEmitText_L hx c l x ab' h)).act
      case emitTextAndEof =>
        have hab : ab' = ab := by cases ab <;> simp [phAct] at hp <;> exact hp.symm
        subst hab
        exact (hmono (andThen_eof_L hx c ab' _ (lexEmitText_L hx c l x ab' h))).act
      case emitCurrentToken =>
        have hab : ab' = ab := by cases ab <;> simp [phAct] at hp <;> exact hp.symm
        subst hab
        exact (hmono (lexEmitNonTag_L hx c { l with curNonTag := none } x _ _ ab' h)).act
      case emitCurrentTokenAndEof =>
        have hab : ab' = ab := by cases ab <;> simp [phAct] at hp <;> exact hp.symm
        subst hab
        exact (hmono (andThen_eof_L hx c ab' _ (lexEmitNonTag_L hx c { l with curNonTag := none } x _ _ ab' h))).act
      case emitRawWithoutToken =>
        have hab : ab' = ab := by cases ab <;> simp [phAct] at hp <;> exact hp.symm
        subst hab
        exact (hmono (lexEmitNonTag_L hx c l x _ _ ab' h)).act
      case emitRawWithoutTokenAndEof =>
        have hab : ab' = ab := by cases ab <;> simp [phAct] at hp <;> exact hp.symm
        subst hab
        exact (hmono (andThen_eof_L hx c ab' _ (lexEmitNonTag_L hx c l x _ _ ab' h))).act
      case emitTag =>
        have := lexEmitTag_L (inp := inp) hx c l x ab ab' h
        unfold SigPost at this
        cases hs : (lexEmitTag env inp c l x).2 with
        | none => simp only [hs] at this ⊢; exact this
        | some sig =>
          cases sig with
          | err e => simp only [hs] at this ⊢; exact ⟨this, fun hh => by simp [silentAct] at hh⟩
          | directive d bm => simp only [hs] at this ⊢; exact ⟨rfl, this⟩
          | endOfInput k => simp only [hs] at this
      case createStartTag =>
        have hab : ab ≠ .inTag := by intro hh; subst hh; simp [phAct] at hp
        exact ⟨c, _, x, rfl, h.out hab⟩
      case createEndTag =>
        have hab : ab ≠ .inTag := by intro hh; subst hh; simp [phAct] at hp
        exact ⟨c, _, x, rfl, h.out hab⟩
      case finishTagName =>
        have hab : ab ≠ .inTag := by intro hh; subst hh; simp [phAct] at hp
        cases hct : l.curTag with
        | some t => exact ⟨c, _, x, rfl, h.out hab⟩
        | none => exact ⟨hx.noU (by simp [U3err, U2err, U2, guardSite]), fun hh => by simp [silentAct] at hh⟩
      case updateTagNameHash =>
        have hab : ab ≠ .inTag := by intro hh; subst hh; simp [phAct] at hp
        cases hb : inp[c.pos]? with
        | none => exact ⟨c, _, x, rfl, h.out hab⟩
        | some ch =>
          cases hct : l.curTag with
          | some t => exact ⟨c, _, x, rfl, h.out hab⟩
          | none => exact ⟨hx.noU (by simp [U3err, U2err, U2, guardSite]), fun _ => ⟨c, _, x, rfl, h.out hab⟩⟩

end

end LolHtml.Model
