import LolHtml.Lemmas.PhaseWalk
/-!
The two instances of the generic walk (`Lemmas/PhaseWalk.lean`) behind `C15_no_panic_full`:

* the tag scanner keeps `Good sink ∧ Inv sim ∧ ¬Pend sink`, and hands over with `Good ∧ Inv`;
* the lexer is either in *normal* mode (`fd = none`, no pending aux request) or *inside the re-lexed
  tag* (state labelled `inTag`, a tag token of the hinted kind, the simulator ready for the callback
  of an unhandled `RequestLexeme`).

In both, no action reports an error at a `U2` site.
-/
set_option linter.unusedSimpArgs false
set_option linter.unusedVariables false

namespace LolHtml.Model
open LolHtml.Lemmas.Sim (Inv callback_start_good callback_end_good)

variable {κ : Type}

/-! ### the simulator: when does it ask for the lexeme -/

/-- the simulator is in the state in which a `RequestLexeme k` for a tag of kind `isS` was issued -/
def CallbackReady (sim : Sim) (k : RLKind) (isS : Bool) : Prop :=
  (k ≠ .annotationXmlEnd → isS = true ∧ sim.currentNs ≠ .html) ∧
  (k = .annotationXmlEnd → isS = false ∧ ∃ top rest, sim.nsStack = sim.currentNs :: top :: rest)

theorem leaveNs_not_rl {s s' : Sim} {f : Feedback} (h : s.leaveNs = some (s', f)) (k : RLKind) : f ≠ .requestLexeme k := by
  unfold Sim.leaveNs at h
  split at h
  · simp only [Option.some.injEq, Prod.mk.injEq] at h
    obtain ⟨_, rfl⟩ := h
    intro hh; cases hh
  · cases h

theorem textTypeAdjustment_not_rl (cfg : TagCfg) (t : Nat) (k : RLKind) : textTypeAdjustment cfg t ≠ .requestLexeme k := by
  unfold textTypeAdjustment
  (repeat' split) <;> (intro hh; cases hh)

theorem startTagInForeign_rl {cfg : TagCfg} {s s' : Sim} {t : Nat} {k : RLKind}
    (h : s.startTagInForeign cfg t = some (s', .requestLexeme k)) : s' = s ∧ k ≠ .annotationXmlEnd := by
  unfold Sim.startTagInForeign at h
  split at h
  · exact absurd rfl (leaveNs_not_rl h k)
  · split at h
    · simp only [Option.some.injEq, Prod.mk.injEq, Feedback.requestLexeme.injEq] at h
      obtain ⟨rfl, rfl⟩ := h
      exact ⟨rfl, by intro hh; cases hh⟩
    · split at h
      · simp only [Option.some.injEq, Prod.mk.injEq, Feedback.requestLexeme.injEq] at h
        obtain ⟨rfl, rfl⟩ := h
        exact ⟨rfl, by intro hh; cases hh⟩
      · split at h
        · simp only [Option.some.injEq, Prod.mk.injEq, Feedback.requestLexeme.injEq] at h
          obtain ⟨rfl, rfl⟩ := h
          exact ⟨rfl, by intro hh; cases hh⟩
        · simp at h

theorem feedbackForStartTag_ready {cfg : TagCfg} {s s' : Sim} {t : Nat} {k : RLKind}
    (hf : s.feedbackForStartTag cfg t = .ok (s', .requestLexeme k)) : CallbackReady s' k true := by
  rw [LolHtml.Lemmas.Sim.start_eq] at hf
  split at hf
  · cases hf
  · rename_i s1 hg
    unfold LolHtml.Lemmas.Sim.startCore at hf
    split at hf
    · simp [Sim.enterNs] at hf
    · split at hf
      · simp [Sim.enterNs] at hf
      · split at hf
        · rename_i hne
          split at hf
          · rename_i r hr
            simp only [Except.ok.injEq] at hf
            subst hf
            obtain ⟨rfl, hk⟩ := startTagInForeign_rl hr
            refine ⟨fun _ => ⟨rfl, ?_⟩, fun hh => absurd hh hk⟩
            simpa using hne
          · cases hf
        · simp only [Except.ok.injEq, Prod.mk.injEq] at hf
          exact absurd hf.2 (textTypeAdjustment_not_rl _ _ _)

theorem checkIntegrationPointExit_rl {cfg : TagCfg} {s s' : Sim} {t : Nat} {k : RLKind}
    (h : s.checkIntegrationPointExit cfg t = some (s', .requestLexeme k)) :
    s' = s ∧ k = .annotationXmlEnd ∧ ∃ a prev rest, s.nsStack = a :: prev :: rest := by
  unfold Sim.checkIntegrationPointExit at h
  split at h
  · rename_i a prev rest hs
    split at h
    · exact absurd rfl (leaveNs_not_rl h k)
    · split at h
      · simp only [Option.some.injEq, Prod.mk.injEq, Feedback.requestLexeme.injEq] at h
        obtain ⟨rfl, rfl⟩ := h
        exact ⟨rfl, rfl, a, prev, rest, hs⟩
      · simp at h
  · simp at h

theorem feedbackForEndTag_ready {cfg : TagCfg} {s s' : Sim} {t : Nat} {k : RLKind} (hi : Inv s')
    (hf : s.feedbackForEndTag cfg t = .ok (s', .requestLexeme k)) : CallbackReady s' k false := by
  rw [LolHtml.Lemmas.Sim.end_eq] at hf
  split at hf
  · rename_i r hr
    simp only [Except.ok.injEq] at hf
    subst hf
    unfold LolHtml.Lemmas.Sim.endCore at hr
    split at hr
    · obtain ⟨rfl, rfl, a, prev, rest, hs⟩ := checkIntegrationPointExit_rl hr
      refine ⟨fun hh => absurd rfl hh, fun _ => ⟨rfl, prev, rest, ?_⟩⟩
      have := hi.top
      rw [hs] at this ⊢
      simp only [List.head?_cons, Option.some.injEq] at this
      rw [this]
    · split at hr
      · exact absurd rfl (leaveNs_not_rl hr k)
      · simp at hr
  · cases hf

theorem feedbackOf_ready {cfg : TagCfg} {s s' : Sim} {key : Bool × Nat} {k : RLKind} (hi : Inv s')
    (hf : feedbackOf cfg s key = .ok (s', .requestLexeme k)) : CallbackReady s' k key.1 := by
  unfold feedbackOf at hf
  cases hk : key.1 with
  | true => simp only [hk, if_true] at hf; exact feedbackForStartTag_ready hf
  | false => simp only [hk, Bool.false_eq_true, if_false] at hf; exact feedbackForEndTag_ready hi hf

/-- the simulator's own errors are never at a `U2` site -/
theorem feedbackForStartTag_noU2 {cfg : TagCfg} {s : Sim} {t : Nat} {e : Err}
    (h : s.feedbackForStartTag cfg t = .error e) : ¬ U2err e := by
  rw [LolHtml.Lemmas.Sim.start_eq] at h
  rcases LolHtml.Lemmas.Sim.guardStart_cases cfg s t with ⟨g, hg⟩ | ⟨_, hg⟩
  · rw [hg] at h
    dsimp only at h
    unfold LolHtml.Lemmas.Sim.startCore at h
    (repeat' split at h) <;> first | (cases h; done) | (simp only [Except.error.injEq] at h; subst h; simp [U2err, U2])
  · rw [hg] at h
    simp only [Except.error.injEq] at h
    subst h
    simp [U2err]

theorem feedbackForEndTag_noU2 {cfg : TagCfg} {s : Sim} {t : Nat} {e : Err}
    (h : s.feedbackForEndTag cfg t = .error e) : ¬ U2err e := by
  rw [LolHtml.Lemmas.Sim.end_eq] at h
  split at h
  · cases h
  · simp only [Except.error.injEq] at h; subst h; simp [U2err, U2]


/-! ### the lexer's feedback handling -/

theorem tagViewFor_isStart {k : RLKind} {inp : Bytes} {tok : TagOutline} {v : TagView}
    (h : tagViewFor k inp tok = some v) : v.isStart = tok.isStart := by
  cases k <;> cases tok <;> simp only [tagViewFor] at h
  all_goals first
    | (simp only [Option.some.injEq] at h; subst h; rfl)
    | (simp only [Option.map_eq_some_iff] at h; obtain ⟨_, _, rfl⟩ := h; rfl)
    | skip
  · split at h
    · simp at h
    · split at h
      · simp only [Option.map_eq_some_iff] at h; obtain ⟨_, _, rfl⟩ := h; rfl
      · simp only [Option.some.injEq] at h; subst h; rfl

theorem lexGetFeedback_X {cfg : TagCfg} {sim : Sim} (hinv : Inv sim) (fd : FeedbackDirective) (tok : TagOutline)
    (hfd : ∀ k, fd = .applyUnhandled (.requestLexeme k) → CallbackReady sim k tok.isStart) :
    (∀ e, lexGetFeedback cfg sim fd tok = .error e → ¬ U2err e) ∧
    (∀ r, lexGetFeedback cfg sim fd tok = .ok r →
      Inv r.1 ∧ ∀ k, r.2 = some (.requestLexeme k) → CallbackReady r.1 k tok.isStart) := by
  unfold lexGetFeedback
  split
  · rename_i f
    refine ⟨fun e h => (by cases h), fun r h => ?_⟩
    simp only [Except.ok.injEq] at h
    subst h
    refine ⟨hinv, fun k hk => ?_⟩
    simp only [Option.some.injEq] at hk
    subst hk
    exact hfd k rfl
  · refine ⟨fun e h => (by cases h), fun r h => ?_⟩
    simp only [Except.ok.injEq] at h
    subst h
    exact ⟨hinv, fun k hk => by cases hk⟩
  · split
    · rename_i hsh _ _ _
      cases hfb : sim.feedbackForStartTag cfg hsh with
      | error e' =>
        refine ⟨fun e h => ?_, fun r h => by simp [Except.map] at h⟩
        simp [Except.map] at h; subst h; exact feedbackForStartTag_noU2 hfb
      | ok v =>
        refine ⟨fun e h => by simp [Except.map] at h, fun r h => ?_⟩
        simp [Except.map] at h; subst h
        refine ⟨(Sim.feedbackForStartTag_inv (cfg := cfg) hinv hsh).2 _ hfb, fun k hk => ?_⟩
        simp only [Option.some.injEq] at hk
        obtain ⟨v1, v2⟩ := v
        simp only at hk
        subst hk
        exact feedbackForStartTag_ready hfb
    · rename_i hsh
      cases hfb : sim.feedbackForEndTag cfg hsh with
      | error e' =>
        refine ⟨fun e h => ?_, fun r h => by simp [Except.map] at h⟩
        simp [Except.map] at h; subst h; exact feedbackForEndTag_noU2 hfb
      | ok v =>
        refine ⟨fun e h => by simp [Except.map] at h, fun r h => ?_⟩
        simp [Except.map] at h; subst h
        have hi' := (Sim.feedbackForEndTag_inv (cfg := cfg) hinv hsh).2 _ hfb
        refine ⟨hi', fun k hk => ?_⟩
        simp only [Option.some.injEq] at hk
        obtain ⟨v1, v2⟩ := v
        simp only at hk
        subst hk
        exact feedbackForEndTag_ready hi' hfb

/-- `handle_tree_builder_feedback` on a ready simulator: no `U2` error, the simulator invariant kept -/
theorem lexHandleFeedback_X (inp : Bytes) (c : Common) (sim : Sim) (f : Feedback) (o : TagOutline) (hi : Inv sim)
    (hr : ∀ k, f = .requestLexeme k → CallbackReady sim k o.isStart) :
    (∀ e, lexHandleFeedback inp c sim f o = .error e → ¬ U2err e) ∧
    (∀ r, lexHandleFeedback inp c sim f o = .ok r → Inv r.2) := by
  have hsimple : ∀ (c : Common) (sim : Sim) (f : Feedback), Lemmas.Sim.Inv sim →
      (∀ e : Err, (match f with
        | .switchTextType t => (.ok ({ c with lastTextType := t }, sim) : Except Err (Common × Sim))
        | .setAllowCdata b => .ok ({ c with cdataAllowed := b }, sim)
        | .none => .ok (c, sim)
        | .requestLexeme _ => .error (.panic "nested RequestLexeme")) = .error e → ¬ U2err e) ∧
      (∀ r : Common × Sim, (match f with
        | .switchTextType t => (.ok ({ c with lastTextType := t }, sim) : Except Err (Common × Sim))
        | .setAllowCdata b => .ok ({ c with cdataAllowed := b }, sim)
        | .none => .ok (c, sim)
        | .requestLexeme _ => .error (.panic "nested RequestLexeme")) = .ok r → Lemmas.Sim.Inv r.2) := by
    intro c sim f hi
    cases f
    all_goals refine ⟨fun e h => ?_, fun r h => ?_⟩
    all_goals first
      | (cases h; done)
      | (simp only [Except.ok.injEq] at h; subst h; exact hi)
      | (simp only [Except.error.injEq] at h; subst h; simp [U2err, U2])
  unfold lexHandleFeedback
  dsimp only
  cases f with
  | requestLexeme k =>
    dsimp only
    obtain ⟨hstart, hend⟩ := hr k rfl
    cases hv : tagViewFor k inp o with
    | none =>
      refine ⟨fun e h => ?_, fun r h => by cases h⟩
      simp only [Except.error.injEq] at h; subst h; simp [U2err, U2]
    | some v =>
      have hvs := tagViewFor_isStart hv
      dsimp only
      have hcb : ∃ s' fb, sim.runCallback k v = some (s', fb) := by
        by_cases hk : k = .annotationXmlEnd
        · subst hk
          obtain ⟨h1, top, rest, h2⟩ := hend rfl
          obtain ⟨s', fb, h3, _⟩ := callback_end_good sim hi top rest h2 v (by rw [hvs]; exact h1)
          exact ⟨s', fb, h3⟩
        · obtain ⟨h1, h2⟩ := hstart hk
          obtain ⟨s', fb, h3, _⟩ := callback_start_good sim hi h2 k hk v (by rw [hvs]; exact h1)
          exact ⟨s', fb, h3⟩
      obtain ⟨s', fb, hcb⟩ := hcb
      rw [hcb]
      dsimp only
      exact hsimple c s' fb (Sim.runCallback_inv hi hcb)
  | switchTextType t => exact hsimple c sim (.switchTextType t) hi
  | setAllowCdata b => exact hsimple c sim (.setAllowCdata b) hi
  | none => exact hsimple c sim .none hi

/-! ### the scanner instance -/

section
variable {env : Env κ} {inp : Bytes} {Pend : κ → Bool} {Good : κ → Prop}

/-- scanner: the sink flags are consistent, nothing is pending, the simulator invariant holds -/
def ScanX (Pend : κ → Bool) (Good : κ → Prop) (_ab : Ab) (m : M κ) : Prop :=
  m.isScanner = true ∧ Good m.x.sink ∧ Inv m.x.sim ∧ Pend m.x.sink = false

/-- scanner hand-over -/
def ScanJ (Good : κ → Prop) (d : Directive) (_bm : Bookmark) (m : M κ) : Prop :=
  d = .lex ∧ m.isScanner = true ∧ Good m.x.sink ∧ Inv m.x.sim

/-- outcome of an action: `A` on the machine if it did not signal, a non-`U2` error, or a hand-over -/
def SigPost (A : M κ → Prop) (Jx : Directive → Bookmark → M κ → Prop) (r : M κ × Option Signal) : Prop :=
  match r.2 with
  | none => A r.1
  | some (.err e) => ¬ U2err e
  | some (.directive d bm) => Jx d bm r.1
  | some (.endOfInput _) => False

theorem scanEmitHint_X (hx : XLaws env.ops inp Pend Good) (c : Common) (s : ScanRegs) (x : Ctx κ) (ts : Nat) (iet : Bool)
    (hg : Good x.sink) (hi : Inv x.sim) (hp : Pend x.sink = false) (ab : Ab) :
    SigPost (ScanX Pend Good ab) (ScanJ Good) (scanEmitHint env inp c s x ts iet) := by
  unfold scanEmitHint
  split
  · simp [SigPost, U2err, U2]
  · rename_i name _
    dsimp only
    cases iet with
    | true =>
      simp only [if_true]
      have g := hx.goodE name x.sink hg hp
      have p := hx.hint.end_ name x.sink hp
      cases hr : (env.ops.endTagHint name x.sink).2 with
      | error e => exact hx.errE _ _ _ hr
      | ok d =>
        cases d with
        | scan => exact ⟨rfl, g, hi, p⟩
        | lex => exact ⟨rfl, rfl, g, hi⟩
    | false =>
      simp only [Bool.false_eq_true, if_false]
      have g := hx.goodS name x.sim.currentNs x.sink hg hp
      cases hr : (env.ops.startTagHint name x.sim.currentNs x.sink).2 with
      | error e => exact hx.errS _ _ _ _ hr
      | ok d =>
        cases d with
        | scan => exact ⟨rfl, g, hi, hx.hint.start name _ x.sink hp hr⟩
        | lex => exact ⟨rfl, rfl, g, hi⟩

theorem scanFinishTagName_X (hx : XLaws env.ops inp Pend Good) (c : Common) (s : ScanRegs) (x : Ctx κ)
    (hg : Good x.sink) (hi : Inv x.sim) (hp : Pend x.sink = false) (ab : Ab) :
    SigPost (ScanX Pend Good ab) (ScanJ Good) (scanFinishTagName env inp c s x) := by
  unfold scanFinishTagName
  split
  · simp [SigPost, U2err, U2]
  · rename_i ts _
    dsimp only
    have hfb : ∀ r, (if s.isInEndTag = true then x.sim.feedbackForEndTag env.cfg s.tagNameHash
        else x.sim.feedbackForStartTag env.cfg s.tagNameHash) = r →
        (∀ e, r = .error e → ¬ U2err e) ∧ (∀ v, r = .ok v → Lemmas.Sim.Inv v.1) := by
      intro r hr
      subst hr
      cases s.isInEndTag with
      | true =>
        simp only [if_true]
        exact ⟨fun e h => feedbackForEndTag_noU2 h, (Sim.feedbackForEndTag_inv (cfg := env.cfg) hi _).2⟩
      | false =>
        simp only [Bool.false_eq_true, if_false]
        exact ⟨fun e h => feedbackForStartTag_noU2 h, (Sim.feedbackForStartTag_inv (cfg := env.cfg) hi _).2⟩
    split
    · rename_i e he
      exact (hfb _ he).1 e rfl
    · rename_i sf he
      have hi' := (hfb _ he).2 sf rfl
      try dsimp only
      split
      · exact ⟨rfl, rfl, hg, hi'⟩
      · exact scanEmitHint_X hx _ _ { x with sim := sf.1 } _ _ hg hi' hp ab

theorem scanAct_ret (a : ActName) (ha : a ≠ .finishTagName) (c : Common) (s : ScanRegs) (x : Ctx κ) :
    ∃ c' s', scanAct env a inp c s x = (⟨c', .scanner s', x⟩, none) := by
  cases a <;> simp only [scanAct]
  case finishTagName => exact absurd rfl ha
  all_goals first
    | exact ⟨_, _, rfl⟩
    | (split <;> exact ⟨_, _, rfl⟩)

theorem scan_phinv (hx : XLaws env.ops inp Pend Good) : PhInv env inp (ScanX Pend Good) (ScanJ Good) where
  frame := fun ab m c' h => h
  adjust := by
    intro ab m h
    obtain ⟨c, s, x, rfl⟩ := scanner_destruct m h.1
    unfold adjustForNextInput
    dsimp only
    split <;> exact h
  enter := by
    intro ab m h
    obtain ⟨c, s, x, rfl⟩ := scanner_destruct m h.1
    exact h
  leave := by
    intro ab m h
    obtain ⟨c, s, x, rfl⟩ := scanner_destruct m h.1
    exact h
  le := fun ab ab' m _ h => h
  act := by
    intro a ab ab' m h _
    obtain ⟨c, s, x, rfl⟩ := scanner_destruct m h.1
    obtain ⟨_, hg, hi, hp⟩ := h
    simp only [act]
    by_cases hfin : a = .finishTagName
    · subst hfin
      simp only [scanAct]
      have := scanFinishTagName_X (inp := inp) hx c s x hg hi hp ab'
      unfold SigPost at this
      cases hs : (scanFinishTagName env inp c s x).2 with
      | none => simp only [hs] at this ⊢; exact this
      | some sig =>
        cases sig with
        | err e => simp only [hs] at this ⊢; exact ⟨this, fun hh => by simp [silentAct] at hh⟩
        | directive d bm => simp only [hs] at this ⊢; exact ⟨rfl, this⟩
        | endOfInput k => simp only [hs] at this
    · obtain ⟨c', s', hr⟩ := scanAct_ret (env := env) (inp := inp) a hfin c s x
      rw [hr]
      exact ⟨rfl, hg, hi, hp⟩

end

end LolHtml.Model
