/-
Lemmas.SelRefine — towards `C04_vm_refines_css`: predicates vs compounds (negation flattening is
correct exactly for `:not()` arguments that are single simple selectors), the program denotation the VM
computes, tries and the compiled layout.
-/
import LolHtml.Lemmas.SelStack

set_option linter.unusedSimpArgs false
namespace LolHtml.SelVM
open LolHtml LolHtml.Sel LolHtml.Spec.Css

/-! ## ASCII lower-casing -/

set_option maxRecDepth 100000 in
theorem asciiLower_idem_fin :
    ∀ n : Fin 256, asciiLower (asciiLower (UInt8.ofNat n.val)) = asciiLower (UInt8.ofNat n.val) := by
  decide +kernel

theorem asciiLower_idem (b : UInt8) : asciiLower (asciiLower b) = asciiLower b := by
  have := asciiLower_idem_fin ⟨b.toNat, b.toNat_lt⟩
  simpa using this

theorem asciiLowerBytes_idem (bs : Bytes) : asciiLowerBytes (asciiLowerBytes bs) = asciiLowerBytes bs := by
  simp [asciiLowerBytes, asciiLower_idem]

/-! ## predicates against compounds -/

/-- the selector state of an element of the induced tree -/
def stateOf (nth : Bool) (e : Elem) : SelectorState :=
  ⟨e.childIndex, if nth then some e.typeIndex else none⟩

def matcherOf (e : Elem) : AttributeMatcher := ⟨e.tag.attrs, e.tag.ns == .html⟩

/-- value of a tag-name expression when the typed counter is available -/
def tagExprB (e : Elem) (x : Expr OnTagNameExpr) : Bool :=
  let r := match x.simpleExpr with
    | .explicitAny => true
    | .unmatchable => false
    | .localName n => localNameEq e.tag.name n
    | .nthChild a b => hasIndex a b e.childIndex
    | .nthOfType a b => hasIndex a b e.typeIndex
  if x.negation then !r else r

def predB (p : Predicate) (e : Elem) : Bool :=
  p.onTagNameExprs.all (tagExprB e) && p.onAttrExprs.all (evalAttrExpr (matcherOf e))

/-- simple selectors other than `:not()` -/
def Simple.isPlain : Simple → Bool
  | .not _ => false
  | _ => true

/-- `:not()` arguments are single plain simple selectors (lists of them are fine) -/
def Simple.notsSimple : Simple → Bool
  | .not args => args.all fun c =>
      match c with
      | [s] => Simple.isPlain s
      | _ => false
  | _ => true

def compoundOk (c : Compound) : Bool := c.all Simple.notsSimple

theorem getValue_eq_attrValue (e : Elem) (n : Bytes) :
    (matcherOf e).getValue (asciiLowerBytes n) = attrValue e.tag n := by
  simp [AttributeMatcher.getValue, attrValue, matcherOf, eqIgnoreAsciiCase]

theorem lower_idAttr : asciiLowerBytes idAttr = idAttr := by decide
theorem lower_classAttr : asciiLowerBytes classAttr = classAttr := by decide

/-- one plain component, added with sign `neg` -/
theorem predB_addSimple_plain (p : Predicate) (neg : Bool) (s : Simple) (hs : Simple.isPlain s = true) (e : Elem) :
    predB (Predicate.addSimple p neg s) e = (predB p e && (neg != matchesSimple codeLeaf e s)) := by
  cases s with
  | not args => simp [Simple.isPlain] at hs
  | type n =>
    simp only [Predicate.addSimple, Predicate.addComponent, Condition.ofSimple, predB, List.all_append,
      List.all_cons, List.all_nil, Bool.and_true, tagExprB, matchesSimple]
    cases neg <;> simp [Bool.and_assoc, Bool.and_comm, Bool.and_left_comm]
  | universal =>
    simp only [Predicate.addSimple, Predicate.addComponent, Condition.ofSimple, predB, List.all_append,
      List.all_cons, List.all_nil, Bool.and_true, tagExprB, matchesSimple]
    cases neg <;> simp [Bool.and_assoc, Bool.and_comm, Bool.and_left_comm]
  | id v =>
    simp only [Predicate.addSimple, Predicate.addComponent, Condition.ofSimple, predB, List.all_append,
      List.all_cons, List.all_nil, Bool.and_true, evalAttrExpr, matchesSimple, AttributeMatcher.hasId]
    rw [← lower_idAttr, getValue_eq_attrValue, lower_idAttr]
    cases attrValue e.tag idAttr <;> cases neg <;> simp [Bool.and_assoc]
  | cls v =>
    simp only [Predicate.addSimple, Predicate.addComponent, Condition.ofSimple, predB, List.all_append,
      List.all_cons, List.all_nil, Bool.and_true, evalAttrExpr, matchesSimple, AttributeMatcher.hasClass]
    rw [← lower_classAttr, getValue_eq_attrValue, lower_classAttr]
    cases attrValue e.tag classAttr <;> cases neg <;> simp [Bool.and_assoc]
  | attrExists n =>
    simp only [Predicate.addSimple, Predicate.addComponent, Condition.ofSimple, predB, List.all_append,
      List.all_cons, List.all_nil, Bool.and_true, evalAttrExpr, matchesSimple, AttributeMatcher.hasAttribute,
      getValue_eq_attrValue]
    cases neg <;> simp [Bool.and_assoc]
  | attr n op v cs =>
    simp only [Predicate.addSimple, Predicate.addComponent, Condition.ofSimple, predB, List.all_append,
      List.all_cons, List.all_nil, Bool.and_true, evalAttrExpr, matchesSimple, AttributeMatcher.attrCmp,
      asciiLowerBytes_idem, getValue_eq_attrValue, codeLeaf]
    cases attrValue e.tag n <;> cases neg <;> simp [Bool.and_assoc, matcherOf]
  | nthChild a b =>
    simp only [Predicate.addSimple, Predicate.addComponent, Condition.ofSimple, predB, List.all_append,
      List.all_cons, List.all_nil, Bool.and_true, tagExprB, matchesSimple, codeLeaf]
    cases neg <;> simp [Bool.and_assoc, Bool.and_comm, Bool.and_left_comm]
  | nthOfType a b =>
    simp only [Predicate.addSimple, Predicate.addComponent, Condition.ofSimple, predB, List.all_append,
      List.all_cons, List.all_nil, Bool.and_true, tagExprB, matchesSimple, codeLeaf]
    cases neg <;> simp [Bool.and_assoc, Bool.and_comm, Bool.and_left_comm]
  | firstChild =>
    simp only [Predicate.addSimple, Predicate.addComponent, Condition.ofSimple, predB, List.all_append,
      List.all_cons, List.all_nil, Bool.and_true, tagExprB, matchesSimple, codeLeaf]
    cases neg <;> simp [Bool.and_assoc, Bool.and_comm, Bool.and_left_comm]
  | firstOfType =>
    simp only [Predicate.addSimple, Predicate.addComponent, Condition.ofSimple, predB, List.all_append,
      List.all_cons, List.all_nil, Bool.and_true, tagExprB, matchesSimple, codeLeaf]
    cases neg <;> simp [Bool.and_assoc, Bool.and_comm, Bool.and_left_comm]


def singlePlain (c : List Simple) : Bool :=
  match c with
  | [s] => Simple.isPlain s
  | _ => false

theorem notsSimple_not (args : List (List Simple)) : Simple.notsSimple (.not args) = args.all singlePlain := by
  simp only [Simple.notsSimple]
  congr 1

theorem predB_addArgs (neg : Bool) (e : Elem) : ∀ (args : List (List Simple)) (p : Predicate),
    args.all singlePlain = true →
    predB (Predicate.addArgs p neg args) e =
      (predB p e && args.all fun c => neg != matchesCompound codeLeaf e c) := by
  intro args
  induction args with
  | nil => intro p _; simp [Predicate.addArgs]
  | cons c cs ih =>
    intro p h
    simp only [List.all_cons, Bool.and_eq_true] at h
    obtain ⟨hc, hcs⟩ := h
    match c, hc with
    | [s], hc =>
      simp only [singlePlain] at hc
      simp only [Predicate.addArgs, Predicate.addSelectorComponents, ih _ hcs,
        predB_addSimple_plain p neg s hc e, List.all_cons, matchesCompound, Bool.and_true, Bool.and_assoc]

theorem matchesAnyCompound_eq_any (L : Leaf) (e : Elem) (args : List (List Simple)) :
    matchesAnyCompound L e args = args.any (matchesCompound L e) := by
  induction args with
  | nil => rfl
  | cons c cs ih => simp [matchesAnyCompound, ih]

theorem predB_addSimple_ok (p : Predicate) (s : Simple) (hs : Simple.notsSimple s = true) (e : Elem) :
    predB (Predicate.addSimple p false s) e = (predB p e && matchesSimple codeLeaf e s) := by
  by_cases hp : Simple.isPlain s = true
  · rw [predB_addSimple_plain p false s hp e]; simp
  · cases s with
    | not args =>
      rw [notsSimple_not] at hs
      simp only [Predicate.addSimple, Bool.not_false, predB_addArgs true e args p hs, matchesSimple,
        matchesAnyCompound_eq_any]
      congr 1
      clear hs hp
      induction args with
      | nil => rfl
      | cons c cs ih =>
        simp only [List.all_cons, List.any_cons, ih]
        cases matchesCompound codeLeaf e c <;> simp
    | _ => simp [Simple.isPlain] at hp

theorem matchesCompound_eq_all (L : Leaf) (e : Elem) (c : List Simple) :
    matchesCompound L e c = c.all (matchesSimple L e) := by
  induction c with
  | nil => rfl
  | cons s ss ih => simp [matchesCompound, ih]

theorem predB_foldl (e : Elem) : ∀ (l : List Simple) (p : Predicate), l.all Simple.notsSimple = true →
    predB (l.foldl (fun p s => Predicate.addSimple p false s) p) e =
      (predB p e && l.all (matchesSimple codeLeaf e)) := by
  intro l
  induction l with
  | nil => intro p _; simp
  | cons s ss ih =>
    intro p h
    simp only [List.all_cons, Bool.and_eq_true] at h
    simp only [List.foldl_cons, ih _ h.2, predB_addSimple_ok p s h.1 e, List.all_cons, Bool.and_assoc]

/-- The predicate built for a compound evaluates to CSS matching of the compound (leaves as coded)
    whenever every `:not()` argument in it is a single plain simple selector. -/
theorem predB_ofCompound (c : Compound) (hc : compoundOk c = true) (e : Elem) :
    predB (Predicate.ofCompound c) e = matchesCompound codeLeaf e c := by
  unfold Predicate.ofCompound
  rw [predB_foldl e c.reverse {} (by simpa [compoundOk] using hc)]
  simp [predB, matchesCompound_eq_all]

/-! ## DenseHashSet membership -/

theorem DenseHashSet.mem_insert (l : List Nat) (v x : Nat) :
    x ∈ DenseHashSet.insert l v ↔ x = v ∨ x ∈ l := by
  induction l with
  | nil => simp [DenseHashSet.insert]
  | cons y ys ih =>
    unfold DenseHashSet.insert
    by_cases h1 : v < y
    · simp [h1]
    · by_cases h2 : v = y
      · subst h2; simp
      · have : (v == y) = false := by simp [h2]
        simp only [h1, if_false, this, Bool.false_eq_true, List.mem_cons, ih]
        constructor
        · rintro (h | h | h) <;> simp [h]
        · rintro (h | h | h) <;> simp [h]

theorem DenseHashSet.mem_union (a b : List Nat) (x : Nat) :
    x ∈ DenseHashSet.union a b ↔ x ∈ a ∨ x ∈ b := by
  unfold DenseHashSet.union
  induction b generalizing a with
  | nil => simp
  | cons y ys ih =>
    simp only [List.foldl_cons, ih, DenseHashSet.mem_insert, List.mem_cons]
    constructor
    · rintro ((h | h) | h) <;> simp [h]
    · rintro (h | h | h) <;> simp [h]

theorem DenseHashSet.insert_sorted (l : List Nat) (v : Nat) (h : l.Pairwise (· < ·)) :
    (DenseHashSet.insert l v).Pairwise (· < ·) := by
  induction l with
  | nil => simp [DenseHashSet.insert]
  | cons y ys ih =>
    unfold DenseHashSet.insert
    have hy := List.pairwise_cons.mp h
    by_cases h1 : v < y
    · simp only [h1, if_true]
      refine List.pairwise_cons.mpr ⟨?_, h⟩
      intro a ha
      rcases List.mem_cons.mp ha with ha | ha
      · subst ha; exact h1
      · exact Nat.lt_trans h1 (hy.1 a ha)
    · by_cases h2 : v = y
      · subst h2; simp [h]
      · have : (v == y) = false := by simp [h2]
        simp only [h1, if_false, this, Bool.false_eq_true]
        refine List.pairwise_cons.mpr ⟨?_, ih hy.2⟩
        intro a ha
        rcases (DenseHashSet.mem_insert ys v a).mp ha with ha | ha
        · subst ha; omega
        · exact hy.1 a ha

theorem DenseHashSet.union_sorted (a b : List Nat) (h : a.Pairwise (· < ·)) :
    (DenseHashSet.union a b).Pairwise (· < ·) := by
  unfold DenseHashSet.union
  induction b generalizing a with
  | nil => simpa using h
  | cons y ys ih => simp only [List.foldl_cons]; exact ih _ (DenseHashSet.insert_sorted a y h)

theorem eq_of_sorted_of_mem_iff : ∀ (l1 l2 : List Nat), l1.Pairwise (· < ·) → l2.Pairwise (· < ·) →
    (∀ x, x ∈ l1 ↔ x ∈ l2) → l1 = l2 := by
  intro l1
  induction l1 with
  | nil =>
    intro l2 _ _ h
    cases l2 with
    | nil => rfl
    | cons b l2 => have := (h b).mpr (by simp); simp at this
  | cons a l1 ih =>
    intro l2 h1 h2 h
    cases l2 with
    | nil => have := (h a).mp (by simp); simp at this
    | cons b l2 =>
      have p1 := List.pairwise_cons.mp h1
      have p2 := List.pairwise_cons.mp h2
      have hab : a = b := by
        have ha := (h a).mp (by simp)
        have hb := (h b).mpr (by simp)
        rcases List.mem_cons.mp ha with ha | ha
        · exact ha
        · rcases List.mem_cons.mp hb with hb | hb
          · exact hb.symm
          · have := p2.1 a ha; have := p1.1 b hb; omega
      subst hab
      congr 1
      apply ih l2 p1.2 p2.2
      intro x
      constructor
      · intro hx
        have := (h x).mp (List.mem_cons_of_mem _ hx)
        rcases List.mem_cons.mp this with h' | h'
        · have := p1.1 x hx; omega
        · exact h'
      · intro hx
        have := (h x).mpr (List.mem_cons_of_mem _ hx)
        rcases List.mem_cons.mp this with h' | h'
        · have := p2.1 x hx; omega
        · exact h'

/-! ## what a with-attributes pass adds to the context -/

/-- the instruction at `addr` exists and matches; `b` is its branch -/
def Vm.HoldsAt (vm : Vm) (st : SelectorState) (name : Bytes) (m : AttributeMatcher) (addr : Nat)
    (b : ExecutionBranch) : Prop :=
  ∃ i, vm.fetch addr = .ok i ∧ i.exec st name m = .ok (some b)

/-- `ctx'` is `ctx` plus the branches `P` -/
structure Adds (ctx ctx' : ExecutionCtx) (P : ExecutionBranch → Prop) : Prop where
  frame : ctx'.SameFrame ctx
  sorted : ctx.stackItem.matchedIds.Pairwise (· < ·) → ctx'.stackItem.matchedIds.Pairwise (· < ·)
  ids : ∀ i, i ∈ ctx'.stackItem.matchedIds ↔ i ∈ ctx.stackItem.matchedIds ∨ ∃ b, P b ∧ i ∈ b.matchedIds
  jumps : ctx.withContent = true → ∀ r, r ∈ ctx'.stackItem.jumps ↔
    r ∈ ctx.stackItem.jumps ∨ ∃ b, P b ∧ b.jumps = some r
  hjumps : ctx.withContent = true → ∀ r, r ∈ ctx'.stackItem.hereditaryJumps ↔
    r ∈ ctx.stackItem.hereditaryJumps ∨ ∃ b, P b ∧ b.hereditaryJumps = some r

theorem Adds.refl (ctx : ExecutionCtx) : Adds ctx ctx (fun _ => False) :=
  ⟨.rfl' _, id, by simp, by simp, by simp⟩

theorem Adds.trans {c1 c2 c3 : ExecutionCtx} {P Q : ExecutionBranch → Prop} (h1 : Adds c1 c2 P) (h2 : Adds c2 c3 Q) :
    Adds c1 c3 (fun b => P b ∨ Q b) := by
  have hw : c2.withContent = c1.withContent := h1.frame.2.2.1
  refine ⟨h2.frame.trans h1.frame, fun h => h2.sorted (h1.sorted h), ?_, ?_, ?_⟩
  · intro i
    rw [h2.ids, h1.ids]
    constructor
    · rintro ((h | ⟨b, hb, hi⟩) | ⟨b, hb, hi⟩)
      · exact Or.inl h
      · exact Or.inr ⟨b, Or.inl hb, hi⟩
      · exact Or.inr ⟨b, Or.inr hb, hi⟩
    · rintro (h | ⟨b, hb | hb, hi⟩)
      · exact Or.inl (Or.inl h)
      · exact Or.inl (Or.inr ⟨b, hb, hi⟩)
      · exact Or.inr ⟨b, hb, hi⟩
  · intro hc r
    rw [h2.jumps (hw.trans hc), h1.jumps hc]
    constructor
    · rintro ((h | ⟨b, hb, hi⟩) | ⟨b, hb, hi⟩)
      · exact Or.inl h
      · exact Or.inr ⟨b, Or.inl hb, hi⟩
      · exact Or.inr ⟨b, Or.inr hb, hi⟩
    · rintro (h | ⟨b, hb | hb, hi⟩)
      · exact Or.inl (Or.inl h)
      · exact Or.inl (Or.inr ⟨b, hb, hi⟩)
      · exact Or.inr ⟨b, hb, hi⟩
  · intro hc r
    rw [h2.hjumps (hw.trans hc), h1.hjumps hc]
    constructor
    · rintro ((h | ⟨b, hb, hi⟩) | ⟨b, hb, hi⟩)
      · exact Or.inl h
      · exact Or.inr ⟨b, Or.inl hb, hi⟩
      · exact Or.inr ⟨b, Or.inr hb, hi⟩
    · rintro (h | ⟨b, hb | hb, hi⟩)
      · exact Or.inl (Or.inl h)
      · exact Or.inl (Or.inr ⟨b, hb, hi⟩)
      · exact Or.inr ⟨b, hb, hi⟩

theorem Adds.congr {c1 c2 : ExecutionCtx} {P Q : ExecutionBranch → Prop} (h : Adds c1 c2 P) (hPQ : ∀ b, P b ↔ Q b) :
    Adds c1 c2 Q := by
  have : P = Q := funext fun b => propext (hPQ b)
  rw [← this]; exact h

theorem Adds.addBranch (ctx : ExecutionCtx) (b0 : ExecutionBranch) :
    Adds ctx (ctx.addExecutionBranch b0) (fun b => b = b0) := by
  refine ⟨ExecutionCtx.sameFrame_add _ _, ?_, ?_, ?_, ?_⟩
  · intro hs
    have : (ctx.addExecutionBranch b0).stackItem.matchedIds =
        DenseHashSet.union ctx.stackItem.matchedIds b0.matchedIds := by
      unfold ExecutionCtx.addExecutionBranch
      cases ctx.withContent <;> cases b0.jumps <;> cases b0.hereditaryJumps <;> rfl
    rw [this]; exact DenseHashSet.union_sorted _ _ hs
  · intro i
    unfold ExecutionCtx.addExecutionBranch
    have : ∀ (it : StackItem), (match b0.hereditaryJumps with
        | some h => { it with hereditaryJumps := it.hereditaryJumps ++ [h] }
        | none => it).matchedIds = it.matchedIds := by intro it; cases b0.hereditaryJumps <;> rfl
    cases ctx.withContent <;> cases hj : b0.jumps <;> cases hh : b0.hereditaryJumps <;>
      simp [DenseHashSet.mem_union]
  · intro hc r
    unfold ExecutionCtx.addExecutionBranch
    rw [hc]
    cases hj : b0.jumps <;> cases hh : b0.hereditaryJumps <;> simp [hj, eq_comm]
  · intro hc r
    unfold ExecutionCtx.addExecutionBranch
    rw [hc]
    cases hj : b0.jumps <;> cases hh : b0.hereditaryJumps <;> simp [hh, eq_comm]

theorem Adds.addOpt (ctx : ExecutionCtx) (ob : Option ExecutionBranch) :
    Adds ctx (ctx.addOpt ob) (fun b => ob = some b) := by
  cases ob with
  | none => exact (Adds.refl ctx).congr (by simp)
  | some b0 => exact (Adds.addBranch ctx b0).congr (by simp [eq_comm])

theorem Vm.execAddrs_adds (vm : Vm) (st : SelectorState) (m : AttributeMatcher) :
    ∀ (addrs : List Nat) (ctx ctx' : ExecutionCtx), vm.execAddrs st m addrs ctx = .ok ctx' →
    Adds ctx ctx' (fun b => ∃ a ∈ addrs, vm.HoldsAt st ctx.stackItem.localName m a b) := by
  intro addrs
  induction addrs with
  | nil =>
    intro ctx ctx' h
    simp [Vm.execAddrs, pure, Except.pure] at h; subst h
    exact (Adds.refl ctx).congr (by simp)
  | cons a rest ih =>
    intro ctx ctx' h
    simp only [Vm.execAddrs, bind, Except.bind] at h
    split at h
    · cases h
    · rename_i instr hf
      split at h
      · cases h
      · rename_i ob hex
        have h2 := ih _ _ h
        have h1 := Adds.addOpt ctx ob
        refine (h1.trans h2).congr ?_
        intro b
        simp only [ExecutionCtx.addOpt_localName, List.mem_cons]
        constructor
        · rintro (h | ⟨a', ha', hh⟩)
          · exact ⟨a, Or.inl rfl, instr, hf, by rw [hex, h]⟩
          · exact ⟨a', Or.inr ha', hh⟩
        · rintro ⟨a', ha' | ha', hh⟩
          · subst ha'
            obtain ⟨i', hf', he'⟩ := hh
            rw [hf] at hf'; cases hf'
            rw [hex] at he'; cases he'
            exact Or.inl rfl
          · exact Or.inr ⟨a', ha', hh⟩

/-- the selector state and matcher a with-attributes pass uses for `ctx` -/
def Vm.Holds (vm : Vm) (m : AttributeMatcher) (ctx : ExecutionCtx) (a : Nat) (b : ExecutionBranch) : Prop :=
  vm.HoldsAt (vm.stack.buildState ctx.stackItem.localName) ctx.stackItem.localName m a b

theorem Vm.Holds_congr (vm : Vm) (m : AttributeMatcher) {c1 c2 : ExecutionCtx} (h : c2.SameFrame c1) (a b) :
    vm.Holds m c2 a b ↔ vm.Holds m c1 a b := by
  unfold Vm.Holds; rw [h.1]

theorem Vm.execSetsWithAttrs_adds (vm : Vm) (m : AttributeMatcher) :
    ∀ (sets : List AddressRange) (ctx ctx' : ExecutionCtx), vm.execSetsWithAttrs m sets ctx = .ok ctx' →
    Adds ctx ctx' (fun b => ∃ r ∈ sets, ∃ a ∈ r.addrs, vm.Holds m ctx a b) := by
  intro sets
  induction sets with
  | nil =>
    intro ctx ctx' h
    simp [Vm.execSetsWithAttrs, pure, Except.pure] at h; subst h
    exact (Adds.refl ctx).congr (by simp)
  | cons r rest ih =>
    intro ctx ctx' h
    simp only [Vm.execSetsWithAttrs, bind, Except.bind] at h
    split at h
    · cases h
    · rename_i c1 h1
      have a1 := Vm.execAddrs_adds vm _ m _ _ _ h1
      have a2 := ih _ _ h
      refine (a1.trans a2).congr ?_
      intro b
      have hc : ∀ a, vm.Holds m c1 a b ↔ vm.Holds m ctx a b := fun a => Vm.Holds_congr vm m a1.frame a b
      simp only [List.mem_cons, hc]
      constructor
      · rintro (⟨a, ha, hh⟩ | ⟨r', hr', a, ha, hh⟩)
        · exact ⟨r, Or.inl rfl, a, ha, hh⟩
        · exact ⟨r', Or.inr hr', a, ha, hh⟩
      · rintro ⟨r', hr' | hr', a, ha, hh⟩
        · subst hr'; exact Or.inl ⟨a, ha, hh⟩
        · exact Or.inr ⟨r', hr', a, ha, hh⟩

/-- What running everything with attributes adds: the branches of the matching instructions among
    the entry points, the parent's jumps and the active hereditary jumps. -/
theorem Vm.execAllWithAttrs_adds (vm : Vm) (m : AttributeMatcher) (ctx ctx' : ExecutionCtx)
    (h : vm.execAllWithAttrs m ctx = .ok ctx') :
    Adds ctx ctx' (fun b => ∃ a, vm.Holds m ctx a b ∧
      (a ∈ vm.program.entryPoints.addrs ∨ (∃ r ∈ vm.parentJumps, a ∈ r.addrs) ∨
        (∃ r ∈ vm.activeRanges, a ∈ r.addrs))) := by
  simp only [Vm.execAllWithAttrs, Vm.execJumpsWithAttrs, Vm.execHereditaryJumpsWithAttrs,
    Vm.execSetsFromPtr_zero, bind, Except.bind] at h
  split at h
  · cases h
  · rename_i c1 h1
    split at h
    · cases h
    · rename_i c2 h2
      have a1 := Vm.execAddrs_adds vm _ m _ _ _ h1
      have a2 := Vm.execSetsWithAttrs_adds vm m _ _ _ h2
      have a3 := Vm.execSetsWithAttrs_adds vm m _ _ _ h
      refine ((a1.trans a2).trans a3).congr ?_
      intro b
      have hc1 : ∀ a, vm.Holds m c1 a b ↔ vm.Holds m ctx a b := fun a => Vm.Holds_congr vm m a1.frame a b
      have hc2 : ∀ a, vm.Holds m c2 a b ↔ vm.Holds m ctx a b :=
        fun a => Vm.Holds_congr vm m (a2.frame.trans a1.frame) a b
      simp only [hc1, hc2]
      constructor
      · rintro ((⟨a, ha, hh⟩ | ⟨r, hr, a, ha, hh⟩) | ⟨r, hr, a, ha, hh⟩)
        · exact ⟨a, hh, Or.inl (by simpa [AddressRange.addrs] using ha)⟩
        · exact ⟨a, hh, Or.inr (Or.inl ⟨r, hr, ha⟩)⟩
        · exact ⟨a, hh, Or.inr (Or.inr ⟨r, hr, ha⟩)⟩
      · rintro ⟨a, hh, ha | ⟨r, hr, ha⟩ | ⟨r, hr, ha⟩⟩
        · exact Or.inl (Or.inl ⟨a, by simpa [AddressRange.addrs] using ha, hh⟩)
        · exact Or.inl (Or.inr ⟨r, hr, a, ha, hh⟩)
        · exact Or.inr ⟨r, hr, a, ha, hh⟩

/-! ## the denotation of a program on the induced tree -/

/-- a set of (address, branch of the instruction there) -/
abbrev ActSet := Nat → ExecutionBranch → Prop

/-- the instruction at `a` exists and matches element `e`; `b` is its branch -/
def holdsElem (prog : Program) (nth : Bool) (e : Elem) (a : Nat) (b : ExecutionBranch) : Prop :=
  ∃ i, prog.instructions[a]? = some i ∧ i.exec (stateOf nth e) e.tag.name (matcherOf e) = .ok (some b)

/-- Instructions activated at element `e`, given the activated sets of its ancestors (parent first):
    the instruction matches `e` and sits in the entry points, in a `jumps` range of an instruction
    activated at the parent, or in a `hereditary_jumps` range of one activated at some ancestor. -/
def actOf (prog : Program) (nth : Bool) (e : Elem) (ancActs : List ActSet) : ActSet := fun a b =>
  holdsElem prog nth e a b ∧
    (a ∈ prog.entryPoints.addrs
      ∨ (∃ S, ancActs.head? = some S ∧ ∃ a' b' r, S a' b' ∧ b'.jumps = some r ∧ a ∈ r.addrs)
      ∨ (∃ S ∈ ancActs, ∃ a' b' r, S a' b' ∧ b'.hereditaryJumps = some r ∧ a ∈ r.addrs))

def ancActs (prog : Program) (nth : Bool) : List Elem → List ActSet
  | [] => []
  | p :: anc => actOf prog nth p (ancActs prog nth anc) :: ancActs prog nth anc

/-- instructions activated at `e` whose ancestors are `anc` (parent first) -/
def Act (prog : Program) (nth : Bool) (e : Elem) (anc : List Elem) : ActSet :=
  actOf prog nth e (ancActs prog nth anc)

theorem ancActs_drop (prog nth) : ∀ (anc : List Elem) (n : Nat),
    ancActs prog nth (anc.drop n) = (ancActs prog nth anc).drop n := by
  intro anc
  induction anc with
  | nil => intro n; simp [ancActs]
  | cons p anc ih =>
    intro n
    cases n with
    | zero => rfl
    | succ n => simp [ancActs, ih]

theorem ancActs_length (prog nth) (anc : List Elem) : (ancActs prog nth anc).length = anc.length := by
  induction anc with
  | nil => rfl
  | cons p anc ih => simp [ancActs, ih]

/-- a stack item carries exactly the jumps of the instructions activated at its element -/
def ItemSem (item : StackItem) (S : ActSet) : Prop :=
  (∀ r, r ∈ item.jumps ↔ ∃ a b, S a b ∧ b.jumps = some r) ∧
  (∀ r, r ∈ item.hereditaryJumps ↔ ∃ a b, S a b ∧ b.hereditaryJumps = some r)

def AllSem : List StackItem → List ActSet → Prop
  | [], [] => True
  | it :: its, S :: Ss => ItemSem it S ∧ AllSem its Ss
  | _, _ => False

theorem AllSem.drop : ∀ {its : List StackItem} {Ss : List ActSet} (n : Nat), AllSem its Ss →
    AllSem (its.drop n) (Ss.drop n) := by
  intro its
  induction its with
  | nil => intro Ss n h; cases Ss <;> simp_all [AllSem]
  | cons it its ih =>
    intro Ss n h
    cases Ss with
    | nil => simp [AllSem] at h
    | cons S Ss =>
      cases n with
      | zero => exact h
      | succ n => exact ih n h.2

theorem AllSem.mem_hj : ∀ {its : List StackItem} {Ss : List ActSet}, AllSem its Ss → ∀ r,
    (∃ it ∈ its, r ∈ it.hereditaryJumps) ↔ (∃ S ∈ Ss, ∃ a b, S a b ∧ b.hereditaryJumps = some r) := by
  intro its
  induction its with
  | nil => intro Ss h r; cases Ss <;> simp_all [AllSem]
  | cons it its ih =>
    intro Ss h r
    cases Ss with
    | nil => simp [AllSem] at h
    | cons S Ss =>
      have := ih h.2 r
      simp only [List.mem_cons, exists_eq_or_imp, this, h.1.2 r]

/-- `active_hereditary_jumps`: every entry is introduced at its depth and not shallower; every
    hereditary jump of an open item is present. -/
structure ActiveSem (items : List StackItem) (active : List (AddressRange × Nat)) : Prop where
  sound : ∀ r d, (r, d) ∈ active → (∃ it, items[d]? = some it ∧ r ∈ it.hereditaryJumps) ∧
    ∀ (d' : Nat) (it' : StackItem), d' < d → items[d']? = some it' → r ∉ it'.hereditaryJumps
  complete : ∀ (d : Nat) (it : StackItem), items[d]? = some it → ∀ r ∈ it.hereditaryJumps, ∃ d', (r, d') ∈ active

theorem ActiveSem.mem_ranges {items : List StackItem} {active : List (AddressRange × Nat)} (h : ActiveSem items active) (r : AddressRange) :
    r ∈ active.map (·.1) ↔ ∃ it ∈ items, r ∈ it.hereditaryJumps := by
  constructor
  · intro hr
    obtain ⟨⟨r', d⟩, hm, rfl⟩ := List.mem_map.mp hr
    obtain ⟨⟨it, hit, hr⟩, _⟩ := h.sound r' d hm
    exact ⟨it, List.mem_of_getElem? hit, hr⟩
  · rintro ⟨it, hit, hr⟩
    obtain ⟨d, hd⟩ := List.getElem?_of_mem hit
    obtain ⟨d', hd'⟩ := h.complete d it hd r hr
    exact List.mem_map.mpr ⟨(r, d'), hd', rfl⟩

/-- the fold of `push_item` over the new item's hereditary jumps -/
def pushActive (depth : Nat) (hj : List AddressRange) (act : List (AddressRange × Nat)) : List (AddressRange × Nat) :=
  hj.foldl (fun act r => if act.any (fun a => a.1 == r) then act else act ++ [(r, depth)]) act

theorem mem_pushActive (depth : Nat) : ∀ (hj : List AddressRange) (act : List (AddressRange × Nat)) (r d),
    (r, d) ∈ pushActive depth hj act ↔
      (r, d) ∈ act ∨ (d = depth ∧ r ∈ hj ∧ r ∉ act.map (·.1)) := by
  intro hj
  induction hj with
  | nil => intro act r d; simp [pushActive]
  | cons x xs ih =>
    intro act r d
    simp only [pushActive, List.foldl_cons] at ih ⊢
    by_cases hx : (act.any fun a => a.1 == x) = true
    · simp only [hx, if_true, ih]
      have hx' : x ∈ act.map (·.1) := by
        simp only [List.any_eq_true, beq_iff_eq] at hx
        obtain ⟨a, ha, hax⟩ := hx
        exact List.mem_map.mpr ⟨a, ha, hax⟩
      constructor
      · rintro (h | ⟨h1, h2, h3⟩)
        · exact Or.inl h
        · exact Or.inr ⟨h1, List.mem_cons_of_mem _ h2, h3⟩
      · rintro (h | ⟨h1, h2, h3⟩)
        · exact Or.inl h
        · rcases List.mem_cons.mp h2 with h2 | h2
          · subst h2; exact absurd hx' h3
          · exact Or.inr ⟨h1, h2, h3⟩
    · have hx' : x ∉ act.map (·.1) := by
        intro hm
        obtain ⟨a, ha, hax⟩ := List.mem_map.mp hm
        exact hx (by simp only [List.any_eq_true, beq_iff_eq]; exact ⟨a, ha, hax⟩)
      have hxf : (act.any fun a => a.1 == x) = false := by
        cases hb : (act.any fun a => a.1 == x) with
        | false => rfl
        | true => exact absurd hb hx
      simp only [hxf, Bool.false_eq_true, if_false, ih, List.mem_append, List.mem_singleton, Prod.mk.injEq,
        List.map_append, List.map_cons, List.map_nil]
      constructor
      · rintro ((h | ⟨h1, h2⟩) | ⟨h1, h2, h3⟩)
        · exact Or.inl h
        · subst h1; subst h2; exact Or.inr ⟨rfl, List.mem_cons_self, hx'⟩
        · exact Or.inr ⟨h1, List.mem_cons_of_mem _ h2, fun hm => h3 (Or.inl hm)⟩
      · rintro (h | ⟨h1, h2, h3⟩)
        · exact Or.inl (Or.inl h)
        · by_cases hrx : r = x
          · exact Or.inl (Or.inr ⟨hrx, h1⟩)
          · rcases List.mem_cons.mp h2 with h2 | h2
            · exact absurd h2 hrx
            · exact Or.inr ⟨h1, h2, by
                intro hm
                rcases hm with hm | hm
                · exact h3 hm
                · exact hrx hm⟩

theorem ActiveSem.push {items : List StackItem} {active : List (AddressRange × Nat)} (h : ActiveSem items active)
    (item : StackItem) :
    ActiveSem (items ++ [item]) (pushActive items.length item.hereditaryJumps active) := by
  constructor
  · intro r d hm
    rcases (mem_pushActive _ _ _ _ _).mp hm with hold | ⟨hd, hr, hnew⟩
    · obtain ⟨⟨it, hit, hrit⟩, hsh⟩ := h.sound r d hold
      have hdlt : d < items.length := (List.getElem?_eq_some_iff.mp hit).1
      refine ⟨⟨it, by rw [List.getElem?_append_left hdlt]; exact hit, hrit⟩, ?_⟩
      intro d' it' hd' hit'
      rw [List.getElem?_append_left (by omega)] at hit'
      exact hsh d' it' hd' hit'
    · subst hd
      refine ⟨⟨item, by simp, hr⟩, ?_⟩
      intro d' it' hd' hit' hrit'
      rw [List.getElem?_append_left hd'] at hit'
      obtain ⟨d'', hd''⟩ := h.complete d' it' hit' r hrit'
      exact hnew (List.mem_map.mpr ⟨(r, d''), hd'', rfl⟩)
  · intro d it hit r hr
    by_cases hd : d < items.length
    · rw [List.getElem?_append_left hd] at hit
      obtain ⟨d', hd'⟩ := h.complete d it hit r hr
      exact ⟨d', (mem_pushActive _ _ _ _ _).mpr (Or.inl hd')⟩
    · have hlen : d < (items ++ [item]).length := (List.getElem?_eq_some_iff.mp hit).1
      have hde : d = items.length := by simp at hlen; omega
      subst hde
      simp at hit; subst hit
      by_cases hm : r ∈ active.map (·.1)
      · obtain ⟨⟨r', d'⟩, hm', rfl⟩ := List.mem_map.mp hm
        exact ⟨d', (mem_pushActive _ _ _ _ _).mpr (Or.inl hm')⟩
      · exact ⟨items.length, (mem_pushActive _ _ _ _ _).mpr (Or.inr ⟨rfl, hr, hm⟩)⟩

theorem ActiveSem.pop {items : List StackItem} {active : List (AddressRange × Nat)} (h : ActiveSem items active)
    (idx : Nat) :
    ActiveSem (items.take idx) (active.filter fun e => e.2 < idx) := by
  constructor
  · intro r d hm
    simp only [List.mem_filter, decide_eq_true_eq] at hm
    obtain ⟨hm, hd⟩ := hm
    obtain ⟨⟨it, hit, hrit⟩, hsh⟩ := h.sound r d hm
    refine ⟨⟨it, by rw [List.getElem?_take_of_lt hd]; exact hit, hrit⟩, ?_⟩
    intro d' it' hd' hit'
    rw [List.getElem?_take_of_lt (by omega)] at hit'
    exact hsh d' it' hd' hit'
  · intro d it hit r hr
    have hd : d < idx := by
      have := (List.getElem?_eq_some_iff.mp hit).1
      simp at this; omega
    rw [List.getElem?_take_of_lt hd] at hit
    obtain ⟨d0, hd0⟩ := h.complete d it hit r hr
    obtain ⟨_, hsh⟩ := h.sound r d0 hd0
    have : d0 ≤ d := by
      apply Nat.le_of_not_lt
      intro hlt
      exact hsh d it hlt hit hr
    exact ⟨d0, by simp only [List.mem_filter, decide_eq_true_eq]; exact ⟨hd0, by omega⟩⟩

/-- shape of `pop_up_to` on a stack that mirrors the tree state -/
theorem StackInv.popUpTo_shape {s ts} (inv : StackInv s ts) (name : Bytes) {s' d}
    (h : s.popUpTo name = .ok (s', d)) :
    (s'.items = s.items ∧ s'.activeHereditaryJumps = s.activeHereditaryJumps ∧ ts.endTag name = ts) ∨
    (∃ i, i < ts.open.length ∧ s'.items = s.items.take (s.items.length - 1 - i) ∧
      s'.activeHereditaryJumps = s.activeHereditaryJumps.filter (fun e => e.2 < s.items.length - 1 - i) ∧
      ts.endTag name = { ts with «open» := ts.open.drop (i + 1) }) := by
  have hfind := findIdx?_reverse_items inv name
  have hany : (s.openNameCounts.any fun e => e.1 == asciiLowerBytes name) = true ↔
      (ts.open.findIdx? (fun o => localNameEq o.elem.tag.name name)).isSome = true := by
    rw [any_key_iff inv.countsOk, inv.counts, nameKeyCount_pos_iff, hfind]
  unfold Stack.popUpTo at h
  unfold TreeState.endTag
  cases hf : ts.open.findIdx? (fun o => localNameEq o.elem.tag.name name) with
  | none =>
    have h1 : (s.openNameCounts.any fun e => e.1 == asciiLowerBytes name) = false := by
      cases hb : (s.openNameCounts.any fun e => e.1 == asciiLowerBytes name) with
      | false => rfl
      | true => rw [hf] at hany; simp [hb] at hany
    have h2 : (ts.open.any fun o => localNameEq o.elem.tag.name name) = false := by
      have := List.findIdx?_isSome (xs := ts.open) (p := fun o => localNameEq o.elem.tag.name name)
      rw [hf] at this; simpa using this.symm
    simp only [h1, Bool.not_false, if_true, pure, Except.pure, Except.ok.injEq, Prod.mk.injEq] at h
    left
    rw [← h.1]
    exact ⟨rfl, rfl, by simp [h2]⟩
  | some i =>
    have h1 : (s.openNameCounts.any fun e => e.1 == asciiLowerBytes name) = true := by
      rw [hany, hf]; rfl
    have h2 : (ts.open.any fun o => localNameEq o.elem.tag.name name) = true := by
      have := List.findIdx?_isSome (xs := ts.open) (p := fun o => localNameEq o.elem.tag.name name)
      rw [hf] at this; simpa using this.symm
    have hi : i < ts.open.length := (List.findIdx?_eq_some_iff_findIdx_eq.mp hf).1
    rw [hf] at hfind
    simp only [h1, Bool.not_true, Bool.false_eq_true, if_false, rposition, hfind, bind, Except.bind] at h
    right
    split at h
    · cases h
    · simp only [pure, Except.pure, Except.ok.injEq, Prod.mk.injEq] at h
      rw [← h.1]
      exact ⟨i, hi, rfl, rfl, by simp [h2, closeUpTo_eq_drop name ts.open i hf]⟩

/-- The VM state mirrors the tree state *and* carries the program's denotation. -/
structure SemInv (vm : Vm) (ts : TreeState) (nth : Bool) : Prop where
  stack : StackInv vm.stack ts
  items : AllSem vm.stack.items.reverse (ancActs vm.program nth ts.ancestors)
  active : ActiveSem vm.stack.items vm.stack.activeHereditaryJumps
  typed : vm.stack.typedChildCounters.isSome = nth

theorem withChild_ancestors (ts : TreeState) (name : Bytes) :
    (TreeState.withChild ts name).ancestors = ts.ancestors := by
  unfold TreeState.withChild TreeState.ancestors
  cases ts.open <;> rfl

theorem incLast_jumps (l : List StackItem) :
    (incLastChildCounter l).map (fun it => (it.jumps, it.hereditaryJumps)) =
      l.map (fun it => (it.jumps, it.hereditaryJumps)) := by
  rcases List.eq_nil_or_concat l with h | ⟨l', x, h⟩
  · subst h; rfl
  · subst h; simp [List.concat_eq_append, incLastChildCounter_concat]

theorem AllSem.congr : ∀ {its its' : List StackItem} {Ss : List ActSet},
    its.map (fun it => (it.jumps, it.hereditaryJumps)) = its'.map (fun it => (it.jumps, it.hereditaryJumps)) →
    AllSem its Ss → AllSem its' Ss := by
  intro its
  induction its with
  | nil => intro its' Ss h; cases its' <;> simp_all
  | cons it its ih =>
    intro its' Ss h hs
    cases its' with
    | nil => simp at h
    | cons it' its' =>
      cases Ss with
      | nil => simp [AllSem] at hs
      | cons S Ss =>
        simp only [List.map_cons, List.cons.injEq, Prod.mk.injEq] at h
        refine ⟨?_, ih h.2 hs.2⟩
        unfold ItemSem
        rw [← h.1.1, ← h.1.2]
        exact hs.1

theorem ActiveSem.congr {its its' : List StackItem} {active : List (AddressRange × Nat)}
    (h : its.map (fun it => (it.jumps, it.hereditaryJumps)) = its'.map (fun it => (it.jumps, it.hereditaryJumps)))
    (ha : ActiveSem its active) : ActiveSem its' active := by
  have key : ∀ d : Nat, (its'[d]?).map StackItem.hereditaryJumps = (its[d]?).map StackItem.hereditaryJumps := by
    intro d
    have := congrArg (fun l => (l[d]?).map (·.2)) h
    simp only [List.getElem?_map, Option.map_map] at this
    exact this.symm
  constructor
  · intro r d hm
    obtain ⟨⟨it, hit, hr⟩, hsh⟩ := ha.sound r d hm
    have k := key d
    rw [hit] at k
    cases hit' : its'[d]? with
    | none => rw [hit'] at k; simp at k
    | some it' =>
      rw [hit'] at k; simp at k
      refine ⟨⟨it', rfl, by rw [k]; exact hr⟩, ?_⟩
      intro d' it'' hd' hit''
      have k' := key d'
      rw [hit''] at k'
      cases hi : its[d']? with
      | none => rw [hi] at k'; simp at k'
      | some i0 =>
        rw [hi] at k'; simp at k'
        rw [k']; exact hsh d' i0 hd' hi
  · intro d it' hit' r hr
    have k := key d
    rw [hit'] at k
    cases hi : its[d]? with
    | none => rw [hi] at k; simp at k
    | some i0 =>
      rw [hi] at k; simp at k
      exact ha.complete d i0 hi r (by rw [← k]; exact hr)

theorem SemInv.init (prog : Program) (esi : Bool) :
    SemInv ⟨prog, Stack.new prog.enableNthOfType, esi⟩ {} prog.enableNthOfType := by
  refine ⟨StackInv.init _, by simp [Stack.new, TreeState.ancestors, ancActs, AllSem], ⟨?_, ?_⟩, ?_⟩
  · intro r d h; simp [Stack.new] at h
  · intro d it h; simp [Stack.new] at h
  · cases prog.enableNthOfType <;> rfl

theorem SemInv.buildState_eq {vm ts nth} (inv : SemInv vm ts nth) (t : StartTag) :
    (vm.stack.addChild t.name).buildState t.name = stateOf nth (ts.elemFor t) := by
  obtain ⟨h1, h2⟩ := inv.stack.buildState_addChild t.name
  have hty := inv.typed
  cases hb : (vm.stack.addChild t.name).buildState t.name with
  | mk cum typed =>
    rw [hb] at h1 h2
    simp only at h1 h2
    unfold stateOf
    cases nth with
    | true =>
      have := h2 hty
      simp [h1, this, Elem.childIndex, Elem.typeIndex, TreeState.elemFor]
    | false =>
      have hnone : vm.stack.typedChildCounters = none := by
        cases h : vm.stack.typedChildCounters with
        | none => rfl
        | some m => rw [h] at hty; simp at hty
      have : typed = none := by
        have hb' := congrArg SelectorState.typed hb
        simp only [Stack.buildState] at hb'
        rw [← hb']
        have : (vm.stack.addChild t.name).typedChildCounters = none := by
          unfold Stack.addChild; split <;> simp [hnone]
        rw [this]; rfl
      simp [h1, this, Elem.childIndex, TreeState.elemFor]

theorem parentJumps_sem {items : List StackItem} {Ss : List ActSet} (h : AllSem items.reverse Ss) (r : AddressRange) :
    r ∈ (match items.getLast? with
      | some parent => parent.jumps
      | none => []) ↔
    ∃ S, Ss.head? = some S ∧ ∃ a b, S a b ∧ b.jumps = some r := by
  rw [← List.head?_reverse]
  cases hr : items.reverse with
  | nil =>
    rw [hr] at h
    cases Ss with
    | nil => simp
    | cons S Ss => simp [AllSem] at h
  | cons it its =>
    rw [hr] at h
    cases Ss with
    | nil => simp [AllSem] at h
    | cons S Ss => simp [h.1.1 r]

theorem getLast?_incLast_jumps (l : List StackItem) :
    ((incLastChildCounter l).getLast?).map (·.jumps) = (l.getLast?).map (·.jumps) := by
  rcases List.eq_nil_or_concat l with h | ⟨l', x, h⟩
  · subst h; rfl
  · subst h; simp [List.concat_eq_append, incLastChildCounter_concat]

theorem addChild_parentJumps (vm : Vm) (name : Bytes) :
    ({ vm with stack := vm.stack.addChild name } : Vm).parentJumps = vm.parentJumps := by
  unfold Vm.parentJumps Stack.addChild
  by_cases he : vm.stack.items.isEmpty = true
  · simp only [he, if_true]
  · simp only [he, if_false]
    have := getLast?_incLast_jumps vm.stack.items
    cases h1 : (incLastChildCounter vm.stack.items).getLast? <;> cases h2 : vm.stack.items.getLast? <;>
      simp_all

theorem addChild_active (s : Stack) (name : Bytes) :
    (s.addChild name).activeHereditaryJumps = s.activeHereditaryJumps := by
  unfold Stack.addChild; split <;> rfl

theorem addChild_items_jumps (s : Stack) (name : Bytes) :
    (s.addChild name).items.map (fun it => (it.jumps, it.hereditaryJumps)) =
      s.items.map (fun it => (it.jumps, it.hereditaryJumps)) := by
  unfold Stack.addChild
  split
  · rfl
  · exact incLast_jumps _

/-- A start tag reports exactly the ids of the instructions the denotation activates at the new
    element, and the VM state keeps carrying the denotation. -/
theorem SemInv.handleStartTag {vm vm' : Vm} {ts : TreeState} {nth : Bool} {t : StartTag} {ms}
    (inv : SemInv vm ts nth) (h : vm.handleStartTag t = .ok (vm', ms)) :
    (∀ i, i ∈ ms.map (·.matchId) ↔
      ∃ a b, Act vm.program nth (ts.elemFor t) ts.ancestors a b ∧ i ∈ b.matchedIds) ∧
    (ms.map (·.matchId)).Pairwise (· < ·) ∧
    vm'.program = vm.program ∧ vm'.enableEsiTags = vm.enableEsiTags ∧
    SemInv vm' (ts.startTag t vm.enableEsiTags) nth := by
  have hstack := Vm.handleStartTag_stack h
  have hinv' := inv.stack.handleStartTag h
  rw [Vm.handleStartTag_eq] at h
  simp only [bind, Except.bind] at h
  split at h
  · cases h
  · rename_i ctx' hc
    simp only [pure, Except.pure, Except.ok.injEq] at h
    have adds := Vm.execAllWithAttrs_adds _ _ _ _ hc
    -- the added branches are the activated instructions
    have hP : ∀ b, (∃ a, ({ vm with stack := vm.stack.addChild t.name } : Vm).Holds
          ⟨t.attrs, t.ns == .html⟩ (startCtx t vm.enableEsiTags) a b ∧
        (a ∈ vm.program.entryPoints.addrs ∨
          (∃ r ∈ ({ vm with stack := vm.stack.addChild t.name } : Vm).parentJumps, a ∈ r.addrs) ∨
          (∃ r ∈ ({ vm with stack := vm.stack.addChild t.name } : Vm).activeRanges, a ∈ r.addrs))) ↔
        ∃ a, Act vm.program nth (ts.elemFor t) ts.ancestors a b := by
      intro b
      have hholds : ∀ a, ({ vm with stack := vm.stack.addChild t.name } : Vm).Holds
          ⟨t.attrs, t.ns == .html⟩ (startCtx t vm.enableEsiTags) a b ↔
          holdsElem vm.program nth (ts.elemFor t) a b := by
        intro a
        unfold Vm.Holds Vm.HoldsAt holdsElem Vm.fetch
        simp only [startCtx, inv.buildState_eq t]
        constructor
        · rintro ⟨i, hf, he⟩
          cases hi : vm.program.instructions[a]? with
          | none => simp [hi] at hf
          | some i' =>
            simp [hi, pure, Except.pure] at hf; subst hf
            exact ⟨i', rfl, he⟩
        · rintro ⟨i, hf, he⟩
          exact ⟨i, by simp [hf, pure, Except.pure], he⟩
      have hpj : ∀ r, r ∈ ({ vm with stack := vm.stack.addChild t.name } : Vm).parentJumps ↔
          ∃ S, (ancActs vm.program nth ts.ancestors).head? = some S ∧ ∃ a b, S a b ∧ b.jumps = some r := by
        intro r
        rw [addChild_parentJumps]
        exact parentJumps_sem inv.items r
      have hact : ∀ r, r ∈ ({ vm with stack := vm.stack.addChild t.name } : Vm).activeRanges ↔
          ∃ S ∈ ancActs vm.program nth ts.ancestors, ∃ a b, S a b ∧ b.hereditaryJumps = some r := by
        intro r
        unfold Vm.activeRanges
        simp only [addChild_active]
        rw [inv.active.mem_ranges r, ← AllSem.mem_hj inv.items r]
        simp
      simp only [hholds, hpj, hact, Act, actOf]
      constructor
      · rintro ⟨a, hh, ha | ⟨r, ⟨S, hS, a', b', hS', hj⟩, ha⟩ | ⟨r, ⟨S, hS, a', b', hS', hj⟩, ha⟩⟩
        · exact ⟨a, hh, Or.inl ha⟩
        · exact ⟨a, hh, Or.inr (Or.inl ⟨S, hS, a', b', r, hS', hj, ha⟩)⟩
        · exact ⟨a, hh, Or.inr (Or.inr ⟨S, hS, a', b', r, hS', hj, ha⟩)⟩
      · rintro ⟨a, hh, ha | ⟨S, hS, a', b', r, hS', hj, ha⟩ | ⟨S, hS, a', b', r, hS', hj, ha⟩⟩
        · exact ⟨a, hh, Or.inl ha⟩
        · exact ⟨a, hh, Or.inr (Or.inl ⟨r, ⟨S, hS, a', b', hS', hj⟩, ha⟩)⟩
        · exact ⟨a, hh, Or.inr (Or.inr ⟨r, ⟨S, hS, a', b', hS', hj⟩, ha⟩)⟩
    have adds' := adds.congr hP
    have hvm' := congrArg Prod.fst h
    have hms := congrArg Prod.snd h
    simp only at hvm' hms
    refine ⟨?_, ?_, hstack.1, hstack.2.1, ?_⟩
    rotate_left
    · rw [← hms]
      simp only [Vm.finish, ExecutionCtx.matchInfos, List.map_map, Function.comp_def, List.map_id']
      exact adds.sorted (by simp [startCtx])
    rotate_right
    · intro i
      rw [← hms]
      simp only [Vm.finish, ExecutionCtx.matchInfos, List.map_map, Function.comp_def, List.map_id']
      rw [adds'.ids i]
      simp only [startCtx, List.not_mem_nil, false_or]
      constructor
      · rintro ⟨b, ⟨a, ha⟩, hi⟩; exact ⟨a, b, ha, hi⟩
      · rintro ⟨a, b, ha, hi⟩; exact ⟨b, ⟨a, ha⟩, hi⟩
    · -- the invariant
      have hw : ctx'.withContent = staysOpen t vm.enableEsiTags := adds.frame.2.2.1
      have hAll1 : AllSem (vm.stack.addChild t.name).items.reverse (ancActs vm.program nth ts.ancestors) :=
        AllSem.congr (by
          have := addChild_items_jumps vm.stack t.name
          simpa [List.map_reverse] using congrArg List.reverse this.symm) inv.items
      have hAct1 : ActiveSem (vm.stack.addChild t.name).items (vm.stack.addChild t.name).activeHereditaryJumps := by
        rw [addChild_active]
        exact ActiveSem.congr (addChild_items_jumps vm.stack t.name).symm inv.active
      have hty1 : (vm.stack.addChild t.name).typedChildCounters.isSome = nth := by
        rw [Stack.addChild_typed_isSome]; exact inv.typed
      rw [← hvm']
      unfold Vm.finish
      rw [hw]
      rw [startTag_eq] at hinv' ⊢
      by_cases hso : staysOpen t vm.enableEsiTags = true
      · simp only [hso, if_true] at hinv' ⊢
        rw [← hvm'] at hinv'
        simp only [Vm.finish, hw, hso, if_true] at hinv'
        refine ⟨hinv', ?_, ?_, ?_⟩
        · simp only [Stack.pushItem, List.reverse_append, List.reverse_cons, List.reverse_nil,
            List.nil_append, List.singleton_append, TreeState.ancestors, List.map_cons]
          have hanc : (TreeState.withChild ts t.name).open.map (·.elem) = ts.ancestors := withChild_ancestors ts t.name
          rw [hanc]
          simp only [ancActs]
          refine ⟨?_, hAll1⟩
          have hwc : (startCtx t vm.enableEsiTags).withContent = true := by simp [startCtx, hso]
          constructor
          · intro r
            rw [adds'.jumps hwc r]
            simp only [startCtx, List.not_mem_nil, false_or, Act]
            constructor
            · rintro ⟨b, ⟨a, ha⟩, hj⟩; exact ⟨a, b, ha, hj⟩
            · rintro ⟨a, b, ha, hj⟩; exact ⟨b, ⟨a, ha⟩, hj⟩
          · intro r
            rw [adds'.hjumps hwc r]
            simp only [startCtx, List.not_mem_nil, false_or, Act]
            constructor
            · rintro ⟨b, ⟨a, ha⟩, hj⟩; exact ⟨a, b, ha, hj⟩
            · rintro ⟨a, b, ha, hj⟩; exact ⟨b, ⟨a, ha⟩, hj⟩
        · exact hAct1.push ctx'.stackItem
        · simpa [Stack.pushItem] using hty1
      · have hso' : staysOpen t vm.enableEsiTags = false := by
          cases hb : staysOpen t vm.enableEsiTags with
          | false => rfl
          | true => exact absurd hb hso
        simp only [hso', Bool.false_eq_true, if_false] at hinv' ⊢
        rw [← hvm'] at hinv'
        simp only [Vm.finish, hw, hso', Bool.false_eq_true, if_false] at hinv'
        refine ⟨hinv', ?_, hAct1, hty1⟩
        rw [withChild_ancestors]
        exact hAll1

theorem SemInv.handleEndTag {vm : Vm} {ts : TreeState} {nth : Bool} (inv : SemInv vm ts nth) (name : Bytes) :
    ∃ vm', vm.handleEndTag name = .ok vm' ∧ vm'.program = vm.program ∧
      vm'.enableEsiTags = vm.enableEsiTags ∧ SemInv vm' (ts.endTag name) nth := by
  obtain ⟨s', d, he, inv'⟩ := inv.stack.popUpTo name
  refine ⟨{ vm with stack := s' }, ?_, rfl, rfl, ?_⟩
  · simp [Vm.handleEndTag, Vm.execForEndTag, he, bind, Except.bind, pure, Except.pure]
  · have hty : s'.typedChildCounters.isSome = nth := by
      rw [Stack.popUpTo_typed_isSome he]; exact inv.typed
    rcases inv.stack.popUpTo_shape name he with ⟨hi, ha, hts⟩ | ⟨i, hi, hitems, hact, hts⟩
    · refine ⟨inv', ?_, ?_, hty⟩
      · simp only [hi, hts]; exact inv.items
      · simp only [hi, ha]; exact inv.active
    · refine ⟨inv', ?_, ?_, hty⟩
      · simp only [hitems, hts, TreeState.ancestors]
        have hlen := inv.stack.length_eq
        have hrev : (vm.stack.items.take (vm.stack.items.length - 1 - i)).reverse =
            vm.stack.items.reverse.drop (i + 1) := by
          rw [List.reverse_take]; congr 1; omega
        rw [hrev, List.map_drop]
        have := ancActs_drop vm.program nth (ts.open.map (·.elem)) (i + 1)
        rw [this]
        exact inv.items.drop (i + 1)
      · simp only [hitems, hact]
        exact inv.active.pop _

/-- a run with an arbitrary "matching ids" function on the induced tree -/
def runWith (F : Elem → List Elem → List Nat) (esi : Bool) :
    TreeState → List Event → Nat → List (Nat × Nat) → List (Nat × Nat)
  | _, [], _, acc => acc
  | s, .start t :: rest, ord, acc =>
    runWith F esi (s.startTag t esi) rest (ord + 1) (acc ++ (F (s.elemFor t) s.ancestors).map fun i => (i, ord))
  | s, .end_ n :: rest, ord, acc => runWith F esi (s.endTag n) rest ord acc

theorem runAux_eq_runWith (L : Leaf) (sels : List SelList) (esi : Bool) : ∀ (evs : List Event) (s : TreeState) (ord acc),
    Spec.Css.runAux L sels esi s evs ord acc = runWith (matchingIds L sels) esi s evs ord acc := by
  intro evs
  induction evs with
  | nil => intro s ord acc; rfl
  | cons e rest ih =>
    intro s ord acc
    cases e with
    | start t => simp only [Spec.Css.runAux, runWith, ih]
    | end_ n => simp only [Spec.Css.runAux, runWith, ih]

/-- **The VM computes the denotation of its program** (partial correctness, any program): if `F`
    lists, in increasing order, the ids of the instructions `Act` activates, a VM run that does not
    panic reports exactly `F` at every start tag. -/
theorem SemInv.runAux {F : Elem → List Elem → List Nat} {prog : Program} {nth esi : Bool}
    (hF : ∀ e anc i, i ∈ F e anc ↔ ∃ a b, Act prog nth e anc a b ∧ i ∈ b.matchedIds)
    (hFs : ∀ e anc, (F e anc).Pairwise (· < ·)) :
    ∀ (evs : List Event) (vm vm' : Vm) (ts : TreeState) (ord acc res),
      vm.program = prog → vm.enableEsiTags = esi → SemInv vm ts nth →
      vm.runAux evs ord acc = .ok (vm', res) → res = runWith F esi ts evs ord acc := by
  intro evs
  induction evs with
  | nil =>
    intro vm vm' ts ord acc res _ _ _ h
    simp [Vm.runAux, pure, Except.pure] at h
    simp [runWith, h.2]
  | cons e rest ih =>
    intro vm vm' ts ord acc res hp hesi inv h
    cases e with
    | start t =>
      simp only [Vm.runAux, bind, Except.bind] at h
      split at h
      · cases h
      · rename_i r hr
        obtain ⟨vm1, ms⟩ := r
        obtain ⟨hids, hsorted, hp1, he1, inv1⟩ := inv.handleStartTag hr
        have hms : ms.map (·.matchId) = F (ts.elemFor t) ts.ancestors := by
          apply eq_of_sorted_of_mem_iff _ _ hsorted (hFs _ _)
          intro i
          rw [hids i, hF, hp]
        have := ih vm1 vm' _ _ _ _ (hp1.trans hp) (he1.trans hesi) (by rw [hesi] at inv1; exact inv1) h
        rw [this]
        simp only [runWith]
        congr 2
        rw [← hms]
        simp [List.map_map, Function.comp_def]
    | end_ n =>
      obtain ⟨vm1, he, hp1, he1, inv1⟩ := inv.handleEndTag n
      simp only [Vm.runAux, he, bind, Except.bind] at h
      have := ih vm1 vm' _ _ _ _ (hp1.trans hp) (he1.trans hesi) inv1 h
      rw [this]; rfl
end LolHtml.SelVM
