/-
Lemmas.SelRefine — towards `C04_vm_refines_css`: predicates vs compounds (negation flattening is
correct exactly for `:not()` arguments that are single simple selectors), the program denotation the VM
computes, tries and the compiled layout.
-/
import LolHtml.Lemmas.SelStack

set_option linter.unusedSimpArgs false
namespace LolHtml.SelVM
open LolHtml LolHtml.Sel LolHtml.Spec.Css

/-! ## ASCII lower-casing -/

set_option maxRecDepth 100000 in
theorem asciiLower_idem_fin :
    ∀ n : Fin 256, asciiLower (asciiLower (UInt8.ofNat n.val)) = asciiLower (UInt8.ofNat n.val) := by
  decide +kernel

theorem asciiLower_idem (b : UInt8) : asciiLower (asciiLower b) = asciiLower b := by
  have := asciiLower_idem_fin ⟨b.toNat, b.toNat_lt⟩
  simpa using this

theorem asciiLowerBytes_idem (bs : Bytes) : asciiLowerBytes (asciiLowerBytes bs) = asciiLowerBytes bs := by
  simp [asciiLowerBytes, asciiLower_idem]

/-! ## predicates against compounds -/

/-- the selector state of an element of the induced tree -/
def stateOf (nth : Bool) (e : Elem) : SelectorState :=
  ⟨e.childIndex, if nth then some e.typeIndex else none⟩

def matcherOf (e : Elem) : AttributeMatcher := ⟨e.tag.attrs, e.tag.ns == .html⟩

/-- value of a tag-name expression when the typed counter is available -/
def tagExprB (e : Elem) (x : Expr OnTagNameExpr) : Bool :=
  let r := match x.simpleExpr with
    | .explicitAny => true
    | .unmatchable => false
    | .localName n => localNameEq e.tag.name n
    | .nthChild a b => hasIndex a b e.childIndex
    | .nthOfType a b => hasIndex a b e.typeIndex
  if x.negation then !r else r

def predB (p : Predicate) (e : Elem) : Bool :=
  p.onTagNameExprs.all (tagExprB e) && p.onAttrExprs.all (evalAttrExpr (matcherOf e))

/-- simple selectors other than `:not()` -/
def Simple.isPlain : Simple → Bool
  | .not _ => false
  | _ => true

/-- `:not()` arguments are single plain simple selectors (lists of them are fine) -/
def Simple.notsSimple : Simple → Bool
  | .not args => args.all fun c =>
      match c with
      | [s] => Simple.isPlain s
      | _ => false
  | _ => true

def compoundOk (c : Compound) : Bool := c.all Simple.notsSimple

theorem getValue_eq_attrValue (e : Elem) (n : Bytes) :
    (matcherOf e).getValue (asciiLowerBytes n) = attrValue e.tag n := by
  simp [AttributeMatcher.getValue, attrValue, matcherOf, eqIgnoreAsciiCase]

theorem lower_idAttr : asciiLowerBytes idAttr = idAttr := by decide
theorem lower_classAttr : asciiLowerBytes classAttr = classAttr := by decide

/-- one plain component, added with sign `neg` -/
theorem predB_addSimple_plain (p : Predicate) (neg : Bool) (s : Simple) (hs : Simple.isPlain s = true) (e : Elem) :
    predB (Predicate.addSimple p neg s) e = (predB p e && (neg != matchesSimple codeLeaf e s)) := by
  cases s with
  | not args => simp [Simple.isPlain] at hs
  | type n =>
    simp only [Predicate.addSimple, Predicate.addComponent, Condition.ofSimple, predB, List.all_append,
      List.all_cons, List.all_nil, Bool.and_true, tagExprB, matchesSimple]
    cases neg <;> simp [Bool.and_assoc, Bool.and_comm, Bool.and_left_comm]
  | universal =>
    simp only [Predicate.addSimple, Predicate.addComponent, Condition.ofSimple, predB, List.all_append,
      List.all_cons, List.all_nil, Bool.and_true, tagExprB, matchesSimple]
    cases neg <;> simp [Bool.and_assoc, Bool.and_comm, Bool.and_left_comm]
  | id v =>
    simp only [Predicate.addSimple, Predicate.addComponent, Condition.ofSimple, predB, List.all_append,
      List.all_cons, List.all_nil, Bool.and_true, evalAttrExpr, matchesSimple, AttributeMatcher.hasId]
    rw [← lower_idAttr, getValue_eq_attrValue, lower_idAttr]
    cases attrValue e.tag idAttr <;> cases neg <;> simp [Bool.and_assoc]
  | cls v =>
    simp only [Predicate.addSimple, Predicate.addComponent, Condition.ofSimple, predB, List.all_append,
      List.all_cons, List.all_nil, Bool.and_true, evalAttrExpr, matchesSimple, AttributeMatcher.hasClass]
    rw [← lower_classAttr, getValue_eq_attrValue, lower_classAttr]
    cases attrValue e.tag classAttr <;> cases neg <;> simp [Bool.and_assoc]
  | attrExists n =>
    simp only [Predicate.addSimple, Predicate.addComponent, Condition.ofSimple, predB, List.all_append,
      List.all_cons, List.all_nil, Bool.and_true, evalAttrExpr, matchesSimple, AttributeMatcher.hasAttribute,
      getValue_eq_attrValue]
    cases neg <;> simp [Bool.and_assoc]
  | attr n op v cs =>
    simp only [Predicate.addSimple, Predicate.addComponent, Condition.ofSimple, predB, List.all_append,
      List.all_cons, List.all_nil, Bool.and_true, evalAttrExpr, matchesSimple, AttributeMatcher.attrCmp,
      asciiLowerBytes_idem, getValue_eq_attrValue, codeLeaf]
    cases attrValue e.tag n <;> cases neg <;> simp [Bool.and_assoc, matcherOf]
  | nthChild a b =>
    simp only [Predicate.addSimple, Predicate.addComponent, Condition.ofSimple, predB, List.all_append,
      List.all_cons, List.all_nil, Bool.and_true, tagExprB, matchesSimple, codeLeaf]
    cases neg <;> simp [Bool.and_assoc, Bool.and_comm, Bool.and_left_comm]
  | nthOfType a b =>
    simp only [Predicate.addSimple, Predicate.addComponent, Condition.ofSimple, predB, List.all_append,
      List.all_cons, List.all_nil, Bool.and_true, tagExprB, matchesSimple, codeLeaf]
    cases neg <;> simp [Bool.and_assoc, Bool.and_comm, Bool.and_left_comm]
  | firstChild =>
    simp only [Predicate.addSimple, Predicate.addComponent, Condition.ofSimple, predB, List.all_append,
      List.all_cons, List.all_nil, Bool.and_true, tagExprB, matchesSimple, codeLeaf]
    cases neg <;> simp [Bool.and_assoc, Bool.and_comm, Bool.and_left_comm]
  | firstOfType =>
    simp only [Predicate.addSimple, Predicate.addComponent, Condition.ofSimple, predB, List.all_append,
      List.all_cons, List.all_nil, Bool.and_true, tagExprB, matchesSimple, codeLeaf]
    cases neg <;> simp [Bool.and_assoc, Bool.and_comm, Bool.and_left_comm]


def singlePlain (c : List Simple) : Bool :=
  match c with
  | [s] => Simple.isPlain s
  | _ => false

theorem notsSimple_not (args : List (List Simple)) : Simple.notsSimple (.not args) = args.all singlePlain := by
  simp only [Simple.notsSimple]
  congr 1

theorem predB_addArgs (neg : Bool) (e : Elem) : ∀ (args : List (List Simple)) (p : Predicate),
    args.all singlePlain = true →
    predB (Predicate.addArgs p neg args) e =
      (predB p e && args.all fun c => neg != matchesCompound codeLeaf e c) := by
  intro args
  induction args with
  | nil => intro p _; simp [Predicate.addArgs]
  | cons c cs ih =>
    intro p h
    simp only [List.all_cons, Bool.and_eq_true] at h
    obtain ⟨hc, hcs⟩ := h
    match c, hc with
    | [s], hc =>
      simp only [singlePlain] at hc
      simp only [Predicate.addArgs, Predicate.addSelectorComponents, ih _ hcs,
        predB_addSimple_plain p neg s hc e, List.all_cons, matchesCompound, Bool.and_true, Bool.and_assoc]

theorem matchesAnyCompound_eq_any (L : Leaf) (e : Elem) (args : List (List Simple)) :
    matchesAnyCompound L e args = args.any (matchesCompound L e) := by
  induction args with
  | nil => rfl
  | cons c cs ih => simp [matchesAnyCompound, ih]

theorem predB_addSimple_ok (p : Predicate) (s : Simple) (hs : Simple.notsSimple s = true) (e : Elem) :
    predB (Predicate.addSimple p false s) e = (predB p e && matchesSimple codeLeaf e s) := by
  by_cases hp : Simple.isPlain s = true
  · rw [predB_addSimple_plain p false s hp e]; simp
  · cases s with
    | not args =>
      rw [notsSimple_not] at hs
      simp only [Predicate.addSimple, Bool.not_false, predB_addArgs true e args p hs, matchesSimple,
        matchesAnyCompound_eq_any]
      congr 1
      clear hs hp
      induction args with
      | nil => rfl
      | cons c cs ih =>
        simp only [List.all_cons, List.any_cons, ih]
        cases matchesCompound codeLeaf e c <;> simp
    | _ => simp [Simple.isPlain] at hp

theorem matchesCompound_eq_all (L : Leaf) (e : Elem) (c : List Simple) :
    matchesCompound L e c = c.all (matchesSimple L e) := by
  induction c with
  | nil => rfl
  | cons s ss ih => simp [matchesCompound, ih]

theorem predB_foldl (e : Elem) : ∀ (l : List Simple) (p : Predicate), l.all Simple.notsSimple = true →
    predB (l.foldl (fun p s => Predicate.addSimple p false s) p) e =
      (predB p e && l.all (matchesSimple codeLeaf e)) := by
  intro l
  induction l with
  | nil => intro p _; simp
  | cons s ss ih =>
    intro p h
    simp only [List.all_cons, Bool.and_eq_true] at h
    simp only [List.foldl_cons, ih _ h.2, predB_addSimple_ok p s h.1 e, List.all_cons, Bool.and_assoc]

/-- The predicate built for a compound evaluates to CSS matching of the compound (leaves as coded)
    whenever every `:not()` argument in it is a single plain simple selector. -/
theorem predB_ofCompound (c : Compound) (hc : compoundOk c = true) (e : Elem) :
    predB (Predicate.ofCompound c) e = matchesCompound codeLeaf e c := by
  unfold Predicate.ofCompound
  rw [predB_foldl e c.reverse {} (by simpa [compoundOk] using hc)]
  simp [predB, matchesCompound_eq_all]

/-! ## DenseHashSet membership -/

theorem DenseHashSet.mem_insert (l : List Nat) (v x : Nat) :
    x ∈ DenseHashSet.insert l v ↔ x = v ∨ x ∈ l := by
  induction l with
  | nil => simp [DenseHashSet.insert]
  | cons y ys ih =>
    unfold DenseHashSet.insert
    by_cases h1 : v < y
    · simp [h1]
    · by_cases h2 : v = y
      · subst h2; simp
      · have : (v == y) = false := by simp [h2]
        simp only [h1, if_false, this, Bool.false_eq_true, List.mem_cons, ih]
        constructor
        · rintro (h | h | h) <;> simp [h]
        · rintro (h | h | h) <;> simp [h]

theorem DenseHashSet.mem_union (a b : List Nat) (x : Nat) :
    x ∈ DenseHashSet.union a b ↔ x ∈ a ∨ x ∈ b := by
  unfold DenseHashSet.union
  induction b generalizing a with
  | nil => simp
  | cons y ys ih =>
    simp only [List.foldl_cons, ih, DenseHashSet.mem_insert, List.mem_cons]
    constructor
    · rintro ((h | h) | h) <;> simp [h]
    · rintro (h | h | h) <;> simp [h]

/-! ## what a with-attributes pass adds to the context -/

/-- the instruction at `addr` exists and matches; `b` is its branch -/
def Vm.HoldsAt (vm : Vm) (st : SelectorState) (name : Bytes) (m : AttributeMatcher) (addr : Nat)
    (b : ExecutionBranch) : Prop :=
  ∃ i, vm.fetch addr = .ok i ∧ i.exec st name m = .ok (some b)

/-- `ctx'` is `ctx` plus the branches `P` -/
structure Adds (ctx ctx' : ExecutionCtx) (P : ExecutionBranch → Prop) : Prop where
  frame : ctx'.SameFrame ctx
  ids : ∀ i, i ∈ ctx'.stackItem.matchedIds ↔ i ∈ ctx.stackItem.matchedIds ∨ ∃ b, P b ∧ i ∈ b.matchedIds
  jumps : ctx.withContent = true → ∀ r, r ∈ ctx'.stackItem.jumps ↔
    r ∈ ctx.stackItem.jumps ∨ ∃ b, P b ∧ b.jumps = some r
  hjumps : ctx.withContent = true → ∀ r, r ∈ ctx'.stackItem.hereditaryJumps ↔
    r ∈ ctx.stackItem.hereditaryJumps ∨ ∃ b, P b ∧ b.hereditaryJumps = some r

theorem Adds.refl (ctx : ExecutionCtx) : Adds ctx ctx (fun _ => False) :=
  ⟨.rfl' _, by simp, by simp, by simp⟩

theorem Adds.trans {c1 c2 c3 : ExecutionCtx} {P Q : ExecutionBranch → Prop} (h1 : Adds c1 c2 P) (h2 : Adds c2 c3 Q) :
    Adds c1 c3 (fun b => P b ∨ Q b) := by
  have hw : c2.withContent = c1.withContent := h1.frame.2.2.1
  refine ⟨h2.frame.trans h1.frame, ?_, ?_, ?_⟩
  · intro i
    rw [h2.ids, h1.ids]
    constructor
    · rintro ((h | ⟨b, hb, hi⟩) | ⟨b, hb, hi⟩)
      · exact Or.inl h
      · exact Or.inr ⟨b, Or.inl hb, hi⟩
      · exact Or.inr ⟨b, Or.inr hb, hi⟩
    · rintro (h | ⟨b, hb | hb, hi⟩)
      · exact Or.inl (Or.inl h)
      · exact Or.inl (Or.inr ⟨b, hb, hi⟩)
      · exact Or.inr ⟨b, hb, hi⟩
  · intro hc r
    rw [h2.jumps (hw.trans hc), h1.jumps hc]
    constructor
    · rintro ((h | ⟨b, hb, hi⟩) | ⟨b, hb, hi⟩)
      · exact Or.inl h
      · exact Or.inr ⟨b, Or.inl hb, hi⟩
      · exact Or.inr ⟨b, Or.inr hb, hi⟩
    · rintro (h | ⟨b, hb | hb, hi⟩)
      · exact Or.inl (Or.inl h)
      · exact Or.inl (Or.inr ⟨b, hb, hi⟩)
      · exact Or.inr ⟨b, hb, hi⟩
  · intro hc r
    rw [h2.hjumps (hw.trans hc), h1.hjumps hc]
    constructor
    · rintro ((h | ⟨b, hb, hi⟩) | ⟨b, hb, hi⟩)
      · exact Or.inl h
      · exact Or.inr ⟨b, Or.inl hb, hi⟩
      · exact Or.inr ⟨b, Or.inr hb, hi⟩
    · rintro (h | ⟨b, hb | hb, hi⟩)
      · exact Or.inl (Or.inl h)
      · exact Or.inl (Or.inr ⟨b, hb, hi⟩)
      · exact Or.inr ⟨b, hb, hi⟩

theorem Adds.congr {c1 c2 : ExecutionCtx} {P Q : ExecutionBranch → Prop} (h : Adds c1 c2 P) (hPQ : ∀ b, P b ↔ Q b) :
    Adds c1 c2 Q := by
  have : P = Q := funext fun b => propext (hPQ b)
  rw [← this]; exact h

theorem Adds.addBranch (ctx : ExecutionCtx) (b0 : ExecutionBranch) :
    Adds ctx (ctx.addExecutionBranch b0) (fun b => b = b0) := by
  refine ⟨ExecutionCtx.sameFrame_add _ _, ?_, ?_, ?_⟩
  · intro i
    unfold ExecutionCtx.addExecutionBranch
    have : ∀ (it : StackItem), (match b0.hereditaryJumps with
        | some h => { it with hereditaryJumps := it.hereditaryJumps ++ [h] }
        | none => it).matchedIds = it.matchedIds := by intro it; cases b0.hereditaryJumps <;> rfl
    cases ctx.withContent <;> cases hj : b0.jumps <;> cases hh : b0.hereditaryJumps <;>
      simp [DenseHashSet.mem_union]
  · intro hc r
    unfold ExecutionCtx.addExecutionBranch
    rw [hc]
    cases hj : b0.jumps <;> cases hh : b0.hereditaryJumps <;> simp [hj, eq_comm]
  · intro hc r
    unfold ExecutionCtx.addExecutionBranch
    rw [hc]
    cases hj : b0.jumps <;> cases hh : b0.hereditaryJumps <;> simp [hh, eq_comm]

theorem Adds.addOpt (ctx : ExecutionCtx) (ob : Option ExecutionBranch) :
    Adds ctx (ctx.addOpt ob) (fun b => ob = some b) := by
  cases ob with
  | none => exact (Adds.refl ctx).congr (by simp)
  | some b0 => exact (Adds.addBranch ctx b0).congr (by simp [eq_comm])

theorem Vm.execAddrs_adds (vm : Vm) (st : SelectorState) (m : AttributeMatcher) :
    ∀ (addrs : List Nat) (ctx ctx' : ExecutionCtx), vm.execAddrs st m addrs ctx = .ok ctx' →
    Adds ctx ctx' (fun b => ∃ a ∈ addrs, vm.HoldsAt st ctx.stackItem.localName m a b) := by
  intro addrs
  induction addrs with
  | nil =>
    intro ctx ctx' h
    simp [Vm.execAddrs, pure, Except.pure] at h; subst h
    exact (Adds.refl ctx).congr (by simp)
  | cons a rest ih =>
    intro ctx ctx' h
    simp only [Vm.execAddrs, bind, Except.bind] at h
    split at h
    · cases h
    · rename_i instr hf
      split at h
      · cases h
      · rename_i ob hex
        have h2 := ih _ _ h
        have h1 := Adds.addOpt ctx ob
        refine (h1.trans h2).congr ?_
        intro b
        simp only [ExecutionCtx.addOpt_localName, List.mem_cons]
        constructor
        · rintro (h | ⟨a', ha', hh⟩)
          · exact ⟨a, Or.inl rfl, instr, hf, by rw [hex, h]⟩
          · exact ⟨a', Or.inr ha', hh⟩
        · rintro ⟨a', ha' | ha', hh⟩
          · subst ha'
            obtain ⟨i', hf', he'⟩ := hh
            rw [hf] at hf'; cases hf'
            rw [hex] at he'; cases he'
            exact Or.inl rfl
          · exact Or.inr ⟨a', ha', hh⟩

/-- the selector state and matcher a with-attributes pass uses for `ctx` -/
def Vm.Holds (vm : Vm) (m : AttributeMatcher) (ctx : ExecutionCtx) (a : Nat) (b : ExecutionBranch) : Prop :=
  vm.HoldsAt (vm.stack.buildState ctx.stackItem.localName) ctx.stackItem.localName m a b

theorem Vm.Holds_congr (vm : Vm) (m : AttributeMatcher) {c1 c2 : ExecutionCtx} (h : c2.SameFrame c1) (a b) :
    vm.Holds m c2 a b ↔ vm.Holds m c1 a b := by
  unfold Vm.Holds; rw [h.1]

theorem Vm.execSetsWithAttrs_adds (vm : Vm) (m : AttributeMatcher) :
    ∀ (sets : List AddressRange) (ctx ctx' : ExecutionCtx), vm.execSetsWithAttrs m sets ctx = .ok ctx' →
    Adds ctx ctx' (fun b => ∃ r ∈ sets, ∃ a ∈ r.addrs, vm.Holds m ctx a b) := by
  intro sets
  induction sets with
  | nil =>
    intro ctx ctx' h
    simp [Vm.execSetsWithAttrs, pure, Except.pure] at h; subst h
    exact (Adds.refl ctx).congr (by simp)
  | cons r rest ih =>
    intro ctx ctx' h
    simp only [Vm.execSetsWithAttrs, bind, Except.bind] at h
    split at h
    · cases h
    · rename_i c1 h1
      have a1 := Vm.execAddrs_adds vm _ m _ _ _ h1
      have a2 := ih _ _ h
      refine (a1.trans a2).congr ?_
      intro b
      have hc : ∀ a, vm.Holds m c1 a b ↔ vm.Holds m ctx a b := fun a => Vm.Holds_congr vm m a1.frame a b
      simp only [List.mem_cons, hc]
      constructor
      · rintro (⟨a, ha, hh⟩ | ⟨r', hr', a, ha, hh⟩)
        · exact ⟨r, Or.inl rfl, a, ha, hh⟩
        · exact ⟨r', Or.inr hr', a, ha, hh⟩
      · rintro ⟨r', hr' | hr', a, ha, hh⟩
        · subst hr'; exact Or.inl ⟨a, ha, hh⟩
        · exact Or.inr ⟨r', hr', a, ha, hh⟩

/-- What running everything with attributes adds: the branches of the matching instructions among
    the entry points, the parent's jumps and the active hereditary jumps. -/
theorem Vm.execAllWithAttrs_adds (vm : Vm) (m : AttributeMatcher) (ctx ctx' : ExecutionCtx)
    (h : vm.execAllWithAttrs m ctx = .ok ctx') :
    Adds ctx ctx' (fun b => ∃ a, vm.Holds m ctx a b ∧
      (a ∈ vm.program.entryPoints.addrs ∨ (∃ r ∈ vm.parentJumps, a ∈ r.addrs) ∨
        (∃ r ∈ vm.activeRanges, a ∈ r.addrs))) := by
  simp only [Vm.execAllWithAttrs, Vm.execJumpsWithAttrs, Vm.execHereditaryJumpsWithAttrs,
    Vm.execSetsFromPtr_zero, bind, Except.bind] at h
  split at h
  · cases h
  · rename_i c1 h1
    split at h
    · cases h
    · rename_i c2 h2
      have a1 := Vm.execAddrs_adds vm _ m _ _ _ h1
      have a2 := Vm.execSetsWithAttrs_adds vm m _ _ _ h2
      have a3 := Vm.execSetsWithAttrs_adds vm m _ _ _ h
      refine ((a1.trans a2).trans a3).congr ?_
      intro b
      have hc1 : ∀ a, vm.Holds m c1 a b ↔ vm.Holds m ctx a b := fun a => Vm.Holds_congr vm m a1.frame a b
      have hc2 : ∀ a, vm.Holds m c2 a b ↔ vm.Holds m ctx a b :=
        fun a => Vm.Holds_congr vm m (a2.frame.trans a1.frame) a b
      simp only [hc1, hc2]
      constructor
      · rintro ((⟨a, ha, hh⟩ | ⟨r, hr, a, ha, hh⟩) | ⟨r, hr, a, ha, hh⟩)
        · exact ⟨a, hh, Or.inl (by simpa [AddressRange.addrs] using ha)⟩
        · exact ⟨a, hh, Or.inr (Or.inl ⟨r, hr, ha⟩)⟩
        · exact ⟨a, hh, Or.inr (Or.inr ⟨r, hr, ha⟩)⟩
      · rintro ⟨a, hh, ha | ⟨r, hr, ha⟩ | ⟨r, hr, ha⟩⟩
        · exact Or.inl (Or.inl ⟨a, by simpa [AddressRange.addrs] using ha, hh⟩)
        · exact Or.inl (Or.inr ⟨r, hr, a, ha, hh⟩)
        · exact Or.inr ⟨r, hr, a, ha, hh⟩
end LolHtml.SelVM
