/-
Lemmas.SelRefine — towards `C04_vm_refines_css`: predicates vs compounds (negation flattening is
correct exactly for `:not()` arguments that are single simple selectors), the program denotation the VM
computes, tries and the compiled layout.
-/
import LolHtml.Lemmas.SelStack

set_option linter.unusedSimpArgs false
namespace LolHtml.SelVM
open LolHtml LolHtml.Sel LolHtml.Spec.Css

/-! ## ASCII lower-casing -/

set_option maxRecDepth 100000 in
theorem asciiLower_idem_fin :
    ∀ n : Fin 256, asciiLower (asciiLower (UInt8.ofNat n.val)) = asciiLower (UInt8.ofNat n.val) := by
  decide +kernel

theorem asciiLower_idem (b : UInt8) : asciiLower (asciiLower b) = asciiLower b := by
  have := asciiLower_idem_fin ⟨b.toNat, b.toNat_lt⟩
  simpa using this

theorem asciiLowerBytes_idem (bs : Bytes) : asciiLowerBytes (asciiLowerBytes bs) = asciiLowerBytes bs := by
  simp [asciiLowerBytes, asciiLower_idem]

/-! ## predicates against compounds -/

/-- the selector state of an element of the induced tree -/
def stateOf (nth : Bool) (e : Elem) : SelectorState :=
  ⟨e.childIndex, if nth then some e.typeIndex else none⟩

def matcherOf (e : Elem) : AttributeMatcher := ⟨e.tag.attrs, e.tag.ns == .html⟩

/-- value of a tag-name expression when the typed counter is available -/
def tagExprB (e : Elem) (x : Expr OnTagNameExpr) : Bool :=
  let r := match x.simpleExpr with
    | .explicitAny => true
    | .unmatchable => false
    | .localName n => localNameEq e.tag.name n
    | .nthChild a b => hasIndex a b e.childIndex
    | .nthOfType a b => hasIndex a b e.typeIndex
  if x.negation then !r else r

def predB (p : Predicate) (e : Elem) : Bool :=
  p.onTagNameExprs.all (tagExprB e) && p.onAttrExprs.all (evalAttrExpr (matcherOf e))

/-- simple selectors other than `:not()` -/
def Simple.isPlain : Simple → Bool
  | .not _ => false
  | _ => true

/-- `:not()` arguments are single plain simple selectors (lists of them are fine) -/
def Simple.notsSimple : Simple → Bool
  | .not args => args.all fun c =>
      match c with
      | [s] => Simple.isPlain s
      | _ => false
  | _ => true

def compoundOk (c : Compound) : Bool := c.all Simple.notsSimple

theorem getValue_eq_attrValue (e : Elem) (n : Bytes) :
    (matcherOf e).getValue (asciiLowerBytes n) = attrValue e.tag n := by
  simp [AttributeMatcher.getValue, attrValue, matcherOf, eqIgnoreAsciiCase]

theorem lower_idAttr : asciiLowerBytes idAttr = idAttr := by decide
theorem lower_classAttr : asciiLowerBytes classAttr = classAttr := by decide

/-- one plain component, added with sign `neg` -/
theorem predB_addSimple_plain (p : Predicate) (neg : Bool) (s : Simple) (hs : Simple.isPlain s = true) (e : Elem) :
    predB (Predicate.addSimple p neg s) e = (predB p e && (neg != matchesSimple codeLeaf e s)) := by
  cases s with
  | not args => simp [Simple.isPlain] at hs
  | type n =>
    simp only [Predicate.addSimple, Predicate.addComponent, Condition.ofSimple, predB, List.all_append,
      List.all_cons, List.all_nil, Bool.and_true, tagExprB, matchesSimple]
    cases neg <;> simp [Bool.and_assoc, Bool.and_comm, Bool.and_left_comm]
  | universal =>
    simp only [Predicate.addSimple, Predicate.addComponent, Condition.ofSimple, predB, List.all_append,
      List.all_cons, List.all_nil, Bool.and_true, tagExprB, matchesSimple]
    cases neg <;> simp [Bool.and_assoc, Bool.and_comm, Bool.and_left_comm]
  | id v =>
    simp only [Predicate.addSimple, Predicate.addComponent, Condition.ofSimple, predB, List.all_append,
      List.all_cons, List.all_nil, Bool.and_true, evalAttrExpr, matchesSimple, AttributeMatcher.hasId]
    rw [← lower_idAttr, getValue_eq_attrValue, lower_idAttr]
    cases attrValue e.tag idAttr <;> cases neg <;> simp [Bool.and_assoc]
  | cls v =>
    simp only [Predicate.addSimple, Predicate.addComponent, Condition.ofSimple, predB, List.all_append,
      List.all_cons, List.all_nil, Bool.and_true, evalAttrExpr, matchesSimple, AttributeMatcher.hasClass]
    rw [← lower_classAttr, getValue_eq_attrValue, lower_classAttr]
    cases attrValue e.tag classAttr <;> cases neg <;> simp [Bool.and_assoc]
  | attrExists n =>
    simp only [Predicate.addSimple, Predicate.addComponent, Condition.ofSimple, predB, List.all_append,
      List.all_cons, List.all_nil, Bool.and_true, evalAttrExpr, matchesSimple, AttributeMatcher.hasAttribute,
      getValue_eq_attrValue]
    cases neg <;> simp [Bool.and_assoc]
  | attr n op v cs =>
    simp only [Predicate.addSimple, Predicate.addComponent, Condition.ofSimple, predB, List.all_append,
      List.all_cons, List.all_nil, Bool.and_true, evalAttrExpr, matchesSimple, AttributeMatcher.attrCmp,
      asciiLowerBytes_idem, getValue_eq_attrValue, codeLeaf]
    cases attrValue e.tag n <;> cases neg <;> simp [Bool.and_assoc, matcherOf]
  | nthChild a b =>
    simp only [Predicate.addSimple, Predicate.addComponent, Condition.ofSimple, predB, List.all_append,
      List.all_cons, List.all_nil, Bool.and_true, tagExprB, matchesSimple, codeLeaf]
    cases neg <;> simp [Bool.and_assoc, Bool.and_comm, Bool.and_left_comm]
  | nthOfType a b =>
    simp only [Predicate.addSimple, Predicate.addComponent, Condition.ofSimple, predB, List.all_append,
      List.all_cons, List.all_nil, Bool.and_true, tagExprB, matchesSimple, codeLeaf]
    cases neg <;> simp [Bool.and_assoc, Bool.and_comm, Bool.and_left_comm]
  | firstChild =>
    simp only [Predicate.addSimple, Predicate.addComponent, Condition.ofSimple, predB, List.all_append,
      List.all_cons, List.all_nil, Bool.and_true, tagExprB, matchesSimple, codeLeaf]
    cases neg <;> simp [Bool.and_assoc, Bool.and_comm, Bool.and_left_comm]
  | firstOfType =>
    simp only [Predicate.addSimple, Predicate.addComponent, Condition.ofSimple, predB, List.all_append,
      List.all_cons, List.all_nil, Bool.and_true, tagExprB, matchesSimple, codeLeaf]
    cases neg <;> simp [Bool.and_assoc, Bool.and_comm, Bool.and_left_comm]


def singlePlain (c : List Simple) : Bool :=
  match c with
  | [s] => Simple.isPlain s
  | _ => false

theorem notsSimple_not (args : List (List Simple)) : Simple.notsSimple (.not args) = args.all singlePlain := by
  simp only [Simple.notsSimple]
  congr 1

theorem predB_addArgs (neg : Bool) (e : Elem) : ∀ (args : List (List Simple)) (p : Predicate),
    args.all singlePlain = true →
    predB (Predicate.addArgs p neg args) e =
      (predB p e && args.all fun c => neg != matchesCompound codeLeaf e c) := by
  intro args
  induction args with
  | nil => intro p _; simp [Predicate.addArgs]
  | cons c cs ih =>
    intro p h
    simp only [List.all_cons, Bool.and_eq_true] at h
    obtain ⟨hc, hcs⟩ := h
    match c, hc with
    | [s], hc =>
      simp only [singlePlain] at hc
      simp only [Predicate.addArgs, Predicate.addSelectorComponents, ih _ hcs,
        predB_addSimple_plain p neg s hc e, List.all_cons, matchesCompound, Bool.and_true, Bool.and_assoc]

theorem matchesAnyCompound_eq_any (L : Leaf) (e : Elem) (args : List (List Simple)) :
    matchesAnyCompound L e args = args.any (matchesCompound L e) := by
  induction args with
  | nil => rfl
  | cons c cs ih => simp [matchesAnyCompound, ih]

theorem predB_addSimple_ok (p : Predicate) (s : Simple) (hs : Simple.notsSimple s = true) (e : Elem) :
    predB (Predicate.addSimple p false s) e = (predB p e && matchesSimple codeLeaf e s) := by
  by_cases hp : Simple.isPlain s = true
  · rw [predB_addSimple_plain p false s hp e]; simp
  · cases s with
    | not args =>
      rw [notsSimple_not] at hs
      simp only [Predicate.addSimple, Bool.not_false, predB_addArgs true e args p hs, matchesSimple,
        matchesAnyCompound_eq_any]
      congr 1
      clear hs hp
      induction args with
      | nil => rfl
      | cons c cs ih =>
        simp only [List.all_cons, List.any_cons, ih]
        cases matchesCompound codeLeaf e c <;> simp
    | _ => simp [Simple.isPlain] at hp

theorem matchesCompound_eq_all (L : Leaf) (e : Elem) (c : List Simple) :
    matchesCompound L e c = c.all (matchesSimple L e) := by
  induction c with
  | nil => rfl
  | cons s ss ih => simp [matchesCompound, ih]

theorem predB_foldl (e : Elem) : ∀ (l : List Simple) (p : Predicate), l.all Simple.notsSimple = true →
    predB (l.foldl (fun p s => Predicate.addSimple p false s) p) e =
      (predB p e && l.all (matchesSimple codeLeaf e)) := by
  intro l
  induction l with
  | nil => intro p _; simp
  | cons s ss ih =>
    intro p h
    simp only [List.all_cons, Bool.and_eq_true] at h
    simp only [List.foldl_cons, ih _ h.2, predB_addSimple_ok p s h.1 e, List.all_cons, Bool.and_assoc]

/-- The predicate built for a compound evaluates to CSS matching of the compound (leaves as coded)
    whenever every `:not()` argument in it is a single plain simple selector. -/
theorem predB_ofCompound (c : Compound) (hc : compoundOk c = true) (e : Elem) :
    predB (Predicate.ofCompound c) e = matchesCompound codeLeaf e c := by
  unfold Predicate.ofCompound
  rw [predB_foldl e c.reverse {} (by simpa [compoundOk] using hc)]
  simp [predB, matchesCompound_eq_all]
end LolHtml.SelVM
