import LolHtml.Lemmas.TbTree
/-!
Anchors of the stack of open elements: the elements "reset the insertion mode appropriately" looks at.
The *anchor suffix* of a stack (from the first anchor down) is what the table rules work on; the rules of
"in body" never touch it. `W`: adjacency of the table structure on a stack.
-/
namespace LolHtml.Spec.TreeBuilder
open LolHtml.Model (Ns)

def anchorNames : List Name :=
  [.td, .th, .tr, .tbody, .thead, .tfoot, .caption, .colgroup, .table, .template, .head, .body, .frameset, .html]

def El.isAnchor (e : El) : Bool := e.isHtmlIn anchorNames

/-- the stack from its first anchor down -/
def anchorSuffix : List El → List El
  | [] => []
  | e :: es => if e.isAnchor then e :: es else anchorSuffix es

theorem anchorSuffix_sub (st : List El) : ∀ e ∈ anchorSuffix st, e ∈ st := by
  induction st with
  | nil => intro e he; cases he
  | cons x xs ih =>
    intro e he
    unfold anchorSuffix at he
    split at he
    · exact he
    · exact List.mem_cons_of_mem _ (ih e he)

theorem anchorSuffix_idem (st : List El) : anchorSuffix (anchorSuffix st) = anchorSuffix st := by
  induction st with
  | nil => rfl
  | cons x xs ih =>
    by_cases h : x.isAnchor = true
    · simp [anchorSuffix, h]
    · simp [anchorSuffix, h, ih]

theorem anchorSuffix_cons_non (x : El) (xs : List El) (h : x.isAnchor = false) :
    anchorSuffix (x :: xs) = anchorSuffix xs := by simp [anchorSuffix, h]

theorem anchorSuffix_cons_anchor (x : El) (xs : List El) (h : x.isAnchor = true) :
    anchorSuffix (x :: xs) = x :: xs := by simp [anchorSuffix, h]

/-- `p` holds of an element above the first anchor -/
def foundAbove (p : El → Bool) : List El → Bool
  | [] => false
  | e :: es => if e.isAnchor then false else (p e || foundAbove p es)

/-- popping until an element above the first anchor keeps the anchor suffix -/
theorem popUntil_keep (p : El → Bool) (st : List El) (h : foundAbove p st = true) :
    anchorSuffix (popUntil p st) = anchorSuffix st := by
  induction st with
  | nil => cases h
  | cons x xs ih =>
    unfold foundAbove at h
    by_cases ha : x.isAnchor = true
    · simp [ha] at h
    · have ha' : x.isAnchor = false := by simpa using ha
      simp only [ha', Bool.false_eq_true, if_false, Bool.or_eq_true] at h
      unfold popUntil
      rw [anchorSuffix_cons_non x xs ha']
      split
      · rfl
      · rename_i hp
        rcases h with h | h
        · exact absurd h hp
        · exact ih h

/-- popping while elements are not anchors (a predicate that is false on anchors) keeps the anchor suffix -/
theorem popImplied_keep (l : List Name) (ex : Option Name) (hl : ∀ n : Name, n.isIn l = true → n.isIn anchorNames = false)
    (st : List El) : anchorSuffix (popImplied l ex st) = anchorSuffix st := by
  induction st with
  | nil => rfl
  | cons x xs ih =>
    unfold popImplied
    split
    · rename_i h
      have : x.isAnchor = false := by
        simp only [Bool.and_eq_true, El.isHtmlIn] at h
        simp only [El.isAnchor, El.isHtmlIn, h.1.1, Bool.true_and]
        exact hl _ h.1.2
      rw [anchorSuffix_cons_non x xs this]; exact ih
    · rfl

theorem impliedNames_nonanchor : ∀ n : Name, n.isIn impliedNames = true → n.isIn anchorNames = false := by
  intro n h
  cases n <;> simp [impliedNames, Name.isIn] at h <;> decide

/-- `drop` of a prefix that has no anchor keeps the anchor suffix -/
theorem drop_keep (st : List El) (i : Nat) (h : ∀ e ∈ st.take i, e.isAnchor = false) :
    anchorSuffix (st.drop i) = anchorSuffix st := by
  induction i generalizing st with
  | zero => rfl
  | succ i ih =>
    cases st with
    | nil => rfl
    | cons x xs =>
      have hx : x.isAnchor = false := h x (by simp)
      rw [List.drop_succ_cons, anchorSuffix_cons_non x xs hx]
      exact ih xs (fun e he => h e (by simp [List.take_succ_cons, he]))

/-! ### layout of the table structure -/

def secNames : List Name := [.tbody, .thead, .tfoot]

/-- the element directly below is an HTML element named in `l` -/
def nextIn (l : List Name) : List El → Prop
  | x :: _ => x.isHtmlIn l = true
  | [] => False

/-- adjacency of the structure elements on a stack: `tr` sits on a table section, a section / caption /
colgroup on a `table`, a cell on a `tr`, `body` and `head` on `html` -/
def W : List El → Prop
  | [] => True
  | e :: r =>
    W r ∧ (e.isHtml .tr = true → nextIn secNames r) ∧ (e.isHtmlIn secNames = true → nextIn [.table] r) ∧
    (e.isHtmlIn [.td, .th] = true → nextIn [.tr] r) ∧ (e.isHtml .caption = true → nextIn [.table] r) ∧
    (e.isHtml .colgroup = true → nextIn [.table] r) ∧ (e.isHtml .body = true → nextIn [.html] r) ∧
    (e.isHtml .head = true → nextIn [.html] r)

theorem W.tail {e : El} {r : List El} (h : W (e :: r)) : W r := h.1

theorem W.toSuffix {st : List El} (h : W st) : W (anchorSuffix st) := by
  induction st with
  | nil => exact h
  | cons x xs ih =>
    unfold LolHtml.Spec.TreeBuilder.anchorSuffix
    split
    · exact h
    · exact ih h.1

theorem W.drop {st : List El} (h : W st) (i : Nat) : W (st.drop i) := by
  induction i generalizing st with
  | zero => exact h
  | succ i ih =>
    cases st with
    | nil => exact h
    | cons x xs => exact ih h.1

/-- a non-anchor on top does not disturb the layout -/
theorem W.cons_non {x : El} {xs : List El} (hx : x.isAnchor = false) (h : W xs) : W (x :: xs) := by
  have hn : ∀ n : Name, n.isIn anchorNames = true → x.isHtml n = false := by
    intro n hn
    simp only [El.isAnchor, El.isHtmlIn, Bool.and_eq_false_iff] at hx
    simp only [El.isHtml, Bool.and_eq_false_iff]
    rcases hx with hx | hx
    · exact Or.inl hx
    · right
      cases hq : (x.name == n)
      · rfl
      · have : x.name = n := by simpa using hq
        rw [this] at hx; rw [hn] at hx; cases hx
  have hl : ∀ l : List Name, (∀ n : Name, n.isIn l = true → n.isIn anchorNames = true) → x.isHtmlIn l = false := by
    intro l hsub
    simp only [El.isAnchor, El.isHtmlIn, Bool.and_eq_false_iff] at hx ⊢
    rcases hx with hx | hx
    · exact Or.inl hx
    · right
      cases hq : x.name.isIn l
      · rfl
      · rw [hsub _ hq] at hx; cases hx
  refine ⟨h, ?_, ?_, ?_, ?_, ?_, ?_, ?_⟩
  · intro h'; rw [hn .tr (by decide)] at h'; cases h'
  · intro h'; rw [hl secNames (by intro n hn; cases n <;> simp [secNames, Name.isIn] at hn <;> decide)] at h'; cases h'
  · intro h'; rw [hl [.td, .th] (by intro n hn; cases n <;> simp [Name.isIn] at hn <;> decide)] at h'; cases h'
  · intro h'; rw [hn .caption (by decide)] at h'; cases h'
  · intro h'; rw [hn .colgroup (by decide)] at h'; cases h'
  · intro h'; rw [hn .body (by decide)] at h'; cases h'
  · intro h'; rw [hn .head (by decide)] at h'; cases h'

theorem W.ofSuffix {st : List El} (h : W (anchorSuffix st)) : W st := by
  induction st with
  | nil => exact h
  | cons x xs ih =>
    by_cases hx : x.isAnchor = true
    · rwa [anchorSuffix_cons_anchor x xs hx] at h
    · have hx' : x.isAnchor = false := by simpa using hx
      rw [anchorSuffix_cons_non x xs hx'] at h
      exact W.cons_non hx' (ih h)

/-- the scope walks of "in body" (every scope whose boundaries include `td th caption table template html`)
fail once they reach the first anchor: what they look for is no anchor, and from a `tr` / section /
`colgroup` / `body` / `head` the next boundary comes before anything else -/
theorem scope_fails_at_anchor (p bnd : El → Bool) (hp : ∀ e, p e = true → e.isAnchor = false)
    (hb : ∀ e : El, e.isHtmlIn [.td, .th, .caption, .table, .template, .html] = true → bnd e = true)
    (A : List El) (hW : W A) (hA : ∀ a r, A = a :: r → a.isAnchor = true ∧ a.isHtml .frameset = false) :
    hasInScopeBy p bnd A = false := by
  have pf : ∀ e : El, e.isAnchor = true → p e = false := by
    intro e he
    cases hq : p e
    · rfl
    · rw [hp e hq] at he; cases he
  cases A with
  | nil => rfl
  | cons a r =>
    obtain ⟨haa, hfs⟩ := hA a r rfl
    have hpa := pf a haa
    -- one more element below, when it is an HTML element named in `l` ⊆ anchors
    have anch : ∀ (l : List Name) (x : El), (∀ n : Name, n.isIn l = true → n.isIn anchorNames = true) →
        x.isHtmlIn l = true → x.isAnchor = true := by
      intro l x hsub hx
      simp only [El.isHtmlIn, Bool.and_eq_true] at hx
      simp [El.isAnchor, El.isHtmlIn, hx.1, hsub _ hx.2]
    simp only [El.isAnchor, El.isHtmlIn, Bool.and_eq_true] at haa
    obtain ⟨hns, hname⟩ := haa
    have key : ∀ n : Name, a.name = n → a.isHtml n = true := by
      intro n hn; simp [El.isHtml, hns, hn]
    have keyIn : ∀ (l : List Name), a.name.isIn l = true → a.isHtmlIn l = true := by
      intro l hl; simp [El.isHtmlIn, hns, hl]
    unfold hasInScopeBy
    simp only [hpa, Bool.false_eq_true, if_false]
    by_cases hba : bnd a = true
    · simp [hba]
    simp only [hba, if_false]
    -- `a` is not a boundary: it is tr / section / colgroup / body / head
    have hnb : a.name.isIn [.td, .th, .caption, .table, .template, .html] = false := by
      cases hq : a.name.isIn [.td, .th, .caption, .table, .template, .html]
      · rfl
      · exact absurd (hb a (keyIn _ hq)) hba
    obtain ⟨hWr, w1, w2, w3, w4, w5, w6, w7⟩ := hW
    -- the element below
    have step1 : ∀ (l : List Name), (∀ n : Name, n.isIn l = true → n.isIn anchorNames = true) → nextIn l r →
        ∃ x r', r = x :: r' ∧ x.isHtmlIn l = true ∧ p x = false := by
      intro l hsub hn
      cases r with
      | nil => exact hn.elim
      | cons x r' => exact ⟨x, r', rfl, hn, pf x (anch l x hsub hn)⟩
    have fin : ∀ (x : El) (r' : List El), x.isHtmlIn [.table] = true ∨ x.isHtmlIn [.html] = true →
        p x = false → hasInScopeBy p bnd (x :: r') = false := by
      intro x r' hx hpx
      have : bnd x = true := by
        rcases hx with hx | hx
        · apply hb; simp only [El.isHtmlIn, Bool.and_eq_true] at hx ⊢; refine ⟨hx.1, ?_⟩
          have : x.name = .table := by simpa [Name.isIn] using hx.2
          rw [this]; decide
        · apply hb; simp only [El.isHtmlIn, Bool.and_eq_true] at hx ⊢; refine ⟨hx.1, ?_⟩
          have : x.name = .html := by simpa [Name.isIn] using hx.2
          rw [this]; decide
      simp [hasInScopeBy, hpx, this]
    have tblAnch : ∀ n : Name, n.isIn [Name.table] = true → n.isIn anchorNames = true := by
      intro n hn; cases n <;> simp [Name.isIn] at hn <;> decide
    have htmlAnch : ∀ n : Name, n.isIn [Name.html] = true → n.isIn anchorNames = true := by
      intro n hn; cases n <;> simp [Name.isIn] at hn <;> decide
    have secAnch : ∀ n : Name, n.isIn secNames = true → n.isIn anchorNames = true := by
      intro n hn; cases n <;> simp [secNames, Name.isIn] at hn <;> decide
    -- case on the name of `a`
    have hcases : a.name = .tr ∨ a.name.isIn secNames = true ∨ a.name = .colgroup ∨ a.name = .body ∨ a.name = .head := by
      have hf : a.name ≠ .frameset := by
        intro h; rw [key _ h] at hfs; cases hfs
      revert hname hnb hf
      cases a.name <;> simp [anchorNames, secNames, Name.isIn]
    rcases hcases with h | h | h | h | h
    · obtain ⟨x, r', rfl, hx, hpx⟩ := step1 secNames secAnch (w1 (key _ h))
      have hWx := hWr
      obtain ⟨_, _, wx2, _⟩ := hWx
      obtain ⟨y, r'', hr, hy, hpy⟩ : ∃ y r'', r' = y :: r'' ∧ y.isHtmlIn [.table] = true ∧ p y = false := by
        have := wx2 hx
        cases r' with
        | nil => exact this.elim
        | cons y r'' => exact ⟨y, r'', rfl, this, pf y (anch _ y tblAnch this)⟩
      subst hr
      unfold hasInScopeBy
      simp only [hpx, Bool.false_eq_true, if_false]
      split
      · rfl
      · exact fin y r'' (Or.inl hy) hpy
    · obtain ⟨x, r', rfl, hx, hpx⟩ := step1 [.table] tblAnch (w2 (keyIn _ h))
      exact fin x r' (Or.inl hx) hpx
    · obtain ⟨x, r', rfl, hx, hpx⟩ := step1 [.table] tblAnch (w5 (key _ h))
      exact fin x r' (Or.inl hx) hpx
    · obtain ⟨x, r', rfl, hx, hpx⟩ := step1 [.html] htmlAnch (w6 (key _ h))
      exact fin x r' (Or.inr hx) hpx
    · obtain ⟨x, r', rfl, hx, hpx⟩ := step1 [.html] htmlAnch (w7 (key _ h))
      exact fin x r' (Or.inr hx) hpx

/-- a successful scope walk of "in body" found its element above the first anchor -/
theorem scope_foundAbove (p bnd : El → Bool) (hp : ∀ e, p e = true → e.isAnchor = false)
    (hb : ∀ e : El, e.isHtmlIn [.td, .th, .caption, .table, .template, .html] = true → bnd e = true)
    (st : List El) (hW : W st) (hfs : ∀ e ∈ st, e.isHtml .frameset = false)
    (h : hasInScopeBy p bnd st = true) : foundAbove p st = true := by
  induction st with
  | nil => cases h
  | cons x xs ih =>
    by_cases hx : x.isAnchor = true
    · have := scope_fails_at_anchor p bnd hp hb (x :: xs) hW
        (fun a r har => by obtain ⟨rfl, rfl⟩ := List.cons.inj har; exact ⟨hx, hfs _ (by simp)⟩)
      rw [this] at h; cases h
    · have hx' : x.isAnchor = false := by simpa using hx
      unfold hasInScopeBy at h
      unfold foundAbove
      simp only [hx', Bool.false_eq_true, if_false, Bool.or_eq_true]
      by_cases hpx : p x = true
      · exact Or.inl hpx
      · have hpx' : p x = false := by simpa using hpx
        simp only [hpx', Bool.false_eq_true, if_false] at h
        by_cases hbx : bnd x = true
        · simp [hbx] at h
        · simp only [hbx, if_false] at h
          exact Or.inr (ih hW.1 (fun e he => hfs e (List.mem_cons_of_mem _ he)) h)

end LolHtml.Spec.TreeBuilder
