import LolHtml.Lemmas.TbBody3
/-!
The end tags and the other tokens of "in body" in the body phase; "text".
-/
namespace LolHtml.Spec.TreeBuilder
open LolHtml.Model (Ns)

variable {c : Cfg} {s : State}

/-- an end tag carrying an anchor name that is not the first anchor's: "any other end tag" finds nothing -/
theorem findEndTarget_anchor_none (d : Dev) (n : Name) (hn : n.isIn anchorNames = true) (st : List El)
    (hne : anchorSuffix st ≠ []) (hfa : ∀ a r, anchorSuffix st = a :: r → a.isHtml n = false) :
    findEndTarget d n st = none := by
  induction st with
  | nil => exact absurd rfl hne
  | cons e es ih =>
    unfold findEndTarget
    by_cases he : e.isAnchor = true
    · have h1 : e.isHtml n = false := hfa e es (anchorSuffix_cons_anchor e es he)
      simp [h1, anchor_special d e he]
    · have he' : e.isAnchor = false := by simpa using he
      have h1 : e.isHtml n = false := by
        cases hq : e.isHtml n
        · rfl
        · simp only [El.isHtml, Bool.and_eq_true, beq_iff_eq] at hq
          simp [El.isAnchor, El.isHtmlIn, hq.1, hq.2, hn] at he'
      rw [anchorSuffix_cons_non e es he'] at hne hfa
      simp only [h1, Bool.false_eq_true, if_false]
      split
      · rfl
      · rw [ih hne hfa]; rfl

theorem ks_anyOtherEndTag_anchor {t X : Tree} (hk : Keeps t X) (n : Name) (hn : n.isIn anchorNames = true)
    (hne : anchorSuffix X.stack ≠ []) (hfa : ∀ a r, anchorSuffix X.stack = a :: r → a.isHtml n = false) :
    Keeps t (X.anyOtherEndTag c n) := by
  unfold Tree.anyOtherEndTag
  rw [findEndTarget_anchor_none c.dev n hn X.stack hne hfa]
  exact hk

theorem BInv.nonempty (hB : BInv s) : anchorSuffix s.tree.stack ≠ [] := by
  obtain ⟨mid, b, h, hA, _⟩ := hB.ba.bottom
  rw [hA]; simp

/-- `</form>` without a template on the stack: the form element pointer's element leaves the stack -/
theorem bstep_form (hI : Inv false s) (hB : BInv s) (hph : BodyPhase s) (h1 : s.mode ≠ .text) (h2 : s.mode ≠ .inTableText)
    (node : El) (hf : s.formPtr = some node) :
    BStep s (({ s with formPtr := none } : State).genImplied.removeFromStack node) := by
  have hen : node.isAnchor = false := hB.form node hf
  refine bstep_filter hB hph h1 h2 node hen ?_ ⟨rfl, rfl⟩ (Or.inr (Or.inl rfl)) (Or.inl rfl) ?_
  rotate_left 1
  · intro _ hS
    have hT : TreeOk PNoSel s.tree := ⟨hS, hI.tree.afe⟩
    have : TreeOk PNoSel ((s.tree.genImplied none).removeFromStack node) := by sel_ok
    exact this.stack
  show anchorSuffix ((s.tree.genImplied none).stack.filter (· != node)) = _
  rw [anchorSuffix_filter node hen, (keeps_genImplied s.tree none : Keeps _ _)]

set_option maxHeartbeats 8000000 in
theorem inBodyEnd_body (hleg : c.legacySelect = false) (hI : Inv false s) (hB : BInv s) (hph : BodyPhase s)
    (h1 : s.mode ≠ .text) (h2 : s.mode ≠ .inTableText) (n : Name)
    (hbe : n = .body ∨ n = .html → modeAnchors s.mode = some [.body])
    (hna : n ≠ .body → n.isIn anchorNames = true → ∀ a r, anchorSuffix s.tree.stack = a :: r → a.isHtml n = false) :
    BodyPost s (inBodyEnd c s n) := by
  have hAT := AT.ofInv hI hB
  have hne := hB.nonempty
  by_cases hb : n = .body
  · subst hb
    eval_rule [inBodyEnd, hleg]
    split
    · exact bstep_same hB hph
    · exact bstep_keep hB hph h1 h2 hI.tree.afe (Keeps.refl _) (Or.inr (Or.inr ⟨hbe (Or.inl rfl), Or.inl rfl⟩)) (Or.inl rfl) (Or.inl rfl) (fun h => by cases h) (fun _ h => h)
  by_cases hh : n = .html
  · subst hh
    eval_rule [inBodyEnd, hleg]
    split
    · exact bstep_same hB hph
    · exact bstep_keep hB hph h1 h2 hI.tree.afe (Keeps.refl _) (Or.inr (Or.inr ⟨hbe (Or.inr rfl), Or.inl rfl⟩)) (Or.inl rfl) (Or.inl rfl) (fun h => by cases h) (fun _ h => h)
  by_cases hf : n = .form
  · subst hf
    eval_rule [inBodyEnd, hleg, State.hasOnStack, hasOnStack_template_false hI.tree]
    split
    · exact bstep_same hB hph
    · rename_i node hnode
      split
      · exact ⟨⟨hB.ba, fun f hf => (by cases hf), hB.txt, hB.sel⟩, fun h => h, hph⟩
      · exact bstep_form hI hB hph h1 h2 node hnode
  have hna' := hna hb
  cases n <;> (try (exfalso; first | exact hb rfl | exact hh rfl | exact hf rfl))
  all_goals eval_rule [inBodyEnd, hleg, inHead, State.hasOnStack, hasOnStack_template_false hI.tree]
  all_goals (repeat' split)
  all_goals (try simp only [Bool.not_eq_true', Bool.not_eq_true, Bool.not_eq_false, Bool.not_eq_false'] at *)
  all_goals first
    | body_branch hAT hB hph h1 h2
    | (refine bstep_keep hB hph h1 h2 hI.tree.afe (ks_anyOtherEndTag_anchor (Keeps.refl _) _ ?_ hne (hna' ?_))
        (Or.inl ⟨rfl, rfl⟩) (Or.inl rfl) (Or.inl rfl) (fun h => absurd h h1)
        (fun _ hT => TreeOk.anyOtherEndTag' _ _ hT) <;> decide)

end LolHtml.Spec.TreeBuilder
