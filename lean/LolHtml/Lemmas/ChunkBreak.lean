import LolHtml.Lemmas.ChunkInterp
/-!
`break_on_end_of_input`: re-basing of the split machine, alone (the whole run continues) or together
with the whole machine (both inputs end at the same byte).
-/
namespace LolHtml.Model.Chunk
open LolHtml LolHtml.Model

variable {κ : Type}

theorem alignNat_ge {x o : Nat} (h : o ≤ x) : alignNat x o = x - o := by
  unfold alignNat; rw [if_pos h]

theorem range_align_ge {r : Range} {o : Nat} (h : geR o r) : r.align o = ⟨r.start - o, r.end - o⟩ := by
  unfold Range.align; rw [alignNat_ge h.1, alignNat_ge h.2]

section
variable {δ : Nat}

/-- re-basing the split side by `c ≤ L` (everything valid lies at or after `L`) -/
theorem TagRel.alignS {L c : Nat} {gn ga : Bool} {t t' : TagOutline} (h : TagRel δ L gn ga t t') (hc : c = L) :
    TagRel (δ + c) 0 gn ga (t.align c) t' := by
  subst hc
  obtain ⟨h1, h2, h3, h4, h5, h6⟩ := h
  cases t <;> cases t' <;> simp only [TagOutline.isStart] at h1 <;> try cases h1
  · refine ⟨rfl, h2, h3, h4, fun g => ?_, fun g => ?_⟩
    · obtain ⟨a, b⟩ := h5 g
      simp only [TagOutline.name, TagOutline.align] at a b ⊢
      rw [range_align_ge b, a]
      refine ⟨?_, Nat.zero_le _, Nat.zero_le _⟩
      simp only [shR, Range.mk.injEq]; have := b.1; have := b.2; omega
    · obtain ⟨a, b⟩ := h6 g
      simp only [tagAttrs, TagOutline.align] at a b ⊢
      refine ⟨?_, fun x _ => ⟨⟨Nat.zero_le _, Nat.zero_le _⟩, ⟨Nat.zero_le _, Nat.zero_le _⟩, ⟨Nat.zero_le _, Nat.zero_le _⟩⟩⟩
      rw [a, List.map_map]
      apply List.map_congr_left
      intro x hx
      obtain ⟨b1, b2, b3⟩ := b x hx
      simp only [Function.comp, AttrOutline.align, shA, range_align_ge b1, range_align_ge b2, range_align_ge b3, shR,
        AttrOutline.mk.injEq, Range.mk.injEq]
      have := b1.1; have := b1.2; have := b2.1; have := b2.2; have := b3.1; have := b3.2
      omega
  · refine ⟨rfl, h2, h3, h4, fun g => ?_, fun g => ⟨rfl, fun x hx => by cases hx⟩⟩
    obtain ⟨a, b⟩ := h5 g
    simp only [TagOutline.name, TagOutline.align] at a b ⊢
    rw [range_align_ge b, a]
    refine ⟨?_, Nat.zero_le _, Nat.zero_le _⟩
    simp only [shR, Range.mk.injEq]; have := b.1; have := b.2; omega

theorem AttrRel.alignS {L c : Nat} {v : Bool} {a a' : AttrOutline} (h : AttrRel δ L v a a') (hc : c = L) :
    AttrRel (δ + c) 0 v (a.align c) a' := by
  subst hc
  refine ⟨fun g => ?_⟩
  obtain ⟨e, b1, b2, b3⟩ := h.val g
  refine ⟨?_, ⟨Nat.zero_le _, Nat.zero_le _⟩, ⟨Nat.zero_le _, Nat.zero_le _⟩, ⟨Nat.zero_le _, Nat.zero_le _⟩⟩
  rw [e]
  simp only [AttrOutline.align, shA, range_align_ge b1, range_align_ge b2, range_align_ge b3, shR,
    AttrOutline.mk.injEq, Range.mk.injEq]
  have := b1.1; have := b1.2; have := b2.1; have := b2.2; have := b3.1; have := b3.2
  omega

theorem optRange_alignS {L : Nat} {o : Option Range} (h : geOR L o) :
    (o.map (·.align L)).map (shR (δ + L)) = o.map (shR δ) ∧ geOR 0 (o.map (·.align L)) := by
  cases o with
  | none => exact ⟨rfl, trivial⟩
  | some r =>
    have hr : geR L r := h
    refine ⟨?_, ⟨Nat.zero_le _, Nat.zero_le _⟩⟩
    simp only [Option.map_some, range_align_ge hr, shR, Option.some.injEq, Range.mk.injEq]
    have := hr.1; have := hr.2; omega

theorem NonTagRel.alignS {L c : Nat} {v : Bool} {a a' : NonTagOutline} (h : NonTagRel δ L v a a') (hc : c = L) :
    NonTagRel (δ + c) 0 v (a.align c) a' := by
  subst hc
  obtain ⟨hct, hv⟩ := h
  cases a <;> cases a' <;> simp only [sameCtor] at hct <;> try exact hct.elim
  · subst hct; exact ⟨rfl, fun g => ⟨rfl, trivial⟩⟩
  · refine ⟨trivial, fun g => ?_⟩
    obtain ⟨e, b⟩ := hv g
    have b : geR c _ := b
    simp only [shNonTag, NonTagOutline.comment.injEq] at e
    simp only [NonTagOutline.align, range_align_ge b, e, shNonTag, shR, NonTagOutline.comment.injEq, Range.mk.injEq]
    refine ⟨?_, Nat.zero_le _, Nat.zero_le _⟩
    have := b.1; have := b.2; omega
  · refine ⟨hct, fun g => ?_⟩
    obtain ⟨e, b1, b2, b3⟩ := hv g
    simp only [shNonTag, NonTagOutline.doctype.injEq] at e
    obtain ⟨e1, g1⟩ := optRange_alignS (δ := δ) b1
    obtain ⟨e2, g2⟩ := optRange_alignS (δ := δ) b2
    obtain ⟨e3, g3⟩ := optRange_alignS (δ := δ) b3
    refine ⟨?_, g1, g2, g3⟩
    simp only [NonTagOutline.align, shNonTag, shDoctype, e, e1, e2, e3]
  · exact ⟨trivial, fun g => ⟨rfl, trivial⟩⟩

theorem OptRel.map_left {α : Type} {R R' : α → α → Prop} (f : α → α) (h : ∀ a b, R a b → R' (f a) b) :
    ∀ {x y : Option α}, OptRel R x y → OptRel R' (x.map f) y
  | none, none, _ => trivial
  | some a, some b, hr => h a b hr
  | none, some _, hr => hr.elim
  | some _, none, hr => hr.elim

theorem leNonTag_align {c U : Nat} {n : NonTagOutline} (hg : geNonTag c n) (hu : leNonTag (U + c) n) :
    leNonTag U (n.align c) := by
  cases n with
  | doctype d =>
    obtain ⟨g1, g2, g3⟩ := hg
    obtain ⟨u1, u2, u3⟩ := hu
    have ho : ∀ o : Option Range, geOR c o → leOR (U + c) o → leOR U (o.map (·.align c)) := by
      intro o hg hu
      cases o with
      | none => trivial
      | some r =>
        have hg : geR c r := hg
        have hu : r.end ≤ U + c := hu
        show (r.align c).end ≤ U
        simp only [Range.align, alignNat]
        rw [if_pos hg.2]; omega
    exact ⟨ho _ g1 u1, ho _ g2 u2, ho _ g3 u3⟩
  | comment r => trivial
  | text t => trivial
  | eof => trivial

/-- the lexer's registers after the split run alone has broken at `c = lexeme_start` -/
theorem LexRel.alignS {d np np' : Nat} {ab : Ab} {ls lw : LexRegs} (h : LexRel δ d ab np ls lw) (hP : ab.P = false)
    (hu : ab.N = true → ∀ n, ls.curNonTag = some n → leNonTag (np' + ls.lexemeStart) n) :
    LexRel (δ + ls.lexemeStart) d ab np'
      { ls with tokenPartStart := alignNat ls.tokenPartStart ls.lexemeStart
                curTag := ls.curTag.map (·.align ls.lexemeStart)
                curNonTag := ls.curNonTag.map (·.align ls.lexemeStart)
                curAttr := ls.curAttr.map (·.align ls.lexemeStart)
                lexemeStart := 0 } lw := by
  refine ⟨Nat.zero_le _, (by have := h.ls_eq; simp only; omega), (fun g => by rw [hP] at g; cases g), h.fd, fun g => ?_,
    OptRel.map_left _ (fun a b hr => hr.alignS rfl) h.tag, OptRel.map_left _ (fun a b hr => hr.alignS rfl) h.attr,
    OptRel.map_left _ (fun a b hr => hr.alignS rfl) h.nt, fun g => ?_, fun g n hn => ?_,
    (fun _ g => by rw [hP] at g; cases g)⟩
  · obtain ⟨a, b⟩ := h.t g
    simp only
    rw [alignNat_ge b]
    exact ⟨by omega, Nat.zero_le _⟩
  · obtain ⟨r, hr⟩ := h.nc g
    exact ⟨r.align ls.lexemeStart, by simp only [hr, Option.map_some, NonTagOutline.align]⟩
  · simp only at hn
    cases hcn : ls.curNonTag with
    | none => rw [hcn] at hn; cases hn
    | some n0 =>
      rw [hcn] at hn
      simp only [Option.map_some, Option.some.injEq] at hn
      subst hn
      have hnt := h.nt
      rw [hcn] at hnt
      cases hw : lw.curNonTag with
      | none => rw [hw] at hnt; exact hnt.elim
      | some nw =>
        rw [hw] at hnt
        have hr : NonTagRel δ ls.lexemeStart ab.N n0 nw := hnt
        exact leNonTag_align (hr.val g).2 (hu g _ hcn)

/-! ### re-basing the whole side (both runs break together) -/

theorem shR_align {c : Nat} (r : Range) (hc : c ≤ δ) : (shR δ r).align c = shR (δ - c) r := by
  unfold Range.align shR
  simp only
  rw [alignNat_ge (by omega), alignNat_ge (by omega)]
  simp only [Range.mk.injEq]; omega

theorem shA_align {c : Nat} (a : AttrOutline) (hc : c ≤ δ) : (shA δ a).align c = shA (δ - c) a := by
  unfold AttrOutline.align shA
  simp only [shR_align _ hc]

theorem TagRel.alignW {L c : Nat} {gn ga : Bool} {t t' : TagOutline} (h : TagRel δ L gn ga t t') (hc : c ≤ δ) :
    TagRel (δ - c) L gn ga t (t'.align c) := by
  obtain ⟨h1, h2, h3, h4, h5, h6⟩ := h
  cases t <;> cases t' <;> simp only [TagOutline.isStart] at h1 <;> try cases h1
  · refine ⟨rfl, h2, h3, h4, fun g => ?_, fun g => ?_⟩
    · obtain ⟨a, b⟩ := h5 g
      simp only [TagOutline.name, TagOutline.align] at a b ⊢
      rw [a, shR_align _ hc]
      exact ⟨rfl, b⟩
    · obtain ⟨a, b⟩ := h6 g
      simp only [tagAttrs, TagOutline.align] at a b ⊢
      refine ⟨?_, b⟩
      rw [a, List.map_map]
      apply List.map_congr_left
      intro x _
      exact shA_align x hc
  · refine ⟨rfl, h2, h3, h4, fun g => ?_, fun g => ⟨rfl, fun x hx => by cases hx⟩⟩
    obtain ⟨a, b⟩ := h5 g
    simp only [TagOutline.name, TagOutline.align] at a b ⊢
    rw [a, shR_align _ hc]
    exact ⟨rfl, b⟩

theorem AttrRel.alignW {L c : Nat} {v : Bool} {a a' : AttrOutline} (h : AttrRel δ L v a a') (hc : c ≤ δ) :
    AttrRel (δ - c) L v a (a'.align c) := by
  refine ⟨fun g => ?_⟩
  obtain ⟨e, b⟩ := h.val g
  rw [e, shA_align _ hc]
  exact ⟨rfl, b⟩

theorem NonTagRel.alignW {L c : Nat} {v : Bool} {a a' : NonTagOutline} (h : NonTagRel δ L v a a') (hc : c ≤ δ) :
    NonTagRel (δ - c) L v a (a'.align c) := by
  obtain ⟨hct, hv⟩ := h
  cases a <;> cases a' <;> simp only [sameCtor] at hct <;> try exact hct.elim
  · subst hct; exact ⟨rfl, fun g => ⟨rfl, trivial⟩⟩
  · refine ⟨trivial, fun g => ?_⟩
    obtain ⟨e, b⟩ := hv g
    simp only [shNonTag, NonTagOutline.comment.injEq] at e
    simp only [NonTagOutline.align, e, shR_align _ hc, shNonTag]
    exact ⟨trivial, b⟩
  · refine ⟨hct, fun g => ?_⟩
    obtain ⟨e, b⟩ := hv g
    simp only [shNonTag, NonTagOutline.doctype.injEq] at e
    refine ⟨?_, b⟩
    have ho : ∀ o : Option Range, (o.map (shR δ)).map (·.align c) = o.map (shR (δ - c)) := by
      intro o; cases o with
      | none => rfl
      | some r => simp only [Option.map_some, shR_align _ hc]
    simp only [NonTagOutline.align, shNonTag, shDoctype, e, ho]
  · exact ⟨trivial, fun g => ⟨rfl, trivial⟩⟩

theorem OptRel.map_right {α : Type} {R R' : α → α → Prop} (f : α → α) (h : ∀ a b, R a b → R' a (f b)) :
    ∀ {x y : Option α}, OptRel R x y → OptRel R' x (y.map f)
  | none, none, _ => trivial
  | some a, some b, hr => h a b hr
  | none, some _, hr => hr.elim
  | some _, none, hr => hr.elim

/-- the whole run re-bases by its own `lexeme_start`, the split run having already re-based (its
`lexeme_start` is 0): the relation holds in the frame of the remaining text debt -/
theorem LexRel.alignW {d np : Nat} {ab : Ab} {ls lw : LexRegs} (h : LexRel δ d ab np ls lw) (h0 : ls.lexemeStart = 0) :
    LexRel d d ab np ls
      { lw with tokenPartStart := alignNat lw.tokenPartStart lw.lexemeStart
                curTag := lw.curTag.map (·.align lw.lexemeStart)
                curNonTag := lw.curNonTag.map (·.align lw.lexemeStart)
                curAttr := lw.curAttr.map (·.align lw.lexemeStart)
                lexemeStart := 0 } := by
  have hle := h.ls_eq
  have hc : lw.lexemeStart ≤ δ := by omega
  have hd : δ - lw.lexemeStart = d := by omega
  refine ⟨h.ls_le, by simp only; omega, h.p, h.fd, fun g => ?_, ?_, ?_, ?_, h.nc, h.ntu, h.ntp⟩
  · obtain ⟨a, b⟩ := h.t g
    simp only
    rw [alignNat_ge (by omega)]
    exact ⟨by omega, b⟩
  · rw [← hd]; exact OptRel.map_right _ (fun a b hr => hr.alignW hc) h.tag
  · rw [← hd]; exact OptRel.map_right _ (fun a b hr => hr.alignW hc) h.attr
  · rw [← hd]; exact OptRel.map_right _ (fun a b hr => hr.alignW hc) h.nt

end
end LolHtml.Model.Chunk
