/-
Helper lemmas for C07 (token level): the push-front / push-back bookkeeping of `Mutations` against
the declarative `Spec.Edit.edit`.
-/
import LolHtml.Spec.Edit

namespace LolHtml.Lemmas.Edit
open LolHtml LolHtml.EditModel LolHtml.Spec.Edit

/-- The closed form of a `MutationsInner` after a script, starting from `mu`. -/
def innerAfter (mu : MutationsInner) (ops : List MutOp) : MutationsInner :=
  { contentBefore := mu.contentBefore ++ befores ops
    replacement := match lastReplacement ops with
      | some c => [c]
      | none => mu.replacement
    contentAfter := afters ops ++ mu.contentAfter
    removed := mu.removed || dropped ops }

theorem befores_cons (op : MutOp) (ops : List MutOp) :
    befores (op :: ops) = (match op with | .before c => [c] | _ => []) ++ befores ops := by
  cases op <;> simp [befores]

theorem afters_cons (op : MutOp) (ops : List MutOp) :
    afters (op :: ops) = afters ops ++ (match op with | .after c => [c] | _ => []) := by
  cases op <;> simp [afters]

theorem dropped_cons (op : MutOp) (ops : List MutOp) :
    dropped (op :: ops) = ((match op with | .replace _ => true | .remove => true | _ => false) || dropped ops) := by
  cases op <;> simp [dropped]

theorem getLast?_cons' {α : Type} (x : α) (l : List α) :
    (x :: l).getLast? = (match l.getLast? with | some y => some y | none => some x) := by
  cases l with
  | nil => rfl
  | cons a l =>
    rw [List.getLast?_cons_cons]
    cases h : (a :: l).getLast? with
    | none => simp at h
    | some y => rfl

theorem lastReplacement_cons (op : MutOp) (ops : List MutOp) :
    lastReplacement (op :: ops) =
      (match lastReplacement ops with
       | some c => some c
       | none => (match op with | .replace c => some c | _ => none)) := by
  unfold lastReplacement
  cases op with
  | replace c =>
    rw [List.filterMap_cons_some (by rfl), getLast?_cons']
    generalize (List.filterMap _ ops).getLast? = g
    cases g <;> rfl
  | before c =>
    rw [List.filterMap_cons_none (by rfl)]
    generalize (List.filterMap _ ops).getLast? = g
    cases g <;> rfl
  | after c =>
    rw [List.filterMap_cons_none (by rfl)]
    generalize (List.filterMap _ ops).getLast? = g
    cases g <;> rfl
  | remove =>
    rw [List.filterMap_cons_none (by rfl)]
    generalize (List.filterMap _ ops).getLast? = g
    cases g <;> rfl

/-- One API call on an allocated record. -/
theorem apply_some (mu : MutationsInner) (op : MutOp) :
    (Mutations.mk (some mu)).apply op = ⟨some (innerAfter mu [op])⟩ := by
  cases op <;>
    simp [Mutations.apply, Mutations.mutate, Mutations.set, innerAfter, befores, afters,
      lastReplacement, dropped, dsPushBack, dsPushFront, MutationsInner.replace, MutationsInner.remove]

theorem apply_none (op : MutOp) :
    (Mutations.mk none).apply op = ⟨some (innerAfter {} [op])⟩ := by
  cases op <;>
    simp [Mutations.apply, Mutations.mutate, Mutations.set, innerAfter, befores, afters,
      lastReplacement, dropped, dsPushBack, dsPushFront, MutationsInner.replace, MutationsInner.remove]

theorem innerAfter_cons (mu : MutationsInner) (op : MutOp) (ops : List MutOp) :
    innerAfter (innerAfter mu [op]) ops = innerAfter mu (op :: ops) := by
  simp only [innerAfter, befores_cons, afters_cons, dropped_cons, lastReplacement_cons]
  cases op <;> cases h : lastReplacement ops <;>
    simp [befores, afters, dropped, lastReplacement, List.append_assoc]

/-- The mutation bookkeeping (push-back for `before`, push-front for `after`, clear-and-push for
`replace`, sticky `removed`) computes the closed form. -/
theorem foldl_apply_some (mu : MutationsInner) (ops : List MutOp) :
    ops.foldl Mutations.apply ⟨some mu⟩ = ⟨some (innerAfter mu ops)⟩ := by
  induction ops generalizing mu with
  | nil => simp [innerAfter, befores, afters, lastReplacement, dropped]
  | cons op ops ih => rw [List.foldl_cons, apply_some, ih, innerAfter_cons]

theorem foldl_apply_none (ops : List MutOp) :
    ops.foldl Mutations.apply ⟨none⟩ = if ops.isEmpty then ⟨none⟩ else ⟨some (innerAfter {} ops)⟩ := by
  cases ops with
  | nil => simp
  | cons op ops => rw [List.foldl_cons, apply_none, foldl_apply_some, innerAfter_cons]; simp

theorem encodeDyn_append (enc : Enc) (a b : DynamicString) :
    encodeDyn enc (a ++ b) = encodeDyn enc a ++ encodeDyn enc b := by
  simp [encodeDyn]

theorem encodeDyn_nil (enc : Enc) : encodeDyn enc [] = [] := rfl

theorem encodeDyn_singleton (enc : Enc) (c : StringChunk) : encodeDyn enc [c] = c.encode enc := by
  simp [encodeDyn]

/-- Serialisation of the closed form from an empty record = the documented edit. -/
theorem serialize_innerAfter_empty (enc : Enc) (own : Bytes) (ops : List MutOp) :
    (Mutations.mk (some (innerAfter {} ops))).serialize enc own = edit enc own ops := by
  simp only [Mutations.serialize, innerAfter, edit, List.nil_append, List.append_nil, Bool.false_or]
  cases hd : dropped ops <;> cases hl : lastReplacement ops <;>
    simp [encodeDyn_nil, encodeDyn_singleton]

/-- **Core of C07_token_edit**: whatever sequence of `before`/`after`/`replace`/`remove` calls is
made on a fresh token, serialisation yields the documented edit. -/
theorem serialize_foldl_apply (enc : Enc) (own : Bytes) (ops : List MutOp) :
    (ops.foldl Mutations.apply ⟨none⟩).serialize enc own = edit enc own ops := by
  rw [foldl_apply_none]
  cases ops with
  | nil => simp [Mutations.serialize, edit, befores, afters, dropped, encodeDyn_nil]
  | cons op ops => simp only [List.isEmpty_cons, Bool.false_eq_true, if_false]; exact serialize_innerAfter_empty enc own _

/-- An allocated but empty record serialises like no record at all. -/
theorem serialize_foldl_apply_some_empty (enc : Enc) (own : Bytes) (ops : List MutOp) :
    (ops.foldl Mutations.apply ⟨some {}⟩).serialize enc own = edit enc own ops := by
  rw [foldl_apply_some]; exact serialize_innerAfter_empty enc own ops

end LolHtml.Lemmas.Edit

namespace LolHtml.Lemmas.Edit
open LolHtml LolHtml.EditModel LolHtml.Spec.Edit

/-! ### Per-kind decomposition: the content operations only touch `mutations`, the other
operations only touch the token's own fields. -/


theorem startTag_mutations (t : StartTag) (ops : List StartTagOp) :
    (t.applyOps ops).mutations = (startMutOps ops).foldl Mutations.apply t.mutations := by
  induction ops generalizing t with
  | nil => rfl
  | cons op ops ih =>
    simp only [StartTag.applyOps, List.foldl_cons] at ih ⊢
    rw [ih]
    cases op <;> simp [startMutOps, StartTag.apply, StartTag.setNameRaw, StartTag.setAttribute,
      StartTag.removeAttribute]
    · split <;> rfl
    · split <;> rfl

theorem endTag_mutations (t : EndTag) (ops : List EndTagOp) :
    (t.applyOps ops).mutations = (endMutOps ops).foldl Mutations.apply t.mutations := by
  induction ops generalizing t with
  | nil => rfl
  | cons op ops ih =>
    simp only [EndTag.applyOps, List.foldl_cons] at ih ⊢
    rw [ih]
    cases op <;> simp [endMutOps, EndTag.apply, EndTag.setNameRaw]

theorem comment_mutations (t : Comment) (ops : List CommentOp) :
    (t.applyOps ops).mutations = (commentMutOps ops).foldl Mutations.apply t.mutations := by
  induction ops generalizing t with
  | nil => rfl
  | cons op ops ih =>
    simp only [Comment.applyOps, List.foldl_cons] at ih ⊢
    rw [ih]
    cases op <;> simp [commentMutOps, Comment.apply, Comment.setText]
    split <;> rfl

theorem text_mutations (t : TextChunk) (ops : List TextOp) :
    (t.applyOps ops).mutations = (textMutOps ops).foldl Mutations.apply t.mutations := by
  induction ops generalizing t with
  | nil => rfl
  | cons op ops ih =>
    simp only [TextChunk.applyOps, List.foldl_cons] at ih ⊢
    rw [ih]
    cases op <;> simp [textMutOps, TextChunk.apply]

/-- Own bytes of an end tag after a script (any starting state). -/
theorem endTag_serializeSelf (t : EndTag) (ops : List EndTagOp) :
    (t.applyOps ops).serializeSelf =
      (match (ops.filterMap fun | .setName n => some n | _ => none).getLast? with
       | some n => [60, 47] ++ n ++ [62]
       | none => t.serializeSelf) := by
  induction ops generalizing t with
  | nil => rfl
  | cons op ops ih =>
    simp only [EndTag.applyOps, List.foldl_cons] at ih ⊢
    rw [ih]
    cases op with
    | «mut» o =>
      rw [List.filterMap_cons_none (by rfl)]
      simp [EndTag.apply, EndTag.serializeSelf]
    | setName n =>
      rw [List.filterMap_cons_some (by rfl), getLast?_cons']
      generalize (List.filterMap _ ops).getLast? = g
      cases g <;> simp [EndTag.apply, EndTag.setNameRaw, EndTag.serializeSelf]

/-- Own bytes of a comment after a script. -/
theorem comment_serializeSelf (t : Comment) (ops : List CommentOp) :
    (t.applyOps ops).serializeSelf =
      (match (ops.filterMap fun
          | .setText x => if containsCommentClosingSequence x then none else some x
          | _ => none).getLast? with
       | some x => [60, 33, 45, 45] ++ x ++ [45, 45, 62]
       | none => t.serializeSelf) := by
  induction ops generalizing t with
  | nil => rfl
  | cons op ops ih =>
    simp only [Comment.applyOps, List.foldl_cons] at ih ⊢
    rw [ih]
    cases op with
    | «mut» o =>
      rw [List.filterMap_cons_none (by rfl)]
      simp [Comment.apply, Comment.serializeSelf]
    | setText x =>
      by_cases hx : containsCommentClosingSequence x = true
      · rw [List.filterMap_cons_none (by simp [hx])]
        simp [Comment.apply, Comment.setText, hx]
      · rw [List.filterMap_cons_some (b := x) (by simp [hx]), getLast?_cons']
        generalize (List.filterMap _ ops).getLast? = g
        cases g <;> simp [Comment.apply, Comment.setText, hx, Comment.serializeSelf]

theorem lastOr_cons {α : Type} (d x : α) (l : List α) : lastOr d (x :: l) = lastOr x l := by
  simp only [lastOr, getLast?_cons']
  cases l.getLast? <;> rfl

theorem text_text (t : TextChunk) (ops : List TextOp) :
    (t.applyOps ops).text = lastOr t.text (ops.filterMap fun | .setStr x => some x | _ => none) := by
  induction ops generalizing t with
  | nil => rfl
  | cons op ops ih =>
    simp only [TextChunk.applyOps, List.foldl_cons] at ih ⊢
    rw [ih]
    cases op with
    | «mut» o => rw [List.filterMap_cons_none (by rfl)]; rfl
    | setStr x => rw [List.filterMap_cons_some (by rfl), lastOr_cons]; rfl

/-- Own bytes of a text chunk after a script. -/
theorem text_serializeSelf (enc : Enc) (t : TextChunk) (ops : List TextOp) :
    (t.applyOps ops).serializeSelf enc = textOwn enc t.text ops := by
  simp only [TextChunk.serializeSelf, textOwn, text_text]
  generalize lastOr t.text _ = y
  cases y <;> simp

end LolHtml.Lemmas.Edit
