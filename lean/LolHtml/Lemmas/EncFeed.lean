/-
Lemmas about `feed_text` / `flush_pending` / whole text nodes (`Model.TextDecoder`).
-/
import LolHtml.Lemmas.EncDecoder

namespace LolHtml.Enc

/-! ### ASCII prefixes and the fast path -/

theorem asciiValidUpTo_le (raw : Bytes) : asciiValidUpTo raw ≤ raw.length := by
  induction raw with
  | nil => simp [asciiValidUpTo]
  | cons b bs ih => simp only [asciiValidUpTo]; split <;> simp <;> omega

theorem take_asciiValidUpTo_ascii (raw : Bytes) :
    ∀ b ∈ raw.take (asciiValidUpTo raw), b < 128 := by
  induction raw with
  | nil => simp
  | cons x xs ih =>
    simp only [asciiValidUpTo]
    split
    · rename_i hx
      rw [Nat.add_comm, List.take_succ_cons]
      intro b hb
      rcases List.mem_cons.mp hb with h | h
      · subst h; exact hx
      · exact ih b h
    · simp

def asciiChars (p : Bytes) : List Char := p.map (fun b => Char.ofNat b.toNat)

theorem scan_ascii (p : Bytes) (h : ∀ b ∈ p, b < 128) :
    Utf8.scan p = ⟨asciiChars p, p.length, .done⟩ := by
  induction p with
  | nil => simp [Utf8.scan, Utf8.Scan.stop, asciiChars]
  | cons x xs ih =>
    have hx : x < 128 := h x (by simp)
    have hx' : x < 0x80 := hx
    rw [Utf8.scan.eq_def]
    simp only [hx', if_true]
    rw [ih (fun b hb => h b (by simp [hb]))]
    simp [Utf8.Scan.cons, asciiChars, Nat.add_comm]

theorem run_ascii {c : Codec} (L : c.Lawful) (p : Bytes) (h : ∀ b ∈ p, b < 128) :
    c.run c.init p = (c.init, asciiChars p) := by
  induction p with
  | nil => simp [Codec.run_nil, asciiChars]
  | cons x xs ih =>
    have hx : x < 128 := h x (by simp)
    rw [Codec.run_cons]
    simp only [Codec.step2, L.ascii x hx, if_true]
    rw [ih (fun b hb => h b (by simp [hb]))]
    simp [asciiChars]

/-- The text the fast path hands to the handler is what the decoder would have produced, and the
decoder would be back in the neutral state. -/
theorem splitUtf8Start_sound {e : Encoding} (EL : e.Lawful) (cap : Nat) (pending : Bool)
    (raw : Bytes) (text : List Char) (n : Nat) (rest : Bytes)
    (h : splitUtf8Start e.utf8 cap pending raw = some (text, n, rest)) :
    pending = false ∧ n ≤ raw.length ∧ rest = raw.drop n ∧
      e.codec.run e.codec.init (raw.take n) = (e.codec.init, text) := by
  unfold splitUtf8Start at h
  cases pending with
  | true => simp at h
  | false =>
    simp only [Bool.false_eq_true, if_false] at h
    refine ⟨rfl, ?_⟩
    split at h
    · rename_i hd
      simp only [Bool.and_eq_true, decide_eq_true_eq] at hd
      simp only [Option.some.injEq, Prod.mk.injEq] at h
      obtain ⟨rfl, rfl, rfl⟩ := h
      refine ⟨Nat.le_refl _, by simp, ?_⟩
      rw [List.take_length]
      apply EL.utf8_valid hd.1
      simp [Utf8.decodeValid, hd.2]
    · generalize hv : (if e.utf8 = true then (Utf8.scan raw).validUpTo else asciiValidUpTo raw) = v at h
      by_cases h1 : (v != raw.length && decide (v < cap)) = true
      · simp [h1] at h
      · simp only [h1, Bool.false_eq_true, if_false] at h
        by_cases h2 : v > raw.length
        · simp [h2] at h
        · simp only [h2, if_false] at h
          cases htx : Utf8.decodeValid (raw.take v) with
          | none => simp [htx] at h
          | some tx =>
            simp only [htx, Option.some.injEq, Prod.mk.injEq] at h
            obtain ⟨rfl, rfl, rfl⟩ := h
            refine ⟨by omega, rfl, ?_⟩
            cases hu : e.utf8 with
            | true =>
              exact EL.utf8_valid hu _ _ htx
            | false =>
              simp only [hu, Bool.false_eq_true, if_false] at hv
              subst hv
              have ha := take_asciiValidUpTo_ascii raw
              rw [Utf8.decodeValid, scan_ascii _ ha] at htx
              simp only [if_true, Option.some.injEq] at htx
              rw [← htx]
              exact run_ascii EL.codec _ ha

/-! ### `feed_text` -/

/-- first byte not yet reported in any chunk when `feed_text(start, ..)` is entered
(`unreported_bytes_start`, text_decoder.rs:66-72) -/
def TD.unrep {c : Codec} (td : TD c) (start : Nat) : Nat :=
  if td.pending.isSome then td.pendingStart else start

/-- What one `feed_text` call guarantees. -/
structure FeedOk (e : Encoding) (td : TD e.codec) (start : Nat) (raw : Bytes) (last : Bool)
    (more : Bytes) (td' : TD e.codec) (cs : List Chunk) : Prop where
  text : e.codec.tail td.cur (raw ++ more)
          = chunksText cs ++ (if last = true then [] else e.codec.tail td'.cur more)
  /-- the chunks tile the bytes from the first unreported one up to the end of the input (`last`) or
  up to the bytes the decoder still holds back -/
  ranges : rangesContiguous (td.unrep start) cs
            (if last = true then start + raw.length else td'.pendingStart)
  flags : if last = true then oneLastAtEnd cs (start + raw.length) ∧ td'.pending = none
          else noneLast cs ∧ td'.pending.isSome = true ∧ td'.pendingStart ≤ td'.pendingEnd ∧
            td'.pendingEnd = start + raw.length

section
variable {e : Encoding} (pol : Policy e.codec)

theorem feedSlow_ok (EL : e.Lawful) (cap : Nat) (hcap : 4 ≤ cap) (td : TD e.codec) (last : Bool)
    (more : Bytes) (hm : last = true → more = []) (pre : List Chunk) (pos unrep : Nat)
    (hup : unrep ≤ pos) (rest : Bytes) :
    ∃ td' cs, feedSlow e pol cap td last pre pos unrep rest = some (td', pre ++ cs) ∧
      e.codec.tail td.cur (rest ++ more)
          = chunksText cs ++ (if last = true then [] else e.codec.tail td'.cur more) ∧
      rangesContiguous unrep cs (if last = true then pos + rest.length else td'.pendingStart) ∧
      (if last = true then oneLastAtEnd cs (pos + rest.length) ∧ td'.pending = none
       else noneLast cs ∧ td'.pending.isSome = true ∧ td'.pendingStart ≤ td'.pendingEnd ∧
         td'.pendingEnd = pos + rest.length) := by
  unfold feedSlow
  have htot := feedLoop_total pol EL.codec cap hcap last (feedFuel rest) td.cur rest pos unrep
    (by have := mu_le e.codec td.cur rest; simp only [feedFuel]; omega)
  cases hl : feedLoop e.codec pol cap last (feedFuel rest) td.cur rest pos unrep with
  | none => rw [hl] at htot; simp at htot
  | some v =>
    obtain ⟨s', next, u, cs⟩ := v
    obtain ⟨i1, i2, i3, i4, i5⟩ := feedLoop_sound pol EL.codec cap last more hm _ _ _ _ _ _ _ _ _ hup hl
    refine ⟨_, cs, rfl, ?_, ?_, ?_⟩
    · rw [i1]
      cases last <;> simp [TD.cur]
    · cases last with
      | true => simp only [if_true] at i5 ⊢; rw [← i2, ← i5.2]; exact i3
      | false => simp only [Bool.false_eq_true, if_false]; exact i3
    · cases last with
      | true => simp only [if_true] at i5 ⊢; rw [← i2]; exact ⟨i5.1, trivial⟩
      | false => simp only [Bool.false_eq_true, if_false] at i5 ⊢; exact ⟨i5, rfl, i4, i2⟩

/-- `feed_text` never runs out of fuel and satisfies `FeedOk` — with or without the fast path —
provided the bytes not yet reported start no later than this call's span. -/
theorem feedTextWith_ok (EL : e.Lawful) (cap : Nat) (hcap : 4 ≤ cap) (fast : Bool)
    (td : TD e.codec) (start : Nat) (raw : Bytes) (last : Bool) (more : Bytes)
    (hm : last = true → more = []) (hup : td.unrep start ≤ start) :
    ∃ td' cs, feedTextWith fast e pol cap td start raw last = some (td', cs) ∧
      FeedOk e td start raw last more td' cs := by
  unfold feedTextWith
  cases hsp : (if fast = true then splitUtf8Start e.utf8 cap td.pending.isSome raw else none) with
  | none =>
    obtain ⟨td', cs, h1, h2, h3, h4⟩ :=
      feedSlow_ok pol EL cap hcap td last more hm [] start (td.unrep start) hup raw
    exact ⟨td', cs, by simpa [TD.unrep] using h1, ⟨h2, h3, h4⟩⟩
  | some v =>
    obtain ⟨text, n, rest⟩ := v
    have hsp' : splitUtf8Start e.utf8 cap td.pending.isSome raw = some (text, n, rest) := by
      cases fast <;> simp_all
    obtain ⟨hpend, hn, hrest, hrun⟩ := splitUtf8Start_sound EL cap _ raw text n rest hsp'
    have hpn : td.pending = none := by
      cases hp : td.pending with
      | none => rfl
      | some s => simp [hp] at hpend
    have hcur : td.cur = e.codec.init := by simp [TD.cur, hpn]
    have hun : td.unrep start = start := by simp [TD.unrep, hpn]
    have hraw : raw = raw.take n ++ rest := by rw [hrest, List.take_append_drop]
    have hlen : raw.length = n + rest.length := by
      rw [hrest, List.length_drop]; omega
    have htail : e.codec.tail td.cur (raw ++ more) = text ++ e.codec.tail e.codec.init (rest ++ more) := by
      rw [hcur]
      conv => lhs; rw [hraw, List.append_assoc]
      rw [Codec.tail_append, hrun]
    simp only []
    by_cases hrl : (last && rest.isEmpty) = true
    · -- the fast-path chunk is the whole call
      simp only [hrl, if_true]
      simp only [Bool.and_eq_true, List.isEmpty_iff] at hrl
      obtain ⟨hl, hre⟩ := hrl
      subst hl
      have : more = [] := hm rfl
      subst this hre
      simp only [List.length_nil, Nat.add_zero] at hlen
      refine ⟨td, _, rfl, ⟨?_, ?_, ?_⟩⟩
      · rw [htail]; simp [chunksText, Codec.tail_nil, EL.codec.flush_init]
      · simp only [if_true, hun, rangesContiguous, hlen]
        exact ⟨trivial, Nat.le_add_right _ _, trivial⟩
      · simp only [if_true]
        exact ⟨⟨[], _, rfl, rfl, by simp [hlen], by intro x hx; cases hx⟩, hpn⟩
    · simp only [hrl, Bool.false_eq_true, if_false]
      obtain ⟨td', cs, h1, h2, h3, h4⟩ :=
        feedSlow_ok pol EL cap hcap td last more hm
          [⟨text, false, start, start + n⟩] (start + n) (start + n) (Nat.le_refl _) rest
      refine ⟨td', _, h1, ⟨?_, ?_, ?_⟩⟩
      · rw [htail, ← hcur, h2]; simp [chunksText]
      · rw [hun, hlen, ← Nat.add_assoc]
        simp only [List.singleton_append, rangesContiguous]
        exact ⟨trivial, Nat.le_add_right _ _, h3⟩
      · have hn1 : noneLast [(⟨text, false, start, start + n⟩ : Chunk)] := by
          intro x hx; simp at hx; subst hx; rfl
        rw [hlen, ← Nat.add_assoc]
        cases last with
        | true => simp only [if_true] at h4 ⊢; exact ⟨oneLastAtEnd_prepend hn1 h4.1, h4.2⟩
        | false =>
          simp only [Bool.false_eq_true, if_false] at h4 ⊢
          exact ⟨noneLast_append hn1 h4.1, h4.2⟩

end

/-! ### a whole text node -/

section
variable {e : Encoding} (pol : Policy e.codec)

/-- Consecutive non-final feeds (each span starts where the previous one ended). -/
theorem feedsWith_ok (EL : e.Lawful) (cap : Nat) (hcap : 4 ≤ cap) (fast : Bool) (more : Bytes) :
    ∀ (parts : List Bytes) (td : TD e.codec) (start : Nat), td.unrep start ≤ start →
    ∃ td' cs, feedsWith fast e pol cap td start parts = some (td', cs) ∧
      e.codec.tail td.cur (parts.flatten ++ more) = chunksText cs ++ e.codec.tail td'.cur more ∧
      rangesContiguous (td.unrep start) cs (td'.unrep (start + parts.flatten.length)) ∧
      td'.unrep (start + parts.flatten.length) ≤ start + parts.flatten.length ∧
      noneLast cs ∧
      (parts ≠ [] → td'.pending.isSome = true ∧ td'.pendingEnd = start + parts.flatten.length) := by
  intro parts
  induction parts with
  | nil =>
    intro td start hup
    exact ⟨td, [], rfl, by simp [chunksText], by simp [rangesContiguous], by simpa using hup,
      noneLast_nil, by simp⟩
  | cons p ps ih =>
    intro td start hup
    obtain ⟨td1, cs1, h1, ok1⟩ := feedTextWith_ok pol EL cap hcap fast td start p false
      (ps.flatten ++ more) (by simp) hup
    have f1 := ok1.flags
    have r1 := ok1.ranges
    simp only [Bool.false_eq_true, if_false] at f1 r1
    obtain ⟨fn, fp, fle, fend⟩ := f1
    have hun1 : td1.unrep (start + p.length) = td1.pendingStart := by simp [TD.unrep, fp]
    obtain ⟨td2, cs2, h2, t2, r2, le2, n2, p2⟩ := ih td1 (start + p.length) (by rw [hun1, ← fend]; exact fle)
    have hlen : start + (p :: ps).flatten.length = start + p.length + ps.flatten.length := by
      simp [Nat.add_assoc]
    refine ⟨td2, cs1 ++ cs2, ?_, ?_, ?_, ?_, noneLast_append fn n2, ?_⟩
    · simp only [feedsWith, h1, h2]
    · have := ok1.text
      simp only [Bool.false_eq_true, if_false] at this
      rw [List.flatten_cons, List.append_assoc, this, t2, chunksText_append, List.append_assoc]
    · rw [hlen]
      apply rangesContiguous_append r1
      rw [← hun1]; exact r2
    · rw [hlen]; exact le2
    · intro _
      rw [hlen]
      cases ps with
      | nil =>
        simp only [feedsWith, Option.some.injEq, Prod.mk.injEq] at h2
        obtain ⟨rfl, rfl⟩ := h2
        simpa using ⟨fp, fend⟩
      | cons q qs => exact p2 (by simp)

/-- A whole text node (at least one `feed_text` call, then `flush_pending`). -/
theorem textNodeWith_ok (EL : e.Lawful) (cap : Nat) (hcap : 4 ≤ cap) (fast : Bool) (start : Nat)
    (parts : List Bytes) (hne : parts ≠ []) :
    ∃ cs, textNodeWith fast e pol cap start parts = some cs ∧
      chunksText cs = e.codec.decodeAll parts.flatten ∧
      oneLastAtEnd cs (start + parts.flatten.length) ∧
      rangesContiguous start cs (start + parts.flatten.length) := by
  obtain ⟨td, cs, h1, t1, r1, le1, n1, p1⟩ :=
    feedsWith_ok pol EL cap hcap fast [] parts (TD.new e.codec) start (by simp [TD.unrep, TD.new])
  obtain ⟨hp, hpe⟩ := p1 hne
  have hun : td.unrep (start + parts.flatten.length) = td.pendingStart := by simp [TD.unrep, hp]
  have hun' : td.unrep td.pendingEnd = td.pendingStart := by simp [TD.unrep, hp]
  obtain ⟨td', cs', h2, ok2⟩ :=
    feedTextWith_ok pol EL cap hcap fast td td.pendingEnd [] true [] (by simp)
      (by rw [hun', hpe, ← hun]; exact le1)
  have f2 := ok2.flags
  have t2 := ok2.text
  have r2 := ok2.ranges
  simp only [if_true, List.length_nil, Nat.add_zero, List.append_nil] at f2 t2 r2
  refine ⟨cs ++ cs', ?_, ?_, ?_, ?_⟩
  · simp only [textNodeWith, h1, flushPendingWith, hp, if_true, h2]
  · rw [Codec.decodeAll_eq, chunksText_append, ← t2]
    simpa [TD.cur, TD.new] using t1.symm
  · rw [← hpe]; exact oneLastAtEnd_prepend n1 f2.1
  · have r1' : rangesContiguous start cs td.pendingStart := by
      have := r1; rw [hun] at this; simpa [TD.unrep, TD.new] using this
    apply rangesContiguous_append r1'
    rw [← hpe, ← hun']; exact r2

end

end LolHtml.Enc
