import LolHtml.Spec.TreeBuilder
/-!
Frame facts of `Spec.TreeBuilder`: stack / list operations (`State.onTree`) leave the control part of the
parser state alone; projections of results.
-/
namespace LolHtml.Spec.TreeBuilder

@[simp] theorem onTree_mode (s : State) (f : Tree → Tree) : (s.onTree f).mode = s.mode := rfl
@[simp] theorem onTree_origMode (s : State) (f : Tree → Tree) : (s.onTree f).origMode = s.origMode := rfl
@[simp] theorem onTree_tmodes (s : State) (f : Tree → Tree) : (s.onTree f).tmodes = s.tmodes := rfl
@[simp] theorem onTree_headPtr (s : State) (f : Tree → Tree) : (s.onTree f).headPtr = s.headPtr := rfl
@[simp] theorem onTree_formPtr (s : State) (f : Tree → Tree) : (s.onTree f).formPtr = s.formPtr := rfl
@[simp] theorem onTree_framesetOk (s : State) (f : Tree → Tree) : (s.onTree f).framesetOk = s.framesetOk := rfl
@[simp] theorem onTree_quirks (s : State) (f : Tree → Tree) : (s.onTree f).quirks = s.quirks := rfl
@[simp] theorem onTree_pending (s : State) (f : Tree → Tree) : (s.onTree f).pending = s.pending := rfl
@[simp] theorem onTree_tree (s : State) (f : Tree → Tree) : (s.onTree f).tree = f s.tree := rfl

/-- the switch of a finished result (`none` otherwise) -/
def Res.getSw : Res → Switch
  | .done _ sw => sw
  | _ => .none

def Res.isDone : Res → Bool
  | .done .. => true
  | _ => false

@[simp] theorem getSw_done (s : State) (sw : Switch) : (Res.done s sw).getSw = sw := rfl
@[simp] theorem getSw_ok (s : State) : (Res.ok s).getSw = .none := rfl
@[simp] theorem getSw_ignore (s : State) : (Res.ignore s).getSw = .none := rfl
@[simp] theorem getSw_again (s : State) : (Res.again s).getSw = .none := rfl
@[simp] theorem isDone_done (s : State) (sw : Switch) : (Res.done s sw).isDone = true := rfl
@[simp] theorem isDone_ok (s : State) : (Res.ok s).isDone = true := rfl
@[simp] theorem isDone_ignore (s : State) : (Res.ignore s).isDone = true := rfl
@[simp] theorem isDone_again (s : State) : (Res.again s).isDone = false := rfl
@[simp] theorem getSw_rawText (s : State) (n : Name) (a : Attrs) (sw : Switch) : (rawText s n a sw).getSw = sw := rfl
@[simp] theorem isDone_rawText (s : State) (n : Name) (a : Attrs) (sw : Switch) : (rawText s n a sw).isDone = true := rfl
@[simp] theorem getSw_mapState (f : State → State) (r : Res) : (r.mapState f).getSw = r.getSw := by cases r <;> rfl
@[simp] theorem isDone_mapState (f : State → State) (r : Res) : (r.mapState f).isDone = r.isDone := by cases r <;> rfl

/-- the tokenizer switch the standard attaches to a start tag (when it is honoured) -/
def switchOf (c : Cfg) (n : Name) : Switch :=
  if n == .title || n == .textarea then .rcdata
  else if n.isIn [.style, .xmp, .iframe, .noembed, .noframes] || (n == .noscript && c.scripting) then .rawtext
  else if n == .script then .scriptData
  else if n == .plaintext then .plaintext
  else .none

end LolHtml.Spec.TreeBuilder
