import LolHtml.Lemmas.RelexMode
import LolHtml.Lemmas.RelexLex
/-!
The global invariant behind `C15_no_panic_full`, through `Parser.parseLoop`:

* scanner mode: all scanner invariants (`ScanAll`), consistent sink flags, nothing pending;
* lexer mode: the lexer is normal or inside the re-lexed tag (`LexX`), the scanner's registers at rest;
* (inside one `parse` only) the lexer has just been loaded from the scanner's bookmark (`HeadStart`).

No run of the parsing loop reports an error at a `U2` site.
-/
set_option linter.unusedSimpArgs false
set_option linter.unusedVariables false

namespace LolHtml.Model
open LolHtml.Lemmas.Sim (Inv)

variable {κ : Type}

section
variable {env : Env κ} {inp : Bytes} {Pend : κ → Bool} {Good : κ → Prop}
variable {L : Labels} {TT : TLabels} {P : PLabels} {S : SLabels}

/-- scanner registers at rest -/
def ScanIdle (s : ScanRegs) : Prop := s.tagStart = none ∧ s.chSeqStart = none ∧ s.isInEndTag = false

/-- the lexer has just been loaded from the scanner's bookmark -/
structure HeadStart (env : Env κ) (L : Labels) (S : SLabels) (Pend : κ → Bool) (Good : κ → Prop) (inp : Bytes)
    (p : Parser κ) : Prop where
  ex : ∃ bm, HeadDone env L S Pend inp (⟨p.scanC, .scanner p.scanR, p.x⟩ : M κ) bm ∧
    p.lexC.state = env.tbl.textState bm.textType ∧ p.lexC.nextPos = bm.pos ∧ p.lexR.lexemeStart = bm.pos ∧
    p.lexC.lastStartTagNameHash = bm.lastStartTagNameHash ∧ p.lexR.fd = bm.fd
  good : Good p.x.sink
  inv : Inv p.x.sim

theorem tagKey_isStart {tok : TagOutline} {K : Bool × Nat} (h : tagKey tok = K) : tok.isStart = K.1 := by
  subst h; cases tok <;> rfl

/-- **the re-lexing run**: loaded from the bookmark, the lexer walks the head silently, finishes the
name of a tag of the hinted kind and continues in the "inside the re-lexed tag" mode -/
theorem headStart_run (hx : XLaws env.ops inp Pend Good) (hside : RelexSide env.tbl L TT P S) (p : Parser κ)
    (last : Bool) (hd : p.directive = .lex) (h : HeadStart env L S Pend Good inp p) :
    LoopPost P (LexX Pend Good) (LexJ Pend Good) (runLoop env inp (defaultFuel inp) (p.machine last)) := by
  obtain ⟨⟨bm, hdone, h1, h2, h3, h4, h5⟩, hgood, hinv⟩ := h
  have hm : p.machine last = ⟨{ p.lexC with isLast := last }, .lexer p.lexR, p.x⟩ := by
    simp [Parser.machine, hd]
  rw [hm]
  obtain ⟨G, hG, hhead0, hL0, hpendK, hrl⟩ := relex_start hdone { p.lexC with isLast := last } p.lexR h1 h2 h3 h4
  obtain ⟨c', l', hsil, hheadH, e1, e2, e3⟩ :=
    relex_head_run (inp := inp) hside.head hside.relex hG p.x G.H.length _ _ [] hhead0 (by simp)
  have hlen : G.H.length + 1 ≤ inp.length := by
    have := hhead0.pre.length_le
    simp only [List.length_append, List.length_cons, List.length_nil, List.length_drop] at this
    omega
  obtain ⟨f, hf⟩ : ∃ f, defaultFuel inp = G.H.length + (f + 1) := ⟨defaultFuel inp - G.H.length - 1, by unfold defaultFuel; omega⟩
  rw [hf, runLoop_silent hsil (f + 1)]
  apply runLoop_after (lex_phinv hx) hside.phase f
  rcases relex_step_fin (x := p.x) hside.relex hG hheadH with ⟨herr, _⟩ | ⟨l1, q, A', hsel, hqmem, hfc, hst, htag, hfd1, hls1, heq⟩
  · unfold WalkPost
    rw [herr]
    simp [U2err, U2]
  · rw [heq]
    -- the table facts about the finishing arm
    have hsd : ∃ sd, env.tbl.state? G.sfin = some sd ∧ A' ∈ sd.arms := by
      unfold selArm at hsel
      split at hsel
      · rename_i sd hsd
        exact ⟨sd, hsd, (findArm_sel hsel).1⟩
      · cases hsel
    obtain ⟨sd, hsd, hA'⟩ := hsd
    have hP := PhaseOk_state hside.phase hsd
    simp only [stateOkP, Bool.and_eq_true, beq_iff_eq, List.all_eq_true] at hP
    have hseq := bodyOkP_seq (hP.2 A' hA') hqmem
    simp only [seqOkP, Bool.and_eq_true] at hseq
    obtain ⟨hq, hseq⟩ := hseq
    obtain ⟨rest, hcalls⟩ : ∃ rest, q.calls = ⟨.finishTagName, true⟩ :: rest := by
      rcases finishCalls_cases hfc with h' | h' <;> exact ⟨_, h'⟩
    have hqt : callsOk q.calls.tail = true := by
      rw [hcalls] at hq ⊢
      simp only [callsOk, List.all_cons, Bool.and_eq_true, List.tail_cons] at hq ⊢
      exact hq.2
    have hph : ∃ ab', phCalls q.calls.tail .inTag = some ab' ∧ transOk env.tbl P G.sfin ab' q.trans = true := by
      rw [hcalls] at hseq ⊢
      simp only [phCalls, List.tail_cons] at hseq ⊢
      cases hl : P.at G.sfin <;> simp only [hl, phAct] at hseq
      · simp at hseq
      · cases hr : phCalls rest .inTag with
        | none => simp [hr] at hseq
        | some ab' => simp only [hr] at hseq; exact ⟨ab', rfl, hseq⟩
      · cases hr : phCalls rest .inTag with
        | none => simp [hr] at hseq
        | some ab' => simp only [hr] at hseq; exact ⟨ab', rfl, hseq⟩
      · simp at hseq
    obtain ⟨ab', hph1, hph2⟩ := hph
    obtain ⟨tok, htok, hkey, _⟩ := htag.tag
    have hstart : tok.isStart = headKind G.H := tagKey_isStart hkey
    refine (runSeq_walk' (lex_phinv hx) ⟨q.calls.tail, q.trans⟩ G.sfin .inTag ab' hqt hph1 hph2 _ ?_ hst).1
    refine ⟨_, l1, p.x, rfl, hgood, hinv, Or.inr ⟨rfl, tok, htok, ?_, ?_⟩⟩
    · intro hp
      rw [hstart]
      exact hpendK hp
    · intro k hk
      rw [hfd1, e2, h5] at hk
      obtain ⟨sim0, hs0⟩ := hrl k hk
      rw [hstart]
      exact feedbackOf_ready hinv hs0

end
end LolHtml.Model
