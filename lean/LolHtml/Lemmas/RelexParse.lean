import LolHtml.Lemmas.RelexMode
import LolHtml.Lemmas.RelexLex
/-!
The global invariant behind `C15_no_panic_full`, through `Parser.parseLoop`:

* scanner mode: all scanner invariants (`ScanAll`), consistent sink flags, nothing pending;
* lexer mode: the lexer is normal or inside the re-lexed tag (`LexX`), the scanner's registers at rest;
* (inside one `parse` only) the lexer has just been loaded from the scanner's bookmark (`HeadStart`).

No run of the parsing loop reports an error at a `U2` site.
-/
set_option linter.unusedSimpArgs false
set_option linter.unusedVariables false

namespace LolHtml.Model
open LolHtml.Lemmas.Sim (Inv)

variable {κ : Type}

section
variable {env : Env κ} {inp : Bytes} {Pend : κ → Bool} {Good : κ → Prop} {K : Bool} {Uerr : Err → Prop}
variable {L : Labels} {TT : TLabels} {P : PLabels} {S : SLabels}

/-- scanner registers at rest -/
def ScanIdle (s : ScanRegs) : Prop := s.tagStart = none ∧ s.chSeqStart = none ∧ s.isInEndTag = false

/-- the lexer has just been loaded from the scanner's bookmark -/
structure HeadStart (env : Env κ) (L : Labels) (S : SLabels) (Pend : κ → Bool) (Good : κ → Prop) (K : Bool) (inp : Bytes)
    (p : Parser κ) : Prop where
  ex : ∃ bm, HeadDone env L S Pend K inp (⟨p.scanC, .scanner p.scanR, p.x⟩ : M κ) bm ∧
    p.lexC.state = env.tbl.textState bm.textType ∧ p.lexC.nextPos = bm.pos ∧ p.lexR.lexemeStart = bm.pos ∧
    p.lexC.lastStartTagNameHash = bm.lastStartTagNameHash ∧ p.lexR.fd = bm.fd
  good : Good p.x.sink
  inv : Inv p.x.sim

theorem tagKey_isStart {tok : TagOutline} {K : Bool × Nat} (h : tagKey tok = K) : tok.isStart = K.1 := by
  subst h; cases tok <;> rfl

/-- **the re-lexing run**: loaded from the bookmark, the lexer walks the head silently, finishes the
name of a tag of the hinted kind and continues in the "inside the re-lexed tag" mode -/
theorem headStart_run (hx : XLaws env.ops inp Pend Good K Uerr) (hside : RelexSide env.tbl L TT P S) (p : Parser κ)
    (last : Bool) (hd : p.directive = .lex) (h : HeadStart env L S Pend Good K inp p) :
    LoopPost Uerr P (LexX Pend Good K) (LexJ Pend Good) (runLoop env inp (defaultFuel inp) (p.machine last)) := by
  obtain ⟨⟨bm, hdone, h1, h2, h3, h4, h5⟩, hgood, hinv⟩ := h
  have hm : p.machine last = ⟨{ p.lexC with isLast := last }, .lexer p.lexR, p.x⟩ := by
    simp [Parser.machine, hd]
  rw [hm]
  obtain ⟨G, hG, hhead0, hL0, hpendK, hrl⟩ := relex_start hdone { p.lexC with isLast := last } p.lexR h1 h2 h3 h4
  obtain ⟨c', l', hsil, hheadH, e1, e2, e3⟩ :=
    relex_head_run (inp := inp) hside.head hside.relex hG p.x G.H.length _ _ [] hhead0 (by simp)
  have hlen : G.H.length + 1 ≤ inp.length := by
    have := hhead0.pre.length_le
    simp only [List.length_append, List.length_cons, List.length_nil, List.length_drop] at this
    omega
  obtain ⟨f, hf⟩ : ∃ f, defaultFuel inp = G.H.length + (f + 1) := ⟨defaultFuel inp - G.H.length - 1, by unfold defaultFuel; omega⟩
  rw [hf, runLoop_silent hsil (f + 1)]
  apply runLoop_after (lex_phinv hx) hside.phase f
  rcases relex_step_fin (x := p.x) hside.relex hG hheadH with ⟨herr, _⟩ | ⟨l1, q, A', hsel, hqmem, hfc, hst, htag, hfd1, hls1, heq⟩
  · unfold WalkPost
    rw [herr]
    exact hx.noU (by simp [U3err, U2err, U2, guardSite])
  · rw [heq]
    -- the table facts about the finishing arm
    have hsd : ∃ sd, env.tbl.state? G.sfin = some sd ∧ A' ∈ sd.arms := by
      unfold selArm at hsel
      split at hsel
      · rename_i sd hsd
        exact ⟨sd, hsd, (findArm_sel hsel).1⟩
      · cases hsel
    obtain ⟨sd, hsd, hA'⟩ := hsd
    have hP := PhaseOk_state hside.phase hsd
    simp only [stateOkP, Bool.and_eq_true, beq_iff_eq, List.all_eq_true] at hP
    have hseq := bodyOkP_seq (hP.2 A' hA') hqmem
    simp only [seqOkP, Bool.and_eq_true] at hseq
    obtain ⟨hq, hseq⟩ := hseq
    obtain ⟨rest, hcalls⟩ : ∃ rest, q.calls = ⟨.finishTagName, true⟩ :: rest := by
      rcases finishCalls_cases hfc with h' | h' <;> exact ⟨_, h'⟩
    have hqt : callsOk q.calls.tail = true := by
      rw [hcalls] at hq ⊢
      simp only [callsOk, List.all_cons, Bool.and_eq_true, List.tail_cons] at hq ⊢
      exact hq.2
    have hph : ∃ ab', phCalls q.calls.tail .inTag = some ab' ∧ transOk env.tbl P G.sfin ab' q.trans = true := by
      rw [hcalls] at hseq ⊢
      simp only [phCalls, List.tail_cons] at hseq ⊢
      cases hl : P.at G.sfin <;> simp only [hl, phAct] at hseq
      · simp at hseq
      · cases hr : phCalls rest .inTag with
        | none => simp [hr] at hseq
        | some ab' => simp only [hr] at hseq; exact ⟨ab', rfl, hseq⟩
      · cases hr : phCalls rest .inTag with
        | none => simp [hr] at hseq
        | some ab' => simp only [hr] at hseq; exact ⟨ab', rfl, hseq⟩
      · simp at hseq
    obtain ⟨ab', hph1, hph2⟩ := hph
    obtain ⟨tok, htok, hkey, _⟩ := htag.tag
    have hstart : tok.isStart = headKind G.H := tagKey_isStart hkey
    refine (runSeq_walk' (lex_phinv hx) ⟨q.calls.tail, q.trans⟩ G.sfin .inTag ab' hqt hph1 hph2 _ ?_ hst).1
    refine ⟨_, l1, p.x, rfl, hgood, hinv, Or.inr ⟨rfl, tok, htok, ?_, ?_⟩⟩
    · intro hp
      rw [hstart]
      exact hpendK hp
    · intro k hk
      rw [hfd1, e2, h5] at hk
      obtain ⟨sim0, hs0⟩ := hrl k hk
      rw [hstart]
      exact feedbackOf_ready hinv hs0


/-! ### the parser invariant -/

/-- parser invariant between runs of the parsing loop (and between `parse` calls, over the bytes the
next call will see first) -/
def PX0 (env : Env κ) (L : Labels) (TT : TLabels) (P : PLabels) (S : SLabels) (Pend : κ → Bool) (Good : κ → Prop)
    (K : Bool) (inp : Bytes) (p : Parser κ) : Prop :=
  match p.directive with
  | .scan => ScanAll env L TT P S Pend inp (⟨p.scanC, .scanner p.scanR, p.x⟩ : M κ) ∧ Good p.x.sink ∧ Inv p.x.sim
  | .lex => LexX Pend Good K (P.at p.lexC.state) (⟨p.lexC, .lexer p.lexR, p.x⟩ : M κ) ∧ ScanIdle p.scanR

/-- inside one `parse`: additionally the lexer may have just been loaded from the scanner's bookmark -/
def PX1 (env : Env κ) (L : Labels) (TT : TLabels) (P : PLabels) (S : SLabels) (Pend : κ → Bool) (Good : κ → Prop)
    (K : Bool) (inp : Bytes) (p : Parser κ) : Prop :=
  PX0 env L TT P S Pend Good K inp p ∨ (p.directive = .lex ∧ HeadStart env L S Pend Good K inp p)

theorem ScanAll.setLast {c : Common} {s : ScanRegs} {x : Ctx κ} (b : Bool)
    (h : ScanAll env L TT P S Pend inp (⟨c, .scanner s, x⟩ : M κ)) :
    ScanAll env L TT P S Pend inp (⟨{ c with isLast := b }, .scanner s, x⟩ : M κ) :=
  ⟨⟨h.head.scan, h.head.stale, h.head.head⟩, ⟨h.lab.scan, h.lab.tt, h.lab.endc, h.lab.pend⟩,
   fun p ph w a1 a2 a3 a4 a5 => ⟨(h.sem p ph w a1 a2 a3 a4 a5).path, (h.sem p ph w a1 a2 a3 a4 a5).sem⟩⟩

theorem ScanAll.setConsumed {c : Common} {s : ScanRegs} {x : Ctx κ} (n : Nat)
    (h : ScanAll env L TT P S Pend inp (⟨c, .scanner s, x⟩ : M κ)) :
    ScanAll env L TT P S Pend inp (⟨c, .scanner s, { x with prevConsumed := n }⟩ : M κ) :=
  ⟨⟨h.head.scan, h.head.stale, h.head.head⟩, ⟨h.lab.scan, h.lab.tt, h.lab.endc, h.lab.pend⟩,
   fun p ph w a1 a2 a3 a4 a5 => ⟨(h.sem p ph w a1 a2 a3 a4 a5).path, (h.sem p ph w a1 a2 a3 a4 a5).sem⟩⟩

/-- the scanner restarted by the lexer's bookmark satisfies all its invariants, over any input -/
theorem scan_loaded (hside : RelexSide env.tbl L TT P S) (p : Parser κ) (bm : Bookmark)
    (hidle : ScanIdle p.scanR) (hg : Good p.x.sink) (hi : Inv p.x.sim) (hp : Pend p.x.sink = false) (inp' : Bytes) :
    PX0 env L TT P S Pend Good K inp' (loadBookmark env .scan bm p) := by
  obtain ⟨i1, i2, i3⟩ := hidle
  simp only [PX0, loadBookmark]
  refine ⟨⟨?_, ?_, ?_⟩, hg, hi⟩
  · exact HInv.of_none rfl (by simpa [M.cs] using i2) (by simpa [M.ts] using i1)
  · refine ⟨rfl, ?_, ?_, hp⟩
    · exact tt_flows (TextTypeOk_text hside.tt bm.textType) (x := bm.textType) (fun tt h => by simpa using h)
    · intro _; simpa [M.iet] using i3
  · exact HSem_of_none (by simpa [M.ts] using i1)

theorem LexX.setConsumed {ab : Ab} {c : Common} {l : LexRegs} {x : Ctx κ} (n : Nat)
    (h : LexX Pend Good K ab (⟨c, .lexer l, x⟩ : M κ)) :
    LexX Pend Good K ab (⟨c, .lexer l, { x with prevConsumed := n }⟩ : M κ) := by
  obtain ⟨c0, l0, x0, hm, h1, h2, h3⟩ := h
  simp only [M.mk.injEq, Regs.lexer.injEq] at hm
  obtain ⟨rfl, rfl, rfl⟩ := hm
  exact ⟨_, _, _, rfl, h1, h2, h3⟩

/-- **the invariant through `Parser.parseLoop`** -/
theorem parseLoop_X (hx : XLaws env.ops inp Pend Good K Uerr) (hside : RelexSide env.tbl L TT P S) (last : Bool) (n : Nat)
    (p : Parser κ) (h : PX1 env L TT P S Pend Good K inp p) :
    (∀ e, (Parser.parseLoop env inp last n p).2 = .error e → ¬ Uerr e) ∧
    (∀ k, (Parser.parseLoop env inp last n p).2 = .ok k → last = false →
      ∀ data, PX0 env L TT P S Pend Good K (inp.drop k ++ data) (Parser.parseLoop env inp last n p).1) := by
  induction n generalizing p with
  | zero =>
    simp only [Parser.parseLoop]
    exact ⟨fun e he => by simp only [Except.error.injEq] at he; subst he; exact hx.noU (by simp [U3err, U2err, U2, guardSite]), fun k hk => by cases hk⟩
  | succ n ih =>
    cases hd : p.directive with
    | scan =>
      have h0 : PX0 env L TT P S Pend Good K inp p := by
        rcases h with h | ⟨h, _⟩
        · exact h
        · rw [hd] at h; cases h
      simp only [PX0, hd] at h0
      obtain ⟨hsa, hg, hi⟩ := h0
      have hm : p.machine last = ⟨{ p.scanC with isLast := last }, .scanner p.scanR, p.x⟩ := by
        simp [Parser.machine, hd]
      have hsa' := hsa.setLast (b := last)
      have h1 := runLoop_scanAll (inp := inp) hx.hint hside (defaultFuel inp) _ hsa'
      have h2 := runLoop_walk (scan_phinv hx) hside.phase (defaultFuel inp)
        (⟨{ p.scanC with isLast := last }, .scanner p.scanR, p.x⟩ : M κ) ⟨rfl, hg, hi, hsa.lab.pend⟩
      simp only [Parser.parseLoop]
      rw [hm]
      unfold LoopPost at h2
      split
      · rename_i consumed hres
        rw [hres] at h1 h2
        obtain ⟨_, hscan, hnext⟩ := h1
        obtain ⟨c, s, x, hr⟩ := scanner_destruct _ hscan
        rw [hr] at hnext h2 ⊢
        refine ⟨fun e he => (by cases he), fun k hk hl data => ?_⟩
        simp only [Except.ok.injEq] at hk
        subst hk
        subst hl
        have := hnext rfl data
        simp only [PX0, Parser.store, hd]
        exact ⟨this.setConsumed _, h2.2.1, h2.2.2.1⟩
      · rename_i d bm hres
        rw [hres] at h1 h2
        obtain ⟨hdl, hdone⟩ := h1
        obtain ⟨_, hscan, hg', hi'⟩ := h2
        subst hdl
        obtain ⟨c, s, x, hr⟩ := scanner_destruct _ hscan
        rw [hr] at hdone hg' hi' ⊢
        apply ih
        right
        refine ⟨by simp [loadBookmark], ⟨⟨bm, ?_, rfl, rfl, rfl, rfl, rfl⟩, hg', hi'⟩⟩
        simpa [loadBookmark, Parser.store] using hdone
      · exact ⟨fun e he => by simp only [Except.error.injEq] at he; subst he; exact hx.noU (by simp [U3err, U2err, guardSite]), fun k hk => by cases hk⟩
      · rename_i e hne hres
        rw [hres] at h2
        exact ⟨fun e' he => by simp only [Except.error.injEq] at he; subst he; exact h2, fun k hk => by cases hk⟩
    | lex =>
      have hm : p.machine last = ⟨{ p.lexC with isLast := last }, .lexer p.lexR, p.x⟩ := by
        simp [Parser.machine, hd]
      have hloop : LoopPost Uerr P (LexX Pend Good K) (LexJ Pend Good) (runLoop env inp (defaultFuel inp) (p.machine last)) ∧
          ScanIdle p.scanR := by
        rcases h with h | ⟨_, h⟩
        · simp only [PX0, hd] at h
          obtain ⟨hl, hidle⟩ := h
          refine ⟨?_, hidle⟩
          rw [hm]
          exact runLoop_walk (lex_phinv hx) hside.phase _ _ ((lex_phinv hx).frame _ _ _ hl)
        · refine ⟨headStart_run hx hside p last hd h, ?_⟩
          obtain ⟨bm, hdone, _⟩ := h.ex
          obtain ⟨s', hs', r1, r2, r3⟩ := hdone.regs
          simp only [Regs.scanner.injEq] at hs'
          subst hs'
          exact ⟨r1, r2, r3⟩
      obtain ⟨h2, hidle⟩ := hloop
      simp only [Parser.parseLoop]
      unfold LoopPost at h2
      split
      · rename_i consumed hres
        rw [hres] at h2
        obtain ⟨c, l, x, hr, hcore⟩ := h2
        refine ⟨fun e he => (by cases he), fun k hk hl data => ?_⟩
        rw [hr]
        simp only [PX0, Parser.store, hd]
        have : LexX Pend Good K (P.at c.state) (⟨c, .lexer l, x⟩ : M κ) := ⟨c, l, x, rfl, by rw [hr] at hcore; exact hcore⟩
        exact ⟨this.setConsumed _, hidle⟩
      · rename_i d bm hres
        rw [hres] at h2
        obtain ⟨hds, hfd, c, l, x, hr, hg', hi', hnorm⟩ := h2
        subst hds
        rw [hr]
        apply ih
        left
        apply scan_loaded hside
        · simpa [Parser.store] using hidle
        · simpa [Parser.store] using hg'
        · simpa [Parser.store] using hi'
        · simpa [Parser.store] using hnorm.2
      · exact ⟨fun e he => by simp only [Except.error.injEq] at he; subst he; exact hx.noU (by simp [U3err, U2err, guardSite]), fun k hk => by cases hk⟩
      · rename_i e hne hres
        rw [hres] at h2
        exact ⟨fun e' he => by simp only [Except.error.injEq] at he; subst he; exact h2, fun k hk => by cases hk⟩

/-- **`Parser::parse`** keeps the invariant and reports no `U2` error -/
theorem parse_X (hx : XLaws env.ops inp Pend Good K Uerr) (hside : RelexSide env.tbl L TT P S) (last : Bool)
    (p : Parser κ) (h : PX0 env L TT P S Pend Good K inp p) :
    (∀ e, (Parser.parse env inp last p).2 = .error e → ¬ Uerr e) ∧
    (∀ k, (Parser.parse env inp last p).2 = .ok k → last = false →
      ∀ data, PX0 env L TT P S Pend Good K (inp.drop k ++ data) (Parser.parse env inp last p).1) :=
  parseLoop_X hx hside last _ p (Or.inl h)


/-- one run of the parsing loop from the invariant: no error at a `U2` site (`Err.internal` is still
visible at this level) -/
theorem run_X (hx : XLaws env.ops inp Pend Good K Uerr) (hside : RelexSide env.tbl L TT P S) (last : Bool)
    (p : Parser κ) (h : PX1 env L TT P S Pend Good K inp p) (e : Err)
    (he : (runLoop env inp (defaultFuel inp) (p.machine last)).2 = .err e) : ¬ Uerr e := by
  cases hd : p.directive with
  | scan =>
    have h0 : PX0 env L TT P S Pend Good K inp p := by
      rcases h with h | ⟨h, _⟩
      · exact h
      · rw [hd] at h; cases h
    simp only [PX0, hd] at h0
    obtain ⟨hsa, hg, hi⟩ := h0
    have hm : p.machine last = ⟨{ p.scanC with isLast := last }, .scanner p.scanR, p.x⟩ := by
      simp [Parser.machine, hd]
    have h2 := runLoop_walk (scan_phinv hx) hside.phase (defaultFuel inp)
      (⟨{ p.scanC with isLast := last }, .scanner p.scanR, p.x⟩ : M κ) ⟨rfl, hg, hi, hsa.lab.pend⟩
    rw [hm] at he
    unfold LoopPost at h2
    rw [he] at h2
    exact h2
  | lex =>
    have hm : p.machine last = ⟨{ p.lexC with isLast := last }, .lexer p.lexR, p.x⟩ := by
      simp [Parser.machine, hd]
    have hloop : LoopPost Uerr P (LexX Pend Good K) (LexJ Pend Good) (runLoop env inp (defaultFuel inp) (p.machine last)) := by
      rcases h with h | ⟨_, h⟩
      · simp only [PX0, hd] at h
        rw [hm]
        exact runLoop_walk (lex_phinv hx) hside.phase _ _ ((lex_phinv hx).frame _ _ _ h.1)
      · exact headStart_run hx hside p last hd h
    unfold LoopPost at hloop
    rw [he] at hloop
    exact hloop

end
end LolHtml.Model
