/-
Package `full`: with observing scripts, in a state satisfying `Inv`, the real controller serialises
every token back to its raw bytes, never switches emission off and appends nothing at the end;
for ALL scripts, content appended at the end never contains an empty chunk.
-/
import LolHtml.Lemmas.FullInv
import LolHtml.Lemmas.SinkMono

namespace LolHtml.Model.Full
open LolHtml LolHtml.Model LolHtml.Model.Handlers LolHtml.EditModel LolHtml.Lemmas.Full

variable {cfg : Cfg}

/-! ### serialisation of untouched units -/

theorem serialize_untouched (self_ : Bytes) : Mutations.serialize encUtf8 {} self_ = self_ := rfl

theorem startTag_intoBytes_raw (name : Bytes) (as : List Attribute) (ns : EditModel.Ns) (sc : Bool) (raw : Bytes) :
    StartTag.intoBytes encUtf8 { name := name, attributes := as, ns := ns, selfClosing := sc, raw := raw } = raw := rfl

theorem endTag_intoBytes_raw (name raw : Bytes) : EndTag.intoBytes encUtf8 { name := name, raw := raw } = raw := rfl

theorem comment_intoBytes_raw (text raw : Bytes) : Comment.intoBytes encUtf8 { text := text, raw := raw } = raw := rfl

theorem doctype_intoBytes_raw (raw : Bytes) : Doctype.intoBytes { raw := raw } = raw := rfl

theorem text_intoBytes_raw (bytes : Bytes) (last : Bool) :
    TextChunk.intoBytes encUtf8 { text := bytes, lastInTextNode := last } = bytes := by
  cases bytes with
  | nil => rfl
  | cons b bs => rfl

/-! ### closures that make no call leave their unit alone -/

theorem runClosures_noop {τ ω : Type} (scripts : HId → Scripts ω) (kind : Nat) (who : HId → Who)
    (see : τ → Seen) (apply : τ → List ω → τ) (src : Range) (hnil : ∀ u, apply u [] = u)
    (hsc : ∀ h k, (cyc (scripts h) k).1 = []) (hs : List HId) (s : St) (u : τ) :
    (runClosures scripts kind who see apply src hs s u).2.1 = u :=
  runClosures_unit scripts kind who see apply src (fun x => x = u)
    (fun x h k hx => by rw [hsc h k, hnil, hx]) hs s u rfl

theorem runEndTagUser_obs (src : Range) (subs : List (HId × Nat)) (user : List (List EndTagOp))
    (hu : ∀ ops ∈ user, ops = []) (s : St) (t : EndTag) : (runEndTagUser src subs user s t).2 = t := by
  induction user generalizing subs s t with
  | nil => cases subs <;> rfl
  | cons ops user ih =>
    have h0 : ops = [] := hu ops (by simp)
    subst h0
    have hu' : ∀ ops ∈ user, ops = [] := fun o ho => hu o (by simp [ho])
    cases subs with
    | nil => simpa [runEndTagUser, EndTag.applyOps] using ih [] hu' s t
    | cons sub subs => simpa [runEndTagUser, EndTag.applyOps] using ih subs hu' _ t

theorem runEndTagHandlers_obs (src : Range) (hs : List EndTagH) (s s' : St) (t t' : EndTag)
    (hp : ∀ p ∈ s.payloads, p.handler.Obs) (hr : runEndTagHandlers src hs s t = some (s', t')) : t' = t := by
  induction hs generalizing s t with
  | nil => simp only [runEndTagHandlers, Option.some.injEq, Prod.mk.injEq] at hr; exact hr.2.symm
  | cons h hs ih =>
    simp only [runEndTagHandlers] at hr
    split at hr
    · simp at hr
    · rename_i p hfind
      have hpo : p.handler.Obs := hp p (List.mem_of_find?_eq_some hfind)
      obtain ⟨h1, h2, h3⟩ := hpo
      have e1 : (runEndTagHandler src h.subs p.handler s t).2 = t := by
        simp only [runEndTagHandler, h1, h2]
        exact runEndTagUser_obs src h.subs _ h3 s t
      have e2 : (runEndTagHandler src h.subs p.handler s t).1.payloads = s.payloads := by
        simp only [runEndTagHandler, h1, h2]
        exact (runEndTagUser_frame src h.subs _ s t).2
      have := ih _ _ (by rw [e2]; exact hp) hr
      rw [this, e1]

theorem runEndClosures_obs (ho : cfg.Observing) (hs : List HId) (s : St) (out : List Bytes) :
    (runEndClosures cfg hs s out).2.1 = out := by
  induction hs generalizing s out with
  | nil => rfl
  | cons h hs ih =>
    simp only [runEndClosures, ho.end_]
    split
    · simp
    · rw [ih]; simp

/-! ### the three `Observing` clauses, on the underlying state -/

theorem outOf_err (failed : Bool) (bytes : Bytes) (e : Err) (h : (outOf failed bytes).err = some e) :
    (outOf failed bytes).chunks = [] := by
  unfold outOf at *
  split
  · rfl
  · rename_i hf; simp [hf] at h

theorem outOf_ok (failed : Bool) (bytes : Bytes) (h : (outOf failed bytes).err = none) :
    (outOf failed bytes).chunks = [bytes] := by
  unfold outOf at *
  split
  · rename_i hf; simp [hf] at h
  · rfl

theorem tokStartTag_raw (ho : cfg.Observing) {s : St} (hi : Inv s) (name : Bytes)
    (attrs : List (Bytes × Bytes × AttrOutline)) (ns : Model.Ns) (sc : Bool) (raw : Bytes) (src : Range) (base : Nat)
    (he : (tokStartTag cfg s name attrs ns sc raw src base).2.err = none) :
    (tokStartTag cfg s name attrs ns sc raw src base).2.chunks.flatten = raw := by
  unfold tokStartTag at he ⊢
  split
  · rename_i hb
    rw [if_pos hb] at he
    split
    · rename_i hm; simp [hm] at he
    · rename_i as hm
      simp only [hm] at he
      have h0 : ¬ (0 < s.disp.removedContent) := by rw [hi.1]; omega
      simp only [h0, if_false] at he ⊢
      have hel : ElemObs { name := name, attributes := as, ns := nsEdit ns, selfClosing := sc, raw := raw }
          (runClosures cfg.elementScripts kElement Who.element (seeElement ns) Element.applyOps src
            s.disp.element.forEachActive s
            (Element.new { name := name, attributes := as, ns := nsEdit ns, selfClosing := sc, raw := raw }
              s.disp.nextElementCanHaveContent)).2.1 :=
        runClosures_unit cfg.elementScripts kElement Who.element (seeElement ns) Element.applyOps src
          (ElemObs _) (fun u hid k hu => elemObs_applyOps _ (ho.element hid k) hu) _ _ _
          ⟨rfl, rfl, rfl, fun _ hx => by simp [Element.new] at hx⟩
      generalize runClosures cfg.elementScripts kElement Who.element (seeElement ns) Element.applyOps src
            s.disp.element.forEachActive s
            (Element.new { name := name, attributes := as, ns := nsEdit ns, selfClosing := sc, raw := raw }
              s.disp.nextElementCanHaveContent) = r at he hel ⊢
      split
      · rename_i hf; simp [hf] at he
      · rename_i hf
        simp only [hf] at he
        split
        · rename_i hh; simp [hh] at he
        · simp only [List.flatten_cons, List.flatten_nil, List.append_nil]
          rw [hel.1]
          rfl
  · rename_i hb
    rw [if_neg hb] at he
    simp at he

theorem tokEndTag_raw {s : St} (hi : Inv s) (name raw : Bytes) (src : Range)
    (he : (tokEndTag s name raw src).2.err = none) : (tokEndTag s name raw src).2.chunks.flatten = raw := by
  unfold tokEndTag at he ⊢
  split
  · rename_i hh; simp [hh] at he
  · rename_i et hs het
    simp only [het] at he
    dsimp only at he ⊢
    split
    · rename_i hr; simp [hr] at he
    · rename_i s' t' hr
      have := runEndTagHandlers_obs src hs _ s' _ t' ?_ hr
      case refine_1 => exact fun p hp => hi.2 p hp
      simp only [List.flatten_cons, List.flatten_nil, List.append_nil]
      rw [this]
      rfl

theorem token_raw (ho : cfg.Observing) {s : St} (hi : Inv s) (t : Model.Token)
    (he : (token cfg s t).2.err = none) : (token cfg s t).2.chunks.flatten = t.raw := by
  unfold token at he ⊢
  split
  · rename_i hf; simp [hf] at he
  · rename_i hf
    simp only [hf] at he
    split
    · exact tokStartTag_raw ho hi _ _ _ _ _ _ _ he
    · exact tokEndTag_raw hi _ _ _ he
    · rename_i text raw src
      simp only [tokComment] at he ⊢
      rw [outOf_ok _ _ he]
      rw [runClosures_noop cfg.commentScripts kComment Who.comment seeComment Comment.applyOps src
        (fun _ => rfl) ho.comment]
      simp [comment_intoBytes_raw, Model.Token.raw]
    · rename_i name publicId systemId fq raw src
      simp only [tokDoctype] at he ⊢
      rw [outOf_ok _ _ he]
      rw [runClosures_noop cfg.doctypeScripts kDoctype Who.doctype _ Doctype.applyOps src
        (fun _ => rfl) ho.doctype]
      simp [doctype_intoBytes_raw, Model.Token.raw]
    · rename_i bytes tt last src
      simp only [tokText] at he ⊢
      rw [outOf_ok _ _ he]
      rw [runClosures_noop cfg.textScripts kText Who.text seeText TextChunk.applyOps src
        (fun _ => rfl) ho.text]
      simp [text_intoBytes_raw, Model.Token.raw]

theorem tokStartTag_err (s : St) (name : Bytes) (attrs : List (Bytes × Bytes × AttrOutline)) (ns : Model.Ns)
    (sc : Bool) (raw : Bytes) (src : Range) (base : Nat) (e : Err)
    (he : (tokStartTag cfg s name attrs ns sc raw src base).2.err = some e) :
    (tokStartTag cfg s name attrs ns sc raw src base).2.chunks.flatten = [] := by
  unfold tokStartTag at he ⊢
  split
  · rename_i hb
    rw [if_pos hb] at he
    split
    · rfl
    · rename_i as hm
      simp only [hm] at he
      dsimp only at he ⊢
      generalize (if 0 < s.disp.removedContent then
        StartTag.apply { name := name, attributes := as, ns := nsEdit ns, selfClosing := sc, raw := raw } (StartTagOp.mut MutOp.remove)
        else { name := name, attributes := as, ns := nsEdit ns, selfClosing := sc, raw := raw }) = st at he ⊢
      generalize runClosures cfg.elementScripts kElement Who.element (seeElement ns) Element.applyOps src
          s.disp.element.forEachActive s (Element.new st s.disp.nextElementCanHaveContent) = r at he ⊢
      split
      · rfl
      · rename_i hf
        simp only [hf] at he
        split
        · rfl
        · rename_i hh; simp [hh] at he
  · rfl

/-- for every configuration: a failing `handle_token` serialises nothing -/
theorem token_err (s : St) (t : Model.Token) (e : Err) (he : (token cfg s t).2.err = some e) :
    (token cfg s t).2.chunks.flatten = [] := by
  unfold token at he ⊢
  split
  · rfl
  · rename_i hfault
    simp only [hfault] at he
    split
    · exact tokStartTag_err _ _ _ _ _ _ _ _ e he
    · unfold tokEndTag at he ⊢
      split
      · rfl
      · rename_i het
        simp only [het] at he
        dsimp only at he ⊢
        split
        · rfl
        · rename_i hr; simp [hr] at he
    · simp only [tokComment] at he ⊢; rw [outOf_err _ _ e he]; rfl
    · simp only [tokDoctype] at he ⊢; rw [outOf_err _ _ e he]; rfl
    · simp only [tokText] at he ⊢; rw [outOf_err _ _ e he]; rfl

theorem shouldEmit_true {s : St} (hi : Inv s) : shouldEmit s = true := by
  simp [shouldEmit, hi.1]

theorem handleEnd_empty (ho : cfg.Observing) (s : St) : (handleEnd cfg s).2.1.flatten = [] := by
  unfold handleEnd
  split
  · rfl
  · split
    · rfl
    · dsimp only
      rw [runEndClosures_obs ho]
      rfl

/-! ### `CleanEnds`: for every configuration -/

theorem runEndClosures_noEmpty (hs : List HId) (s : St) (out : List Bytes) (hout : ∀ b ∈ out, b ≠ []) :
    ∀ b ∈ (runEndClosures cfg hs s out).2.1, b ≠ [] := by
  induction hs generalizing s out with
  | nil => simpa [runEndClosures] using hout
  | cons h hs ih =>
    simp only [runEndClosures]
    have hout' : ∀ b ∈ out ++ ((cyc (cfg.endScripts h) (invGet s.inv (kEnd, h))).1.map fun c => encUtf8 c.2 c.1).filter
        (fun b => !b.isEmpty), b ≠ [] := by
      intro b hb
      rcases List.mem_append.1 hb with hb | hb
      · exact hout b hb
      · have := (List.mem_filter.1 hb).2
        intro hn; subst hn; simp at this
    split
    · exact hout'
    · exact ih _ _ hout'

theorem handleEnd_noEmpty (s : St) : NoEmpty ((handleEnd cfg s).2.1.map .chunk) := by
  intro ev hev
  obtain ⟨b, hb, rfl⟩ := List.mem_map.1 hev
  have hne : b ≠ [] := by
    unfold handleEnd at hb
    split at hb
    · simp at hb
    · split at hb
      · simp at hb
      · exact runEndClosures_noEmpty _ _ [] (fun _ h => by simp at h) b hb
  intro h
  exact hne (by simpa using h)

end LolHtml.Model.Full
