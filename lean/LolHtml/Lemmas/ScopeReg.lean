/-
Closed form of `Dispatcher.fromSettings` (model of `rewrite_controller.rs:66-74` +
`handlers_dispatcher.rs:164-200`): which handler sits where, and that every locator points at the
handler of its own selector.
-/
import LolHtml.Lemmas.ScopeVec
import LolHtml.Spec.Scope

namespace LolHtml.Lemmas.Scope
open LolHtml.Model.Handlers LolHtml.Model.Controller LolHtml.Spec.Scope

/-! ### `idsFrom` -/

theorem idsFrom_append {ρ : Type} (f : ρ → Bool) (k : Nat) (a b : List ρ) :
    idsFrom f k (a ++ b) = idsFrom f k a ++ idsFrom f (k + a.length) b := by
  induction a generalizing k with
  | nil => simp [idsFrom]
  | cons x xs ih =>
    simp only [List.cons_append, idsFrom, List.length_cons]
    have : k + (xs.length + 1) = k + 1 + xs.length := by omega
    split <;> simp [ih, this]

theorem mem_idsFrom_bounds {ρ : Type} (f : ρ → Bool) (k : Nat) (rs : List ρ) (i : Nat)
    (h : i ∈ idsFrom f k rs) : k ≤ i ∧ i < k + rs.length := by
  induction rs generalizing k with
  | nil => simp [idsFrom] at h
  | cons x xs ih =>
    simp only [idsFrom] at h
    simp only [List.length_cons]
    split at h
    · rcases List.mem_cons.1 h with rfl | h
      · omega
      · have := ih (k + 1) h; omega
    · have := ih (k + 1) h; omega

theorem idsFrom_pairwise {ρ : Type} (f : ρ → Bool) (k : Nat) (rs : List ρ) :
    (idsFrom f k rs).Pairwise (· < ·) := by
  induction rs generalizing k with
  | nil => simp [idsFrom]
  | cons x xs ih =>
    simp only [idsFrom]
    split
    · refine List.pairwise_cons.2 ⟨?_, ih (k + 1)⟩
      intro j hj
      have := mem_idsFrom_bounds f (k + 1) xs j hj; omega
    · exact ih (k + 1)

theorem mem_idsFrom_iff {ρ : Type} (f : ρ → Bool) (k : Nat) (rs : List ρ) (i : Nat) :
    i ∈ idsFrom f k rs ↔ ∃ j r, rs[j]? = some r ∧ f r = true ∧ i = k + j := by
  induction rs generalizing k with
  | nil => simp [idsFrom]
  | cons x xs ih =>
    simp only [idsFrom]
    constructor
    · intro h
      split at h
      · rcases List.mem_cons.1 h with rfl | h
        · exact ⟨0, x, by simp, by assumption, by omega⟩
        · obtain ⟨j, r, h1, h2, h3⟩ := (ih (k + 1)).1 h
          exact ⟨j + 1, r, by simpa using h1, h2, by omega⟩
      · obtain ⟨j, r, h1, h2, h3⟩ := (ih (k + 1)).1 h
        exact ⟨j + 1, r, by simpa using h1, h2, by omega⟩
    · rintro ⟨j, r, h1, h2, h3⟩
      cases j with
      | zero =>
        simp at h1; subst h1
        simp [h2, h3]
      | succ j =>
        have : i ∈ idsFrom f (k + 1) xs :=
          (ih (k + 1)).2 ⟨j, r, by simpa using h1, h2, by omega⟩
        split
        · exact List.mem_cons_of_mem _ this
        · exact this

theorem pairwise_lt_nodup (l : List Nat) (h : l.Pairwise (· < ·)) : l.Nodup := by
  apply List.Pairwise.imp _ h
  intro a b hab; omega

/-- Both halves sorted, first half below `n`, second half from `n` on. -/
theorem ids_append_pairwise {ρ σ : Type} (f : ρ → Bool) (g : σ → Bool) (sels : List ρ)
    (docs : List σ) :
    (idsFrom f 0 sels ++ idsFrom g sels.length docs).Pairwise (· < ·) := by
  refine List.pairwise_append.2 ⟨idsFrom_pairwise _ _ _, idsFrom_pairwise _ _ _, ?_⟩
  intro a ha b hb
  have := mem_idsFrom_bounds f 0 sels a ha
  have := mem_idsFrom_bounds g sels.length docs b hb
  omega

/-! ### Registered items -/

/-- Initial count: selector-scoped handlers start inactive, document-level ones always active. -/
def base (n : Nat) (h : Nat) : Nat := if h < n then 0 else 1

/-- Items of a freshly built vector. -/
def regItems (n : Nat) (ids : List HId) : List (Item HId) :=
  ids.map fun h => { handler := h, userCount := base n h }

/-- A locator points at the handler `m`, or there is no handler `m` in the vector. -/
def LocOK (H : List HId) (l : Option Locator) (m : Nat) : Prop :=
  match l with
  | some l => H[l.idx]? = some m
  | none => m ∉ H

theorem push_mk {α : Type} (items : List (Item α)) (h : α) (b : Bool) :
    (mk items).push h b =
      (mk (items ++ [{ handler := h, userCount := if b then 1 else 0 }]), some ⟨items.length⟩) := by
  simp [HandlerVec.push, mk, List.sum_append]

theorem empty_eq_mk {α : Type} : (HandlerVec.empty : HandlerVec α) = mk [] := rfl

/-- State of the dispatcher after the selector entries `pre` have been added. -/
structure SelState (d : Dispatcher) (pre : List SelReg) : Prop where
  text : d.text = mk ((idsFrom (·.text) 0 pre).map fun h => ⟨h, 0⟩)
  comment : d.comment = mk ((idsFrom (·.comments) 0 pre).map fun h => ⟨h, 0⟩)
  element : d.element = mk ((idsFrom (·.element) 0 pre).map fun h => ⟨h, 0⟩)
  doctype : d.doctype = mk []
  endTag : d.endTag = mk []
  end_ : d.end_ = mk []
  next : d.nextElementCanHaveContent = false
  removed : d.removedContent = 0
  len : d.locators.length = pre.length
  loc : ∀ m loc, d.locators[m]? = some loc →
    LocOK (idsFrom (·.text) 0 pre) loc.text m ∧ LocOK (idsFrom (·.comments) 0 pre) loc.comment m ∧
    LocOK (idsFrom (·.element) 0 pre) loc.element m

theorem LocOK_append (H : List HId) (l : Option Locator) (m : Nat) (extra : List HId)
    (h : LocOK H l m) (hex : m ∉ extra) : LocOK (H ++ extra) l m := by
  cases l with
  | none => simp only [LocOK] at *; simp [h, hex]
  | some l =>
    simp only [LocOK] at *
    have hlt : l.idx < H.length := by
      rcases Nat.lt_or_ge l.idx H.length with hlt | hge
      · exact hlt
      · simp [List.getElem?_eq_none hge] at h
    rw [List.getElem?_append_left hlt]; exact h

/-- The new locator component for selector `pre.length`. -/
theorem LocOK_new {ρ : Type} (f : ρ → Bool) (pre : List ρ) (b : Bool) :
    LocOK (idsFrom f 0 pre ++ (if b then [pre.length] else []))
      (if b then some ⟨(idsFrom f 0 pre).length⟩ else none) pre.length := by
  cases b with
  | true => simp [LocOK]
  | false =>
    simp only [LocOK, Bool.false_eq_true, if_false, List.append_nil]
    intro h
    have := mem_idsFrom_bounds f 0 pre _ h; omega

theorem idsFrom_snoc {ρ : Type} (f : ρ → Bool) (pre : List ρ) (r : ρ) :
    idsFrom f 0 (pre ++ [r]) = idsFrom f 0 pre ++ (if f r then [pre.length] else []) := by
  rw [idsFrom_append]
  simp only [idsFrom, Nat.zero_add]

theorem selState_step (d : Dispatcher) (pre : List SelReg) (r : SelReg) (h : SelState d pre) :
    SelState (d.addSelectorAssociatedHandlers r) (pre ++ [r]) := by
  have hlen := h.len
  have key : ∀ (f : SelReg → Bool) (v : HandlerVec HId),
      v = mk ((idsFrom f 0 pre).map fun h => ⟨h, 0⟩) →
      (if f r then v.push d.locators.length false else (v, none)) =
        (mk ((idsFrom f 0 (pre ++ [r])).map fun h => ⟨h, 0⟩),
         if f r then some ⟨(idsFrom f 0 pre).length⟩ else none) := by
    intro f v hv
    subst hv
    rw [idsFrom_snoc]
    cases hf : f r
    · simp
    · simp [push_mk, hlen]
  have kt := key (·.text) d.text h.text
  have kc := key (·.comments) d.comment h.comment
  have ke := key (·.element) d.element h.element
  unfold Dispatcher.addSelectorAssociatedHandlers
  simp only [kt, kc, ke]
  refine ⟨rfl, rfl, rfl, h.doctype, h.endTag, h.end_, h.next, h.removed, by simp [hlen], ?_⟩
  intro m loc hm
  simp only at hm
  rcases Nat.lt_or_ge m d.locators.length with hlt | hge
  · rw [List.getElem?_append_left hlt] at hm
    obtain ⟨h1, h2, h3⟩ := h.loc m loc hm
    have hne : m ∉ (if r.text then [pre.length] else []) ∧
        m ∉ (if r.comments then [pre.length] else []) ∧
        m ∉ (if r.element then [pre.length] else []) := by
      refine ⟨?_, ?_, ?_⟩ <;> (split <;> simp <;> omega)
    simp only [idsFrom_snoc]
    exact ⟨LocOK_append _ _ _ _ h1 hne.1, LocOK_append _ _ _ _ h2 hne.2.1,
      LocOK_append _ _ _ _ h3 hne.2.2⟩
  · rw [List.getElem?_append_right hge] at hm
    have hm0 : m = d.locators.length := by
      rcases Nat.eq_or_lt_of_le hge with h | h
      · exact h.symm
      · have : m - d.locators.length ≠ 0 := by omega
        cases hk : m - d.locators.length with
        | zero => omega
        | succ k => simp [hk] at hm
    subst hm0
    simp at hm
    subst hm
    simp only [idsFrom_snoc, hlen]
    exact ⟨LocOK_new (·.text) pre r.text, LocOK_new (·.comments) pre r.comments,
      LocOK_new (·.element) pre r.element⟩

theorem selState_fold (d : Dispatcher) (pre rest : List SelReg) (h : SelState d pre) :
    SelState (rest.foldl Dispatcher.addSelectorAssociatedHandlers d) (pre ++ rest) := by
  induction rest generalizing d pre with
  | nil => simpa using h
  | cons r rs ih =>
    simp only [List.foldl_cons]
    have := ih _ _ (selState_step d pre r h)
    simpa using this

theorem selState_default : SelState Dispatcher.default [] := by
  refine ⟨rfl, rfl, rfl, rfl, rfl, rfl, rfl, rfl, rfl, ?_⟩
  intro m loc hm
  simp [Dispatcher.default] at hm

/-- State of the dispatcher after the selector entries `sels` and the document entries `pre`. -/
structure DocState (d : Dispatcher) (sels : List SelReg) (pre : List DocReg) : Prop where
  text : d.text = mk (regItems sels.length (textIds sels pre))
  comment : d.comment = mk (regItems sels.length (commentIds sels pre))
  element : d.element = mk (regItems sels.length (elementIds sels))
  doctype : d.doctype = mk (regItems sels.length (doctypeIds sels pre))
  endTag : d.endTag = mk []
  end_ : d.end_ = mk (regItems sels.length (endIds sels pre))
  next : d.nextElementCanHaveContent = false
  removed : d.removedContent = 0
  len : d.locators.length = sels.length
  loc : ∀ m loc, d.locators[m]? = some loc →
    LocOK (textIds sels pre) loc.text m ∧ LocOK (commentIds sels pre) loc.comment m ∧
    LocOK (elementIds sels) loc.element m

theorem regItems_sel {ρ : Type} (f : ρ → Bool) (sels : List ρ) :
    regItems sels.length (idsFrom f 0 sels) = (idsFrom f 0 sels).map fun h => ⟨h, 0⟩ := by
  apply List.map_congr_left
  intro h hh
  have := mem_idsFrom_bounds f 0 sels h hh
  simp [base]; omega

theorem regItems_append (n : Nat) (a b : List HId) :
    regItems n (a ++ b) = regItems n a ++ regItems n b := by simp [regItems]

theorem docState_init (d : Dispatcher) (sels : List SelReg) (h : SelState d sels) :
    DocState d sels [] := by
  refine ⟨?_, ?_, ?_, ?_, h.endTag, ?_, h.next, h.removed, h.len, ?_⟩
  · simp [textIds, idsFrom, regItems_sel, h.text]
  · simp [commentIds, idsFrom, regItems_sel, h.comment]
  · simp [elementIds, regItems_sel, h.element]
  · simp [doctypeIds, idsFrom, regItems, h.doctype]
  · simp [endIds, idsFrom, regItems, h.end_]
  · intro m loc hm
    simpa [textIds, commentIds, elementIds, idsFrom] using h.loc m loc hm

theorem docIds_snoc (f : DocReg → Bool) (n : Nat) (pre : List DocReg) (r : DocReg) :
    idsFrom f n (pre ++ [r]) = idsFrom f n pre ++ (if f r then [n + pre.length] else []) := by
  rw [idsFrom_append]
  simp only [idsFrom]

theorem regItems_push (n : Nat) (ids : List HId) (h : HId) (hn : n ≤ h) :
    ((mk (regItems n ids)).push h true).1 = mk (regItems n (ids ++ [h])) := by
  have : ¬ h < n := Nat.not_lt.2 hn
  simp [push_mk, regItems, base, this]

theorem docState_step (d : Dispatcher) (sels : List SelReg) (pre : List DocReg) (r : DocReg)
    (h : DocState d sels pre) :
    DocState (d.addDocumentContentHandlers (sels.length + pre.length) r) sels (pre ++ [r]) := by
  have hn : sels.length ≤ sels.length + pre.length := by omega
  have pt := regItems_push sels.length (textIds sels pre) _ hn
  have pc := regItems_push sels.length (commentIds sels pre) _ hn
  have pd := regItems_push sels.length (doctypeIds sels pre) _ hn
  have pe := regItems_push sels.length (endIds sels pre) _ hn
  have hloc : ∀ m loc, d.locators[m]? = some loc →
      LocOK (textIds sels (pre ++ [r])) loc.text m ∧
      LocOK (commentIds sels (pre ++ [r])) loc.comment m ∧
      LocOK (elementIds sels) loc.element m := by
    intro m loc hm
    obtain ⟨h1, h2, h3⟩ := h.loc m loc hm
    have hm' : m < sels.length := by
      have := (List.getElem?_eq_some_iff.1 hm).1
      rw [h.len] at this; exact this
    refine ⟨?_, ?_, h3⟩
    · simp only [textIds, docIds_snoc, ← List.append_assoc]
      exact LocOK_append _ _ _ _ h1 (by split <;> simp; omega)
    · simp only [commentIds, docIds_snoc, ← List.append_assoc]
      exact LocOK_append _ _ _ _ h2 (by split <;> simp; omega)
  obtain ⟨a, b, c, e⟩ := r
  cases a <;> cases b <;> cases c <;> cases e <;>
    (refine ⟨?_, ?_, ?_, ?_, ?_, ?_, ?_, ?_, ?_, ?_⟩ <;>
      first
      | exact hloc
      | (simp only [Dispatcher.addDocumentContentHandlers, textIds, commentIds, doctypeIds, endIds,
          docIds_snoc, if_true, if_false, Bool.false_eq_true, List.append_nil,
          ← List.append_assoc]
         first
          | exact h.text | exact h.comment | exact h.element | exact h.doctype | exact h.endTag
          | exact h.end_ | exact h.next | exact h.removed | exact h.len
          | (rw [h.text]; exact pt) | (rw [h.comment]; exact pc) | (rw [h.doctype]; exact pd)
          | (rw [h.end_]; exact pe)))

theorem docState_addDocs (d : Dispatcher) (sels : List SelReg) (pre rest : List DocReg)
    (h : DocState d sels pre) :
    DocState (d.addDocs (sels.length + pre.length) rest) sels (pre ++ rest) := by
  induction rest generalizing d pre with
  | nil => simpa [Dispatcher.addDocs] using h
  | cons r rs ih =>
    simp only [Dispatcher.addDocs]
    have := ih _ _ (docState_step d sels pre r h)
    simpa [Nat.add_assoc] using this

/-- Closed form of the freshly built dispatcher. -/
theorem fromSettings_state (sels : List SelReg) (docs : List DocReg) :
    DocState (Dispatcher.fromSettings sels docs) sels docs := by
  have h1 := selState_fold Dispatcher.default [] sels selState_default
  simp only [List.nil_append] at h1
  have h2 := docState_addDocs _ sels [] docs (docState_init _ sels h1)
  simpa [Dispatcher.fromSettings] using h2

end LolHtml.Lemmas.Scope
