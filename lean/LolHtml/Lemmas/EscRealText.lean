import LolHtml.Lemmas.TagStates
import LolHtml.Thm.C16_Attrs
/-!
The data state of the generated table on a run of bytes without `<` (what `escape_body_text`
produces), with the recording sink: one `stateFn` call emits the pending text as ONE text lexeme
covering exactly those bytes and otherwise does what the same call does from a clean data state
(no pending text) at the end of the run.
-/
namespace LolHtml.Lemmas.EscRealText
open LolHtml LolHtml.Model LolHtml.Model.TagStates
open LolHtml.Thm.C16 (Lexeme recOps)

theorem findByte_skip (needle : UInt8) : ∀ (a : Bytes) (b : Bytes), needle ∉ a →
    findByte needle (a ++ b) = (findByte needle b).map (· + a.length)
  | [], b, _ => by cases h : findByte needle b <;> simp [h]
  | x :: a, b, h => by
    have hx : (x == needle) = false := by
      simp only [beq_eq_false_iff_ne, ne_eq]; intro e; subst e; exact h (by simp)
    simp only [List.cons_append, findByte, hx, Bool.false_eq_true, if_false]
    rw [findByte_skip needle a b (fun hm => h (by simp [hm]))]
    cases findByte needle b <;> simp [Nat.add_assoc]

section
variable {tbl : Table} {cfg : TagCfg} (hok : TagStatesOk tbl = true) {inp : Bytes}
  {p : Nat} {il en ca : Bool} {lsh : Nat} {cq : UInt8} {ltt : TextType}
  {x : Ctx (List Lexeme)}

/-- the machine after the pending text `[p, p + n)` has been handed to the recording sink -/
def afterText (p n : Nat) (il en ca : Bool) (lsh : Nat) (cq : UInt8) (ltt : TextType) (l : LexRegs)
    (x : Ctx (List Lexeme)) : M (List Lexeme) :=
  ⟨⟨p + n, il, 2, en, ca, lsh, cq, ltt⟩, .lexer { l with lexemeStart := p + n },
    { x with sink := x.sink ++ [.nonTag ⟨x.prevConsumed, ⟨p, p + n⟩, some (.text ltt)⟩] }⟩

include hok

/-- text followed by `<`: one call emits the text lexeme and enters the tag open state, exactly as the
call from the clean data state at the `<` does -/
theorem step2_text_lt {l : LexRegs} (pre esc R' : Bytes) (hinp : inp = pre ++ esc ++ 60 :: R') (hp : p = pre.length)
    (hesc : (60 : UInt8) ∉ esc) (hne : esc ≠ []) (hl : l.lexemeStart = p) :
    stateFn ⟨tbl, cfg, recOps⟩ inp ⟨⟨p, il, 2, en, ca, lsh, cq, ltt⟩, .lexer l, x⟩
      = stateFn ⟨tbl, cfg, recOps⟩ inp (afterText p esc.length il en ca lsh cq ltt l x) := by
  have hb : inp[p + esc.length]? = some 60 := by
    subst hinp hp
    rw [show pre.length + esc.length = (pre ++ esc).length by simp]
    simp
  have rhs := step2_lt (env := ⟨tbl, cfg, recOps⟩) hok (inp := inp) (p := p + esc.length) (il := il) (en := en)
    (ca := ca) (lsh := lsh) (cq := cq) (ltt := ltt)
    (x := { x with sink := x.sink ++ [.nonTag ⟨x.prevConsumed, ⟨p, p + esc.length⟩, some (.text ltt)⟩] })
    (l := { l with lexemeStart := p + esc.length }) hb rfl
  unfold afterText
  rw [rhs]
  have hd : inp.drop p = esc ++ 60 :: R' := by subst hinp hp; simp [List.append_assoc]
  have hlen : 0 < esc.length := List.length_pos_iff.mpr hne
  obtain ⟨sd, hs, he, hm, ha⟩ := state_of_ok hok (s := 2) (k := exp2) (by simp [expected])
  unfold stateFn
  dsimp only
  simp only [hs, he, hm, ha, exp2, List.isEmpty_nil, Bool.not_true, Bool.false_and, Bool.false_eq_true, if_false]
  rw [hd, findByte_skip 60 esc _ hesc]
  simp [findByte, dispatch, runSeqArms, findArm, patMatches, runBody, runSeq, runCalls, act, lexAct, applyTrans,
    Common.pos, lexEmitText, lexEmitNonTag, recOps, hl, hlen]
  omega

/-- text up to the end of the input: the call emits the text lexeme and then does what the end-of-input
call from the clean data state at the end does (break, or text-and-EOF on the last chunk) -/
theorem step2_text_end {l : LexRegs} (pre esc : Bytes) (hinp : inp = pre ++ esc) (hp : p = pre.length)
    (hesc : (60 : UInt8) ∉ esc) (hne : esc ≠ []) (hl : l.lexemeStart = p) :
    stateFn ⟨tbl, cfg, recOps⟩ inp ⟨⟨p, il, 2, en, ca, lsh, cq, ltt⟩, .lexer l, x⟩
      = stateFn ⟨tbl, cfg, recOps⟩ inp (afterText p esc.length il en ca lsh cq ltt l x) := by
  have hd : inp.drop p = esc ++ [] := by subst hinp hp; simp
  have hd2 : inp.drop (p + esc.length) = [] := by subst hinp hp; simp
  have hlen : 0 < esc.length := List.length_pos_iff.mpr hne
  obtain ⟨sd, hs, he, hm, ha⟩ := state_of_ok hok (s := 2) (k := exp2) (by simp [expected])
  unfold afterText stateFn
  dsimp only
  simp only [hs, he, hm, ha, exp2, List.isEmpty_nil, Bool.not_true, Bool.false_and, Bool.false_eq_true, if_false]
  rw [hd, hd2, findByte_skip 60 esc _ hesc]
  have e2 : p + esc.length + 1 - 1 = p + esc.length := by omega
  have e4 : p + 1 + esc.length = p + esc.length + 1 := by omega
  have lt1 : p < p + esc.length := by omega
  cases il <;>
  simp [findByte, dispatch, runSeqArms, findArm, patMatches, runBody, runSeq, runCalls, act, lexAct,
    Common.pos, lexEmitText, lexEmitNonTag, lexEmitEof, andThen, recOps, hl, breakOnEndOfInput,
    consumedByteCount, adjustForNextInput, e2, e4, lt1]

end
end LolHtml.Lemmas.EscRealText
