import LolHtml.Model.SM
/-!
Comparing a state definition with an expected one BY RESOLUTION, not by the spelling of its arm list.

`dispatch` (the body of a state function once the byte has been consumed) reads the arm list in two
ways only: the look-ahead sequence arms, in source order (`runSeqArms`), and the FIRST ordinary arm
whose pattern matches the input class (`findArm`); of that arm it uses the body and whether the
pattern is `eoc`, `eof` or anything else. So two arm lists with the same sequence arms that select,
for every input class, arms of the same kind with the same body, run identically
(`dispatch_of_armsAgree`) — in particular when arms with disjoint patterns are reordered, or a class
pattern is spelled out byte by byte.

Input classes (`classes`, 514 of them): every byte 0..255, once with "the byte is the closing quote"
false and once true (the only thing `patMatches` reads from the closing-quote register), and the
exhausted input on a last and on a non-last slice. `armsAgree` is the decidable check over all of
them; `armsWitness` names the first class where two lists differ.
-/
namespace LolHtml.Model

variable {κ : Type}

def Arm.isSeq (a : Arm) : Bool := match a.pat with | .chSeq .. => true | _ => false

/-- how `dispatch` treats the selected arm -/
inductive ArmKind | eoc | eof | other
  deriving DecidableEq, Repr, Inhabited

def ArmKind.of : Pat → ArmKind
  | .eoc => .eoc
  | .eof => .eof
  | _ => .other

/-- `patMatches` with the two things it reads from the registers as parameters: `cqm` = the consumed
byte is the closing quote, `isLast` -/
def patMatchesP (tbl : Table) (cqm isLast : Bool) (ch : Option UInt8) : Pat → Bool
  | .byte b => ch == some b
  | .alpha => match ch with | some x => tbl.alpha.any (fun r => r.1 ≤ x && x ≤ r.2) | none => false
  | .whitespace => match ch with | some x => tbl.whitespace.contains x | none => false
  | .closingQuote => ch.isSome && cqm
  | .eoc => ch.isNone && !isLast
  | .eof => ch.isNone
  | .any => ch.isSome
  | .chSeq .. => false

/-- kind and body of the first ordinary arm that matches -/
def pick (tbl : Table) (cqm isLast : Bool) (ch : Option UInt8) : List Arm → Option (ArmKind × Body)
  | [] => none
  | a :: rest => if patMatchesP tbl cqm isLast ch a.pat then some (ArmKind.of a.pat, a.body) else pick tbl cqm isLast ch rest

theorem patMatches_eq (tbl : Table) (c : Common) (ch : Option UInt8) (p : Pat) :
    patMatches tbl c ch p = patMatchesP tbl (ch == some c.closingQuote) c.isLast ch p := by
  cases p <;> simp only [patMatches, patMatchesP] <;> first | rfl | (cases ch <;> simp)

theorem findArm_pick (tbl : Table) (c : Common) (ch : Option UInt8) (arms : List Arm) :
    (findArm tbl c ch arms).map (fun a => (ArmKind.of a.pat, a.body)) =
      pick tbl (ch == some c.closingQuote) c.isLast ch arms := by
  induction arms with
  | nil => rfl
  | cons a rest ih =>
    simp only [findArm, pick, patMatches_eq]
    split
    · rfl
    · exact ih

/-- the input classes: (consumed byte, it is the closing quote, last slice) -/
def classes : List (Option UInt8 × Bool × Bool) :=
  ((List.range 256).flatMap fun n => [(some (UInt8.ofNat n), false, false), (some (UInt8.ofNat n), true, false)]) ++
  [(none, false, true), (none, false, false)]

/-- position of a class in `classes`, for diagnostics: byte `x` ↦ `2x` (`2x+1` as the closing quote),
512 = end of the last slice, 513 = end of a non-last slice -/
def classCode (c : Option UInt8 × Bool × Bool) : Nat :=
  match c with
  | (some x, cqm, _) => 2 * x.toNat + (if cqm then 1 else 0)
  | (none, _, true) => 512
  | (none, _, false) => 513

/-- same sequence arms (spelled identically, in order), same resolution -/
def armsResolveAlike (tbl : Table) (arms exp : List Arm) : Bool :=
  (arms.filter Arm.isSeq == exp.filter Arm.isSeq) &&
  classes.all fun c => pick tbl c.2.1 c.2.2 c.1 arms == pick tbl c.2.1 c.2.2 c.1 exp

/-- the decidable comparison: the arm lists are equal (the cheap case), or they resolve alike -/
def armsAgree (tbl : Table) (arms exp : List Arm) : Bool :=
  arms == exp || armsResolveAlike tbl arms exp

/-- `none` = they agree; 3000 = the sequence arms differ; otherwise the code of the first input class
that resolves differently -/
def armsWitness (tbl : Table) (arms exp : List Arm) : Option Nat :=
  if arms == exp then none else
  if arms.filter Arm.isSeq != exp.filter Arm.isSeq then some 3000
  else (classes.find? fun c => pick tbl c.2.1 c.2.2 c.1 arms != pick tbl c.2.1 c.2.2 c.1 exp).map classCode

/-! ### soundness -/

theorem pick_some_last (tbl : Table) (cqm il : Bool) (x : UInt8) (arms : List Arm) :
    pick tbl cqm il (some x) arms = pick tbl cqm false (some x) arms := by
  induction arms with
  | nil => rfl
  | cons a rest ih =>
    simp only [pick]
    have : patMatchesP tbl cqm il (some x) a.pat = patMatchesP tbl cqm false (some x) a.pat := by
      cases a.pat <;> simp [patMatchesP]
    rw [this, ih]

theorem pick_none_cqm (tbl : Table) (cqm il : Bool) (arms : List Arm) :
    pick tbl cqm il none arms = pick tbl false il none arms := by
  induction arms with
  | nil => rfl
  | cons a rest ih =>
    simp only [pick]
    have : patMatchesP tbl cqm il none a.pat = patMatchesP tbl false il none a.pat := by
      cases a.pat <;> simp [patMatchesP]
    rw [this, ih]

theorem mem_classes_some (x : UInt8) (cqm : Bool) : (some x, cqm, false) ∈ classes := by
  unfold classes
  apply List.mem_append_left
  rw [List.mem_flatMap]
  refine ⟨x.toNat, List.mem_range.mpr x.toNat_lt, ?_⟩
  have : UInt8.ofNat x.toNat = x := by simp
  rw [this]
  cases cqm <;> simp

theorem mem_classes_none (il : Bool) : ((none : Option UInt8), false, il) ∈ classes := by
  unfold classes
  apply List.mem_append_right
  cases il <;> simp

/-- the check covers every register state and input -/
theorem pick_of_armsAgree {tbl : Table} {arms exp : List Arm} (h : armsResolveAlike tbl arms exp = true)
    (cqm il : Bool) (ch : Option UInt8) : pick tbl cqm il ch arms = pick tbl cqm il ch exp := by
  unfold armsResolveAlike at h
  simp only [Bool.and_eq_true, List.all_eq_true, beq_iff_eq] at h
  cases ch with
  | some x =>
    rw [pick_some_last tbl cqm il x arms, pick_some_last tbl cqm il x exp]
    exact h.2 _ (mem_classes_some x cqm)
  | none =>
    rw [pick_none_cqm tbl cqm il arms, pick_none_cqm tbl cqm il exp]
    exact h.2 _ (mem_classes_none il)

/-- `runSeqArms` only looks at the sequence arms -/
theorem runSeqArms_filter (env : Env κ) (inp : Bytes) (ch : Option UInt8) (arms : List Arm) (m : M κ) :
    runSeqArms env inp ch arms m = runSeqArms env inp ch (arms.filter Arm.isSeq) m := by
  induction arms generalizing m with
  | nil => rfl
  | cons a rest ih =>
    cases hp : a.pat with
    | chSeq bytes ic =>
      have hs : a.isSeq = true := by simp [Arm.isSeq, hp]
      simp only [List.filter_cons, hs, if_true]
      simp only [runSeqArms, hp]
      cases bytes with
      | nil => exact ih _
      | cons e0 es =>
        simp only
        split
        · rfl
        · exact ih _
        · rfl
    | _ =>
      have hs : a.isSeq = false := by simp [Arm.isSeq, hp]
      simp only [List.filter_cons, hs, Bool.false_eq_true, if_false]
      simp only [runSeqArms, hp]
      exact ih m

/-- what `dispatch` does with the selected arm -/
def runArm (env : Env κ) (inp : Bytes) (m : M κ) : ArmKind × Body → StepRes κ
  | (.eoc, body) =>
    let r := runBody env inp body m
    match r.2.1, r.2.2 with
    | some sig, _ => (r.1, some sig)
    | none, .transitioned => (r.1, none)
    | none, .fell => breakOnEndOfInput inp r.1
  | (.eof, body) =>
    if m.c.isLast then
      let r := runBody env inp body m
      match r.2.1, r.2.2 with
      | some sig, _ => (r.1, some sig)
      | none, .transitioned => (r.1, none)
      | none, .fell => breakOnEndOfInput inp r.1
    else breakOnEndOfInput inp m
  | (.other, body) =>
    let r := runBody env inp body m
    (r.1, r.2.1)

/-- **`dispatch` depends on the arm list only through its sequence arms and its resolution.** -/
theorem dispatch_resolved (env : Env κ) (inp : Bytes) (ch : Option UInt8) (arms : List Arm) (m : M κ) :
    dispatch env inp ch arms m =
      match runSeqArms env inp ch (arms.filter Arm.isSeq) m with
      | .inl r => r
      | .inr m' =>
        match pick env.tbl (ch == some m'.c.closingQuote) m'.c.isLast ch arms with
        | none => (m', some (.err (.panic "non-exhaustive match in state body")))
        | some kb => runArm env inp m' kb := by
  unfold dispatch
  rw [← runSeqArms_filter]
  cases hr : runSeqArms env inp ch arms m with
  | inl r => rfl
  | inr m' =>
    simp only
    rw [← findArm_pick]
    cases hf : findArm env.tbl m'.c ch arms with
    | none => rfl
    | some arm =>
      simp only [Option.map_some]
      cases hp : arm.pat <;> simp only [ArmKind.of, runArm] <;> rfl

theorem dispatch_of_armsAgree {env : Env κ} {arms exp : List Arm} (h : armsAgree env.tbl arms exp = true)
    (inp : Bytes) (ch : Option UInt8) (m : M κ) : dispatch env inp ch arms m = dispatch env inp ch exp m := by
  unfold armsAgree at h
  rw [Bool.or_eq_true] at h
  rcases h with h | h
  · rw [beq_iff_eq] at h; rw [h]
  rw [dispatch_resolved, dispatch_resolved]
  have hseq : arms.filter Arm.isSeq = exp.filter Arm.isSeq := by
    unfold armsResolveAlike at h
    simp only [Bool.and_eq_true, beq_iff_eq] at h
    exact h.1
  rw [hseq]
  split
  · rfl
  · rw [pick_of_armsAgree h]

/-! ### a whole state -/

/-- enter actions, memchr needle and arms of a state (its name does not matter) -/
abbrev StateKey := List Call × Option UInt8 × List Arm

/-- state `e.1` of the table has exactly the expected enter actions and memchr needle, exactly the expected
sequence arms, and resolves like the expected arm list -/
def stateMatches (t : Table) (e : Nat × StateKey) : Bool :=
  match t.state? e.1 with
  | none => false
  | some sd => sd.enter == e.2.1 && sd.memchr == e.2.2.1 && armsAgree t sd.arms e.2.2.2

/-- diagnostics: (state name, 2000 = missing state, 1000 = enter actions / memchr differ, 3000 = sequence arms
differ, otherwise the code (`classCode`) of the first input class whose resolution differs) -/
def stateWitness (t : Table) (e : Nat × StateKey) : Option (String × Nat) :=
  match t.state? e.1 with
  | none => some (s!"state {e.1} missing", 2000)
  | some sd =>
    if sd.enter != e.2.1 || sd.memchr != e.2.2.1 then some (sd.name, 1000)
    else (armsWitness t sd.arms e.2.2.2).map fun n => (sd.name, n)

/-- what the step lemmas use: the state exists with the expected enter actions and needle, and `dispatch` over its
arms is `dispatch` over the expected arms (as a rewrite rule for every environment on that table) -/
theorem state_of_matches {t : Table} {e : Nat × StateKey} (h : stateMatches t e = true) :
    ∃ sd, t.state? e.1 = some sd ∧ sd.enter = e.2.1 ∧ sd.memchr = e.2.2.1 ∧
      (∀ {κ : Type} (env : Env κ), env.tbl = t → ∀ (inp : Bytes) (ch : Option UInt8) (m : M κ),
        dispatch env inp ch sd.arms m = dispatch env inp ch e.2.2.2 m) := by
  unfold stateMatches at h
  cases hs : t.state? e.1 with
  | none => simp [hs] at h
  | some sd =>
    simp only [hs, Bool.and_eq_true, beq_iff_eq] at h
    refine ⟨sd, rfl, h.1.1, h.1.2, ?_⟩
    intro κ env henv inp ch m
    subst henv
    exact dispatch_of_armsAgree h.2 inp ch m

/-! ### table mutations, for the regression examples of the side-conditions -/

/-- apply `f` to the arm list of state `s` -/
def Table.modArms (t : Table) (s : Nat) (f : List Arm → List Arm) : Table :=
  { t with states := t.states.modify s (fun sd => { sd with arms := f sd.arms }) }

def idxOfPat (p : Pat) (l : List Arm) : Nat := (l.takeWhile fun a => a.pat != p).length

/-- the arms with patterns `p` and `q` change places (found by pattern: independent of the order they are written in) -/
def swapArms (p q : Pat) (l : List Arm) : List Arm :=
  match l[idxOfPat p l]?, l[idxOfPat q l]? with
  | some a, some b => (l.set (idxOfPat p l) b).set (idxOfPat q l) a
  | _, _ => l

/-- the arms with patterns `p` and `q` keep their patterns and exchange their bodies -/
def swapBodies (p q : Pat) (l : List Arm) : List Arm :=
  match l[idxOfPat p l]?, l[idxOfPat q l]? with
  | some a, some b => (l.set (idxOfPat p l) { a with body := b.body }).set (idxOfPat q l) { b with body := a.body }
  | _, _ => l

end LolHtml.Model
