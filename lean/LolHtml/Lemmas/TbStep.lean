import LolHtml.Lemmas.TbLoop2
/-!
One token (`Spec.TreeBuilder.step`) from any state with the invariant, the "text" insertion mode included.
-/
namespace LolHtml.Spec.TreeBuilder
open LolHtml.Model (Ns)

variable {b : Bool} {c : Cfg} {s : State}

theorem step_eq_loop (hdev : c.dev.doctypeEarly = false) (hG : GInv b s) (t : Token) :
    step c s t = loop c t false 16 s false := by
  have htm := hG.tmodes
  simp [step, hdev, fuelFor, htm, useHtmlRules_of_inv hG t]

theorem step_post (hleg : c.legacySelect = false) (hdev : c.dev.doctypeEarly = false) (hG : GInv b s) (hns : NsOk c s)
    (t : Token) (htok : TokOk b t) (htext : s.mode = .text → TextTok t) : LoopPost c b t s 16 (step c s t) := by
  rw [step_eq_loop hdev hG t]
  by_cases h1 : s.mode = .text
  · -- the "text" insertion mode
    have hI : Inv b s := by
      rcases hG with h | h
      · exact h
      · rw [h.mode] at h1; cases h1
    have ho : s.origMode ≠ .text := by
      have := hI.modes.2.2.1 h1
      simp only [List.mem_cons, List.mem_nil_iff, or_false, not_or] at this
      exact this.1
    have hstep : stepOnce c s t false = text c s t := by
      simp [stepOnce, useHtmlRules_of_inv hG t, stepMode, h1]
    have hpost := text_inv (c := c) hI h1 t (by have := htext h1; cases t <;> simp_all [TextTok])
    have hns' : NsOk c s → NsOk c { s.pop with mode := s.origMode } := fun h hs => ⟨(h hs).2, (h hs).2⟩
    have ht := htext h1
    cases t with
    | char cc =>
      simp only [loop, hstep, text, Res.ok]
      refine ⟨hG, fun h => h, rfl, fun _ => rfl, fun n sc a h => (by cases h), fun n sc a h => (by cases h), ?_⟩
      simp [h1, Switch.isRaw]
    | «end» n =>
      simp only [loop, hstep, text, Res.ok]
      simp only [text, Res.ok] at hpost
      refine ⟨hpost, hns', rfl, fun _ => rfl, fun n sc a h => (by cases h), fun n sc a h => (by cases h), ?_⟩
      simp [ho, Switch.isRaw]
    | eof =>
      simp only [text, Res.again] at hpost
      have hl := loop_post (c := c) hleg .eof htok false 15 { s.pop with mode := s.origMode } hpost.1 (hns' hns) ho
      have : loop c Token.eof false 16 s false = loop c Token.eof false 15 { s.pop with mode := s.origMode } false := by
        simp [loop, hstep, text, Res.again]
      rw [this]
      refine ⟨hl.inv, fun h => hl.ns (hns' h), hl.possible, hl.swOther, hl.swStart, fun n sc a h => (by cases h), ?_⟩
      rw [hl.text]
      simp [ho]
    | start n sc a => exact ht.elim
    | comment => exact ht.elim
    | doctype d => exact ht.elim
  · exact loop_post hleg t htok false 16 s hG hns h1

end LolHtml.Spec.TreeBuilder
