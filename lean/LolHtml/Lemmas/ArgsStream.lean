import LolHtml.Lemmas.ArgsValidRaw
import LolHtml.Lemmas.InvStream
import LolHtml.Thm.C01
/-!
# The lexemes handed to the dispatcher are valid — transform stream and rewriter, ANY controller

`SArgs w cert rcert Dk s`: the parser of the stream satisfies `PArgs` (at the trivial watermark) for the bytes the
stream has retained. It holds of a new stream, survives every successful `write` — for EVERY controller, the
dispatcher's answers do not matter — and at every `write` / `end` it makes `parse_args_valid` applicable to the
one `Parser.parse` call the operation performs: that call IS the call over the guarded dispatcher.
-/
set_option linter.unusedSimpArgs false
set_option linter.unusedVariables false
namespace LolHtml.Model

variable {γ : Type}

/-- number of retained bytes -/
def Stream.pendingLen (s : Stream γ) : Nat := if s.hasBuffered then s.buf.data.length else 0

def SArgs (w : World γ) (cert : Cert) (rcert : RCert) (Dk : Disp γ → Prop) (s : Stream γ) : Prop :=
  PArgs w.tbl cert rcert s.pendingLen s.parser ∧ Dk s.disp

/-- what the stream-level statements need about the dispatcher invariant `Dk`: the freshness of the dispatcher on
states with `Dk`, and that `flush_remaining_input` keeps it -/
structure ArgsCtl (w : World γ) (s0 : String) (Dk : Disp γ → Prop) : Prop where
  fresh : ∀ inp, ArgsFresh s0 (dispOps w.ctl) inp Dk
  flush : ∀ d d' inp k, d.flushRemaining inp k = .ok d' → Dk d → Dk d'

/-- the table side-conditions of the argument-validity theorem -/
structure ArgsTable (t : Table) (cert : Cert) (rcert : RCert) : Prop where
  wf : Wf t
  cert : checkCert t cert = true
  rcert : checkRaw t rcert = true
  emits : EmitsChecked t = true

section
variable {w : World γ} {cert : Cert} {rcert : RCert} {Dk : Disp γ → Prop}

theorem PArgs_setSink {L : Nat} {p : Parser (Disp γ)} (d : Disp γ) (h : PArgs w.tbl cert rcert L p) :
    PArgs w.tbl cert rcert L { p with x := { p.x with sink := d } } :=
  ⟨PInv_setSink d h.1 rfl, PTok_setSink d h.2.1, PRaw_setSink d h.2.2⟩

theorem PArgs_mono {L L' : Nat} {p : Parser (Disp γ)} (h : PArgs w.tbl cert rcert L p) (hL : L ≤ L') :
    PArgs w.tbl cert rcert L' p := ⟨PInv_mono h.1 hL, h.2.1, h.2.2⟩

theorem Stream.new_sargs (ht : ArgsTable w.tbl cert rcert) (g : γ) (cfg : Settings)
    (hD : Dk (Disp.new w.ctl g cfg.encoding)) : SArgs w cert rcert Dk (Stream.new w g cfg) := by
  unfold SArgs
  refine ⟨?_, hD⟩
  simp only [Stream.new]
  exact ⟨PInv_new w.tbl ht.wf _ _ _ _ rfl, PTok_new w.tbl cert ht.cert _ _ _, PRaw_new w.tbl rcert ht.rcert _ _ _⟩

/-- what `keepTail` retains after a successful parse that consumed `consumed` bytes of `chunk` -/
theorem Stream.keepTail_len {s : Stream γ} {data chunk : Bytes} {consumed : Nat}
    (hc : consumed ≤ chunk.length) (hbuf : s.hasBuffered = true → s.buf.data = chunk)
    (hnb : s.hasBuffered = false → data = chunk)
    (hok : (s.keepTail w data chunk consumed).2 = .ok ()) :
    (s.keepTail w data chunk consumed).1.pendingLen = chunk.length - consumed := by
  unfold Stream.keepTail at hok ⊢
  unfold Stream.pendingLen
  by_cases hlt : consumed < chunk.length
  · simp only [hlt, if_true] at hok ⊢
    by_cases hb : s.hasBuffered = true
    · simp only [hb, if_true] at hok ⊢
      unfold Buf.shift at hok ⊢
      rw [hbuf hb] at hok ⊢
      simp only [hc, if_true] at hok ⊢
      simp only [hb, if_true, List.length_drop]
    · have hb' : s.hasBuffered = false := by simpa using hb
      simp only [hb', Bool.false_eq_true, if_false] at hok ⊢
      by_cases hi : (s.buf.initWith (data.drop consumed)).2 = true
      · simp only [hi, if_true] at hok ⊢
        have := Buf.append_data { s.buf with data := [] } (data.drop consumed) (by simpa [Buf.initWith] using hi)
        simp only [Buf.initWith]
        rw [this, hnb hb']
        simp
      · simp only [hi, Bool.false_eq_true, if_false] at hok
        cases hok
  · simp only [hlt, if_false, Bool.false_eq_true]
    omega

/-- the guarded dispatcher -/
def World.envArgs (w : World γ) (s0 : String) : Env (Disp γ) := ⟨w.tbl, w.tags, guardArgs (argGuard s0) (dispOps w.ctl)⟩

/-- the outcome of `parse_args_valid` for one `Parser.parse` call of the stream -/
def ParseArgsOK (w : World γ) (s0 : String) (inp : Bytes) (last : Bool) (p : Parser (Disp γ)) : Prop :=
  Parser.parse (w.envArgs s0) inp last p = Parser.parse w.env inp last p ∧
  (Parser.parse w.env inp last p).2 ≠ .error (.panic s0) ∧
  (Parser.parse w.env inp last p).2 ≠ .error (.panic rawSite)

variable {s0 : String}

/-- **One `write`**, any controller: the parse call it performs is the parse over the guarded dispatcher, and
after a successful call the invariant holds again. -/
theorem Stream.write_sargs (ht : ArgsTable w.tbl cert rcert) (hs0 : T2 s0)
    (hne : s0 ≠ rawSite) (hf : ArgsCtl w s0 Dk) (s : Stream γ) (data : Bytes) (hs : SArgs w cert rcert Dk s) :
    (∀ s1 chunk, s.chunkFor w data = .inr (s1, chunk) →
      PArgs w.tbl cert rcert chunk.length s1.parser ∧ Dk s1.parser.x.sink ∧ ParseArgsOK w s0 chunk false s1.parser) ∧
    ((s.write w data).2 = .ok () → SArgs w cert rcert Dk (s.write w data).1) := by
  have key : ∀ s1 chunk, s.chunkFor w data = .inr (s1, chunk) →
      PArgs w.tbl cert rcert chunk.length s1.parser ∧ Dk s1.parser.x.sink := by
    intro s1 chunk hcf
    obtain ⟨c1, c2, c3, c4, c5⟩ := Stream.chunkFor_inr hcf
    rw [c2]
    refine ⟨PArgs_mono hs.1 ?_, hs.2⟩
    rw [c1]
    simp only [Stream.pendingLen, Stream.pending, List.length_append]
    split <;> omega
  constructor
  · intro s1 chunk hcf
    obtain ⟨hp, hd⟩ := key s1 chunk hcf
    obtain ⟨g1, g2, g3, _⟩ := parse_args_valid (cfg := w.tags) ht.wf ht.cert ht.rcert ht.emits hs0 hne (hf.fresh chunk) false s1.parser hp hd
    exact ⟨hp, hd, g1, g2, g3⟩
  · unfold Stream.write
    cases hcf : s.chunkFor w data with
    | inl s' => intro h; cases h
    | inr sc =>
      obtain ⟨s1, chunk⟩ := sc
      obtain ⟨c1, c2, c3, c4, c5⟩ := Stream.chunkFor_inr hcf
      obtain ⟨hp, hd⟩ := key s1 chunk hcf
      obtain ⟨_, _, _, g4⟩ := parse_args_valid (cfg := w.tags) ht.wf ht.cert ht.rcert ht.emits hs0 hne (hf.fresh chunk) false s1.parser hp hd
      dsimp only
      cases hpr : (s1.parser.parse w.env chunk false).2 with
      | error e => intro h; cases h
      | ok consumed =>
        obtain ⟨p2, pD, p3⟩ := g4 consumed hpr
        dsimp only
        cases hfl : (Stream.disp { s1 with parser := (s1.parser.parse w.env chunk false).1 }).flushRemaining chunk consumed with
        | error e => intro h; cases h
        | ok d =>
          dsimp only
          intro hok
          have hbuf : (Stream.setDisp { s1 with parser := (s1.parser.parse w.env chunk false).1 } d).hasBuffered = true →
              (Stream.setDisp { s1 with parser := (s1.parser.parse w.env chunk false).1 } d).buf.data = chunk := by
            intro hb; exact c5 (by simpa [Stream.setDisp, c3] using hb)
          have hnb : (Stream.setDisp { s1 with parser := (s1.parser.parse w.env chunk false).1 } d).hasBuffered = false →
              data = chunk := by
            intro hb
            have : s.hasBuffered = false := by simpa [Stream.setDisp, c3] using hb
            rw [c1]; simp [Stream.pending, this]
          unfold SArgs Stream.disp
          rw [Stream.keepTail_len p2 hbuf hnb hok, Stream.keepTail_parser _ _ _ _ hok]
          exact ⟨PArgs_setSink d (p3 rfl), hf.flush _ _ _ _ hfl pD⟩

/-- **`end`**, any controller: its parse call is the parse over the guarded dispatcher. -/
theorem Stream.end_sargs (ht : ArgsTable w.tbl cert rcert) (hs0 : T2 s0)
    (hne : s0 ≠ rawSite) (hf : ArgsCtl w s0 Dk) (s : Stream γ) (hs : SArgs w cert rcert Dk s) :
    PArgs w.tbl cert rcert (if s.hasBuffered then s.buf.data else []).length s.parser ∧ Dk s.parser.x.sink ∧
    ParseArgsOK w s0 (if s.hasBuffered then s.buf.data else []) true s.parser := by
  obtain ⟨hs1, hs2⟩ := hs
  have hp : PArgs w.tbl cert rcert (if s.hasBuffered then s.buf.data else []).length s.parser := by
    unfold Stream.pendingLen at hs1
    split <;> rename_i hb <;> simpa [hb] using hs1
  obtain ⟨g1, g2, g3, _⟩ := parse_args_valid (cfg := w.tags) ht.wf ht.cert ht.rcert ht.emits hs0 hne (hf.fresh _) true s.parser hp hs2
  exact ⟨hp, hs2, g1, g2, g3⟩

/-! ### rewriter, whole runs -/

open LolHtml.Thm.C01 (writeAll run Rewriter.new)

/-- poisoned, or the stream invariant -/
def RArgs (w : World γ) (cert : Cert) (rcert : RCert) (Dk : Disp γ → Prop) (r : Rewriter γ) : Prop :=
  r.poisoned = true ∨ SArgs w cert rcert Dk r.stream

theorem Rewriter.write_rargs (ht : ArgsTable w.tbl cert rcert) (hs0 : T2 s0)
    (hne : s0 ≠ rawSite) (hf : ArgsCtl w s0 Dk) (r : Rewriter γ) (data : Bytes) (hr : RArgs w cert rcert Dk r) :
    RArgs w cert rcert Dk (r.write w data).1 := by
  unfold Rewriter.write
  by_cases hp : r.poisoned = true
  · rw [if_pos hp]; exact Or.inl hp
  · rw [if_neg hp]
    have hs := hr.resolve_left hp
    obtain ⟨_, t2⟩ := Stream.write_sargs ht hs0 hne hf r.stream data hs
    dsimp only
    cases hres : (r.stream.write w data).2 with
    | ok u => exact Or.inr (t2 hres)
    | error e => exact Or.inl rfl

theorem writeAll_rargs (ht : ArgsTable w.tbl cert rcert) (hs0 : T2 s0)
    (hne : s0 ≠ rawSite) (hf : ArgsCtl w s0 Dk) (chunks : List Bytes) (r : Rewriter γ) (hr : RArgs w cert rcert Dk r) :
    RArgs w cert rcert Dk (writeAll w r chunks).1 := by
  induction chunks generalizing r with
  | nil => exact hr
  | cons c cs ih =>
    simp only [writeAll]
    exact ih _ (Rewriter.write_rargs ht hs0 hne hf r c hr)

/-- **Whole runs, any controller, any chunking**: after every prefix of writes from a new rewriter the invariant
holds (unless the rewriter is poisoned: then no parser call is made any more). -/
theorem run_rargs (ht : ArgsTable w.tbl cert rcert) (hs0 : T2 s0)
    (hne : s0 ≠ rawSite) (hf : ArgsCtl w s0 Dk) (g : γ) (cfg : Settings) (hD : Dk (Disp.new w.ctl g cfg.encoding))
    (chunks : List Bytes) :
    RArgs w cert rcert Dk (writeAll w (Rewriter.new w g cfg) chunks).1 :=
  writeAll_rargs ht hs0 hne hf chunks _ (Or.inr (Stream.new_sargs ht g cfg hD))

/-- **`args_valid_run`**: in every run `write*` of the rewriter (any table with the side-conditions, any
controller, any chunking), for every prefix that left the rewriter usable and every next chunk, the one
`Parser.parse` call of the next `write` — and of the final `end` — IS the call over the guarded dispatcher
(`argGuard`: every lexeme handed to `handle_tag` / `handle_non_tag_content` is valid) and returns neither of the
guard's errors. -/
theorem args_valid_run (ht : ArgsTable w.tbl cert rcert) (hs0 : T2 s0)
    (hne : s0 ≠ rawSite) (hf : ArgsCtl w s0 Dk) (g : γ) (cfg : Settings) (hD : Dk (Disp.new w.ctl g cfg.encoding))
    (pre : List Bytes)
    (hu : (writeAll w (Rewriter.new w g cfg) pre).1.poisoned = false) :
    (∀ data s1 chunk, (writeAll w (Rewriter.new w g cfg) pre).1.stream.chunkFor w data = .inr (s1, chunk) →
      ParseArgsOK w s0 chunk false s1.parser) ∧
    ParseArgsOK w s0 (if (writeAll w (Rewriter.new w g cfg) pre).1.stream.hasBuffered
        then (writeAll w (Rewriter.new w g cfg) pre).1.stream.buf.data else []) true
      (writeAll w (Rewriter.new w g cfg) pre).1.stream.parser := by
  have hr := run_rargs ht hs0 hne hf g cfg hD pre
  have hs : SArgs w cert rcert Dk (writeAll w (Rewriter.new w g cfg) pre).1.stream :=
    hr.resolve_left (by rw [hu]; intro h; cases h)
  exact ⟨fun data s1 chunk hcf => ((Stream.write_sargs ht hs0 hne hf _ data hs).1 s1 chunk hcf).2.2,
    (Stream.end_sargs ht hs0 hne hf _ hs).2.2⟩

end
end LolHtml.Model
