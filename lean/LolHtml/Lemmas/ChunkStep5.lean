import LolHtml.Lemmas.ChunkStep4
/-!
The enter phase, the consumption of the next byte (or the `memchr` scan), and the step lemma.
-/
namespace LolHtml.Model.Chunk
open LolHtml LolHtml.Model

variable {κ : Type}

/-- the enter-action prelude of a state function -/
def preOf (env : Env κ) (inp : Bytes) (sd : StateDef) (m : M κ) : StepRes κ :=
  if !sd.enter.isEmpty && !m.c.entered then
    match (runCalls env inp sd.enter { m with c := { m.c with nextPos := m.c.nextPos + 1 } }).2 with
    | some sig => ((runCalls env inp sd.enter { m with c := { m.c with nextPos := m.c.nextPos + 1 } }).1, some sig)
    | none =>
      ({ (runCalls env inp sd.enter { m with c := { m.c with nextPos := m.c.nextPos + 1 } }).1 with
          c := { (runCalls env inp sd.enter { m with c := { m.c with nextPos := m.c.nextPos + 1 } }).1.c with
            nextPos := (runCalls env inp sd.enter { m with c := { m.c with nextPos := m.c.nextPos + 1 } }).1.c.nextPos - 1,
            entered := true } }, none)
  else (m, none)

/-- consumption of the next byte / the `memchr` scan, then `dispatch` -/
def consume (env : Env κ) (inp : Bytes) (sd : StateDef) (m : M κ) : StepRes κ :=
  match sd.memchr with
  | some needle =>
    match findByte needle (inp.drop m.c.nextPos) with
    | some p => dispatch env inp (some needle) sd.arms { m with c := { m.c with nextPos := m.c.nextPos + 1 + p } }
    | none => dispatch env inp none sd.arms { m with c := { m.c with nextPos := m.c.nextPos + 1 + (inp.drop m.c.nextPos).length } }
  | none => dispatch env inp inp[m.c.nextPos]? sd.arms { m with c := { m.c with nextPos := m.c.nextPos + 1 } }

theorem stateFn_eq (env : Env κ) (inp : Bytes) (m : M κ) :
    stateFn env inp m =
      match env.tbl.state? m.c.state with
      | none => (m, some (.err (.panic "unknown state")))
      | some sd =>
        match (preOf env inp sd m).2 with
        | some sig => ((preOf env inp sd m).1, some sig)
        | none => consume env inp sd (preOf env inp sd m).1 := by
  unfold stateFn
  cases env.tbl.state? m.c.state with
  | none => rfl
  | some sd =>
    simp only [preOf, consume]
    by_cases h : (!sd.enter.isEmpty && !m.c.entered) = true
    · simp only [h, if_true]
      cases (runCalls env inp sd.enter { m with c := { m.c with nextPos := m.c.nextPos + 1 } }).2 <;> rfl
    · simp only [h]
      rfl

/-- consuming `ks` ≥ 1 bytes in the split run and as many as needed to catch up in the whole run -/
theorem MRel.consume {δ d skip : Nat} {ab : Ab} {sm : SeqMode} {ms mw : M κ} (h : MRel δ d skip ab sm ms mw)
    (hsm : sm ≠ .inSeq) (ks kw : Nat) (hk : 1 ≤ ks) (he : mw.c.nextPos + kw = ms.c.nextPos + ks + δ) :
    MRel δ d 0 ab.inStep sm { ms with c := { ms.c with nextPos := ms.c.nextPos + ks } }
      { mw with c := { mw.c with nextPos := mw.c.nextPos + kw } } := by
  obtain ⟨hc, hr, hsim, hpc⟩ := h
  refine ⟨{ hc with nextPos := by show mw.c.nextPos + kw + 0 = ms.c.nextPos + ks + δ; omega }, ?_, hsim, hpc⟩
  show RegsRel δ d ab.inStep sm (ms.c.nextPos + ks) ms.r mw.r
  cases hrs : ms.r with
  | lexer ls =>
    cases hrw : mw.r with
    | scanner sw => rw [hrs, hrw] at hr; exact hr.elim
    | lexer lw =>
      rw [hrs, hrw] at hr
      have hl : LexRel δ d ab ms.c.nextPos ls lw := hr
      show LexRel δ d ab.inStep (ms.c.nextPos + ks) ls lw
      exact { hl with ls_le := by have := hl.ls_le; omega, p := (fun _ => by have := hl.ls_le; omega), ntu := (fun g n hn => leNonTag_mono (by omega) (hl.ntu g n hn)), ntp := (fun g _ n hn => leNonTag_mono (by omega) (hl.ntu g n hn)) }
  | scanner ss =>
    cases hrw : mw.r with
    | lexer lw => rw [hrs, hrw] at hr; exact hr.elim
    | scanner sw =>
      rw [hrs, hrw] at hr
      obtain ⟨h1, h2, h3⟩ := hr
      refine ⟨h1, { h2 with ts_le := fun t ht => by have := h2.ts_le t ht; omega,
                            p := fun _ => ⟨by omega, fun t ht => by have := h2.ts_le t ht; omega⟩ }, ?_⟩
      cases sm with
      | none => exact h3
      | stale => exact h3
      | inSeq => exact absurd rfl hsm

theorem absAct_enter_P {a : ActName} {ab ab' : Ab} (ha : enterOk a = true) (h : absAct a ab = some ab') :
    ab'.P = ab.P := by
  cases a <;> simp [enterOk] at ha <;> simp only [absAct] at h
  · simp only [Option.some.injEq] at h; subst h; rfl
  · simp only [Option.some.injEq] at h; subst h; rfl
  · split at h
    · simp only [Option.some.injEq] at h; subst h; rfl
    · cases h

theorem absCalls_enter_P : ∀ (cs : List Call) {ab ab' : Ab}, (∀ c ∈ cs, enterOk c.act = true) →
    absCalls cs ab = some ab' → ab'.P = ab.P := by
  intro cs
  induction cs with
  | nil => intro ab ab' _ h; simp only [absCalls, Option.some.injEq] at h; subst h; rfl
  | cons c cs ih =>
    intro ab ab' hall h
    simp only [absCalls] at h
    split at h
    · cases h
    · split at h
      · cases h
      · rename_i ab1 h1
        rw [ih (fun c' hc' => hall c' (List.mem_cons_of_mem _ hc')) h, absAct_enter_P (hall c List.mem_cons_self) h1]

theorem enterOk_noRead {a : ActName} (h : enterOk a = true) : readsInp a = false := by
  cases a <;> simp [enterOk] at h <;> rfl

theorem Ab.le_of_le_boundary {a e : Ab} (h : a.le e.boundary = true) : a.le e = true := by
  rw [Ab.le_iff] at h ⊢
  obtain ⟨h1, h2⟩ := h
  refine ⟨fun g => ?_, h2⟩
  have := h1 g
  simp [Ab.boundary] at this

section
variable {env : Env κ} {inpS inpW : Bytes} {δ : Nat} {K : Nat → κ → κ → Prop} {Loc : κ → Nat → Nat → TextType → Prop}

theorem preOf_skip (inp : Bytes) (sd : StateDef) (m : M κ) (h : (!sd.enter.isEmpty && !m.c.entered) = false) :
    preOf env inp sd m = (m, none) := by
  unfold preOf; simp [h]

theorem preOf_some (inp : Bytes) (sd : StateDef) (m : M κ) (h : (!sd.enter.isEmpty && !m.c.entered) = true) (sg : Signal)
    (hr : (runCalls env inp sd.enter { m with c := { m.c with nextPos := m.c.nextPos + 1 } }).2 = some sg) :
    preOf env inp sd m = ((runCalls env inp sd.enter { m with c := { m.c with nextPos := m.c.nextPos + 1 } }).1, some sg) := by
  unfold preOf; simp only [h, if_true, hr]

theorem preOf_none (inp : Bytes) (sd : StateDef) (m : M κ) (h : (!sd.enter.isEmpty && !m.c.entered) = true)
    (hr : (runCalls env inp sd.enter { m with c := { m.c with nextPos := m.c.nextPos + 1 } }).2 = none) :
    preOf env inp sd m =
      ({ (runCalls env inp sd.enter { m with c := { m.c with nextPos := m.c.nextPos + 1 } }).1 with
          c := { (runCalls env inp sd.enter { m with c := { m.c with nextPos := m.c.nextPos + 1 } }).1.c with
            nextPos := (runCalls env inp sd.enter { m with c := { m.c with nextPos := m.c.nextPos + 1 } }).1.c.nextPos - 1,
            entered := true } }, none) := by
  unfold preOf; simp only [h, if_true, hr]

/-- **The enter phase.** -/
theorem pre_sim (F : Frame inpS inpW δ) (hops : OpsSim env.ops inpS inpW δ K Loc) {fs : FlagMap} {st : StateId} {sd : StateDef}
    {d skip : Nat} {sm : SeqMode} {ms mw : M κ} (hlook : env.tbl.state? st = some sd) (hwf : WfChunkWith env.tbl fs = true)
    (hst : ms.c.state = st) (hrel : MRel δ d skip (flagsAt fs sd st ms.c.entered) sm ms mw) (hK : K d ms.x.sink mw.x.sink)
    (hsm : sm = .none ∨ (sm = .stale ∧ hasSeq sd = true ∧ (sd.enter.isEmpty = true ∨ ms.c.entered = true)))
    (hdebt : 0 < d → hasEoc sd = true)
    (hskip : 0 < skip → (sd.enter.isEmpty = true ∨ ms.c.entered = true)) :
    SPanic (preOf env inpS sd ms).2 ∨
    (∃ sg sg', (preOf env inpS sd ms).2 = some sg ∧ (preOf env inpW sd mw).2 = some sg' ∧ SigRel δ 0 (some sg) (some sg') ∧
      DirOk δ K ((preOf env inpS sd ms).1, some sg) ((preOf env inpW sd mw).1, some sg')) ∨
    ((preOf env inpS sd ms).2 = none ∧ (preOf env inpW sd mw).2 = none ∧
      MRel δ d skip (fs st).2 sm (preOf env inpS sd ms).1 (preOf env inpW sd mw).1 ∧
      K d (preOf env inpS sd ms).1.x.sink (preOf env inpW sd mw).1.x.sink ∧
      StepCtx env.tbl fs st sd (preOf env inpS sd ms).1.c ∧
      (preOf env inpS sd ms).1.c.nextPos = ms.c.nextPos ∧ (preOf env inpS sd ms).1.c.isLast = ms.c.isLast ∧
      (preOf env inpW sd mw).1.c.nextPos = mw.c.nextPos ∧
      preOf env inpW sd (preOf env inpW sd mw).1 = ((preOf env inpW sd mw).1, none) ∧
      (0 < d → (preOf env inpS sd ms).1 = ms)) := by
  have hok := stOk_of (wf_state hwf hlook)
  cases hcond : (!sd.enter.isEmpty && !ms.c.entered) with
  | false =>
    have hcondw : (!sd.enter.isEmpty && !mw.c.entered) = false := by rw [hrel.c.entered]; exact hcond
    rw [preOf_skip inpS sd ms hcond, preOf_skip inpW sd mw hcondw]
    right; right
    have hent : sd.enter.isEmpty = true ∨ ms.c.entered = true := by
      cases h1 : sd.enter.isEmpty <;> cases h2 : ms.c.entered <;> simp [h1, h2] at hcond ⊢
    have hfl : flagsAt fs sd st ms.c.entered = (fs st).2 := by
      unfold flagsAt; rw [hcond]; rfl
    rw [hfl] at hrel
    exact ⟨rfl, rfl, hrel, hK, ⟨hlook, hok, hwf, hst, hent⟩, rfl, rfl, rfl, preOf_skip inpW sd mw hcondw, fun _ => rfl⟩
  | true =>
    simp only [Bool.and_eq_true, Bool.not_eq_true'] at hcond
    obtain ⟨hne, hnent⟩ := hcond
    have hnotent : ¬ (sd.enter.isEmpty = true ∨ ms.c.entered = true) := by
      rw [hne, hnent]; simp
    have hsm0 : sm = .none := by
      rcases hsm with h | ⟨_, _, h⟩
      · exact h
      · exact absurd h hnotent
    subst hsm0
    have hskip0 : skip = 0 := by
      rcases Nat.eq_zero_or_pos skip with h | h
      · exact h
      · exact absurd (hskip h) hnotent
    subst hskip0
    have hd0 : d = 0 := by
      rcases Nat.eq_zero_or_pos d with h | h
      · exact h
      · have := (hok.debt (hdebt h)).1; rw [hne] at this; cases this
    subst hd0
    have hfl : flagsAt fs sd st ms.c.entered = (fs st).1 := by
      unfold flagsAt; rw [hne, hnent]; rfl
    rw [hfl] at hrel
    obtain ⟨hall, e, habs, hle⟩ := hok.enterN hne
    have hm1 := hrel.consume (by intro hh; cases hh) 1 1 (Nat.le_refl 1) (by have := hrel.c.nextPos; omega)
    have hcalls := runCalls_sim F hops sd.enter habs hm1 hK (fun hh => absurd hh (Nat.lt_irrefl 0)) (Or.inl rfl)
      (fun cl hcl hr => by rw [enterOk_noRead (hall cl hcl)] at hr; cases hr)
    have hfixS := runCalls_cfix (env := env) (inp := inpS) sd.enter { ms with c := { ms.c with nextPos := ms.c.nextPos + 1 } }
    have hfixW := runCalls_cfix (env := env) (inp := inpW) sd.enter { mw with c := { mw.c with nextPos := mw.c.nextPos + 1 } }
    have hcw : (!sd.enter.isEmpty && !mw.c.entered) = true := by rw [hrel.c.entered, hne, hnent]; rfl
    have hcs : (!sd.enter.isEmpty && !ms.c.entered) = true := by rw [hne, hnent]; rfl
    have heP : e.P = true := by rw [absCalls_enter_P sd.enter hall habs]; rfl
    rcases hcalls with ⟨_, hp⟩ | ⟨hs, hm, hdir⟩
    · left
      cases hrs : (runCalls env inpS sd.enter { ms with c := { ms.c with nextPos := ms.c.nextPos + 1 } }).2 with
      | none => rw [hrs] at hp; exact hp.elim
      | some sg => rw [hrs] at hp; rw [preOf_some inpS sd ms hcs sg hrs]; exact hp
    · cases hrs : (runCalls env inpS sd.enter { ms with c := { ms.c with nextPos := ms.c.nextPos + 1 } }).2 with
      | some sg =>
        rw [hrs] at hs
        cases hrw : (runCalls env inpW sd.enter { mw with c := { mw.c with nextPos := mw.c.nextPos + 1 } }).2 with
        | none => rw [hrw] at hs; cases hs.none_right
        | some sg' =>
          rw [hrw] at hs
          rw [preOf_some inpS sd ms hcs sg hrs, preOf_some inpW sd mw hcw sg' hrw]
          exact Or.inr (Or.inl ⟨sg, sg', rfl, rfl, hs, fun dr bm hh => hdir dr bm (by rw [hrs]; exact hh)⟩)
      | none =>
        rw [hrs] at hs
        have hrw := hs.none_left
        obtain ⟨hm1', hk1⟩ := hm (Or.inl hrs)
        right; right
        rw [preOf_none inpS sd ms hcs hrs, preOf_none inpW sd mw hcw hrw]
        have hnpS : (runCalls env inpS sd.enter { ms with c := { ms.c with nextPos := ms.c.nextPos + 1 } }).1.c.nextPos = ms.c.nextPos + 1 := hfixS.1
        have hnpW : (runCalls env inpW sd.enter { mw with c := { mw.c with nextPos := mw.c.nextPos + 1 } }).1.c.nextPos = mw.c.nextPos + 1 := hfixW.1
        have hnp' : (runCalls env inpW sd.enter { mw with c := { mw.c with nextPos := mw.c.nextPos + 1 } }).1.c.nextPos - 1 + 0
            = (runCalls env inpS sd.enter { ms with c := { ms.c with nextPos := ms.c.nextPos + 1 } }).1.c.nextPos - 1 + δ := by
          have := hm1'.c.nextPos; omega
        refine ⟨rfl, rfl, ⟨{ hm1'.c with nextPos := hnp', entered := rfl }, ?_, hm1'.sim, hm1'.pc⟩, hk1,
          ⟨hlook, hok, hwf, ?_, Or.inr rfl⟩, ?_, ?_, ?_, ?_, fun hh => absurd hh (Nat.lt_irrefl 0)⟩
        · exact hm1'.r.unconsume heP (Ab.le_of_le_boundary hle) hok.p2
        · show (runCalls env inpS sd.enter _).1.c.state = st
          rw [hfixS.2.2.1]; exact hst
        · show _ - 1 = ms.c.nextPos
          rw [hnpS]; omega
        · show (runCalls env inpS sd.enter _).1.c.isLast = ms.c.isLast
          rw [hfixS.2.1]
        · show _ - 1 = mw.c.nextPos
          rw [hnpW]; omega
        · apply preOf_skip
          simp

end

/-! ### the `memchr` scan -/

theorem findByte_lt (nd : UInt8) : ∀ (xs : Bytes) (p : Nat), findByte nd xs = some p → p < xs.length := by
  intro xs
  induction xs with
  | nil => intro p h; cases h
  | cons x xs ih =>
    intro p h
    simp only [findByte] at h
    split at h
    · cases h; simp
    · simp only [Option.map_eq_some_iff] at h
      obtain ⟨q, hq, rfl⟩ := h
      have := ih q hq
      simp only [List.length_cons]; omega

section
variable {inpS inpW : Bytes} {δ : Nat}

/-- what follows position `n + δ` of the whole input -/
theorem Frame.drop (F : Frame inpS inpW δ) (n : Nat) :
    ∃ post', inpW.drop (n + δ) = inpS.drop n ++ post' ∧ (Closed inpS inpW δ → post' = []) := by
  obtain ⟨pre, post, h1, h2⟩ := F.ex
  subst h2 h1
  refine ⟨post.drop (n - inpS.length), ?_, fun hc => ?_⟩
  · rw [List.append_assoc, List.drop_append, List.drop_eq_nil_of_le (by omega), List.nil_append,
      show n + pre.length - pre.length = n by omega, List.drop_append]
  · unfold Closed at hc
    simp only [List.length_append] at hc
    have : post = [] := List.eq_nil_of_length_eq_zero (by omega)
    rw [this]; simp

/-- the scan of the whole run, `skip` needle-free bytes behind, against the scan of the split run -/
theorem memchr_rel (F : Frame inpS inpW δ) (nd : UInt8) {nps npw skip : Nat} (hsk : SkipOk nd inpW npw skip)
    (hnp : npw + skip = nps + δ) :
    match findByte nd (inpS.drop nps) with
    | some p => findByte nd (inpW.drop npw) = some (p + skip) ∧ nps + p < inpS.length
    | none =>
      (Closed inpS inpW δ → findByte nd (inpW.drop npw) = none ∧
        (inpW.drop npw).length = skip + (inpS.drop nps).length) ∧
      SkipOk nd inpW npw (skip + (inpS.drop nps).length) := by
  obtain ⟨l, r, hlr, hl, hnl⟩ := hsk
  have hr : r = inpW.drop (nps + δ) := by
    have : (inpW.drop npw).drop skip = r := by
      rw [hlr, List.drop_append, List.drop_eq_nil_of_le (by omega), List.nil_append, show skip - l.length = 0 by omega]
      rfl
    rw [← this, List.drop_drop, ← hnp]
  obtain ⟨post', hp1, hp2⟩ := F.drop nps
  rw [hp1] at hr
  subst hr
  rw [hlr, findByte_append, hnl]
  simp only
  rw [findByte_append]
  cases hf : findByte nd (inpS.drop nps) with
  | some p =>
    simp only [Option.map_some, hl]
    have := findByte_lt nd _ p hf
    simp only [List.length_drop] at this
    exact ⟨trivial, by omega⟩
  | none =>
    simp only
    refine ⟨fun hc => ?_, ⟨l ++ inpS.drop nps, post', by rw [List.append_assoc]; exact hlr, by simp [hl], ?_⟩⟩
    · rw [hp2 hc]
      simp [findByte, hl]
    · rw [findByte_append, hnl]
      simp only [hf, Option.map_none]

end

section
variable {env : Env κ} {inpS inpW : Bytes} {δ : Nat} {K : Nat → κ → κ → Prop} {Loc : κ → Nat → Nat → TextType → Prop}

theorem brkParams_mk {sd : StateDef} {d skip : Nat} {ab : Ab} {sm : SeqMode} {ms0 mw0 : M κ}
    (h : MRel δ d skip ab sm ms0 mw0) (hsm : sm = .none ∨ (sm = .stale ∧ hasSeq sd = true)) (X Y : Nat)
    (hnp : mw0.c.nextPos ≤ X - 1 + δ)
    (hskip : 0 < X - 1 + δ - mw0.c.nextPos → ∃ nd, sd.memchr = some nd ∧ SkipOk nd inpW mw0.c.nextPos (X - 1 + δ - mw0.c.nextPos)) :
    BrkParams inpW sd δ { ms0 with c := { ms0.c with nextPos := X } } { mw0 with c := { mw0.c with nextPos := Y } } mw0
      mw0.c.nextPos :=
  ⟨hnp, hskip, rfl, rfl,
    (leaveSeq_r_congr (m := mw0) (m' := { mw0 with c := { mw0.c with nextPos := Y } }) rfl).symm, fun hns => by
      rcases hsm with h' | ⟨_, h'⟩
      · subst h'; exact (chSeqOf_none_of_rel h).2
      · rw [hns] at h'; cases h'⟩

/-- **Consumption and dispatch.** -/
theorem consume_sim (F : Frame inpS inpW δ) (hops : OpsSim env.ops inpS inpW δ K Loc)
    {fs : FlagMap} {st : StateId} {sd : StateDef} {d skip : Nat} {eoi : Bool} {sm : SeqMode} {ms0 mw0 : M κ}
    (cx : StepCtx env.tbl fs st sd ms0.c) (hrel : MRel δ d skip (fs st).2 sm ms0 mw0) (hK : K d ms0.x.sink mw0.x.sink)
    (hloc : 0 < d → Loc ms0.x.sink ms0.x.prevConsumed (lexStart ms0.r) ms0.c.lastTextType)
    (hsm : sm = .none ∨ (sm = .stale ∧ hasSeq sd = true)) (hdebt : 0 < d → hasEoc sd = true)
    (hskip : 0 < skip → ∃ nd, sd.memchr = some nd ∧ SkipOk nd inpW mw0.c.nextPos skip)
    (hil : ms0.c.isLast = true → Closed inpS inpW δ) (heoi : eoi = false → ms0.c.isLast = false) :
    LockOut env.tbl fs inpW δ K Loc eoi (consume env inpS sd ms0) (consume env inpW sd mw0) ∨
    ((eoi = true → ¬ Closed inpS inpW δ) ∧
      BreakOut env.tbl fs env.ops Loc inpS inpW δ d ms0.x mw0 (consume env inpS sd ms0)) := by
  have hsm' : sm ≠ .inSeq := by
    rcases hsm with h | ⟨h, _⟩ <;> rw [h] <;> intro hh <;> cases hh
  have hnp := hrel.c.nextPos
  unfold consume
  cases hmem : sd.memchr with
  | none =>
    have hskip0 : skip = 0 := by
      rcases Nat.eq_zero_or_pos skip with h | h
      · exact h
      · obtain ⟨nd, h1, _⟩ := hskip h; rw [hmem] at h1; cases h1
    subst hskip0
    simp only
    have hm1 := hrel.consume hsm' 1 1 (Nat.le_refl 1) (by omega)
    rw [Ab.inStep] at hm1
    have hbp := brkParams_mk (inpW := inpW) (sd := sd) hrel hsm (ms0.c.nextPos + 1) (mw0.c.nextPos + 1) (by omega)
      (fun h => by omega)
    have hcx1 : StepCtx env.tbl fs st sd ({ ms0 with c := { ms0.c with nextPos := ms0.c.nextPos + 1 } } : M κ).c :=
      ⟨cx.look, cx.ok, cx.wf, cx.st_eq, cx.ent⟩
    by_cases hlt : ms0.c.nextPos < inpS.length
    · have hch : inpW[mw0.c.nextPos]? = inpS[ms0.c.nextPos]? := by
        rw [show mw0.c.nextPos = ms0.c.nextPos + δ by omega]; exact F.get hlt
      rw [hch]
      have hsome : inpS[ms0.c.nextPos]?.isSome = true := by
        rw [List.getElem?_eq_getElem hlt]; rfl
      exact dispatch_lock F hops hcx1 _ hm1 hK hloc hsm hdebt (fun _ => by show ms0.c.nextPos + 1 ≤ _; omega) hil heoi
        (fun hn => by rw [hn] at hsome; cases hsome) hbp
    · have hnone : inpS[ms0.c.nextPos]? = none := List.getElem?_eq_none (by omega)
      rw [hnone]
      by_cases hcl : eoi = true ∧ Closed inpS inpW δ
      · have hch : inpW[mw0.c.nextPos]? = none := by
          rw [show mw0.c.nextPos = ms0.c.nextPos + δ by omega, F.get_closed hcl.2, hnone]
        rw [hch]
        exact dispatch_lock F hops hcx1 none hm1 hK hloc hsm hdebt (fun h => by cases h) hil heoi (fun _ => ⟨hcl.2, hcl.1⟩) hbp
      · right
        have hl : ms0.c.isLast = false := by
          cases hh : ms0.c.isLast with
          | false => rfl
          | true =>
            cases he1 : eoi with
            | false => rw [heoi he1] at hh; cases hh
            | true => exact absurd ⟨he1, hil hh⟩ hcl
        exact ⟨fun he1 hc => hcl ⟨he1, hc⟩, dispatch_end hops hcx1 hm1 hsm hdebt hl hbp hloc hK⟩
  | some nd =>
    simp only
    have hns : hasSeq sd = false := cx.ok.mem (by rw [hmem]; rfl)
    have hsm0 : sm = .none := by
      rcases hsm with h | ⟨_, h⟩
      · exact h
      · rw [hns] at h; cases h
    subst hsm0
    have hsk : SkipOk nd inpW mw0.c.nextPos skip := by
      rcases Nat.eq_zero_or_pos skip with h | h
      · subst h; exact ⟨[], inpW.drop mw0.c.nextPos, rfl, rfl, rfl⟩
      · obtain ⟨nd', h1, h2⟩ := hskip h
        rw [hmem] at h1; cases h1; exact h2
    have hmr := memchr_rel F nd hsk (by omega : mw0.c.nextPos + skip = ms0.c.nextPos + δ)
    cases hf : findByte nd (inpS.drop ms0.c.nextPos) with
    | some p =>
      rw [hf] at hmr
      obtain ⟨hfw, hplt⟩ := hmr
      rw [hfw]
      simp only
      have hm1 := hrel.consume hsm' (1 + p) (1 + (p + skip)) (by omega) (by omega)
      rw [Ab.inStep] at hm1
      have hcx1 : StepCtx env.tbl fs st sd ({ ms0 with c := { ms0.c with nextPos := ms0.c.nextPos + (1 + p) } } : M κ).c :=
        ⟨cx.look, cx.ok, cx.wf, cx.st_eq, cx.ent⟩
      left
      rw [show ms0.c.nextPos + 1 + p = ms0.c.nextPos + (1 + p) by omega,
        show mw0.c.nextPos + 1 + (p + skip) = mw0.c.nextPos + (1 + (p + skip)) by omega]
      exact dispatch_tail_lock F hops hcx1 (some nd) (runSeqArms_noSeq inpS _ sd.arms _ hns)
        (runSeqArms_noSeq inpW _ sd.arms _ hns) hm1 rfl rfl rfl hK hloc hdebt
        (fun _ => by show ms0.c.nextPos + (1 + p) ≤ _; omega) (fun h => by cases h)
    | none =>
      rw [hf] at hmr
      obtain ⟨hclosed, hsk'⟩ := hmr
      simp only
      have hcx1 : StepCtx env.tbl fs st sd
          ({ ms0 with c := { ms0.c with nextPos := ms0.c.nextPos + (1 + (inpS.drop ms0.c.nextPos).length) } } : M κ).c :=
        ⟨cx.look, cx.ok, cx.wf, cx.st_eq, cx.ent⟩
      by_cases hcl' : eoi = true ∧ Closed inpS inpW δ
      · have hcl := hcl'.2
        obtain ⟨hfw, hlen⟩ := hclosed hcl
        rw [hfw]
        simp only
        have hm1 := hrel.consume hsm' (1 + (inpS.drop ms0.c.nextPos).length) (1 + (inpW.drop mw0.c.nextPos).length)
          (by omega) (by omega)
        rw [Ab.inStep] at hm1
        left
        rw [show ms0.c.nextPos + 1 + (inpS.drop ms0.c.nextPos).length = ms0.c.nextPos + (1 + (inpS.drop ms0.c.nextPos).length) by omega,
          show mw0.c.nextPos + 1 + (inpW.drop mw0.c.nextPos).length = mw0.c.nextPos + (1 + (inpW.drop mw0.c.nextPos).length) by omega]
        exact dispatch_tail_lock F hops hcx1 none (runSeqArms_noSeq inpS _ sd.arms _ hns)
          (runSeqArms_noSeq inpW _ sd.arms _ hns) hm1 rfl rfl rfl hK hloc hdebt (fun h => by cases h) (fun _ => ⟨hcl, hcl'.1⟩)
      · right
        have hl : ms0.c.isLast = false := by
          cases hh : ms0.c.isLast with
          | false => rfl
          | true =>
            cases he1 : eoi with
            | false => rw [heoi he1] at hh; cases hh
            | true => exact absurd ⟨he1, hil hh⟩ hcl'
        have hm1 := hrel.consume hsm' (1 + (inpS.drop ms0.c.nextPos).length)
          (1 + (inpS.drop ms0.c.nextPos).length + skip) (by omega) (by omega)
        rw [Ab.inStep] at hm1
        have hbp := brkParams_mk (inpW := inpW) (sd := sd) hrel (Or.inl rfl) (ms0.c.nextPos + (1 + (inpS.drop ms0.c.nextPos).length))
          (mw0.c.nextPos + (1 + (inpS.drop ms0.c.nextPos).length + skip)) (by omega)
          (fun _ => ⟨nd, hmem, by
            rw [show ms0.c.nextPos + (1 + (inpS.drop ms0.c.nextPos).length) - 1 + δ - mw0.c.nextPos
              = skip + (inpS.drop ms0.c.nextPos).length by omega]
            exact hsk'⟩)
        rw [show ms0.c.nextPos + 1 + (inpS.drop ms0.c.nextPos).length = ms0.c.nextPos + (1 + (inpS.drop ms0.c.nextPos).length) by omega]
        exact ⟨fun he1 hc => hcl' ⟨he1, hc⟩, dispatch_end hops hcx1 hm1 (Or.inl rfl) hdebt hl hbp hloc hK⟩

end

section
variable {env : Env κ} {inpS inpW : Bytes} {δ : Nat} {K : Nat → κ → κ → Prop} {Loc : κ → Nat → Nat → TextType → Prop}

/-- **The step lemma.** One state-function invocation from related machines: either both runs make the
same step, or — only if the split input ends before the whole input — the split run breaks and its
re-based machine is related, in the frame `δ + consumed`, to the whole machine `mw0` that has at most
run its enter actions (`stateFn mw0 = stateFn mw`). -/
/- `eoi = true`: a common break of the two runs is reported as `LockOut` (used when the two inputs end
together and nothing follows); `eoi = false` (only when not last): every break of the split run is reported
as `BreakOut`, the whole run staying before the breaking step. -/
theorem stateFn_sim (F : Frame inpS inpW δ) (hops : OpsSim env.ops inpS inpW δ K Loc) {fs : FlagMap}
    (hwf : WfChunkWith env.tbl fs = true) {d skip : Nat} (eoi : Bool) {ms mw : M κ}
    (hb : BRel env.tbl fs inpW δ d skip ms mw) (hK : K d ms.x.sink mw.x.sink)
    (hloc : 0 < d → Loc ms.x.sink ms.x.prevConsumed (lexStart ms.r) ms.c.lastTextType)
    (hil : ms.c.isLast = true → Closed inpS inpW δ) (heoi : eoi = false → ms.c.isLast = false) :
    LockOut env.tbl fs inpW δ K Loc eoi (stateFn env inpS ms) (stateFn env inpW mw) ∨
    ((eoi = true → ¬ Closed inpS inpW δ) ∧ ∃ (x0 : Ctx κ) (mw0 : M κ),
      stateFn env inpW mw0 = stateFn env inpW mw ∧ K d x0.sink mw0.x.sink ∧ mw0.x.sim = x0.sim ∧
      x0.prevConsumed = mw0.x.prevConsumed + δ ∧
      BreakOut env.tbl fs env.ops Loc inpS inpW δ d x0 mw0 (stateFn env inpS ms)) := by
  obtain ⟨⟨sm, hbr, hside⟩, hpc⟩ := hb
  have hrel0 : MRel δ d skip (flagsOf env.tbl fs ms.c) sm ms mw := hbr.toMRel hpc
  rw [stateFn_eq env inpS ms, stateFn_eq env inpW mw, hrel0.c.state]
  cases hlook : env.tbl.state? ms.c.state with
  | none => exact Or.inl (Or.inl trivial)
  | some sd =>
    simp only
    obtain ⟨hs1, hs2, hs3⟩ := hside sd hlook
    have hfl : flagsOf env.tbl fs ms.c = flagsAt fs sd ms.c.state ms.c.entered := by
      unfold flagsOf; rw [hlook]
    rw [hfl] at hrel0
    rcases pre_sim F hops hlook hwf rfl hrel0 hK hs1 hs2 (fun h => (hs3 h).choose_spec.2.1) with hp | ⟨sg, sg', h1, h2, h3, h4⟩ | ⟨h1, h2, hrel, hK', cx, hnp, hlast, hnpw, hidem, hsame⟩
    · left; left
      revert hp
      cases (preOf env inpS sd ms).2 with
      | none => intro hp; exact hp.elim
      | some sg => intro hp; exact hp
    · left
      rw [h1, h2]
      simp only
      exact lockOut_of_sig h3 h4
    · rw [h1, h2]
      simp only
      have hsm' : sm = .none ∨ (sm = .stale ∧ hasSeq sd = true) := by
        rcases hs1 with h | ⟨h, h', _⟩
        · exact Or.inl h
        · exact Or.inr ⟨h, h'⟩
      have hskip' : 0 < skip → ∃ nd, sd.memchr = some nd ∧ SkipOk nd inpW (preOf env inpW sd mw).1.c.nextPos skip := by
        intro h
        obtain ⟨nd, a, _, b⟩ := hs3 h
        exact ⟨nd, a, by rw [hnpw]; exact b⟩
      rcases consume_sim F hops cx hrel hK' (fun hh => by rw [hsame hh]; exact hloc hh) hsm' hs2 hskip' (by rw [hlast]; exact hil) (by rw [hlast]; exact heoi) with hl | ⟨hncl, hbo⟩
      · exact Or.inl hl
      · refine Or.inr ⟨hncl, (preOf env inpS sd ms).1.x, (preOf env inpW sd mw).1, ?_, hK', hrel.sim, hrel.pc, hbo⟩
        rw [stateFn_eq env inpW (preOf env inpW sd mw).1]
        have hstw : (preOf env inpW sd mw).1.c.state = ms.c.state := by
          rw [hrel.c.state, cx.st_eq]
        rw [hstw, hlook]
        simp only [hidem]

end

end LolHtml.Model.Chunk
