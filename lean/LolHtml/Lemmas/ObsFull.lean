import LolHtml.Model.FullCtl
import LolHtml.Lemmas.ObsHandover
/-!
The real controller model (`fullCtl`, Model/FullCtl.lean) satisfies the emission discipline the
scanner ⇄ lexer independence needs (`EmitDiscipline`, Lemmas/ObsHandover.lean):
`should_emit_content()` = "no element content is being removed" (`removed_content == 0`) is not changed by
`handle_start_tag` / the aux-info continuation (`start_matching` never touches the counter) and can only go
from false to true in `handle_end_tag` (`stop_matching` only decrements it).
-/
set_option linter.unusedSimpArgs false
set_option linter.unusedVariables false

namespace LolHtml.Model.Full
open LolHtml LolHtml.Model LolHtml.Model.Handlers LolHtml.EditModel LolHtml.Lemmas.Full

theorem startMatchingInfos_removed {d d' : Dispatcher} (ms : List SelVM.MatchInfo) (h : startMatchingInfos d ms = .ok d') :
    d'.removedContent = d.removedContent := by
  induction ms generalizing d with
  | nil => simp only [startMatchingInfos, Except.ok.injEq] at h; subst h; rfl
  | cons m ms ih =>
    simp only [startMatchingInfos] at h
    split at h
    · cases h
    · rename_i d1 h1
      rw [ih h, startMatching_removed h1]

theorem afterVm_emit (s : St) (n : Nat) (vm' : SelVM.Vm) (infos : List SelVM.MatchInfo) :
    shouldEmit (s.afterVm n vm' infos).1 = shouldEmit s := by
  unfold St.afterVm
  split
  · rfl
  · rename_i d hd
    simp only [shouldEmit]
    rw [startMatchingInfos_removed infos hd]

theorem startTag_emit (s : St) (name : LocalName) (ns : Model.Ns) : shouldEmit (startTag s name ns).1 = shouldEmit s := by
  unfold startTag
  split
  · rfl
  · unfold startTagCore
    dsimp only
    split
    · rfl
    · rename_i vm _
      split
      · rfl
      · rename_i vm' infos _
        have := afterVm_emit ({ s with ord := s.ord + 1 } : St) vm.stack.items.length vm' infos
        split <;> exact this
      · rfl

theorem auxInfo_emit (s : St) (info : AuxInfo) : shouldEmit (auxInfo s info).1 = shouldEmit s := by
  unfold auxInfo
  split
  · split
    · rfl
    · split
      · rfl
      · exact afterVm_emit _ _ _ _
  · rfl

theorem stopMatchingPopped_zero {d d' : Dispatcher} (its : List SelVM.StackItem) (des : List Desc)
    (hz : d.removedContent = 0) (h : stopMatchingPopped d its des = .ok d') : d'.removedContent = 0 := by
  induction its generalizing d des with
  | nil => simp only [stopMatchingPopped, Except.ok.injEq] at h; subst h; exact hz
  | cons it its ih =>
    cases des with
    | nil => simp only [stopMatchingPopped, Except.ok.injEq] at h; subst h; exact hz
    | cons de des =>
      simp only [stopMatchingPopped] at h
      split at h
      · cases h
      · rename_i d1 h1
        exact ih des (stopMatching_removed0 h1 hz) h

theorem endTag_emit (s : St) (name : LocalName) (h : shouldEmit s = true) : shouldEmit (endTag s name).1 = true := by
  have hz : s.disp.removedContent = 0 := by
    simp only [shouldEmit, Bool.not_eq_true', decide_eq_false_iff_not] at h
    omega
  unfold endTag
  split
  · exact h
  · split
    · exact h
    · split
      · dsimp only
        split
        · exact h
        · rename_i d hd
          simp only [shouldEmit]
          rw [stopMatchingPopped_zero _ _ hz hd]
          rfl
      · exact h

/-- **the real controller satisfies the emission discipline** -/
theorem fullCtl_emitDiscipline (cfg : Cfg) : EmitDiscipline (fullCtl cfg) where
  start := fun g n ns => startTag_emit g.1 n ns
  aux := fun g i => auxInfo_emit g.1 i
  end_ := fun g n h => endTag_emit g.1 n h

/-! ### an end-tag token nobody asked for is passed through -/

theorem sum_zero_all {l : List Nat} (h : l.sum = 0) : ∀ x ∈ l, x = 0 := by
  induction l with
  | nil => intro x hx; cases hx
  | cons a as ih =>
    simp only [List.sum_cons] at h
    intro x hx
    simp only [List.mem_cons] at hx
    rcases hx with rfl | hx
    · omega
    · exact ih (by omega) x hx

theorem findIdx_none_of_all {α : Type} {p : α → Bool} {l : List α} (h : ∀ x ∈ l, p x = false) : l.findIdx? p = none := by
  induction l with
  | nil => rfl
  | cons a as ih =>
    simp only [List.findIdx?_cons, h a (by simp)]
    simp [ih (fun x hx => h x (by simp [hx]))]

/-- with no active end-tag handler (and no pending fault) the real controller's `handle_token` on an
end-tag token changes nothing and serialises the token unchanged -/
theorem token_endTag_passthrough (cfg : Cfg) (s : St) (hw : DispWf s.disp) (hf : s.fault = none)
    (hna : s.disp.endTag.hasActive = false) (name raw : Bytes) (src : Range) :
    token cfg s (.endTag name raw src) = (s, { chunks := [raw] }) := by
  have huc : s.disp.endTag.userCount = 0 := by
    simp only [HandlerVec.hasActive, decide_eq_false_iff_not] at hna
    omega
  have hall : ∀ it ∈ s.disp.endTag.items, decide (0 < it.userCount) = false := by
    intro it hit
    have hsum : (s.disp.endTag.items.map (·.userCount)).sum = 0 := by
      have := hw.endTag
      unfold LolHtml.Lemmas.Full.VecWf at this
      rw [← this]; exact huc
    have := sum_zero_all hsum it.userCount (List.mem_map_of_mem hit)
    simp [this]
  unfold token
  rw [hf]
  dsimp only
  unfold tokEndTag
  unfold HandlerVec.doForEachActiveAndRemoveTail
  rw [findIdx_none_of_all hall]
  dsimp only
  rw [if_pos huc]
  dsimp only
  simp only [runEndTagHandlers]
  have hp : (s.payloads.filter fun p => !([] : List EndTagH).any fun h => h.ord == p.ord) = s.payloads := by
    simp
  cases s
  simp only at hp ⊢
  rw [hp]
  simp [EndTag.intoBytes, Mutations.serialize, EndTag.serializeSelf]

end LolHtml.Model.Full
