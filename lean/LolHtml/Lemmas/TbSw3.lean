import LolHtml.Lemmas.TbSw2
/-!
`SwPost` for the table modes and the remaining modes; all modes together (`stepMode_sw`).
-/
namespace LolHtml.Spec.TreeBuilder
open LolHtml.Model (Ns)

variable {c : Cfg} {s : State}

set_option maxHeartbeats 8000000 in
theorem inTable_sw (h1 : s.mode ≠ .text) (htm : s.tmodes = []) (t : Token) : SwPost c t s (inTable c s t) := by
  sw_cases t [inTable, inTableAnythingElse]
    (first | exact inHead_sw h1 htm _ (Or.inr (by rfl)) | exact inBody_sw h1 htm _)

theorem inTableText_sw (hm : s.mode = .inTableText)
    (ho : s.origMode = .inTable ∨ s.origMode = .inTableBody ∨ s.origMode = .inRow) (t : Token) :
    SwPost c t s (inTableText c s t) := by
  have key : SwPost c t s (Res.again { flushPending s with mode := (flushPending s).origMode }) := by
    have e2 := (flushPending_mode s).2
    refine ⟨?_, ?_, ?_⟩
    · intro hns hs
      have := hns hs
      show (flushPending s).origMode ≠ .inHeadNoscript ∧ (flushPending s).origMode ≠ .inHeadNoscript
      rw [e2]; exact ⟨this.2, this.2⟩
    · show (flushPending s).origMode ≠ .text
      rw [e2]; rcases ho with h | h | h <;> simp [h]
    · cases t <;> simp only
      intro _
      show rank (flushPending s).origMode < rank s.mode
      rw [e2, hm]; rcases ho with h | h | h <;> simp [h, rank]
  cases t with
  | char cc => cases cc <;> simp [inTableText, SwPost, NsOk, Res.ignore, Res.ok, hm, Switch.isRaw] <;> exact key
  | start n sc a => exact key
  | «end» n => exact key
  | comment => exact key
  | doctype d => exact key
  | eof => exact key

set_option maxHeartbeats 8000000 in
theorem inCaption_sw (hm : s.mode = .inCaption) (htm : s.tmodes = []) (t : Token) : SwPost c t s (inCaption c s t) := by
  have h1 : s.mode ≠ .text := by simp [hm]
  sw_cases t [inCaption] (first | exact inBody_sw h1 htm _)

set_option maxHeartbeats 8000000 in
theorem inTableBody_sw (hm : s.mode = .inTableBody) (htm : s.tmodes = []) (t : Token) : SwPost c t s (inTableBody c s t) := by
  have h1 : s.mode ≠ .text := by simp [hm]
  sw_cases t [inTableBody] (first | exact inTable_sw h1 htm _)

set_option maxHeartbeats 8000000 in
theorem inRow_sw (hm : s.mode = .inRow) (htm : s.tmodes = []) (t : Token) : SwPost c t s (inRow c s t) := by
  have h1 : s.mode ≠ .text := by simp [hm]
  sw_cases t [inRow] (first | exact inTable_sw h1 htm _)

set_option maxHeartbeats 8000000 in
theorem inCell_sw (hm : s.mode = .inCell) (htm : s.tmodes = []) (t : Token) : SwPost c t s (inCell c s t) := by
  have h1 : s.mode ≠ .text := by simp [hm]
  sw_cases t [inCell, State.closeCell] (first | exact inBody_sw h1 htm _)

end LolHtml.Spec.TreeBuilder
