/-
Lemmas.SelCompile — the layout relation between a trie and an instruction list, the theorem that on
such a program an instruction is activated exactly when the trie path to its node matches, and the
proof that `compile` produces that layout.
-/
import LolHtml.Lemmas.SelRefine

set_option linter.unusedSimpArgs false
namespace LolHtml.SelVM
open LolHtml LolHtml.Sel LolHtml.Spec.Css

/-! ## the layout `compile` produces, as a relation between the trie and the instruction list -/

mutual
/-- node `n` is compiled at address `addr`: its instruction is there and its children / descendants
    lists are compiled as the blocks the instruction's `jumps` / `hereditary_jumps` name -/
def NodeCompiled (instrs : List Instruction) : AstNode → Nat → Prop
  | .mk p ch de ids, addr =>
    ∃ j h, instrs[addr]? = some (compilePredicate p ⟨ids, j, h⟩) ∧
      ((ch = [] ∧ j = none) ∨ (ch ≠ [] ∧ ∃ s, j = some ⟨s, s + ch.length⟩ ∧ ListCompiled instrs ch s)) ∧
      ((de = [] ∧ h = none) ∨ (de ≠ [] ∧ ∃ s, h = some ⟨s, s + de.length⟩ ∧ ListCompiled instrs de s))
/-- sibling nodes are compiled at consecutive addresses from `start` -/
def ListCompiled (instrs : List Instruction) : List AstNode → Nat → Prop
  | [], _ => True
  | n :: rest, start => NodeCompiled instrs n start ∧ ListCompiled instrs rest (start + 1)
end

theorem ListCompiled.get {instrs : List Instruction} : ∀ {nodes : List AstNode} {start : Nat},
    ListCompiled instrs nodes start → ∀ (k : Nat) (n : AstNode), nodes[k]? = some n → NodeCompiled instrs n (start + k) := by
  intro nodes
  induction nodes with
  | nil => intro start _ k n h; simp at h
  | cons m rest ih =>
    intro start hl k n h
    unfold ListCompiled at hl
    cases k with
    | zero => simp at h; subst h; exact hl.1
    | succ k =>
      simp at h
      have := ih hl.2 k n h
      have e : start + 1 + k = start + (k + 1) := by omega
      rw [e] at this; exact this

theorem mem_addrs (r : AddressRange) (a : Nat) : a ∈ r.addrs ↔ r.start ≤ a ∧ a < r.stop := by
  simp only [AddressRange.addrs, AddressRange.addrsFrom, List.mem_range'_1, Nat.add_zero]
  omega

/-- predicate-level right-to-left matching (the shape of `Spec.Css.matchesRev`) -/
def predMatchesRev : List (Comb × Predicate) → Predicate → Elem → List Elem → Bool
  | [], p, e, _ => predB p e
  | (k, p') :: rest, p, e, anc =>
    predB p e &&
      match k with
      | .child =>
        match anc with
        | [] => false
        | q :: anc' => predMatchesRev rest p' q anc'
      | .descendant => anyAncestor (predMatchesRev rest p') anc

/-- trie node `n` sits at address `a` and is reached by the (reversed) path `σ` -/
inductive At (instrs : List Instruction) (root : List AstNode) (entryStart : Nat) :
    List (Comb × Predicate) → AstNode → Nat → Prop
  | root (k : Nat) (n : AstNode) : root[k]? = some n → At instrs root entryStart [] n (entryStart + k)
  | child (σ m am i r k n) : At instrs root entryStart σ m am → instrs[am]? = some i →
      i.associatedBranch.jumps = some r → m.children[k]? = some n →
      At instrs root entryStart ((.child, m.predicate) :: σ) n (r.start + k)
  | desc (σ m am i r k n) : At instrs root entryStart σ m am → instrs[am]? = some i →
      i.associatedBranch.hereditaryJumps = some r → m.descendants[k]? = some n →
      At instrs root entryStart ((.descendant, m.predicate) :: σ) n (r.start + k)

theorem NodeCompiled.instr {instrs : List Instruction} {n : AstNode} {a : Nat} (h : NodeCompiled instrs n a) :
    ∃ j hj, instrs[a]? = some (compilePredicate n.predicate ⟨n.matchIds, j, hj⟩) := by
  cases n with
  | mk p ch de ids =>
    unfold NodeCompiled at h
    obtain ⟨j, hj, hi, _, _⟩ := h
    exact ⟨j, hj, hi⟩

theorem NodeCompiled.children {instrs : List Instruction} {n : AstNode} {a : Nat} (h : NodeCompiled instrs n a)
    {i : Instruction} (hi : instrs[a]? = some i) :
    (n.children = [] ∧ i.associatedBranch.jumps = none) ∨
      (n.children ≠ [] ∧ ∃ s, i.associatedBranch.jumps = some ⟨s, s + n.children.length⟩ ∧
        ListCompiled instrs n.children s) := by
  cases n with
  | mk p ch de ids =>
    unfold NodeCompiled at h
    obtain ⟨j, hj, hi', hc, _⟩ := h
    rw [hi] at hi'; cases hi'
    simpa [AstNode.children, compilePredicate] using hc

theorem NodeCompiled.descendants {instrs : List Instruction} {n : AstNode} {a : Nat} (h : NodeCompiled instrs n a)
    {i : Instruction} (hi : instrs[a]? = some i) :
    (n.descendants = [] ∧ i.associatedBranch.hereditaryJumps = none) ∨
      (n.descendants ≠ [] ∧ ∃ s, i.associatedBranch.hereditaryJumps = some ⟨s, s + n.descendants.length⟩ ∧
        ListCompiled instrs n.descendants s) := by
  cases n with
  | mk p ch de ids =>
    unfold NodeCompiled at h
    obtain ⟨j, hj, hi', _, hd⟩ := h
    rw [hi] at hi'; cases hi'
    simpa [AstNode.descendants, compilePredicate] using hd

/-- every node reached through the program is compiled where it is reached -/
theorem At.compiled {instrs : List Instruction} {root : List AstNode} {es : Nat}
    (hroot : ListCompiled instrs root es) : ∀ {σ n a}, At instrs root es σ n a → NodeCompiled instrs n a := by
  intro σ n a h
  induction h with
  | root k n hk => exact hroot.get k n hk
  | child σ m am i r k n _ hi hj hk ih =>
    rcases ih.children hi with ⟨_, hnone⟩ | ⟨_, s, hs, hl⟩
    · rw [hnone] at hj; cases hj
    · rw [hs] at hj; cases hj
      exact hl.get k n hk
  | desc σ m am i r k n _ hi hj hk ih =>
    rcases ih.descendants hi with ⟨_, hnone⟩ | ⟨_, s, hs, hl⟩
    · rw [hnone] at hj; cases hj
    · rw [hs] at hj; cases hj
      exact hl.get k n hk

theorem allTagExprs_eq (nth : Bool) (e : Elem) : ∀ (xs : List (Expr OnTagNameExpr)),
    (nth = true ∨ ¬ xs.any exprIsNthOfType = true) →
    allTagExprs (stateOf nth e) e.tag.name xs = .ok (xs.all (tagExprB e)) := by
  intro xs
  induction xs with
  | nil => intro _; rfl
  | cons x xs ih =>
    intro h
    have hx : evalTagExpr (stateOf nth e) e.tag.name x = .ok (tagExprB e x) := by
      obtain ⟨se, neg⟩ := x
      cases se with
      | nthOfType a b =>
        have hn : nth = true := by
          rcases h with h | h
          · exact h
          · simp [exprIsNthOfType] at h
        subst hn
        cases neg <;> simp [evalTagExpr, tagExprB, stateOf, pure, Except.pure, Except.map]
      | _ => cases neg <;> simp [evalTagExpr, tagExprB, stateOf, pure, Except.pure, Except.map]
    have hrest : nth = true ∨ ¬ xs.any exprIsNthOfType = true := by
      rcases h with h | h
      · exact Or.inl h
      · right; intro hc; apply h; simp [List.any_cons, hc]
    simp only [allTagExprs, hx, bind, Except.bind, List.all_cons]
    cases tagExprB e x with
    | true => simpa using ih hrest
    | false => simp [pure, Except.pure]

theorem exec_eq_predB (nth : Bool) (e : Elem) (i : Instruction)
    (h : nth = true ∨ ¬ i.localNameExprs.any exprIsNthOfType = true) :
    i.exec (stateOf nth e) e.tag.name (matcherOf e) =
      .ok (if predB ⟨i.localNameExprs, i.attributeExprs⟩ e then some i.associatedBranch else none) := by
  unfold Instruction.exec
  rw [allTagExprs_eq nth e _ h]
  simp only [bind, Except.bind, predB, allAttrExprs, pure, Except.pure]
  by_cases h1 : i.localNameExprs.all (tagExprB e) = true
  · simp [h1]
  · simp [h1]

theorem holdsElem_iff (prog : Program) (nth : Bool)
    (hnth : ∀ i ∈ prog.instructions, nth = true ∨ ¬ i.localNameExprs.any exprIsNthOfType = true)
    (e : Elem) (a : Nat) (b : ExecutionBranch) :
    holdsElem prog nth e a b ↔
      ∃ i, prog.instructions[a]? = some i ∧ i.associatedBranch = b ∧
        predB ⟨i.localNameExprs, i.attributeExprs⟩ e = true := by
  unfold holdsElem
  constructor
  · rintro ⟨i, hi, he⟩
    rw [exec_eq_predB nth e i (hnth i (List.mem_of_getElem? hi))] at he
    split at he
    · rename_i hp; simp at he; exact ⟨i, hi, he, hp⟩
    · simp at he
  · rintro ⟨i, hi, hb, hp⟩
    refine ⟨i, hi, ?_⟩
    rw [exec_eq_predB nth e i (hnth i (List.mem_of_getElem? hi)), hp, hb]; rfl

theorem mem_ancActs (prog : Program) (nth : Bool) : ∀ (anc : List Elem) (S : ActSet),
    S ∈ ancActs prog nth anc ↔ ∃ pre q rest, anc = pre ++ q :: rest ∧ S = Act prog nth q rest := by
  intro anc
  induction anc with
  | nil => intro S; simp [ancActs]
  | cons p anc ih =>
    intro S
    simp only [ancActs, List.mem_cons, ih]
    constructor
    · rintro (h | ⟨pre, q, rest, h1, h2⟩)
      · exact ⟨[], p, anc, rfl, h⟩
      · exact ⟨p :: pre, q, rest, by simp [h1], h2⟩
    · rintro ⟨pre, q, rest, h1, h2⟩
      cases pre with
      | nil => simp at h1; obtain ⟨rfl, rfl⟩ := h1; exact Or.inl h2
      | cons x pre => simp at h1; obtain ⟨rfl, rfl⟩ := h1; exact Or.inr ⟨pre, q, rest, rfl, h2⟩

theorem anyAncestor_iff (f : Elem → List Elem → Bool) : ∀ (anc : List Elem),
    anyAncestor f anc = true ↔ ∃ pre q rest, anc = pre ++ q :: rest ∧ f q rest = true := by
  intro anc
  induction anc with
  | nil => simp [anyAncestor]
  | cons p anc ih =>
    simp only [anyAncestor, Bool.or_eq_true, ih]
    constructor
    · rintro (h | ⟨pre, q, rest, h1, h2⟩)
      · exact ⟨[], p, anc, rfl, h⟩
      · exact ⟨p :: pre, q, rest, by simp [h1], h2⟩
    · rintro ⟨pre, q, rest, h1, h2⟩
      cases pre with
      | nil => simp at h1; obtain ⟨rfl, rfl⟩ := h1; exact Or.inl h2
      | cons x pre => simp at h1; obtain ⟨rfl, rfl⟩ := h1; exact Or.inr ⟨pre, q, rest, rfl, h2⟩

section ActIff
variable (prog : Program) (nth : Bool) (root : List AstNode)
  (hroot : ListCompiled prog.instructions root prog.entryPoints.start)
  (hentry : prog.entryPoints.stop = prog.entryPoints.start + root.length)
  (hnth : ∀ i ∈ prog.instructions, nth = true ∨ ¬ i.localNameExprs.any exprIsNthOfType = true)
include hroot hentry hnth

/-- the target of `act_iff` -/
def ActSpec (e : Elem) (anc : List Elem) (a : Nat) (b : ExecutionBranch) : Prop :=
  ∃ σ n, At prog.instructions root prog.entryPoints.start σ n a ∧
    predMatchesRev σ n.predicate e anc = true ∧
    ∃ i, prog.instructions[a]? = some i ∧ i.associatedBranch = b

omit hentry hnth in
theorem predB_of_compiled {n : AstNode} {a : Nat} {i : Instruction} {σ}
    (hat : At prog.instructions root prog.entryPoints.start σ n a) (hi : prog.instructions[a]? = some i) :
    (⟨i.localNameExprs, i.attributeExprs⟩ : Predicate) = n.predicate := by
  obtain ⟨j, hj, hi'⟩ := (hat.compiled hroot).instr
  rw [hi] at hi'; cases hi'
  rfl

theorem act_imp : ∀ (len : Nat) (anc : List Elem), anc.length = len → ∀ e a b,
    Act prog nth e anc a b → ActSpec prog root e anc a b := by
  intro len
  induction len using Nat.strongRecOn with
  | _ len ih =>
    intro anc hlen e a b hact
    obtain ⟨hh, hvia⟩ := hact
    obtain ⟨i, hi, hb, hp⟩ := (holdsElem_iff prog nth hnth e a b).mp hh
    rcases hvia with hentry' | ⟨S, hS, a', b', r, hS', hj, ha⟩ | ⟨S, hS, a', b', r, hS', hj, ha⟩
    · -- entry point
      rw [mem_addrs, hentry] at hentry'
      obtain ⟨k, hk⟩ : ∃ k, a = prog.entryPoints.start + k := ⟨a - prog.entryPoints.start, by omega⟩
      have hklt : k < root.length := by omega
      have hn : root[k]? = some root[k] := List.getElem?_eq_getElem hklt
      have hat : At prog.instructions root prog.entryPoints.start [] root[k] a := by
        rw [hk]; exact At.root k _ hn
      refine ⟨[], root[k], hat, ?_, i, hi, hb⟩
      rw [← predB_of_compiled prog root hroot hat hi]
      simpa [predMatchesRev] using hp
    · -- jumps of an instruction activated at the parent
      cases anc with
      | nil => simp [ancActs] at hS
      | cons q anc' =>
        simp only [ancActs, List.head?_cons, Option.some.injEq] at hS
        subst hS
        have hlen' : anc'.length < len := by simp at hlen; omega
        obtain ⟨σ', m, hatm, hpm, i', hi', hb'⟩ := ih anc'.length hlen' anc' rfl q a' b' hS'
        have hcm := hatm.compiled hroot
        rw [← hb'] at hj
        rcases hcm.children hi' with ⟨_, hnone⟩ | ⟨_, s, hs, hl⟩
        · rw [hnone] at hj; cases hj
        · rw [hs] at hj; cases hj
          rw [mem_addrs] at ha
          simp only at ha
          obtain ⟨k, hk⟩ : ∃ k, a = s + k := ⟨a - s, by omega⟩
          have hklt : k < m.children.length := by omega
          have hn : m.children[k]? = some m.children[k] := List.getElem?_eq_getElem hklt
          have hat : At prog.instructions root prog.entryPoints.start ((.child, m.predicate) :: σ')
              m.children[k] a := by
            rw [hk]; exact At.child σ' m a' i' ⟨s, s + m.children.length⟩ k _ hatm hi' hs hn
          refine ⟨_, _, hat, ?_, i, hi, hb⟩
          rw [← predB_of_compiled prog root hroot hat hi]
          simp [predMatchesRev, hp, hpm]
    · -- hereditary jumps of an instruction activated at some ancestor
      obtain ⟨pre, q, rest, hsplit, hSeq⟩ := (mem_ancActs prog nth anc S).mp hS
      subst hSeq
      have hlen' : rest.length < len := by rw [← hlen, hsplit]; simp; omega
      obtain ⟨σ', m, hatm, hpm, i', hi', hb'⟩ := ih rest.length hlen' rest rfl q a' b' hS'
      have hcm := hatm.compiled hroot
      rw [← hb'] at hj
      rcases hcm.descendants hi' with ⟨_, hnone⟩ | ⟨_, s, hs, hl⟩
      · rw [hnone] at hj; cases hj
      · rw [hs] at hj; cases hj
        rw [mem_addrs] at ha
        simp only at ha
        obtain ⟨k, hk⟩ : ∃ k, a = s + k := ⟨a - s, by omega⟩
        have hklt : k < m.descendants.length := by omega
        have hn : m.descendants[k]? = some m.descendants[k] := List.getElem?_eq_getElem hklt
        have hat : At prog.instructions root prog.entryPoints.start ((.descendant, m.predicate) :: σ')
            m.descendants[k] a := by
          rw [hk]; exact At.desc σ' m a' i' ⟨s, s + m.descendants.length⟩ k _ hatm hi' hs hn
        refine ⟨_, _, hat, ?_, i, hi, hb⟩
        rw [← predB_of_compiled prog root hroot hat hi]
        simp only [predMatchesRev, hp, Bool.true_and]
        exact (anyAncestor_iff _ anc).mpr ⟨pre, q, rest, hsplit, hpm⟩

theorem act_of_at : ∀ {σ n a}, At prog.instructions root prog.entryPoints.start σ n a →
    ∀ e anc i, prog.instructions[a]? = some i → predMatchesRev σ n.predicate e anc = true →
    Act prog nth e anc a i.associatedBranch := by
  intro σ n a hat
  induction hat with
  | root k n hk =>
    intro e anc i hi hp
    have hat : At prog.instructions root prog.entryPoints.start [] n (prog.entryPoints.start + k) := At.root k n hk
    refine ⟨(holdsElem_iff prog nth hnth e _ _).mpr ⟨i, hi, rfl, ?_⟩, Or.inl ?_⟩
    · rw [predB_of_compiled prog root hroot hat hi]; simpa [predMatchesRev] using hp
    · rw [mem_addrs, hentry]
      have := (List.getElem?_eq_some_iff.mp hk).1
      omega
  | child σ m am im r k n hatm him hj hk ih =>
    intro e anc i hi hp
    have hat := At.child σ m am im r k n hatm him hj hk
    simp only [predMatchesRev, Bool.and_eq_true] at hp
    obtain ⟨hp1, hp2⟩ := hp
    cases anc with
    | nil => simp at hp2
    | cons q anc' =>
      simp only at hp2
      have hactm := ih q anc' im him hp2
      refine ⟨(holdsElem_iff prog nth hnth e _ _).mpr ⟨i, hi, rfl, ?_⟩, Or.inr (Or.inl ?_)⟩
      · rw [predB_of_compiled prog root hroot hat hi]; exact hp1
      · refine ⟨Act prog nth q anc', rfl, am, im.associatedBranch, r, hactm, hj, ?_⟩
        have hcm := hatm.compiled hroot
        rcases hcm.children him with ⟨_, hnone⟩ | ⟨_, s, hs, _⟩
        · rw [hnone] at hj; cases hj
        · rw [hs] at hj; cases hj
          rw [mem_addrs]
          have := (List.getElem?_eq_some_iff.mp hk).1
          simp only; omega
  | desc σ m am im r k n hatm him hj hk ih =>
    intro e anc i hi hp
    have hat := At.desc σ m am im r k n hatm him hj hk
    simp only [predMatchesRev, Bool.and_eq_true] at hp
    obtain ⟨hp1, hp2⟩ := hp
    obtain ⟨pre, q, rest, hsplit, hq⟩ := (anyAncestor_iff _ anc).mp hp2
    have hactm := ih q rest im him hq
    refine ⟨(holdsElem_iff prog nth hnth e _ _).mpr ⟨i, hi, rfl, ?_⟩, Or.inr (Or.inr ?_)⟩
    · rw [predB_of_compiled prog root hroot hat hi]; exact hp1
    · refine ⟨_, (mem_ancActs prog nth anc _).mpr ⟨pre, q, rest, hsplit, rfl⟩, am, im.associatedBranch, r,
        hactm, hj, ?_⟩
      have hcm := hatm.compiled hroot
      rcases hcm.descendants him with ⟨_, hnone⟩ | ⟨_, s, hs, _⟩
      · rw [hnone] at hj; cases hj
      · rw [hs] at hj; cases hj
        rw [mem_addrs]
        have := (List.getElem?_eq_some_iff.mp hk).1
        simp only; omega

/-- For a program laid out as the relation says, an instruction is activated at an element iff the
    trie path to its node matches the element right-to-left (predicate level). -/
theorem act_iff (e : Elem) (anc : List Elem) (a : Nat) (b : ExecutionBranch) :
    Act prog nth e anc a b ↔ ActSpec prog root e anc a b := by
  constructor
  · exact act_imp prog nth root hroot hentry hnth anc.length anc rfl e a b
  · rintro ⟨σ, n, hat, hp, i, hi, hb⟩
    rw [← hb]
    exact act_of_at prog nth root hroot hentry hnth hat e anc i hi hp
end ActIff

/-! ## `compile` produces the layout -/

mutual
/-- number of nodes strictly below `n` -/
def nodeSub : AstNode → Nat
  | .mk _ ch de _ => listSize ch + listSize de
/-- number of nodes in a list of sibling subtrees -/
def listSize : List AstNode → Nat
  | [] => 0
  | n :: rest => 1 + nodeSub n + listSize rest
end

def listSub : List AstNode → Nat
  | [] => 0
  | n :: rest => nodeSub n + listSub rest

theorem listSize_eq (nodes : List AstNode) : listSize nodes = nodes.length + listSub nodes := by
  induction nodes with
  | nil => simp [listSize, listSub]
  | cons n rest ih => simp [listSize, listSub, ih]; omega

/-- `compile_descendants` + `compile_nodes` for one block -/
def compileBlock (c : Compiler) (nodes : List AstNode) : Compiler × Option AddressRange :=
  if nodes.isEmpty then (c, none) else
    let r := c.reserve nodes.length
    (compileList r.1 nodes r.2.start, some r.2)

theorem compileNode_eq (c : Compiler) (p : Predicate) (ch de : List AstNode) (ids : List Nat) (pos : Nat) :
    compileNode c (.mk p ch de ids) pos =
      { (compileBlock (compileBlock c ch).1 de).1 with
        instructions := (compileBlock (compileBlock c ch).1 de).1.instructions.set pos
          (compilePredicate p ⟨ids, (compileBlock c ch).2, (compileBlock (compileBlock c ch).1 de).2⟩)
        enableNthOfType := (compileBlock (compileBlock c ch).1 de).1.enableNthOfType ||
          p.onTagNameExprs.any exprIsNthOfType } := by
  unfold compileNode compileBlock
  rfl

theorem compileList_cons (c : Compiler) (n : AstNode) (rest : List AstNode) (pos : Nat) :
    compileList c (n :: rest) pos = compileList (compileNode c n pos) rest (pos + 1) := by
  rw [compileList]

theorem compileList_nil (c : Compiler) (pos : Nat) : compileList c [] pos = c := by
  rw [compileList]

def NodeSpec (n : AstNode) : Prop :=
  ∀ (c : Compiler) (pos : Nat), pos < c.freeSpaceStart →
    c.freeSpaceStart + nodeSub n ≤ c.instructions.length →
    (compileNode c n pos).freeSpaceStart = c.freeSpaceStart + nodeSub n ∧
    (compileNode c n pos).instructions.length = c.instructions.length ∧
    (∀ x, x ≠ pos → ¬ (c.freeSpaceStart ≤ x ∧ x < c.freeSpaceStart + nodeSub n) →
      (compileNode c n pos).instructions[x]? = c.instructions[x]?) ∧
    (∀ instrs' : List Instruction,
      (∀ x, (x = pos ∨ (c.freeSpaceStart ≤ x ∧ x < c.freeSpaceStart + nodeSub n)) →
        instrs'[x]? = (compileNode c n pos).instructions[x]?) → NodeCompiled instrs' n pos)

def ListSpec (nodes : List AstNode) : Prop :=
  ∀ (c : Compiler) (pos : Nat), pos + nodes.length ≤ c.freeSpaceStart →
    c.freeSpaceStart + listSub nodes ≤ c.instructions.length →
    (compileList c nodes pos).freeSpaceStart = c.freeSpaceStart + listSub nodes ∧
    (compileList c nodes pos).instructions.length = c.instructions.length ∧
    (∀ x, ¬ (pos ≤ x ∧ x < pos + nodes.length) →
      ¬ (c.freeSpaceStart ≤ x ∧ x < c.freeSpaceStart + listSub nodes) →
      (compileList c nodes pos).instructions[x]? = c.instructions[x]?) ∧
    (∀ instrs' : List Instruction,
      (∀ x, ((pos ≤ x ∧ x < pos + nodes.length) ∨
          (c.freeSpaceStart ≤ x ∧ x < c.freeSpaceStart + listSub nodes)) →
        instrs'[x]? = (compileList c nodes pos).instructions[x]?) → ListCompiled instrs' nodes pos)

def BlockSpec (nodes : List AstNode) : Prop :=
  ∀ (c : Compiler), c.freeSpaceStart + listSize nodes ≤ c.instructions.length →
    (compileBlock c nodes).1.freeSpaceStart = c.freeSpaceStart + listSize nodes ∧
    (compileBlock c nodes).1.instructions.length = c.instructions.length ∧
    (∀ x, ¬ (c.freeSpaceStart ≤ x ∧ x < c.freeSpaceStart + listSize nodes) →
      (compileBlock c nodes).1.instructions[x]? = c.instructions[x]?) ∧
    (∀ instrs' : List Instruction,
      (∀ x, (c.freeSpaceStart ≤ x ∧ x < c.freeSpaceStart + listSize nodes) →
        instrs'[x]? = (compileBlock c nodes).1.instructions[x]?) →
      (nodes = [] ∧ (compileBlock c nodes).2 = none) ∨
      (nodes ≠ [] ∧ ∃ s, (compileBlock c nodes).2 = some ⟨s, s + nodes.length⟩ ∧ ListCompiled instrs' nodes s))

theorem listSpec_nil : ListSpec [] := by
  intro c pos _ _
  rw [compileList_nil]
  exact ⟨by simp [listSub], rfl, fun _ _ _ => rfl, fun _ _ => by unfold ListCompiled; trivial⟩

theorem listSpec_cons {n : AstNode} {rest : List AstNode} (hn : NodeSpec n) (hr : ListSpec rest) :
    ListSpec (n :: rest) := by
  intro c pos hpos hspace
  simp only [List.length_cons, listSub] at hpos hspace ⊢
  rw [compileList_cons]
  obtain ⟨f1, l1, fr1, cp1⟩ := hn c pos (by omega) (by omega)
  obtain ⟨f2, l2, fr2, cp2⟩ := hr (compileNode c n pos) (pos + 1) (by rw [f1]; omega) (by rw [f1, l1]; omega)
  refine ⟨by rw [f2, f1]; omega, by rw [l2, l1], ?_, ?_⟩
  · intro x hx1 hx2
    rw [fr2 x (by omega) (by rw [f1]; omega), fr1 x (by omega) (by omega)]
  · intro instrs' hag
    unfold ListCompiled
    constructor
    · apply cp1
      intro x hx
      rw [hag x (by omega)]
      exact fr2 x (by omega) (by rw [f1]; omega)
    · apply cp2
      intro x hx
      rw [f1] at hx
      exact hag x (by omega)

theorem blockSpec_of_list {nodes : List AstNode} (hl : ListSpec nodes) : BlockSpec nodes := by
  intro c hspace
  unfold compileBlock
  cases nodes with
  | nil =>
    have e : (if ([] : List AstNode).isEmpty = true then ((c, none) : Compiler × Option AddressRange) else
        ((compileList (c.reserve ([] : List AstNode).length).1 [] (c.reserve ([] : List AstNode).length).2.start,
          some (c.reserve ([] : List AstNode).length).2))) = (c, none) := rfl
    rw [e]
    exact ⟨by simp [listSize], rfl, fun _ _ => rfl, fun _ _ => Or.inl ⟨rfl, rfl⟩⟩
  | cons n rest =>
    rw [listSize_eq] at hspace ⊢
    simp only [List.isEmpty_cons, Bool.false_eq_true, if_false, Compiler.reserve]
    obtain ⟨f, l, fr, cp⟩ := hl { c with freeSpaceStart := c.freeSpaceStart + (n :: rest).length } c.freeSpaceStart
      (by simp) (by simp only; omega)
    simp only at f l fr cp
    refine ⟨by rw [f]; omega, l, ?_, ?_⟩
    · intro x hx
      exact fr x (by omega) (by omega)
    · intro instrs' hag
      right
      refine ⟨by simp, c.freeSpaceStart, rfl, ?_⟩
      apply cp
      intro x hx
      exact hag x (by omega)

theorem nodeSpec_of_blocks {p : Predicate} {ch de : List AstNode} {ids : List Nat}
    (hc : BlockSpec ch) (hd : BlockSpec de) : NodeSpec (.mk p ch de ids) := by
  intro c pos hpos hspace
  simp only [nodeSub] at hspace ⊢
  rw [compileNode_eq]
  obtain ⟨f1, l1, fr1, cp1⟩ := hc c (by omega)
  obtain ⟨f2, l2, fr2, cp2⟩ := hd (compileBlock c ch).1 (by rw [f1, l1]; omega)
  simp only
  have hposlt : pos < (compileBlock (compileBlock c ch).1 de).1.instructions.length := by
    rw [l2, l1]; omega
  refine ⟨by rw [f2, f1]; omega, by simp [l2, l1], ?_, ?_⟩
  · intro x hx1 hx2
    rw [List.getElem?_set_ne (by omega), fr2 x (by rw [f1]; omega), fr1 x (by omega)]
  · intro instrs' hag
    unfold NodeCompiled
    refine ⟨(compileBlock c ch).2, (compileBlock (compileBlock c ch).1 de).2, ?_, ?_, ?_⟩
    · rw [hag pos (Or.inl rfl)]
      simp [List.getElem?_set_self hposlt]
    · apply cp1
      intro x hx
      rw [hag x (by omega), List.getElem?_set_ne (by omega)]
      exact fr2 x (by rw [f1]; omega)
    · apply cp2
      intro x hx
      rw [f1] at hx
      rw [hag x (by omega), List.getElem?_set_ne (by omega)]

mutual
theorem nodeSpec : ∀ (n : AstNode), NodeSpec n
  | .mk _ ch de _ => nodeSpec_of_blocks (blockSpec_of_list (listSpec ch)) (blockSpec_of_list (listSpec de))
theorem listSpec : ∀ (nodes : List AstNode), ListSpec nodes
  | [] => listSpec_nil
  | n :: rest => listSpec_cons (nodeSpec n) (listSpec rest)
end

/-! ### the `enable_nth_of_type` flag covers every instruction -/

def NthOk (c : Compiler) : Prop :=
  ∀ i ∈ c.instructions, c.enableNthOfType = true ∨ ¬ i.localNameExprs.any exprIsNthOfType = true

def NodeNth (n : AstNode) : Prop :=
  ∀ (c : Compiler) (pos : Nat), NthOk c →
    NthOk (compileNode c n pos) ∧ (c.enableNthOfType = true → (compileNode c n pos).enableNthOfType = true)

def ListNth (nodes : List AstNode) : Prop :=
  ∀ (c : Compiler) (pos : Nat), NthOk c →
    NthOk (compileList c nodes pos) ∧ (c.enableNthOfType = true → (compileList c nodes pos).enableNthOfType = true)

def BlockNth (nodes : List AstNode) : Prop :=
  ∀ (c : Compiler), NthOk c →
    NthOk (compileBlock c nodes).1 ∧ (c.enableNthOfType = true → (compileBlock c nodes).1.enableNthOfType = true)

theorem listNth_cons {n : AstNode} {rest : List AstNode} (hn : NodeNth n) (hr : ListNth rest) : ListNth (n :: rest) := by
  intro c pos hc
  rw [compileList_cons]
  obtain ⟨h1, m1⟩ := hn c pos hc
  obtain ⟨h2, m2⟩ := hr _ (pos + 1) h1
  exact ⟨h2, fun h => m2 (m1 h)⟩

theorem blockNth_of_list {nodes : List AstNode} (hl : ListNth nodes) : BlockNth nodes := by
  intro c hc
  unfold compileBlock
  by_cases he : nodes.isEmpty = true
  · simp only [he, if_true]; exact ⟨hc, id⟩
  · simp only [he, if_false]
    exact hl _ _ hc

theorem nodeNth_of_blocks {p : Predicate} {ch de : List AstNode} {ids : List Nat}
    (hc : BlockNth ch) (hd : BlockNth de) : NodeNth (.mk p ch de ids) := by
  intro c pos hok
  rw [compileNode_eq]
  obtain ⟨h1, m1⟩ := hc c hok
  obtain ⟨h2, m2⟩ := hd _ h1
  constructor
  · intro i hi
    simp only at hi ⊢
    rcases List.mem_or_eq_of_mem_set hi with hi | hi
    · rcases h2 i hi with h | h
      · left; simp [h]
      · right; exact h
    · subst hi
      by_cases hp : p.onTagNameExprs.any exprIsNthOfType = true
      · left; simp [hp]
      · right; simpa [compilePredicate] using hp
  · intro h
    simp [m2 (m1 h)]

mutual
theorem nodeNth : ∀ (n : AstNode), NodeNth n
  | .mk _ ch de _ => nodeNth_of_blocks (blockNth_of_list (listNth ch)) (blockNth_of_list (listNth de))
theorem listNth : ∀ (nodes : List AstNode), ListNth nodes
  | [] => fun c pos hc => by rw [compileList_nil]; exact ⟨hc, id⟩
  | n :: rest => listNth_cons (nodeNth n) (listNth rest)
end

/-- The compiled program: the root list is laid out at the entry points, every instruction that
    tests `:nth-of-type` is covered by the flag. -/
theorem compile_layout (ast : Ast) (hcount : ast.cumulativeNodeCount = listSize ast.root) :
    ListCompiled (compile ast).instructions ast.root (compile ast).entryPoints.start ∧
    (compile ast).entryPoints.stop = (compile ast).entryPoints.start + ast.root.length ∧
    (∀ i ∈ (compile ast).instructions,
      (compile ast).enableNthOfType = true ∨ ¬ i.localNameExprs.any exprIsNthOfType = true) := by
  unfold compile Compiler.compileNodes Compiler.reserve
  simp only
  have hspec := listSpec ast.root
    { instructions := List.replicate ast.cumulativeNodeCount Instruction.noop,
      freeSpaceStart := 0 + ast.root.length, enableNthOfType := false } 0 (by simp)
    (by simp only [List.length_replicate, hcount, listSize_eq]; omega)
  obtain ⟨_, _, _, cp⟩ := hspec
  refine ⟨cp _ (fun _ _ => rfl), by simp, ?_⟩
  have hn := (listNth ast.root
    { instructions := List.replicate ast.cumulativeNodeCount Instruction.noop,
      freeSpaceStart := 0 + ast.root.length, enableNthOfType := false } 0 (by
        intro i hi
        right
        simp only [List.mem_replicate] at hi
        rw [hi.2]; simp [Instruction.noop])).1
  exact hn
end LolHtml.SelVM
