/-
Lemmas.SelCompile — the layout relation between a trie and an instruction list, the theorem that on
such a program an instruction is activated exactly when the trie path to its node matches, and the
proof that `compile` produces that layout.
-/
import LolHtml.Lemmas.SelRefine

set_option linter.unusedSimpArgs false
namespace LolHtml.SelVM
open LolHtml LolHtml.Sel LolHtml.Spec.Css

/-! ## the layout `compile` produces, as a relation between the trie and the instruction list -/

mutual
/-- node `n` is compiled at address `addr`: its instruction is there and its children / descendants
    lists are compiled as the blocks the instruction's `jumps` / `hereditary_jumps` name -/
def NodeCompiled (instrs : List Instruction) : AstNode → Nat → Prop
  | .mk p ch de ids, addr =>
    ∃ j h, instrs[addr]? = some (compilePredicate p ⟨ids, j, h⟩) ∧
      ((ch = [] ∧ j = none) ∨ (ch ≠ [] ∧ ∃ s, j = some ⟨s, s + ch.length⟩ ∧ ListCompiled instrs ch s)) ∧
      ((de = [] ∧ h = none) ∨ (de ≠ [] ∧ ∃ s, h = some ⟨s, s + de.length⟩ ∧ ListCompiled instrs de s))
/-- sibling nodes are compiled at consecutive addresses from `start` -/
def ListCompiled (instrs : List Instruction) : List AstNode → Nat → Prop
  | [], _ => True
  | n :: rest, start => NodeCompiled instrs n start ∧ ListCompiled instrs rest (start + 1)
end

theorem ListCompiled.get {instrs : List Instruction} : ∀ {nodes : List AstNode} {start : Nat},
    ListCompiled instrs nodes start → ∀ (k : Nat) (n : AstNode), nodes[k]? = some n → NodeCompiled instrs n (start + k) := by
  intro nodes
  induction nodes with
  | nil => intro start _ k n h; simp at h
  | cons m rest ih =>
    intro start hl k n h
    unfold ListCompiled at hl
    cases k with
    | zero => simp at h; subst h; exact hl.1
    | succ k =>
      simp at h
      have := ih hl.2 k n h
      have e : start + 1 + k = start + (k + 1) := by omega
      rw [e] at this; exact this

theorem mem_addrs (r : AddressRange) (a : Nat) : a ∈ r.addrs ↔ r.start ≤ a ∧ a < r.stop := by
  simp only [AddressRange.addrs, AddressRange.addrsFrom, List.mem_range'_1, Nat.add_zero]
  omega

/-- predicate-level right-to-left matching (the shape of `Spec.Css.matchesRev`) -/
def predMatchesRev : List (Comb × Predicate) → Predicate → Elem → List Elem → Bool
  | [], p, e, _ => predB p e
  | (k, p') :: rest, p, e, anc =>
    predB p e &&
      match k with
      | .child =>
        match anc with
        | [] => false
        | q :: anc' => predMatchesRev rest p' q anc'
      | .descendant => anyAncestor (predMatchesRev rest p') anc

/-- trie node `n` sits at address `a` and is reached by the (reversed) path `σ` -/
inductive At (instrs : List Instruction) (root : List AstNode) (entryStart : Nat) :
    List (Comb × Predicate) → AstNode → Nat → Prop
  | root (k : Nat) (n : AstNode) : root[k]? = some n → At instrs root entryStart [] n (entryStart + k)
  | child (σ m am i r k n) : At instrs root entryStart σ m am → instrs[am]? = some i →
      i.associatedBranch.jumps = some r → m.children[k]? = some n →
      At instrs root entryStart ((.child, m.predicate) :: σ) n (r.start + k)
  | desc (σ m am i r k n) : At instrs root entryStart σ m am → instrs[am]? = some i →
      i.associatedBranch.hereditaryJumps = some r → m.descendants[k]? = some n →
      At instrs root entryStart ((.descendant, m.predicate) :: σ) n (r.start + k)

theorem NodeCompiled.instr {instrs : List Instruction} {n : AstNode} {a : Nat} (h : NodeCompiled instrs n a) :
    ∃ j hj, instrs[a]? = some (compilePredicate n.predicate ⟨n.matchIds, j, hj⟩) := by
  cases n with
  | mk p ch de ids =>
    unfold NodeCompiled at h
    obtain ⟨j, hj, hi, _, _⟩ := h
    exact ⟨j, hj, hi⟩

theorem NodeCompiled.children {instrs : List Instruction} {n : AstNode} {a : Nat} (h : NodeCompiled instrs n a)
    {i : Instruction} (hi : instrs[a]? = some i) :
    (n.children = [] ∧ i.associatedBranch.jumps = none) ∨
      (n.children ≠ [] ∧ ∃ s, i.associatedBranch.jumps = some ⟨s, s + n.children.length⟩ ∧
        ListCompiled instrs n.children s) := by
  cases n with
  | mk p ch de ids =>
    unfold NodeCompiled at h
    obtain ⟨j, hj, hi', hc, _⟩ := h
    rw [hi] at hi'; cases hi'
    simpa [AstNode.children, compilePredicate] using hc

theorem NodeCompiled.descendants {instrs : List Instruction} {n : AstNode} {a : Nat} (h : NodeCompiled instrs n a)
    {i : Instruction} (hi : instrs[a]? = some i) :
    (n.descendants = [] ∧ i.associatedBranch.hereditaryJumps = none) ∨
      (n.descendants ≠ [] ∧ ∃ s, i.associatedBranch.hereditaryJumps = some ⟨s, s + n.descendants.length⟩ ∧
        ListCompiled instrs n.descendants s) := by
  cases n with
  | mk p ch de ids =>
    unfold NodeCompiled at h
    obtain ⟨j, hj, hi', _, hd⟩ := h
    rw [hi] at hi'; cases hi'
    simpa [AstNode.descendants, compilePredicate] using hd

/-- every node reached through the program is compiled where it is reached -/
theorem At.compiled {instrs : List Instruction} {root : List AstNode} {es : Nat}
    (hroot : ListCompiled instrs root es) : ∀ {σ n a}, At instrs root es σ n a → NodeCompiled instrs n a := by
  intro σ n a h
  induction h with
  | root k n hk => exact hroot.get k n hk
  | child σ m am i r k n _ hi hj hk ih =>
    rcases ih.children hi with ⟨_, hnone⟩ | ⟨_, s, hs, hl⟩
    · rw [hnone] at hj; cases hj
    · rw [hs] at hj; cases hj
      exact hl.get k n hk
  | desc σ m am i r k n _ hi hj hk ih =>
    rcases ih.descendants hi with ⟨_, hnone⟩ | ⟨_, s, hs, hl⟩
    · rw [hnone] at hj; cases hj
    · rw [hs] at hj; cases hj
      exact hl.get k n hk

theorem allTagExprs_eq (nth : Bool) (e : Elem) : ∀ (xs : List (Expr OnTagNameExpr)),
    (nth = true ∨ ¬ xs.any exprIsNthOfType = true) →
    allTagExprs (stateOf nth e) e.tag.name xs = .ok (xs.all (tagExprB e)) := by
  intro xs
  induction xs with
  | nil => intro _; rfl
  | cons x xs ih =>
    intro h
    have hx : evalTagExpr (stateOf nth e) e.tag.name x = .ok (tagExprB e x) := by
      obtain ⟨se, neg⟩ := x
      cases se with
      | nthOfType a b =>
        have hn : nth = true := by
          rcases h with h | h
          · exact h
          · simp [exprIsNthOfType] at h
        subst hn
        cases neg <;> simp [evalTagExpr, tagExprB, stateOf, pure, Except.pure, Except.map]
      | _ => cases neg <;> simp [evalTagExpr, tagExprB, stateOf, pure, Except.pure, Except.map]
    have hrest : nth = true ∨ ¬ xs.any exprIsNthOfType = true := by
      rcases h with h | h
      · exact Or.inl h
      · right; intro hc; apply h; simp [List.any_cons, hc]
    simp only [allTagExprs, hx, bind, Except.bind, List.all_cons]
    cases tagExprB e x with
    | true => simpa using ih hrest
    | false => simp [pure, Except.pure]

theorem exec_eq_predB (nth : Bool) (e : Elem) (i : Instruction)
    (h : nth = true ∨ ¬ i.localNameExprs.any exprIsNthOfType = true) :
    i.exec (stateOf nth e) e.tag.name (matcherOf e) =
      .ok (if predB ⟨i.localNameExprs, i.attributeExprs⟩ e then some i.associatedBranch else none) := by
  unfold Instruction.exec
  rw [allTagExprs_eq nth e _ h]
  simp only [bind, Except.bind, predB, allAttrExprs, pure, Except.pure]
  by_cases h1 : i.localNameExprs.all (tagExprB e) = true
  · simp [h1]
  · simp [h1]

theorem holdsElem_iff (prog : Program) (nth : Bool)
    (hnth : ∀ i ∈ prog.instructions, nth = true ∨ ¬ i.localNameExprs.any exprIsNthOfType = true)
    (e : Elem) (a : Nat) (b : ExecutionBranch) :
    holdsElem prog nth e a b ↔
      ∃ i, prog.instructions[a]? = some i ∧ i.associatedBranch = b ∧
        predB ⟨i.localNameExprs, i.attributeExprs⟩ e = true := by
  unfold holdsElem
  constructor
  · rintro ⟨i, hi, he⟩
    rw [exec_eq_predB nth e i (hnth i (List.mem_of_getElem? hi))] at he
    split at he
    · rename_i hp; simp at he; exact ⟨i, hi, he, hp⟩
    · simp at he
  · rintro ⟨i, hi, hb, hp⟩
    refine ⟨i, hi, ?_⟩
    rw [exec_eq_predB nth e i (hnth i (List.mem_of_getElem? hi)), hp, hb]; rfl

theorem mem_ancActs (prog : Program) (nth : Bool) : ∀ (anc : List Elem) (S : ActSet),
    S ∈ ancActs prog nth anc ↔ ∃ pre q rest, anc = pre ++ q :: rest ∧ S = Act prog nth q rest := by
  intro anc
  induction anc with
  | nil => intro S; simp [ancActs]
  | cons p anc ih =>
    intro S
    simp only [ancActs, List.mem_cons, ih]
    constructor
    · rintro (h | ⟨pre, q, rest, h1, h2⟩)
      · exact ⟨[], p, anc, rfl, h⟩
      · exact ⟨p :: pre, q, rest, by simp [h1], h2⟩
    · rintro ⟨pre, q, rest, h1, h2⟩
      cases pre with
      | nil => simp at h1; obtain ⟨rfl, rfl⟩ := h1; exact Or.inl h2
      | cons x pre => simp at h1; obtain ⟨rfl, rfl⟩ := h1; exact Or.inr ⟨pre, q, rest, rfl, h2⟩

theorem anyAncestor_iff (f : Elem → List Elem → Bool) : ∀ (anc : List Elem),
    anyAncestor f anc = true ↔ ∃ pre q rest, anc = pre ++ q :: rest ∧ f q rest = true := by
  intro anc
  induction anc with
  | nil => simp [anyAncestor]
  | cons p anc ih =>
    simp only [anyAncestor, Bool.or_eq_true, ih]
    constructor
    · rintro (h | ⟨pre, q, rest, h1, h2⟩)
      · exact ⟨[], p, anc, rfl, h⟩
      · exact ⟨p :: pre, q, rest, by simp [h1], h2⟩
    · rintro ⟨pre, q, rest, h1, h2⟩
      cases pre with
      | nil => simp at h1; obtain ⟨rfl, rfl⟩ := h1; exact Or.inl h2
      | cons x pre => simp at h1; obtain ⟨rfl, rfl⟩ := h1; exact Or.inr ⟨pre, q, rest, rfl, h2⟩

section ActIff
variable (prog : Program) (nth : Bool) (root : List AstNode)
  (hroot : ListCompiled prog.instructions root prog.entryPoints.start)
  (hentry : prog.entryPoints.stop = prog.entryPoints.start + root.length)
  (hnth : ∀ i ∈ prog.instructions, nth = true ∨ ¬ i.localNameExprs.any exprIsNthOfType = true)
include hroot hentry hnth

/-- the target of `act_iff` -/
def ActSpec (e : Elem) (anc : List Elem) (a : Nat) (b : ExecutionBranch) : Prop :=
  ∃ σ n, At prog.instructions root prog.entryPoints.start σ n a ∧
    predMatchesRev σ n.predicate e anc = true ∧
    ∃ i, prog.instructions[a]? = some i ∧ i.associatedBranch = b

omit hentry hnth in
theorem predB_of_compiled {n : AstNode} {a : Nat} {i : Instruction} {σ}
    (hat : At prog.instructions root prog.entryPoints.start σ n a) (hi : prog.instructions[a]? = some i) :
    (⟨i.localNameExprs, i.attributeExprs⟩ : Predicate) = n.predicate := by
  obtain ⟨j, hj, hi'⟩ := (hat.compiled hroot).instr
  rw [hi] at hi'; cases hi'
  rfl

theorem act_imp : ∀ (len : Nat) (anc : List Elem), anc.length = len → ∀ e a b,
    Act prog nth e anc a b → ActSpec prog root e anc a b := by
  intro len
  induction len using Nat.strongRecOn with
  | _ len ih =>
    intro anc hlen e a b hact
    obtain ⟨hh, hvia⟩ := hact
    obtain ⟨i, hi, hb, hp⟩ := (holdsElem_iff prog nth hnth e a b).mp hh
    rcases hvia with hentry' | ⟨S, hS, a', b', r, hS', hj, ha⟩ | ⟨S, hS, a', b', r, hS', hj, ha⟩
    · -- entry point
      rw [mem_addrs, hentry] at hentry'
      obtain ⟨k, hk⟩ : ∃ k, a = prog.entryPoints.start + k := ⟨a - prog.entryPoints.start, by omega⟩
      have hklt : k < root.length := by omega
      have hn : root[k]? = some root[k] := List.getElem?_eq_getElem hklt
      have hat : At prog.instructions root prog.entryPoints.start [] root[k] a := by
        rw [hk]; exact At.root k _ hn
      refine ⟨[], root[k], hat, ?_, i, hi, hb⟩
      rw [← predB_of_compiled prog root hroot hat hi]
      simpa [predMatchesRev] using hp
    · -- jumps of an instruction activated at the parent
      cases anc with
      | nil => simp [ancActs] at hS
      | cons q anc' =>
        simp only [ancActs, List.head?_cons, Option.some.injEq] at hS
        subst hS
        have hlen' : anc'.length < len := by simp at hlen; omega
        obtain ⟨σ', m, hatm, hpm, i', hi', hb'⟩ := ih anc'.length hlen' anc' rfl q a' b' hS'
        have hcm := hatm.compiled hroot
        rw [← hb'] at hj
        rcases hcm.children hi' with ⟨_, hnone⟩ | ⟨_, s, hs, hl⟩
        · rw [hnone] at hj; cases hj
        · rw [hs] at hj; cases hj
          rw [mem_addrs] at ha
          simp only at ha
          obtain ⟨k, hk⟩ : ∃ k, a = s + k := ⟨a - s, by omega⟩
          have hklt : k < m.children.length := by omega
          have hn : m.children[k]? = some m.children[k] := List.getElem?_eq_getElem hklt
          have hat : At prog.instructions root prog.entryPoints.start ((.child, m.predicate) :: σ')
              m.children[k] a := by
            rw [hk]; exact At.child σ' m a' i' ⟨s, s + m.children.length⟩ k _ hatm hi' hs hn
          refine ⟨_, _, hat, ?_, i, hi, hb⟩
          rw [← predB_of_compiled prog root hroot hat hi]
          simp [predMatchesRev, hp, hpm]
    · -- hereditary jumps of an instruction activated at some ancestor
      obtain ⟨pre, q, rest, hsplit, hSeq⟩ := (mem_ancActs prog nth anc S).mp hS
      subst hSeq
      have hlen' : rest.length < len := by rw [← hlen, hsplit]; simp; omega
      obtain ⟨σ', m, hatm, hpm, i', hi', hb'⟩ := ih rest.length hlen' rest rfl q a' b' hS'
      have hcm := hatm.compiled hroot
      rw [← hb'] at hj
      rcases hcm.descendants hi' with ⟨_, hnone⟩ | ⟨_, s, hs, hl⟩
      · rw [hnone] at hj; cases hj
      · rw [hs] at hj; cases hj
        rw [mem_addrs] at ha
        simp only at ha
        obtain ⟨k, hk⟩ : ∃ k, a = s + k := ⟨a - s, by omega⟩
        have hklt : k < m.descendants.length := by omega
        have hn : m.descendants[k]? = some m.descendants[k] := List.getElem?_eq_getElem hklt
        have hat : At prog.instructions root prog.entryPoints.start ((.descendant, m.predicate) :: σ')
            m.descendants[k] a := by
          rw [hk]; exact At.desc σ' m a' i' ⟨s, s + m.descendants.length⟩ k _ hatm hi' hs hn
        refine ⟨_, _, hat, ?_, i, hi, hb⟩
        rw [← predB_of_compiled prog root hroot hat hi]
        simp only [predMatchesRev, hp, Bool.true_and]
        exact (anyAncestor_iff _ anc).mpr ⟨pre, q, rest, hsplit, hpm⟩

theorem act_of_at : ∀ {σ n a}, At prog.instructions root prog.entryPoints.start σ n a →
    ∀ e anc i, prog.instructions[a]? = some i → predMatchesRev σ n.predicate e anc = true →
    Act prog nth e anc a i.associatedBranch := by
  intro σ n a hat
  induction hat with
  | root k n hk =>
    intro e anc i hi hp
    have hat : At prog.instructions root prog.entryPoints.start [] n (prog.entryPoints.start + k) := At.root k n hk
    refine ⟨(holdsElem_iff prog nth hnth e _ _).mpr ⟨i, hi, rfl, ?_⟩, Or.inl ?_⟩
    · rw [predB_of_compiled prog root hroot hat hi]; simpa [predMatchesRev] using hp
    · rw [mem_addrs, hentry]
      have := (List.getElem?_eq_some_iff.mp hk).1
      omega
  | child σ m am im r k n hatm him hj hk ih =>
    intro e anc i hi hp
    have hat := At.child σ m am im r k n hatm him hj hk
    simp only [predMatchesRev, Bool.and_eq_true] at hp
    obtain ⟨hp1, hp2⟩ := hp
    cases anc with
    | nil => simp at hp2
    | cons q anc' =>
      simp only at hp2
      have hactm := ih q anc' im him hp2
      refine ⟨(holdsElem_iff prog nth hnth e _ _).mpr ⟨i, hi, rfl, ?_⟩, Or.inr (Or.inl ?_)⟩
      · rw [predB_of_compiled prog root hroot hat hi]; exact hp1
      · refine ⟨Act prog nth q anc', rfl, am, im.associatedBranch, r, hactm, hj, ?_⟩
        have hcm := hatm.compiled hroot
        rcases hcm.children him with ⟨_, hnone⟩ | ⟨_, s, hs, _⟩
        · rw [hnone] at hj; cases hj
        · rw [hs] at hj; cases hj
          rw [mem_addrs]
          have := (List.getElem?_eq_some_iff.mp hk).1
          simp only; omega
  | desc σ m am im r k n hatm him hj hk ih =>
    intro e anc i hi hp
    have hat := At.desc σ m am im r k n hatm him hj hk
    simp only [predMatchesRev, Bool.and_eq_true] at hp
    obtain ⟨hp1, hp2⟩ := hp
    obtain ⟨pre, q, rest, hsplit, hq⟩ := (anyAncestor_iff _ anc).mp hp2
    have hactm := ih q rest im him hq
    refine ⟨(holdsElem_iff prog nth hnth e _ _).mpr ⟨i, hi, rfl, ?_⟩, Or.inr (Or.inr ?_)⟩
    · rw [predB_of_compiled prog root hroot hat hi]; exact hp1
    · refine ⟨_, (mem_ancActs prog nth anc _).mpr ⟨pre, q, rest, hsplit, rfl⟩, am, im.associatedBranch, r,
        hactm, hj, ?_⟩
      have hcm := hatm.compiled hroot
      rcases hcm.descendants him with ⟨_, hnone⟩ | ⟨_, s, hs, _⟩
      · rw [hnone] at hj; cases hj
      · rw [hs] at hj; cases hj
        rw [mem_addrs]
        have := (List.getElem?_eq_some_iff.mp hk).1
        simp only; omega

/-- For a program laid out as the relation says, an instruction is activated at an element iff the
    trie path to its node matches the element right-to-left (predicate level). -/
theorem act_iff (e : Elem) (anc : List Elem) (a : Nat) (b : ExecutionBranch) :
    Act prog nth e anc a b ↔ ActSpec prog root e anc a b := by
  constructor
  · exact act_imp prog nth root hroot hentry hnth anc.length anc rfl e a b
  · rintro ⟨σ, n, hat, hp, i, hi, hb⟩
    rw [← hb]
    exact act_of_at prog nth root hroot hentry hnth hat e anc i hi hp
end ActIff
end LolHtml.SelVM
