import LolHtml.Lemmas.ChunkKind
/-!
`Parser::parse`: big-step semantics without fuel, the relation between two parsers, bookmarks.
-/
namespace LolHtml.Model.Chunk
open LolHtml LolHtml.Model

variable {κ : Type}

/-- `prev_consumed += consumed` at the end of `Parser::parse` -/
def bump (p : Parser κ) (c : Nat) : Parser κ := { p with x := { p.x with prevConsumed := p.x.prevConsumed + c } }

/-- `Parser::parse` from parser `p` whose active machine is currently `m`, without fuel -/
inductive PRunsM (env : Env κ) (inp : Bytes) (last : Bool) : Parser κ → M κ → Parser κ → Except Err Nat → Prop
  | eoi {p : Parser κ} {m m' : M κ} {c : Nat} : Runs env inp m m' (.endOfInput c) →
      PRunsM env inp last p m (bump (p.store m') c) (.ok c)
  | dir {p p' : Parser κ} {m m' : M κ} {d : Directive} {bm : Bookmark} {r : Except Err Nat} :
      Runs env inp m m' (.directive d bm) →
      PRunsM env inp last (loadBookmark env d bm (p.store m')) ((loadBookmark env d bm (p.store m')).machine last) p' r →
      PRunsM env inp last p m p' r
  | errI {p : Parser κ} {m m' : M κ} {s : String} : Runs env inp m m' (.err (.internal s)) →
      PRunsM env inp last p m (p.store m') (.error .handler)
  | err {p : Parser κ} {m m' : M κ} {e : Err} : Runs env inp m m' (.err e) → (∀ s, e ≠ .internal s) →
      PRunsM env inp last p m (p.store m') (.error e)

theorem PRunsM.det {env : Env κ} {inp : Bytes} {last : Bool} {p p1 p2 : Parser κ} {m : M κ} {r1 r2 : Except Err Nat}
    (h1 : PRunsM env inp last p m p1 r1) (h2 : PRunsM env inp last p m p2 r2) : p1 = p2 ∧ r1 = r2 := by
  induction h1 generalizing p2 r2 with
  | eoi hr =>
    cases h2 with
    | eoi hr' => obtain ⟨a, b⟩ := hr.det hr'; cases b; subst a; exact ⟨rfl, rfl⟩
    | dir hr' _ => cases (hr.det hr').2
    | errI hr' => cases (hr.det hr').2
    | err hr' _ => cases (hr.det hr').2
  | dir hr _ ih =>
    cases h2 with
    | eoi hr' => cases (hr.det hr').2
    | dir hr' hp' => obtain ⟨a, b⟩ := hr.det hr'; cases b; subst a; exact ih hp'
    | errI hr' => cases (hr.det hr').2
    | err hr' _ => cases (hr.det hr').2
  | errI hr =>
    cases h2 with
    | eoi hr' => cases (hr.det hr').2
    | dir hr' _ => cases (hr.det hr').2
    | errI hr' => obtain ⟨a, _⟩ := hr.det hr'; subst a; exact ⟨rfl, rfl⟩
    | err hr' hne => obtain ⟨_, b⟩ := hr.det hr'; cases b; exact absurd rfl (hne _)
  | err hr hne =>
    cases h2 with
    | eoi hr' => cases (hr.det hr').2
    | dir hr' _ => cases (hr.det hr').2
    | errI hr' => obtain ⟨_, b⟩ := hr.det hr'; cases b; exact absurd rfl (hne _)
    | err hr' _ => obtain ⟨a, b⟩ := hr.det hr'; cases b; subst a; exact ⟨rfl, rfl⟩

/-- the executable `parseLoop` (with its fuel) computes the big-step result, unless it runs out of fuel -/
theorem pruns_of_parseLoop {env : Env κ} {inp : Bytes} {last : Bool} : ∀ (n : Nat) (p p' : Parser κ) (r : Except Err Nat),
    Parser.parseLoop env inp last n p = (p', r) →
    PRunsM env inp last p (p.machine last) p' r ∨ r = .error (.panic "out of fuel") ∨
      r = .error (.panic "out of fuel (directive switches)") := by
  intro n
  induction n with
  | zero =>
    intro p p' r h
    simp only [Parser.parseLoop, Prod.mk.injEq] at h
    exact Or.inr (Or.inr h.2.symm)
  | succ n ih =>
    intro p p' r h
    simp only [Parser.parseLoop] at h
    generalize hrun : runLoop env inp (defaultFuel inp) (p.machine last) = rr at h
    have hrl := runs_of_runLoop (env := env) (inp := inp) (defaultFuel inp) (p.machine last) rr.1 rr.2 (by rw [hrun])
    cases hsig : rr.2 with
    | endOfInput c =>
      rw [hsig] at h hrl
      simp only [Prod.mk.injEq] at h
      rcases hrl with hr | hr
      · left; rw [← h.1, ← h.2]; exact PRunsM.eoi hr
      · cases hr
    | directive d bm =>
      rw [hsig] at h hrl
      simp only at h
      rcases hrl with hr | hr
      · rcases ih _ _ _ h with h' | h'
        · exact Or.inl (PRunsM.dir hr h')
        · exact Or.inr h'
      · cases hr
    | err e =>
      rw [hsig] at h hrl
      rcases hrl with hr | hr
      · cases e with
        | internal s =>
          simp only [Prod.mk.injEq] at h
          left; rw [← h.1, ← h.2]; exact PRunsM.errI hr
        | ambiguity t =>
          simp only [Prod.mk.injEq] at h
          left; rw [← h.1, ← h.2]; exact PRunsM.err hr (fun s hh => by cases hh)
        | handler =>
          simp only [Prod.mk.injEq] at h
          left; rw [← h.1, ← h.2]; exact PRunsM.err hr (fun s hh => by cases hh)
        | mem =>
          simp only [Prod.mk.injEq] at h
          left; rw [← h.1, ← h.2]; exact PRunsM.err hr (fun s hh => by cases hh)
        | panic s' =>
          simp only [Prod.mk.injEq] at h
          left; rw [← h.1, ← h.2]; exact PRunsM.err hr (fun s hh => by cases hh)
      · simp only [Signal.err.injEq] at hr
        subst hr
        simp only [Prod.mk.injEq] at h
        exact Or.inr (Or.inl h.2.symm)

/-! ### the relation between two parsers -/

/-- the lexer while the tag scanner is running: its stored positions are all stale, only shapes matter
(`continue_from_bookmark` overwrites the cursor, `lexeme_start`, the text state and the feedback directive) -/
structure IdleLex (cs cw : Common) (ls lw : LexRegs) : Prop where
  quote : cw.closingQuote = cs.closingQuote
  tag : OptRel (TagRel 0 0 false false) ls.curTag lw.curTag
  attr : OptRel (AttrRel 0 0 false) ls.curAttr lw.curAttr
  nt : OptRel (NonTagRel 0 0 false) ls.curNonTag lw.curNonTag

/-- the tag scanner while the lexer is running -/
structure IdleScan (cs cw : Common) (ss sw : ScanRegs) : Prop where
  quote : cw.closingQuote = cs.closingQuote
  ts : ss.tagStart = none
  tw : sw.tagStart = none
  qs : ss.chSeqStart = none
  qw : sw.chSeqStart = none
  endTag : sw.isInEndTag = ss.isInEndTag
  hash : sw.tagNameHash = ss.tagNameHash
  pend : sw.pendingTextTypeChange = ss.pendingTextTypeChange

def IdleRel (ps pw : Parser κ) : Prop :=
  match ps.directive with
  | .lex => IdleScan ps.scanC pw.scanC ps.scanR pw.scanR
  | .scan => IdleLex ps.lexC pw.lexC ps.lexR pw.lexR

def dirLex : Directive → Bool
  | .lex => true
  | .scan => false

/-- parsers `ps`, `pw` whose active machines are currently `ms`, `mw` -/
structure PRelM (tbl : Table) (fs : FlagMap) (inpW : Bytes) (δ d skip : Nat) (ps : Parser κ) (ms : M κ)
    (pw : Parser κ) (mw : M κ) : Prop where
  dir : pw.directive = ps.directive
  b : BRel tbl fs inpW δ d skip ms mw
  idle : IdleRel ps pw
  kindS : isLex ms.r = dirLex ps.directive
  kindW : isLex mw.r = dirLex pw.directive

theorem store_directive (p : Parser κ) (m : M κ) : (p.store m).directive = p.directive := by
  unfold Parser.store; split <;> rfl

theorem store_x (p : Parser κ) (m : M κ) : (p.store m).x = m.x := by
  unfold Parser.store; split <;> rfl

theorem store_machine (p : Parser κ) (m : M κ) (last : Bool) (hk : isLex m.r = dirLex p.directive)
    (hl : m.c.isLast = last) : (p.store m).machine last = m := by
  obtain ⟨c, r, x⟩ := m
  simp only at hl
  subst hl
  cases r with
  | lexer l =>
    have hd : p.directive = .lex := by
      cases h : p.directive with
      | lex => rfl
      | scan => rw [h] at hk; cases hk
    simp only [Parser.store, Parser.machine, hd]
  | scanner s =>
    have hd : p.directive = .scan := by
      cases h : p.directive with
      | scan => rfl
      | lex => rw [h] at hk; cases hk
    simp only [Parser.store, Parser.machine, hd]

theorem store_idle {ps pw : Parser κ} {ms mw : M κ} (h : IdleRel ps pw) (hd : pw.directive = ps.directive)
    (hs : isLex ms.r = dirLex ps.directive) (hw : isLex mw.r = dirLex pw.directive) :
    IdleRel (ps.store ms) (pw.store mw) := by
  unfold IdleRel at h ⊢
  rw [store_directive]
  obtain ⟨cs, rs, xs⟩ := ms
  obtain ⟨cw, rw, xw⟩ := mw
  cases hdir : ps.directive with
  | lex =>
    rw [hdir] at h hs; rw [hd, hdir] at hw
    cases rs with
    | scanner s => cases hs
    | lexer ls =>
      cases rw with
      | scanner s => cases hw
      | lexer lw => exact h
  | scan =>
    rw [hdir] at h hs; rw [hd, hdir] at hw
    cases rs with
    | lexer s => cases hs
    | scanner ss =>
      cases rw with
      | lexer s => cases hw
      | scanner sw => exact h

theorem bump_machine (p : Parser κ) (c : Nat) (last : Bool) :
    (bump p c).machine last = { p.machine last with x := { (p.machine last).x with prevConsumed := (p.machine last).x.prevConsumed + c } } := by
  unfold bump Parser.machine
  cases p.directive <;> rfl

theorem BCore.congr_pc {tbl : Table} {fs : FlagMap} {inpW : Bytes} {δ d skip : Nat} {ms mw : M κ}
    (h : BCore tbl fs inpW δ d skip ms mw) (a b : Nat) :
    BCore tbl fs inpW δ d skip { ms with x := { ms.x with prevConsumed := a } } { mw with x := { mw.x with prevConsumed := b } } := by
  obtain ⟨sm, hbr, hside⟩ := h
  exact ⟨sm, ⟨hbr.c, hbr.r, hbr.sim⟩, hside⟩

theorem TagRel.shape {δ δ' L L' : Nat} {gn ga : Bool} {t t' : TagOutline} (h : TagRel δ L gn ga t t') :
    TagRel δ' L' false false t t' :=
  ⟨h.kind, h.hash, h.ns, h.sc, (fun g => by cases g), (fun g => by cases g)⟩

theorem AttrRel.shape {δ δ' L L' : Nat} {v : Bool} {a a' : AttrOutline} (_h : AttrRel δ L v a a') :
    AttrRel δ' L' false a a' := ⟨fun g => by cases g⟩

theorem NonTagRel.shape {δ δ' L L' : Nat} {v : Bool} {a a' : NonTagOutline} (h : NonTagRel δ L v a a') :
    NonTagRel δ' L' false a a' := ⟨h.ctor, fun g => by cases g⟩

/-- both register files of the two parsers are shape-related (after the active machine was stored on a
directive change) -/
structure Idle2 (ps pw : Parser κ) : Prop where
  lex : IdleLex ps.lexC pw.lexC ps.lexR pw.lexR
  scan : IdleScan ps.scanC pw.scanC ps.scanR pw.scanR

theorem idle2_of_store {δ : Nat} {ab : Ab} {ps pw : Parser κ} {ms mw : M κ} (hi : IdleRel ps pw)
    (hd : pw.directive = ps.directive) (hs : isLex ms.r = dirLex ps.directive) (hw : isLex mw.r = dirLex pw.directive)
    (hm : MRel δ 0 0 ab .none ms mw) (hsi : ScanIdle ms.r) : Idle2 (ps.store ms) (pw.store mw) := by
  obtain ⟨hc, hr, _, _⟩ := hm
  obtain ⟨cs, rs, xs⟩ := ms
  obtain ⟨cw, rw, xw⟩ := mw
  unfold IdleRel at hi
  cases hdir : ps.directive with
  | lex =>
    rw [hdir] at hi hs; rw [hd, hdir] at hw
    cases rs with
    | scanner s => cases hs
    | lexer ls =>
      cases rw with
      | scanner s => cases hw
      | lexer lw =>
        have hl : LexRel δ 0 ab cs.nextPos ls lw := hr
        exact ⟨⟨hc.closingQuote, OptRel.mono (fun _ _ h => h.shape) hl.tag, OptRel.mono (fun _ _ h => h.shape) hl.attr,
          OptRel.mono (fun _ _ h => h.shape) hl.nt⟩, hi⟩
  | scan =>
    rw [hdir] at hi hs; rw [hd, hdir] at hw
    cases rs with
    | lexer s => cases hs
    | scanner ss =>
      cases rw with
      | lexer s => cases hw
      | scanner sw =>
        obtain ⟨_, hsr, hq⟩ := hr
        have hts : ss.tagStart = none := hsi
        exact ⟨hi, ⟨hc.closingQuote, hts, optRel_none_l hsr.ts hts, hq.1, hq.2, hsr.endTag, hsr.hash, hsr.pend⟩⟩

theorem flagsOf_text {tbl : Table} {fs : FlagMap} (hwf : WfChunkWith tbl fs = true) (c : Common) (tt : TextType)
    (hs : c.state = tbl.textState tt) (he : c.entered = false) : (flagsOf tbl fs c).le Ab.none = true := by
  have h1 := flagsOf_entry hwf c he
  rw [hs, wf_text hwf (textState_mem tbl tt)] at h1
  exact h1

/-- **`continue_from_bookmark`**: the machine started from a bookmark is related, whatever stale positions
its registers hold. -/
theorem load_rel {env : Env κ} {fs : FlagMap} {inpW : Bytes} {δ : Nat} (hwf : WfChunkWith env.tbl fs = true)
    (last : Bool) (dr : Directive) {bm bm' : Bookmark} (hbm : BmRel δ bm bm') {ps pw : Parser κ} (hi : Idle2 ps pw)
    (hsim : pw.x.sim = ps.x.sim) (hpc : ps.x.prevConsumed = pw.x.prevConsumed + δ) :
    PRelM env.tbl fs inpW δ 0 0 (loadBookmark env dr bm ps) ((loadBookmark env dr bm ps).machine last)
      (loadBookmark env dr bm' pw) ((loadBookmark env dr bm' pw).machine last) := by
  obtain ⟨b1, b2, b3, b4, b5⟩ := hbm
  cases dr with
  | lex =>
    refine ⟨rfl, ⟨⟨.none, ⟨?_, ?_, hsim⟩, BSide.plain _ _ _⟩, hpc⟩, hi.scan, rfl, rfl⟩
    · exact ⟨by show bm'.pos + 0 = bm.pos + δ; omega, rfl, by show env.tbl.textState _ = env.tbl.textState _; rw [b2], rfl,
        b1, b3, hi.lex.quote, b2⟩
    · refine LexRel.weaken (ab := Ab.none) ?_ (flagsOf_text hwf _ bm.textType rfl rfl)
      exact ⟨Nat.le_refl _, by show bm'.pos + 0 = bm.pos + δ; omega, (fun g => by cases g), b5, (fun g => by cases g),
        OptRel.mono (fun _ _ h => h.shape) hi.lex.tag, OptRel.mono (fun _ _ h => h.shape) hi.lex.attr,
        OptRel.mono (fun _ _ h => h.shape) hi.lex.nt, (fun g => by cases g), (fun g => by cases g), (fun g => by cases g)⟩
  | scan =>
    refine ⟨rfl, ⟨⟨.none, ⟨?_, ?_, hsim⟩, BSide.plain _ _ _⟩, hpc⟩, hi.lex, rfl, rfl⟩
    · exact ⟨by show bm'.pos + 0 = bm.pos + δ; omega, rfl, by show env.tbl.textState _ = env.tbl.textState _; rw [b2], rfl,
        b1, b3, hi.scan.quote, b2⟩
    · refine ⟨rfl, ScanRel.weaken (ab := Ab.none) ?_ (flagsOf_text hwf _ bm.textType rfl rfl), hi.scan.qs, hi.scan.qw⟩
      exact ⟨(by show OptRel _ ps.scanR.tagStart pw.scanR.tagStart; rw [hi.scan.ts, hi.scan.tw]; trivial),
        (fun t ht => by have ht' : ps.scanR.tagStart = some t := ht; rw [hi.scan.ts] at ht'; cases ht'), (fun g => by cases g),
        (fun g => by cases g), (fun g => by cases g), hi.scan.endTag, hi.scan.hash, hi.scan.pend⟩

end LolHtml.Model.Chunk
