/-
Helper lemmas for `C04_nth`: `has_index` on `Int32` expressed over mathematical integers, where the
only place 32-bit arithmetic shows is the *wrapped* difference `(i - b) bmod 2^32`.
-/
import LolHtml.Model.Nth
import LolHtml.Spec.Nth

namespace LolHtml.Lemmas.Nth
open LolHtml.Model.Nth

/-- The decision `has_index` takes, on integers: `o` is the (already wrapped) `index - offset`. -/
def intHasIndex (a o : Int) : Bool :=
  if a = 0 then decide (o = 0)
  else if (o < 0 ∧ a > 0) ∨ (o > 0 ∧ a < 0) then false
  else decide (o.tmod a = 0)

/-- On integers the decision is exact: `o` is a non-negative multiple of `a`. -/
theorem intHasIndex_iff (a o : Int) : intHasIndex a o = true ↔ ∃ n : Nat, a * (n : Int) = o := by
  unfold intHasIndex
  by_cases ha : a = 0
  · subst ha
    simp only [↓reduceIte, decide_eq_true_eq, Int.zero_mul]
    constructor
    · intro h; exact ⟨0, h.symm⟩
    · rintro ⟨_, h⟩; exact h.symm
  · rw [if_neg ha]
    by_cases hs : (o < 0 ∧ a > 0) ∨ (o > 0 ∧ a < 0)
    · rw [if_pos hs]
      simp only [Bool.false_eq_true, false_iff]
      rintro ⟨n, hn⟩
      rcases hs with ⟨ho, hpos⟩ | ⟨ho, hneg⟩
      · have : 0 ≤ a * (n : Int) := Int.mul_nonneg (by omega) (by omega)
        omega
      · have : a * (n : Int) ≤ 0 := Int.mul_nonpos_of_nonpos_of_nonneg (by omega) (by omega)
        omega
    · rw [if_neg hs, decide_eq_true_eq, ← Int.dvd_iff_tmod_eq_zero]
      constructor
      · rintro ⟨k, hk⟩
        have hk0 : 0 ≤ k := by
          by_cases hk0 : 0 ≤ k
          · exact hk0
          · exfalso
            have hkneg : k < 0 := by omega
            rcases Int.lt_or_gt_of_ne ha with hneg | hpos
            · have : 0 < a * k := Int.mul_pos_of_neg_of_neg hneg hkneg
              apply hs; right; omega
            · have : a * k < 0 := Int.mul_neg_of_pos_of_neg hpos hkneg
              apply hs; left; omega
        refine ⟨k.toNat, ?_⟩
        rw [Int.toNat_of_nonneg hk0]; exact hk.symm
      · rintro ⟨n, hn⟩; exact ⟨n, hn.symm⟩

theorem int32_eq_zero_iff (x : Int32) : x = 0 ↔ x.toInt = 0 := by
  rw [← Int32.toInt_inj]; simp

/-- `has_index` never takes the failure branch, and its answer is `intHasIndex` of the step and the
wrapped difference. -/
theorem hasIndex_eq (a b i : Int32) :
    hasIndex ⟨a, b⟩ i = some (intHasIndex a.toInt ((i.toInt - b.toInt).bmod (2 ^ 32))) := by
  unfold hasIndex intHasIndex wrappingRem wrappingSub
  simp only []
  rw [← Int32.toInt_sub]
  generalize i - b = o
  by_cases ha : a = 0
  · have ha' : a.toInt = 0 := (int32_eq_zero_iff a).1 ha
    rw [if_pos ha, if_pos ha']
    congr 1
    by_cases ho : o = 0
    · simp [ho]
    · have : ¬ o.toInt = 0 := fun h => ho ((int32_eq_zero_iff o).2 h)
      simp [ho, this]
  · have ha' : ¬ a.toInt = 0 := fun h => ha ((int32_eq_zero_iff a).2 h)
    rw [if_neg ha, if_neg ha']
    have h1 : (o < 0) ↔ o.toInt < 0 := by rw [Int32.lt_iff_toInt_lt]; simp
    have h2 : (a > 0) ↔ a.toInt > 0 := by
      show (0 < a) ↔ _; rw [Int32.lt_iff_toInt_lt]; simp
    have h3 : (o > 0) ↔ o.toInt > 0 := by
      show (0 < o) ↔ _; rw [Int32.lt_iff_toInt_lt]; simp
    have h4 : (a < 0) ↔ a.toInt < 0 := by rw [Int32.lt_iff_toInt_lt]; simp
    by_cases hs : (o.toInt < 0 ∧ a.toInt > 0) ∨ (o.toInt > 0 ∧ a.toInt < 0)
    · rw [if_pos hs]
      have : ((decide (o < 0) && decide (a > 0)) || (decide (o > 0) && decide (a < 0))) = true := by
        simp only [Bool.or_eq_true, Bool.and_eq_true, decide_eq_true_eq, h1, h2, h3, h4]; exact hs
      rw [if_pos this]
    · rw [if_neg hs]
      have : ¬ ((decide (o < 0) && decide (a > 0)) || (decide (o > 0) && decide (a < 0))) = true := by
        simp only [Bool.or_eq_true, Bool.and_eq_true, decide_eq_true_eq, h1, h2, h3, h4]; exact hs
      rw [if_neg this, if_neg ha]
      simp only []
      congr 1
      by_cases hr : o % a = 0
      · have : (o % a).toInt = 0 := (int32_eq_zero_iff _).1 hr
        rw [Int32.toInt_mod] at this
        simp [hr, this]
      · have : ¬ (o % a).toInt = 0 := fun h => hr ((int32_eq_zero_iff _).2 h)
        rw [Int32.toInt_mod] at this
        simp [hr, this]

end LolHtml.Lemmas.Nth
