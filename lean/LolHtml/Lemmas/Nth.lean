/-
Helper lemmas for `C04_nth`: `has_index` (i32 fields, i64 arithmetic) expressed over mathematical
integers; the widening makes `index - offset` exact.
-/
import LolHtml.Model.Nth
import LolHtml.Spec.Nth

namespace LolHtml.Lemmas.Nth
open LolHtml.Model.Nth

/-- The decision `has_index` takes, on integers: `o` is `index - offset`. -/
def intHasIndex (a o : Int) : Bool :=
  if a = 0 then decide (o = 0)
  else if (o < 0 ∧ a > 0) ∨ (o > 0 ∧ a < 0) then false
  else decide (o.tmod a = 0)

/-- On integers the decision is exact: `o` is a non-negative multiple of `a`. -/
theorem intHasIndex_iff (a o : Int) : intHasIndex a o = true ↔ ∃ n : Nat, a * (n : Int) = o := by
  unfold intHasIndex
  by_cases ha : a = 0
  · subst ha
    simp only [↓reduceIte, decide_eq_true_eq, Int.zero_mul]
    constructor
    · intro h; exact ⟨0, h.symm⟩
    · rintro ⟨_, h⟩; exact h.symm
  · rw [if_neg ha]
    by_cases hs : (o < 0 ∧ a > 0) ∨ (o > 0 ∧ a < 0)
    · rw [if_pos hs]
      simp only [Bool.false_eq_true, false_iff]
      rintro ⟨n, hn⟩
      rcases hs with ⟨ho, hpos⟩ | ⟨ho, hneg⟩
      · have : 0 ≤ a * (n : Int) := Int.mul_nonneg (by omega) (by omega)
        omega
      · have : a * (n : Int) ≤ 0 := Int.mul_nonpos_of_nonpos_of_nonneg (by omega) (by omega)
        omega
    · rw [if_neg hs, decide_eq_true_eq, ← Int.dvd_iff_tmod_eq_zero]
      constructor
      · rintro ⟨k, hk⟩
        have hk0 : 0 ≤ k := by
          by_cases hk0 : 0 ≤ k
          · exact hk0
          · exfalso
            have hkneg : k < 0 := by omega
            rcases Int.lt_or_gt_of_ne ha with hneg | hpos
            · have : 0 < a * k := Int.mul_pos_of_neg_of_neg hneg hkneg
              apply hs; right; omega
            · have : a * k < 0 := Int.mul_neg_of_pos_of_neg hpos hkneg
              apply hs; left; omega
        refine ⟨k.toNat, ?_⟩
        rw [Int.toNat_of_nonneg hk0]; exact hk.symm
      · rintro ⟨n, hn⟩; exact ⟨n, hn.symm⟩

theorem int64_eq_zero_iff (x : Int64) : x = 0 ↔ x.toInt = 0 := by
  rw [← Int64.toInt_inj]; simp

/-- `has_index` never takes a failure branch (no `i64` overflow, no zero divisor, no `MIN % -1`),
and its answer is `intHasIndex` of the step and the *exact* difference `index − offset`. -/
theorem hasIndex_eq (a b i : Int32) :
    hasIndex ⟨a, b⟩ i = some (intHasIndex a.toInt (i.toInt - b.toInt)) := by
  have hi1 := i.toInt_lt
  have hi2 := i.le_toInt
  have hb1 := b.toInt_lt
  have hb2 := b.le_toInt
  unfold hasIndex checkedSub64
  simp only [Int32.toInt_toInt64]
  have hfit : -(2 ^ 63) ≤ i.toInt - b.toInt ∧ i.toInt - b.toInt < 2 ^ 63 := by omega
  rw [if_pos hfit]
  simp only []
  have ho : (i.toInt64 - b.toInt64).toInt = i.toInt - b.toInt := by
    rw [Int64.toInt_sub, Int32.toInt_toInt64, Int32.toInt_toInt64,
      Int.bmod_eq_of_le (by omega) (by omega)]
  have ha : a.toInt64.toInt = a.toInt := Int32.toInt_toInt64 a
  rw [← ho, ← ha]
  have hobound : -(2 ^ 33) ≤ (i.toInt64 - b.toInt64).toInt := by rw [ho]; omega
  generalize i.toInt64 - b.toInt64 = o at hobound
  generalize a.toInt64 = s
  unfold intHasIndex checkedRem64
  by_cases hs : s = 0
  · have hs' : s.toInt = 0 := (int64_eq_zero_iff s).1 hs
    rw [if_pos hs, if_pos hs']
    congr 1
    by_cases ho0 : o = 0
    · simp [ho0]
    · have : ¬ o.toInt = 0 := fun h => ho0 ((int64_eq_zero_iff o).2 h)
      simp [ho0, this]
  · have hs' : ¬ s.toInt = 0 := fun h => hs ((int64_eq_zero_iff s).2 h)
    rw [if_neg hs, if_neg hs']
    have h1 : (o < 0) ↔ o.toInt < 0 := by rw [Int64.lt_iff_toInt_lt]; simp
    have h2 : (s > 0) ↔ s.toInt > 0 := by
      show (0 < s) ↔ _; rw [Int64.lt_iff_toInt_lt]; simp
    have h3 : (o > 0) ↔ o.toInt > 0 := by
      show (0 < o) ↔ _; rw [Int64.lt_iff_toInt_lt]; simp
    have h4 : (s < 0) ↔ s.toInt < 0 := by rw [Int64.lt_iff_toInt_lt]; simp
    by_cases hsg : (o.toInt < 0 ∧ s.toInt > 0) ∨ (o.toInt > 0 ∧ s.toInt < 0)
    · rw [if_pos hsg]
      have : ((decide (o < 0) && decide (s > 0)) || (decide (o > 0) && decide (s < 0))) = true := by
        simp only [Bool.or_eq_true, Bool.and_eq_true, decide_eq_true_eq, h1, h2, h3, h4]; exact hsg
      rw [if_pos this]
    · rw [if_neg hsg]
      have : ¬ ((decide (o < 0) && decide (s > 0)) || (decide (o > 0) && decide (s < 0))) = true := by
        simp only [Bool.or_eq_true, Bool.and_eq_true, decide_eq_true_eq, h1, h2, h3, h4]; exact hsg
      rw [if_neg this, if_neg hs]
      have hmin : ¬ (o = Int64.minValue ∧ s = -1) := by
        rintro ⟨h, _⟩
        have : o.toInt = -(2 ^ 63) := by rw [h]; decide
        omega
      rw [if_neg hmin]
      simp only []
      congr 1
      by_cases hr : o % s = 0
      · have : (o % s).toInt = 0 := (int64_eq_zero_iff _).1 hr
        rw [Int64.toInt_mod] at this
        simp [hr, this]
      · have : ¬ (o % s).toInt = 0 := fun h => hr ((int64_eq_zero_iff _).2 h)
        rw [Int64.toInt_mod] at this
        simp [hr, this]

end LolHtml.Lemmas.Nth
