import LolHtml.Lemmas.TbJoint2
import LolHtml.Gen.Tags
/-!
Names as bytes: the table that ties the tag names of `Spec.TreeBuilder` (an enumeration) to the byte
strings the tokenizer produces (lower-case ASCII), and through `NameHash.ofBytes` to the hashes the
tree-builder simulator compares. `agree_named`: on every name of the enumeration the generated hash lists
and the name tests of the standard agree (`Agree`).
-/
namespace LolHtml.Spec.TreeBuilder
open LolHtml LolHtml.Model

/-- lower-case name bytes of every enumerated name -/
def nameTable : List (Bytes × Name) := [
  ([104, 116, 109, 108], .html),
  ([104, 101, 97, 100], .head),
  ([98, 111, 100, 121], .body),
  ([116, 105, 116, 108, 101], .title),
  ([98, 97, 115, 101], .base),
  ([98, 97, 115, 101, 102, 111, 110, 116], .basefont),
  ([98, 103, 115, 111, 117, 110, 100], .bgsound),
  ([108, 105, 110, 107], .link),
  ([109, 101, 116, 97], .«meta»),
  ([115, 116, 121, 108, 101], .style),
  ([115, 99, 114, 105, 112, 116], .script),
  ([110, 111, 115, 99, 114, 105, 112, 116], .noscript),
  ([116, 101, 109, 112, 108, 97, 116, 101], .template),
  ([102, 114, 97, 109, 101, 115, 101, 116], .frameset),
  ([102, 114, 97, 109, 101], .frame),
  ([110, 111, 102, 114, 97, 109, 101, 115], .noframes),
  ([116, 97, 98, 108, 101], .table),
  ([99, 97, 112, 116, 105, 111, 110], .caption),
  ([99, 111, 108, 103, 114, 111, 117, 112], .colgroup),
  ([99, 111, 108], .col),
  ([116, 98, 111, 100, 121], .tbody),
  ([116, 104, 101, 97, 100], .thead),
  ([116, 102, 111, 111, 116], .tfoot),
  ([116, 114], .tr),
  ([116, 100], .td),
  ([116, 104], .th),
  ([115, 101, 108, 101, 99, 116], .select),
  ([111, 112, 116, 105, 111, 110], .option),
  ([111, 112, 116, 103, 114, 111, 117, 112], .optgroup),
  ([105, 110, 112, 117, 116], .input),
  ([107, 101, 121, 103, 101, 110], .keygen),
  ([116, 101, 120, 116, 97, 114, 101, 97], .textarea),
  ([104, 114], .hr),
  ([120, 109, 112], .xmp),
  ([105, 102, 114, 97, 109, 101], .iframe),
  ([110, 111, 101, 109, 98, 101, 100], .noembed),
  ([112, 108, 97, 105, 110, 116, 101, 120, 116], .plaintext),
  ([112], .p),
  ([108, 105], .li),
  ([100, 100], .dd),
  ([100, 116], .dt),
  ([104, 49], .h1),
  ([104, 50], .h2),
  ([104, 51], .h3),
  ([104, 52], .h4),
  ([104, 53], .h5),
  ([104, 54], .h6),
  ([97, 100, 100, 114, 101, 115, 115], .address),
  ([97, 114, 116, 105, 99, 108, 101], .article),
  ([97, 115, 105, 100, 101], .aside),
  ([98, 108, 111, 99, 107, 113, 117, 111, 116, 101], .blockquote),
  ([99, 101, 110, 116, 101, 114], .center),
  ([100, 101, 116, 97, 105, 108, 115], .details),
  ([100, 105, 97, 108, 111, 103], .dialog),
  ([100, 105, 114], .dir),
  ([100, 105, 118], .div),
  ([100, 108], .dl),
  ([102, 105, 101, 108, 100, 115, 101, 116], .fieldset),
  ([102, 105, 103, 99, 97, 112, 116, 105, 111, 110], .figcaption),
  ([102, 105, 103, 117, 114, 101], .figure),
  ([102, 111, 111, 116, 101, 114], .footer),
  ([104, 101, 97, 100, 101, 114], .header),
  ([104, 103, 114, 111, 117, 112], .hgroup),
  ([109, 97, 105, 110], .main),
  ([109, 101, 110, 117], .menu),
  ([110, 97, 118], .nav),
  ([111, 108], .ol),
  ([112, 114, 101], .pre),
  ([108, 105, 115, 116, 105, 110, 103], .listing),
  ([115, 101, 97, 114, 99, 104], .search),
  ([115, 101, 99, 116, 105, 111, 110], .«section»),
  ([115, 117, 109, 109, 97, 114, 121], .summary),
  ([117, 108], .ul),
  ([102, 111, 114, 109], .form),
  ([98, 117, 116, 116, 111, 110], .button),
  ([97], .a),
  ([98], .b),
  ([98, 105, 103], .big),
  ([99, 111, 100, 101], .code),
  ([101, 109], .em),
  ([102, 111, 110, 116], .font),
  ([105], .i),
  ([115], .s),
  ([115, 109, 97, 108, 108], .small),
  ([115, 116, 114, 105, 107, 101], .strike),
  ([115, 116, 114, 111, 110, 103], .strong),
  ([116, 116], .tt),
  ([117], .u),
  ([110, 111, 98, 114], .nobr),
  ([97, 112, 112, 108, 101, 116], .applet),
  ([109, 97, 114, 113, 117, 101, 101], .marquee),
  ([111, 98, 106, 101, 99, 116], .object),
  ([97, 114, 101, 97], .area),
  ([98, 114], .br),
  ([101, 109, 98, 101, 100], .embed),
  ([105, 109, 103], .img),
  ([119, 98, 114], .wbr),
  ([112, 97, 114, 97, 109], .param),
  ([115, 111, 117, 114, 99, 101], .source),
  ([116, 114, 97, 99, 107], .track),
  ([105, 109, 97, 103, 101], .image),
  ([114, 98], .rb),
  ([114, 116, 99], .rtc),
  ([114, 112], .rp),
  ([114, 116], .rt),
  ([114, 117, 98, 121], .ruby),
  ([109, 97, 116, 104], .math),
  ([115, 118, 103], .svg),
  ([109, 105], .mi),
  ([109, 111], .mo),
  ([109, 110], .mn),
  ([109, 115], .ms),
  ([109, 116, 101, 120, 116], .mtext),
  ([97, 110, 110, 111, 116, 97, 116, 105, 111, 110, 45, 120, 109, 108], .annotationXml),
  ([109, 103, 108, 121, 112, 104], .mglyph),
  ([109, 97, 108, 105, 103, 110, 109, 97, 114, 107], .malignmark),
  ([102, 111, 114, 101, 105, 103, 110, 111, 98, 106, 101, 99, 116], .foreignobject),
  ([100, 101, 115, 99], .desc),
  ([115, 112, 97, 110], .span),
  ([115, 117, 98], .sub),
  ([115, 117, 112], .sup),
  ([118, 97, 114], .var)
]

/-- the bytes of a name (`other k`: the base-256 digits of `k`) -/
def Name.bytes (n : Name) : Bytes :=
  match n with
  | .other k => (Nat.toDigits 256 k).map (fun ch => UInt8.ofNat (ch.toNat)) -- not used by the theorems
  | _ => ((nameTable.find? (·.2 == n)).map (·.1)).getD []

/-- the name of a (lower-case) byte string -/
def Name.ofBytes (b : Bytes) : Name :=
  match nameTable.find? (·.1 == b) with
  | some (_, n) => n
  | none => .other (b.foldl (fun acc x => acc * 256 + x.toNat) 0)

theorem agree_iff (cfg : TagCfg) (h : Nat) (n : Name) :
    Agree cfg h n ↔
      (switchOfFeedback (textTypeAdjustment cfg h) = switchOf cfgStd n ∧ (h = cfg.svg ↔ n = .svg) ∧
       (h = cfg.math ↔ n = .math) ∧ (h = cfg.gSelect ↔ n = .select) ∧ (h = cfg.gFrameset ↔ n = .frameset) ∧
       (h = cfg.gNoframes ↔ n = .noframes) ∧ (h ∈ cfg.guardTextSwitch ↔ switchOf cfgStd n ≠ .none)) :=
  ⟨fun a => ⟨a.tta, a.svg, a.math, a.gSelect, a.gFrameset, a.gNoframes, a.gText⟩,
   fun ⟨a, b, c, d, e, f, g⟩ => ⟨a, b, c, d, e, f, g⟩⟩

instance (cfg : TagCfg) (h : Nat) (n : Name) : Decidable (Agree cfg h n) := decidable_of_iff _ (agree_iff cfg h n).symm

/-- on every enumerated name the generated tag lists agree with the standard's name tests -/
theorem agree_named : ∀ p ∈ nameTable, Agree Gen.Tags.cfg (NameHash.ofBytes p.1) p.2 := by decide +kernel

/-- the event lol-html's lexer produces for a token with an enumerated tag name -/
def evOf (t : Token) : TbEv :=
  match t with
  | .start n sc _ => ⟨t, NameHash.ofBytes n.bytes, ⟨true, n.bytes, [], sc⟩⟩
  | .end n => ⟨t, NameHash.ofBytes n.bytes, ⟨false, n.bytes, [], false⟩⟩
  | _ => ⟨t, 0, default⟩

end LolHtml.Spec.TreeBuilder
