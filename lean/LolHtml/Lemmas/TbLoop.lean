import LolHtml.Lemmas.TbSw4
/-!
All insertion modes together, the dispatcher and the token loop: one token preserves the invariant and
answers the tokenizer as `switchOf` says.
-/
namespace LolHtml.Spec.TreeBuilder
open LolHtml.Model (Ns)

variable {b : Bool} {c : Cfg} {s : State}

/-- in "text" only character, end-tag and end-of-file tokens occur -/
def TextTok : Token → Prop
  | .char _ => True
  | .eof => True
  | .end _ => True
  | _ => False

theorem stepMode_inv (hleg : c.legacySelect = false) (hG : GInv b s) (t : Token) (htok : TokOk b t)
    (htext : s.mode = .text → TextTok t) : InvPost b (stepMode c s t) := by
  rcases hG with hI | hC
  · have hm := hI.modes
    have hnc := hI.notCol
    unfold stepMode
    cases hmode : s.mode <;> simp only
    case initial => exact initial_inv hleg hI hmode t htok
    case beforeHtml => exact beforeHtml_inv hleg hI hmode t htok
    case beforeHead => exact beforeHead_inv hI t
    case inHead => exact inHead_inv hI (by simp [hmode]) (by simp [hmode]) t htok (Or.inl hmode)
    case inHeadNoscript => exact inHeadNoscript_inv hleg hI hmode t htok
    case afterHead => exact afterHead_inv hleg hI hmode t htok
    case inBody => exact inBody_inv hleg hI (by simp [hmode]) (by simp [hmode]) t htok
    case text =>
      have := htext hmode
      exact text_inv hI hmode t (by cases t <;> simp_all [TextTok])
    case inTable => exact inTable_inv hleg hI (Or.inl hmode) t htok
    case inTableText => exact inTableText_inv hI hmode t
    case inCaption => exact inCaption_inv hleg hI hmode t htok
    case inColumnGroup => exact (hnc hmode).elim
    case inTableBody => exact inTableBody_inv hleg hI hmode t htok
    case inRow => exact inRow_inv hleg hI hmode t htok
    case inCell => exact inCell_inv hleg hI hmode t htok
    case inSelect => simp [MF, hmode] at hm
    case inSelectInTable => simp [MF, hmode] at hm
    case inTemplate => simp [MF, hmode] at hm
    case afterBody => exact afterBody_inv hleg hI hmode t htok
    case inFrameset => exact inFrameset_inv hleg hI hmode t htok
    case afterFrameset => exact afterFrameset_inv hleg hI hmode t htok
    case afterAfterBody => exact afterAfterBody_inv hleg hI hmode t htok
    case afterAfterFrameset => exact afterAfterFrameset_inv hleg hI hmode t htok
  · have := inColumnGroup_inv (c := c) hC t htok
    simpa [stepMode, hC.mode] using this

theorem GInv.tmodes (hG : GInv b s) : s.tmodes = [] := by
  rcases hG with h | h
  · exact h.tmodes
  · exact h.tmodes

theorem stepMode_sw (hG : GInv b s) (hns : NsOk c s) (h1 : s.mode ≠ .text) (t : Token) : SwPost c t s (stepMode c s t) := by
  have htm := hG.tmodes
  rcases hG with hI | hC
  · have hm := hI.modes
    have hnc := hI.notCol
    unfold stepMode
    cases hmode : s.mode <;> simp only
    case initial => exact initial_sw hmode t
    case beforeHtml => exact beforeHtml_sw hmode t
    case beforeHead => exact beforeHead_sw hmode t
    case inHead => exact inHead_sw (by simp [hmode]) htm t (Or.inl hmode)
    case inHeadNoscript =>
      have : c.scripting = false := by
        cases hs : c.scripting with
        | false => rfl
        | true => exact absurd hmode (hns hs).1
      exact inHeadNoscript_sw hmode this htm t
    case afterHead => exact afterHead_sw hmode htm t
    case inBody => exact inBody_sw (by simp [hmode]) htm t
    case text => exact (h1 hmode).elim
    case inTable => exact inTable_sw (by simp [hmode]) htm t
    case inTableText =>
      have := hm.2.1 hmode
      simp only [List.mem_cons, List.mem_nil_iff, or_false] at this
      exact inTableText_sw hmode this t
    case inCaption => exact inCaption_sw hmode htm t
    case inColumnGroup => exact (hnc hmode).elim
    case inTableBody => exact inTableBody_sw hmode htm t
    case inRow => exact inRow_sw hmode htm t
    case inCell => exact inCell_sw hmode htm t
    case inSelect => simp [MF, hmode] at hm
    case inSelectInTable => simp [MF, hmode] at hm
    case inTemplate => simp [MF, hmode] at hm
    case afterBody => exact afterBody_sw hmode htm t
    case inFrameset => exact inFrameset_sw hmode htm t
    case afterFrameset => exact afterFrameset_sw hmode htm t
    case afterAfterBody => exact afterAfterBody_sw hmode htm t
    case afterAfterFrameset => exact afterAfterFrameset_sw hmode htm t
  · have := inColumnGroup_sw (c := c) hC.mode hC.currentIs htm hC.noTemplate t
    simpa [stepMode, hC.mode] using this

/-- with the invariant the adjusted current node is an HTML element: the dispatcher always chooses the
insertion mode's rules -/
theorem useHtmlRules_of_inv (hG : GInv b s) (t : Token) : useHtmlRules s t = true := by
  unfold useHtmlRules
  cases hst : s.tree.stack with
  | nil => simp [State.stack, hst]
  | cons e es =>
    have : e.ns = .html := by
      rcases hG with hI | hC
      · exact (hI.tree.stack e (by simp [hst])).1
      · obtain ⟨e', rest, h1, h2, -⟩ := hC.top
        rw [hst] at h1
        injection h1 with h1 _
        subst h1
        simp only [El.isHtml, Bool.and_eq_true, beq_iff_eq] at h2
        exact h2.1
    simp [State.stack, hst, this]

end LolHtml.Spec.TreeBuilder
