import LolHtml.Lemmas.GuardCompose
import LolHtml.Lemmas.RunRelClean
/-!
# The argument guard on top of any guard, in the strong form `GuardFree2`; clean controllers are fresh for it
-/
set_option linter.unusedSimpArgs false
set_option linter.unusedVariables false
namespace LolHtml.Model.RelI
open LolHtml LolHtml.Model
open LolHtml.Thm.C01 (writeAll run Rewriter.new)

variable {γ : Type}

theorem withArgs_fires {s0 : String} {K : SGuard (Disp γ)} {e : Err} (h : (withArgs s0 K).Fires e) :
    e = .panic s0 ∨ e = .panic rawSite ∨ K.Fires e := by
  rcases h with ⟨inp, lx, k, h⟩ | ⟨inp, lx, k, h⟩
  · simp only [withArgs] at h
    cases hg : (argGuard s0).tag inp lx with
    | some e' =>
      rw [hg] at h
      simp only [Option.some.injEq] at h
      subst h
      rcases argGuard_fires (Or.inl ⟨lx, hg⟩) with h | h
      · exact Or.inl h
      · exact Or.inr (Or.inl h)
    | none => rw [hg] at h; exact Or.inr (Or.inr (Or.inl ⟨inp, lx, k, h⟩))
  · simp only [withArgs] at h
    cases hg : (argGuard s0).nonTag inp lx with
    | some e' =>
      rw [hg] at h
      simp only [Option.some.injEq] at h
      subst h
      rcases argGuard_fires (Or.inr ⟨lx, hg⟩) with h | h
      · exact Or.inl h
      · exact Or.inr (Or.inl h)
    | none => rw [hg] at h; exact Or.inr (Or.inr (Or.inr ⟨inp, lx, k, h⟩))

/-- the dispatcher over a controller that is clean in every state is fresh for the argument guard -/
theorem argsCtl_of_clean {w : World γ} (hc : CtlClean w.ctl) {s0 : String} (hs0 : T2 s0) :
    ArgsCtl w s0 (fun _ => True) where
  fresh := fun inp => by
    have hs2 : SinkSafe2 (dispOps w.ctl) inp := dispOps_safe2 hc
    have ne : ∀ {e : Err} {s : String}, T2 s → ErrNot T2 e → e ≠ .panic s := fun hs h hh => by subst hh; exact h hs
    exact
      { handleTag := fun lx k _ hv =>
          ⟨fun hh => ne hs0 (hs2.handleTag lx k hv.1.1 hv.1.2 _ hh) rfl,
           fun hh => ne rawSite_T2 (hs2.handleTag lx k hv.1.1 hv.1.2 _ hh) rfl, fun _ _ => trivial⟩
        handleNonTag := fun lx k _ hv =>
          ⟨fun hh => ne hs0 (hs2.handleNonTag lx k hv.1 hv.2 _ hh) rfl,
           fun hh => ne rawSite_T2 (hs2.handleNonTag lx k hv.1 hv.2 _ hh) rfl, fun _ _ => trivial⟩
        startTagHint := fun n ns k _ =>
          ⟨fun hh => ne hs0 (hs2.startTagHint n ns k _ hh) rfl,
           fun hh => ne rawSite_T2 (hs2.startTagHint n ns k _ hh) rfl, fun _ _ => trivial⟩
        endTagHint := fun n k _ =>
          ⟨fun hh => ne hs0 (hs2.endTagHint n k _ hh) rfl,
           fun hh => ne rawSite_T2 (hs2.endTagHint n k _ hh) rfl, fun _ _ => trivial⟩ }
  flush := fun _ _ _ _ _ _ => trivial

section
variable {w : World γ} {cert : Cert} {rcert : RCert} {s0 : String} {Dk : Disp γ → Prop} {K : SGuard (Disp γ)}

/-- **the argument part of a combined guard is free**, strong form -/
theorem guardFree2_withArgs (ht : ArgsTable w.tbl cert rcert) (hs0 : T2 s0) (hne : s0 ≠ rawSite) (hf : ArgsCtl w s0 Dk)
    (g : γ) (cfg : Settings) (hD : Dk (Disp.new w.ctl g cfg.encoding)) (hK : ∀ inp, KFresh s0 K inp)
    (hgK : GuardFree2 w K g cfg) : GuardFree2 w (withArgs s0 K) g cfg := by
  intro pre hu
  have hr := run_rargs ht hs0 hne hf g cfg hD pre
  have hs : SArgs w cert rcert Dk (writeAll w (Rewriter.new w g cfg) pre).1.stream :=
    hr.resolve_left (by rw [hu]; intro h; cases h)
  obtain ⟨k1, k2⟩ := hgK pre hu
  constructor
  · intro data s1 chunk hcf
    obtain ⟨hp, hd, _⟩ := (Stream.write_sargs ht hs0 hne hf _ data hs).1 s1 chunk hcf
    obtain ⟨a1, a2, a3, _⟩ := parse_args_valid (cfg := w.tags) (ops := guardS K (dispOps w.ctl)) ht.wf ht.cert ht.rcert ht.emits hs0 hne
      (argsFresh_guardS (hf.fresh chunk) (hK chunk)) false s1.parser hp hd
    obtain ⟨b1, b2⟩ := k1 data s1 chunk hcf
    have b1' : Parser.parse ⟨w.tbl, w.tags, guardS K (dispOps w.ctl)⟩ chunk false s1.parser = Parser.parse w.env chunk false s1.parser := b1
    refine ⟨?_, fun e hF => ?_⟩
    · unfold envS
      rw [guardS_withArgs, a1]
      exact b1
    · rcases withArgs_fires hF with rfl | rfl | hFK
      · rw [← b1']; exact a2
      · rw [← b1']; exact a3
      · exact b2 e hFK
  · obtain ⟨hp, hd, _⟩ := Stream.end_sargs ht hs0 hne hf _ hs
    obtain ⟨a1, a2, a3, _⟩ := parse_args_valid (cfg := w.tags) (ops := guardS K (dispOps w.ctl)) ht.wf ht.cert ht.rcert ht.emits hs0 hne
      (argsFresh_guardS (hf.fresh _) (hK _)) true _ hp hd
    obtain ⟨b1, b2⟩ := k2
    refine ⟨?_, fun e hF => ?_⟩
    · unfold envS
      rw [guardS_withArgs, a1]
      exact b1
    · have b1' := b1
      unfold envS at b1'
      rcases withArgs_fires hF with rfl | rfl | hFK
      · rw [← b1']; exact a2
      · rw [← b1']; exact a3
      · exact b2 e hFK

end
end LolHtml.Model.RelI
