import LolHtml.Lemmas.StreamTiling
/-!
The sink log only grows, and nothing the dispatcher emits while processing input is a zero-length
chunk — for EVERY controller (mutating ones included).
-/
namespace LolHtml.Model

variable {γ : Type}

/-- no zero-length chunk in a piece of sink log -/
def NoEmpty (l : List SinkEv) : Prop := ∀ ev ∈ l, ev ≠ SinkEv.chunk []

/-- `d'` extends `d`'s sink log by events none of which is a zero-length chunk -/
def Grows (d d' : Disp γ) : Prop := ∃ l, d'.sink = d.sink ++ l ∧ NoEmpty l

theorem NoEmpty.nil : NoEmpty [] := by intro ev h; cases h
theorem NoEmpty.append {a b : List SinkEv} (ha : NoEmpty a) (hb : NoEmpty b) : NoEmpty (a ++ b) := by
  intro ev h
  rcases List.mem_append.mp h with h | h
  · exact ha ev h
  · exact hb ev h

theorem Grows.refl (d : Disp γ) : Grows d d := ⟨[], by simp, NoEmpty.nil⟩

theorem Grows.of_sink_eq {d d' : Disp γ} (h : d'.sink = d.sink) : Grows d d' := ⟨[], by simp [h], NoEmpty.nil⟩

theorem Grows.trans {a b c : Disp γ} (h1 : Grows a b) (h2 : Grows b c) : Grows a c := by
  obtain ⟨l1, e1, n1⟩ := h1
  obtain ⟨l2, e2, n2⟩ := h2
  exact ⟨l1 ++ l2, by rw [e2, e1, List.append_assoc], n1.append n2⟩

theorem Grows.push_nonempty (d : Disp γ) (b : Bytes) (hb : b ≠ []) : Grows d (d.push b) := by
  refine ⟨[.chunk b], rfl, ?_⟩
  intro ev h
  simp only [List.mem_singleton] at h
  subst h
  intro hc; injection hc with hc; exact hb hc

theorem DRes.bind_grows {α β : Type} (d0 : Disp γ) (r : DRes γ α) (f : Disp γ → α → DRes γ β)
    (hr : Grows d0 r.1) (hf : ∀ d a, Grows d (f d a).1) : Grows d0 (DRes.bind r f).1 :=
  DRes.bind_fst (Grows d0) r f hr (fun d a hd => hd.trans (hf d a))

section
variable {ctl : Controller γ} {inp : Bytes}

theorem noteNextEncoding_sink (d : Disp γ) (o : Option Nat) : (d.noteNextEncoding o).sink = d.sink :=
  (noteNextEncoding_frame d o).1

theorem pushChunks_grows (d : Disp γ) (cs : List Bytes) : Grows d (d.pushChunks cs) := by
  unfold Disp.pushChunks
  split
  · refine ⟨_, rfl, ?_⟩
    intro ev h
    simp only [List.mem_map, List.mem_filter] at h
    obtain ⟨c, ⟨_, hc⟩, rfl⟩ := h
    intro heq; injection heq with heq
    subst heq; simp at hc
  · exact Grows.refl d

theorem tokenProduced_grows (d : Disp γ) (t : Token) : Grows d (Disp.tokenProduced ctl d t).1 := by
  unfold Disp.tokenProduced
  have h := pushChunks_grows (({ d with ctl := (ctl.token d.ctl t).1 }).noteNextEncoding (ctl.token d.ctl t).2.nextEncoding)
    (ctl.token d.ctl t).2.chunks
  have h0 : Grows d (({ d with ctl := (ctl.token d.ctl t).1 }).noteNextEncoding (ctl.token d.ctl t).2.nextEncoding) :=
    Grows.of_sink_eq (by rw [noteNextEncoding_sink])
  dsimp only
  split <;> exact h0.trans h

theorem flushPendingText_grows (d : Disp γ) : Grows d (d.flushPendingText ctl).1 := by
  unfold Disp.flushPendingText
  split
  · exact (Grows.of_sink_eq (d := d) (d' := { d with textPending := false }) rfl).trans (tokenProduced_grows _ _)
  · exact Grows.refl d

theorem flushEncodingChange_grows (d : Disp γ) : Grows d d.flushEncodingChange := by
  unfold Disp.flushEncodingChange
  split
  · split
    · refine ⟨[.enc _], rfl, ?_⟩
      intro ev h; simp only [List.mem_singleton] at h; subst h; intro hc; cases hc
    · exact Grows.refl d
  · exact Grows.refl d

theorem emitChunkBefore_grows (d d' : Disp γ) (raw : Range) (h : d.emitChunkBefore inp raw = .ok d') : Grows d d' := by
  unfold Disp.emitChunkBefore at h
  split at h
  · simp at h
  · rename_i chunk _
    simp only [Except.ok.injEq] at h
    subst h
    split
    · rename_i hc
      have hne : chunk ≠ [] := by
        intro he; subst he; simp at hc
      exact (Grows.push_nonempty d chunk hne).trans (Grows.of_sink_eq rfl)
    · exact Grows.of_sink_eq rfl

theorem ofExcept_emitChunkBefore_grows (d : Disp γ) (raw : Range) :
    Grows d (DRes.ofExcept d (d.emitChunkBefore inp raw)).1 := by
  cases h : d.emitChunkBefore inp raw with
  | error e => exact Grows.refl d
  | ok d' => exact emitChunkBefore_grows d d' raw h

theorem emitToken_grows (d : Disp γ) (raw : Range) (tok : Token) : Grows d (d.emitToken ctl inp raw tok).1 := by
  unfold Disp.emitToken
  apply DRes.bind_grows d _ _ (ofExcept_emitChunkBefore_grows d raw)
  intro d1 _
  apply DRes.bind_grows d1 _ _ (tokenProduced_grows d1 tok)
  intro d2 _
  exact (Grows.of_sink_eq (d := d2) (d' := { d2 with rcs := raw.end }) rfl).trans (flushEncodingChange_grows _)

theorem produceTag_grows (d : Disp γ) (lx : TagLexeme) : Grows d (d.produceTag ctl inp lx).1 := by
  unfold Disp.produceTag
  split
  · exact Grows.refl d
  · split
    · exact Grows.of_sink_eq rfl
    · exact (Grows.of_sink_eq (d := d) rfl).trans (emitToken_grows _ _ _)

theorem produceText_grows (d : Disp γ) (lx : NonTagLexeme) (tt : TextType) : Grows d (d.produceText ctl inp lx tt).1 := by
  unfold Disp.produceText
  split
  · exact Grows.refl d
  · apply DRes.bind_grows d _ _ (ofExcept_emitChunkBefore_grows d lx.raw)
    intro d1 _
    apply DRes.bind_grows d1 _ _
      ((Grows.of_sink_eq (d := d1) (d' := { d1 with lastTextType := tt }) rfl).trans (tokenProduced_grows _ _))
    intro d2 _
    exact Grows.of_sink_eq rfl

theorem produceNonTag_grows (d : Disp γ) (lx : NonTagLexeme) : Grows d (d.produceNonTag ctl inp lx).1 := by
  unfold Disp.produceNonTag
  split
  · split
    · exact produceText_grows d lx _
    · exact Grows.refl d
  · split
    · exact Grows.refl d
    · exact Grows.refl d
    · exact emitToken_grows d _ _

theorem handleTag_grows (lx : TagLexeme) (d : Disp γ) : Grows d (Disp.handleTag ctl inp lx d).1 := by
  unfold Disp.handleTag
  apply DRes.bind_grows d _ _ (flushPendingText_grows d)
  intro d1 _
  apply DRes.bind_grows d1
  · split
    · exact Grows.of_sink_eq rfl
    · exact Grows.of_sink_eq (adjustFlagsForTag_frame d1 lx).1
  · intro d2 _
    apply DRes.bind_grows d2
    · refine (Grows.of_sink_eq (d := d2) (d' := d2.resumeEmission ctl lx) ?_).trans (produceTag_grows _ lx)
      unfold Disp.resumeEmission; split <;> rfl
    · intro d3 _
      exact Grows.of_sink_eq rfl

theorem handleNonTag_grows (lx : NonTagLexeme) (d : Disp γ) : Grows d (Disp.handleNonTag ctl inp lx d).1 := by
  unfold Disp.handleNonTag
  apply DRes.bind_grows d
  · split
    · exact Grows.refl d
    · exact flushPendingText_grows d
  · intro d1 _
    exact produceNonTag_grows d1 lx

theorem startTagHint_grows (name : LocalName) (ns : Ns) (d : Disp γ) : Grows d (Disp.startTagHint ctl name ns d).1 := by
  unfold Disp.startTagHint
  dsimp only
  split
  · exact Grows.of_sink_eq (applyHintFlags_frame _ _).1
  · exact Grows.of_sink_eq rfl
  · exact Grows.of_sink_eq rfl

theorem endTagHint_grows (name : LocalName) (d : Disp γ) : Grows d (Disp.endTagHint ctl name d).1 := by
  unfold Disp.endTagHint
  apply DRes.bind_grows d _ _ (flushPendingText_grows d)
  intro d1 _
  dsimp only
  exact Grows.of_sink_eq (applyHintFlags_frame _ _).1

/-- For every controller, the four sink operations only append to the sink log, and never a
zero-length chunk. -/
theorem dispOps_grows (d0 : Disp γ) : OpsPreserve (dispOps ctl) inp (Grows d0) where
  handleTag := fun lx k hk => hk.trans (handleTag_grows lx k)
  handleNonTag := fun lx k hk => hk.trans (handleNonTag_grows lx k)
  startTagHint := fun n ns k hk => hk.trans (startTagHint_grows n ns k)
  endTagHint := fun n k hk => hk.trans (endTagHint_grows n k)

end
end LolHtml.Model

namespace LolHtml.Model
variable {γ : Type} {w : World γ}

/-- content appended by end handlers / bail-out handlers goes through the text encoder, which never
emits an empty slice (C13_encoder); stated here as a hypothesis on the controller -/
structure CleanEnds (ctl : Controller γ) : Prop where
  handleEnd : ∀ g, NoEmpty ((ctl.handleEnd g).2.1.map .chunk)
  bailOut : ∀ g e, NoEmpty ((ctl.bailOut g e).2.map .chunk)

theorem flushRemaining_grows (d d' : Disp γ) (inp : Bytes) (c : Nat) (h : d.flushRemaining inp c = .ok d') : Grows d d' := by
  unfold Disp.flushRemaining at h
  split at h
  · split at h
    · simp at h
    · rename_i out _
      simp only [Except.ok.injEq] at h
      subst h
      split
      · exact Grows.of_sink_eq rfl
      · rename_i hc
        have hne : out ≠ [] := by intro he; subst he; simp at hc
        exact (Grows.push_nonempty d out hne).trans (Grows.of_sink_eq rfl)
  · simp only [Except.ok.injEq] at h; subst h; exact Grows.of_sink_eq rfl

theorem flushForBailOut_grows (d d' : Disp γ) (inp : Bytes) (h : d.flushForBailOut inp = .ok d') : Grows d d' := by
  unfold Disp.flushForBailOut at h
  split at h
  · simp at h
  · rename_i out _
    simp only [Except.ok.injEq] at h
    subst h
    split
    · exact Grows.of_sink_eq rfl
    · rename_i hc
      have hne : out ≠ [] := by intro he; subst he; simp at hc
      exact (Grows.push_nonempty d out hne).trans (Grows.of_sink_eq rfl)

theorem runBailOut_grows (hc : CleanEnds w.ctl) (d : Disp γ) (e : Err) : Grows d (d.runBailOut w.ctl e) :=
  ⟨_, rfl, hc.bailOut d.ctl e⟩

theorem bail_fold_grows (d : Disp γ) (slices : List Bytes) :
    Grows d (slices.foldl (fun d sl => match d.flushForBailOut sl with | .ok d => d | .error _ => d) d) := by
  induction slices generalizing d with
  | nil => exact Grows.refl d
  | cons sl rest ih =>
    simp only [List.foldl_cons]
    cases h : d.flushForBailOut sl with
    | error e => simpa [h] using ih d
    | ok d' => simpa [h] using (flushForBailOut_grows d d' sl h).trans (ih d')

theorem Stream.bail_grows (hc : CleanEnds w.ctl) (s : Stream γ) (e : Err) (slices : List Bytes) :
    Grows s.disp (s.bail w e slices).disp := by
  unfold Stream.bail
  split
  · simp only [Stream.disp, Stream.setDisp]
    exact (runBailOut_grows hc _ e).trans (bail_fold_grows _ slices)
  · exact Grows.refl _

theorem Stream.parse_grows (s : Stream γ) (chunk : Bytes) (last : Bool) :
    Grows s.disp (s.parser.parse w.env chunk last).1.x.sink :=
  Parser.parse_sink (P := Grows s.disp) (dispOps_grows s.disp) last s.parser (Grows.refl _)

/-- every `write`, whatever its outcome, only appends non-empty events to the sink log -/
theorem Stream.write_grows (hc : CleanEnds w.ctl) (s : Stream γ) (data : Bytes) :
    Grows s.disp (s.write w data).1.disp := by
  unfold Stream.write
  cases hcf : s.chunkFor w data with
  | inl s' =>
    obtain ⟨_, hs'⟩ := Stream.chunkFor_inl hcf
    subst hs'
    exact Stream.bail_grows hc { s with buf := (s.buf.append data).1 } .mem _
  | inr sc =>
    obtain ⟨s1, chunk⟩ := sc
    obtain ⟨_, c2, _, _, _⟩ := Stream.chunkFor_inr hcf
    have hd1 : s1.disp = s.disp := by simp [Stream.disp, c2]
    have hp := Stream.parse_grows (w := w) s1 chunk false
    rw [hd1] at hp
    dsimp only
    cases hpr : (s1.parser.parse w.env chunk false).2 with
    | error e =>
      dsimp only
      exact hp.trans (Stream.bail_grows hc { s1 with parser := (s1.parser.parse w.env chunk false).1 } e [chunk])
    | ok consumed =>
      dsimp only
      cases hfl : Disp.flushRemaining (Stream.disp { s1 with parser := (s1.parser.parse w.env chunk false).1 }) chunk consumed with
      | error e => exact hp
      | ok d =>
        have hg := hp.trans (flushRemaining_grows _ d chunk consumed hfl)
        dsimp only
        unfold Stream.keepTail
        split
        · split
          · split
            · exact hg
            · exact hg
          · dsimp only
            split
            · exact hg
            · refine hg.trans ?_
              exact Stream.bail_grows hc
                { Stream.setDisp { s1 with parser := (s1.parser.parse w.env chunk false).1 } d with
                  buf := ((Stream.setDisp { s1 with parser := (s1.parser.parse w.env chunk false).1 } d).buf.initWith (data.drop consumed)).1 }
                .mem _
        · exact hg

/-- `end`: a successful one appends non-empty events and then exactly one zero-length chunk; a failed
one appends only non-empty events -/
theorem Stream.end_grows (hc : CleanEnds w.ctl) (s : Stream γ) :
    match (s.end w).2 with
    | .ok _ => ∃ l, (s.end w).1.disp.sink = s.disp.sink ++ l ++ [.chunk []] ∧ NoEmpty l
    | .error _ => Grows s.disp (s.end w).1.disp := by
  unfold Stream.end
  dsimp only
  generalize (if s.hasBuffered = true then s.buf.data else []) = chunk
  have hp := Stream.parse_grows (w := w) s chunk true
  cases hpr : (s.parser.parse w.env chunk true).2 with
  | error e =>
    dsimp only
    exact hp.trans (Stream.bail_grows hc { s with parser := (s.parser.parse w.env chunk true).1 } e [chunk])
  | ok consumed =>
    dsimp only
    simp only [setDisp_disp]
    unfold Disp.finish
    cases hfl : Disp.flushRemaining (Stream.disp { s with parser := (s.parser.parse w.env chunk true).1 }) chunk chunk.length with
    | error e =>
      simp only [DRes.ofExcept, DRes.bind]
      exact hp
    | ok d =>
      have hg := hp.trans (flushRemaining_grows _ d chunk chunk.length hfl)
      simp only [DRes.ofExcept, DRes.bind]
      obtain ⟨l, hl, hn⟩ := hg
      cases he : (w.ctl.handleEnd d.ctl).2.2 with
      | some e =>
        dsimp only
        exact ⟨l ++ (w.ctl.handleEnd d.ctl).2.1.map .chunk, by simp [hl, List.append_assoc], hn.append (hc.handleEnd d.ctl)⟩
      | none =>
        dsimp only
        exact ⟨l ++ (w.ctl.handleEnd d.ctl).2.1.map .chunk, by simp [hl, List.append_assoc], hn.append (hc.handleEnd d.ctl)⟩

end LolHtml.Model
