/-
The meta-charset state machine (`Model.Meta`) refines its closed-form specification.
-/
import LolHtml.Model.Meta

namespace LolHtml.Enc.MetaCharset
variable {α : Type} [DecidableEq α]

/-- Once a charset was found and applied (or was equal to the current one), nothing changes any more. -/
theorem runFrom_settled (adjust : Bool) (d : Disp α)
    (h : d.next = none ∧ adjust = false ∨ d.found = true ∧ d.next = some d.encoding) :
    ∀ (toks : List (Tok α)) (i : Nat), runFrom adjust d i toks = allIn d.encoding i toks := by
  intro toks
  induction toks with
  | nil => intro i; rfl
  | cons t ts ih =>
    intro i
    have hflush : flushEncodingChange d = (d, []) := by
      rcases h with ⟨h1, _⟩ | ⟨_, h2⟩
      · simp [flushEncodingChange, h1]
      · simp [flushEncodingChange, h2]
    have hhandler : ∀ cs, (if adjust = true then handler d cs else d) = d := by
      intro cs
      rcases h with ⟨_, h2⟩ | ⟨h1, _⟩
      · simp [h2]
      · simp [handler, h1]
    cases t with
    | metaTag cs => simp only [runFrom, stepTok, hhandler, hflush, allIn, List.cons_append, List.nil_append, ih]
    | tag => simp only [runFrom, stepTok, hflush, allIn, List.cons_append, List.nil_append, ih]
    | text => simp only [runFrom, stepTok, allIn, List.cons_append, List.nil_append, ih]

/-- Before any charset declaration was seen. -/
theorem runFrom_fresh (e0 : α) :
    ∀ (toks : List (Tok α)) (i : Nat),
      runFrom true ⟨e0, none, false⟩ i toks = specFrom e0 i toks := by
  intro toks
  induction toks with
  | nil => intro i; rfl
  | cons t ts ih =>
    intro i
    cases t with
    | metaTag cs =>
      cases cs with
      | none =>
        simp only [runFrom, stepTok, handler, flushEncodingChange, if_true, Bool.false_eq_true,
          if_false, specFrom, List.cons_append, List.nil_append, ih]
      | some c =>
        by_cases hc : c = e0
        · subst hc
          have := runFrom_settled true (⟨c, some c, true⟩ : Disp α) (Or.inr ⟨rfl, rfl⟩) ts (i + 1)
          simp [runFrom, stepTok, handler, flushEncodingChange, specFrom, this]
        · have := runFrom_settled true (⟨c, some c, true⟩ : Disp α) (Or.inr ⟨rfl, rfl⟩) ts (i + 1)
          simp [runFrom, stepTok, handler, flushEncodingChange, specFrom, hc, this]
    | tag =>
      simp only [runFrom, stepTok, flushEncodingChange, specFrom, List.cons_append, List.nil_append, ih]
    | text =>
      simp only [runFrom, stepTok, specFrom, List.cons_append, List.nil_append, ih]

theorem run_eq_spec (adjust : Bool) (e0 : α) (toks : List (Tok α)) :
    run adjust e0 toks = spec adjust e0 toks := by
  cases adjust with
  | true => simp [run, spec, runFrom_fresh]
  | false =>
    have := runFrom_settled false (⟨e0, none, false⟩ : Disp α) (Or.inl ⟨rfl, rfl⟩) toks 0
    simp [run, spec, this]

/-! consequences of the closed form -/

def isSet : Ev α → Bool
  | .setEncoding _ => true
  | .token _ _ => false

omit [DecidableEq α] in
theorem allIn_noSet (e : α) : ∀ (toks : List (Tok α)) (i : Nat), ((allIn e i toks).filter isSet) = [] := by
  intro toks
  induction toks with
  | nil => intro i; rfl
  | cons t ts ih => intro i; simp [allIn, isSet, ih]

theorem specFrom_sets (e0 : α) :
    ∀ (toks : List (Tok α)) (i : Nat), ((specFrom e0 i toks).filter isSet).length ≤ 1 := by
  intro toks
  induction toks with
  | nil => intro i; simp [specFrom]
  | cons t ts ih =>
    intro i
    cases t with
    | metaTag cs =>
      cases cs with
      | none => simpa [specFrom, isSet] using ih (i + 1)
      | some c =>
        simp only [specFrom]
        split <;> simp [List.filter_cons, isSet, allIn_noSet]
    | tag => simpa [specFrom, isSet] using ih (i + 1)
    | text => simpa [specFrom, isSet] using ih (i + 1)

/-- Every token is handled in the encoding the sink was last told about. -/
def consistent : α → List (Ev α) → Prop
  | _, [] => True
  | _, .setEncoding e :: rest => consistent e rest
  | cur, .token _ e :: rest => e = cur ∧ consistent cur rest

omit [DecidableEq α] in
theorem allIn_consistent (e : α) : ∀ (toks : List (Tok α)) (i : Nat), consistent e (allIn e i toks) := by
  intro toks
  induction toks with
  | nil => intro i; trivial
  | cons t ts ih => intro i; exact ⟨rfl, ih (i + 1)⟩

theorem specFrom_consistent (e0 : α) :
    ∀ (toks : List (Tok α)) (i : Nat), consistent e0 (specFrom e0 i toks) := by
  intro toks
  induction toks with
  | nil => intro i; trivial
  | cons t ts ih =>
    intro i
    cases t with
    | metaTag cs =>
      cases cs with
      | none => exact ⟨rfl, ih (i + 1)⟩
      | some c =>
        simp only [specFrom]
        split
        · exact ⟨rfl, allIn_consistent c ts (i + 1)⟩
        · exact ⟨rfl, allIn_consistent e0 ts (i + 1)⟩
    | tag => exact ⟨rfl, ih (i + 1)⟩
    | text => exact ⟨rfl, ih (i + 1)⟩

end LolHtml.Enc.MetaCharset
