import LolHtml.Lemmas.ChunkAbs
/-!
Lexer actions: each action maps related machines to related machines (with the validity flags
transformed by `absAct`), hands corresponding lexemes to the sink, and signals the same.
-/
namespace LolHtml.Model.Chunk
open LolHtml LolHtml.Model

variable {κ : Type}

/-- when the signal is a directive change, the machines (which `Parser.parse` stores) and the sinks are
still related, with whatever flags -/
def ScanIdle : Regs → Prop
  | .scanner s => s.tagStart = none
  | .lexer _ => True

def DirOk (δ : Nat) (K : Nat → κ → κ → Prop) (rs rw : M κ × Option Signal) : Prop :=
  ∀ dr bm, rs.2 = some (.directive dr bm) →
    ∃ ab'', MRel δ 0 0 ab'' .none rs.1 rw.1 ∧ K 0 rs.1.x.sink rw.1.x.sink ∧ ScanIdle rs.1.r

/-- outcome of running the same action / action list / arm body in both runs. `must`: the signal stops
the caller (written with `?`), so nothing is needed about the machines when there is one. -/
def ActSim (δ : Nat) (K : Nat → κ → κ → Prop) (ab' : Ab) (must : Bool) (rs rw : M κ × Option Signal) : Prop :=
  (must = true ∧ SPanic rs.2) ∨ (SigRel δ 0 rs.2 rw.2 ∧
    ((rs.2 = none ∨ must = false) → MRel δ 0 0 ab' .none rs.1 rw.1 ∧ K 0 rs.1.x.sink rw.1.x.sink) ∧
    DirOk δ K rs rw)

def sigOf : Except Err Unit → Option Signal
  | .ok () => none
  | .error e => some (.err e)

theorem lexEmitNonTag_eq (env : Env κ) (inp : Bytes) (c : Common) (l : LexRegs) (x : Ctx κ)
    (o : Option NonTagOutline) (e : Nat) :
    lexEmitNonTag env inp c l x o e =
      (⟨c, .lexer { l with lexemeStart := e },
        { x with sink := (env.ops.handleNonTag inp ⟨x.prevConsumed, ⟨l.lexemeStart, e⟩, o⟩ x.sink).1 }⟩,
       sigOf (env.ops.handleNonTag inp ⟨x.prevConsumed, ⟨l.lexemeStart, e⟩, o⟩ x.sink).2) := by
  unfold lexEmitNonTag
  dsimp only
  split <;> simp_all [sigOf]

theorem spanic_of_epanic {r : Except Err Unit} (h : EPanic r) : SPanic (sigOf r) := by
  match r, h with
  | .error (.panic _), _ => exact trivial

theorem sigOf_ne_dir (r : Except Err Unit) (dr : Directive) (bm : Bookmark) : sigOf r ≠ some (.directive dr bm) := by
  cases r with
  | ok u => intro h; cases h
  | error e => intro h; cases h

theorem sigOf_ok {r : Except Err Unit} (h : sigOf r = none ∨ true = false) : ∃ a, r = .ok a := by
  rcases h with h | h
  · cases r with
    | ok u => exact ⟨u, rfl⟩
    | error e => cases h
  · cases h

theorem sigRel_of_res (δ : Nat) (r : Except Err Unit) : SigRel δ 0 (sigOf r) (sigOf r) := by
  match r with
  | .ok () => exact trivial
  | .error e => exact rfl

section
variable {env : Env κ} {inpS inpW : Bytes} {δ : Nat} {K : Nat → κ → κ → Prop} {Loc : κ → Nat → Nat → TextType → Prop}

/-- all lexer validity flags off -/
def Ab.noLex (ab : Ab) : Prop :=
  ab.T = false ∧ ab.Gn = false ∧ ab.Ga = false ∧ ab.A = false ∧ ab.N = false ∧ ab.Nc = false

theorem Ab.stale_noLex (ab : Ab) : ab.stale.noLex := ⟨rfl, rfl, rfl, rfl, rfl, rfl⟩

/-- the lexer relation after a lexeme ending at `es` (split) / `es + δ` (whole) has been emitted -/
theorem LexRel.emitted {d np : Nat} {ab ab' : Ab} {ls lw ls' lw' : LexRegs} (h : LexRel δ d ab np ls lw)
    (hn : ab'.noLex) (es : Nat) (hle : es ≤ np) (hp : ab'.P = true → es + 1 ≤ np)
    (h1 : ls'.lexemeStart = es) (h2 : lw'.lexemeStart = es + δ) (hfd : lw'.fd = ls'.fd)
    (htag : (ls'.curTag = ls.curTag ∧ lw'.curTag = lw.curTag) ∨ (ls'.curTag = none ∧ lw'.curTag = none))
    (hattr : ls'.curAttr = ls.curAttr ∧ lw'.curAttr = lw.curAttr)
    (hnt : (ls'.curNonTag = ls.curNonTag ∧ lw'.curNonTag = lw.curNonTag) ∨ (ls'.curNonTag = none ∧ lw'.curNonTag = none)) :
    LexRel δ 0 ab' np ls' lw' := by
  obtain ⟨n1, n2, n3, n4, n5, n6⟩ := hn
  refine ⟨by omega, by omega, by intro g; rw [h1]; exact hp g, hfd, by intro g; simp [n1] at g, ?_, ?_, ?_, by intro g; simp [n6] at g,
    by intro g; simp [n5] at g, by intro g; simp [n5] at g⟩
  · rw [n2, n3]
    rcases htag with ⟨a, b⟩ | ⟨a, b⟩
    · rw [a, b]; exact OptRel.mono (fun _ _ hr => hr.stale) h.tag
    · rw [a, b]; trivial
  · rw [n4, hattr.1, hattr.2]; exact OptRel.mono (fun _ _ hr => hr.stale) h.attr
  · rw [n5]
    rcases hnt with ⟨a, b⟩ | ⟨a, b⟩
    · rw [a, b]; exact OptRel.mono (fun _ _ hr => hr.stale) h.nt
    · rw [a, b]; trivial

theorem CRel.pos {cs cw : Common} (hc : CRel δ 0 cs cw) (h1 : 1 ≤ cs.nextPos) : cw.pos = cs.pos + δ := by
  have := hc.nextPos
  unfold Common.pos; omega

/-- `emit_lexeme` for non-tag lexemes, no text debt -/
theorem lexEmitNonTag_sim (hops : OpsSim env.ops inpS inpW δ K Loc) {ab ab' : Ab} {cs cw : Common}
    {ls lw ls0 lw0 : LexRegs} {xs xw : Ctx κ} (o : Option NonTagOutline) (es : Nat)
    (hc : CRel δ 0 cs cw) (hl : LexRel δ 0 ab cs.nextPos ls0 lw0)
    (hsim : xw.sim = xs.sim) (hpc : xs.prevConsumed = xw.prevConsumed + δ) (hK : K 0 xs.sink xw.sink)
    (hn : ab'.noLex) (hle : es ≤ cs.nextPos) (hp : ab'.P = true → es + 1 ≤ cs.nextPos)
    (hls : ls.lexemeStart = ls0.lexemeStart) (hlw : lw.lexemeStart = lw0.lexemeStart) (hfd : lw.fd = ls.fd)
    (htag : (ls.curTag = ls0.curTag ∧ lw.curTag = lw0.curTag) ∨ (ls.curTag = none ∧ lw.curTag = none))
    (hattr : ls.curAttr = ls0.curAttr ∧ lw.curAttr = lw0.curAttr)
    (hnt : (ls.curNonTag = ls0.curNonTag ∧ lw.curNonTag = lw0.curNonTag) ∨ (ls.curNonTag = none ∧ lw.curNonTag = none))
    (hdt : DtIn inpS inpW δ o) :
    ActSim δ K ab' true (lexEmitNonTag env inpS cs ls xs o es)
      (lexEmitNonTag env inpW cw lw xw (o.map (shNonTag δ)) (es + δ)) := by
  rw [lexEmitNonTag_eq, lexEmitNonTag_eq]
  have hraw : (⟨lw.lexemeStart, es + δ⟩ : Range) = shR δ ⟨ls.lexemeStart, es⟩ := by
    have := hl.ls_eq
    simp only [shR, hls, hlw, Range.mk.injEq]; exact ⟨by omega, trivial⟩
  rw [hraw]
  have hop := hops.nonTag xw.prevConsumed ⟨ls.lexemeStart, es⟩ o xs.sink xw.sink hK hdt
  rw [← hpc] at hop
  rcases hop with hpan | ⟨hres, hK'⟩
  · left
    exact ⟨rfl, spanic_of_epanic hpan⟩
  · right
    rw [hres]
    refine ⟨sigRel_of_res δ _, fun hh => ⟨⟨hc, ?_, hsim, hpc⟩, hK' (sigOf_ok hh)⟩, fun dr bm hh => absurd hh (sigOf_ne_dir _ dr bm)⟩
    exact hl.emitted hn es hle hp rfl rfl hfd htag hattr hnt

/-- both runs leave the machine alone -/
theorem ActSim.ret {ab' : Ab} {must : Bool} {ms mw : M κ} (h : MRel δ 0 0 ab' .none ms mw)
    (hK : K 0 ms.x.sink mw.x.sink) : ActSim δ K ab' must (ms, none) (mw, none) :=
  Or.inr ⟨trivial, fun _ => ⟨h, hK⟩, fun _ _ hh => by cases hh⟩

/-- `emit_text`, possibly repaying a text debt -/
theorem lexEmitText_sim (hops : OpsSim env.ops inpS inpW δ K Loc) {d : Nat} {ab ab' : Ab} {cs cw : Common}
    {ls lw : LexRegs} {xs xw : Ctx κ}
    (hc : CRel δ 0 cs cw) (hl : LexRel δ d ab cs.nextPos ls lw) (hP : ab.P = true)
    (hsim : xw.sim = xs.sim) (hpc : xs.prevConsumed = xw.prevConsumed + δ) (hK : K d xs.sink xw.sink)
    (hloc : 0 < d → Loc xs.sink xs.prevConsumed ls.lexemeStart cs.lastTextType)
    (hn : ab'.noLex) :
    ActSim δ K ab' true (lexEmitText env inpS cs ls xs) (lexEmitText env inpW cw lw xw) := by
  have hp := hl.p hP
  have hle := hl.ls_eq
  have hnp := hc.nextPos
  have hpos : cw.pos = cs.pos + δ := hc.pos (by omega)
  have hposs : cs.pos + 1 = cs.nextPos := by unfold Common.pos; omega
  unfold lexEmitText
  by_cases hd : d = 0
  · subst hd
    by_cases hgt : cs.pos > ls.lexemeStart
    · rw [if_pos hgt, if_pos (by omega), hpos, hc.lastTextType]
      exact lexEmitNonTag_sim hops (some (.text cs.lastTextType)) cs.pos hc hl hsim hpc hK hn (by omega)
        (fun _ => by omega) rfl rfl hl.fd (Or.inl ⟨rfl, rfl⟩) ⟨rfl, rfl⟩ (Or.inl ⟨rfl, rfl⟩) trivial
    · rw [if_neg hgt, if_neg (by omega)]
      refine ActSim.ret ⟨hc, ?_, hsim, hpc⟩ hK
      exact hl.emitted hn ls.lexemeStart (by omega) (fun _ => by omega) rfl (by omega) hl.fd
        (Or.inl ⟨rfl, rfl⟩) ⟨rfl, rfl⟩ (Or.inl ⟨rfl, rfl⟩)
  · have hd0 : 0 < d := Nat.pos_of_ne_zero hd
    rw [if_pos (show cw.pos > lw.lexemeStart by omega)]
    have e1 : lw.lexemeStart + d - δ = ls.lexemeStart := by omega
    have hop := hops.text xw.prevConsumed lw.lexemeStart cw.pos d cw.lastTextType xs.sink xw.sink hK
      (by rw [e1, ← hpc, hc.lastTextType]; exact hloc hd0) hd0 (by omega) (by omega)
    have e2 : cw.pos - δ = cs.pos := by omega
    rw [e1, e2, ← hpc, hc.lastTextType] at hop
    rw [lexEmitNonTag_eq env inpW, hc.lastTextType]
    by_cases hgt : cs.pos > ls.lexemeStart
    · rw [if_pos hgt, lexEmitNonTag_eq env inpS]
      rw [if_pos (show lw.lexemeStart + d < cw.pos by omega)] at hop
      rcases hop with hpan | ⟨hres, hK'⟩
      · exact Or.inl ⟨rfl, spanic_of_epanic hpan⟩
      · right
        rw [hres]
        refine ⟨sigRel_of_res δ _, fun hh => ⟨⟨hc, ?_, hsim, hpc⟩, hK' (sigOf_ok hh)⟩, fun dr bm hh => absurd hh (sigOf_ne_dir _ dr bm)⟩
        exact hl.emitted hn cs.pos (by omega) (fun _ => by omega) rfl (by simp only; omega) hl.fd
          (Or.inl ⟨rfl, rfl⟩) ⟨rfl, rfl⟩ (Or.inl ⟨rfl, rfl⟩)
    · rw [if_neg hgt]
      rw [if_neg (show ¬ lw.lexemeStart + d < cw.pos by omega)] at hop
      rcases hop with hpan | ⟨hres, hK'⟩
      · exact hpan.elim
      · right
        rw [hres]
        refine ⟨trivial, fun _ => ⟨⟨hc, ?_, hsim, hpc⟩, hK' ⟨(), rfl⟩⟩, fun _ _ hh => by cases hh⟩
        exact hl.emitted hn ls.lexemeStart (by omega) (fun _ => by omega) rfl (by simp only; omega) hl.fd
          (Or.inl ⟨rfl, rfl⟩) ⟨rfl, rfl⟩ (Or.inl ⟨rfl, rfl⟩)

theorem SigRel.none_left {d : Nat} {s : Option Signal} (h : SigRel δ d none s) : s = none := by
  cases s with
  | none => rfl
  | some s => exact h.elim

theorem SigRel.none_right {d : Nat} {s : Option Signal} (h : SigRel δ d s none) : s = none := by
  cases s with
  | none => rfl
  | some s => cases s <;> exact h.elim

theorem andThen_sim {ab1 ab2 : Ab} {rs rw : M κ × Option Signal} {gs gw : M κ → M κ × Option Signal}
    (h : ActSim δ K ab1 true rs rw)
    (hg : ∀ ms mw, MRel δ 0 0 ab1 .none ms mw → K 0 ms.x.sink mw.x.sink → ActSim δ K ab2 true (gs ms) (gw mw)) :
    ActSim δ K ab2 true (andThen rs gs) (andThen rw gw) := by
  unfold andThen
  rcases h with ⟨_, hp⟩ | ⟨hs, hm, hdir⟩
  · left
    refine ⟨rfl, ?_⟩
    revert hp
    cases rs.2 with
    | none => intro hp; exact hp.elim
    | some s => intro hp; exact hp
  · cases hrs : rs.2 with
    | none =>
      rw [hrs] at hs
      rw [hs.none_left]
      obtain ⟨h1, h2⟩ := hm (Or.inl hrs)
      exact hg _ _ h1 h2
    | some s =>
      rw [hrs] at hs
      cases hrw : rw.2 with
      | none => rw [hrw] at hs; cases hs.none_right
      | some s' =>
        rw [hrw] at hs
        right
        refine ⟨hs, fun hh => ?_, fun dr bm hh => ?_⟩
        · rcases hh with hh | hh
          · cases hh
          · cases hh
        · simp only at hh
          exact hdir dr bm (by rw [hrs]; exact hh)

/-- `emit_eof` -/
theorem lexEmitEof_sim (hops : OpsSim env.ops inpS inpW δ K Loc) {ab : Ab} {ms mw : M κ}
    (h : MRel δ 0 0 ab .none ms mw) (hK : K 0 ms.x.sink mw.x.sink) (hP : ab.P = true) (hn : ab.noLex) :
    ActSim δ K ab true (lexEmitEof env inpS ms) (lexEmitEof env inpW mw) := by
  obtain ⟨hc, hr, hsim, hpc⟩ := h
  unfold lexEmitEof
  cases hrs : ms.r with
  | lexer ls =>
    cases hrw : mw.r with
    | lexer lw =>
      rw [hrs, hrw] at hr
      have hl : LexRel δ 0 ab ms.c.nextPos ls lw := hr
      have hp := hl.p hP
      have hpos : mw.c.pos = ms.c.pos + δ := hc.pos (by omega)
      have hposs : ms.c.pos + 1 = ms.c.nextPos := by unfold Common.pos; omega
      simp only
      rw [hpos]
      exact lexEmitNonTag_sim hops (some .eof) ms.c.pos hc hl hsim hpc hK hn (by omega)
        (fun _ => by omega) rfl rfl hl.fd (Or.inl ⟨rfl, rfl⟩) ⟨rfl, rfl⟩ (Or.inl ⟨rfl, rfl⟩) trivial
    | scanner sw => rw [hrs, hrw] at hr; exact hr.elim
  | scanner ss =>
    cases hrw : mw.r with
    | lexer lw => rw [hrs, hrw] at hr; exact hr.elim
    | scanner sw =>
      simp only
      exact ActSim.ret ⟨hc, by rw [hrs, hrw] at hr; rw [hrs, hrw]; exact hr, hsim, hpc⟩ hK

/-! ### `emit_tag` -/

theorem lexGetFeedback_sh (cfg : TagCfg) (sim : Sim) (fd : FeedbackDirective) (t : TagOutline) :
    lexGetFeedback cfg sim fd (shTag δ t) = lexGetFeedback cfg sim fd t := by
  cases t <;> rfl

theorem mapM_sh {α β : Type} (f f' : α → Option β) (g : α → α) (h : ∀ a b, f a = some b → f' (g a) = some b) :
    ∀ (as : List α) (l : List β), as.mapM f = some l → (as.map g).mapM f' = some l := by
  intro as
  induction as with
  | nil => intro l hl; simpa using hl
  | cons a as ih =>
    intro l hl
    simp only [List.mapM_cons, Option.bind_eq_bind, Option.bind_eq_some_iff, Option.pure_def, Option.some.injEq] at hl
    obtain ⟨b, hb, bs, hbs, rfl⟩ := hl
    simp only [List.map_cons, List.mapM_cons, Option.bind_eq_bind, Option.pure_def]
    rw [h a b hb, ih bs hbs]
    rfl

theorem tagViewFor_sh (F : Frame inpS inpW δ) (k : RLKind) (t : TagOutline) (v : TagView)
    (h : tagViewFor k inpS t = some v) : tagViewFor k inpW (shTag δ t) = some v := by
  have hattr1 : ∀ (as : List AttrOutline) l,
      as.mapM (fun (a : AttrOutline) => (checkedSlice inpS a.name).map fun n => (n, ([] : Bytes))) = some l →
      (as.map (shA δ)).mapM (fun (a : AttrOutline) => (checkedSlice inpW a.name).map fun n => (n, ([] : Bytes))) = some l := by
    apply mapM_sh
    intro a b hb
    simp only [Option.map_eq_some_iff] at hb
    obtain ⟨n, hn, rfl⟩ := hb
    simp only [shA, F.checkedSlice hn, Option.map_some]
  have hattr2 : ∀ (as : List AttrOutline) l,
      as.mapM (fun (a : AttrOutline) =>
        match checkedSlice inpS a.name, checkedSlice inpS a.value with
        | some x, some y => some (x, y)
        | _, _ => none) = some l →
      (as.map (shA δ)).mapM (fun (a : AttrOutline) =>
        match checkedSlice inpW a.name, checkedSlice inpW a.value with
        | some x, some y => some (x, y)
        | _, _ => none) = some l := by
    apply mapM_sh
    intro a b hb
    split at hb
    · rename_i x y hx hy
      simp only [shA, F.checkedSlice hx, F.checkedSlice hy]
      exact hb
    · cases hb
  cases k <;> cases t <;> simp only [tagViewFor, shTag] at h ⊢
  · exact h
  · exact h
  · simp only [Option.map_eq_some_iff] at h ⊢
    obtain ⟨l, hl, rfl⟩ := h
    exact ⟨l, hattr1 _ _ hl, rfl⟩
  · exact h
  · split at h
    · cases h
    · rename_i nb hnb
      rw [F.checkedSlice hnb]
      simp only
      split
      · rename_i hcond
        rw [if_pos hcond] at h
        simp only [Option.map_eq_some_iff] at h ⊢
        obtain ⟨l, hl, rfl⟩ := h
        exact ⟨l, hattr2 _ _ hl, rfl⟩
      · rename_i hcond
        rw [if_neg hcond] at h
        exact h
  · exact h
  · exact h
  · simp only [Option.map_eq_some_iff] at h ⊢
    obtain ⟨nb, hnb, rfl⟩ := h
    exact ⟨nb, F.checkedSlice hnb, rfl⟩

/-- results of `handle_tree_builder_feedback` in the two runs -/
def FbRel (δ np : Nat) : Except Err (Common × Sim) → Except Err (Common × Sim) → Prop
  | .error (.panic _), _ => True
  | .error e, .error e' => e' = e
  | .ok a, .ok b => CRel δ 0 a.1 b.1 ∧ b.2 = a.2 ∧ a.1.nextPos = np
  | _, _ => False

theorem FbRel.err (np : Nat) (e : Err) : FbRel δ np (.error e) (.error e) := by
  cases e <;> first | exact rfl | exact trivial

theorem lexHandleFeedback_sim (F : Frame inpS inpW δ) {cs cw : Common} (hc : CRel δ 0 cs cw) (sim : Sim)
    (f : Feedback) (t : TagOutline) :
    FbRel δ cs.nextPos (lexHandleFeedback inpS cs sim f t) (lexHandleFeedback inpW cw sim f (shTag δ t)) := by
  have hsimple : ∀ (sim' : Sim) (f' : Feedback),
      FbRel δ cs.nextPos
        (match f' with
          | .switchTextType t => (.ok ({ cs with lastTextType := t }, sim') : Except Err (Common × Sim))
          | .setAllowCdata b => .ok ({ cs with cdataAllowed := b }, sim')
          | .none => .ok (cs, sim')
          | .requestLexeme _ => .error (.panic "nested RequestLexeme"))
        (match f' with
          | .switchTextType t => (.ok ({ cw with lastTextType := t }, sim') : Except Err (Common × Sim))
          | .setAllowCdata b => .ok ({ cw with cdataAllowed := b }, sim')
          | .none => .ok (cw, sim')
          | .requestLexeme _ => .error (.panic "nested RequestLexeme")) := by
    intro sim' f'
    cases f' with
    | switchTextType t => exact ⟨{ hc with lastTextType := rfl }, rfl, rfl⟩
    | setAllowCdata b => exact ⟨{ hc with cdataAllowed := rfl }, rfl, rfl⟩
    | none => exact ⟨hc, rfl, rfl⟩
    | requestLexeme k => exact trivial
  unfold lexHandleFeedback
  cases f with
  | requestLexeme k =>
    simp only
    cases hv : tagViewFor k inpS t with
    | none => exact trivial
    | some v =>
      rw [tagViewFor_sh F k t v hv]
      simp only
      cases hcb : sim.runCallback k v with
      | none => exact trivial
      | some sf => exact hsimple sf.1 sf.2
  | switchTextType t => exact hsimple sim (.switchTextType t)
  | setAllowCdata b => exact hsimple sim (.setAllowCdata b)
  | none => exact hsimple sim .none

theorem lexStampTag_sh {cs cw : Common} (hc : CRel δ 0 cs cw) (sim : Sim) (t : TagOutline) :
    CRel δ 0 (lexStampTag cs sim t).1 (lexStampTag cw sim (shTag δ t)).1 ∧
    (lexStampTag cw sim (shTag δ t)).2 = shTag δ (lexStampTag cs sim t).2 ∧
    (lexStampTag cs sim t).1.nextPos = cs.nextPos := by
  cases t with
  | startTag n h ns as sc => exact ⟨{ hc with lastStartTagNameHash := rfl }, rfl, rfl⟩
  | endTag n h => exact ⟨hc, rfl, rfl⟩

/-- `emit_tag_lexeme` and the directive the sink returns -/
theorem lexEmitTagLexeme_sim (hops : OpsSim env.ops inpS inpW δ K Loc) {ab ab' : Ab} {cs cw : Common}
    {ls lw ls0 lw0 : LexRegs} {xs xw : Ctx κ} (sim : Sim) (t : TagOutline) (es : Nat)
    (hc : CRel δ 0 cs cw) (hl : LexRel δ 0 ab cs.nextPos ls0 lw0)
    (hpc : xs.prevConsumed = xw.prevConsumed + δ) (hK : K 0 xs.sink xw.sink)
    (hn : ab'.noLex) (hle : es ≤ cs.nextPos) (hp : ab'.P = true → es + 1 ≤ cs.nextPos)
    (hls : ls.lexemeStart = ls0.lexemeStart) (hlw : lw.lexemeStart = lw0.lexemeStart) (hfd : lw.fd = ls.fd)
    (htag : ls.curTag = none ∧ lw.curTag = none)
    (hattr : ls.curAttr = ls0.curAttr ∧ lw.curAttr = lw0.curAttr)
    (hnt : ls.curNonTag = ls0.curNonTag ∧ lw.curNonTag = lw0.curNonTag) :
    ActSim δ K ab' true (lexEmitTagLexeme env inpS cs ls xs sim t es)
      (lexEmitTagLexeme env inpW cw lw xw sim (shTag δ t) (es + δ)) := by
  unfold lexEmitTagLexeme
  have hraw : (⟨lw.lexemeStart, es + δ⟩ : Range) = shR δ ⟨ls.lexemeStart, es⟩ := by
    have := hl.ls_eq
    simp only [shR, hls, hlw, Range.mk.injEq]; exact ⟨by omega, trivial⟩
  simp only
  rw [hraw]
  have hop := hops.tag xw.prevConsumed ⟨ls.lexemeStart, es⟩ t xs.sink xw.sink hK
  rw [← hpc] at hop
  have hl' : LexRel δ 0 ab' cs.nextPos { ls with lexemeStart := es } { lw with lexemeStart := es + δ } :=
    hl.emitted hn es hle hp rfl rfl hfd (Or.inr htag) hattr (Or.inl hnt)
  rcases hop with hpan | ⟨hres, hK'⟩
  · left
    revert hpan
    generalize (env.ops.handleTag inpS ⟨xs.prevConsumed, ⟨ls.lexemeStart, es⟩, t⟩ xs.sink).2 = r
    intro hpan
    match r, hpan with
    | .error (.panic _), _ => exact ⟨rfl, trivial⟩
  · right
    rw [hres]
    generalize (env.ops.handleTag inpS ⟨xs.prevConsumed, ⟨ls.lexemeStart, es⟩, t⟩ xs.sink).2 = r at hK' ⊢
    match r, hK' with
    | .error e, _ => exact ⟨rfl, (fun hh => by rcases hh with hh | hh <;> cases hh), fun _ _ hh => by cases hh⟩
    | .ok .lex, hK' => exact ⟨trivial, fun _ => ⟨⟨hc, hl', rfl, hpc⟩, hK' ⟨_, rfl⟩⟩, fun _ _ hh => by cases hh⟩
    | .ok .scan, hK' =>
      refine ⟨⟨rfl, ?_⟩, (fun hh => by rcases hh with hh | hh <;> cases hh), fun _ _ _ => ⟨ab', ⟨hc, hl', rfl, hpc⟩, hK' ⟨_, rfl⟩, trivial⟩⟩
      exact ⟨hc.cdataAllowed, hc.lastTextType, hc.lastStartTagNameHash, rfl, rfl⟩

/-- `emit_tag` -/
theorem lexEmitTag_sim (F : Frame inpS inpW δ) (hops : OpsSim env.ops inpS inpW δ K Loc) {ab ab' : Ab} {cs cw : Common}
    {ls lw : LexRegs} {xs xw : Ctx κ}
    (hc : CRel δ 0 cs cw) (hl : LexRel δ 0 ab cs.nextPos ls lw) (hP : ab.P = true) (hGn : ab.Gn = true)
    (hGa : ab.Ga = true)
    (hsim : xw.sim = xs.sim) (hpc : xs.prevConsumed = xw.prevConsumed + δ) (hK : K 0 xs.sink xw.sink)
    (hn : ab'.noLex) (hP' : ab'.P = false) :
    ActSim δ K ab' true (lexEmitTag env inpS cs ls xs) (lexEmitTag env inpW cw lw xw) := by
  have hp := hl.p hP
  have hnp := hc.nextPos
  have hpos : cw.pos = cs.pos + δ := hc.pos (by omega)
  have hposs : cs.pos + 1 = cs.nextPos := by unfold Common.pos; omega
  have htag := hl.tag
  unfold lexEmitTag
  cases hts : ls.curTag with
  | none =>
    rw [hts] at htag
    cases htw : lw.curTag with
    | some t' => rw [htw] at htag; exact htag.elim
    | none => exact Or.inr ⟨rfl, (fun hh => by rcases hh with hh | hh <;> cases hh), fun _ _ hh => by cases hh⟩
  | some t =>
    rw [hts] at htag
    cases htw : lw.curTag with
    | none => rw [htw] at htag; exact htag.elim
    | some t' =>
      rw [htw] at htag
      have htr : TagRel δ ls.lexemeStart true true t t' := by
        have : TagRel δ ls.lexemeStart ab.Gn ab.Ga t t' := htag
        rw [hGn, hGa] at this; exact this
      have ht' : t' = shTag δ t := htr.eq_sh
      subst ht'
      simp only
      rw [hsim, hl.fd, lexGetFeedback_sh]
      cases hfb : lexGetFeedback env.cfg xs.sim ls.fd t with
      | error e => exact Or.inr ⟨rfl, (fun hh => by rcases hh with hh | hh <;> cases hh), fun _ _ hh => by cases hh⟩
      | ok sf =>
        simp only
        have hc1 : CRel δ 0 { cs with lastTextType := .data } { cw with lastTextType := .data } :=
          { hc with lastTextType := rfl }
        have happ : FbRel δ cs.nextPos
            (match sf.2 with
              | some f => lexHandleFeedback inpS { cs with lastTextType := .data } sf.1 f t
              | none => .ok ({ cs with lastTextType := .data }, sf.1))
            (match sf.2 with
              | some f => lexHandleFeedback inpW { cw with lastTextType := .data } sf.1 f (shTag δ t)
              | none => .ok ({ cw with lastTextType := .data }, sf.1)) := by
          cases sf.2 with
          | some f => exact lexHandleFeedback_sim F hc1 sf.1 f t
          | none => exact ⟨hc1, rfl, rfl⟩
        have hfin : ∀ (as aw : Except Err (Common × Sim)), FbRel δ cs.nextPos as aw →
            ActSim δ K ab' true
              (match as with
                | .error e => ((⟨{ cs with lastTextType := .data }, .lexer { ls with curTag := none, fd := .none }, { xs with sim := sf.1 }⟩ : M κ), some (.err e))
                | .ok c2 => lexEmitTagLexeme env inpS (lexStampTag c2.1 c2.2 t).1 { ls with curTag := none, fd := .none } xs c2.2
                    (lexStampTag c2.1 c2.2 t).2 (({ cs with lastTextType := .data } : Common).pos + 1))
              (match aw with
                | .error e => ((⟨{ cw with lastTextType := .data }, .lexer { lw with curTag := none, fd := .none }, { xw with sim := sf.1 }⟩ : M κ), some (.err e))
                | .ok c2 => lexEmitTagLexeme env inpW (lexStampTag c2.1 c2.2 (shTag δ t)).1 { lw with curTag := none, fd := .none } xw c2.2
                    (lexStampTag c2.1 c2.2 (shTag δ t)).2 (({ cw with lastTextType := .data } : Common).pos + 1)) := by
          intro as aw happ
          match as, aw, happ with
          | .error (.panic _), _, _ => exact Or.inl ⟨rfl, trivial⟩
          | .error (.ambiguity _), .error _, h => cases h; exact Or.inr ⟨rfl, (fun hh => by rcases hh with hh | hh <;> cases hh), fun _ _ hh => by cases hh⟩
          | .error .handler, .error _, h => cases h; exact Or.inr ⟨rfl, (fun hh => by rcases hh with hh | hh <;> cases hh), fun _ _ hh => by cases hh⟩
          | .error .mem, .error _, h => cases h; exact Or.inr ⟨rfl, (fun hh => by rcases hh with hh | hh <;> cases hh), fun _ _ hh => by cases hh⟩
          | .error (.internal _), .error _, h => cases h; exact Or.inr ⟨rfl, (fun hh => by rcases hh with hh | hh <;> cases hh), fun _ _ hh => by cases hh⟩
          | .ok a, .ok b, ⟨hab, hsims, hnpa⟩ =>
            simp only
            obtain ⟨hst1, hst2, hst3⟩ := lexStampTag_sh hab a.2 t
            rw [hsims, hst2]
            have e1 : ({ cw with lastTextType := TextType.data } : Common).pos + 1 = cs.pos + 1 + δ := by
              show cw.pos + 1 = _; omega
            rw [e1]
            have hl2 : LexRel δ 0 ab (lexStampTag a.1 a.2 t).1.nextPos ls lw := by rw [hst3, hnpa]; exact hl
            exact lexEmitTagLexeme_sim hops a.2 (lexStampTag a.1 a.2 t).2 (cs.pos + 1) hst1 hl2 hpc hK hn
              (by rw [hst3, hnpa]; omega) (fun g => by rw [hP'] at g; cases g) rfl rfl rfl ⟨rfl, rfl⟩ ⟨rfl, rfl⟩ ⟨rfl, rfl⟩
        exact hfin _ _ happ

end
end LolHtml.Model.Chunk
