import LolHtml.Lemmas.ChunkAbs
/-!
Lexer actions: each action maps related machines to related machines (with the validity flags
transformed by `absAct`), hands corresponding lexemes to the sink, and signals the same.
-/
namespace LolHtml.Model.Chunk
open LolHtml LolHtml.Model

variable {κ : Type}

/-- outcome of running the same action / action list / arm body in both runs. `must`: the signal stops
the caller (written with `?`), so nothing is needed about the machines when there is one. -/
def ActSim (δ : Nat) (K : Nat → κ → κ → Prop) (ab' : Ab) (must : Bool) (rs rw : M κ × Option Signal) : Prop :=
  SPanic rs.2 ∨ (SigRel δ 0 rs.2 rw.2 ∧
    ((rs.2 = none ∨ must = false) → MRel δ 0 0 ab' .none rs.1 rw.1 ∧ K 0 rs.1.x.sink rw.1.x.sink))

def sigOf : Except Err Unit → Option Signal
  | .ok () => none
  | .error e => some (.err e)

theorem lexEmitNonTag_eq (env : Env κ) (inp : Bytes) (c : Common) (l : LexRegs) (x : Ctx κ)
    (o : Option NonTagOutline) (e : Nat) :
    lexEmitNonTag env inp c l x o e =
      (⟨c, .lexer { l with lexemeStart := e },
        { x with sink := (env.ops.handleNonTag inp ⟨x.prevConsumed, ⟨l.lexemeStart, e⟩, o⟩ x.sink).1 }⟩,
       sigOf (env.ops.handleNonTag inp ⟨x.prevConsumed, ⟨l.lexemeStart, e⟩, o⟩ x.sink).2) := by
  unfold lexEmitNonTag
  dsimp only
  split <;> simp_all [sigOf]

theorem spanic_of_epanic {r : Except Err Unit} (h : EPanic r) : SPanic (sigOf r) := by
  match r, h with
  | .error (.panic _), _ => exact trivial

theorem sigRel_of_res (δ : Nat) (r : Except Err Unit) : SigRel δ 0 (sigOf r) (sigOf r) := by
  match r with
  | .ok () => exact trivial
  | .error e => exact rfl

section
variable {env : Env κ} {inpS inpW : Bytes} {δ : Nat} {K : Nat → κ → κ → Prop}

/-- all lexer validity flags off -/
def Ab.noLex (ab : Ab) : Prop :=
  ab.T = false ∧ ab.Gn = false ∧ ab.Ga = false ∧ ab.A = false ∧ ab.N = false ∧ ab.Nc = false

theorem Ab.stale_noLex (ab : Ab) : ab.stale.noLex := ⟨rfl, rfl, rfl, rfl, rfl, rfl⟩

/-- the lexer relation after a lexeme ending at `es` (split) / `es + δ` (whole) has been emitted -/
theorem LexRel.emitted {d np : Nat} {ab ab' : Ab} {ls lw ls' lw' : LexRegs} (h : LexRel δ d ab np ls lw)
    (hn : ab'.noLex) (es : Nat) (hle : es ≤ np) (hp : ab'.P = true → es + 1 ≤ np)
    (h1 : ls'.lexemeStart = es) (h2 : lw'.lexemeStart = es + δ) (hfd : lw'.fd = ls'.fd)
    (htag : (ls'.curTag = ls.curTag ∧ lw'.curTag = lw.curTag) ∨ (ls'.curTag = none ∧ lw'.curTag = none))
    (hattr : ls'.curAttr = ls.curAttr ∧ lw'.curAttr = lw.curAttr)
    (hnt : (ls'.curNonTag = ls.curNonTag ∧ lw'.curNonTag = lw.curNonTag) ∨ (ls'.curNonTag = none ∧ lw'.curNonTag = none)) :
    LexRel δ 0 ab' np ls' lw' := by
  obtain ⟨n1, n2, n3, n4, n5, n6⟩ := hn
  refine ⟨by omega, by omega, by intro g; rw [h1]; exact hp g, hfd, by intro g; simp [n1] at g, ?_, ?_, ?_, by intro g; simp [n6] at g⟩
  · rw [n2, n3]
    rcases htag with ⟨a, b⟩ | ⟨a, b⟩
    · rw [a, b]; exact OptRel.mono (fun _ _ hr => hr.stale) h.tag
    · rw [a, b]; trivial
  · rw [n4, hattr.1, hattr.2]; exact OptRel.mono (fun _ _ hr => hr.stale) h.attr
  · rw [n5]
    rcases hnt with ⟨a, b⟩ | ⟨a, b⟩
    · rw [a, b]; exact OptRel.mono (fun _ _ hr => hr.stale) h.nt
    · rw [a, b]; trivial

theorem CRel.pos {cs cw : Common} (hc : CRel δ 0 cs cw) (h1 : 1 ≤ cs.nextPos) : cw.pos = cs.pos + δ := by
  have := hc.nextPos
  unfold Common.pos; omega

/-- `emit_lexeme` for non-tag lexemes, no text debt -/
theorem lexEmitNonTag_sim (hops : OpsSim env.ops inpS inpW δ K) {ab ab' : Ab} {cs cw : Common}
    {ls lw ls0 lw0 : LexRegs} {xs xw : Ctx κ} (o : Option NonTagOutline) (es : Nat)
    (hc : CRel δ 0 cs cw) (hl : LexRel δ 0 ab cs.nextPos ls0 lw0)
    (hsim : xw.sim = xs.sim) (hpc : xs.prevConsumed = xw.prevConsumed + δ) (hK : K 0 xs.sink xw.sink)
    (hn : ab'.noLex) (hle : es ≤ cs.nextPos) (hp : ab'.P = true → es + 1 ≤ cs.nextPos)
    (hls : ls.lexemeStart = ls0.lexemeStart) (hlw : lw.lexemeStart = lw0.lexemeStart) (hfd : lw.fd = ls.fd)
    (htag : (ls.curTag = ls0.curTag ∧ lw.curTag = lw0.curTag) ∨ (ls.curTag = none ∧ lw.curTag = none))
    (hattr : ls.curAttr = ls0.curAttr ∧ lw.curAttr = lw0.curAttr)
    (hnt : (ls.curNonTag = ls0.curNonTag ∧ lw.curNonTag = lw0.curNonTag) ∨ (ls.curNonTag = none ∧ lw.curNonTag = none))
    (must : Bool) :
    ActSim δ K ab' must (lexEmitNonTag env inpS cs ls xs o es)
      (lexEmitNonTag env inpW cw lw xw (o.map (shNonTag δ)) (es + δ)) := by
  rw [lexEmitNonTag_eq, lexEmitNonTag_eq]
  have hraw : (⟨lw.lexemeStart, es + δ⟩ : Range) = shR δ ⟨ls.lexemeStart, es⟩ := by
    have := hl.ls_eq
    simp only [shR, hls, hlw, Range.mk.injEq]; exact ⟨by omega, trivial⟩
  rw [hraw]
  have hop := hops.nonTag xw.prevConsumed ⟨ls.lexemeStart, es⟩ o xs.sink xw.sink hK
  rw [← hpc] at hop
  rcases hop with hpan | ⟨hres, hK'⟩
  · left
    exact spanic_of_epanic hpan
  · right
    rw [hres]
    refine ⟨sigRel_of_res δ _, fun _ => ⟨⟨hc, ?_, hsim, hpc⟩, hK'⟩⟩
    exact hl.emitted hn es hle hp rfl rfl hfd htag hattr hnt

/-- both runs leave the machine alone -/
theorem ActSim.ret {ab' : Ab} {must : Bool} {ms mw : M κ} (h : MRel δ 0 0 ab' .none ms mw)
    (hK : K 0 ms.x.sink mw.x.sink) : ActSim δ K ab' must (ms, none) (mw, none) :=
  Or.inr ⟨trivial, fun _ => ⟨h, hK⟩⟩

/-- `emit_text`, possibly repaying a text debt -/
theorem lexEmitText_sim (hops : OpsSim env.ops inpS inpW δ K) {d : Nat} {ab ab' : Ab} {cs cw : Common}
    {ls lw : LexRegs} {xs xw : Ctx κ}
    (hc : CRel δ 0 cs cw) (hl : LexRel δ d ab cs.nextPos ls lw) (hP : ab.P = true)
    (hsim : xw.sim = xs.sim) (hpc : xs.prevConsumed = xw.prevConsumed + δ) (hK : K d xs.sink xw.sink)
    (hn : ab'.noLex) (must : Bool) :
    ActSim δ K ab' must (lexEmitText env inpS cs ls xs) (lexEmitText env inpW cw lw xw) := by
  have hp := hl.p hP
  have hle := hl.ls_eq
  have hnp := hc.nextPos
  have hpos : cw.pos = cs.pos + δ := hc.pos (by omega)
  have hposs : cs.pos + 1 = cs.nextPos := by unfold Common.pos; omega
  unfold lexEmitText
  by_cases hd : d = 0
  · subst hd
    by_cases hgt : cs.pos > ls.lexemeStart
    · rw [if_pos hgt, if_pos (by omega), hpos, hc.lastTextType]
      exact lexEmitNonTag_sim hops (some (.text cs.lastTextType)) cs.pos hc hl hsim hpc hK hn (by omega)
        (fun _ => by omega) rfl rfl hl.fd (Or.inl ⟨rfl, rfl⟩) ⟨rfl, rfl⟩ (Or.inl ⟨rfl, rfl⟩) must
    · rw [if_neg hgt, if_neg (by omega)]
      refine ActSim.ret ⟨hc, ?_, hsim, hpc⟩ hK
      exact hl.emitted hn ls.lexemeStart (by omega) (fun _ => by omega) rfl (by omega) hl.fd
        (Or.inl ⟨rfl, rfl⟩) ⟨rfl, rfl⟩ (Or.inl ⟨rfl, rfl⟩)
  · have hd0 : 0 < d := Nat.pos_of_ne_zero hd
    rw [if_pos (show cw.pos > lw.lexemeStart by omega)]
    have hop := hops.text xw.prevConsumed lw.lexemeStart cw.pos d cw.lastTextType xs.sink xw.sink hK hd0
      (by omega) (by omega)
    have e1 : lw.lexemeStart + d - δ = ls.lexemeStart := by omega
    have e2 : cw.pos - δ = cs.pos := by omega
    rw [e1, e2, ← hpc, hc.lastTextType] at hop
    rw [lexEmitNonTag_eq env inpW, hc.lastTextType]
    by_cases hgt : cs.pos > ls.lexemeStart
    · rw [if_pos hgt, lexEmitNonTag_eq env inpS]
      rw [if_pos (show lw.lexemeStart + d < cw.pos by omega)] at hop
      rcases hop with hpan | ⟨hres, hK'⟩
      · exact Or.inl (spanic_of_epanic hpan)
      · right
        rw [hres]
        refine ⟨sigRel_of_res δ _, fun _ => ⟨⟨hc, ?_, hsim, hpc⟩, hK'⟩⟩
        exact hl.emitted hn cs.pos (by omega) (fun _ => by omega) rfl (by simp only; omega) hl.fd
          (Or.inl ⟨rfl, rfl⟩) ⟨rfl, rfl⟩ (Or.inl ⟨rfl, rfl⟩)
    · rw [if_neg hgt]
      rw [if_neg (show ¬ lw.lexemeStart + d < cw.pos by omega)] at hop
      rcases hop with hpan | ⟨hres, hK'⟩
      · exact hpan.elim
      · right
        rw [hres]
        refine ⟨trivial, fun _ => ⟨⟨hc, ?_, hsim, hpc⟩, hK'⟩⟩
        exact hl.emitted hn ls.lexemeStart (by omega) (fun _ => by omega) rfl (by simp only; omega) hl.fd
          (Or.inl ⟨rfl, rfl⟩) ⟨rfl, rfl⟩ (Or.inl ⟨rfl, rfl⟩)

end
end LolHtml.Model.Chunk
