import LolHtml.Lemmas.Prov
/-!
# The last iteration of `Parser::parse`

`directive_step`: one lexer ⇄ scanner switch keeps `PInv`/`PTok` and decreases the measure `nu`.
`parseLoop_reach`: hence every `parseLoop` run with enough budget equals a run started at a parser
state `p'` that satisfies all invariants and whose parsing loop ends without a directive change — so
facts about the *result* of `parse` only need an analysis of one iteration.
-/
namespace LolHtml.Model

open LolHtml.Lemmas.Sim (Inv)

variable {κ : Type}

theorem Parser.store_x (p : Parser κ) (m : M κ) : (p.store m).x = m.x := by
  unfold Parser.store; split <;> rfl

theorem loadBookmark_x {env : Env κ} (d : Directive) (bm : Bookmark) (p : Parser κ) :
    (loadBookmark env d bm p).x = p.x := by
  unfold loadBookmark; split <;> rfl

section
variable {env : Env κ} {inp : Bytes} {W : κ → Nat}

/-- the invariants for the machine that `parse` is about to run -/
theorem machine_invs {cert : Cert} (last : Bool) (p : Parser κ) (hp : PInv env.tbl inp.length W p)
    (htp : PTok env.tbl cert p) :
    MInvB env.tbl inp.length (W (p.machine last).x.sink) p.posOf (p.machine last) ∧
    TokB env.tbl cert (p.machine last) := by
  cases hd : p.directive with
  | lex =>
    refine ⟨?_, ?_⟩
    · obtain ⟨⟨a1, a2, sd, hsd, a3⟩, _⟩ := hp
      simp only [Parser.machine, hd, Parser.posOf] at a1 a2 hsd a3 ⊢
      exact ⟨Nat.le_refl _, a2, sd, hsd, a3⟩
    · unfold PTok at htp
      simp only [Parser.machine, hd] at htp ⊢
      exact TokB_congr htp rfl rfl rfl rfl rfl
  | scan =>
    refine ⟨?_, ?_⟩
    · obtain ⟨⟨a1, a2, sd, hsd, a3⟩, _⟩ := hp
      simp only [Parser.machine, hd, RegsB] at a1 a2 hsd a3 ⊢
      simp only [Parser.posOf, hd]
      cases hts : p.scanR.tagStart with
      | none =>
        refine ⟨Nat.le_refl _, a2, sd, hsd, a3.1, fun q hq => ?_, a3.2.2⟩
        rw [hts] at hq; cases hq
      | some q0 =>
        have h0 := a3.2.1 q0 hts
        refine ⟨h0.2.2, a2, sd, hsd, a3.1, fun q hq => ?_, a3.2.2⟩
        rw [hts] at hq
        have : q0 = q := by simpa using hq
        subst this
        exact ⟨h0.1, Nat.le_refl _, h0.2.2⟩
    · unfold PTok at htp
      simp only [Parser.machine, hd] at htp ⊢
      exact TokB_congr htp rfl rfl rfl rfl rfl

/-- everything known about the signal the parsing loop ends with -/
theorem run_sig {cert : Cert} (hchk : checkCert env.tbl cert = true) (hs : SinkSafe env.ops W inp U1)
    (hs2 : SinkSafe2 env.ops inp) (hw : Wf env.tbl) (last : Bool) (p : Parser κ)
    (hp : PInv env.tbl inp.length W p) (htp : PTok env.tbl cert p) :
    SigOK U1 env.tbl W inp.length p.posOf (runLoop env inp (defaultFuel inp) (p.machine last)).1
      (runLoop env inp (defaultFuel inp) (p.machine last)).2 ∧
    LoopTok env.tbl cert (runLoop env inp (defaultFuel inp) (p.machine last)) := by
  obtain ⟨h1, h2⟩ := machine_invs (cert := cert) last p hp htp
  exact ⟨runLoop_post hs hw _ _ h1 (mu_lt_defaultFuel _ hw _),
    runLoop_tok hchk hs hs2 hw _ _ h1 h2 (mu_lt_defaultFuel _ hw _)⟩

theorem directive_step {cert : Cert} (hchk : checkCert env.tbl cert = true) (hs : SinkSafe env.ops W inp U1)
    (hs2 : SinkSafe2 env.ops inp) (hw : Wf env.tbl) (last : Bool) (p : Parser κ)
    (hp : PInv env.tbl inp.length W p) (htp : PTok env.tbl cert p) {d : Directive} {bm : Bookmark}
    (hsig : (runLoop env inp (defaultFuel inp) (p.machine last)).2 = .directive d bm) :
    PInv env.tbl inp.length W (loadBookmark env d bm (p.store (runLoop env inp (defaultFuel inp) (p.machine last)).1)) ∧
    PTok env.tbl cert (loadBookmark env d bm (p.store (runLoop env inp (defaultFuel inp) (p.machine last)).1)) ∧
    (loadBookmark env d bm (p.store (runLoop env inp (defaultFuel inp) (p.machine last)).1)).nu inp.length < p.nu inp.length := by
  have hpos := posOf_le p hp
  obtain ⟨_, hlt⟩ := run_sig hchk hs hs2 hw last p hp htp
  have hinv := hlt.1
  cases hd : p.directive with
  | lex =>
    obtain ⟨l, hl, hlast, hsg⟩ := lexRun_post hs hw last p hp hd
    rw [hsig] at hsg
    obtain ⟨s1, s2, s3⟩ := hsg
    rw [hl] at s3
    obtain ⟨s3a, s3b⟩ := s3
    subst s3a
    rw [store_lex p _ hl]
    obtain ⟨sd, hsd⟩ := Table.state?_isSome (hw.textState bm.textType)
    obtain ⟨ht1, ht2⟩ := hp.2 hd
    refine ⟨⟨?_, fun h => by simp [loadBookmark] at h⟩, ?_, ?_⟩
    · simp only [loadBookmark, Parser.machine]
      refine ⟨Nat.zero_le _, s2, sd, hsd, ?_⟩
      simp only [RegsB]
      refine ⟨s1, fun q hq => ?_, Or.inl ht2⟩
      rw [ht1] at hq; cases hq
    · unfold PTok
      simp only [loadBookmark, Parser.machine]
      exact TokB_loaded hchk _ bm.textType rfl rfl hinv
    · have h1 : (loadBookmark env Directive.scan bm
          { p with lexC := (runLoop env inp (defaultFuel inp) (p.machine last)).1.c, lexR := l,
                   x := (runLoop env inp (defaultFuel inp) (p.machine last)).1.x }).nu inp.length
          = 2 * (inp.length - bm.pos) + 1 := by
        simp only [Parser.nu, Parser.posOf, loadBookmark, ht1, Option.getD_none]
      have h2 : p.nu inp.length = 2 * (inp.length - p.lexC.nextPos) := by
        simp only [Parser.nu, Parser.posOf, hd, Nat.add_zero]
      rw [h1, h2]
      omega
  | scan =>
    obtain ⟨s, hsr, hlast, hsg⟩ := scanRun_post hs hw last p hp hd
    rw [hsig] at hsg
    obtain ⟨s1, s2, s3⟩ := hsg
    rw [hsr] at s3
    obtain ⟨s3a, s3b, s3c, s3d⟩ := s3
    subst s3a
    rw [store_scan p _ hsr]
    obtain ⟨sd, hsd⟩ := Table.state?_isSome (hw.textState bm.textType)
    refine ⟨⟨?_, fun _ => ⟨s3c, s3d⟩⟩, ?_, ?_⟩
    · simp only [loadBookmark, Parser.machine]
      refine ⟨Nat.zero_le _, s2, sd, hsd, ?_⟩
      simp only [RegsB]
      exact ⟨s1, Nat.le_refl _⟩
    · unfold PTok
      simp only [loadBookmark, Parser.machine]
      exact TokB_loaded hchk _ bm.textType rfl rfl hinv
    · have h1 : (loadBookmark env Directive.lex bm
          { p with scanC := (runLoop env inp (defaultFuel inp) (p.machine last)).1.c, scanR := s,
                   x := (runLoop env inp (defaultFuel inp) (p.machine last)).1.x }).nu inp.length
          = 2 * (inp.length - bm.pos) := by
        simp only [Parser.nu, Parser.posOf, loadBookmark, Nat.add_zero]
      have h2 : p.nu inp.length = 2 * (inp.length - p.posOf) + 1 := by
        simp only [Parser.nu, hd]
      rw [h1, h2]
      omega

/-- **The last iteration.** `R` is any predicate on the parser context kept by the parsing loop. -/
theorem parseLoop_reach {cert : Cert} (hchk : checkCert env.tbl cert = true) (hs : SinkSafe env.ops W inp U1)
    (hs2 : SinkSafe2 env.ops inp) (hw : Wf env.tbl) (last : Bool) (R : Ctx κ → Prop)
    (hR : ∀ m : M κ, R m.x → R (runLoop env inp (defaultFuel inp) m).1.x) (n : Nat) (p : Parser κ)
    (hp : PInv env.tbl inp.length W p) (htp : PTok env.tbl cert p) (hr : R p.x) (hn : p.nu inp.length < n) :
    ∃ p' k, PInv env.tbl inp.length W p' ∧ PTok env.tbl cert p' ∧ R p'.x ∧
      Parser.parseLoop env inp last n p = Parser.parseLoop env inp last (k + 1) p' ∧
      ∀ d bm, (runLoop env inp (defaultFuel inp) (p'.machine last)).2 ≠ .directive d bm := by
  induction n generalizing p with
  | zero => omega
  | succ n ih =>
    cases hsig : (runLoop env inp (defaultFuel inp) (p.machine last)).2 with
    | directive d bm =>
      obtain ⟨q1, q2, q3⟩ := directive_step hchk hs hs2 hw last p hp htp hsig
      have hr' : R (loadBookmark env d bm (p.store (runLoop env inp (defaultFuel inp) (p.machine last)).1)).x := by
        rw [loadBookmark_x, Parser.store_x]
        have := hR (p.machine last) (by
          have : (p.machine last).x = p.x := by unfold Parser.machine; split <;> rfl
          rw [this]; exact hr)
        exact this
      obtain ⟨p', k, r1, r2, r3, r4, r5⟩ := ih _ q1 q2 hr' (by omega)
      refine ⟨p', k, r1, r2, r3, ?_, r5⟩
      rw [← r4]
      simp only [Parser.parseLoop, hsig]
    | err e => exact ⟨p, n, hp, htp, hr, rfl, fun d bm h => by rw [hsig] at h; cases h⟩
    | endOfInput c => exact ⟨p, n, hp, htp, hr, rfl, fun d bm h => by rw [hsig] at h; cases h⟩

end
end LolHtml.Model
