import LolHtml.Lemmas.StrictStream
/-!
A non-strict run never fails with a `ParsingAmbiguityError` — unless the sink (i.e. the controller)
returns one. Unary instance of `Lemmas/Congr.lean` with the invariant "`sim.strict = false`".
-/
namespace LolHtml.Model
open LolHtml.Lemmas.Sim (erase)

variable {κ γ : Type}

def NotAmb (e : Err) : Prop := ∀ h, e ≠ .ambiguity h

/-- the sink never returns an ambiguity error -/
structure OpsNoAmb (ops : SinkOps κ) : Prop where
  handleTag : ∀ inp lx k e, (ops.handleTag inp lx k).2 = .error e → NotAmb e
  handleNonTag : ∀ inp lx k e, (ops.handleNonTag inp lx k).2 = .error e → NotAmb e
  startTagHint : ∀ n ns k e, (ops.startTagHint n ns k).2 = .error e → NotAmb e
  endTagHint : ∀ n k e, (ops.endTagHint n k).2 = .error e → NotAmb e

/-- result of a step of a non-strict machine -/
def NA (r : M κ × Option Signal) : Prop :=
  r.1.x.sim.strict = false ∧ ∀ h, r.2 ≠ some (.err (.ambiguity h))

/-! ### simulator -/

theorem leaveNs_strict (s : Sim) (r : Sim × Feedback) (h : s.leaveNs = some r) : r.1.strict = s.strict := by
  unfold Sim.leaveNs at h
  split at h
  · injection h with h; subst h; rfl
  · cases h

theorem startCore_strict (cfg : TagCfg) (s : Sim) (t : Nat) :
    (∀ r, Lemmas.Sim.startCore cfg s t = .ok r → r.1.strict = s.strict) ∧
    (∀ e, Lemmas.Sim.startCore cfg s t = .error e → NotAmb e) := by
  unfold Lemmas.Sim.startCore
  split
  · exact ⟨fun r h => (by injection h with h; subst h; rfl), fun e h => (by cases h)⟩
  · split
    · exact ⟨fun r h => (by injection h with h; subst h; rfl), fun e h => (by cases h)⟩
    · split
      · cases hf : s.startTagInForeign cfg t with
        | none => exact ⟨fun r h => (by cases h), fun e h => (by injection h with h; subst h; intro hh he; cases he)⟩
        | some r' =>
          refine ⟨fun r h => ?_, fun e h => (by cases h)⟩
          injection h with h; subst h
          unfold Sim.startTagInForeign at hf
          split at hf
          · exact leaveNs_strict s _ hf
          · (repeat' split at hf) <;> (injection hf with hf; subst hf; rfl)
      · exact ⟨fun r h => (by injection h with h; subst h; rfl), fun e h => (by cases h)⟩

theorem endCore_strict (cfg : TagCfg) (s : Sim) (t : Nat) (r : Sim × Feedback)
    (h : Lemmas.Sim.endCore cfg s t = some r) : r.1.strict = s.strict := by
  unfold Lemmas.Sim.endCore at h
  split at h
  · unfold Sim.checkIntegrationPointExit at h
    split at h
    · split at h
      · exact leaveNs_strict s _ h
      · (repeat' split at h) <;> (injection h with h; subst h; rfl)
    · injection h with h; subst h; rfl
  · split at h
    · exact leaveNs_strict s _ h
    · injection h with h; subst h; rfl

theorem callback_strict (s : Sim) (k : RLKind) (v : TagView) (r : Sim × Feedback)
    (h : s.runCallback k v = some r) : r.1.strict = s.strict := by
  unfold Sim.runCallback at h
  cases k <;> simp only at h <;> (repeat' split at h) <;>
    first
    | exact leaveNs_strict s _ h
    | (cases h; rfl)
    | cases h

theorem start_nonstrict' (cfg : TagCfg) (s : Sim) (hs : s.strict = false) (t : Nat) :
    s.feedbackForStartTag cfg t = Lemmas.Sim.startCore cfg s t := by
  rw [Lemmas.Sim.start_eq]
  have : Lemmas.Sim.guardStart cfg s t = .ok s := by simp [Lemmas.Sim.guardStart, hs]
  rw [this]

theorem feedbackStart_na (cfg : TagCfg) (s : Sim) (hs : s.strict = false) (t : Nat) :
    (∀ r, s.feedbackForStartTag cfg t = .ok r → r.1.strict = false) ∧
    (∀ e, s.feedbackForStartTag cfg t = .error e → NotAmb e) := by
  rw [start_nonstrict' cfg s hs]
  obtain ⟨h1, h2⟩ := startCore_strict cfg s t
  exact ⟨fun r h => (by rw [h1 r h, hs]), h2⟩

theorem feedbackEnd_na (cfg : TagCfg) (s : Sim) (hs : s.strict = false) (t : Nat) :
    (∀ r, s.feedbackForEndTag cfg t = .ok r → r.1.strict = false) ∧
    (∀ e, s.feedbackForEndTag cfg t = .error e → NotAmb e) := by
  rw [Lemmas.Sim.end_eq]
  have hg : Lemmas.Sim.guardEnd cfg s t = s := by simp [Lemmas.Sim.guardEnd, hs]
  rw [hg]
  cases he : Lemmas.Sim.endCore cfg s t with
  | none => exact ⟨fun r h => (by cases h), fun e h => (by injection h with h; subst h; intro hh he; cases he)⟩
  | some r' =>
    exact ⟨fun r h => (by injection h with h; subst h; rw [endCore_strict cfg s t _ he, hs]), fun e h => (by cases h)⟩


/-! ### actions -/

section
variable {env : Env κ} {inp : Bytes}

theorem na_emitNonTag (h : OpsNoAmb env.ops) (c : Common) (l : LexRegs) (x : Ctx κ)
    (o : Option NonTagOutline) (e : Nat) (hs : x.sim.strict = false) :
    NA (lexEmitNonTag env inp c l x o e) := by
  unfold lexEmitNonTag
  dsimp only
  cases hr : (env.ops.handleNonTag inp ⟨x.prevConsumed, ⟨l.lexemeStart, e⟩, o⟩ x.sink).2 with
  | ok u => exact ⟨hs, by simp⟩
  | error e' =>
    refine ⟨hs, ?_⟩
    intro hh hc
    simp only [Option.some.injEq, Signal.err.injEq] at hc
    exact h.handleNonTag _ _ _ _ hr hh hc

theorem na_emitText (h : OpsNoAmb env.ops) (c : Common) (l : LexRegs) (x : Ctx κ)
    (hs : x.sim.strict = false) : NA (lexEmitText env inp c l x) := by
  unfold lexEmitText
  split
  · exact na_emitNonTag h _ _ _ _ _ hs
  · exact ⟨hs, by simp⟩

theorem na_emitEof (h : OpsNoAmb env.ops) (m : M κ) (hs : m.x.sim.strict = false) :
    NA (lexEmitEof env inp m) := by
  unfold lexEmitEof
  split
  · exact na_emitNonTag h _ _ _ _ _ hs
  · exact ⟨hs, by simp⟩

theorem na_andThen (r : M κ × Option Signal) (g : M κ → M κ × Option Signal)
    (hr : NA r) (hg : ∀ m, m.x.sim.strict = false → NA (g m)) : NA (andThen r g) := by
  obtain ⟨m, s⟩ := r
  unfold andThen
  cases s with
  | some sig => exact hr
  | none => exact hg m hr.1

theorem na_emitTagLexeme (h : OpsNoAmb env.ops) (c : Common) (l : LexRegs) (x : Ctx κ) (sim : Sim)
    (token : TagOutline) (e : Nat) (hs : sim.strict = false) :
    NA (lexEmitTagLexeme env inp c l x sim token e) := by
  unfold lexEmitTagLexeme
  dsimp only
  cases hr : (env.ops.handleTag inp ⟨x.prevConsumed, ⟨l.lexemeStart, e⟩, token⟩ x.sink).2 with
  | ok d => cases d <;> exact ⟨hs, by simp⟩
  | error e' =>
    refine ⟨hs, ?_⟩
    intro hh hc
    simp only [Option.some.injEq, Signal.err.injEq] at hc
    exact h.handleTag _ _ _ _ hr hh hc

theorem handleFeedback_na (inp : Bytes) (c : Common) (s1 : Sim) (f : Feedback) (o : TagOutline) :
    (∀ cs, lexHandleFeedback inp c s1 f o = .ok cs → cs.2.strict = s1.strict) ∧
    (∀ e, lexHandleFeedback inp c s1 f o = .error e → NotAmb e) := by
  cases f with
  | switchTextType t => exact ⟨fun cs h => (by injection h with h; subst h; rfl), fun e h => (by cases h)⟩
  | setAllowCdata b => exact ⟨fun cs h => (by injection h with h; subst h; rfl), fun e h => (by cases h)⟩
  | none => exact ⟨fun cs h => (by injection h with h; subst h; rfl), fun e h => (by cases h)⟩
  | requestLexeme k =>
    simp only [lexHandleFeedback]
    cases hv : tagViewFor k inp o with
    | none =>
      exact ⟨fun cs h => (by cases h), fun e h => (by injection h with h; subst h; intro hh he; cases he)⟩
    | some v =>
      simp only
      cases hc : s1.runCallback k v with
      | none =>
        exact ⟨fun cs h => (by cases h), fun e h => (by injection h with h; subst h; intro hh he; cases he)⟩
      | some r =>
        obtain ⟨s', f'⟩ := r
        have hst := callback_strict s1 k v _ hc
        cases f' with
        | requestLexeme k' =>
          exact ⟨fun cs h => (by cases h), fun e h => (by injection h with h; subst h; intro hh he; cases he)⟩
        | switchTextType t => exact ⟨fun cs h => (by injection h with h; subst h; exact hst), fun e h => (by cases h)⟩
        | setAllowCdata b => exact ⟨fun cs h => (by injection h with h; subst h; exact hst), fun e h => (by cases h)⟩
        | none => exact ⟨fun cs h => (by injection h with h; subst h; exact hst), fun e h => (by cases h)⟩

theorem getFeedback_na (cfg : TagCfg) (sim : Sim) (hs : sim.strict = false) (fd : FeedbackDirective)
    (token : TagOutline) :
    (∀ sf, lexGetFeedback cfg sim fd token = .ok sf → sf.1.strict = false) ∧
    (∀ e, lexGetFeedback cfg sim fd token = .error e → NotAmb e) := by
  cases fd with
  | applyUnhandled f => exact ⟨fun sf h => (by injection h with h; subst h; exact hs), fun e h => (by cases h)⟩
  | skip => exact ⟨fun sf h => (by injection h with h; subst h; exact hs), fun e h => (by cases h)⟩
  | none =>
    cases token with
    | startTag n hh ns as sc =>
      simp only [lexGetFeedback]
      obtain ⟨h1, h2⟩ := feedbackStart_na cfg sim hs hh
      cases hf : sim.feedbackForStartTag cfg hh with
      | error e => exact ⟨fun sf h => (by cases h), fun e' h => (by injection h with h; subst h; exact h2 _ hf)⟩
      | ok r => exact ⟨fun sf h => (by injection h with h; subst h; exact h1 _ hf), fun e' h => (by cases h)⟩
    | endTag n hh =>
      simp only [lexGetFeedback]
      obtain ⟨h1, h2⟩ := feedbackEnd_na cfg sim hs hh
      cases hf : sim.feedbackForEndTag cfg hh with
      | error e => exact ⟨fun sf h => (by cases h), fun e' h => (by injection h with h; subst h; exact h2 _ hf)⟩
      | ok r => exact ⟨fun sf h => (by injection h with h; subst h; exact h1 _ hf), fun e' h => (by cases h)⟩

theorem na_emitTag (h : OpsNoAmb env.ops) (c : Common) (l : LexRegs) (x : Ctx κ)
    (hs : x.sim.strict = false) : NA (lexEmitTag env inp c l x) := by
  unfold lexEmitTag
  cases l.curTag with
  | none => exact ⟨hs, by simp⟩
  | some token =>
    dsimp only
    obtain ⟨g1, g2⟩ := getFeedback_na env.cfg x.sim hs l.fd token
    cases hgf : lexGetFeedback env.cfg x.sim l.fd token with
    | error e =>
      refine ⟨hs, ?_⟩
      intro hh hc
      simp only [Option.some.injEq, Signal.err.injEq] at hc
      exact g2 _ hgf hh hc
    | ok sf =>
      have hsf := g1 _ hgf
      simp only
      cases hf : sf.2 with
      | none => exact na_emitTagLexeme h _ _ _ _ _ _ hsf
      | some f =>
        simp only
        obtain ⟨k1, k2⟩ := handleFeedback_na inp { c with lastTextType := .data } sf.1 f token
        cases hhf : lexHandleFeedback inp { c with lastTextType := .data } sf.1 f token with
        | error e =>
          refine ⟨hsf, ?_⟩
          intro hh hc
          simp only [Option.some.injEq, Signal.err.injEq] at hc
          exact k2 _ hhf hh hc
        | ok cs => exact na_emitTagLexeme h _ _ _ _ _ _ (by rw [k1 _ hhf]; exact hsf)

theorem na_emitHint (h : OpsNoAmb env.ops) (c : Common) (s : ScanRegs) (x : Ctx κ) (ts : Nat) (ie : Bool)
    (hs : x.sim.strict = false) : NA (scanEmitHint env inp c s x ts ie) := by
  unfold scanEmitHint
  cases LocalName.new inp ⟨s.tagNameStart, c.pos⟩ s.tagNameHash with
  | none => exact ⟨hs, by simp⟩
  | some name =>
    dsimp only
    cases hr : (if ie = true then env.ops.endTagHint name x.sink
        else env.ops.startTagHint name x.sim.currentNs x.sink).2 with
    | ok d => cases d <;> exact ⟨hs, by simp⟩
    | error e =>
      refine ⟨hs, ?_⟩
      intro hh hc
      simp only [Option.some.injEq, Signal.err.injEq] at hc
      by_cases hie : ie = true
      · simp only [hie, if_true] at hr; exact h.endTagHint _ _ _ hr hh hc
      · simp only [hie, Bool.false_eq_true, if_false] at hr; exact h.startTagHint _ _ _ _ hr hh hc

theorem na_finishTagName (h : OpsNoAmb env.ops) (c : Common) (s : ScanRegs) (x : Ctx κ)
    (hs : x.sim.strict = false) : NA (scanFinishTagName env inp c s x) := by
  unfold scanFinishTagName
  cases s.tagStart with
  | none => exact ⟨hs, by simp⟩
  | some tagStart =>
    dsimp only
    have key : (∀ r, (if s.isInEndTag = true then x.sim.feedbackForEndTag env.cfg s.tagNameHash
          else x.sim.feedbackForStartTag env.cfg s.tagNameHash) = .ok r → r.1.strict = false) ∧
        (∀ e, (if s.isInEndTag = true then x.sim.feedbackForEndTag env.cfg s.tagNameHash
          else x.sim.feedbackForStartTag env.cfg s.tagNameHash) = .error e → NotAmb e) := by
      split
      · exact feedbackEnd_na env.cfg x.sim hs _
      · exact feedbackStart_na env.cfg x.sim hs _
    cases hfb : (if s.isInEndTag = true then x.sim.feedbackForEndTag env.cfg s.tagNameHash
          else x.sim.feedbackForStartTag env.cfg s.tagNameHash) with
    | error e =>
      refine ⟨hs, ?_⟩
      intro hh hc
      simp only [Option.some.injEq, Signal.err.injEq] at hc
      exact key.2 _ hfb hh hc
    | ok sf =>
      have hsf := key.1 _ hfb
      simp only
      split
      · exact ⟨hsf, by simp⟩
      · exact na_emitHint h _ _ _ _ _ hsf

theorem na_act (h : OpsNoAmb env.ops) (a : ActName) (m : M κ) (hs : m.x.sim.strict = false) :
    NA (act env a inp m) := by
  by_cases ha : a.callsSink = false
  · refine ⟨by rw [act_x a ha m]; exact hs, fun hh => act_silent env a ha inp m hh⟩
  · obtain ⟨c, r, x⟩ := m
    cases r with
    | lexer l =>
      cases a <;> simp only [ActName.callsSink, not_true_eq_false] at ha <;> simp only [act, lexAct]
      case emitText => exact na_emitText h c l x hs
      case emitTextAndEof => exact na_andThen _ _ (na_emitText h c l x hs) (fun m hm => na_emitEof h m hm)
      case emitCurrentToken => exact na_emitNonTag h _ _ _ _ _ hs
      case emitCurrentTokenAndEof =>
        exact na_andThen _ _ (na_emitNonTag h _ _ _ _ _ hs) (fun m hm => na_emitEof h m hm)
      case emitRawWithoutToken => exact na_emitNonTag h _ _ _ _ _ hs
      case emitRawWithoutTokenAndEof =>
        exact na_andThen _ _ (na_emitNonTag h _ _ _ _ _ hs) (fun m hm => na_emitEof h m hm)
      case emitTag => exact na_emitTag h c l x hs
      case finishTagName => (repeat' split) <;> exact ⟨hs, by simp⟩
    | scanner s =>
      cases a <;> simp only [ActName.callsSink, not_true_eq_false] at ha <;> simp only [act, scanAct]
      case finishTagName => exact na_finishTagName h c s x hs
      all_goals exact ⟨hs, by simp⟩

end

/-! ### lifting -/

def noAmbCong : Cong κ κ :=
  { Rx := fun x₁ x₂ => x₂ = x₁ ∧ x₁.sim.strict = false
    Jr := fun _ => True
    Stop := fun _ => False
    Good := fun s => ∀ h, s ≠ some (.err (.ambiguity h)) }

theorem noAmbCong_ok (env : Env κ) (inp : Bytes) (h : OpsNoAmb env.ops) :
    (noAmbCong (κ := κ)).Ok env env inp where
  tbl := rfl
  stop_err := fun _ hs => hs.elim
  good_none := by intro hh hc; cases hc
  good_panic := by intro s hh hc; cases hc
  good_eoi := by intro n hh hc; cases hc
  act := by
    intro a m₁ m₂ hm
    obtain ⟨c, r, x₁, x₂, rfl, rfl, -, hx⟩ := Cong.MR.cases hm
    obtain ⟨rfl, hs⟩ := hx
    obtain ⟨n1, n2⟩ := na_act (inp := inp) h a ⟨c, r, x₂⟩ hs
    exact .inr ⟨⟨rfl, rfl, trivial, rfl, n1⟩, rfl, n2⟩
  silent := fun _ _ _ hs => hs.elim
  pc := by
    rintro x₁ x₂ n ⟨rfl, hs⟩
    exact ⟨rfl, hs⟩
  jr_enter := fun _ _ _ => trivial
  jr_leave := fun _ _ => trivial
  jr_adjust := fun _ _ => trivial
  jr_load_lex := fun _ _ _ => trivial
  jr_load_scan := fun _ _ _ => trivial

/-- **A non-strict parse never fails with an ambiguity error** (unless the sink returns one). -/
theorem parse_noAmb (env : Env κ) (h : OpsNoAmb env.ops) (ht : EmitsChecked env.tbl = true) (inp : Bytes)
    (last : Bool) (p : Parser κ) (hs : p.x.sim.strict = false) :
    (Parser.parse env inp last p).1.x.sim.strict = false ∧
    ∀ hh, (Parser.parse env inp last p).2 ≠ .error (.ambiguity hh) := by
  have hpr : (noAmbCong (κ := κ)).PR p p := ⟨rfl, rfl, rfl, rfl, rfl, ⟨rfl, hs⟩, trivial⟩
  rcases Cong.parse_cong (noAmbCong_ok env inp h) ht last p p hpr with ⟨m, e, hstop, -, -⟩ | ⟨hp, -, hgood⟩
  · exact hstop.elim
  · obtain ⟨-, -, -, -, -, ⟨-, hs'⟩, -⟩ := hp
    refine ⟨hs', ?_⟩
    intro hh he
    rcases hgood _ he with ⟨s, hsp⟩ | ⟨e', he', hg⟩
    · cases hsp
    · cases e' <;> simp only [Cong.sigErr] at he' <;> first | (cases he'; exact hg _ rfl) | cases he'


/-! ### the dispatcher as a sink -/

/-- the controller never returns an ambiguity error -/
structure CtlNoAmb (ctl : Controller γ) : Prop where
  startTag : ∀ g n ns e, (ctl.startTag g n ns).2 = .err e → NotAmb e
  auxInfo : ∀ g info e, (ctl.auxInfo g info).2 = .error e → NotAmb e
  token : ∀ g t e, (ctl.token g t).2.err = some e → NotAmb e
  handleEnd : ∀ g e, (ctl.handleEnd g).2.2 = some e → NotAmb e

def DNA {α : Type} (r : DRes γ α) : Prop := ∀ e, r.2 = .error e → NotAmb e

theorem notAmb_panic (s : String) : NotAmb (.panic s) := by intro h he; cases he
theorem notAmb_internal (s : String) : NotAmb (.internal s) := by intro h he; cases he

theorem dna_ok {α : Type} (d : Disp γ) (a : α) : DNA ((d, .ok a) : DRes γ α) := by
  intro e he; cases he

theorem dna_bind {α β : Type} (r : DRes γ α) (f : Disp γ → α → DRes γ β) (hr : DNA r)
    (hf : ∀ d a, DNA (f d a)) : DNA (r.bind f) := by
  obtain ⟨d, res⟩ := r
  unfold DRes.bind
  cases res with
  | error e => exact fun e' he' => by injection he' with he'; subst he'; exact hr _ rfl
  | ok a => exact hf d a

theorem dna_ofExcept_emitChunk (d : Disp γ) (inp : Bytes) (raw : Range) :
    DNA (DRes.ofExcept d (d.emitChunkBefore inp raw)) := by
  unfold Disp.emitChunkBefore
  cases checkedSlice inp ⟨d.rcs, raw.start⟩ with
  | none => intro e he; simp only [DRes.ofExcept] at he; injection he with he; subst he; exact notAmb_panic _
  | some ch => intro e he; cases he

section
variable {ctl : Controller γ}

theorem dna_tokenProduced (h : CtlNoAmb ctl) (d : Disp γ) (t : Token) : DNA (Disp.tokenProduced ctl d t) := by
  unfold Disp.tokenProduced
  dsimp only
  cases he : (ctl.token d.ctl t).2.err with
  | none => intro e h'; cases h'
  | some e0 => intro e h'; injection h' with h'; subst h'; exact h.token _ _ _ he

theorem dna_flushPendingText (h : CtlNoAmb ctl) (d : Disp γ) : DNA (d.flushPendingText ctl) := by
  unfold Disp.flushPendingText
  split
  · exact dna_tokenProduced h _ _
  · exact dna_ok _ _

theorem dna_emitToken (h : CtlNoAmb ctl) (d : Disp γ) (inp : Bytes) (raw : Range) (tok : Token) :
    DNA (d.emitToken ctl inp raw tok) := by
  unfold Disp.emitToken
  refine dna_bind _ _ (dna_ofExcept_emitChunk d inp raw) (fun d _ => ?_)
  exact dna_bind _ _ (dna_tokenProduced h d tok) (fun d _ => dna_ok _ _)

theorem dna_produceTag (h : CtlNoAmb ctl) (d : Disp γ) (inp : Bytes) (lx : TagLexeme) :
    DNA (d.produceTag ctl inp lx) := by
  unfold Disp.produceTag
  cases tagToToken d.flags inp lx with
  | none => intro e he; injection he with he; subst he; exact notAmb_panic _
  | some ft =>
    dsimp only
    cases ft.2 with
    | none => exact dna_ok _ _
    | some tok => exact dna_emitToken h _ _ _ _

theorem dna_produceText (h : CtlNoAmb ctl) (d : Disp γ) (inp : Bytes) (lx : NonTagLexeme) (tt : TextType) :
    DNA (d.produceText ctl inp lx tt) := by
  unfold Disp.produceText
  cases checkedSlice inp lx.raw with
  | none => intro e he; injection he with he; subst he; exact notAmb_panic _
  | some raw =>
    dsimp only
    refine dna_bind _ _ (dna_ofExcept_emitChunk d inp lx.raw) (fun d _ => ?_)
    exact dna_bind _ _ (dna_tokenProduced h _ _) (fun d _ => dna_ok _ _)

theorem dna_produceNonTag (h : CtlNoAmb ctl) (d : Disp γ) (inp : Bytes) (lx : NonTagLexeme) :
    DNA (d.produceNonTag ctl inp lx) := by
  unfold Disp.produceNonTag
  split
  · split
    · exact dna_produceText h _ _ _ _
    · exact dna_ok _ _
  · cases nonTagToToken d.flags inp lx with
    | none => intro e he; injection he with he; subst he; exact notAmb_panic _
    | some ot =>
      cases ot with
      | none => exact dna_ok _ _
      | some tok => exact dna_emitToken h _ _ _ _

theorem dna_answerAux (h : CtlNoAmb ctl) (d : Disp γ) (info : AuxInfo) : DNA (d.answerAux ctl info) := by
  unfold Disp.answerAux
  dsimp only
  cases hr : (ctl.auxInfo d.ctl info).2 with
  | ok f => exact dna_ok _ _
  | error e0 => intro e he; injection he with he; subst he; exact h.auxInfo _ _ _ hr

theorem dna_adjustFlags (h : CtlNoAmb ctl) (d : Disp γ) (inp : Bytes) (lx : TagLexeme) :
    DNA (d.adjustFlagsForTag ctl inp lx) := by
  unfold Disp.adjustFlagsForTag
  split
  · dsimp only
    cases lx.outline with
    | startTag n hh ns as sc => exact dna_answerAux h _ _
    | endTag n hh => intro e he; injection he with he; subst he; exact notAmb_internal _
  · cases lx.outline with
    | startTag n hh ns as sc =>
      dsimp only
      cases LocalName.new inp n hh with
      | none => intro e he; injection he with he; subst he; exact notAmb_panic _
      | some ln =>
        dsimp only
        cases hr : (ctl.startTag d.ctl ln ns).2 with
        | flags f => exact dna_ok _ _
        | infoRequest => exact dna_answerAux h _ _
        | err e0 => intro e he; injection he with he; subst he; exact h.startTag _ _ _ _ hr
    | endTag n hh =>
      dsimp only
      cases LocalName.new inp n hh with
      | none => intro e he; injection he with he; subst he; exact notAmb_panic _
      | some ln => exact dna_ok _ _

theorem dispOps_noAmb (h : CtlNoAmb ctl) : OpsNoAmb (dispOps ctl) where
  handleTag := by
    intro inp lx k
    show DNA (Disp.handleTag ctl inp lx k)
    unfold Disp.handleTag
    refine dna_bind _ _ (dna_flushPendingText h k) (fun d _ => ?_)
    refine dna_bind _ _ ?_ (fun d _ => ?_)
    · split
      · exact dna_ok _ _
      · exact dna_adjustFlags h _ _ _
    · exact dna_bind _ _ (dna_produceTag h _ _ _) (fun d _ => dna_ok _ _)
  handleNonTag := by
    intro inp lx k
    show DNA (Disp.handleNonTag ctl inp lx k)
    unfold Disp.handleNonTag
    refine dna_bind _ _ ?_ (fun d _ => dna_produceNonTag h _ _ _)
    split
    · exact dna_ok _ _
    · exact dna_flushPendingText h _
  startTagHint := by
    intro n ns k
    show DNA (Disp.startTagHint ctl n ns k)
    unfold Disp.startTagHint
    dsimp only
    cases hr : (ctl.startTag k.ctl n ns).2 with
    | flags f => exact dna_ok _ _
    | infoRequest => exact dna_ok _ _
    | err e0 => intro e he; injection he with he; subst he; exact h.startTag _ _ _ _ hr
  endTagHint := by
    intro n k
    show DNA (Disp.endTagHint ctl n k)
    unfold Disp.endTagHint
    exact dna_bind _ _ (dna_flushPendingText h k) (fun d _ => dna_ok _ _)

end


/-! ### the transform stream -/

theorem chunkFor_parser (w : World γ) (s : Stream γ) (data : Bytes) (sc : Stream γ × Bytes)
    (h : s.chunkFor w data = .inr sc) : sc.1.parser = s.parser := by
  unfold Stream.chunkFor at h
  split at h
  · dsimp only at h
    split at h
    · injection h with h; subst h; rfl
    · cases h
  · injection h with h; subst h; rfl

theorem flushRemaining_err (d : Disp γ) (inp : Bytes) (n : Nat) (e : Err)
    (h : d.flushRemaining inp n = .error e) : NotAmb e := by
  unfold Disp.flushRemaining at h
  split at h
  · split at h
    · injection h with h; subst h; exact notAmb_panic _
    · cases h
  · cases h

theorem keepTail_err (w : World γ) (s : Stream γ) (data chunk : Bytes) (n : Nat) (e : Err)
    (h : (s.keepTail w data chunk n).2 = .error e) : NotAmb e := by
  unfold Stream.keepTail at h
  split at h
  · split at h
    · split at h
      · cases h
      · injection h with h; subst h; exact notAmb_panic _
    · dsimp only at h
      split at h
      · cases h
      · injection h with h; subst h; intro hh he; cases he
  · cases h

/-- **A non-strict stream never fails with an ambiguity error** if the controller never returns one. -/
theorem write_noAmb (w : World γ) (hc : CtlNoAmb w.ctl) (ht : EmitsChecked w.tbl = true) (s : Stream γ)
    (hs : s.parser.x.sim.strict = false) (data : Bytes) (h : Nat) :
    (s.write w data).2 ≠ .error (.ambiguity h) := by
  unfold Stream.write
  cases hcf : s.chunkFor w data with
  | inl s' => intro he; cases he
  | inr sc =>
    have hpar := chunkFor_parser w s data sc hcf
    obtain ⟨s1, chunk⟩ := sc
    simp only at hpar
    dsimp only
    have hs1 : s1.parser.x.sim.strict = false := by rw [hpar]; exact hs
    obtain ⟨-, hna⟩ := parse_noAmb w.env (dispOps_noAmb hc) ht chunk false s1.parser hs1
    cases hp : (Parser.parse w.env chunk false s1.parser).2 with
    | error e => intro he; injection he with he; subst he; exact hna h hp
    | ok consumed =>
      dsimp only
      cases hfl : ({ s1 with parser := (Parser.parse w.env chunk false s1.parser).1 } : Stream γ).disp.flushRemaining chunk consumed with
      | error e => intro he; injection he with he; subst he; exact flushRemaining_err _ _ _ _ hfl h rfl
      | ok d => intro he; exact keepTail_err w _ data chunk consumed _ he h rfl

theorem finish_noAmb {ctl : Controller γ} (hc : CtlNoAmb ctl) (d : Disp γ) (inp : Bytes) :
    DNA (d.finish ctl inp) := by
  unfold Disp.finish
  refine dna_bind _ _ ?_ (fun d _ => ?_)
  · intro e he'
    cases hfl : d.flushRemaining inp inp.length with
    | error e0 =>
      rw [hfl] at he'
      simp only [DRes.ofExcept] at he'
      injection he' with he'; subst he'
      exact flushRemaining_err _ _ _ _ hfl
    | ok d0 => rw [hfl] at he'; cases he'
  · dsimp only
    cases hr : (ctl.handleEnd d.ctl).2.2 with
    | none => exact dna_ok _ _
    | some e0 => intro e he'; injection he' with he'; subst he'; exact hc.handleEnd _ _ hr

theorem end_noAmb (w : World γ) (hc : CtlNoAmb w.ctl) (ht : EmitsChecked w.tbl = true) (s : Stream γ)
    (hs : s.parser.x.sim.strict = false) (h : Nat) :
    (s.end w).2 ≠ .error (.ambiguity h) := by
  unfold Stream.end
  dsimp only
  obtain ⟨-, hna⟩ := parse_noAmb w.env (dispOps_noAmb hc) ht (if s.hasBuffered = true then s.buf.data else []) true
    s.parser hs
  cases hp : (Parser.parse w.env (if s.hasBuffered = true then s.buf.data else []) true s.parser).2 with
  | error e => intro he; injection he with he; subst he; exact hna h hp
  | ok n =>
    dsimp only
    intro he
    exact finish_noAmb hc _ _ _ he h rfl

end LolHtml.Model
