import LolHtml.Lemmas.Total
import LolHtml.Lemmas.LinLex
import LolHtml.Thm.C15_Full
/-!
# Pure lexer mode: no `U2` site is reachable

If the sink never answers a tag lexeme with "switch to the tag scanner" (`OpsLex`), a lexer machine
whose feedback directive is `None` (it was never loaded from a scanner bookmark) never hands over,
keeps that property, and computes every tree-builder feedback from the very token it is emitting — so
the `RequestLexeme` callback always fits (`C15_callback_site_local`). Every error it signals satisfies
`NoU2x`: it is not a panic at a `U2` site.
-/
namespace LolHtml.Model

open LolHtml.Lemmas.Sim (Inv start_eq end_eq guardStart_cases guardEnd_eq startCore_good endCore_good inv_guard FbOk)

variable {κ : Type}

/-- not a panic at a `U2` site -/
def NoU2x (e : Err) : Prop := ∀ st, U2 st → e ≠ .panic st

theorem NoU2x.panic {s : String} (h : ¬ U2 s) : NoU2x (.panic s) := by
  intro st hst he
  simp only [Err.panic.injEq] at he
  subst he
  exact h hst

theorem NoU2x.internal (s : String) : NoU2x (.internal s) := fun _ _ h => by cases h
theorem NoU2x.of_clean {e : Err} (h : e.Clean) : NoU2x e := by
  cases e <;> first | exact h.elim | (intro _ _ h'; cases h')

/-- a sink for pure lexer mode -/
structure OpsLex (ops : SinkOps κ) (inp : Bytes) (J : κ → Prop) : Prop where
  handleTag : ∀ lx k, J k → J (ops.handleTag inp lx k).1 ∧ (∀ e, (ops.handleTag inp lx k).2 = .error e → NoU2x e) ∧
    (ops.handleTag inp lx k).2 ≠ .ok .scan
  handleNonTag : ∀ lx k, J k → J (ops.handleNonTag inp lx k).1 ∧ ∀ e, (ops.handleNonTag inp lx k).2 = .error e → NoU2x e

/-- a lexer machine that was never loaded from a scanner bookmark -/
def LxInv (J : κ → Prop) (m : M κ) : Prop := J m.x.sink ∧ Inv m.x.sim ∧ ∃ l, m.r = .lexer l ∧ l.fd = .none

def SigLex : Signal → Prop
  | .err e => NoU2x e
  | .endOfInput _ => True
  | .directive _ _ => False

def LPost (J : κ → Prop) (r : M κ × Option Signal) : Prop := LxInv J r.1 ∧ ∀ sig, r.2 = some sig → SigLex sig

/-! ### the feedback computed for a token fits the token -/

theorem lexGetFeedback_fits {cfg : TagCfg} {sim : Sim} (hi : Inv sim) (tok : TagOutline) :
    (∀ e, lexGetFeedback cfg sim .none tok = .error e → NoU2x e) ∧
    (∀ r, lexGetFeedback cfg sim .none tok = .ok r → Inv r.1 ∧
      ∀ k, r.2 = some (.requestLexeme k) →
        (k ≠ .annotationXmlEnd → tok.isStart = true ∧ r.1.currentNs ≠ .html) ∧
        (k = .annotationXmlEnd → tok.isStart = false ∧ ∃ top rest, r.1.nsStack = r.1.currentNs :: top :: rest)) := by
  unfold lexGetFeedback
  dsimp only
  cases tok with
  | startTag n hsh ns as sc =>
    dsimp only
    rw [start_eq]
    rcases guardStart_cases cfg sim hsh with ⟨g, hg⟩ | ⟨_, hg⟩
    · rw [hg]
      dsimp only
      obtain ⟨s', fb, h1, h2, _, _, h5⟩ := startCore_good cfg { sim with guard := g } (inv_guard sim hi g) hsh
      rw [h1]
      refine ⟨fun e h => by simp [Except.map] at h, fun r h => ?_⟩
      simp only [Except.map, Except.ok.injEq] at h
      subst h
      refine ⟨h2, fun k hk => ?_⟩
      simp only [Option.some.injEq] at hk
      rcases h5 with hok | ⟨k', hk', hs', hne, hkk⟩
      · exact absurd hk (hok.2 k)
      · rw [hk'] at hk
        simp only [Feedback.requestLexeme.injEq] at hk
        subst hk
        subst hs'
        exact ⟨fun _ => ⟨rfl, hne⟩, fun h => absurd h hkk⟩
    · rw [hg]
      refine ⟨fun e h => ?_, fun r h => by simp [Except.map] at h⟩
      simp only [Except.map, Except.error.injEq] at h
      subst h
      intro _ _ h'; cases h'
  | endTag n hsh =>
    dsimp only
    rw [end_eq]
    obtain ⟨g, hg⟩ := guardEnd_eq cfg sim hsh
    rw [hg]
    obtain ⟨s', fb, h1, h2, _, _, h5⟩ := endCore_good cfg { sim with guard := g } (inv_guard sim hi g) hsh
    rw [h1]
    refine ⟨fun e h => by simp [Except.map] at h, fun r h => ?_⟩
    simp only [Except.map, Except.ok.injEq] at h
    subst h
    refine ⟨h2, fun k hk => ?_⟩
    simp only [Option.some.injEq] at hk
    rcases h5 with hok | ⟨hk', hs', top, rest, hst⟩
    · exact absurd hk (hok.2 k)
    · rw [hk'] at hk
      simp only [Feedback.requestLexeme.injEq] at hk
      subst hk
      subst hs'
      exact ⟨fun h => absurd rfl h, fun _ => ⟨rfl, top, rest, hst⟩⟩

theorem lexHandleFeedback_fits {inp : Bytes} {c : Common} {sim : Sim} (hi : Inv sim) (f : Feedback) (tok : TagOutline)
    (hfit : ∀ k, f = .requestLexeme k →
      (k ≠ .annotationXmlEnd → tok.isStart = true ∧ sim.currentNs ≠ .html) ∧
      (k = .annotationXmlEnd → tok.isStart = false ∧ ∃ top rest, sim.nsStack = sim.currentNs :: top :: rest)) :
    (∀ e, lexHandleFeedback inp c sim f tok = .error e → NoU2x e) ∧
    (∀ r, lexHandleFeedback inp c sim f tok = .ok r → Inv r.2) := by
  refine ⟨fun e he => ?_, fun r hr => ?_⟩
  · cases f with
    | requestLexeme k =>
      obtain ⟨h1, h2⟩ := hfit k rfl
      have hno := LolHtml.Thm.C15.C15_callback_site_local inp c sim k tok hi h1 h2
      -- every other error of this function is a panic at another site
      unfold lexHandleFeedback at he hno
      dsimp only at he hno
      split at he
      · simp only [Except.error.injEq] at he; subst he; exact NoU2x.panic (by simp [U2])
      · split at he
        · rename_i hcb
          rw [‹tagViewFor k inp tok = some _›] at hno
          dsimp only at hno
          rw [hcb] at hno
          exact absurd rfl hno
        · rename_i s' f' hcb
          cases f' <;> dsimp only at he <;> first | (cases he; done) | (simp only [Except.error.injEq] at he; subst he; exact NoU2x.panic (by simp [U2]))
    | _ =>
      unfold lexHandleFeedback at he
      dsimp only at he
      cases he
  · unfold lexHandleFeedback at hr
    dsimp only at hr
    split at hr
    · split at hr
      · cases hr
      · split at hr
        · cases hr
        · rename_i s' f' hcb
          have hi' := Sim.runCallback_inv hi hcb
          cases f' <;> dsimp only at hr <;> first | (cases hr; done) | (simp only [Except.ok.injEq] at hr; subst hr; exact hi')
    · cases f <;> dsimp only at hr <;> first | (cases hr; done) | (simp only [Except.ok.injEq] at hr; subst hr; exact hi)

/-! ### the interpreter -/

section
variable {env : Env κ} {inp : Bytes} {J : κ → Prop}

theorem LPost.none {m : M κ} (h : LxInv J m) : LPost J (m, none) := ⟨h, fun _ h' => by cases h'⟩

theorem lexEmitNonTag_lex (h : OpsLex env.ops inp J) (c : Common) (l : LexRegs) (x : Ctx κ)
    (o : Option NonTagOutline) (e : Nat) (hJ : J x.sink) (hi : Inv x.sim) (hfd : l.fd = .none) :
    LPost J (lexEmitNonTag env inp c l x o e) := by
  unfold lexEmitNonTag
  obtain ⟨h1, h2⟩ := h.handleNonTag ⟨x.prevConsumed, ⟨l.lexemeStart, e⟩, o⟩ x.sink hJ
  dsimp only at h1 h2 ⊢
  split
  · exact ⟨⟨h1, hi, _, rfl, hfd⟩, fun _ h => by cases h⟩
  · rename_i e' herr
    refine ⟨⟨h1, hi, _, rfl, hfd⟩, fun sig h => ?_⟩
    simp only [Option.some.injEq] at h
    subst h
    exact h2 _ herr

theorem lexEmitText_lex (h : OpsLex env.ops inp J) (c : Common) (l : LexRegs) (x : Ctx κ)
    (hJ : J x.sink) (hi : Inv x.sim) (hfd : l.fd = .none) : LPost J (lexEmitText env inp c l x) := by
  unfold lexEmitText
  split
  · exact lexEmitNonTag_lex h _ _ _ _ _ hJ hi hfd
  · exact LPost.none ⟨hJ, hi, _, rfl, hfd⟩

theorem lexEmitEof_lex (h : OpsLex env.ops inp J) (m : M κ) (hm : LxInv J m) : LPost J (lexEmitEof env inp m) := by
  unfold lexEmitEof
  obtain ⟨hJ, hi, l, hl, hfd⟩ := hm
  split
  · rename_i l' hl'
    rw [hl] at hl'
    cases hl'
    exact lexEmitNonTag_lex h _ _ _ _ _ hJ hi hfd
  · exact LPost.none ⟨hJ, hi, l, hl, hfd⟩

theorem andThen_lex (r : M κ × Option Signal) (g : M κ → M κ × Option Signal) (hr : LPost J r)
    (hg : ∀ m, LxInv J m → LPost J (g m)) : LPost J (andThen r g) := by
  unfold andThen
  split
  · rename_i s hs
    exact ⟨hr.1, fun sig h => by simp only [Option.some.injEq] at h; subst h; exact hr.2 _ hs⟩
  · exact hg _ hr.1

theorem lexEmitTagLexeme_lex (h : OpsLex env.ops inp J) (c : Common) (l : LexRegs) (x : Ctx κ) (sim : Sim)
    (t : TagOutline) (e : Nat) (hJ : J x.sink) (hi : Inv sim) (hfd : l.fd = .none) :
    LPost J (lexEmitTagLexeme env inp c l x sim t e) := by
  unfold lexEmitTagLexeme
  obtain ⟨h1, h2, h3⟩ := h.handleTag ⟨x.prevConsumed, ⟨l.lexemeStart, e⟩, t⟩ x.sink hJ
  dsimp only at h1 h2 h3 ⊢
  split
  · rename_i e' herr
    refine ⟨⟨h1, hi, _, rfl, hfd⟩, fun sig h => ?_⟩
    simp only [Option.some.injEq] at h
    subst h
    exact h2 _ herr
  · exact ⟨⟨h1, hi, _, rfl, hfd⟩, fun _ h => by cases h⟩
  · rename_i hscan
    exact absurd hscan h3

theorem lexEmitTag_lex (h : OpsLex env.ops inp J) (c : Common) (l : LexRegs) (x : Ctx κ)
    (hJ : J x.sink) (hi : Inv x.sim) (hfd : l.fd = .none) : LPost J (lexEmitTag env inp c l x) := by
  unfold lexEmitTag
  split
  · refine ⟨⟨hJ, hi, _, rfl, hfd⟩, fun sig h => ?_⟩
    simp only [Option.some.injEq] at h
    subst h
    exact NoU2x.internal _
  · rename_i tok _
    dsimp only
    rw [hfd]
    obtain ⟨g1, g2⟩ := lexGetFeedback_fits (cfg := env.cfg) hi tok
    split
    · rename_i e herr
      exact ⟨⟨hJ, hi, _, rfl, rfl⟩, fun sig h => by
        simp only [Option.some.injEq] at h; subst h; exact g1 _ herr⟩
    · rename_i sf hsf
      obtain ⟨hi1, hfit⟩ := g2 _ hsf
      split
      · rename_i e herr
        refine ⟨⟨hJ, hi1, _, rfl, rfl⟩, fun sig h => ?_⟩
        simp only [Option.some.injEq] at h
        subst h
        split at herr
        · rename_i f hf
          exact (lexHandleFeedback_fits hi1 f tok (fun k hk => hfit k (by rw [hf, hk]))).1 _ herr
        · cases herr
      · rename_i cs hcs
        have hi2 : Inv cs.2 := by
          split at hcs
          · rename_i f hf
            exact (lexHandleFeedback_fits hi1 f tok (fun k hk => hfit k (by rw [hf, hk]))).2 _ hcs
          · simp only [Except.ok.injEq] at hcs; subst hcs; exact hi1
        exact lexEmitTagLexeme_lex h _ _ x _ _ _ hJ hi2 rfl

theorem lexAct_lexo (h : OpsLex env.ops inp J) (a : ActName) (c : Common) (l : LexRegs) (x : Ctx κ)
    (hJ : J x.sink) (hi : Inv x.sim) (hfd : l.fd = .none) : LPost J (lexAct env a inp c l x) := by
  cases a <;> simp only [lexAct]
  case emitText => exact lexEmitText_lex h _ _ _ hJ hi hfd
  case emitTextAndEof => exact andThen_lex _ _ (lexEmitText_lex h _ _ _ hJ hi hfd) (fun m hm => lexEmitEof_lex h m hm)
  case emitCurrentToken => exact lexEmitNonTag_lex h _ _ _ _ _ hJ hi hfd
  case emitCurrentTokenAndEof =>
    exact andThen_lex _ _ (lexEmitNonTag_lex h _ _ _ _ _ hJ hi hfd) (fun m hm => lexEmitEof_lex h m hm)
  case emitRawWithoutToken => exact lexEmitNonTag_lex h _ _ _ _ _ hJ hi hfd
  case emitRawWithoutTokenAndEof =>
    exact andThen_lex _ _ (lexEmitNonTag_lex h _ _ _ _ _ hJ hi hfd) (fun m hm => lexEmitEof_lex h m hm)
  case emitTag => exact lexEmitTag_lex h _ _ _ hJ hi hfd
  all_goals
    (repeat' split) <;>
      exact ⟨⟨hJ, hi, _, rfl, hfd⟩, fun sig h => by
        first
        | (cases h; done)
        | (simp only [Option.some.injEq] at h; subst h
           first | exact NoU2x.panic (by simp [U2]) | exact NoU2x.internal _)⟩

theorem act_lexo (h : OpsLex env.ops inp J) (a : ActName) (m : M κ) (hm : LxInv J m) : LPost J (act env a inp m) := by
  unfold act
  obtain ⟨hJ, hi, l, hl, hfd⟩ := hm
  split
  · rename_i l' hl'
    rw [hl] at hl'
    cases hl'
    exact lexAct_lexo h _ _ _ _ hJ hi hfd
  · rename_i s hs
    rw [hl] at hs
    cases hs

theorem runCalls_lexo (h : OpsLex env.ops inp J) (cs : List Call) (m : M κ) (hm : LxInv J m) :
    LPost J (runCalls env inp cs m) := by
  induction cs generalizing m with
  | nil => exact LPost.none hm
  | cons cl cs ih =>
    simp only [runCalls]
    have h1 := act_lexo h cl.act m hm
    split
    · rename_i s hs
      split
      · exact ⟨h1.1, fun sig h' => by simp only [Option.some.injEq] at h'; subst h'; exact h1.2 _ hs⟩
      · exact ih _ h1.1
    · exact ih _ h1.1

theorem applyTrans_lexo (t : Trans) (m : M κ) (hm : LxInv J m) : LPost J (applyTrans env t m) := by
  cases t <;> simp only [applyTrans]
  · exact LPost.none hm
  · exact LPost.none hm
  · split
    · exact ⟨hm, fun sig h => by
        simp only [Option.some.injEq] at h; subst h; exact NoU2x.panic (by simp [U2])⟩
    · exact LPost.none hm

def LPost3 (J : κ → Prop) (r : M κ × Option Signal × SeqEnd) : Prop :=
  LxInv J r.1 ∧ ∀ sig, r.2.1 = some sig → SigLex sig

theorem runSeq_lexo (h : OpsLex env.ops inp J) (s : ActSeq) (m : M κ) (hm : LxInv J m) :
    LPost3 J (runSeq env inp s m) := by
  unfold runSeq
  have h1 := runCalls_lexo h s.calls m hm
  dsimp only
  split
  · rename_i sig hsig
    exact ⟨h1.1, fun sg h' => by
      have : sig = sg := by simpa using h'
      subst this; exact h1.2 _ hsig⟩
  · split
    · exact ⟨h1.1, fun _ h' => by simp at h'⟩
    · exact applyTrans_lexo _ _ h1.1

theorem runBody_lexo (h : OpsLex env.ops inp J) (b : Body) (m : M κ) (hm : LxInv J m) :
    LPost3 J (runBody env inp b m) := by
  cases b with
  | seq s => exact runSeq_lexo h s m hm
  | ite c t e =>
    simp only [runBody]
    split
    · exact ⟨hm, fun sg h' => by
        have : sg = .err (.panic "debug_assert: End tag should exist at this point") := by simpa using h'.symm
        subst this; exact NoU2x.panic (by simp [U2])⟩
    · exact runSeq_lexo h _ m hm
    · exact runSeq_lexo h _ m hm

theorem adjustForNextInput_linv (m : M κ) (hm : LxInv J m) : LxInv J (adjustForNextInput m) := by
  obtain ⟨hJ, hi, l, hl, hfd⟩ := hm
  unfold adjustForNextInput
  split
  · rename_i l' hl'
    rw [hl] at hl'
    cases hl'
    exact ⟨hJ, hi, _, rfl, hfd⟩
  · rename_i s hs
    rw [hl] at hs
    cases hs

theorem break_aux_lex (m' : M κ) (hm : LxInv J m') (k : Nat) :
    LPost J (if m'.c.nextPos = 0 ∨ m'.c.nextPos - 1 < k then
        (m', some (Signal.err (.panic "break_on_end_of_input: pos - consumed_byte_count underflow")))
      else
        (({ m' with c := { m'.c with nextPos := m'.c.nextPos - 1 - k } } : M κ), some (Signal.endOfInput k))) := by
  split
  · exact ⟨hm, fun sig h => by
      simp only [Option.some.injEq] at h; subst h; exact NoU2x.panic (by simp [U2])⟩
  · exact ⟨hm, fun sig h => by simp only [Option.some.injEq] at h; subst h; trivial⟩

theorem breakOnEndOfInput_lex (m : M κ) (hm : LxInv J m) : LPost J (breakOnEndOfInput inp m) := by
  unfold breakOnEndOfInput
  refine break_aux_lex _ ?_ _
  split
  · exact hm
  · exact adjustForNextInput_linv m hm

theorem LxInv.isLex {m : M κ} (hm : LxInv J m) : m.r.isLex = true := by
  obtain ⟨_, _, l, hl, _⟩ := hm
  rw [hl]; rfl

def SumLex (J : κ → Prop) : (M κ × Option Signal) ⊕ M κ → Prop
  | .inl r => LPost J r
  | .inr m => LxInv J m

theorem runSeqArms_lexonly (h : OpsLex env.ops inp J) (ch : Option UInt8) (arms : List Arm) (m : M κ)
    (hm : LxInv J m) : SumLex J (runSeqArms env inp ch arms m) := by
  induction arms generalizing m with
  | nil => exact hm
  | cons arm rest ih =>
    simp only [runSeqArms]
    have he : enterSeq m = m := enterSeq_lex m hm.isLex
    have hle : leaveSeq (enterSeq m) = m := by rw [he]; exact leaveSeq_lex m hm.isLex
    split
    · split
      · rw [hle]; exact ih _ hm
      · split
        · rw [he]; exact breakOnEndOfInput_lex _ hm
        · rw [hle]; exact ih _ hm
        · simp only [SumLex]
          refine (fun (this : LPost3 J _) => ⟨this.1, this.2⟩) (runBody_lexo h arm.body _ ?_)
          rw [leaveSeq_lex _ (by rw [he]; exact hm.isLex), he]
          exact hm
    · exact ih m hm

theorem dispatch_lexonly (h : OpsLex env.ops inp J) (ch : Option UInt8) (arms : List Arm) (m : M κ)
    (hm : LxInv J m) : LPost J (dispatch env inp ch arms m) := by
  unfold dispatch
  have h1 := runSeqArms_lexonly h ch arms m hm
  split
  · rename_i r hr; rw [hr] at h1; exact h1
  · rename_i m' hr
    rw [hr] at h1
    simp only [SumLex] at h1
    split
    · exact ⟨h1, fun sig h' => by
        simp only [Option.some.injEq] at h'; subst h'; exact NoU2x.panic (by simp [U2])⟩
    · rename_i arm _
      have h2 := runBody_lexo h arm.body m' h1
      have hbody : LPost J
          (match (runBody env inp arm.body m').2.1, (runBody env inp arm.body m').2.2 with
           | some sig, _ => ((runBody env inp arm.body m').1, some sig)
           | none, .transitioned => ((runBody env inp arm.body m').1, none)
           | none, .fell => breakOnEndOfInput inp (runBody env inp arm.body m').1) := by
        split
        · rename_i sig _ hs
          exact ⟨h2.1, fun sg h' => by simp only [Option.some.injEq] at h'; subst h'; exact h2.2 _ hs⟩
        · exact LPost.none h2.1
        · exact breakOnEndOfInput_lex _ h2.1
      split
      · exact hbody
      · split
        · exact hbody
        · exact breakOnEndOfInput_lex _ h1
      · exact ⟨h2.1, h2.2⟩

theorem stateFn_lexonly (h : OpsLex env.ops inp J) (m : M κ) (hm : LxInv J m) : LPost J (stateFn env inp m) := by
  rw [stateFn_eq]
  split
  · exact ⟨hm, fun sig h' => by
      simp only [Option.some.injEq] at h'; subst h'; exact NoU2x.panic (by simp [U2])⟩
  · rename_i sd _
    have hpre : LPost J (enterPhase env inp sd m) := by
      unfold enterPhase
      split
      · have h1 := runCalls_lexo h sd.enter { m with c := { m.c with nextPos := m.c.nextPos + 1 } } hm
        dsimp only
        split
        · rename_i sig hsig
          exact ⟨h1.1, fun sg h' => by simp only [Option.some.injEq] at h'; subst h'; exact h1.2 _ hsig⟩
        · exact LPost.none h1.1
      · exact LPost.none hm
    split
    · rename_i sig hsig
      exact ⟨hpre.1, fun sg h' => by simp only [Option.some.injEq] at h'; subst h'; exact hpre.2 _ hsig⟩
    · unfold consumePhase
      split
      · dsimp only
        split <;> exact dispatch_lexonly h _ _ _ hpre.1
      · exact dispatch_lexonly h _ _ _ hpre.1

/-- **Pure lexer mode, parsing loop**: the loop keeps `LxInv`, never ends with a directive, and every
error it ends with is not a `U2` panic. -/
theorem runLoop_lexonly (h : OpsLex env.ops inp J) (n : Nat) (m : M κ) (hm : LxInv J m) :
    LxInv J (runLoop env inp n m).1 ∧ SigLex (runLoop env inp n m).2 := by
  induction n generalizing m with
  | zero => exact ⟨hm, NoU2x.panic (by simp [U2])⟩
  | succ n ih =>
    simp only [runLoop]
    have h1 := stateFn_lexonly h m hm
    split
    · rename_i sig hsig
      exact ⟨h1.1, h1.2 _ hsig⟩
    · exact ih _ h1.1

end

end LolHtml.Model
