import LolHtml.Lemmas.ChunkAbs
import LolHtml.Lemmas.Tiling
/-!
The dispatcher as a sink satisfying `OpsSim`, for controllers whose behaviour does not depend on the
chunk-relative representation of tokens nor on the fragmentation of text (`TextBlind`).
-/
namespace LolHtml.Model.Chunk
open LolHtml LolHtml.Model

/-- absolute form of a token: attribute outlines re-based by the slice offset -/
def normToken : Token → Token
  | .startTag n as ns sc raw src base => .startTag n (as.map fun a => (a.1, a.2.1, shA base a.2.2)) ns sc raw src 0
  | t => t

def tokIsText : Token → Bool
  | .text .. => true
  | _ => false

/-- the whole run's view of the attribute buffer extends the split run's view: same shape, and every slice
that is in range in the split input is the same slice of the whole input -/
structure AuxRefines (i i' : AuxInfo) : Prop where
  sc : i'.selfClosing = i.selfClosing
  len : i'.attrs.length = i.attrs.length
  attr : ∀ (k : Nat) (a a' : AttrOutline), i.attrs[k]? = some a → i'.attrs[k]? = some a' →
    (∀ b, checkedSlice i.input a.name = some b → checkedSlice i'.input a'.name = some b) ∧
    (∀ b, checkedSlice i.input a.value = some b → checkedSlice i'.input a'.value = some b)

def isPanicE {α : Type} : Except Err α → Prop
  | .error (.panic _) => True
  | _ => False

/-- **The class of controllers.** `E`: "equal up to the fragmentation of the open text node". -/
structure TextBlind {γ : Type} (ctl : Controller γ) (E : γ → γ → Prop) : Prop where
  refl : ∀ g, E g g
  trans : ∀ g1 g2 g3, E g1 g2 → E g2 g3 → E g1 g3
  /-- tokens are observed through their absolute form -/
  token_norm : ∀ g t t', normToken t = normToken t' → ctl.token g t = ctl.token g t'
  /-- doctype tokens are observed through `force_quirks`, their raw bytes and their source range -/
  token_doctype : ∀ g n p s n' p' s' fq raw src,
    ctl.token g (.doctype n p s fq raw src) = ctl.token g (.doctype n' p' s' fq raw src)
  /-- attribute buffers: either the controller fails on an out-of-range slice, or it reads the same bytes -/
  aux_norm : ∀ g i i', AuxRefines i i' → isPanicE (ctl.auxInfo g i).2 ∨ ctl.auxInfo g i = ctl.auxInfo g i'
  start : ∀ g g' n ns, E g g' → (ctl.startTag g n ns).2 = (ctl.startTag g' n ns).2 ∧ E (ctl.startTag g n ns).1 (ctl.startTag g' n ns).1
  endT : ∀ g g' n, E g g' → (ctl.endTag g n).2 = (ctl.endTag g' n).2 ∧ E (ctl.endTag g n).1 (ctl.endTag g' n).1
  aux : ∀ g g' i, E g g' → (ctl.auxInfo g i).2 = (ctl.auxInfo g' i).2 ∧ E (ctl.auxInfo g i).1 (ctl.auxInfo g' i).1
  emit : ∀ g g', E g g' → ctl.shouldEmit g = ctl.shouldEmit g'
  flags : ∀ g g', E g g' → ctl.initialFlags g = ctl.initialFlags g'
  tok : ∀ g g' t, E g g' → tokIsText t = false →
    (ctl.token g t).2.chunks = (ctl.token g' t).2.chunks ∧ (ctl.token g t).2.err = (ctl.token g' t).2.err ∧
    (ctl.token g t).2.nextEncoding = (ctl.token g' t).2.nextEncoding ∧ E (ctl.token g t).1 (ctl.token g' t).1
  /-- text chunks never fail, never switch the encoding, and are serialised to their own bytes -/
  text_ok : ∀ g b tt l s, (ctl.token g (.text b tt l s)).2.err = none ∧
    (ctl.token g (.text b tt l s)).2.nextEncoding = none ∧ (ctl.token g (.text b tt l s)).2.chunks.flatten = b
  text_cong : ∀ g g' b tt l s, E g g' → E (ctl.token g (.text b tt l s)).1 (ctl.token g' (.text b tt l s)).1
  /-- a text chunk delivered in two pieces -/
  text_split : ∀ g b1 b2 tt l s,
    E (ctl.token (ctl.token g (.text b1 tt false ⟨s, s + b1.length⟩)).1 (.text b2 tt l ⟨s + b1.length, s + b1.length + b2.length⟩)).1
      (ctl.token g (.text (b1 ++ b2) tt l ⟨s, s + b1.length + b2.length⟩)).1
  handleEnd : ∀ g g', E g g' → (ctl.handleEnd g).2 = (ctl.handleEnd g').2 ∧ E (ctl.handleEnd g).1 (ctl.handleEnd g').1

theorem slice_append_slice {α : Type} (xs : List α) {a b c : Nat} (hab : a ≤ b) (hbc : b ≤ c) :
    LolHtml.slice xs a b ++ LolHtml.slice xs b c = LolHtml.slice xs a c := by
  apply List.ext_getElem?
  intro i
  rw [slice_get]
  by_cases hi : i < (LolHtml.slice xs a b).length
  · rw [List.getElem?_append_left hi, slice_get]
    have hlen : (LolHtml.slice xs a b).length ≤ b - a := by
      unfold LolHtml.slice; simp only [List.length_drop, List.length_take]; omega
    rw [if_pos (by omega), if_pos (by omega)]
  · rw [List.getElem?_append_right (by omega), slice_get]
    have hlen : (LolHtml.slice xs a b).length = min b xs.length - a := by
      unfold LolHtml.slice; simp only [List.length_drop, List.length_take]
    by_cases hbl : b ≤ xs.length
    · rw [hlen, Nat.min_eq_left hbl]
      rw [hlen, Nat.min_eq_left hbl] at hi
      have e : b + (i - (b - a)) = a + i := by omega
      rw [e]
    · -- `b` beyond the end: both sides run out
      have hxs : xs.length < b := by omega
      rw [hlen, Nat.min_eq_right (by omega)]
      rw [hlen, Nat.min_eq_right (by omega)] at hi
      have h3 : xs[b + (i - (xs.length - a))]? = none := List.getElem?_eq_none (by omega)
      have h4 : xs[a + i]? = none := List.getElem?_eq_none (by omega)
      rw [h3, h4]
      split <;> simp

end LolHtml.Model.Chunk
