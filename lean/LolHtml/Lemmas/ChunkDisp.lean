import LolHtml.Lemmas.ChunkAbs
import LolHtml.Lemmas.Tiling
/-!
The dispatcher as a sink satisfying `OpsSim`, for controllers whose behaviour does not depend on the
chunk-relative representation of tokens nor on the fragmentation of text (`TextBlind`).
-/
namespace LolHtml.Model.Chunk
open LolHtml LolHtml.Model

/-- absolute form of a token: attribute outlines re-based by the slice offset -/
def normToken : Token → Token
  | .startTag n as ns sc raw src base => .startTag n (as.map fun a => (a.1, a.2.1, shA base a.2.2)) ns sc raw src 0
  | t => t

def tokIsText : Token → Bool
  | .text .. => true
  | _ => false

/-- the whole run's view of the attribute buffer extends the split run's view: same shape, and every slice
that is in range in the split input is the same slice of the whole input -/
structure AuxRefines (i i' : AuxInfo) : Prop where
  sc : i'.selfClosing = i.selfClosing
  len : i'.attrs.length = i.attrs.length
  attr : ∀ (k : Nat) (a a' : AttrOutline), i.attrs[k]? = some a → i'.attrs[k]? = some a' →
    (∀ b, checkedSlice i.input a.name = some b → checkedSlice i'.input a'.name = some b) ∧
    (∀ b, checkedSlice i.input a.value = some b → checkedSlice i'.input a'.value = some b)

/-- **The class of controllers.** `E`: "equal up to the fragmentation of the open text node". -/
structure TextBlind {γ : Type} (ctl : Controller γ) (E : γ → γ → Prop) : Prop where
  /-- `E` is a partial equivalence-like relation: related states are in its domain `E g g` (the states the
  class speaks about — e.g. those of a scripted controller whose failure injection is off) -/
  dom : ∀ g g', E g g' → E g g ∧ E g' g'
  /-- the domain is closed under un-delivering a token -/
  dom_tok : ∀ g t, E (ctl.token g t).1 (ctl.token g t).1 → E g g
  trans : ∀ g1 g2 g3, E g1 g2 → E g2 g3 → E g1 g3
  /-- tokens are observed through their absolute form -/
  token_norm : ∀ g t t', normToken t = normToken t' → ctl.token g t = ctl.token g t'
  /-- attribute buffers: either the controller fails on an out-of-range slice, or it reads the same bytes -/
  aux_norm : ∀ g i i', AuxRefines i i' → EPanic (ctl.auxInfo g i).2 ∨ ctl.auxInfo g i = ctl.auxInfo g i'
  start : ∀ g g' n ns, E g g' → (ctl.startTag g n ns).2 = (ctl.startTag g' n ns).2 ∧ E (ctl.startTag g n ns).1 (ctl.startTag g' n ns).1
  endT : ∀ g g' n, E g g' → (ctl.endTag g n).2 = (ctl.endTag g' n).2 ∧ E (ctl.endTag g n).1 (ctl.endTag g' n).1
  aux : ∀ g g' i, E g g' → (ctl.auxInfo g i).2 = (ctl.auxInfo g' i).2 ∧ E (ctl.auxInfo g i).1 (ctl.auxInfo g' i).1
  /-- content is never removed (emission stays enabled) -/
  emit : ∀ g, ctl.shouldEmit g = true
  flags : ∀ g g', E g g' → ctl.initialFlags g = ctl.initialFlags g'
  tok : ∀ g g' t, E g g' → tokIsText t = false →
    (ctl.token g t).2.chunks = (ctl.token g' t).2.chunks ∧ (ctl.token g t).2.err = (ctl.token g' t).2.err ∧
    (ctl.token g t).2.nextEncoding = (ctl.token g' t).2.nextEncoding ∧ E (ctl.token g t).1 (ctl.token g' t).1
  /-- text chunks never fail, never switch the encoding, and are serialised to their own bytes -/
  text_ok : ∀ g b tt l s, E g g → (ctl.token g (.text b tt l s)).2.err = none ∧
    (ctl.token g (.text b tt l s)).2.nextEncoding = none ∧ (ctl.token g (.text b tt l s)).2.chunks.flatten = b
  text_cong : ∀ g g' b tt l s, E g g' → E (ctl.token g (.text b tt l s)).1 (ctl.token g' (.text b tt l s)).1
  /-- a text chunk delivered in two pieces -/
  text_split : ∀ g b1 b2 tt l s, E g g →
    E (ctl.token (ctl.token g (.text b1 tt false ⟨s, s + b1.length⟩)).1 (.text b2 tt l ⟨s + b1.length, s + b1.length + b2.length⟩)).1
      (ctl.token g (.text (b1 ++ b2) tt l ⟨s, s + b1.length + b2.length⟩)).1
  handleEnd : ∀ g g', E g g' → (ctl.handleEnd g).2 = (ctl.handleEnd g').2 ∧ E (ctl.handleEnd g).1 (ctl.handleEnd g').1

theorem slice_append_slice {α : Type} (xs : List α) {a b c : Nat} (hab : a ≤ b) (hbc : b ≤ c) :
    LolHtml.slice xs a b ++ LolHtml.slice xs b c = LolHtml.slice xs a c := by
  apply List.ext_getElem?
  intro i
  rw [slice_get]
  by_cases hi : i < (LolHtml.slice xs a b).length
  · rw [List.getElem?_append_left hi, slice_get]
    have hlen : (LolHtml.slice xs a b).length ≤ b - a := by
      unfold LolHtml.slice; simp only [List.length_drop, List.length_take]; omega
    rw [if_pos (by omega), if_pos (by omega)]
  · rw [List.getElem?_append_right (by omega), slice_get]
    have hlen : (LolHtml.slice xs a b).length = min b xs.length - a := by
      unfold LolHtml.slice; simp only [List.length_drop, List.length_take]
    by_cases hbl : b ≤ xs.length
    · rw [hlen, Nat.min_eq_left hbl]
      rw [hlen, Nat.min_eq_left hbl] at hi
      have e : b + (i - (b - a)) = a + i := by omega
      rw [e]
    · -- `b` beyond the end: both sides run out
      have hxs : xs.length < b := by omega
      rw [hlen, Nat.min_eq_right (by omega)]
      rw [hlen, Nat.min_eq_right (by omega)] at hi
      have h3 : xs[b + (i - (xs.length - a))]? = none := List.getElem?_eq_none (by omega)
      have h4 : xs[a + i]? = none := List.getElem?_eq_none (by omega)
      rw [h3, h4]
      split <;> simp

/-! ### the relation between the two dispatchers -/

section
variable {γ : Type}

/-- fields that are equal in the two runs at all times -/
structure DEq (ds dw : Disp γ) : Prop where
  flags : dw.flags = ds.flags
  em : dw.emissionEnabled = ds.emissionEnabled
  gffh : dw.gotFlagsFromHint = ds.gotFlagsFromHint
  paux : dw.pendingAux = ds.pendingAux
  enc : dw.encoding = ds.encoding
  nenc : dw.nextEncoding = ds.nextEncoding

/-- the open-text-node fields -/
structure DPend (ds dw : Disp γ) : Prop where
  ltt : dw.lastTextType = ds.lastTextType
  tp : dw.textPending = ds.textPending
  tps : dw.textPendingStart = ds.textPendingStart

/-- tiling: the split run has emitted everything up to its `remaining_content_start`, the whole run is
behind by the slack `inpW[rcs_w, rcs_s + δ)` -/
structure DBytes (inpS inpW : Bytes) (δ : Nat) (ds dw : Disp γ) : Prop where
  rcs_le : dw.rcs ≤ ds.rcs + δ
  bytes : sinkBytes ds.sink = sinkBytes dw.sink ++
    (if ds.emissionEnabled = true then LolHtml.slice inpW dw.rcs (ds.rcs + δ) else [])

structure DK0 (E : γ → γ → Prop) (inpS inpW : Bytes) (δ : Nat) (ds dw : Disp γ) : Prop where
  ctl : E ds.ctl dw.ctl
  eq : DEq ds dw
  pend : DPend ds dw
  bytes : DBytes inpS inpW δ ds dw
  emT : ds.emissionEnabled = true

/-- text debt `d > 0` under the TEXT capture flag: the split dispatcher has received the `d` bytes before
its `remaining_content_start` as a (non-last) text chunk -/
structure DKt (ctl : Controller γ) (E : γ → γ → Prop) (inpS inpW : Bytes) (δ d : Nat) (ds dw : Disp γ) : Prop where
  ctl : E ds.ctl (ctl.token dw.ctl (.text (LolHtml.slice inpW (ds.rcs + δ - d) (ds.rcs + δ)) ds.lastTextType false
      ⟨ds.textPendingStart - d, ds.textPendingStart⟩)).1
  emT : ds.emissionEnabled = true
  eq : DEq ds dw
  bytes : DBytes inpS inpW δ ds dw
  rcs_d : dw.rcs + d ≤ ds.rcs + δ
  rcs_in : ds.rcs ≤ inpS.length
  tps_d : d ≤ ds.textPendingStart

def DK (ctl : Controller γ) (E : γ → γ → Prop) (inpS inpW : Bytes) (δ : Nat) (d : Nat) (ds dw : Disp γ) : Prop :=
  if d = 0 then DK0 E inpS inpW δ ds dw
  else (ds.flags.text = false → DK0 E inpS inpW δ ds dw) ∧ (ds.flags.text = true → DKt ctl E inpS inpW δ d ds dw)

/-- under the TEXT flag the dispatcher records where the text it has received ends -/
def DLoc (ds : Disp γ) (pc LS : Nat) (tt : TextType) : Prop :=
  ds.flags.text = true → ds.rcs = LS ∧ ds.textPendingStart = pc + LS ∧ ds.lastTextType = tt ∧ ds.textPending = true

theorem DK_zero {ctl : Controller γ} {E : γ → γ → Prop} {inpS inpW : Bytes} {δ : Nat} {ds dw : Disp γ} :
    DK ctl E inpS inpW δ 0 ds dw ↔ DK0 E inpS inpW δ ds dw := by
  unfold DK; simp

/-! ### `token_produced` -/

variable {ctl : Controller γ}

theorem noteNextEncoding_fields (d : Disp γ) (o : Option Nat) :
    (d.noteNextEncoding o).ctl = d.ctl ∧ (d.noteNextEncoding o).sink = d.sink ∧ (d.noteNextEncoding o).rcs = d.rcs ∧
    (d.noteNextEncoding o).flags = d.flags ∧ (d.noteNextEncoding o).emissionEnabled = d.emissionEnabled ∧
    (d.noteNextEncoding o).lastTextType = d.lastTextType ∧ (d.noteNextEncoding o).gotFlagsFromHint = d.gotFlagsFromHint ∧
    (d.noteNextEncoding o).pendingAux = d.pendingAux ∧ (d.noteNextEncoding o).textPending = d.textPending ∧
    (d.noteNextEncoding o).textPendingStart = d.textPendingStart ∧ (d.noteNextEncoding o).encoding = d.encoding := by
  unfold Disp.noteNextEncoding
  (repeat' split) <;> simp

theorem pushChunks_fields (d : Disp γ) (cs : List Bytes) :
    (d.pushChunks cs).ctl = d.ctl ∧ (d.pushChunks cs).rcs = d.rcs ∧
    (d.pushChunks cs).flags = d.flags ∧ (d.pushChunks cs).emissionEnabled = d.emissionEnabled ∧
    (d.pushChunks cs).lastTextType = d.lastTextType ∧ (d.pushChunks cs).gotFlagsFromHint = d.gotFlagsFromHint ∧
    (d.pushChunks cs).pendingAux = d.pendingAux ∧ (d.pushChunks cs).textPending = d.textPending ∧
    (d.pushChunks cs).textPendingStart = d.textPendingStart ∧ (d.pushChunks cs).encoding = d.encoding ∧
    (d.pushChunks cs).nextEncoding = d.nextEncoding := by
  unfold Disp.pushChunks
  split <;> simp

/-- everything `token_produced` does -/
theorem tokenProduced_desc (d : Disp γ) (t : Token) :
    (Disp.tokenProduced ctl d t).1.ctl = (ctl.token d.ctl t).1 ∧
    (Disp.tokenProduced ctl d t).1.rcs = d.rcs ∧
    (Disp.tokenProduced ctl d t).1.flags = d.flags ∧
    (Disp.tokenProduced ctl d t).1.emissionEnabled = d.emissionEnabled ∧
    (Disp.tokenProduced ctl d t).1.lastTextType = d.lastTextType ∧
    (Disp.tokenProduced ctl d t).1.gotFlagsFromHint = d.gotFlagsFromHint ∧
    (Disp.tokenProduced ctl d t).1.pendingAux = d.pendingAux ∧
    (Disp.tokenProduced ctl d t).1.textPending = d.textPending ∧
    (Disp.tokenProduced ctl d t).1.textPendingStart = d.textPendingStart ∧
    (Disp.tokenProduced ctl d t).1.encoding = d.encoding ∧
    (Disp.tokenProduced ctl d t).1.nextEncoding =
      (match (ctl.token d.ctl t).2.nextEncoding with
        | some e => if d.nextEncoding.isNone then some e else d.nextEncoding
        | none => d.nextEncoding) ∧
    sinkBytes (Disp.tokenProduced ctl d t).1.sink = sinkBytes d.sink ++
      (if d.emissionEnabled = true then (ctl.token d.ctl t).2.chunks.flatten else []) ∧
    (Disp.tokenProduced ctl d t).2 = (match (ctl.token d.ctl t).2.err with | some e => .error e | none => .ok ()) := by
  unfold Disp.tokenProduced
  obtain ⟨n1, n2, n3, n4, n5, n6, n7, n8, n9, n10, n11⟩ :=
    noteNextEncoding_fields { d with ctl := (ctl.token d.ctl t).1 } (ctl.token d.ctl t).2.nextEncoding
  obtain ⟨p1, p2, p3, p4, p5, p6, p7, p8, p9, p10, p11⟩ :=
    pushChunks_fields (({ d with ctl := (ctl.token d.ctl t).1 }).noteNextEncoding (ctl.token d.ctl t).2.nextEncoding)
      (ctl.token d.ctl t).2.chunks
  obtain ⟨_, _, q3⟩ := pushChunks_spec (({ d with ctl := (ctl.token d.ctl t).1 }).noteNextEncoding (ctl.token d.ctl t).2.nextEncoding)
      (ctl.token d.ctl t).2.chunks
  have hne : (({ d with ctl := (ctl.token d.ctl t).1 }).noteNextEncoding (ctl.token d.ctl t).2.nextEncoding).nextEncoding =
      (match (ctl.token d.ctl t).2.nextEncoding with
        | some e => if d.nextEncoding.isNone then some e else d.nextEncoding
        | none => d.nextEncoding) := by
    unfold Disp.noteNextEncoding
    cases (ctl.token d.ctl t).2.nextEncoding with
    | none => rfl
    | some e => simp only; split <;> simp_all
  dsimp only
  refine ⟨?_, ?_, ?_, ?_, ?_, ?_, ?_, ?_, ?_, ?_, ?_, ?_, ?_⟩
  all_goals first
    | (split <;> simp_all; done)
    | skip
  all_goals (split <;> simp_all)

/-- the same (non-text) token handed to the controller in both runs -/
theorem tok_sim {E : γ → γ → Prop} (hcl : TextBlind ctl E) {ds dw : Disp γ} (hE : E ds.ctl dw.ctl) (heq : DEq ds dw)
    (hp : DPend ds dw) (t t' : Token) (ht : ∀ g, ctl.token g t = ctl.token g t') (hnt : tokIsText t' = false) :
    (Disp.tokenProduced ctl dw t').2 = (Disp.tokenProduced ctl ds t).2 ∧
    E (Disp.tokenProduced ctl ds t).1.ctl (Disp.tokenProduced ctl dw t').1.ctl ∧
    DEq (Disp.tokenProduced ctl ds t).1 (Disp.tokenProduced ctl dw t').1 ∧
    DPend (Disp.tokenProduced ctl ds t).1 (Disp.tokenProduced ctl dw t').1 ∧
    (Disp.tokenProduced ctl ds t).1.rcs = ds.rcs ∧ (Disp.tokenProduced ctl dw t').1.rcs = dw.rcs ∧
    ∃ X, sinkBytes (Disp.tokenProduced ctl ds t).1.sink = sinkBytes ds.sink ++ (if ds.emissionEnabled = true then X else []) ∧
      sinkBytes (Disp.tokenProduced ctl dw t').1.sink = sinkBytes dw.sink ++ (if ds.emissionEnabled = true then X else []) := by
  obtain ⟨a1, a2, a3, a4, a5, a6, a7, a8, a9, a10, a11, a12, a13⟩ := tokenProduced_desc (ctl := ctl) ds t
  obtain ⟨b1, b2, b3, b4, b5, b6, b7, b8, b9, b10, b11, b12, b13⟩ := tokenProduced_desc (ctl := ctl) dw t'
  rw [ht ds.ctl] at a1 a11 a12 a13
  obtain ⟨c1, c2, c3, c4⟩ := hcl.tok ds.ctl dw.ctl t' hE hnt
  refine ⟨by rw [a13, b13, c2], by rw [a1, b1]; exact c4, ⟨by rw [a3, b3]; exact heq.flags, by rw [a4, b4]; exact heq.em,
    by rw [a6, b6]; exact heq.gffh, by rw [a7, b7]; exact heq.paux, by rw [a10, b10]; exact heq.enc,
    by rw [a11, b11, c3, heq.nenc]⟩, ⟨by rw [a5, b5]; exact hp.ltt, by rw [a8, b8]; exact hp.tp, by rw [a9, b9]; exact hp.tps⟩,
    a2, b2, (ctl.token ds.ctl t').2.chunks.flatten, a12, by rw [b12, heq.em, c1]⟩

theorem DBytes.append {inpS inpW : Bytes} {δ : Nat} {ds dw ds' dw' : Disp γ} (h : DBytes inpS inpW δ ds dw) (X : Bytes)
    (hs : sinkBytes ds'.sink = sinkBytes ds.sink ++ (if ds.emissionEnabled = true then X else []))
    (hw : sinkBytes dw'.sink = sinkBytes dw.sink ++ (if ds.emissionEnabled = true then X else []))
    (hrs : ds'.rcs = ds.rcs) (hrw : dw'.rcs = dw.rcs) (hem : ds'.emissionEnabled = ds.emissionEnabled)
    (hx : X = [] ∨ dw.rcs = ds.rcs + δ) : DBytes inpS inpW δ ds' dw' := by
  refine ⟨by rw [hrs, hrw]; exact h.rcs_le, ?_⟩
  rw [hs, hw, hrs, hrw, hem, h.bytes]
  rcases hx with hx | hx
  · subst hx
    cases ds.emissionEnabled <;> simp
  · have : LolHtml.slice inpW dw.rcs (ds.rcs + δ) = [] := by
      rw [hx]; unfold LolHtml.slice; simp
    rw [this]
    cases ds.emissionEnabled <;> simp

/-- `flush_pending_captured_text` in both runs -/
theorem flushPendingText_sim {E : γ → γ → Prop} {inpS inpW : Bytes} {δ : Nat} (hcl : TextBlind ctl E) {ds dw : Disp γ}
    (h : DK0 E inpS inpW δ ds dw) :
    (dw.flushPendingText ctl).2 = .ok () ∧ (ds.flushPendingText ctl).2 = .ok () ∧
    DK0 E inpS inpW δ (ds.flushPendingText ctl).1 (dw.flushPendingText ctl).1 ∧
    (ds.flushPendingText ctl).1.rcs = ds.rcs ∧ (dw.flushPendingText ctl).1.rcs = dw.rcs := by
  unfold Disp.flushPendingText
  rw [h.pend.tp]
  cases htp : ds.textPending with
  | false => exact ⟨rfl, rfl, h, rfl, rfl⟩
  | true =>
    simp only [if_true]
    have htok : (Token.text [] dw.lastTextType true ⟨dw.textPendingStart, dw.textPendingStart⟩)
        = Token.text [] ds.lastTextType true ⟨ds.textPendingStart, ds.textPendingStart⟩ := by
      rw [h.pend.ltt, h.pend.tps]
    rw [htok]
    obtain ⟨a1, a2, a3, a4, a5, a6, a7, a8, a9, a10, a11, a12, a13⟩ := tokenProduced_desc (ctl := ctl) { ds with textPending := false }
      (.text [] ds.lastTextType true ⟨ds.textPendingStart, ds.textPendingStart⟩)
    obtain ⟨b1, b2, b3, b4, b5, b6, b7, b8, b9, b10, b11, b12, b13⟩ := tokenProduced_desc (ctl := ctl) { dw with textPending := false }
      (.text [] ds.lastTextType true ⟨ds.textPendingStart, ds.textPendingStart⟩)
    obtain ⟨c1, c2, c3⟩ := hcl.text_ok ds.ctl [] ds.lastTextType true ⟨ds.textPendingStart, ds.textPendingStart⟩ (hcl.dom _ _ h.ctl).1
    obtain ⟨e1, e2, e3⟩ := hcl.text_ok dw.ctl [] ds.lastTextType true ⟨ds.textPendingStart, ds.textPendingStart⟩ (hcl.dom _ _ h.ctl).2
    simp only at a1 a11 a12 a13 b1 b11 b12 b13
    rw [c1] at a13; rw [e1] at b13
    rw [c2] at a11; rw [e2] at b11
    rw [c3] at a12; rw [e3] at b12
    refine ⟨b13, a13, ⟨by rw [a1, b1]; exact hcl.text_cong _ _ _ _ _ _ h.ctl, ⟨by rw [a3, b3]; exact h.eq.flags, by rw [a4, b4]; exact h.eq.em,
      by rw [a6, b6]; exact h.eq.gffh, by rw [a7, b7]; exact h.eq.paux, by rw [a10, b10]; exact h.eq.enc,
      by rw [a11, b11]; exact h.eq.nenc⟩, ⟨by rw [a5, b5]; exact h.pend.ltt, by rw [a8, b8], by rw [a9, b9]; exact h.pend.tps⟩, ?_, by rw [a4]; exact h.emT⟩, a2, b2⟩
    refine DBytes.append (ds := { ds with textPending := false }) (dw := { dw with textPending := false })
      ⟨h.bytes.rcs_le, h.bytes.bytes⟩ [] ?_ ?_ a2 b2 a4 (Or.inl rfl)
    · rw [a12]
    · rw [b12]; simp

/-- `d'` differs from `d` at most in the sink log and `remaining_content_start` -/
structure DSame (d d' : Disp γ) : Prop where
  ctl : d'.ctl = d.ctl
  flags : d'.flags = d.flags
  em : d'.emissionEnabled = d.emissionEnabled
  ltt : d'.lastTextType = d.lastTextType
  gffh : d'.gotFlagsFromHint = d.gotFlagsFromHint
  paux : d'.pendingAux = d.pendingAux
  tp : d'.textPending = d.textPending
  tps : d'.textPendingStart = d.textPendingStart
  enc : d'.encoding = d.encoding
  nenc : d'.nextEncoding = d.nextEncoding

theorem DSame.refl (d : Disp γ) : DSame d d := ⟨rfl, rfl, rfl, rfl, rfl, rfl, rfl, rfl, rfl, rfl⟩

theorem DK0.of_same {E : γ → γ → Prop} {inpS inpW : Bytes} {δ : Nat} {ds dw ds' dw' : Disp γ}
    (h : DK0 E inpS inpW δ ds dw) (hs : DSame ds ds') (hw : DSame dw dw') (hb : DBytes inpS inpW δ ds' dw') :
    DK0 E inpS inpW δ ds' dw' :=
  ⟨by rw [hs.ctl, hw.ctl]; exact h.ctl,
   ⟨by rw [hs.flags, hw.flags]; exact h.eq.flags, by rw [hs.em, hw.em]; exact h.eq.em, by rw [hs.gffh, hw.gffh]; exact h.eq.gffh,
    by rw [hs.paux, hw.paux]; exact h.eq.paux, by rw [hs.enc, hw.enc]; exact h.eq.enc, by rw [hs.nenc, hw.nenc]; exact h.eq.nenc⟩,
   ⟨by rw [hs.ltt, hw.ltt]; exact h.pend.ltt, by rw [hs.tp, hw.tp]; exact h.pend.tp, by rw [hs.tps, hw.tps]; exact h.pend.tps⟩, hb,
   by rw [hs.em]; exact h.emT⟩

/-- `emit_chunk_before_lexeme` in both runs: afterwards the slack is empty -/
theorem emitChunkBefore_sim {inpS inpW : Bytes} {δ : Nat} (F : Frame inpS inpW δ) {ds dw ds' : Disp γ}
    (hb : DBytes inpS inpW δ ds dw) (hem : dw.emissionEnabled = ds.emissionEnabled) (raw : Range)
    (he : ds.emitChunkBefore inpS raw = .ok ds') :
    ∃ dw', dw.emitChunkBefore inpW (shR δ raw) = .ok dw' ∧ DSame ds ds' ∧ DSame dw dw' ∧
      ds'.rcs = raw.start ∧ dw'.rcs = raw.start + δ ∧ raw.start ≤ inpS.length ∧ ds.rcs ≤ raw.start ∧
      sinkBytes ds'.sink = sinkBytes dw'.sink := by
  unfold Disp.emitChunkBefore at he ⊢
  cases hcs : checkedSlice inpS ⟨ds.rcs, raw.start⟩ with
  | none => rw [hcs] at he; cases he
  | some chunk =>
    rw [hcs] at he
    simp only [Except.ok.injEq] at he
    obtain ⟨h1, h2, h3⟩ := checkedSlice_some hcs
    simp only at h1 h2
    have hl := F.len
    have hcw : checkedSlice inpW ⟨dw.rcs, (shR δ raw).start⟩ = some (LolHtml.slice inpW dw.rcs (raw.start + δ)) := by
      unfold checkedSlice
      have := hb.rcs_le
      rw [if_pos (by simp only [shR]; omega)]
      rfl
    rw [hcw]
    refine ⟨_, rfl, ?_, ?_, by rw [← he], rfl, h2, h1, ?_⟩
    · rw [← he]
      split <;> exact ⟨rfl, rfl, rfl, rfl, rfl, rfl, rfl, rfl, rfl, rfl⟩
    · simp only
      split <;> exact ⟨rfl, rfl, rfl, rfl, rfl, rfl, rfl, rfl, rfl, rfl⟩
    · rw [← he]
      have hslice : LolHtml.slice inpW dw.rcs (ds.rcs + δ) ++ chunk = LolHtml.slice inpW dw.rcs (raw.start + δ) := by
        rw [h3, ← F.slice h2, slice_append_slice inpW hb.rcs_le (by omega)]
      have hbytes := hb.bytes
      simp only
      rw [hem]
      cases hE : ds.emissionEnabled with
      | false =>
        rw [hE] at hbytes
        simpa using hbytes
      | true =>
        rw [hE] at hbytes
        simp only [Bool.true_and, if_true] at hbytes ⊢
        have e1 : sinkBytes (if (!chunk.isEmpty) = true then ds.push chunk else ds).sink = sinkBytes ds.sink ++ chunk := by
          split
          · simp [Disp.push]
          · rename_i hne
            have : chunk = [] := by
              cases chunk with
              | nil => rfl
              | cons x xs => simp at hne
            simp [this]
        have e2 : sinkBytes (if (!(LolHtml.slice inpW dw.rcs (raw.start + δ)).isEmpty) = true then
            dw.push (LolHtml.slice inpW dw.rcs (raw.start + δ)) else dw).sink =
            sinkBytes dw.sink ++ LolHtml.slice inpW dw.rcs (raw.start + δ) := by
          split
          · simp [Disp.push]
          · rename_i hne
            have : LolHtml.slice inpW dw.rcs (raw.start + δ) = [] := by
              cases hh : LolHtml.slice inpW dw.rcs (raw.start + δ) with
              | nil => rfl
              | cons x xs => rw [hh] at hne; simp at hne
            simp [this]
        rw [e1, e2, hbytes, List.append_assoc, hslice]

theorem flushEncodingChange_desc (d : Disp γ) :
    d.flushEncodingChange.ctl = d.ctl ∧ d.flushEncodingChange.rcs = d.rcs ∧ d.flushEncodingChange.flags = d.flags ∧
    d.flushEncodingChange.emissionEnabled = d.emissionEnabled ∧ d.flushEncodingChange.lastTextType = d.lastTextType ∧
    d.flushEncodingChange.gotFlagsFromHint = d.gotFlagsFromHint ∧ d.flushEncodingChange.pendingAux = d.pendingAux ∧
    d.flushEncodingChange.textPending = d.textPending ∧ d.flushEncodingChange.textPendingStart = d.textPendingStart ∧
    d.flushEncodingChange.nextEncoding = d.nextEncoding ∧
    sinkBytes d.flushEncodingChange.sink = sinkBytes d.sink ∧
    d.flushEncodingChange.encoding =
      (match d.nextEncoding with | some e => if e != d.encoding then e else d.encoding | none => d.encoding) := by
  unfold Disp.flushEncodingChange
  cases hne : d.nextEncoding with
  | none => simp [hne]
  | some e =>
    simp only
    split <;> simp_all

/-- the tail of `try_produce_token_from_lexeme` in both runs -/
theorem emitToken_sim {E : γ → γ → Prop} {inpS inpW : Bytes} {δ : Nat} (F : Frame inpS inpW δ) (hcl : TextBlind ctl E)
    {ds dw : Disp γ} (h : DK0 E inpS inpW δ ds dw) (raw : Range) (tok tok' : Token)
    (ht : ∀ g, ctl.token g tok = ctl.token g tok') (hnt : tokIsText tok' = false)
    (hraw : raw.start ≤ raw.end ∧ raw.end ≤ inpS.length) :
    OpRel (DK0 E inpS inpW δ) (ds.emitToken ctl inpS raw tok) (dw.emitToken ctl inpW (shR δ raw) tok') := by
  unfold Disp.emitToken
  cases he : ds.emitChunkBefore inpS raw with
  | error e =>
    left
    unfold Disp.emitChunkBefore at he
    split at he
    · simp only [Except.error.injEq] at he
      subst he
      simp [DRes.ofExcept, DRes.bind, EPanic]
    · cases he
  | ok ds1 =>
    obtain ⟨dw1, hw1, s1, s2, r1, r2, r3, r4, hsb⟩ := emitChunkBefore_sim F h.bytes h.eq.em raw he
    rw [hw1]
    simp only [DRes.ofExcept, DRes.bind]
    have hE1 : E ds1.ctl dw1.ctl := by rw [s1.ctl, s2.ctl]; exact h.ctl
    have hk1 : DK0 E inpS inpW δ ds1 dw1 := h.of_same s1 s2 ⟨by rw [r1, r2]; exact Nat.le_refl _, by
      rw [hsb, r1, r2]
      have : LolHtml.slice inpW (raw.start + δ) (raw.start + δ) = [] := by unfold LolHtml.slice; simp
      rw [this]; cases ds1.emissionEnabled <;> simp⟩
    obtain ⟨t1, t2, t3, t4, t5, t6, X, t7, t8⟩ := tok_sim hcl hE1 hk1.eq hk1.pend tok tok' ht hnt
    right
    rw [t1]
    cases hres : (Disp.tokenProduced ctl ds1 tok).2 with
    | error e => exact ⟨rfl, fun ⟨a, ha⟩ => by cases ha⟩
    | ok u =>
      simp only
      refine ⟨trivial, fun _ => ?_⟩
      obtain ⟨a1, a2, a3, a4, a5, a6, a7, a8, a9, a10, a11, a12⟩ :=
        flushEncodingChange_desc { (Disp.tokenProduced ctl ds1 tok).1 with rcs := raw.end }
      obtain ⟨b1, b2, b3, b4, b5, b6, b7, b8, b9, b10, b11, b12⟩ :=
        flushEncodingChange_desc { (Disp.tokenProduced ctl dw1 tok').1 with rcs := (shR δ raw).end }
      simp only at a1 a2 a3 a4 a5 a6 a7 a8 a9 a10 a11 a12 b1 b2 b3 b4 b5 b6 b7 b8 b9 b10 b11 b12
      refine ⟨by rw [a1, b1]; exact t2, ⟨by rw [a3, b3]; exact t3.flags, by rw [a4, b4]; exact t3.em, by rw [a6, b6]; exact t3.gffh,
        by rw [a7, b7]; exact t3.paux, by rw [a12, b12, t3.nenc, t3.enc], by rw [a10, b10]; exact t3.nenc⟩,
        ⟨by rw [a5, b5]; exact t4.ltt, by rw [a8, b8]; exact t4.tp, by rw [a9, b9]; exact t4.tps⟩,
        ⟨by rw [a2, b2]; simp [shR], ?_⟩, by rw [a4, (tokenProduced_desc (ctl := ctl) ds1 tok).2.2.2.1]; exact hk1.emT⟩
      rw [a11, b11, a2, b2, t7, t8, hsb]
      have : LolHtml.slice inpW (shR δ raw).end (raw.end + δ) = [] := by unfold LolHtml.slice; simp [shR]
      rw [this]
      cases (Disp.tokenProduced ctl ds1 tok).1.flushEncodingChange.emissionEnabled <;> simp

/-! ### lexemes to tokens -/

theorem srcOf_sh (pc δ : Nat) (raw : Range) : srcOf (pc + δ) raw = srcOf pc (shR δ raw) := by
  simp only [srcOf, shR, Range.mk.injEq]; omega

theorem shA_shA (a b : Nat) (o : AttrOutline) : shA a (shA b o) = shA (b + a) o := by
  simp only [shA, shR, AttrOutline.mk.injEq, Range.mk.injEq]; omega

theorem attrsOf_sh {inpS inpW : Bytes} {δ : Nat} (F : Frame inpS inpW δ) :
    ∀ (as : List AttrOutline) (l : List (Bytes × Bytes × AttrOutline)), attrsOf inpS as = some l →
      attrsOf inpW (as.map (shA δ)) = some (l.map fun a => (a.1, a.2.1, shA δ a.2.2)) := by
  intro as
  induction as with
  | nil => intro l h; simp only [attrsOf, List.mapM_nil, Option.pure_def, Option.some.injEq] at h; subst h; rfl
  | cons a as ih =>
    intro l h
    unfold attrsOf at h ih ⊢
    simp only [List.mapM_cons, Option.bind_eq_bind, Option.bind_eq_some_iff, Option.pure_def, Option.some.injEq] at h
    obtain ⟨b, hb, bs, hbs, rfl⟩ := h
    simp only [List.map_cons, List.mapM_cons, Option.bind_eq_bind, Option.pure_def]
    rw [ih bs hbs]
    split at hb
    · rename_i x y hx hy
      simp only [Option.some.injEq] at hb
      subst hb
      simp only [shA, F.checkedSlice hx, F.checkedSlice hy]
      rfl
    · cases hb

/-- `to_token` for tag lexemes in both runs -/
theorem tagToToken_sim {inpS inpW : Bytes} {δ : Nat} (F : Frame inpS inpW δ) (f : Flags) (pc : Nat) (raw : Range) (o : TagOutline)
    (ft : Flags × Option Token) (h : tagToToken f inpS ⟨pc + δ, raw, o⟩ = some ft) :
    ∃ t', tagToToken f inpW ⟨pc, shR δ raw, shTag δ o⟩ = some (ft.1, t') ∧
      match ft.2, t' with
      | none, none => True
      | some tok, some tok' => normToken tok = normToken tok' ∧ tokIsText tok' = false ∧
          raw.start ≤ raw.end ∧ raw.end ≤ inpS.length
      | _, _ => False := by
  unfold tagToToken at h ⊢
  cases o with
  | startTag name hsh ns as sc =>
    simp only [shTag] at h ⊢
    by_cases hf : f.nextStartTag = true
    · rw [if_pos hf] at h ⊢
      cases hn : checkedSlice inpS name with
      | none => rw [hn] at h; simp at h
      | some n =>
        cases ha : attrsOf inpS as with
        | none => rw [hn, ha] at h; simp at h
        | some attrs =>
          cases hr : checkedSlice inpS raw with
          | none => rw [hn, ha, hr] at h; simp at h
          | some rawb =>
            rw [hn, ha, hr] at h
            simp only [Option.some.injEq] at h
            subst h
            rw [F.checkedSlice hn, attrsOf_sh F as attrs ha, F.checkedSlice hr]
            obtain ⟨r1, r2, _⟩ := checkedSlice_some hr
            refine ⟨_, rfl, ?_, rfl, r1, r2⟩
            simp only [normToken, srcOf_sh, List.map_map, Token.startTag.injEq, true_and, and_true]
            apply List.map_congr_left
            intro a _
            simp only [Function.comp, shA_shA, Nat.add_comm]
    · rw [if_neg hf] at h ⊢
      simp only [Option.some.injEq] at h
      subst h
      exact ⟨none, rfl, trivial⟩
  | endTag name hsh =>
    simp only [shTag] at h ⊢
    by_cases hf : f.nextEndTag = true
    · rw [if_pos hf] at h ⊢
      cases hn : checkedSlice inpS name with
      | none => rw [hn] at h; simp at h
      | some n =>
        cases hr : checkedSlice inpS raw with
        | none => rw [hn, hr] at h; simp at h
        | some rawb =>
          rw [hn, hr] at h
          simp only [Option.some.injEq] at h
          subst h
          rw [F.checkedSlice hn, F.checkedSlice hr]
          obtain ⟨r1, r2, _⟩ := checkedSlice_some hr
          exact ⟨_, rfl, by simp only [normToken, srcOf_sh], rfl, r1, r2⟩
    · rw [if_neg hf] at h ⊢
      simp only [Option.some.injEq] at h
      subst h
      exact ⟨none, rfl, trivial⟩

theorem DK0.setFlags {E : γ → γ → Prop} {inpS inpW : Bytes} {δ : Nat} {ds dw : Disp γ} (h : DK0 E inpS inpW δ ds dw)
    (f : Flags) : DK0 E inpS inpW δ { ds with flags := f } { dw with flags := f } :=
  ⟨h.ctl, ⟨rfl, h.eq.em, h.eq.gffh, h.eq.paux, h.eq.enc, h.eq.nenc⟩, ⟨h.pend.ltt, h.pend.tp, h.pend.tps⟩,
    ⟨h.bytes.rcs_le, h.bytes.bytes⟩, h.emT⟩

theorem produceTag_sim {E : γ → γ → Prop} {inpS inpW : Bytes} {δ : Nat} (F : Frame inpS inpW δ) (hcl : TextBlind ctl E)
    {ds dw : Disp γ} (h : DK0 E inpS inpW δ ds dw) (pc : Nat) (raw : Range) (o : TagOutline) :
    OpRel (DK0 E inpS inpW δ) (ds.produceTag ctl inpS ⟨pc + δ, raw, o⟩) (dw.produceTag ctl inpW ⟨pc, shR δ raw, shTag δ o⟩) := by
  unfold Disp.produceTag
  rw [h.eq.flags]
  cases htt : tagToToken ds.flags inpS ⟨pc + δ, raw, o⟩ with
  | none => exact Or.inl trivial
  | some ft =>
    obtain ⟨t', hw, hrel⟩ := tagToToken_sim F ds.flags pc raw o ft htt
    rw [hw]
    simp only
    cases hft : ft.2 with
    | none =>
      rw [hft] at hrel
      cases t' with
      | none => exact Or.inr ⟨rfl, fun _ => h.setFlags ft.1⟩
      | some x => exact hrel.elim
    | some tok =>
      rw [hft] at hrel
      cases t' with
      | none => exact hrel.elim
      | some tok' =>
        obtain ⟨hn, hnt, hr1, hr2⟩ := hrel
        exact emitToken_sim F hcl (h.setFlags ft.1) raw tok tok'
          (fun g => hcl.token_norm g tok tok' hn) hnt ⟨hr1, hr2⟩

/-! ### capture-flag adjustment -/

theorem DK0.setCtl {E : γ → γ → Prop} {inpS inpW : Bytes} {δ : Nat} {ds dw : Disp γ} (h : DK0 E inpS inpW δ ds dw)
    {c c' : γ} (hc : E c c') : DK0 E inpS inpW δ { ds with ctl := c } { dw with ctl := c' } :=
  ⟨hc, ⟨h.eq.flags, h.eq.em, h.eq.gffh, h.eq.paux, h.eq.enc, h.eq.nenc⟩, ⟨h.pend.ltt, h.pend.tp, h.pend.tps⟩,
    ⟨h.bytes.rcs_le, h.bytes.bytes⟩, h.emT⟩

theorem DK0.setPaux {E : γ → γ → Prop} {inpS inpW : Bytes} {δ : Nat} {ds dw : Disp γ} (h : DK0 E inpS inpW δ ds dw)
    (b : Bool) : DK0 E inpS inpW δ { ds with pendingAux := b } { dw with pendingAux := b } :=
  ⟨h.ctl, ⟨h.eq.flags, h.eq.em, h.eq.gffh, rfl, h.eq.enc, h.eq.nenc⟩, ⟨h.pend.ltt, h.pend.tp, h.pend.tps⟩,
    ⟨h.bytes.rcs_le, h.bytes.bytes⟩, h.emT⟩

theorem DK0.setGffh {E : γ → γ → Prop} {inpS inpW : Bytes} {δ : Nat} {ds dw : Disp γ} (h : DK0 E inpS inpW δ ds dw)
    (b : Bool) : DK0 E inpS inpW δ { ds with gotFlagsFromHint := b } { dw with gotFlagsFromHint := b } :=
  ⟨h.ctl, ⟨h.eq.flags, h.eq.em, rfl, h.eq.paux, h.eq.enc, h.eq.nenc⟩, ⟨h.pend.ltt, h.pend.tp, h.pend.tps⟩,
    ⟨h.bytes.rcs_le, h.bytes.bytes⟩, h.emT⟩

theorem auxRefines_sh {inpS inpW : Bytes} {δ : Nat} (F : Frame inpS inpW δ) (as : List AttrOutline) (sc : Bool) :
    AuxRefines ⟨inpS, as, sc⟩ ⟨inpW, as.map (shA δ), sc⟩ := by
  refine ⟨rfl, by simp, fun k a a' h1 h2 => ?_⟩
  simp only [List.getElem?_map, h1, Option.map_some, Option.some.injEq] at h2
  subst h2
  exact ⟨fun b hb => F.checkedSlice hb, fun b hb => F.checkedSlice hb⟩

theorem answerAux_sim {E : γ → γ → Prop} {inpS inpW : Bytes} {δ : Nat} (F : Frame inpS inpW δ) (hcl : TextBlind ctl E)
    {ds dw : Disp γ} (h : DK0 E inpS inpW δ ds dw) (as : List AttrOutline) (sc : Bool) :
    OpRel (DK0 E inpS inpW δ) (ds.answerAux ctl ⟨inpS, as, sc⟩) (dw.answerAux ctl ⟨inpW, as.map (shA δ), sc⟩) := by
  unfold Disp.answerAux
  rcases hcl.aux_norm ds.ctl _ _ (auxRefines_sh F as sc) with hp | heq
  · left
    simp only
    revert hp
    cases (ctl.auxInfo ds.ctl ⟨inpS, as, sc⟩).2 with
    | ok f => intro hp; exact hp.elim
    | error e =>
      intro hp
      simp only
      cases e <;> first | exact hp.elim | exact trivial
  · right
    rw [heq]
    obtain ⟨h1, h2⟩ := hcl.aux ds.ctl dw.ctl ⟨inpW, as.map (shA δ), sc⟩ h.ctl
    simp only
    rw [← h1]
    cases (ctl.auxInfo ds.ctl ⟨inpW, as.map (shA δ), sc⟩).2 with
    | ok f => exact ⟨rfl, fun _ => (h.setCtl h2).setFlags f⟩
    | error e => exact ⟨rfl, fun ⟨a, ha⟩ => by cases ha⟩

theorem localName_shD {inpS inpW : Bytes} {δ : Nat} (F : Frame inpS inpW δ) {r : Range} {hsh : Nat} {n : LocalName}
    (hn : LocalName.new inpS r hsh = some n) : LocalName.new inpW (shR δ r) hsh = some n := by
  unfold LocalName.new at *
  split
  · rename_i he
    rw [if_pos he] at hn
    simp only [Option.map_eq_some_iff] at hn ⊢
    obtain ⟨b, hb, rfl⟩ := hn
    exact ⟨b, F.checkedSlice hb, rfl⟩
  · rename_i he
    rw [if_neg he] at hn
    exact hn

theorem adjustFlags_sim {E : γ → γ → Prop} {inpS inpW : Bytes} {δ : Nat} (F : Frame inpS inpW δ) (hcl : TextBlind ctl E)
    {ds dw : Disp γ} (h : DK0 E inpS inpW δ ds dw) (pc : Nat) (raw : Range) (o : TagOutline) :
    OpRel (DK0 E inpS inpW δ) (ds.adjustFlagsForTag ctl inpS ⟨pc + δ, raw, o⟩)
      (dw.adjustFlagsForTag ctl inpW ⟨pc, shR δ raw, shTag δ o⟩) := by
  unfold Disp.adjustFlagsForTag
  by_cases hpa : ds.pendingAux = true
  · have hpw : dw.pendingAux = true := by rw [h.eq.paux]; exact hpa
    rw [if_pos hpa, if_pos hpw]
    cases o with
    | startTag name hsh ns as sc =>
      simp only [shTag]
      exact answerAux_sim F hcl (h.setPaux false) as sc
    | endTag name hsh =>
      simp only [shTag]
      exact Or.inr ⟨rfl, fun ⟨a, ha⟩ => by cases ha⟩
  · have hpw : ¬ dw.pendingAux = true := by rw [h.eq.paux]; exact hpa
    rw [if_neg hpa, if_neg hpw]
    cases o with
    | startTag name hsh ns as sc =>
      simp only [shTag]
      cases hn : LocalName.new inpS name hsh with
      | none => exact Or.inl trivial
      | some ln =>
        rw [localName_shD F hn]
        simp only
        obtain ⟨h1, h2⟩ := hcl.start ds.ctl dw.ctl ln ns h.ctl
        rw [← h1]
        cases (ctl.startTag ds.ctl ln ns).2 with
        | flags f => exact Or.inr ⟨rfl, fun _ => (h.setCtl h2).setFlags f⟩
        | infoRequest => exact answerAux_sim F hcl (h.setCtl h2) as sc
        | err e => exact Or.inr ⟨rfl, fun ⟨a, ha⟩ => by cases ha⟩
    | endTag name hsh =>
      simp only [shTag]
      cases hn : LocalName.new inpS name hsh with
      | none => exact Or.inl trivial
      | some ln =>
        rw [localName_shD F hn]
        simp only
        obtain ⟨h1, h2⟩ := hcl.endT ds.ctl dw.ctl ln h.ctl
        rw [← h1]
        exact Or.inr ⟨rfl, fun _ => (h.setCtl h2).setFlags _⟩

/-! ### sequencing -/

theorem bind_rel {α β : Type} {R R' : Disp γ → Disp γ → Prop} {rs rw : DRes γ α} {fs fw : Disp γ → α → DRes γ β}
    (h : OpRel R rs rw) (hf : ∀ ds dw a, R ds dw → OpRel R' (fs ds a) (fw dw a)) :
    OpRel R' (rs.bind fs) (rw.bind fw) := by
  unfold DRes.bind
  rcases h with hp | ⟨he, hk⟩
  · left
    revert hp
    cases rs.2 with
    | ok a => intro hp; exact hp.elim
    | error e => intro hp; cases e <;> first | exact hp.elim | exact trivial
  · rw [he]
    cases hrs : rs.2 with
    | error e => exact Or.inr ⟨rfl, fun ⟨a, ha⟩ => by cases ha⟩
    | ok a => exact hf _ _ a (hk ⟨a, hrs⟩)

theorem OpRel.ok {α : Type} {R : Disp γ → Disp γ → Prop} {ds dw : Disp γ} (a : α) (h : R ds dw) :
    OpRel R ((ds, .ok a) : DRes γ α) (dw, .ok a) := Or.inr ⟨rfl, fun _ => h⟩

theorem isStart_sh (δ : Nat) (o : TagOutline) : (shTag δ o).isStart = o.isStart := by cases o <;> rfl

theorem resumeEmission_id (d : Disp γ) (lx : TagLexeme) (h : d.emissionEnabled = true) :
    d.resumeEmission ctl lx = d := by
  unfold Disp.resumeEmission Disp.shouldStopRemoving
  simp [h]

/-- **`LexemeSink::handle_tag`** -/
theorem handleTag_sim {E : γ → γ → Prop} {inpS inpW : Bytes} {δ : Nat} (F : Frame inpS inpW δ) (hcl : TextBlind ctl E)
    {ds dw : Disp γ} (h : DK0 E inpS inpW δ ds dw) (pc : Nat) (raw : Range) (o : TagOutline) :
    OpRel (DK0 E inpS inpW δ) (Disp.handleTag ctl inpS ⟨pc + δ, raw, o⟩ ds)
      (Disp.handleTag ctl inpW ⟨pc, shR δ raw, shTag δ o⟩ dw) := by
  unfold Disp.handleTag
  obtain ⟨f1, f2, f3, _, _⟩ := flushPendingText_sim hcl h
  have hflush : OpRel (DK0 E inpS inpW δ) (ds.flushPendingText ctl) (dw.flushPendingText ctl) :=
    Or.inr ⟨by rw [f1, f2], fun _ => f3⟩
  refine bind_rel hflush (fun ds1 dw1 _ h1 => ?_)
  refine bind_rel (R := DK0 E inpS inpW δ) ?_ (fun ds2 dw2 _ h2 => ?_)
  · rw [h1.eq.gffh]
    split
    · exact OpRel.ok () (h1.setGffh false)
    · exact adjustFlags_sim F hcl h1 pc raw o
  · rw [resumeEmission_id ds2 _ h2.emT, resumeEmission_id dw2 _ (by rw [h2.eq.em]; exact h2.emT)]
    refine bind_rel (produceTag_sim F hcl h2 pc raw o) (fun ds3 dw3 _ h3 => ?_)
    have e1 : ({ ds3 with emissionEnabled := ctl.shouldEmit ds3.ctl } : Disp γ) = ds3 := by
      rw [hcl.emit, ← h3.emT]
    have e2 : ({ dw3 with emissionEnabled := ctl.shouldEmit dw3.ctl } : Disp γ) = dw3 := by
      rw [hcl.emit, ← h3.emT, ← h3.eq.em]
    simp only [e1, e2]
    unfold Disp.nextDirective
    rw [h3.eq.flags]
    exact OpRel.ok _ h3

/-! ### non-tag lexemes -/

/-- everything a text chunk does to the dispatcher -/
theorem textTok_desc {E : γ → γ → Prop} (hcl : TextBlind ctl E) (d : Disp γ) (hd : E d.ctl d.ctl) (b : Bytes) (tt : TextType) (l : Bool) (s : Range) :
    (Disp.tokenProduced ctl d (.text b tt l s)).2 = .ok () ∧
    (Disp.tokenProduced ctl d (.text b tt l s)).1.ctl = (ctl.token d.ctl (.text b tt l s)).1 ∧
    DSame { d with ctl := (ctl.token d.ctl (.text b tt l s)).1 } (Disp.tokenProduced ctl d (.text b tt l s)).1 ∧
    (Disp.tokenProduced ctl d (.text b tt l s)).1.rcs = d.rcs ∧
    sinkBytes (Disp.tokenProduced ctl d (.text b tt l s)).1.sink = sinkBytes d.sink ++
      (if d.emissionEnabled = true then b else []) := by
  obtain ⟨a1, a2, a3, a4, a5, a6, a7, a8, a9, a10, a11, a12, a13⟩ := tokenProduced_desc (ctl := ctl) d (.text b tt l s)
  obtain ⟨c1, c2, c3⟩ := hcl.text_ok d.ctl b tt l s hd
  rw [c1] at a13; rw [c2] at a11; rw [c3] at a12
  exact ⟨a13, a1, ⟨a1, a3, a4, a5, a6, a7, a8, a9, a10, a11⟩, a2, a12⟩

theorem emitChunkBefore_desc (d : Disp γ) (input : Bytes) (raw : Range) :
    (∃ m, d.emitChunkBefore input raw = .error (.panic m)) ∨
    ∃ d1, d.emitChunkBefore input raw = .ok d1 ∧ DSame d d1 ∧ d1.rcs = raw.start ∧ d.rcs ≤ raw.start ∧
      raw.start ≤ input.length ∧
      sinkBytes d1.sink = sinkBytes d.sink ++ (if d.emissionEnabled = true then LolHtml.slice input d.rcs raw.start else []) := by
  unfold Disp.emitChunkBefore
  cases hcs : checkedSlice input ⟨d.rcs, raw.start⟩ with
  | none => exact Or.inl ⟨_, rfl⟩
  | some chunk =>
    right
    obtain ⟨h1, h2, h3⟩ := checkedSlice_some hcs
    simp only at h1 h2 h3
    refine ⟨_, rfl, ?_, rfl, h1, h2, ?_⟩
    · split <;> exact ⟨rfl, rfl, rfl, rfl, rfl, rfl, rfl, rfl, rfl, rfl⟩
    · simp only
      rw [← h3]
      cases hE : d.emissionEnabled with
      | false => simp
      | true =>
        simp only [Bool.true_and, if_true]
        split
        · simp [Disp.push]
        · rename_i hne
          have : chunk = [] := by
            cases chunk with
            | nil => rfl
            | cons x xs => simp at hne
          simp [this]

/-- everything `produce_text` (one text lexeme under the TEXT flag) does -/
theorem produceText_desc {E : γ → γ → Prop} (hcl : TextBlind ctl E) (d : Disp γ) (hd : E d.ctl d.ctl) (input : Bytes) (lx : NonTagLexeme) (tt : TextType) :
    EPanic (d.produceText ctl input lx tt).2 ∨
    ∃ rawb, checkedSlice input lx.raw = some rawb ∧ d.rcs ≤ lx.raw.start ∧
      (d.produceText ctl input lx tt).2 = .ok () ∧
      (d.produceText ctl input lx tt).1.ctl = (ctl.token d.ctl (.text rawb tt false (srcOf lx.prevConsumed lx.raw))).1 ∧
      (d.produceText ctl input lx tt).1.flags = d.flags ∧
      (d.produceText ctl input lx tt).1.emissionEnabled = d.emissionEnabled ∧
      (d.produceText ctl input lx tt).1.lastTextType = tt ∧
      (d.produceText ctl input lx tt).1.gotFlagsFromHint = d.gotFlagsFromHint ∧
      (d.produceText ctl input lx tt).1.pendingAux = d.pendingAux ∧
      (d.produceText ctl input lx tt).1.textPending = true ∧
      (d.produceText ctl input lx tt).1.textPendingStart = lx.prevConsumed + lx.raw.end ∧
      (d.produceText ctl input lx tt).1.encoding = d.encoding ∧
      (d.produceText ctl input lx tt).1.nextEncoding = d.nextEncoding ∧
      (d.produceText ctl input lx tt).1.rcs = lx.raw.end ∧
      sinkBytes (d.produceText ctl input lx tt).1.sink = sinkBytes d.sink ++
        (if d.emissionEnabled = true then LolHtml.slice input d.rcs lx.raw.start ++ rawb else []) := by
  unfold Disp.produceText
  cases hr : checkedSlice input lx.raw with
  | none => exact Or.inl trivial
  | some rawb =>
    simp only
    rcases emitChunkBefore_desc d input lx.raw with ⟨m, he⟩ | ⟨d1, he, hs, h1, h2, h3, h4⟩
    · left; rw [he]; simp [DRes.ofExcept, DRes.bind, EPanic]
    · right
      rw [he]
      simp only [DRes.ofExcept, DRes.bind]
      obtain ⟨t1, t2, t3, t4, t5⟩ := textTok_desc hcl { d1 with lastTextType := tt } (by show E d1.ctl d1.ctl; rw [hs.ctl]; exact hd) rawb tt false (srcOf lx.prevConsumed lx.raw)
      rw [t1]
      simp only
      refine ⟨rawb, rfl, h2, trivial, by rw [t2]; simp only; rw [hs.ctl], by rw [t3.flags]; exact hs.flags,
        by rw [t3.em]; exact hs.em, by rw [t3.ltt], by rw [t3.gffh]; exact hs.gffh, by rw [t3.paux]; exact hs.paux, trivial, trivial,
        by rw [t3.enc]; exact hs.enc, by rw [t3.nenc]; exact hs.nenc, trivial, ?_⟩
      rw [t5]
      simp only
      rw [h4, hs.em]
      cases d.emissionEnabled <;> simp

/-- `produce_text` cannot fail when its slices are in range -/
theorem produceText_noPanic {E : γ → γ → Prop} (hcl : TextBlind ctl E) (d : Disp γ) (hd : E d.ctl d.ctl) (input : Bytes) (lx : NonTagLexeme) (tt : TextType)
    (h1 : lx.raw.start ≤ lx.raw.end) (h2 : lx.raw.end ≤ input.length) (h3 : d.rcs ≤ lx.raw.start) :
    ¬ EPanic (d.produceText ctl input lx tt).2 := by
  intro hp
  unfold Disp.produceText at hp
  have hr : checkedSlice input lx.raw = some (LolHtml.slice input lx.raw.start lx.raw.end) := by
    unfold checkedSlice; rw [if_pos ⟨h1, h2⟩]
  rw [hr] at hp
  simp only at hp
  rcases emitChunkBefore_desc d input lx.raw with ⟨m, he⟩ | ⟨d1, he, hs, _⟩
  · unfold Disp.emitChunkBefore at he
    have : checkedSlice input ⟨d.rcs, lx.raw.start⟩ = some (LolHtml.slice input d.rcs lx.raw.start) := by
      unfold checkedSlice; rw [if_pos ⟨h3, by simp only; omega⟩]
    rw [this] at he
    cases he
  · rw [he] at hp
    simp only [DRes.ofExcept, DRes.bind] at hp
    obtain ⟨t1, _⟩ := textTok_desc hcl { d1 with lastTextType := tt } (by show E d1.ctl d1.ctl; rw [hs.ctl]; exact hd)
      (LolHtml.slice input lx.raw.start lx.raw.end) tt false (srcOf lx.prevConsumed lx.raw)
    rw [t1] at hp
    exact hp

/-- a text lexeme under related dispatchers without debt -/
theorem produceText_sim {E : γ → γ → Prop} {inpS inpW : Bytes} {δ : Nat} (F : Frame inpS inpW δ) (hcl : TextBlind ctl E)
    {ds dw : Disp γ} (h : DK0 E inpS inpW δ ds dw) (pc : Nat) (raw : Range) (o o' : Option NonTagOutline) (tt : TextType) :
    OpRel (DK0 E inpS inpW δ) (ds.produceText ctl inpS ⟨pc + δ, raw, o⟩ tt) (dw.produceText ctl inpW ⟨pc, shR δ raw, o'⟩ tt) := by
  rcases produceText_desc hcl ds (hcl.dom _ _ h.ctl).1 inpS ⟨pc + δ, raw, o⟩ tt with hp | ⟨rawb, a0, a1, a2, a3, a4, a5, a6, a7, a8, a9, a10, a11, a12, a13, a14⟩
  · exact Or.inl hp
  · simp only at a0 a1
    obtain ⟨r1, r2, r3⟩ := checkedSlice_some a0
    have hl := F.len
    have hle := h.bytes.rcs_le
    rcases produceText_desc hcl dw (hcl.dom _ _ h.ctl).2 inpW ⟨pc, shR δ raw, o'⟩ tt with hp | ⟨rawb', b0, b1, b2, b3, b4, b5, b6, b7, b8, b9, b10, b11, b12, b13, b14⟩
    · exact (produceText_noPanic hcl dw (hcl.dom _ _ h.ctl).2 inpW ⟨pc, shR δ raw, o'⟩ tt (by simp only [shR]; omega) (by simp only [shR]; omega)
        (by simp only [shR]; omega) hp).elim
    · simp only at b0 b1
      rw [F.checkedSlice a0] at b0
      simp only [Option.some.injEq] at b0
      subst b0
      right
      refine ⟨by rw [a2, b2], fun _ => ?_⟩
      refine ⟨?_, ⟨by rw [a4, b4]; exact h.eq.flags, by rw [a5, b5]; exact h.eq.em, by rw [a7, b7]; exact h.eq.gffh,
        by rw [a8, b8]; exact h.eq.paux, by rw [a11, b11]; exact h.eq.enc, by rw [a12, b12]; exact h.eq.nenc⟩,
        ⟨by rw [a6, b6], by rw [a9, b9], by rw [a10, b10]; simp only [shR]; omega⟩,
        ⟨by rw [a13, b13]; simp [shR], ?_⟩, by rw [a5]; exact h.emT⟩
      · rw [a3, b3]
        simp only
        rw [srcOf_sh]
        exact hcl.text_cong _ _ _ _ _ _ h.ctl
      · rw [a14, b14, a13, b13, a5, h.eq.em, h.bytes.bytes]
        simp only [h.emT, if_true, shR]
        have e1 : LolHtml.slice inpW (raw.end + δ) (raw.end + δ) = [] := by unfold LolHtml.slice; simp
        have e2 : LolHtml.slice inpS ds.rcs raw.start = LolHtml.slice inpW (ds.rcs + δ) (raw.start + δ) :=
          (F.slice (by omega)).symm
        rw [e1, e2, List.append_nil, List.append_assoc, ← List.append_assoc (LolHtml.slice inpW dw.rcs (ds.rcs + δ)),
          slice_append_slice inpW hle (by omega)]

def TokRel (ctl : Controller γ) (inpS : Bytes) (raw : Range) : Option Token → Option Token → Prop
  | none, none => True
  | some tok, some tok' => (∀ g, ctl.token g tok = ctl.token g tok') ∧ tokIsText tok' = false ∧
      raw.start ≤ raw.end ∧ raw.end ≤ inpS.length
  | _, _ => False

/-- a range that ends inside the split input (or the inputs end together) is sliced alike in both runs, also
by the silent `get` -/
theorem checkedSlice_sh_eq {inpS inpW : Bytes} {δ : Nat} (F : Frame inpS inpW δ) (r : Range)
    (hin : inpW.length = inpS.length + δ ∨ r.end ≤ inpS.length) :
    checkedSlice inpW (shR δ r) = checkedSlice inpS r := by
  cases hs : checkedSlice inpS r with
  | some b => exact F.checkedSlice hs
  | none =>
    unfold checkedSlice at hs ⊢
    have hl := F.len
    split at hs
    · cases hs
    · rename_i hc
      rw [if_neg]
      intro hw
      simp only [shR] at hw
      apply hc
      rcases hin with h | h
      · exact ⟨by omega, by omega⟩
      · exact ⟨by omega, h⟩

theorem optSlice_sh_eq {inpS inpW : Bytes} {δ : Nat} (F : Frame inpS inpW δ) (o : Option Range)
    (hin : inpW.length = inpS.length + δ ∨ leOR inpS.length o) :
    (o.map (shR δ)).bind (checkedSlice inpW) = o.bind (checkedSlice inpS) := by
  cases o with
  | none => rfl
  | some r =>
    simp only [Option.map_some, Option.bind_some]
    exact checkedSlice_sh_eq F r hin

theorem nonTagToToken_sim {E : γ → γ → Prop} {inpS inpW : Bytes} {δ : Nat} (F : Frame inpS inpW δ) (hcl : TextBlind ctl E)
    (f : Flags) (pc : Nat) (raw : Range) (o : Option NonTagOutline) (r : Option Token)
    (h : nonTagToToken f inpS ⟨pc + δ, raw, o⟩ = some r) (hdt : DtIn inpS inpW δ o) :
    ∃ r', nonTagToToken f inpW ⟨pc, shR δ raw, o.map (shNonTag δ)⟩ = some r' ∧ TokRel ctl inpS raw r r' := by
  unfold nonTagToToken at h ⊢
  cases o with
  | none => simp only [Option.some.injEq] at h; subst h; exact ⟨none, rfl, trivial⟩
  | some o =>
    cases o with
    | text tt => simp only [Option.some.injEq] at h; subst h; exact ⟨none, rfl, trivial⟩
    | eof => simp only [Option.some.injEq] at h; subst h; exact ⟨none, rfl, trivial⟩
    | comment text =>
      simp only [Option.map_some, shNonTag] at h ⊢
      by_cases hf : f.comments = true
      · rw [if_pos hf] at h ⊢
        cases ht : checkedSlice inpS text with
        | none => rw [ht] at h; simp at h
        | some t =>
          cases hr : checkedSlice inpS raw with
          | none => rw [ht, hr] at h; simp at h
          | some rawb =>
            rw [ht, hr] at h
            simp only [Option.some.injEq] at h
            subst h
            rw [F.checkedSlice ht, F.checkedSlice hr]
            obtain ⟨r1, r2, _⟩ := checkedSlice_some hr
            exact ⟨_, rfl, fun g => by rw [srcOf_sh], rfl, r1, r2⟩
      · rw [if_neg hf] at h ⊢
        simp only [Option.some.injEq] at h; subst h; exact ⟨none, rfl, trivial⟩
    | doctype dt =>
      simp only [Option.map_some, shNonTag] at h ⊢
      by_cases hf : f.doctypes = true
      · rw [if_pos hf] at h ⊢
        cases hr : checkedSlice inpS raw with
        | none => rw [hr] at h; simp at h
        | some rawb =>
          rw [hr] at h
          simp only [Option.some.injEq] at h
          subst h
          rw [F.checkedSlice hr]
          obtain ⟨r1, r2, _⟩ := checkedSlice_some hr
          refine ⟨_, rfl, fun g => ?_, rfl, r1, r2⟩
          have hdt' : inpW.length = inpS.length + δ ∨ leNonTag inpS.length (.doctype dt) := hdt
          have h1 := optSlice_sh_eq F dt.name (hdt'.imp id (fun h => h.1))
          have h2 := optSlice_sh_eq F dt.publicId (hdt'.imp id (fun h => h.2.1))
          have h3 := optSlice_sh_eq F dt.systemId (hdt'.imp id (fun h => h.2.2))
          simp only [shDoctype]
          rw [srcOf_sh, h1, h2, h3]
      · rw [if_neg hf] at h ⊢
        simp only [Option.some.injEq] at h; subst h; exact ⟨none, rfl, trivial⟩

/-- **`LexemeSink::handle_non_tag_content`**, no text debt -/
theorem handleNonTag_sim {E : γ → γ → Prop} {inpS inpW : Bytes} {δ : Nat} (F : Frame inpS inpW δ) (hcl : TextBlind ctl E)
    {ds dw : Disp γ} (h : DK0 E inpS inpW δ ds dw) (pc : Nat) (raw : Range) (o : Option NonTagOutline)
    (hdt : DtIn inpS inpW δ o) :
    OpRel (DK0 E inpS inpW δ) (Disp.handleNonTag ctl inpS ⟨pc + δ, raw, o⟩ ds)
      (Disp.handleNonTag ctl inpW ⟨pc, shR δ raw, o.map (shNonTag δ)⟩ dw) := by
  unfold Disp.handleNonTag
  have hnt : ∀ {ds dw : Disp γ}, DK0 E inpS inpW δ ds dw → (∀ tt, o ≠ some (.text tt)) →
      OpRel (DK0 E inpS inpW δ) (ds.produceNonTag ctl inpS ⟨pc + δ, raw, o⟩)
        (dw.produceNonTag ctl inpW ⟨pc, shR δ raw, o.map (shNonTag δ)⟩) := by
    intro ds dw h hno
    have key : OpRel (DK0 E inpS inpW δ)
        (match nonTagToToken ds.flags inpS ⟨pc + δ, raw, o⟩ with
          | none => (ds, .error (.panic "Bytes::slice out of range in to_token"))
          | some none => (ds, .ok ())
          | some (some tok) => ds.emitToken ctl inpS raw tok)
        (match nonTagToToken dw.flags inpW ⟨pc, shR δ raw, o.map (shNonTag δ)⟩ with
          | none => (dw, .error (.panic "Bytes::slice out of range in to_token"))
          | some none => (dw, .ok ())
          | some (some tok) => dw.emitToken ctl inpW (shR δ raw) tok) := by
      rw [h.eq.flags]
      cases hr : nonTagToToken ds.flags inpS ⟨pc + δ, raw, o⟩ with
      | none => exact Or.inl trivial
      | some r =>
        obtain ⟨r', hw, hrel⟩ := nonTagToToken_sim F hcl ds.flags pc raw o r hr hdt
        rw [hw]
        cases r with
        | none =>
          cases r' with
          | none => exact OpRel.ok () h
          | some _ => exact hrel.elim
        | some tok =>
          cases r' with
          | none => exact hrel.elim
          | some tok' =>
            obtain ⟨hn, hnt, hr1, hr2⟩ := hrel
            exact emitToken_sim F hcl h raw tok tok' hn hnt ⟨hr1, hr2⟩
    unfold Disp.produceNonTag
    cases o with
    | none => exact key
    | some o =>
      cases o with
      | text tt => exact (hno tt rfl).elim
      | comment t => exact key
      | doctype dt => exact key
      | eof => exact key
  obtain ⟨f1, f2, f3, _, _⟩ := flushPendingText_sim hcl h
  have hflush : OpRel (DK0 E inpS inpW δ) (ds.flushPendingText ctl) (dw.flushPendingText ctl) :=
    Or.inr ⟨by rw [f1, f2], fun _ => f3⟩
  cases o with
  | none =>
    simp only [NonTagLexeme.isText, Option.map_none, Bool.false_eq_true, if_false]
    exact bind_rel hflush (fun ds1 dw1 _ h1 => hnt h1 (fun _ hh => by cases hh))
  | some o =>
    cases o with
    | text tt =>
      simp only [NonTagLexeme.isText, Option.map_some, shNonTag, if_true]
      refine bind_rel (R := DK0 E inpS inpW δ) (OpRel.ok () h) (fun ds1 dw1 _ h1 => ?_)
      unfold Disp.produceNonTag
      simp only
      rw [h1.eq.flags]
      split
      · exact produceText_sim F hcl h1 pc raw _ _ tt
      · exact OpRel.ok () h1
    | comment t =>
      simp only [NonTagLexeme.isText, Option.map_some, shNonTag, Bool.false_eq_true, if_false]
      exact bind_rel hflush (fun ds1 dw1 _ h1 => hnt h1 (fun _ hh => by cases hh))
    | doctype dt =>
      simp only [NonTagLexeme.isText, Option.map_some, shNonTag, Bool.false_eq_true, if_false]
      exact bind_rel hflush (fun ds1 dw1 _ h1 => hnt h1 (fun _ hh => by cases hh))
    | eof =>
      simp only [NonTagLexeme.isText, Option.map_some, shNonTag, Bool.false_eq_true, if_false]
      exact bind_rel hflush (fun ds1 dw1 _ h1 => hnt h1 (fun _ hh => by cases hh))

/-! ### tag hints -/

theorem applyHintFlags_sim {E : γ → γ → Prop} {inpS inpW : Bytes} {δ : Nat} {ds dw : Disp γ}
    (h : DK0 E inpS inpW δ ds dw) (f : Flags) :
    OpRel (DK0 E inpS inpW δ) (ds.applyHintFlags f) (dw.applyHintFlags f) := by
  unfold Disp.applyHintFlags Disp.nextDirective
  exact OpRel.ok _ ((h.setFlags f).setGffh _)

theorem startTagHint_sim {E : γ → γ → Prop} {inpS inpW : Bytes} {δ : Nat} (hcl : TextBlind ctl E) {ds dw : Disp γ}
    (h : DK0 E inpS inpW δ ds dw) (n : LocalName) (ns : Ns) :
    OpRel (DK0 E inpS inpW δ) (Disp.startTagHint ctl n ns ds) (Disp.startTagHint ctl n ns dw) := by
  unfold Disp.startTagHint
  obtain ⟨h1, h2⟩ := hcl.start ds.ctl dw.ctl n ns h.ctl
  simp only
  rw [← h1]
  cases (ctl.startTag ds.ctl n ns).2 with
  | flags f => exact applyHintFlags_sim (h.setCtl h2) f
  | infoRequest => exact OpRel.ok _ (((h.setCtl h2).setGffh false).setPaux true)
  | err e => exact Or.inr ⟨rfl, fun ⟨a, ha⟩ => by cases ha⟩

theorem endTagHint_sim {E : γ → γ → Prop} {inpS inpW : Bytes} {δ : Nat} (hcl : TextBlind ctl E) {ds dw : Disp γ}
    (h : DK0 E inpS inpW δ ds dw) (n : LocalName) :
    OpRel (DK0 E inpS inpW δ) (Disp.endTagHint ctl n ds) (Disp.endTagHint ctl n dw) := by
  unfold Disp.endTagHint
  obtain ⟨f1, f2, f3, _, _⟩ := flushPendingText_sim hcl h
  have hflush : OpRel (DK0 E inpS inpW δ) (ds.flushPendingText ctl) (dw.flushPendingText ctl) :=
    Or.inr ⟨by rw [f1, f2], fun _ => f3⟩
  refine bind_rel hflush (fun ds1 dw1 _ h1 => ?_)
  obtain ⟨e1, e2⟩ := hcl.endT ds1.ctl dw1.ctl n h1.ctl
  have s1 : Disp.shouldStopRemoving ctl { ds1 with ctl := (ctl.endTag ds1.ctl n).1 } = false := by
    unfold Disp.shouldStopRemoving; simp [h1.emT]
  have s2 : Disp.shouldStopRemoving ctl { dw1 with ctl := (ctl.endTag dw1.ctl n).1 } = false := by
    unfold Disp.shouldStopRemoving; simp [h1.eq.em, h1.emT]
  simp only [s1, s2, Bool.false_eq_true, if_false]
  rw [← e1]
  exact applyHintFlags_sim (h1.setCtl e2) _

/-! ### repaying the text debt -/

theorem slice_length {α : Type} (xs : List α) {a b : Nat} (hb : b ≤ xs.length) : (LolHtml.slice xs a b).length = b - a := by
  unfold LolHtml.slice
  simp only [List.length_drop, List.length_take]
  omega

theorem slice_self {α : Type} (xs : List α) (a : Nat) : LolHtml.slice xs a a = [] := by
  unfold LolHtml.slice; simp

/-- the whole run's text lexeme `[a, x)` against the split run's remainder `[a + d, x)`, the first `d` bytes
having been delivered to the split run's dispatcher before -/
theorem textRepay_sim {E : γ → γ → Prop} {inpS inpW : Bytes} {δ : Nat} (F : Frame inpS inpW δ) (hcl : TextBlind ctl E)
    {ds dw : Disp γ} (pc a x d : Nat) (tt : TextType) (hk : DKt ctl E inpS inpW δ d ds dw)
    (hloc : ds.rcs = a + d - δ ∧ ds.textPendingStart = pc + δ + (a + d - δ) ∧ ds.lastTextType = tt ∧ ds.textPending = true)
    (hd : 0 < d) (hδ : δ ≤ a + d) (hx : a + d ≤ x) (o o' : Option NonTagOutline) :
    OpRel (DK0 E inpS inpW δ)
      (if a + d < x then ds.produceText ctl inpS ⟨pc + δ, ⟨a + d - δ, x - δ⟩, o⟩ tt else (ds, .ok ()))
      (dw.produceText ctl inpW ⟨pc, ⟨a, x⟩, o'⟩ tt) := by
  obtain ⟨l1, l2, l3, l4⟩ := hloc
  have hdS : E ds.ctl ds.ctl := (hcl.dom _ _ hk.ctl).1
  have hdW : E dw.ctl dw.ctl := hcl.dom_tok _ _ (hcl.dom _ _ hk.ctl).2
  have hl := F.len
  have hrd := hk.rcs_d
  have hri := hk.rcs_in
  have hbytes := hk.bytes.bytes
  rw [hk.emT] at hbytes
  simp only [if_true] at hbytes
  have hctl := hk.ctl
  have e1 : ds.rcs + δ - d = a := by omega
  have e2 : ds.rcs + δ = a + d := by omega
  have e3 : ds.textPendingStart - d = pc + a := by omega
  have e4 : ds.textPendingStart = pc + a + d := by omega
  rw [e1, e2, l3, e3, e4] at hctl
  rw [e2] at hbytes
  by_cases hlt : a + d < x
  · rw [if_pos hlt]
    rcases produceText_desc hcl ds hdS inpS ⟨pc + δ, ⟨a + d - δ, x - δ⟩, o⟩ tt with hp | ⟨rawb, a0, a1, a2, a3, a4, a5, a6, a7, a8, a9, a10, a11, a12, a13, a14⟩
    · exact Or.inl hp
    simp only at a0 a1 a3 a10 a13 a14
    obtain ⟨r1, r2, r3⟩ := checkedSlice_some a0
    simp only at r1 r2 r3
    rcases produceText_desc hcl dw hdW inpW ⟨pc, ⟨a, x⟩, o'⟩ tt with hp | ⟨rawb', b0, b1, b2, b3, b4, b5, b6, b7, b8, b9, b10, b11, b12, b13, b14⟩
    · exact (produceText_noPanic hcl dw hdW inpW ⟨pc, ⟨a, x⟩, o'⟩ tt (by simp only; omega) (by simp only; omega)
        (by simp only; omega) hp).elim
    simp only at b0 b1 b3 b10 b13 b14
    obtain ⟨q1, q2, q3⟩ := checkedSlice_some b0
    simp only at q1 q2 q3
    have hb2 : rawb = LolHtml.slice inpW (a + d) x := by
      rw [r3, ← F.slice r2]
      congr 1 <;> omega
    have hcat : rawb' = LolHtml.slice inpW a (a + d) ++ rawb := by
      rw [q3, hb2, slice_append_slice inpW (by omega) hx]
    have hlen1 : (LolHtml.slice inpW a (a + d)).length = d := by rw [slice_length inpW (by omega)]; omega
    have hlen2 : rawb.length = x - (a + d) := by rw [hb2, slice_length inpW q2]
    right
    refine ⟨by rw [a2, b2], fun _ => ?_⟩
    refine ⟨?_, ⟨by rw [a4, b4]; exact hk.eq.flags, by rw [a5, b5]; exact hk.eq.em, by rw [a7, b7]; exact hk.eq.gffh,
      by rw [a8, b8]; exact hk.eq.paux, by rw [a11, b11]; exact hk.eq.enc, by rw [a12, b12]; exact hk.eq.nenc⟩,
      ⟨by rw [a6, b6], by rw [a9, b9], by rw [a10, b10]; omega⟩,
      ⟨by rw [a13, b13]; omega, ?_⟩, by rw [a5]; exact hk.emT⟩
    · rw [a3, b3]
      have h1 := hcl.text_cong _ _ rawb tt false (srcOf (pc + δ) ⟨a + d - δ, x - δ⟩) hctl
      have h2 := hcl.text_split dw.ctl (LolHtml.slice inpW a (a + d)) rawb tt false (pc + a) hdW
      rw [hlen1, hlen2, ← hcat] at h2
      have es : srcOf (pc + δ) ⟨a + d - δ, x - δ⟩ = ⟨pc + a + d, pc + a + d + (x - (a + d))⟩ := by
        simp only [srcOf, Range.mk.injEq]; constructor <;> first | trivial | omega
      have ew : srcOf pc ⟨a, x⟩ = ⟨pc + a, pc + a + d + (x - (a + d))⟩ := by
        simp only [srcOf, Range.mk.injEq]; constructor <;> first | trivial | omega
      rw [es] at h1 ⊢
      rw [ew]
      exact hcl.trans _ _ _ h1 h2
    · rw [a14, b14, a13, b13, a5, hk.eq.em]
      simp only [hk.emT, if_true]
      rw [hbytes, l1, slice_self, hcat, show x - δ + δ = x from by omega, slice_self]
      simp only [List.append_nil, List.nil_append, List.append_assoc]
      rw [← List.append_assoc (LolHtml.slice inpW dw.rcs a), slice_append_slice inpW (by omega) (by omega)]
  · rw [if_neg hlt]
    have hxe : x = a + d := by omega
    subst hxe
    rcases produceText_desc hcl dw hdW inpW ⟨pc, ⟨a, a + d⟩, o'⟩ tt with hp | ⟨rawb', b0, b1, b2, b3, b4, b5, b6, b7, b8, b9, b10, b11, b12, b13, b14⟩
    · exact (produceText_noPanic hcl dw hdW inpW ⟨pc, ⟨a, a + d⟩, o'⟩ tt (by simp only; omega) (by simp only; omega)
        (by simp only; omega) hp).elim
    simp only at b0 b1 b3 b10 b13 b14
    obtain ⟨q1, q2, q3⟩ := checkedSlice_some b0
    simp only at q1 q2 q3
    right
    refine ⟨by rw [b2], fun _ => ?_⟩
    refine ⟨?_, ⟨by rw [b4]; exact hk.eq.flags, by rw [b5]; exact hk.eq.em, by rw [b7]; exact hk.eq.gffh,
      by rw [b8]; exact hk.eq.paux, by rw [b11]; exact hk.eq.enc, by rw [b12]; exact hk.eq.nenc⟩,
      ⟨by rw [b6, l3], by rw [b9, l4], by rw [b10]; show pc + (a + d) = ds.textPendingStart; omega⟩,
      ⟨by rw [b13]; show a + d ≤ ds.rcs + δ; omega, ?_⟩, hk.emT⟩
    · rw [b3, q3]
      have ew : srcOf pc ⟨a, a + d⟩ = ⟨pc + a, pc + a + d⟩ := by
        simp only [srcOf, Range.mk.injEq]; constructor <;> first | trivial | omega
      rw [ew]
      exact hctl
    · rw [b14, b13, hk.eq.em]
      simp only [hk.emT, if_true]
      rw [hbytes, e2, slice_self, q3, List.append_nil, slice_append_slice inpW (by omega) (by omega)]

/-! ### the dispatcher is a sink for the resumption proof -/

theorem OpRel.mono {κ α : Type} {R R' : κ → κ → Prop} {rs rw : κ × Except Err α} (h : OpRel R rs rw)
    (hm : ∀ a b, R a b → R' a b) : OpRel R' rs rw := by
  rcases h with hp | ⟨he, hk⟩
  · exact Or.inl hp
  · exact Or.inr ⟨he, fun hx => hm _ _ (hk hx)⟩

theorem handleNonTag_text (d : Disp γ) (input : Bytes) (pc : Nat) (raw : Range) (tt : TextType) :
    Disp.handleNonTag ctl input ⟨pc, raw, some (.text tt)⟩ d =
      if d.flags.text = true then d.produceText ctl input ⟨pc, raw, some (.text tt)⟩ tt else (d, .ok ()) := by
  unfold Disp.handleNonTag Disp.produceNonTag
  simp [NonTagLexeme.isText, DRes.bind]

theorem DK.dom {E : γ → γ → Prop} (hcl : TextBlind ctl E) {inpS inpW : Bytes} {δ d : Nat} {ds dw : Disp γ}
    (h : DK ctl E inpS inpW δ d ds dw) : E ds.ctl ds.ctl ∧ E dw.ctl dw.ctl := by
  unfold DK at h
  split at h
  · exact hcl.dom _ _ h.ctl
  · cases hf : ds.flags.text with
    | false => exact hcl.dom _ _ (h.1 hf).ctl
    | true => exact ⟨(hcl.dom _ _ (h.2 hf).ctl).1, hcl.dom_tok _ _ (hcl.dom _ _ (h.2 hf).ctl).2⟩

/-- **The dispatcher instance of `OpsSim`**, for every controller in the class `TextBlind`. -/
theorem dispOps_sim {E : γ → γ → Prop} {inpS inpW : Bytes} {δ : Nat} (F : Frame inpS inpW δ) (hcl : TextBlind ctl E) :
    OpsSim (dispOps ctl) inpS inpW δ (DK ctl E inpS inpW δ) DLoc where
  tag := fun pc raw o ks kw hk => (handleTag_sim F hcl (DK_zero.1 hk) pc raw o).mono (fun _ _ h => DK_zero.2 h)
  nonTag := fun pc raw o ks kw hk hdt => (handleNonTag_sim F hcl (DK_zero.1 hk) pc raw o hdt).mono (fun _ _ h => DK_zero.2 h)
  startHint := fun n ns ks kw hk => (startTagHint_sim hcl (DK_zero.1 hk) n ns).mono (fun _ _ h => DK_zero.2 h)
  endHint := fun n ks kw hk => (endTagHint_sim hcl (DK_zero.1 hk) n).mono (fun _ _ h => DK_zero.2 h)
  textOk := by
    intro pc raw tt d ks kw hk
    show EPanic (Disp.handleNonTag ctl inpS ⟨pc, raw, some (.text tt)⟩ ks).2 ∨ _
    rw [show (dispOps ctl).handleNonTag = Disp.handleNonTag ctl from rfl, handleNonTag_text]
    split
    · rcases produceText_desc hcl ks (hk.dom hcl).1 inpS ⟨pc, raw, some (.text tt)⟩ tt with hp | ⟨_, _, _, h2, _⟩
      · exact Or.inl hp
      · exact Or.inr h2
    · exact Or.inr rfl
  text := by
    intro pc a x d tt ks kw hk hloc hd hδ hx
    rw [show (dispOps ctl).handleNonTag = Disp.handleNonTag ctl from rfl, handleNonTag_text, handleNonTag_text]
    unfold DK at hk
    rw [if_neg (by omega)] at hk
    cases hft : ks.flags.text with
    | false =>
      have h0 := hk.1 hft
      rw [h0.eq.flags, hft]
      simp only [Bool.false_eq_true, if_false, ite_self]
      exact OpRel.ok () (DK_zero.2 h0)
    | true =>
      have ht := hk.2 hft
      rw [ht.eq.flags, hft]
      simp only [if_true]
      have hl : ks.rcs = a + d - δ ∧ ks.textPendingStart = pc + δ + (a + d - δ) ∧ ks.lastTextType = tt ∧
          ks.textPending = true := hloc hft
      exact (textRepay_sim F hcl pc a x d tt ht hl hd hδ hx _ _).mono (fun _ _ h => DK_zero.2 h)

end

end LolHtml.Model.Chunk
