import LolHtml.Lemmas.CtlHom
import LolHtml.Lemmas.HintCtlDefs
/-!
# The ghost "kind of the outstanding hint" is free: runs over `hintCtl ctl` are the runs over `ctl`
-/
set_option linter.unusedVariables false
namespace LolHtml.Model.Hint
open LolHtml LolHtml.Model LolHtml.Model.Hom
open LolHtml.Thm.C01 (writeAll run Rewriter.new)

variable {γ : Type}

theorem hintCtl_hom (ctl : Controller γ) : CtlHom (hintCtl ctl) ctl Prod.fst where
  initialFlags := fun _ => rfl
  startTag := fun _ _ _ => ⟨rfl, rfl⟩
  auxInfo := fun _ _ => ⟨rfl, rfl⟩
  endTag := fun _ _ => ⟨rfl, rfl⟩
  token := fun _ _ => ⟨rfl, rfl⟩
  shouldEmit := fun _ => rfl
  handleEnd := fun _ => ⟨rfl, rfl⟩
  bailOut := fun _ _ => ⟨rfl, rfl⟩

/-- **Every call of every run over `hintCtl w.ctl` returns what the same call of the run over `w.ctl` returns.** -/
theorem run_hint (w : World γ) (ht : EmitsChecked w.tbl = true) (g : γ) (b : Option Bool) (cfg : Settings) (cs : List Bytes) :
    (run (hintWorld w) (Rewriter.new (hintWorld w) (g, b) cfg) cs).2 = (run w (Rewriter.new w g cfg) cs).2 :=
  run_hom (w := w) (c' := hintCtl w.ctl) (f := Prod.fst) (hintCtl_hom w.ctl) ht (g, b) cfg cs

theorem hintCtl_clean {ctl : Controller γ} (hc : CtlClean ctl) : CtlClean (hintCtl ctl) where
  token := fun g t e h => hc.token g.1 t e h
  startTag := fun g n ns e h => hc.startTag g.1 n ns e h
  auxInfo := fun g i e h => hc.auxInfo g.1 i e h
  handleEnd := fun g e h => hc.handleEnd g.1 e h

end LolHtml.Model.Hint
