/-
Package `full`: the state invariant `Good cfg s` of the real controller model and its preservation by
every `TransformController` callback (whatever the callback returns):

  * `wf`  — the dispatcher's `HandlerVec` totals are synchronised with their items (every `cfg`);
  * `obs` — if no script mutates (`cfg.Observing`): no element is marked "content removed" and every
            stored end-tag handler is a pure observer.

`Model/FullCtl.lean` uses these lemmas to type the controller on the states satisfying `Good`.
-/
import LolHtml.Model.Full
import LolHtml.Lemmas.FullVec

namespace LolHtml.Model.Full
open LolHtml LolHtml.Model LolHtml.Model.Handlers LolHtml.EditModel LolHtml.Lemmas.Full

/-! ## Definitions -/

/-- a stored end-tag handler that changes nothing: no rename, no deferred mutations, user closures
that make no API call -/
def _root_.LolHtml.EditModel.EndTagHandler.Obs (h : EndTagHandler) : Prop :=
  h.modifiedName = none ∧ h.mutations = none ∧ ∀ ops ∈ h.user, ops = []

/-- **No script mutates**: token / end closures make no API call at all; element closures may only
register (non-mutating) end-tag closures. Closures may still fail. -/
structure Cfg.Observing (cfg : Cfg) : Prop where
  doctype : ∀ h k, (cyc (cfg.doctypeScripts h) k).1 = []
  comment : ∀ h k, (cyc (cfg.commentScripts h) k).1 = []
  text : ∀ h k, (cyc (cfg.textScripts h) k).1 = []
  end_ : ∀ h k, (cyc (cfg.endScripts h) k).1 = []
  element : ∀ h k, ∀ op ∈ (cyc (cfg.elementScripts h) k).1, op = ElementOp.onEndTag []

def Inv (s : St) : Prop := s.disp.removedContent = 0 ∧ ∀ p ∈ s.payloads, p.handler.Obs

structure Good (cfg : Cfg) (s : St) : Prop where
  wf : DispWf s.disp
  obs : cfg.Observing → Inv s

theorem Good.of_eq {cfg : Cfg} {s s' : St} (h : Good cfg s) (hd : s'.disp = s.disp)
    (hp : s'.payloads = s.payloads) : Good cfg s' :=
  ⟨hd ▸ h.wf, fun ho => by have := h.obs ho; unfold Inv at *; rw [hd, hp]; exact this⟩

/-! ### decidable version of `Observing` -/

def scriptsAll {α : Type} (p : List α → Bool) : Option (Scripts α) → Bool
  | some l => l.all fun sc => p sc.1
  | none => true

def elemOpObs : ElementOp → Bool
  | .onEndTag [] => true
  | _ => false

/-- Bool checker for `Cfg.Observing` -/
def Cfg.observing (cfg : Cfg) : Bool :=
  (cfg.sels.all fun e =>
    scriptsAll (fun ops => ops.all elemOpObs) e.2.element && scriptsAll List.isEmpty e.2.comments &&
      scriptsAll List.isEmpty e.2.text) &&
  (cfg.docs.all fun d =>
    scriptsAll List.isEmpty d.doctype && scriptsAll List.isEmpty d.comments &&
      scriptsAll List.isEmpty d.text && scriptsAll List.isEmpty d.end_)

theorem cyc_prop {α : Type} (P : List α → Prop) (hnil : P []) (l : Scripts α) (hl : ∀ sc ∈ l, P sc.1) (k : Nat) :
    P (cyc l k).1 := by
  unfold cyc
  split
  · rename_i x hx
    exact hl x (List.mem_of_getElem? hx)
  · exact hnil

theorem scriptsAll_prop {α : Type} (p : List α → Bool) (o : Option (Scripts α)) (h : scriptsAll p o = true)
    (hnil : p [] = true) (k : Nat) : p (cyc (orEmpty o) k).1 = true := by
  cases o with
  | none => simpa [orEmpty, cyc] using hnil
  | some l =>
    simp only [scriptsAll, List.all_eq_true] at h
    exact cyc_prop (fun x => p x = true) hnil l h k

theorem elemOpObs_eq {op : ElementOp} (h : elemOpObs op = true) : op = .onEndTag [] := by
  unfold elemOpObs at h
  split at h
  · rfl
  · simp at h

theorem Cfg.observing_sound (cfg : Cfg) (h : cfg.observing = true) : cfg.Observing := by
  simp only [Cfg.observing, Bool.and_eq_true, List.all_eq_true] at h
  obtain ⟨hs, hd⟩ := h
  have hnilE : (fun ops : List ElementOp => ops.all elemOpObs) [] = true := rfl
  constructor
  · intro hid k
    unfold Cfg.doctypeScripts
    split
    · rename_i d hd'
      have := scriptsAll_prop List.isEmpty d.doctype (hd d (List.mem_of_getElem? hd')).1.1.1 rfl k
      simpa using this
    · rfl
  · intro hid k
    unfold Cfg.commentScripts
    split
    · rename_i e he
      have := scriptsAll_prop List.isEmpty e.2.comments (hs e (List.mem_of_getElem? he)).1.2 rfl k
      simpa using this
    · split
      · rename_i d hd'
        have := scriptsAll_prop List.isEmpty d.comments (hd d (List.mem_of_getElem? hd')).1.1.2 rfl k
        simpa using this
      · rfl
  · intro hid k
    unfold Cfg.textScripts
    split
    · rename_i e he
      have := scriptsAll_prop List.isEmpty e.2.text (hs e (List.mem_of_getElem? he)).2 rfl k
      simpa using this
    · split
      · rename_i d hd'
        have := scriptsAll_prop List.isEmpty d.text (hd d (List.mem_of_getElem? hd')).1.2 rfl k
        simpa using this
      · rfl
  · intro hid k
    unfold Cfg.endScripts
    split
    · rename_i d hd'
      have := scriptsAll_prop List.isEmpty d.end_ (hd d (List.mem_of_getElem? hd')).2 rfl k
      simpa using this
    · rfl
  · intro hid k op hop
    unfold Cfg.elementScripts at hop
    split at hop
    · rename_i e he
      have := scriptsAll_prop (fun ops => ops.all elemOpObs) e.2.element (hs e (List.mem_of_getElem? he)).1.1 hnilE k
      simp only [List.all_eq_true] at this
      exact elemOpObs_eq (this op hop)
    · simp [cyc] at hop

/-! ## Frame lemmas: `removedContent` -/

theorem startMatching_removed {d d' : Dispatcher} {m : Nat} {wc : Bool}
    (hr : d.startMatching m wc = .ok d') : d'.removedContent = d.removedContent := by
  unfold Dispatcher.startMatching at hr
  split at hr
  · simp at hr
  · split at hr
    · simp at hr
    · split at hr
      · simp at hr
      · split at hr
        · simp at hr
        · simp only [Except.ok.injEq] at hr; subst hr; rfl

theorem startMatchingInfos_good {d d' : Dispatcher} (ms : List SelVM.MatchInfo)
    (hr : startMatchingInfos d ms = .ok d') (hw : DispWf d) :
    DispWf d' ∧ d'.removedContent = d.removedContent := by
  induction ms generalizing d with
  | nil => simp only [startMatchingInfos, Except.ok.injEq] at hr; subst hr; exact ⟨hw, rfl⟩
  | cons m ms ih =>
    unfold startMatchingInfos at hr
    split at hr
    · simp at hr
    · rename_i d1 h1
      obtain ⟨a, b⟩ := ih hr (startMatching_wf hw _ _ h1)
      exact ⟨a, by rw [b, startMatching_removed h1]⟩

theorem stopMatchingIds_removed {d d' : Dispatcher} (ms : List Nat)
    (hr : d.stopMatchingIds ms = .ok d') : d'.removedContent = d.removedContent := by
  induction ms generalizing d with
  | nil => simp only [Dispatcher.stopMatchingIds, Except.ok.injEq] at hr; subst hr; rfl
  | cons m ms ih =>
    unfold Dispatcher.stopMatchingIds at hr
    split at hr
    · simp at hr
    · rename_i d1 h1
      rw [ih hr]
      unfold Dispatcher.stopMatchingId at h1
      split at h1
      · simp at h1
      · split at h1
        · simp at h1
        · split at h1
          · simp at h1
          · simp only [Except.ok.injEq] at h1; subst h1; rfl

theorem stopMatching_removed0 {d d' : Dispatcher} {desc : ElementDescriptor}
    (hr : d.stopMatching desc = .ok d') (h0 : d.removedContent = 0) : d'.removedContent = 0 := by
  unfold Dispatcher.stopMatching at hr
  split at hr
  · simp at hr
  · rename_i d1 h1
    have e1 := stopMatchingIds_removed _ h1
    split at hr
    · simp at hr
    · split at hr
      · split at hr
        · simp at hr
        · rename_i r hsub
          simp only [checkedSub] at hsub
          split at hsub
          · simp only [Except.ok.injEq] at hsub hr
            subst hr
            show r = 0
            omega
          · simp at hsub
      · simp only [Except.ok.injEq] at hr
        subst hr
        show d1.removedContent = 0
        rw [e1, h0]

theorem stopMatchingPopped_good {d d' : Dispatcher} (its : List SelVM.StackItem) (des : List Desc)
    (hr : stopMatchingPopped d its des = .ok d') (hw : DispWf d) :
    DispWf d' ∧ (d.removedContent = 0 → d'.removedContent = 0) := by
  induction its generalizing d des with
  | nil => simp only [stopMatchingPopped, Except.ok.injEq] at hr; subst hr; exact ⟨hw, id⟩
  | cons it its ih =>
    cases des with
    | nil => simp only [stopMatchingPopped, Except.ok.injEq] at hr; subst hr; exact ⟨hw, id⟩
    | cons de des =>
      simp only [stopMatchingPopped] at hr
      split at hr
      · simp at hr
      · rename_i d1 h1
        obtain ⟨a, b⟩ := ih des hr (stopMatching_wf hw _ h1)
        exact ⟨a, fun h0 => b (stopMatching_removed0 h1 h0)⟩

/-! ## The closures only touch the counters and the log -/

theorem runClosures_frame {τ ω : Type} (scripts : HId → Scripts ω) (kind : Nat) (who : HId → Who)
    (see : τ → Seen) (apply : τ → List ω → τ) (src : Range) (hs : List HId) (s : St) (u : τ) :
    (runClosures scripts kind who see apply src hs s u).1.disp = s.disp ∧
    (runClosures scripts kind who see apply src hs s u).1.payloads = s.payloads ∧
    (runClosures scripts kind who see apply src hs s u).1.vm = s.vm ∧
    (runClosures scripts kind who see apply src hs s u).1.descs = s.descs ∧
    (runClosures scripts kind who see apply src hs s u).1.ord = s.ord ∧
    (runClosures scripts kind who see apply src hs s u).1.fault = s.fault := by
  induction hs generalizing s u with
  | nil => simp [runClosures]
  | cons h hs ih =>
    simp only [runClosures]
    split
    · simp
    · have := ih { s with inv := invBump s.inv (kind, h), log := ⟨who h, src, see u⟩ :: s.log }
        (apply u (cyc (scripts h) (invGet s.inv (kind, h))).1)
      simpa using this

/-- a property of the unit that every scripted invocation preserves holds of the final unit -/
theorem runClosures_unit {τ ω : Type} (scripts : HId → Scripts ω) (kind : Nat) (who : HId → Who)
    (see : τ → Seen) (apply : τ → List ω → τ) (src : Range) (P : τ → Prop)
    (hP : ∀ u h k, P u → P (apply u (cyc (scripts h) k).1)) (hs : List HId) (s : St) (u : τ) (hu : P u) :
    P (runClosures scripts kind who see apply src hs s u).2.1 := by
  induction hs generalizing s u with
  | nil => simpa [runClosures] using hu
  | cons h hs ih =>
    simp only [runClosures]
    split
    · exact hP u h _ hu
    · exact ih _ _ (hP u h _ hu)

theorem runEndTagUser_frame (src : Range) (subs : List (HId × Nat)) (user : List (List EndTagOp)) (s : St)
    (t : EndTag) :
    (runEndTagUser src subs user s t).1.disp = s.disp ∧ (runEndTagUser src subs user s t).1.payloads = s.payloads := by
  induction user generalizing subs s t with
  | nil => cases subs <;> simp [runEndTagUser]
  | cons ops user ih =>
    cases subs with
    | nil => simpa [runEndTagUser] using ih [] s (t.applyOps ops)
    | cons sub subs =>
      simp only [runEndTagUser]
      have := ih subs { s with log := ⟨.endTag sub.1 sub.2, src, seeEndTag t⟩ :: s.log } (t.applyOps ops)
      simpa using this

theorem runEndTagHandlers_frame (src : Range) (hs : List EndTagH) (s s' : St) (t t' : EndTag)
    (hr : runEndTagHandlers src hs s t = some (s', t')) : s'.disp = s.disp ∧ s'.payloads = s.payloads := by
  induction hs generalizing s t with
  | nil => simp only [runEndTagHandlers, Option.some.injEq, Prod.mk.injEq] at hr; rw [← hr.1]; exact ⟨rfl, rfl⟩
  | cons h hs ih =>
    simp only [runEndTagHandlers] at hr
    split at hr
    · simp at hr
    · rename_i p _
      obtain ⟨a, b⟩ := ih _ _ hr
      obtain ⟨c, d⟩ := runEndTagUser_frame src h.subs p.handler.user s
        (match p.handler.mutations with
          | some m => { (match p.handler.modifiedName with | some n => t.setNameRaw n | none => t) with mutations := m }
          | none => (match p.handler.modifiedName with | some n => t.setNameRaw n | none => t))
      simp only [runEndTagHandler] at a b
      exact ⟨a.trans c, b.trans d⟩

theorem runEndClosures_frame (cfg : Cfg) (hs : List HId) (s : St) (out : List Bytes) :
    (runEndClosures cfg hs s out).1.disp = s.disp ∧ (runEndClosures cfg hs s out).1.payloads = s.payloads := by
  induction hs generalizing s out with
  | nil => simp [runEndClosures]
  | cons h hs ih =>
    simp only [runEndClosures]
    split
    · simp
    · have := ih { s with inv := invBump s.inv (kEnd, h), log := ⟨.end_ h, ⟨0, 0⟩, .docEnd⟩ :: s.log }
        (out ++ ((cyc (cfg.endScripts h) (invGet s.inv (kEnd, h))).1.map fun c => encUtf8 c.2 c.1).filter fun b => !b.isEmpty)
      simpa using this

/-! ## Observing element scripts -/

/-- what observing element closures leave invariant in the `Element` -/
def ElemObs (st : StartTag) (e : Element) : Prop :=
  e.startTag = st ∧ e.endTagMutations = none ∧ e.modifiedEndTagName = none ∧ ∀ ops ∈ e.endTagHandlers, ops = []

theorem elemObs_apply {st : StartTag} {e : Element} (h : ElemObs st e) : ElemObs st (e.apply (.onEndTag [])) := by
  simp only [Element.apply]
  split
  · obtain ⟨a, b, c, d⟩ := h
    refine ⟨a, b, c, ?_⟩
    intro ops hops
    simp only [List.mem_append, List.mem_singleton] at hops
    rcases hops with hops | rfl
    · exact d ops hops
    · rfl
  · exact h

theorem elemObs_applyOps {st : StartTag} (ops : List ElementOp) (hops : ∀ op ∈ ops, op = ElementOp.onEndTag [])
    {e : Element} (h : ElemObs st e) : ElemObs st (e.applyOps ops) := by
  induction ops generalizing e with
  | nil => exact h
  | cons op ops ih =>
    have : op = ElementOp.onEndTag [] := hops op (by simp)
    subst this
    exact ih (fun o ho => hops o (by simp [ho])) (elemObs_apply h)

theorem elemActOf_obs (chc : Bool) (ops : List ElementOp) (hops : ∀ op ∈ ops, op = ElementOp.onEndTag []) :
    (elemActOf chc ops).removeContent = false ∧ (elemActOf chc ops).endTagMutation = false := by
  unfold elemActOf
  suffices ∀ a : ElemAct, a.removeContent = false → a.endTagMutation = false →
      (ops.foldl (fun a op =>
        let b := opAct chc op
        (⟨a.onEndTag + b.onEndTag, a.removeContent || b.removeContent, a.endTagMutation || b.endTagMutation⟩ : ElemAct)) a).removeContent = false ∧
      (ops.foldl (fun a op =>
        let b := opAct chc op
        (⟨a.onEndTag + b.onEndTag, a.removeContent || b.removeContent, a.endTagMutation || b.endTagMutation⟩ : ElemAct)) a).endTagMutation = false from
    this _ rfl rfl
  induction ops with
  | nil => intro a h1 h2; exact ⟨h1, h2⟩
  | cons op ops ih =>
    intro a h1 h2
    have : op = ElementOp.onEndTag [] := hops op (by simp)
    subst this
    simp only [List.foldl_cons]
    exact ih (fun o ho => hops o (by simp [ho])) _ (by simp [h1, opAct]) (by simp [h2, opAct])

theorem intoEndTagHandler_obs {st : StartTag} {e : Element} (h : ElemObs st e) {x : EndTagHandler}
    (hx : e.intoEndTagHandler = some x) : x.Obs := by
  unfold Element.intoEndTagHandler at hx
  split at hx
  · simp only [Option.some.injEq] at hx
    subst hx
    exact ⟨h.2.2.1, h.2.1, h.2.2.2⟩
  · simp at hx

/-! ## `handle_start_tag` of the dispatcher: `removedContent` -/

theorem handleStartTag_removed {d d' : Dispatcher} (script : ElemScript) (ord : Nat)
    (cur : Option ElementDescriptor) {desc : Option ElementDescriptor} {inv : List Invocation}
    (hr : d.handleStartTag script ord cur = .ok (d', desc, inv))
    (hs : ∀ h, (script h ord).removeContent = false) : d'.removedContent = d.removedContent := by
  unfold Dispatcher.handleStartTag at hr
  split at hr
  · simp at hr
  · rename_i el invoked hel
    have hany : (invoked.any fun h => (script h ord).removeContent) = false := by
      simp [hs]
    dsimp only at hr
    split at hr
    · split at hr
      · simp only [hany] at hr
        split at hr
        · simp only [Except.ok.injEq, Prod.mk.injEq] at hr
          rw [← hr.1]
          simp
        · simp only [Except.ok.injEq, Prod.mk.injEq] at hr
          rw [← hr.1]
          simp
      · simp only [Except.ok.injEq, Prod.mk.injEq] at hr
        rw [← hr.1]
    · simp only [Except.ok.injEq, Prod.mk.injEq] at hr
      rw [← hr.1]

/-! ## Preservation of `Good` by the callbacks -/

variable {cfg : Cfg}

theorem fromSettings_removed (sels : List SelReg) (docs : List DocReg) :
    (Dispatcher.fromSettings sels docs).removedContent = 0 := by
  unfold Dispatcher.fromSettings
  have h1 : ∀ (d : Dispatcher), d.removedContent = 0 →
      (sels.foldl Dispatcher.addSelectorAssociatedHandlers d).removedContent = 0 := by
    induction sels with
    | nil => intro d h; exact h
    | cons r rs ih =>
      intro d h
      exact ih _ (by simp only [Dispatcher.addSelectorAssociatedHandlers]; exact h)
  have h2 : ∀ (rs : List DocReg) (d : Dispatcher) (base : Nat), d.removedContent = 0 →
      (d.addDocs base rs).removedContent = 0 := by
    intro rs
    induction rs with
    | nil => intro d _ h; exact h
    | cons r rs ih =>
      intro d base h
      apply ih
      simp only [Dispatcher.addDocumentContentHandlers]
      split <;> split <;> split <;> split <;> exact h
  exact h2 _ _ _ (h1 _ rfl)

theorem init_good (cfg : Cfg) : Good cfg (St.init cfg) :=
  ⟨fromSettings_wf _ _, fun _ => ⟨fromSettings_removed _ _, fun p hp => by simp [St.init] at hp⟩⟩

theorem afterVm_good {s : St} (h : Good cfg s) (n : Nat) (vm' : SelVM.Vm) (infos : List SelVM.MatchInfo) :
    Good cfg (s.afterVm n vm' infos).1 := by
  unfold St.afterVm
  split
  · exact h
  · rename_i d hd
    obtain ⟨hw, hrm⟩ := startMatchingInfos_good infos hd h.wf
    exact ⟨hw, fun ho => ⟨by show d.removedContent = 0; rw [hrm]; exact (h.obs ho).1, (h.obs ho).2⟩⟩

theorem startTagCore_good {s : St} (h : Good cfg s) (name : LocalName) (ns : Model.Ns) :
    Good cfg (startTagCore s name ns).1 := by
  unfold startTagCore
  split
  · exact h
  · rename_i vm _
    split
    · exact h
    · dsimp only
      split <;> exact afterVm_good h _ _ _
    · exact h.of_eq rfl rfl

theorem startTag_good {s : St} (h : Good cfg s) (name : LocalName) (ns : Model.Ns) :
    Good cfg (startTag s name ns).1 := by
  unfold startTag
  split
  · exact h
  · exact startTagCore_good (s := { s with ord := s.ord + 1 }) (h.of_eq rfl rfl) name ns

theorem auxInfo_good {s : St} (h : Good cfg s) (info : AuxInfo) : Good cfg (auxInfo s info).1 := by
  unfold auxInfo
  split
  · split
    · exact h
    · split
      · exact h
      · exact afterVm_good h _ _ _
  · exact h

theorem endTag_good {s : St} (h : Good cfg s) (name : LocalName) : Good cfg (endTag s name).1 := by
  unfold endTag
  split
  · exact h
  · split
    · exact h.of_eq rfl rfl
    · split
      · dsimp only
        split
        · exact h.of_eq rfl rfl
        · rename_i d hd
          obtain ⟨hw, hrm⟩ := stopMatchingPopped_good _ _ hd h.wf
          exact ⟨hw, fun ho => ⟨hrm (h.obs ho).1, (h.obs ho).2⟩⟩
      · exact h.of_eq rfl rfl

theorem tokDoctype_good {s : St} (h : Good cfg s) (n p q : Option Bytes) (raw : Bytes) (src : Range) :
    Good cfg (tokDoctype cfg s n p q raw src).1 := by
  unfold tokDoctype
  obtain ⟨a, b, _⟩ := runClosures_frame cfg.doctypeScripts kDoctype Who.doctype
    (fun _ => Seen.doctype (n.map asciiLowerBytes) p q) Doctype.applyOps src s.disp.doctype.forEachActive s
    ({ raw := raw } : Doctype)
  exact h.of_eq a b

theorem tokComment_good {s : St} (h : Good cfg s) (text raw : Bytes) (src : Range) :
    Good cfg (tokComment cfg s text raw src).1 := by
  unfold tokComment
  obtain ⟨a, b, _⟩ := runClosures_frame cfg.commentScripts kComment Who.comment seeComment Comment.applyOps src
    s.disp.comment.forEachActive s ({ text := text, raw := raw } : Comment)
  exact h.of_eq a b

theorem tokText_good {s : St} (h : Good cfg s) (bytes : Bytes) (last : Bool) (src : Range) :
    Good cfg (tokText cfg s bytes last src).1 := by
  unfold tokText
  obtain ⟨a, b, _⟩ := runClosures_frame cfg.textScripts kText Who.text seeText TextChunk.applyOps src
    s.disp.text.forEachActive s ({ text := bytes, lastInTextNode := last } : TextChunk)
  exact h.of_eq a b

theorem tokEndTag_good {s : St} (h : Good cfg s) (name raw : Bytes) (src : Range) :
    Good cfg (tokEndTag s name raw src).1 := by
  unfold tokEndTag
  split
  · exact h
  · rename_i et hs het
    have hw : DispWf { s.disp with endTag := et } :=
      ⟨h.wf.doctype, h.wf.comment, h.wf.text, removeTail_wf het, h.wf.element, h.wf.end_⟩
    dsimp only
    split
    · exact ⟨hw, fun ho => ⟨(h.obs ho).1, (h.obs ho).2⟩⟩
    · rename_i s' t' hrun
      obtain ⟨a, b⟩ := runEndTagHandlers_frame _ _ _ _ _ _ hrun
      refine ⟨by show DispWf s'.disp; rw [a]; exact hw, fun ho => ⟨?_, ?_⟩⟩
      · show s'.disp.removedContent = 0
        rw [a]; exact (h.obs ho).1
      · intro p hp
        simp only [List.mem_filter] at hp
        rw [b] at hp
        exact (h.obs ho).2 p hp.1

theorem tokStartTag_good {s : St} (h : Good cfg s) (name : Bytes) (attrs : List (Bytes × Bytes × AttrOutline))
    (ns : Model.Ns) (sc : Bool) (raw : Bytes) (src : Range) (base : Nat) :
    Good cfg (tokStartTag cfg s name attrs ns sc raw src base).1 := by
  unfold tokStartTag
  split
  · split
    · exact h
    · rename_i as _
      dsimp only
      generalize hst : (if 0 < s.disp.removedContent then
        StartTag.apply { name := name, attributes := as, ns := nsEdit ns, selfClosing := sc, raw := raw } (StartTagOp.mut MutOp.remove)
        else { name := name, attributes := as, ns := nsEdit ns, selfClosing := sc, raw := raw }) = st
      obtain ⟨fa, fb, _⟩ := runClosures_frame cfg.elementScripts kElement Who.element (seeElement ns)
        Element.applyOps src s.disp.element.forEachActive s (Element.new st s.disp.nextElementCanHaveContent)
      have hs1 : Good cfg (runClosures cfg.elementScripts kElement Who.element (seeElement ns)
          Element.applyOps src s.disp.element.forEachActive s (Element.new st s.disp.nextElementCanHaveContent)).1 :=
        h.of_eq fa fb
      generalize hrun : runClosures cfg.elementScripts kElement Who.element (seeElement ns)
          Element.applyOps src s.disp.element.forEachActive s (Element.new st s.disp.nextElementCanHaveContent) = r
        at hs1 fa fb
      split
      · exact hs1
      · split
        · exact hs1
        · rename_i d desc _ hh
          have hw := handleStartTag_wf hs1.wf _ _ _ hh
          refine ⟨hw, fun ho => ?_⟩
          have hrm : d.removedContent = r.1.disp.removedContent :=
            handleStartTag_removed _ _ _ hh (fun hid => (elemActOf_obs _ _ (ho.element hid _)).1)
          refine ⟨by show d.removedContent = 0; rw [hrm]; exact (hs1.obs ho).1, ?_⟩
          show ∀ p ∈ (if d.endTag.items.length > r.1.disp.endTag.items.length then
              match r.2.1.intoEndTagHandler with
              | some h => r.1.payloads ++ [⟨r.1.ord, h⟩]
              | none => r.1.payloads
            else r.1.payloads), p.handler.Obs
          have hel : ElemObs st r.2.1 := by
            rw [← hrun]
            exact runClosures_unit cfg.elementScripts kElement Who.element (seeElement ns) Element.applyOps src
              (ElemObs st) (fun u hid k hu => elemObs_applyOps _ (ho.element hid k) hu) _ _ _
              ⟨rfl, rfl, rfl, fun _ hx => by simp [Element.new] at hx⟩
          intro p hp
          split at hp
          · split at hp
            · rename_i x hx
              simp only [List.mem_append, List.mem_singleton] at hp
              rcases hp with hp | rfl
              · exact (hs1.obs ho).2 p hp
              · exact intoEndTagHandler_obs hel hx
            · exact (hs1.obs ho).2 p hp
          · exact (hs1.obs ho).2 p hp
  · exact h

theorem token_good {s : St} (h : Good cfg s) (t : Model.Token) : Good cfg (token cfg s t).1 := by
  unfold token
  split
  · exact h
  · split
    · exact tokStartTag_good h ..
    · exact tokEndTag_good h ..
    · exact tokComment_good h ..
    · exact tokDoctype_good h ..
    · exact tokText_good h ..

theorem handleEnd_good {s : St} (h : Good cfg s) : Good cfg (handleEnd cfg s).1 := by
  unfold handleEnd
  split
  · exact h
  · split
    · exact h
    · rename_i en hs hen
      obtain ⟨a, b⟩ := runEndClosures_frame cfg hs { s with disp := { s.disp with end_ := en } } []
      refine ⟨?_, fun ho => ⟨?_, ?_⟩⟩
      · show DispWf (runEndClosures cfg hs { s with disp := { s.disp with end_ := en } } []).1.disp
        rw [a]
        exact ⟨h.wf.doctype, h.wf.comment, h.wf.text, h.wf.endTag, h.wf.element, removeTail_wf hen⟩
      · show (runEndClosures cfg hs { s with disp := { s.disp with end_ := en } } []).1.disp.removedContent = 0
        rw [a]; exact (h.obs ho).1
      · show ∀ p ∈ (runEndClosures cfg hs { s with disp := { s.disp with end_ := en } } []).1.payloads, p.handler.Obs
        rw [b]; exact (h.obs ho).2

end LolHtml.Model.Full
