import LolHtml.Lemmas.TbBody7
/-!
"in table" in the body phase (also as the fall-back of "in table body" and "in row").
-/
namespace LolHtml.Spec.TreeBuilder
open LolHtml.Model (Ns)

variable {c : Cfg} {s : State}

/-- the start tags "in table body" / "in row" / "in table" treat by rebuilding the table structure -/
def tableStructNames : List Name := [.caption, .col, .colgroup, .tbody, .tfoot, .thead, .td, .th, .tr]

/-- side conditions of `end_side` for a concrete name -/
syntax "end_side_tac" ident : tactic
macro_rules
  | `(tactic| end_side_tac $hLd:ident) => `(tactic|
    (intro n h; cases h; refine end_side _ _ ?_ ?_
     · first | decide | exact ⟨nofun, nofun⟩
     · first | (left; decide) | (left; exact other_isIn _ _ (by decide))
             | (right; rcases $hLd:ident with h | h | h <;> (rw [h]; decide))))

set_option maxHeartbeats 16000000 in
theorem inTable_body (hleg : c.legacySelect = false) (hI : Inv false s) (hB : BInv s) (hph : BodyPhase s)
    (L : List Name)
    (hLc : (s.mode = .inTable ∧ L = [.table]) ∨ (s.mode = .inTableBody ∧ L = secNames) ∨ (s.mode = .inRow ∧ L = [.tr]))
    (t : Token) (htok : TokB s t)
    (hcall : s.mode ≠ .inTable → ∀ n sc a, t = .start n sc a → n.isIn tableStructNames = false) :
    BodyPost s (inTable c s t) := by
  have hAT := AT.ofInv hI hB
  have h1 : s.mode ≠ .text := by rcases hLc with h | h | h <;> simp [h.1]
  have h2 : s.mode ≠ .inTableText := by rcases hLc with h | h | h <;> simp [h.1]
  have hL : modeAnchors s.mode = some L := by rcases hLc with h | h | h <;> simp [h.1, h.2, modeAnchors]
  have hLd : L = [.table] ∨ L = secNames ∨ L = [.tr] := by rcases hLc with h | h | h <;> simp [h.2]
  obtain ⟨a0, r0, hA, ha0⟩ := hB.anchor h1 h2 L hL
  cases t with
  | char cc =>
    simp only [inTable, inTableAnythingElse, Res.again]
    split
    · exact bstep_toTableText hB hph h1 h2
    · exact inBody_fall hleg hI hB hph h1 h2 L hL _ htok (fun n h => by cases h)
  | comment => exact bstep_same hB hph
  | doctype d => exact bstep_same hB hph
  | eof => exact inBody_fall hleg hI hB hph h1 h2 L hL _ htok (fun n h => by cases h)
  | «end» n =>
    cases n
    all_goals eval_rule [inTable, inTableAnythingElse, inHead, State.hasOnStack, hasOnStack_template_false hI.tree]
    all_goals (repeat' split)
    all_goals (try simp only [Bool.not_eq_true', Bool.not_eq_true, Bool.not_eq_false, Bool.not_eq_false'] at *)
    all_goals first
      | exact bstep_same hB hph
      | exact bstep_reset hleg hI hB ‹_›
      | (refine inBody_fall hleg hI hB hph h1 h2 L hL _ htok ?_; end_side_tac hLd)
  | start n sc a =>
    have htk := htok n sc a rfl
    by_cases hc : n.isIn tableStructNames = true
    · have hmt : s.mode = .inTable := Classical.byContradiction fun h => by rw [hcall h n sc a rfl] at hc; cases hc
      have hLt : L = [.table] := by rcases hLc with h | h | h <;> simp_all
      subst hLt
      have hclr : popWhileNot (·.isHtmlIn [.table, .template, .html]) s.tree.stack = a0 :: r0 := by
        refine popWhileNot_anchor _ ?_ _ a0 r0 hA ?_
        · intro n hn; cases n <;> simp [Name.isIn] at hn <;> decide
        · have := isHtmlIn_name ha0
          have hnm : a0.name = .table := by simpa [Name.isIn] using this.2
          simp [El.isHtmlIn, this.1, hnm, Name.isIn]
      cases n <;> simp [tableStructNames, Name.isIn] at hc
      all_goals eval_rule [inTable]
      all_goals
        (show BStep _ _
         apply bstep_push hB hA
         case hst =>
           show _ :: popWhileNot _ s.tree.stack = _
           rw [hclr]
         case hm => rfl
         case hform => rfl
         case hfo => rfl
         case hx =>
           first
             | exact Or.inl ⟨rfl, ha0, rfl⟩
             | exact Or.inr (Or.inl ⟨rfl, ha0, rfl⟩)
             | exact Or.inr (Or.inr (Or.inl ⟨rfl, ha0, rfl⟩)))
    · have hc' : n.isIn tableStructNames = false := by simpa using hc
      cases n <;> (try (exfalso; revert hc'; decide))
      all_goals (try (exfalso; first | exact htk.1 rfl | exact htk.2.1 rfl | exact htk.2.2.1 rfl))
      all_goals eval_rule [inTable, inTableAnythingElse, inHead, rawText, State.hasOnStack, hasOnStack_template_false hI.tree]
      all_goals (repeat' split)
      all_goals (try simp only [Bool.not_eq_true', Bool.not_eq_true, Bool.not_eq_false, Bool.not_eq_false'] at *)
      all_goals first
        | exact inBody_fall hleg hI hB hph h1 h2 L hL _ htok (fun n h => by cases h)
        | exact bstep_reset hleg hI hB ‹_›
        | body_branch hAT hB hph h1 h2

end LolHtml.Spec.TreeBuilder
