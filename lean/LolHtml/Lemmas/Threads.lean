/-
Lemmas for `Model/Threads.lean`: under the side-condition every thread's view of the globals is constant;
the sequential prediction of one instance; the unwinding (non-interference) theorem `run_agree`.
-/
import LolHtml.Model.Threads

namespace LolHtml.Lemmas.Threads
open LolHtml.Model.Threads
open LolHtml.Model.CApi (Tid ErrMsg)

variable {S : Sys} {items : List Item}

theorem classAt_of_noShared (h : noSharedMutable items = true) (j : Nat) :
    classAt items j = .immutable ∨ classAt items j = .lastError := by
  unfold classAt
  cases hj : items[j]? with
  | none => exact Or.inl rfl
  | some x =>
    have hx : x ∈ items := List.mem_of_getElem? hj
    have := List.all_eq_true.mp h x hx
    simpa using this

/-- With no mutable shared item (and no stray `thread_local!`), whatever the adversary did, every thread
    reads the initial values. -/
theorem view_const (h : noSharedMutable items = true) (w : World S) (t : Tid) :
    view items w t = S.g0 := by
  funext j
  rcases classAt_of_noShared h j with hc | hc <;> simp only [view, hc]

@[simp] theorem run_nil (w : World S) : run items w [] = w := rfl
@[simp] theorem run_cons (w : World S) (e : Event S) (σ : List (Event S)) :
    run items w (e :: σ) = run items (exec items w e) σ := rfl

theorem run_append (w : World S) (σ τ : List (Event S)) :
    run items w (σ ++ τ) = run items (run items w σ) τ := by
  simp [run, List.foldl_append]

theorem record_of_ne {le : Tid → Option ErrMsg} {t t' : Tid} (m : Option ErrMsg) (h : t' ≠ t) :
    record le t m t' = le t' := by
  cases m <;> simp [record, upd, h]

theorem record_congr {le₁ le₂ : Tid → Option ErrMsg} (t : Tid) (m : Option ErrMsg) (t' : Tid)
    (h : le₁ t' = le₂ t') : record le₁ t m t' = record le₂ t m t' := by
  cases m <;> simp [record, upd, h]

/-! ## Sequential prediction -/

theorem instOps_cons_inst (i i' : Nat) (t : Tid) (o : S.Call) (adv) (σ : List (Event S)) :
    instOps i ((⟨t, .inst i' o, adv⟩ : Event S) :: σ) = if i' = i then o :: instOps i σ else instOps i σ := rfl

/-- From any world: instance `i`'s slot and observations after a schedule are the fold of the sequential step
    (reading only the initial globals) over the calls made on `i`. -/
theorem run_inst_obs (h : noSharedMutable items = true) (i : Nat) (σ : List (Event S)) (w : World S) :
    ((run items w σ).inst i, (run items w σ).obs i) = (instOps i σ).foldl (seqStep S) (w.inst i, w.obs i) := by
  induction σ generalizing w with
  | nil => rfl
  | cons e rest ih =>
    rw [run_cons, ih]
    obtain ⟨t, op, adv⟩ := e
    cases op with
    | inst i' o =>
      rw [instOps_cons_inst]
      by_cases hi : i' = i
      · subst hi
        simp [exec, call, disturb, upd, seqStep, view_const h]
      · have hi' : ¬ i = i' := fun h => hi h.symm
        simp [exec, call, disturb, upd, hi, hi']
    | migrate i' to => simp [exec, call, disturb, instOps]
    | takeLastError => simp [exec, call, disturb, instOps]
    | parseSelector s => simp [exec, call, disturb, instOps]

theorem instOps_filter_touches (i : Nat) (σ : List (Event S)) :
    instOps i (σ.filter (Event.touches i)) = instOps i σ := by
  induction σ with
  | nil => rfl
  | cons e rest ih =>
    obtain ⟨t, op, adv⟩ := e
    cases op with
    | inst i' o =>
      by_cases hi : i' = i
      · subst hi
        simp [Event.touches, Event.instOf, instOps_cons_inst, ih]
      · simp [Event.touches, Event.instOf, instOps_cons_inst, ih, hi]
    | migrate i' to =>
      by_cases hi : i' = i <;> simp [Event.touches, Event.instOf, instOps, ih, hi]
    | takeLastError => simp [Event.touches, Event.instOf, instOps, ih]
    | parseSelector s => simp [Event.touches, Event.instOf, instOps, ih]

/-! ## Unwinding -/

/-- Two worlds agree on the instances in `SI` and on the thread-level state of the threads in `ST`. -/
structure Agree (SI : Nat → Prop) (ST : Tid → Prop) (w₁ w₂ : World S) : Prop where
  inst : ∀ i, SI i → w₁.inst i = w₂.inst i
  owner : ∀ i, SI i → w₁.owner i = w₂.owner i
  obs : ∀ i, SI i → w₁.obs i = w₂.obs i
  lastErr : ∀ t, ST t → w₁.lastErr t = w₂.lastErr t
  tobs : ∀ t, ST t → w₁.tobs t = w₂.tobs t

variable {SI : Nat → Prop} {ST : Tid → Prop}

theorem Agree.refl (w : World S) : Agree SI ST w w :=
  ⟨fun _ _ => rfl, fun _ _ => rfl, fun _ _ => rfl, fun _ _ => rfl, fun _ _ => rfl⟩

/-- The same event executed in two agreeing worlds keeps them agreeing, provided a thread of interest only
    calls instances of interest. -/
theorem exec_both (h : noSharedMutable items = true) (w₁ w₂ : World S) (e : Event S)
    (ha : Agree SI ST w₁ w₂) (hc : ST e.tid → ∀ i, e.instOf = some i → SI i) :
    Agree SI ST (exec items w₁ e) (exec items w₂ e) := by
  obtain ⟨t, op, adv⟩ := e
  cases op with
  | inst i o =>
    refine ⟨?_, ?_, ?_, ?_, ?_⟩
    · intro j hj
      by_cases hji : j = i
      · subst hji; simp [exec, call, disturb, upd, view_const h, ha.inst j hj]
      · simp [exec, call, disturb, upd, hji, ha.inst j hj]
    · intro j hj
      by_cases hji : j = i
      · subst hji; simp [exec, call, disturb, upd, ha.owner j hj]
      · simp [exec, call, disturb, upd, hji, ha.owner j hj]
    · intro j hj
      by_cases hji : j = i
      · subst hji; simp [exec, call, disturb, upd, view_const h, ha.inst j hj, ha.obs j hj]
      · simp [exec, call, disturb, upd, hji, ha.obs j hj]
    · intro t' ht'
      by_cases htt : t' = t
      · subst htt
        have hi : SI i := hc ht' i rfl
        simp only [exec, call, disturb, view_const h, ha.inst i hi]
        exact record_congr _ _ _ (ha.lastErr t' ht')
      · simp only [exec, call, disturb]
        rw [record_of_ne _ htt, record_of_ne _ htt]; exact ha.lastErr t' ht'
    · intro t' ht'; simp [exec, call, disturb, ha.tobs t' ht']
  | migrate i to =>
    refine ⟨fun j hj => ?_, fun j hj => ?_, fun j hj => ?_, fun t' ht' => ?_, fun t' ht' => ?_⟩
    · simp [exec, call, disturb, ha.inst j hj]
    · by_cases hji : j = i <;> simp [exec, call, disturb, upd, hji, ha.owner j hj]
    · simp [exec, call, disturb, ha.obs j hj]
    · simp [exec, call, disturb, ha.lastErr t' ht']
    · simp [exec, call, disturb, ha.tobs t' ht']
  | takeLastError =>
    refine ⟨fun j hj => ?_, fun j hj => ?_, fun j hj => ?_, fun t' ht' => ?_, fun t' ht' => ?_⟩
    · simp [exec, call, disturb, ha.inst j hj]
    · simp [exec, call, disturb, ha.owner j hj]
    · simp [exec, call, disturb, ha.obs j hj]
    · by_cases htt : t' = t <;> simp [exec, call, disturb, upd, htt, ha.lastErr t' ht']
    · by_cases htt : t' = t
      · subst htt; simp [exec, call, disturb, upd, ha.lastErr t' ht', ha.tobs t' ht']
      · simp [exec, call, disturb, upd, htt, ha.tobs t' ht']
  | parseSelector s =>
    refine ⟨fun j hj => ?_, fun j hj => ?_, fun j hj => ?_, fun t' ht' => ?_, fun t' ht' => ?_⟩
    · simp [exec, call, disturb, ha.inst j hj]
    · simp [exec, call, disturb, ha.owner j hj]
    · simp [exec, call, disturb, ha.obs j hj]
    · simp only [exec, call, disturb, view_const h]
      exact record_congr _ _ _ (ha.lastErr t' ht')
    · by_cases htt : t' = t
      · subst htt; simp [exec, call, disturb, upd, view_const h, ha.tobs t' ht']
      · simp [exec, call, disturb, upd, htt, ha.tobs t' ht']

/-- An event that concerns no instance of interest and is not made by a thread of interest is invisible. -/
theorem exec_skip (w₁ w₂ : World S) (e : Event S) (ha : Agree SI ST w₁ w₂)
    (hi : ∀ i, e.instOf = some i → ¬ SI i) (ht : ¬ ST e.tid) :
    Agree SI ST (exec items w₁ e) w₂ := by
  obtain ⟨t, op, adv⟩ := e
  have hne : ∀ t', ST t' → t' ≠ t := fun t' h' heq => ht (heq ▸ h')
  cases op with
  | inst i o =>
    have hni : ∀ j, SI j → j ≠ i := fun j hj heq => hi i rfl (heq ▸ hj)
    refine ⟨fun j hj => ?_, fun j hj => ?_, fun j hj => ?_, fun t' ht' => ?_, fun t' ht' => ?_⟩
    · simp [exec, call, disturb, upd, hni j hj, ha.inst j hj]
    · simp [exec, call, disturb, upd, hni j hj, ha.owner j hj]
    · simp [exec, call, disturb, upd, hni j hj, ha.obs j hj]
    · simp only [exec, call, disturb]; rw [record_of_ne _ (hne t' ht')]; exact ha.lastErr t' ht'
    · simp [exec, call, disturb, ha.tobs t' ht']
  | migrate i to =>
    have hni : ∀ j, SI j → j ≠ i := fun j hj heq => hi i rfl (heq ▸ hj)
    refine ⟨fun j hj => ?_, fun j hj => ?_, fun j hj => ?_, fun t' ht' => ?_, fun t' ht' => ?_⟩
    · simp [exec, call, disturb, ha.inst j hj]
    · simp [exec, call, disturb, upd, hni j hj, ha.owner j hj]
    · simp [exec, call, disturb, ha.obs j hj]
    · simp [exec, call, disturb, ha.lastErr t' ht']
    · simp [exec, call, disturb, ha.tobs t' ht']
  | takeLastError =>
    refine ⟨fun j hj => ?_, fun j hj => ?_, fun j hj => ?_, fun t' ht' => ?_, fun t' ht' => ?_⟩
    · simp [exec, call, disturb, ha.inst j hj]
    · simp [exec, call, disturb, ha.owner j hj]
    · simp [exec, call, disturb, ha.obs j hj]
    · simp [exec, call, disturb, upd, hne t' ht', ha.lastErr t' ht']
    · simp [exec, call, disturb, upd, hne t' ht', ha.tobs t' ht']
  | parseSelector s =>
    refine ⟨fun j hj => ?_, fun j hj => ?_, fun j hj => ?_, fun t' ht' => ?_, fun t' ht' => ?_⟩
    · simp [exec, call, disturb, ha.inst j hj]
    · simp [exec, call, disturb, ha.owner j hj]
    · simp [exec, call, disturb, ha.obs j hj]
    · simp only [exec, call, disturb]; rw [record_of_ne _ (hne t' ht')]; exact ha.lastErr t' ht'
    · simp [exec, call, disturb, upd, hne t' ht', ha.tobs t' ht']

/-- **Unwinding.** Let `keep` select a sub-schedule that contains every event on an instance of interest and
    every event of a thread of interest, where threads of interest call only instances of interest. Then
    deleting all other events changes nothing about those instances and threads. -/
theorem run_agree (h : noSharedMutable items = true) (keep : Event S → Bool) (σ : List (Event S))
    (hA : ∀ e ∈ σ, ∀ i, e.instOf = some i → SI i → keep e = true)
    (hB : ∀ e ∈ σ, ST e.tid → keep e = true)
    (hC : ∀ e ∈ σ, ST e.tid → ∀ i, e.instOf = some i → SI i)
    (w₁ w₂ : World S) (ha : Agree SI ST w₁ w₂) :
    Agree SI ST (run items w₁ σ) (run items w₂ (σ.filter keep)) := by
  induction σ generalizing w₁ w₂ with
  | nil => exact ha
  | cons e rest ih =>
    have hA' : ∀ e ∈ rest, ∀ i, e.instOf = some i → SI i → keep e = true :=
      fun e' he' => hA e' (List.mem_cons_of_mem _ he')
    have hB' : ∀ e ∈ rest, ST e.tid → keep e = true := fun e' he' => hB e' (List.mem_cons_of_mem _ he')
    have hC' : ∀ e ∈ rest, ST e.tid → ∀ i, e.instOf = some i → SI i :=
      fun e' he' => hC e' (List.mem_cons_of_mem _ he')
    by_cases hk : keep e = true
    · rw [List.filter_cons_of_pos hk, run_cons, run_cons]
      exact ih hA' hB' hC' _ _ (exec_both h w₁ w₂ e ha (hC e (List.mem_cons_self ..)))
    · rw [List.filter_cons_of_neg hk, run_cons]
      refine ih hA' hB' hC' _ _ (exec_skip w₁ w₂ e ha ?_ ?_)
      · intro i hi hsi; exact hk (hA e (List.mem_cons_self ..) i hi hsi)
      · intro hst; exact hk (hB e (List.mem_cons_self ..) hst)

end LolHtml.Lemmas.Threads
