import LolHtml.Lemmas.ChunkParse
/-!
`Parser::parse` in the two runs: the inputs end together (`plock`), or the split input ends first
(`popen`).
-/
namespace LolHtml.Model.Chunk
open LolHtml LolHtml.Model

variable {κ : Type}

def PanicRes (r : Except Err Nat) : Prop := ∃ s, r = .error (.panic s)

/-- results of two parses whose inputs end together -/
def ResRel (tbl : Table) (fs : FlagMap) (inpW : Bytes) (δ : Nat) (K : Nat → κ → κ → Prop)
    (Loc : κ → Nat → Nat → TextType → Prop) (last : Bool)
    (ps' pw' : Parser κ) : Except Err Nat → Except Err Nat → Prop
  | .ok c, .ok c' => ∃ d', c' + d' = c + δ ∧ K d' ps'.x.sink pw'.x.sink ∧
      (last = false → PRelM tbl fs inpW d' d' 0 ps' (ps'.machine false) pw' (pw'.machine false)) ∧
      d' = 0 ∧
      (last = false → lexStart (ps'.machine false).r = 0 ∧
        (0 < d' → ∃ pc0, ps'.x.prevConsumed = pc0 + c ∧ Loc ps'.x.sink pc0 c (ps'.machine false).c.lastTextType))
  | .error e, .error e' => e' = e
  | _, _ => False

section
variable {env : Env κ} {inpS inpW : Bytes} {δ : Nat} {K : Nat → κ → κ → Prop} {Loc : κ → Nat → Nat → TextType → Prop}

theorem spanic_sig {sig : Signal} (h : SPanic (some sig)) : ∃ s, sig = .err (.panic s) := by
  cases sig with
  | err e => cases e <;> first | exact ⟨_, rfl⟩ | exact h.elim
  | directive d b => exact h.elim
  | endOfInput c => exact h.elim

/-- **Parse, the two inputs ending together.** -/
theorem plock (F : Frame inpS inpW δ) (hcl : Closed inpS inpW δ) (hops : OpsSim env.ops inpS inpW δ K Loc)
    {fs : FlagMap} (hwf : WfChunkWith env.tbl fs = true) (last : Bool) {ps ps' : Parser κ} {ms : M κ} {rs : Except Err Nat}
    (hr : PRunsM env inpS last ps ms ps' rs) : ∀ {d skip : Nat} {pw : Parser κ} {mw : M κ},
    PRelM env.tbl fs inpW δ d skip ps ms pw mw → ms.c.isLast = last → K d ms.x.sink mw.x.sink →
    (0 < d → Loc ms.x.sink ms.x.prevConsumed (lexStart ms.r) ms.c.lastTextType) →
    PanicRes rs ∨ ∃ pw' rw, PRunsM env inpW last pw mw pw' rw ∧ ResRel env.tbl fs inpW δ K Loc last ps' pw' rs rw := by
  induction hr with
  | @eoi p m m' c hrun =>
    intro d skip pw mw hp hl hK hloc
    rcases lock_runs F hcl hops hwf hrun hp.b hK hloc with hpan | ⟨mw', sig', hrw, hlo⟩
    · exact hpan.elim
    · rcases hlo with hpan | hlo
      · exact hpan.elim
      · cases sig' with
        | err e => exact hlo.elim
        | directive d' b' => exact hlo.elim
        | endOfInput c' =>
          obtain ⟨_, d', h1, h2, h3, h4, h5, h6, h7, h8⟩ := hlo
          right
          have hsk1 : (bump (p.store m') c).x.sink = m'.x.sink := by simp [bump, store_x]
          have hsk2 : (bump (pw.store mw') c').x.sink = mw'.x.sink := by simp [bump, store_x]
          have hlocOut : last = false → lexStart ((bump (p.store m') c).machine false).r = 0 ∧
              (0 < d' → ∃ pc0, (bump (p.store m') c).x.prevConsumed = pc0 + c ∧
                Loc (bump (p.store m') c).x.sink pc0 c ((bump (p.store m') c).machine false).c.lastTextType) := by
            intro hlast
            subst hlast
            obtain ⟨hk1, hl1⟩ := hrun.stable
            have hks : isLex m'.r = dirLex p.directive := by rw [hk1]; exact hp.kindS
            have hms : (p.store m').machine false = m' := store_machine p m' false hks (by rw [hl1]; exact hl)
            rw [bump_machine, hms]
            exact ⟨h8 (by rw [hl1]; exact hl), fun hd => ⟨m'.x.prevConsumed, by simp [bump, store_x], by rw [hsk1]; exact h7 hd⟩⟩
          refine ⟨_, _, PRunsM.eoi hrw, d', h1, (by rw [hsk1, hsk2]; exact h2), fun hlast => ?_,
            h6, hlocOut⟩
          subst hlast
          obtain ⟨hk1, hl1⟩ := hrun.stable
          obtain ⟨hk2, hl2⟩ := hrw.stable
          have hlw : mw.c.isLast = false := by
            obtain ⟨⟨_, hbr, _⟩, _⟩ := hp.b
            rw [hbr.c.isLast]; exact hl
          have hks : isLex m'.r = dirLex p.directive := by rw [hk1]; exact hp.kindS
          have hkw : isLex mw'.r = dirLex pw.directive := by rw [hk2]; exact hp.kindW
          have hms : (p.store m').machine false = m' := store_machine p m' false hks (by rw [hl1]; exact hl)
          have hmw : (pw.store mw').machine false = mw' := store_machine pw mw' false hkw (by rw [hl2]; exact hlw)
          refine ⟨by simp [bump, store_directive, hp.dir], ⟨?_, ?_⟩, ?_, ?_, ?_⟩
          · rw [bump_machine, bump_machine, hms, hmw]
            exact (h5 (by rw [hl1]; exact hl)).congr_pc _ _
          · rw [bump_machine, bump_machine, hms, hmw]
            show m'.x.prevConsumed + c = mw'.x.prevConsumed + c' + d'
            have h4' : m'.x.prevConsumed = mw'.x.prevConsumed + δ := h4
            omega
          · have := store_idle hp.idle hp.dir hks hkw
            exact this
          · rw [bump_machine, hms]; simpa [bump, store_directive] using hks
          · rw [bump_machine, hmw]; simpa [bump, store_directive] using hkw
  | @dir p p' m m' dr bm r hrun _ ih =>
    intro d skip pw mw hp hl hK hloc
    rcases lock_runs F hcl hops hwf hrun hp.b hK hloc with hpan | ⟨mw', sig', hrw, hlo⟩
    · exact hpan.elim
    · rcases hlo with hpan | hlo
      · exact hpan.elim
      · cases sig' with
        | err e => exact hlo.elim
        | endOfInput c' => exact hlo.elim
        | directive dr' bm' =>
          obtain ⟨⟨hdr, hbm⟩, ab'', hm, hk0, hsi⟩ := hlo
          subst hdr
          obtain ⟨hk1, hl1⟩ := hrun.stable
          obtain ⟨hk2, hl2⟩ := hrw.stable
          have hks : isLex m'.r = dirLex p.directive := by rw [hk1]; exact hp.kindS
          have hkw : isLex mw'.r = dirLex pw.directive := by rw [hk2]; exact hp.kindW
          have hi2 := idle2_of_store hp.idle hp.dir hks hkw hm hsi
          have hrel := load_rel (inpW := inpW) hwf last dr' hbm hi2 (by rw [store_x, store_x]; exact hm.sim)
            (by rw [store_x, store_x]; exact hm.pc)
          have hl' : ((loadBookmark env dr' bm (p.store m')).machine last).c.isLast = last := by
            cases dr' <;> rfl
          rcases ih hrel hl' (by
              have e1 : ((loadBookmark env dr' bm (p.store m')).machine last).x = m'.x := by
                cases dr' <;> simp [loadBookmark, Parser.machine, store_x]
              have e2 : ((loadBookmark env dr' bm' (pw.store mw')).machine last).x = mw'.x := by
                cases dr' <;> simp [loadBookmark, Parser.machine, store_x]
              rw [e1, e2]; exact hk0) (fun hh => absurd hh (Nat.lt_irrefl 0)) with hpan | ⟨pw', rw', hpr, hres⟩
          · exact Or.inl hpan
          · exact Or.inr ⟨pw', rw', PRunsM.dir hrw hpr, hres⟩
  | @errI p m m' s hrun =>
    intro d skip pw mw hp hl hK hloc
    rcases lock_runs F hcl hops hwf hrun hp.b hK hloc with hpan | ⟨mw', sig', hrw, hlo⟩
    · obtain ⟨s', hs'⟩ := spanic_sig hpan; cases hs'
    · rcases hlo with hpan | hlo
      · obtain ⟨s', hs'⟩ := spanic_sig hpan; cases hs'
      · cases sig' with
        | directive d' b' => exact hlo.elim
        | endOfInput c' => exact hlo.elim
        | err e =>
          have : e = .internal s := hlo
          subst this
          exact Or.inr ⟨_, _, PRunsM.errI hrw, rfl⟩
  | @err p m m' e hrun hne =>
    intro d skip pw mw hp hl hK hloc
    rcases lock_runs F hcl hops hwf hrun hp.b hK hloc with hpan | ⟨mw', sig', hrw, hlo⟩
    · obtain ⟨s', hs'⟩ := spanic_sig hpan
      cases hs'
      exact Or.inl ⟨s', rfl⟩
    · rcases hlo with hpan | hlo
      · obtain ⟨s', hs'⟩ := spanic_sig hpan
        cases hs'
        exact Or.inl ⟨s', rfl⟩
      · cases sig' with
        | directive d' b' => exact hlo.elim
        | endOfInput c' => exact hlo.elim
        | err e' =>
          have : e' = e := hlo
          subst this
          exact Or.inr ⟨_, _, PRunsM.err hrw hne, rfl⟩

theorem store_idle_left {ps pw : Parser κ} {ms : M κ} (h : IdleRel ps pw) (hs : isLex ms.r = dirLex ps.directive) :
    IdleRel (ps.store ms) pw := by
  unfold IdleRel at h ⊢
  rw [store_directive]
  obtain ⟨cs, rs, xs⟩ := ms
  cases hdir : ps.directive with
  | lex =>
    rw [hdir] at h hs
    cases rs with
    | scanner s => cases hs
    | lexer ls => exact h
  | scan =>
    rw [hdir] at h hs
    cases rs with
    | lexer s => cases hs
    | scanner ss => exact h

theorem BCore.kind {tbl : Table} {fs : FlagMap} {d skip : Nat} {ms mw : M κ} (h : BCore tbl fs inpW δ d skip ms mw) :
    isLex mw.r = isLex ms.r := by
  obtain ⟨sm, hbr, _⟩ := h
  have hr := hbr.r
  obtain ⟨cs, rs, xs⟩ := ms
  obtain ⟨cw, rw, xw⟩ := mw
  cases rs <;> cases rw <;> first | rfl | exact hr.elim

theorem pruns_cont {pw : Parser κ} {mw mw1 : M κ} (hc : ∀ m' s, Runs env inpW mw1 m' s → Runs env inpW mw m' s)
    {p' : Parser κ} {r : Except Err Nat} (h : PRunsM env inpW false pw mw1 p' r) : PRunsM env inpW false pw mw p' r := by
  cases h with
  | eoi hr => exact PRunsM.eoi (hc _ _ hr)
  | dir hr hp => exact PRunsM.dir (hc _ _ hr) hp
  | errI hr => exact PRunsM.errI (hc _ _ hr)
  | err hr hne => exact PRunsM.err (hc _ _ hr) hne

/-- **Parse, the split input ending first** (not last): either the same error in both runs, or the split
parse returns `ok consumed` and the whole parse has reached, inside its `run_parsing_loop`, a machine
`mw1` related to the split parser in the frame `δ + consumed`. -/
theorem popen (F : Frame inpS inpW δ) (hops : OpsSim env.ops inpS inpW δ K Loc)
    {fs : FlagMap} (hwf : WfChunkWith env.tbl fs = true) {ps ps' : Parser κ} {ms : M κ} {rs : Except Err Nat}
    (hr : PRunsM env inpS false ps ms ps' rs) : ∀ {d skip : Nat} {pw : Parser κ} {mw : M κ},
    PRelM env.tbl fs inpW δ d skip ps ms pw mw → ms.c.isLast = false → K d ms.x.sink mw.x.sink →
    (0 < d → Loc ms.x.sink ms.x.prevConsumed (lexStart ms.r) ms.c.lastTextType) →
    PanicRes rs ∨
    (∃ e pw', rs = .error e ∧ PRunsM env inpW false pw mw pw' (.error e)) ∨
    (∃ c, rs = .ok c ∧ ∃ (d1 d' skip' : Nat) (x0 : Ctx κ) (pwk : Parser κ) (mw1 : M κ),
      (∀ p' r, PRunsM env inpW false pwk mw1 p' r → PRunsM env inpW false pw mw p' r) ∧
      K d1 x0.sink mw1.x.sink ∧
      SinkBrk env.ops Loc inpS d1 d' x0 ps'.x.sink c (ps'.machine false).c.lastTextType ∧
      lexStart (ps'.machine false).r = 0 ∧ ps'.x.prevConsumed = x0.prevConsumed + c ∧
      PRelM env.tbl fs inpW (δ + c) d' skip' ps' (ps'.machine false) pwk mw1) := by
  induction hr with
  | @eoi p m m' c hrun =>
    intro d skip pw mw hp hl hK hloc
    rcases open_runs F hops hwf hrun hl hp.b hK hloc with hpan | ⟨mw', sig', hrw, hlo⟩ | ⟨d1, x0, mw1, hcont, hk1, hs1, hp1, hbo⟩
    · exact hpan.elim
    · rcases hlo with hpan | hlo
      · exact hpan.elim
      · cases sig' with
        | err e => exact hlo.elim
        | directive d' b' => exact hlo.elim
        | endOfInput c' => obtain ⟨he, _⟩ := hlo; cases he
    · rcases hbo with hpan | ⟨c0, d', skip', hsig, hcore, hsim, hpc, hsink, hls0⟩
      · exact hpan.elim
      · simp only [Option.some.injEq, Signal.endOfInput.injEq] at hsig
        subst hsig
        right; right
        obtain ⟨hk1', hl1⟩ := hrun.stable
        have hks : isLex m'.r = dirLex p.directive := by rw [hk1']; exact hp.kindS
        have hms : (p.store m').machine false = m' := store_machine p m' false hks (by rw [hl1]; exact hl)
        have hmb : (bump (p.store m') c).machine false = { m' with x := (bump (p.store m') c).x } := by
          rw [bump_machine, hms]; simp only [bump, store_x]
        refine ⟨c, rfl, d1, d', skip', x0, pw, mw1, fun p' r h => pruns_cont hcont h, hk1,
          by rw [hmb]; simpa [bump, store_x] using hsink, by rw [hmb]; exact hls0,
          by simp only [bump, store_x]; rw [hpc], ?_⟩
        refine ⟨by simp [bump, store_directive, hp.dir], ⟨?_, ?_⟩, ?_, ?_, ?_⟩
        · rw [bump_machine, hms]
          have := hcore.congr_pc (m'.x.prevConsumed + c) mw1.x.prevConsumed
          exact this
        · rw [bump_machine, hms]
          show m'.x.prevConsumed + c = mw1.x.prevConsumed + (δ + c)
          have e1 : m'.x.prevConsumed = x0.prevConsumed := hpc
          omega
        · exact store_idle_left hp.idle hks
        · rw [bump_machine, hms]; simpa [bump, store_directive] using hks
        · rw [hcore.kind, hks, hp.dir]
  | @dir p p' m m' dr bm r hrun _ ih =>
    intro d skip pw mw hp hl hK hloc
    rcases open_runs F hops hwf hrun hl hp.b hK hloc with hpan | ⟨mw', sig', hrw, hlo⟩ | ⟨d1, x0, mw1, hcont, hk1, hs1, hp1, hbo⟩
    · exact hpan.elim
    · rcases hlo with hpan | hlo
      · exact hpan.elim
      · cases sig' with
        | err e => exact hlo.elim
        | endOfInput c' => exact hlo.elim
        | directive dr' bm' =>
          obtain ⟨⟨hdr, hbm⟩, ab'', hm, hk0, hsi⟩ := hlo
          subst hdr
          obtain ⟨hk1, hl1⟩ := hrun.stable
          obtain ⟨hk2, hl2⟩ := hrw.stable
          have hks : isLex m'.r = dirLex p.directive := by rw [hk1]; exact hp.kindS
          have hkw : isLex mw'.r = dirLex pw.directive := by rw [hk2]; exact hp.kindW
          have hi2 := idle2_of_store hp.idle hp.dir hks hkw hm hsi
          have hrel := load_rel (inpW := inpW) hwf false dr' hbm hi2 (by rw [store_x, store_x]; exact hm.sim)
            (by rw [store_x, store_x]; exact hm.pc)
          have hl' : ((loadBookmark env dr' bm (p.store m')).machine false).c.isLast = false := by
            cases dr' <;> rfl
          have e1 : ((loadBookmark env dr' bm (p.store m')).machine false).x = m'.x := by
            cases dr' <;> simp [loadBookmark, Parser.machine, store_x]
          have e2 : ((loadBookmark env dr' bm' (pw.store mw')).machine false).x = mw'.x := by
            cases dr' <;> simp [loadBookmark, Parser.machine, store_x]
          rcases ih hrel hl' (by rw [e1, e2]; exact hk0) (fun hh => absurd hh (Nat.lt_irrefl 0)) with hpan | ⟨e, pw', h1, h2⟩ | ⟨c, h1, d1, d', skip', x0, pwk, mw1, hcont, h2, h3, h4, h5, h6⟩
          · exact Or.inl hpan
          · exact Or.inr (Or.inl ⟨e, pw', h1, PRunsM.dir hrw h2⟩)
          · exact Or.inr (Or.inr ⟨c, h1, d1, d', skip', x0, pwk, mw1, fun p' r h => PRunsM.dir hrw (hcont p' r h), h2, h3, h4, h5, h6⟩)
    · rcases hbo with hpan | ⟨c0, d', skip', hsig, _⟩
      · exact hpan.elim
      · cases hsig
  | @errI p m m' s hrun =>
    intro d skip pw mw hp hl hK hloc
    rcases open_runs F hops hwf hrun hl hp.b hK hloc with hpan | ⟨mw', sig', hrw, hlo⟩ | ⟨d1, x0, mw1, hcont, hk1, hs1, hp1, hbo⟩
    · obtain ⟨s', hs'⟩ := spanic_sig hpan; cases hs'
    · rcases hlo with hpan | hlo
      · obtain ⟨s', hs'⟩ := spanic_sig hpan; cases hs'
      · cases sig' with
        | directive d' b' => exact hlo.elim
        | endOfInput c' => exact hlo.elim
        | err e =>
          have : e = .internal s := hlo
          subst this
          exact Or.inr (Or.inl ⟨_, _, rfl, PRunsM.errI hrw⟩)
    · rcases hbo with hpan | ⟨c0, d', skip', hsig, _⟩
      · obtain ⟨s', hs'⟩ := spanic_sig hpan; cases hs'
      · cases hsig
  | @err p m m' e hrun hne =>
    intro d skip pw mw hp hl hK hloc
    rcases open_runs F hops hwf hrun hl hp.b hK hloc with hpan | ⟨mw', sig', hrw, hlo⟩ | ⟨d1, x0, mw1, hcont, hk1, hs1, hp1, hbo⟩
    · obtain ⟨s', hs'⟩ := spanic_sig hpan
      cases hs'
      exact Or.inl ⟨s', rfl⟩
    · rcases hlo with hpan | hlo
      · obtain ⟨s', hs'⟩ := spanic_sig hpan
        cases hs'
        exact Or.inl ⟨s', rfl⟩
      · cases sig' with
        | directive d' b' => exact hlo.elim
        | endOfInput c' => exact hlo.elim
        | err e' =>
          have : e' = e := hlo
          subst this
          exact Or.inr (Or.inl ⟨_, _, rfl, PRunsM.err hrw hne⟩)
    · rcases hbo with hpan | ⟨c0, d', skip', hsig, _⟩
      · obtain ⟨s', hs'⟩ := spanic_sig hpan
        cases hs'
        exact Or.inl ⟨s', rfl⟩
      · cases hsig

end
end LolHtml.Model.Chunk
