import LolHtml.Lemmas.ChunkParse
/-!
`Parser::parse` in the two runs: the inputs end together (`plock`), or the split input ends first
(`popen`).
-/
namespace LolHtml.Model.Chunk
open LolHtml LolHtml.Model

variable {κ : Type}

def PanicRes (r : Except Err Nat) : Prop := ∃ s, r = .error (.panic s)

/-- results of two parses whose inputs end together -/
def ResRel (tbl : Table) (fs : FlagMap) (inpW : Bytes) (δ : Nat) (K : Nat → κ → κ → Prop) (last : Bool)
    (ps' pw' : Parser κ) : Except Err Nat → Except Err Nat → Prop
  | .ok c, .ok c' => ∃ d', c' + d' = c + δ ∧ K d' ps'.x.sink pw'.x.sink ∧
      (last = false → PRelM tbl fs inpW d' d' 0 ps' (ps'.machine false) pw' (pw'.machine false))
  | .error e, .error e' => e' = e
  | _, _ => False

section
variable {env : Env κ} {inpS inpW : Bytes} {δ : Nat} {K : Nat → κ → κ → Prop}

theorem spanic_sig {sig : Signal} (h : SPanic (some sig)) : ∃ s, sig = .err (.panic s) := by
  cases sig with
  | err e => cases e <;> first | exact ⟨_, rfl⟩ | exact h.elim
  | directive d b => exact h.elim
  | endOfInput c => exact h.elim

/-- **Parse, the two inputs ending together.** -/
theorem plock (F : Frame inpS inpW δ) (hcl : Closed inpS inpW δ) (hops : OpsSim env.ops inpS inpW δ K)
    {fs : FlagMap} (hwf : WfChunkWith env.tbl fs = true) (last : Bool) {ps ps' : Parser κ} {ms : M κ} {rs : Except Err Nat}
    (hr : PRunsM env inpS last ps ms ps' rs) : ∀ {d skip : Nat} {pw : Parser κ} {mw : M κ},
    PRelM env.tbl fs inpW δ d skip ps ms pw mw → ms.c.isLast = last → K d ms.x.sink mw.x.sink →
    PanicRes rs ∨ ∃ pw' rw, PRunsM env inpW last pw mw pw' rw ∧ ResRel env.tbl fs inpW δ K last ps' pw' rs rw := by
  induction hr with
  | @eoi p m m' c hrun =>
    intro d skip pw mw hp hl hK
    rcases lock_runs F hcl hops hwf hrun hp.b hK with hpan | ⟨mw', sig', hrw, hlo⟩
    · exact hpan.elim
    · rcases hlo with hpan | hlo
      · exact hpan.elim
      · cases sig' with
        | err e => exact hlo.elim
        | directive d' b' => exact hlo.elim
        | endOfInput c' =>
          obtain ⟨_, d', h1, h2, h3, h4, h5⟩ := hlo
          right
          have hsk1 : (bump (p.store m') c).x.sink = m'.x.sink := by simp [bump, store_x]
          have hsk2 : (bump (pw.store mw') c').x.sink = mw'.x.sink := by simp [bump, store_x]
          refine ⟨_, _, PRunsM.eoi hrw, d', h1, (by rw [hsk1, hsk2]; exact h2), fun hlast => ?_⟩
          subst hlast
          obtain ⟨hk1, hl1⟩ := hrun.stable
          obtain ⟨hk2, hl2⟩ := hrw.stable
          have hlw : mw.c.isLast = false := by
            obtain ⟨⟨_, hbr, _⟩, _⟩ := hp.b
            rw [hbr.c.isLast]; exact hl
          have hks : isLex m'.r = dirLex p.directive := by rw [hk1]; exact hp.kindS
          have hkw : isLex mw'.r = dirLex pw.directive := by rw [hk2]; exact hp.kindW
          have hms : (p.store m').machine false = m' := store_machine p m' false hks (by rw [hl1]; exact hl)
          have hmw : (pw.store mw').machine false = mw' := store_machine pw mw' false hkw (by rw [hl2]; exact hlw)
          refine ⟨by simp [bump, store_directive, hp.dir], ⟨?_, ?_⟩, ?_, ?_, ?_⟩
          · rw [bump_machine, bump_machine, hms, hmw]
            exact (h5 (by rw [hl1]; exact hl)).congr_pc _ _
          · rw [bump_machine, bump_machine, hms, hmw]
            show m'.x.prevConsumed + c = mw'.x.prevConsumed + c' + d'
            have h4' : m'.x.prevConsumed = mw'.x.prevConsumed + δ := h4
            omega
          · have := store_idle hp.idle hp.dir hks hkw
            exact this
          · rw [bump_machine, hms]; simpa [bump, store_directive] using hks
          · rw [bump_machine, hmw]; simpa [bump, store_directive] using hkw
  | @dir p p' m m' dr bm r hrun _ ih =>
    intro d skip pw mw hp hl hK
    rcases lock_runs F hcl hops hwf hrun hp.b hK with hpan | ⟨mw', sig', hrw, hlo⟩
    · exact hpan.elim
    · rcases hlo with hpan | hlo
      · exact hpan.elim
      · cases sig' with
        | err e => exact hlo.elim
        | endOfInput c' => exact hlo.elim
        | directive dr' bm' =>
          obtain ⟨⟨hdr, hbm⟩, ab'', hm, hk0, hsi⟩ := hlo
          subst hdr
          obtain ⟨hk1, hl1⟩ := hrun.stable
          obtain ⟨hk2, hl2⟩ := hrw.stable
          have hks : isLex m'.r = dirLex p.directive := by rw [hk1]; exact hp.kindS
          have hkw : isLex mw'.r = dirLex pw.directive := by rw [hk2]; exact hp.kindW
          have hi2 := idle2_of_store hp.idle hp.dir hks hkw hm hsi
          have hrel := load_rel (inpW := inpW) hwf last dr' hbm hi2 (by rw [store_x, store_x]; exact hm.sim)
            (by rw [store_x, store_x]; exact hm.pc)
          have hl' : ((loadBookmark env dr' bm (p.store m')).machine last).c.isLast = last := by
            cases dr' <;> rfl
          rcases ih hrel hl' (by
              have e1 : ((loadBookmark env dr' bm (p.store m')).machine last).x = m'.x := by
                cases dr' <;> simp [loadBookmark, Parser.machine, store_x]
              have e2 : ((loadBookmark env dr' bm' (pw.store mw')).machine last).x = mw'.x := by
                cases dr' <;> simp [loadBookmark, Parser.machine, store_x]
              rw [e1, e2]; exact hk0) with hpan | ⟨pw', rw', hpr, hres⟩
          · exact Or.inl hpan
          · exact Or.inr ⟨pw', rw', PRunsM.dir hrw hpr, hres⟩
  | @errI p m m' s hrun =>
    intro d skip pw mw hp hl hK
    rcases lock_runs F hcl hops hwf hrun hp.b hK with hpan | ⟨mw', sig', hrw, hlo⟩
    · obtain ⟨s', hs'⟩ := spanic_sig hpan; cases hs'
    · rcases hlo with hpan | hlo
      · obtain ⟨s', hs'⟩ := spanic_sig hpan; cases hs'
      · cases sig' with
        | directive d' b' => exact hlo.elim
        | endOfInput c' => exact hlo.elim
        | err e =>
          have : e = .internal s := hlo
          subst this
          exact Or.inr ⟨_, _, PRunsM.errI hrw, rfl⟩
  | @err p m m' e hrun hne =>
    intro d skip pw mw hp hl hK
    rcases lock_runs F hcl hops hwf hrun hp.b hK with hpan | ⟨mw', sig', hrw, hlo⟩
    · obtain ⟨s', hs'⟩ := spanic_sig hpan
      cases hs'
      exact Or.inl ⟨s', rfl⟩
    · rcases hlo with hpan | hlo
      · obtain ⟨s', hs'⟩ := spanic_sig hpan
        cases hs'
        exact Or.inl ⟨s', rfl⟩
      · cases sig' with
        | directive d' b' => exact hlo.elim
        | endOfInput c' => exact hlo.elim
        | err e' =>
          have : e' = e := hlo
          subst this
          exact Or.inr ⟨_, _, PRunsM.err hrw hne, rfl⟩

end
end LolHtml.Model.Chunk
